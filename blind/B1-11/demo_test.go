// Place in . ; run: go test -vet=off -count=1 -run TestDemo storj.io/picobuf
package picobuf_test

import (
	"testing"

	"storj.io/picobuf"
)

type demoNested struct{ v []byte }

func (m *demoNested) Encode(c *picobuf.Encoder) bool {
	c.Message(1, func(c *picobuf.Encoder) bool { c.Bytes(1, &m.v); return true })
	return true
}

func (m *demoNested) Decode(c *picobuf.Decoder) {
	c.Message(1, func(c *picobuf.Decoder) { c.Bytes(1, &m.v) })
}

func TestDemo(t *testing.T) {
	// outer field 1 holds a sub-message whose field 1 has wire type Fixed32
	// although the schema expects Bytes.
	in := []byte{0x0a, 0x05, 0x0d, 0x00, 0x00, 0x00, 0x00}
	var m demoNested
	if err := picobuf.Unmarshal(in, &m); err == nil {
		t.Fatal("wrong wire type inside a sub-message was accepted")
	}
}
