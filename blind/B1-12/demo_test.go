// Place in picoconv ; run: go test -vet=off -count=1 -run TestDemo storj.io/picobuf/picoconv
package picoconv

import (
	"testing"
	"time"

	"storj.io/picobuf"
)

type demoDurMsg struct{ v Duration }

func (m *demoDurMsg) Encode(c *picobuf.Encoder) bool { m.v.PicoEncode(c, 1); return true }
func (m *demoDurMsg) Decode(c *picobuf.Decoder)      { m.v.PicoDecode(c, 1) }

func TestDemo(t *testing.T) {
	// The largest whole number of seconds a time.Duration can hold.
	for _, d := range []time.Duration{9223372036 * time.Second, -9223372036 * time.Second} {
		data, err := picobuf.Marshal(&demoDurMsg{v: Duration(d)})
		if err != nil {
			t.Fatal(err)
		}
		var back demoDurMsg
		if err := picobuf.Unmarshal(data, &back); err != nil {
			t.Fatal(err)
		}
		if time.Duration(back.v) != d {
			t.Fatalf("round trip changed %d into %d", d, back.v)
		}
	}
}
