// Place in internal/bitset ; run: go test -vet=off -count=1 -run TestDemo storj.io/picobuf/internal/bitset
package bitset

import "testing"

func TestDemo(t *testing.T) {
	var s Small
	if s.Set(64) {
		t.Fatal("64 reported present in an empty set")
	}
	if !s.Set(64) {
		t.Fatal("64 not reported present after insertion")
	}
}
