// Place in . ; run: go test -vet=off -count=1 -run TestDemo storj.io/picobuf
package picobuf_test

import (
	"bytes"
	"testing"

	"storj.io/picobuf"
)

type demoInner struct{ v []byte }

type demoOuter struct{ in demoInner }

func (m *demoOuter) Encode(c *picobuf.Encoder) bool {
	c.Message(1, func(c *picobuf.Encoder) bool { c.Bytes(1, &m.in.v); return true })
	return true
}

func (m *demoOuter) Decode(c *picobuf.Decoder) {
	c.Message(1, func(c *picobuf.Decoder) { c.Bytes(1, &m.in.v) })
}

func TestDemo(t *testing.T) {
	// inner message is exactly 128 bytes: tag + length + 126 payload bytes.
	payload := bytes.Repeat([]byte{0x55}, 126)
	m := &demoOuter{in: demoInner{v: payload}}
	got, err := picobuf.Marshal(m)
	if err != nil {
		t.Fatal(err)
	}
	want := append([]byte{0x0a, 0x80, 0x01, 0x0a, 0x7e}, payload...)
	if !bytes.Equal(got, want) {
		t.Fatalf("wrong encoding: % x", got[:8])
	}
	var back demoOuter
	if err := picobuf.Unmarshal(got, &back); err != nil || !bytes.Equal(back.in.v, payload) {
		t.Fatalf("round trip failed: %v", err)
	}
}
