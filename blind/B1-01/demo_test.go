// Place in . ; run: go test -vet=off -count=1 -run TestDemo storj.io/picobuf
package picobuf_test

import (
	"testing"

	"storj.io/picobuf"
)

type demoBytesMsg struct{ v []byte }

func (m *demoBytesMsg) Encode(c *picobuf.Encoder) bool { c.Bytes(1, &m.v); return true }
func (m *demoBytesMsg) Decode(c *picobuf.Decoder)      { c.Bytes(1, &m.v) }

func TestDemo(t *testing.T) {
	// field 1, Bytes, declared length 2^64-1, no payload.
	in := []byte{0x0a, 0xff, 0xff, 0xff, 0xff, 0xff, 0xff, 0xff, 0xff, 0xff, 0x01}
	defer func() {
		if r := recover(); r != nil {
			t.Fatalf("Unmarshal panicked: %v", r)
		}
	}()
	var m demoBytesMsg
	if err := picobuf.Unmarshal(in, &m); err == nil {
		t.Fatal("expected an error for a truncated Bytes field")
	}
}
