#!/usr/bin/env python3
import json
P=json.load(open('/verif/props.json'))['properties']
notes={
"C01":("proof","Lean theorem encMsg_eq_specEnc (model of the generated Encode = canonical specification encoder for every well-typed value of every schema) + spec round trip; regenerated writer/map tables and Go expressions; stream M: real Marshal vs model vs spec, reference parses the real bytes back to the same values and presence; encoder.go / wire.go append functions / Marshal translated statement by statement from the source and proved equal to the model (GoTieEncoder, GoTieWire); all 60 typed writers of encoder_types.go likewise (GoTieEncTypes.writeSingle_tie / writeRepeated_tie)"),
"C02":("proof","specification decoder Spec.specDec (record at a time) with its laws; decoder refinement machine = spec; stream M: reference encodings closed under wire rewrites decoded by real code, model, spec and reference; decoder.go, message.go Unmarshal and the wire.go consume functions translated from the source and proved equal to the model (GoTieDecoder, GoTieWire): C02_source_unmarshal_is_spec; wire-equivalence laws proved on the specification: order independence (step commutation + permutation theorem, C02_order_independent), split sub-messages merge, packed = unpacked, non-minimal varints"),
"C03":("proof","spec round trip theorem + T_enc + decoder refinement; stream M real round trip with deep comparison, maps in permuted orders; translated Marshal/Unmarshal = model (GoTieEncoder, GoTieApi)"),
"C04":("proof","unmarshal_total: for every byte string, schema and start value the decoder model (every slice checked, every loop on fuel) returns ok: no panic, no out-of-fuel; store facts regenerated from source for input immutability; PARTIAL for stack/alloc/time; C04_source_unmarshal_total: the same for the statement-level translation of message.go+decoder.go (regenerated every run), C04_source_wire for the translated wire.go primitives"),
"C05":("proof","specDec accepts iff wellFormed (value-free predicate), truncation rejected, no suffix ignored; machine tied by refinement + real err==nil vs independent Go well-formedness predicate on every mutated input; C05_source_unmarshal_nil_iff_wellformed for the translated source"),
"C06":("proof","T_enc: Marshal model = canonical specification encoder (ascending numbers, packed, minimal varints by construction, defaults omitted by bit pattern, captured bytes last); anyBytes length-prefix refinement for every payload size; stream M/E vs reference deterministic bytes; encoder.go / AppendVarint / appendTag translated and proved equal to the model"),
"C07":("proof","closure theorem over the import graph regenerated from go list -deps (plain and overlay builds): every package reachable by an import path of any length is std or in-module and is not reflect/fmt"),
"C08":("proof","presence corollaries of T_enc and the spec round trip (optional set to zero, oneof member holding zero, empty sub-message, repeated message count); stream M with every presence slot at default content against reference Has()"),
"C09":("proof","specUnmarshal_append: a||b = a then b for any b and any number of calls (induction on the list); stream M sequential vs one call vs reference; translated decoder.go / wire.go = model"),
"C10":("proof","unknown_skipped / unknown_captured / capture_exact on the specification; forward-compatibility chains sender -> narrow capturing schema -> wide schema on the real code; translated decoder.go (UnrecognizedFields, Loop) / ConsumeFieldValue = model"),
"C11":("proof","map_table_expected: all 180 codecs have the one modelled shape (regenerated from picowire/map.go); generic map encode/decode theorems; stream M over all 180 instantiations; all 360 PicoEncode/PicoDecode methods of picowire/map.go translated statement by statement and proved equal to the model for every key kind and value kind (GoTie.MP.mapEncode_tie: any iteration order, any buffer; mapDecode_tie: any input, by a simulation through RepeatedMessage/Loop)"),
"C12":("proof","the theorems of C01-C03,C06,C08 are stated for every supported schema (deep embedding of the emitted code); PARTIAL: the tie of that embedding to protoc-gen-pico is by running the working-tree generator on an exhaustive shape schema + sampled fresh schemas each run (terminates, compiles, deterministic, behaves as the model); generator_table_expected: the decision table of the working-tree protoc-gen-pico (every statement, field type, field order and mask it emits for the AllShapes schema) is regenerated on every run and pinned; the checked-in *.pico.go files are compared with a regeneration"),
"C13":("proof","per-call theorems for readers (untouched on other field, consume exactly one field, sticky errors) and writers (closed forms, default omitted, nesting composes, absence leaves no trace) + regenerated 60-writer/30-reader tables; streams E, D, P; every Decoder/Encoder core method and wire primitive translated from the source and proved equal to its model (GoTie.D/E/W); all 30 typed readers and 60 typed writers of decoder_types.go / encoder_types.go translated and proved equal to readSingle/readRepeated/writeSingle/writeRepeated for every kind (GoTie.DT, GoTie.ET)"),
"C14":("proof","Int-level theorems with explicit int64/int32 wrap-around: split, round trip, exact saturation characterisation, timestamp normalisation; stream T vs durationpb/timestamppb; time package behaviour is a trusted parameter; picoconv/duration.go and timestamp.go translated from the source and proved equal to the model (GoTiePico: saturation logic = durDecode)"),
"C15":("proof","universal theorems over BitVec 32 about the regenerated Go expressions: closed form, round trip, only +0 is default, for singular / packed / oneof (Always) variants; stream P/E/M; thorough tier sweeps all 2^32 on the Go side"),
"C16":("proof","PARTIAL: schedule-independence theorem for threads with private state over a read-only store + regenerated facts (no package-level mutable state, no go statements, stores only through receivers/outputs); -race stress as the failing-schedule search; the scheduler theorem is instantiated with the translated Unmarshal / encoder programs (functions of their arguments by construction of the translation); stream R also decodes malformed inputs concurrently"),
"C17":("proof","anyBytesLow_refines + runOps_appends on a Go-slice model with stale capacity and re-allocation oracle: MarshalBuffer(any buffer) = Marshal for every program; no stale byte exposed; store facts regenerated; streams E/M with adversarial buffers; C17_source_anyBytes_refines: the same for the translation of encoder.go anyBytes (in-place copy/PutUvarint/re-slice on the Go-slice model), Marshal_eq / MarshalBuffer_eq"),
"C19":("proof","fieldString_decimal for every int32 (no panic, equals decimal), error text names the failing reader's field; stream S vs strconv.Itoa; stream D error texts vs model; C19_source_string_is_decimal: the translated FieldNumber.String (11-byte array loop) is the decimal form for every int32 and never indexes out of range"),
"C20":("proof","run_refines_spec: for every sequence of insertions no panic and answers = set membership; stream S exhaustive short sequences + long random vs map reference; C20_source_refines_set: the same for the translation of bitset.Small.Set regenerated from the source"),
}
checks=[]
for pid in sorted(P):
    lvl,text=notes[pid]
    checks.append({
        "property_id":pid,
        "quick_cmd":"./check %s --tier quick"%pid,
        "thorough_cmd":"./check %s --tier thorough"%pid,
        "evidence_file":"/verif/evidence/%s.json"%pid,
        "replay_cmd_template":"./check %s --replay {path}"%pid,
        "engine":"lean4-proof+correspondence",
        "level_claimed":{"category":"proof","text":text,"design_ref":"DESIGN.md section 7 (%s)"%pid},
        "level_note":"Trusted: Lean 4.33 kernel (+leanchecker in thorough), axioms propext/Quot.sound/Classical.choice only; the facts translators (golite statement translator with its Go semantics in GoPrelude/GoBuf, expression translator, template matcher, go list); for the parts not translated, the hand-written model held to the Go code by the differential correspondence harness (real code in-process, reference protobuf-go v1.31.0); Go code is modelled, not verified. See DESIGN.md section 6.",
        "technique":"machine-checked proof in Lean 4: theorems about a model; the model is tied to the Go source on every run by translation (definitions regenerated from the source and proved equal to the model) and by a differential correspondence check for the parts not translated",
    })
m={
 "version":1,
 "setup_cmd":"cd /verif && ./check --setup",
 "hooks":{"guard":"none (no source hooks: the harness reaches unexported code with go build -overlay; /repo is never modified)",
          "enable":"go build -overlay <rundir>/overlay.json maps /repo/export_verif.go -> /verif/tools/overlay/export_verif.go",
          "baseline_off_cmd":"cd /repo && GOFLAGS=-mod=mod go test -json -vet=off -count=1 -timeout 25m ./...",
          "source_commits":[],"add_only":True},
 "engines":[{"name":"lean4-proof+correspondence","path":"/verif/check","serves_properties":sorted(P),"kind_free_text":"Lean 4 theorems (lean/PicoProps) over a model partly regenerated from the Go source (tools/harness/cmd/facts: statement translator golite, expression translator, tables -> lean/PicoModel/Gen; equalities translated=model in lean/PicoProofs/GoTie*) and partly hand-written and tied by a differential harness (tools/harness/corr) driving real code, the compiled Lean model (lean/Driver.lean) and protobuf-go"}],
 "checks":checks,
 "not_applicable":[{"property_id":"C18","reason":"byte-identity of checked-in files with the output of two Go generator programs is not a statement about an executable Lean model (it would need go/format and protogen modelled, or degenerate into decide on two string literals); DESIGN.md section 8. Nearby guarantee: every other property is established for the checked-in generated code, and C12 exercises the working-tree generator."}],
 "notes":"See DESIGN.md. known_findings.json lists the eleven defects found on the pinned tree, all repaired by fix: commits in /repo."
}
json.dump(m,open('/verif/MANIFEST.json','w'),indent=1)
print(len(checks),"checks")
