#!/bin/bash
# seeddetect.sh <ids...>: detection only (no re-verification) of already promoted seeds, in this snapshot
cd "$(dirname "$0")/.."
export VERIF_REPO=${VP_RUN_REPO:-/repo}
if [ "$VERIF_REPO" = /repo ] && [ -z "$ALLOW_REPO" ]; then echo "refusing to patch /repo itself: use vp run --with-repo (or ALLOW_REPO=1)"; exit 2; fi
./check --setup > /dev/null 2>&1
python3 tools/seedtest.py detect "$@" 2>&1 | tee detect.out
