// This file is NOT part of storj/picobuf. The verification harness injects it into package picobuf
// with `go build -overlay` (the repository itself is never modified) to reach unexported functions
// and decoder state.
package picobuf

import "storj.io/picobuf/internal/protowire"

func VerifEncodeZigZag32(v int32) uint32  { return encodeZigZag32(v) }
func VerifDecodeZigZag32(v uint32) int32  { return decodeZigZag32(v) }
func VerifEncodeBool64(v bool) uint64     { return encodeBool64(v) }
func VerifEncodeBool8(v bool) byte        { return encodeBool8(v) }
func VerifAppendTag(buf []byte, num FieldNumber, typ int8) []byte {
	return appendTag(buf, num, protowire.Type(typ))
}

// VerifRemaining is len(dec.buffer) of the current frame.
func (dec *Decoder) VerifRemaining() int { return len(dec.buffer) }

// VerifPendingWire is the wire type of the pending field.
func (dec *Decoder) VerifPendingWire() int { return int(dec.pendingWire) }

// VerifStackDepth is the number of saved frames.
func (dec *Decoder) VerifStackDepth() int { return len(dec.stack) }
