#!/bin/bash
# sweep.sh <tier> <seed>...   run every claimed check on the unchanged tree for the given seeds; summary on stdout
tier=$1; shift
export VERIF_REPO=${VP_RUN_REPO:-${VERIF_REPO:-/repo}}
./check --setup >/dev/null 2>&1
for s in "$@"; do
  for p in ${SWEEP_PROPS:-C01 C02 C03 C04 C05 C06 C07 C08 C09 C10 C11 C12 C13 C14 C15 C16 C17 C19 C20}; do
    out=$(VERIF_SEED=$s ./check $p --tier $tier 2>&1); rc=$?
    echo "seed=$s $p rc=$rc $(echo "$out" | grep -E '^C[0-9]+ tier' | head -1)"
    if [ $rc -ne 0 ]; then echo "$out" | tail -15; for f in $(echo "$out" | grep -o 'replay=[^ ]*' | cut -d= -f2); do head -c 3000 $f; done; fi
  done
done
