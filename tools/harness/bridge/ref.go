package bridge

import (
	"strings"
	"fmt"
	"math"
	"time"

	"google.golang.org/protobuf/reflect/protoreflect"
	"google.golang.org/protobuf/types/dynamicpb"
	"google.golang.org/protobuf/types/known/durationpb"
	"google.golang.org/protobuf/types/known/timestamppb"

	"storj.io/picobuf/verifharness/schema"
	"storj.io/picobuf/verifharness/val"
)

// Ref holds the reference implementation's view of a schema file.
type Ref struct {
	File *schema.File
	Desc protoreflect.FileDescriptor
}

func NewRef(f *schema.File) (*Ref, error) {
	fd, err := f.Resolve()
	if err != nil {
		return nil, err
	}
	return &Ref{File: f, Desc: fd}, nil
}

func (r *Ref) MsgDesc(name string) protoreflect.MessageDescriptor {
	// nested declarations: walk the dotted proto path
	parts := strings.Split(r.File.ProtoPath(name), ".")
	md := r.Desc.Messages().ByName(protoreflect.Name(parts[0]))
	for _, p := range parts[1:] {
		if md == nil {
			return nil
		}
		md = md.Messages().ByName(protoreflect.Name(p))
	}
	return md
}

func (r *Ref) New(name string) *dynamicpb.Message { return dynamicpb.NewMessage(r.MsgDesc(name)) }

func refScalarTo(kind string, x val.Val) protoreflect.Value {
	switch kind {
	case "bool":
		return protoreflect.ValueOfBool(x.N != 0)
	case "int32", "sint32", "sfixed32":
		return protoreflect.ValueOfInt32(int32(uint32(x.N)))
	case "enum":
		return protoreflect.ValueOfEnum(protoreflect.EnumNumber(int32(uint32(x.N))))
	case "int64", "sint64", "sfixed64":
		return protoreflect.ValueOfInt64(int64(x.N))
	case "uint32", "fixed32":
		return protoreflect.ValueOfUint32(uint32(x.N))
	case "uint64", "fixed64":
		return protoreflect.ValueOfUint64(x.N)
	case "float":
		return protoreflect.ValueOfFloat32(math.Float32frombits(uint32(x.N)))
	case "double":
		return protoreflect.ValueOfFloat64(math.Float64frombits(x.N))
	case "string":
		return protoreflect.ValueOfString(string(x.B))
	case "bytes":
		return protoreflect.ValueOfBytes(append([]byte{}, x.B...))
	}
	panic("refScalarTo: " + kind)
}

func refScalarFrom(kind string, v protoreflect.Value) val.Val {
	switch kind {
	case "bool":
		if v.Bool() {
			return val.N(1)
		}
		return val.N(0)
	case "int32", "sint32", "sfixed32":
		return val.N(uint64(uint32(int32(v.Int()))))
	case "enum":
		return val.N(uint64(uint32(int32(v.Enum()))))
	case "int64", "sint64", "sfixed64":
		return val.N(uint64(v.Int()))
	case "uint32", "fixed32", "uint64", "fixed64":
		return val.N(v.Uint())
	case "float":
		return val.N(uint64(math.Float32bits(v.Interface().(float32))))
	case "double":
		return val.N(math.Float64bits(v.Float()))
	case "string":
		return val.Bs([]byte(v.String()))
	case "bytes":
		return val.Bs(append([]byte(nil), v.Bytes()...))
	}
	panic("refScalarFrom: " + kind)
}

// secNanos reads {1: seconds, 2: nanos} from a reference message of any type with those fields.
func secNanos(m protoreflect.Message) (int64, int32) {
	fs := m.Descriptor().Fields()
	return m.Get(fs.ByNumber(1)).Int(), int32(m.Get(fs.ByNumber(2)).Int())
}

func setSecNanos(m protoreflect.Message, s int64, n int32) {
	fs := m.Descriptor().Fields()
	m.Set(fs.ByNumber(1), protoreflect.ValueOfInt64(s))
	m.Set(fs.ByNumber(2), protoreflect.ValueOfInt32(n))
}

// FromVal builds the reference message denoting value v.
func (r *Ref) FromVal(name string, v val.Val) *dynamicpb.Message {
	m := r.New(name)
	r.fromVal(r.File.Msg(name), v, m)
	return m
}

func (r *Ref) elemTo(fd *schema.Field, sh schema.Shape, x val.Val, newMsg func() protoreflect.Message) (protoreflect.Value, bool) {
	switch sh.Cat {
	case "scalar":
		return refScalarTo(fd.Kind, x), true
	case "enum":
		return refScalarTo("enum", x), true
	case "message":
		sub := newMsg()
		r.fromVal(r.File.Msg(fd.Ref), x, sub)
		return protoreflect.ValueOfMessage(sub), true
	case "timestamp":
		t := timeToGo(x)
		if t.IsZero() {
			return protoreflect.Value{}, false
		}
		ts := timestamppb.New(t)
		sub := newMsg()
		setSecNanos(sub, ts.Seconds, ts.Nanos)
		return protoreflect.ValueOfMessage(sub), true
	case "duration":
		d := durationpb.New(time.Duration(int64(x.N)))
		sub := newMsg()
		setSecNanos(sub, d.Seconds, d.Nanos)
		return protoreflect.ValueOfMessage(sub), true
	}
	panic("elemTo: " + sh.Cat)
}

func (r *Ref) fromVal(m *schema.Message, v val.Val, out protoreflect.Message) {
	if v.K != val.Msg || len(v.Elems) != len(m.Fields) {
		panic(fmt.Sprintf("ref: value does not fit message %s", m.Name))
	}
	fds := out.Descriptor().Fields()
	for i := range m.Fields {
		fd := &m.Fields[i]
		sh := r.File.ShapeOf(fd)
		slot := v.Elems[i]
		d := fds.ByNumber(protoreflect.FieldNumber(fd.Num))
		if fd.Oneof != "" {
			if slot.K != val.Some {
				continue
			}
			slot = slot.Elems[0]
			sh.Oneof = false
			// inside a oneof only message members are pointers
			if sh.Pointer {
				if slot.K == val.None {
					continue
				}
				slot = slot.Elems[0]
			}
			x, ok := r.elemTo(fd, sh, slot, func() protoreflect.Message { return out.NewField(d).Message() })
			if ok {
				out.Set(d, x)
			}
			continue
		}
		switch {
		case sh.Cat == "map":
			if slot.K == val.None {
				continue
			}
			mp := out.Mutable(d).Map()
			for j := range slot.Elems {
				mp.Set(refScalarTo(fd.MapKey, slot.Keys[j]).MapKey(), refScalarTo(fd.MapVal, slot.Elems[j]))
			}
		case sh.Repeated:
			l := out.Mutable(d).List()
			for _, e := range slot.Elems {
				inner := e
				if sh.Pointer {
					if e.K == val.None {
						if sh.Cat == "message" {
							l.Append(l.NewElement())
						}
						continue
					}
					if sh.Cat != "message" {
						inner = e.Elems[0]
					}
				}
				x, ok := r.elemTo(fd, sh, inner, func() protoreflect.Message { return l.NewElement().Message() })
				if ok {
					l.Append(x)
				}
			}
		case sh.Pointer:
			if slot.K == val.None {
				continue
			}
			x, ok := r.elemTo(fd, sh, slot.Elems[0], func() protoreflect.Message { return out.NewField(d).Message() })
			if ok {
				out.Set(d, x)
			}
		default:
			x, ok := r.elemTo(fd, sh, slot, func() protoreflect.Message { return out.NewField(d).Message() })
			if ok {
				out.Set(d, x)
			}
		}
	}
	if len(v.B) > 0 {
		out.SetUnknown(append([]byte(nil), v.B...))
	}
}

// ToVal reads a reference message into the value tree, using picobuf's Go-level shapes:
// an absent always-present sub-message is its zero value, an absent non-pointer time is the zero
// time, an absent pointer is nil.
func (r *Ref) ToVal(name string, m protoreflect.Message) val.Val {
	return r.toVal(r.File.Msg(name), m)
}

func (r *Ref) zeroMsg(name string) val.Val {
	return r.toVal(r.File.Msg(name), r.New(name))
}

func (r *Ref) elemFrom(fd *schema.Field, sh schema.Shape, v protoreflect.Value) val.Val {
	switch sh.Cat {
	case "scalar":
		return refScalarFrom(fd.Kind, v)
	case "enum":
		return refScalarFrom("enum", v)
	case "message":
		return r.toVal(r.File.Msg(fd.Ref), v.Message())
	case "timestamp":
		s, n := secNanos(v.Message())
		return timeFromGo((&timestamppb.Timestamp{Seconds: s, Nanos: n}).AsTime())
	case "duration":
		s, n := secNanos(v.Message())
		return val.N(uint64(int64((&durationpb.Duration{Seconds: s, Nanos: n}).AsDuration())))
	}
	panic("elemFrom: " + sh.Cat)
}

func (r *Ref) toVal(m *schema.Message, msg protoreflect.Message) val.Val {
	slots := make([]val.Val, len(m.Fields))
	fds := msg.Descriptor().Fields()
	for i := range m.Fields {
		fd := &m.Fields[i]
		sh := r.File.ShapeOf(fd)
		d := fds.ByNumber(protoreflect.FieldNumber(fd.Num))
		if fd.Oneof != "" {
			slots[i] = val.Nil()
			if msg.Has(d) {
				sh.Oneof = false
				x := r.elemFrom(fd, sh, msg.Get(d))
				if sh.Pointer {
					x = val.SomeOf(x)
				}
				slots[i] = val.SomeOf(x)
			}
			continue
		}
		switch {
		case sh.Cat == "map":
			mp := msg.Get(d).Map()
			if mp.Len() == 0 {
				slots[i] = val.Nil()
				continue
			}
			var ks, vs []val.Val
			mp.Range(func(k protoreflect.MapKey, v protoreflect.Value) bool {
				ks = append(ks, refScalarFrom(fd.MapKey, k.Value()))
				vs = append(vs, refScalarFrom(fd.MapVal, v))
				return true
			})
			slots[i] = val.MapOf(ks, vs)
		case sh.Repeated:
			l := msg.Get(d).List()
			es := make([]val.Val, l.Len())
			for j := range es {
				x := r.elemFrom(fd, sh, l.Get(j))
				if sh.Pointer && sh.Cat != "message" {
					x = val.SomeOf(x)
				}
				es[j] = x
			}
			slots[i] = val.ListOf(es)
		case sh.Pointer:
			if !msg.Has(d) {
				slots[i] = val.Nil()
			} else {
				slots[i] = val.SomeOf(r.elemFrom(fd, sh, msg.Get(d)))
			}
		default:
			switch sh.Cat {
			case "message":
				if msg.Has(d) {
					slots[i] = r.elemFrom(fd, sh, msg.Get(d))
				} else {
					slots[i] = r.zeroMsg(fd.Ref)
				}
			case "timestamp":
				if msg.Has(d) {
					slots[i] = r.elemFrom(fd, sh, msg.Get(d))
				} else {
					slots[i] = ZeroTimeCode()
				}
			case "duration":
				if msg.Has(d) {
					slots[i] = r.elemFrom(fd, sh, msg.Get(d))
				} else {
					slots[i] = val.N(0)
				}
			default:
				slots[i] = r.elemFrom(fd, sh, msg.Get(d))
			}
		}
	}
	var unrec []byte
	if m.Capture {
		unrec = append([]byte(nil), msg.GetUnknown()...)
	}
	return val.MsgOf(slots, unrec)
}
