// Package bridge converts between the untyped value tree (package val) and (a) generated picobuf
// structs, by reflection guided by the schema, (b) reference dynamicpb messages.
package bridge

import (
	"fmt"
	"math"
	"reflect"
	"time"

	"storj.io/picobuf"
	"storj.io/picobuf/verifharness/schema"
	"storj.io/picobuf/verifharness/val"
)

// Registry gives access to the generated Go types of one schema file.
type Registry struct {
	File *schema.File
	// New returns a fresh pointer to the generated struct of message `name`.
	New map[string]func() picobuf.Message
	// Wrappers lists, per oneof interface type name (e.g. "isTag_Value"), constructors of the
	// wrapper structs in member declaration order.
	Wrappers map[string][]func() interface{}
}

func scalarFromGo(kind string, v reflect.Value) val.Val {
	switch kind {
	case "bool":
		if v.Bool() {
			return val.N(1)
		}
		return val.N(0)
	case "int32", "sint32", "sfixed32", "enum":
		return val.N(uint64(uint32(int32(v.Int()))))
	case "int64", "sint64", "sfixed64":
		return val.N(uint64(v.Int()))
	case "uint32", "fixed32", "uint64", "fixed64":
		return val.N(v.Uint())
	case "float":
		return val.N(uint64(math.Float32bits(v.Interface().(float32))))
	case "double":
		return val.N(math.Float64bits(v.Interface().(float64)))
	case "string":
		return val.Bs([]byte(v.String()))
	case "bytes":
		return val.Bs(append([]byte(nil), v.Bytes()...))
	}
	panic("scalarFromGo: " + kind)
}

var nilToggle int

func scalarToGo(kind string, x val.Val, dst reflect.Value) {
	switch kind {
	case "bool":
		dst.SetBool(x.N != 0)
	case "int32", "sint32", "sfixed32", "enum":
		dst.SetInt(int64(int32(uint32(x.N))))
	case "int64", "sint64", "sfixed64":
		dst.SetInt(int64(x.N))
	case "uint32", "fixed32", "uint64", "fixed64":
		dst.SetUint(x.N)
	case "float":
		dst.Set(reflect.ValueOf(math.Float32frombits(uint32(x.N))))
	case "double":
		dst.Set(reflect.ValueOf(math.Float64frombits(x.N)))
	case "string":
		dst.SetString(string(x.B))
	case "bytes":
		// an empty value is handed over as a nil slice half of the time and as an allocated empty
		// slice otherwise (both are "empty"; C01/C08 include nil slices); the choice is a
		// deterministic function of a counter so that runs replay
		if len(x.B) == 0 {
			nilToggle++
			if nilToggle%2 == 0 {
				dst.SetBytes([]byte{})
			} else {
				dst.SetBytes(nil)
			}
		} else {
			dst.SetBytes(append([]byte{}, x.B...))
		}
	default:
		panic("scalarToGo: " + kind)
	}
}

func timeFromGo(t time.Time) val.Val { return val.TimeCode(t.Unix(), t.Nanosecond()) }

func timeToGo(x val.Val) time.Time {
	sec, ns := x.TimeParts()
	return time.Unix(sec, int64(ns)).UTC()
}

// ZeroTimeCode is the code of the zero time.Time.
func ZeroTimeCode() val.Val { return timeFromGo(time.Time{}) }

// FromStruct converts a generated struct (pointer) into a message value.
func (r *Registry) FromStruct(name string, msg interface{}) val.Val {
	rv := reflect.ValueOf(msg)
	if rv.Kind() == reflect.Ptr {
		rv = rv.Elem()
	}
	return r.fromStruct(r.File.Msg(name), rv)
}

func (r *Registry) fromStruct(m *schema.Message, rv reflect.Value) val.Val {
	slots := make([]val.Val, len(m.Fields))
	idx := 0
	groupIdx := map[string]int{}
	memberNo := map[string]int{}
	for i := range m.Fields {
		fd := &m.Fields[i]
		sh := r.File.ShapeOf(fd)
		if fd.Oneof != "" {
			gi, ok := groupIdx[fd.Oneof]
			if !ok {
				gi = idx
				groupIdx[fd.Oneof] = gi
				idx++
			}
			j := memberNo[fd.Oneof]
			memberNo[fd.Oneof] = j + 1
			sf := rv.Field(gi)
			slots[i] = val.Nil()
			if !sf.IsNil() {
				ws := r.Wrappers[sf.Type().Name()]
				if j >= len(ws) {
					panic(fmt.Sprintf("bridge: no wrapper %d for %s", j, sf.Type().Name()))
				}
				want := reflect.TypeOf(ws[j]())
				if sf.Elem().Type() == want {
					inner := sf.Elem().Elem().Field(0)
					shi := sh
					shi.Oneof = false
					slots[i] = val.SomeOf(r.fromGo(fd, shi, inner))
				}
			}
			continue
		}
		slots[i] = r.fromGo(fd, sh, rv.Field(idx))
		idx++
	}
	var unrec []byte
	if m.Capture {
		if f := rv.FieldByName("XXX_unrecognized"); f.IsValid() {
			unrec = append([]byte(nil), f.Bytes()...)
		} else {
			ShapeMismatches++ // the schema says the message captures unknown fields, the generated type cannot
		}
	}
	return val.MsgOf(slots, unrec)
}

func (r *Registry) elemFromGo(fd *schema.Field, sh schema.Shape, v reflect.Value) val.Val {
	switch sh.Cat {
	case "scalar":
		return scalarFromGo(fd.Kind, v)
	case "enum":
		return scalarFromGo("enum", v)
	case "message":
		return r.fromStruct(r.File.Msg(fd.Ref), v)
	case "timestamp":
		return timeFromGo(v.Interface().(time.Time))
	case "duration":
		return val.N(uint64(v.Int()))
	}
	panic("elemFromGo: " + sh.Cat)
}

func (r *Registry) fromGo(fd *schema.Field, sh schema.Shape, v reflect.Value) val.Val {
	if sh.Cat == "map" {
		if v.IsNil() {
			return val.Nil()
		}
		var ks, vs []val.Val
		it := v.MapRange()
		for it.Next() {
			ks = append(ks, scalarFromGo(fd.MapKey, it.Key()))
			vs = append(vs, scalarFromGo(fd.MapVal, it.Value()))
		}
		return val.MapOf(ks, vs)
	}
	if sh.Repeated {
		es := make([]val.Val, v.Len())
		for i := range es {
			e := v.Index(i)
			if e.Kind() == reflect.Ptr {
				if e.IsNil() {
					if sh.Pointer {
						es[i] = val.Nil()
					} else {
						es[i] = r.elemFromGo(fd, sh, reflect.Zero(e.Type().Elem()))
					}
					continue
				}
				e = e.Elem()
			}
			x := r.elemFromGo(fd, sh, e)
			if sh.Pointer && sh.Cat != "message" {
				x = val.SomeOf(x)
			}
			es[i] = x
		}
		return val.ListOf(es)
	}
	if sh.Pointer {
		if v.Kind() != reflect.Ptr {
			// presence is not representable in the generated type: report the value as present
			return val.SomeOf(r.elemFromGo(fd, sh, v))
		}
		if v.IsNil() {
			return val.Nil()
		}
		return val.SomeOf(r.elemFromGo(fd, sh, v.Elem()))
	}
	if v.Kind() == reflect.Ptr && v.Type().Elem().Kind() != reflect.Uint8 {
		if v.IsNil() {
			return r.elemFromGo(fd, sh, reflect.Zero(v.Type().Elem()))
		}
		return r.elemFromGo(fd, sh, v.Elem())
	}
	return r.elemFromGo(fd, sh, v)
}

// ToStruct builds a generated struct from a message value.
func (r *Registry) ToStruct(name string, v val.Val) picobuf.Message {
	msg := r.New[name]()
	r.toStruct(r.File.Msg(name), v, reflect.ValueOf(msg).Elem())
	return msg
}

func (r *Registry) toStruct(m *schema.Message, v val.Val, rv reflect.Value) {
	if v.K != val.Msg || len(v.Elems) != len(m.Fields) {
		panic(fmt.Sprintf("bridge: value does not fit message %s: %s", m.Name, v.String()))
	}
	idx := 0
	groupIdx := map[string]int{}
	memberNo := map[string]int{}
	for i := range m.Fields {
		fd := &m.Fields[i]
		sh := r.File.ShapeOf(fd)
		slot := v.Elems[i]
		if fd.Oneof != "" {
			gi, ok := groupIdx[fd.Oneof]
			if !ok {
				gi = idx
				groupIdx[fd.Oneof] = gi
				idx++
			}
			j := memberNo[fd.Oneof]
			memberNo[fd.Oneof] = j + 1
			if slot.K == val.Some {
				sf := rv.Field(gi)
				w := reflect.ValueOf(r.Wrappers[sf.Type().Name()][j]())
				shi := sh
				shi.Oneof = false
				r.toGo(fd, shi, slot.Elems[0], w.Elem().Field(0))
				sf.Set(w)
			}
			continue
		}
		r.toGo(fd, sh, slot, rv.Field(idx))
		idx++
	}
	if m.Capture && len(v.B) > 0 {
		if f := rv.FieldByName("XXX_unrecognized"); f.IsValid() {
			f.SetBytes(append([]byte(nil), v.B...))
		} else {
			ShapeMismatches++
		}
	}
}

func (r *Registry) elemToGo(fd *schema.Field, sh schema.Shape, x val.Val, dst reflect.Value) {
	switch sh.Cat {
	case "scalar":
		scalarToGo(fd.Kind, x, dst)
	case "enum":
		scalarToGo("enum", x, dst)
	case "message":
		r.toStruct(r.File.Msg(fd.Ref), x, dst)
	case "timestamp":
		dst.Set(reflect.ValueOf(timeToGo(x)))
	case "duration":
		dst.SetInt(int64(x.N))
	default:
		panic("elemToGo: " + sh.Cat)
	}
}

func (r *Registry) toGo(fd *schema.Field, sh schema.Shape, x val.Val, dst reflect.Value) {
	if sh.Cat == "map" {
		if x.K == val.None {
			return
		}
		mp := reflect.MakeMap(dst.Type())
		for i := range x.Elems {
			k := reflect.New(dst.Type().Key()).Elem()
			v := reflect.New(dst.Type().Elem()).Elem()
			scalarToGo(fd.MapKey, x.Keys[i], k)
			scalarToGo(fd.MapVal, x.Elems[i], v)
			mp.SetMapIndex(k, v)
		}
		dst.Set(mp)
		return
	}
	if sh.Repeated {
		if x.K != val.List {
			panic("bridge: list expected for " + fd.Name)
		}
		if len(x.Elems) == 0 {
			return
		}
		sl := reflect.MakeSlice(dst.Type(), len(x.Elems), len(x.Elems))
		for i, e := range x.Elems {
			d := sl.Index(i)
			// element pointer-ness by the generated type (a mismatch with the schema is counted)
			isPtr := d.Kind() == reflect.Ptr
			if isPtr != sh.Pointer {
				ShapeMismatches++
			}
			inner := e
			if sh.Pointer {
				if e.K == val.None {
					continue
				}
				if sh.Cat != "message" {
					inner = e.Elems[0]
				}
			}
			if isPtr {
				p := reflect.New(d.Type().Elem())
				r.elemToGo(fd, sh, inner, p.Elem())
				d.Set(p)
				continue
			}
			r.elemToGo(fd, sh, inner, d)
		}
		dst.Set(sl)
		return
	}
	// The generated field may not have the pointer-ness the schema prescribes (that is a generator
	// fault the checks are there to find): fill it as well as its actual type allows, so that the
	// loss shows up as a behavioural difference instead of a crash of the harness.
	if sh.Pointer {
		if x.K == val.None {
			return
		}
		inner := x.Elems[0]
		if dst.Kind() != reflect.Ptr {
			ShapeMismatches++
			r.elemToGo(fd, sh, inner, dst)
			return
		}
		p := reflect.New(dst.Type().Elem())
		r.elemToGo(fd, sh, x.Elems[0], p.Elem())
		dst.Set(p)
		return
	}
	if dst.Kind() == reflect.Ptr && dst.Type().Elem().Kind() != reflect.Uint8 {
		ShapeMismatches++
		p := reflect.New(dst.Type().Elem())
		r.elemToGo(fd, sh, x, p.Elem())
		dst.Set(p)
		return
	}
	r.elemToGo(fd, sh, x, dst)
}

// ShapeMismatches counts fields whose generated Go type did not have the prescribed pointer-ness.
var ShapeMismatches int
