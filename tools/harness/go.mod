module storj.io/picobuf/verifharness

go 1.20

require (
	google.golang.org/protobuf v1.31.0
	storj.io/picobuf v0.0.0
)

replace storj.io/picobuf => /repo
