// Package val is the untyped value tree shared by the three columns of the correspondence check
// (real picobuf structs, reference dynamicpb messages, Lean model). It mirrors `Pico.Val` and its
// text form is the driver's line-protocol form.
package val

import (
	"encoding/hex"
	"fmt"
	"sort"
	"strconv"
	"strings"
)

type Kind int

const (
	Num Kind = iota
	Bytes
	Msg
	List
	Map
	None
	Some
)

// Val mirrors the Lean inductive `Val`.
type Val struct {
	K     Kind
	N     uint64 // Num (time codes exceed 64 bits: see Hi)
	Hi    uint64 // high part for time codes: value = Hi*2^32 + N, only used when Wide
	Wide  bool
	B     []byte // Bytes, and Unrec for Msg
	Elems []Val  // Msg slots, List elements, Some (1 element)
	Keys  []Val  // Map keys (parallel to Elems = values)
}

func N(n uint64) Val      { return Val{K: Num, N: n} }
func Bs(b []byte) Val     { return Val{K: Bytes, B: b} }
func Nil() Val            { return Val{K: None} }
func SomeOf(v Val) Val    { return Val{K: Some, Elems: []Val{v}} }
func ListOf(vs []Val) Val { return Val{K: List, Elems: vs} }
func MsgOf(slots []Val, unrec []byte) Val {
	return Val{K: Msg, Elems: slots, B: unrec}
}
func MapOf(keys, vals []Val) Val { return Val{K: Map, Keys: keys, Elems: vals} }

// TimeCode packs (Unix() as uint64 pattern, Nanosecond()) like Pico.Time.timeCode.
func TimeCode(sec int64, ns int) Val {
	return Val{K: Num, Wide: true, Hi: uint64(sec), N: uint64(ns)}
}

func hexOf(b []byte) string {
	if len(b) == 0 {
		return "-"
	}
	return hex.EncodeToString(b)
}

func (v Val) numString() string {
	if !v.Wide {
		return strconv.FormatUint(v.N, 10)
	}
	// Hi * 2^32 + N in decimal, Hi up to 2^64: use big arithmetic by hand via two limbs
	return wideDecimal(v.Hi, v.N)
}

func wideDecimal(hi, lo uint64) string {
	// value = hi*2^32 + lo, lo < 2^32
	// split hi = a*10^9.. simple approach through math/big is fine here
	return bigString(hi, lo)
}

// String renders the canonical text (map entries sorted by their text).
func (v Val) String() string {
	var b strings.Builder
	v.write(&b)
	return b.String()
}

func (v Val) write(b *strings.Builder) {
	switch v.K {
	case Num:
		b.WriteString("N ")
		b.WriteString(v.numString())
	case Bytes:
		b.WriteString("B ")
		b.WriteString(hexOf(v.B))
	case None:
		b.WriteString("Z")
	case Some:
		b.WriteString("S ")
		v.Elems[0].write(b)
	case Msg:
		fmt.Fprintf(b, "M %d", len(v.Elems))
		for _, e := range v.Elems {
			b.WriteString(" ")
			e.write(b)
		}
		b.WriteString(" ")
		b.WriteString(hexOf(v.B))
	case List:
		fmt.Fprintf(b, "L %d", len(v.Elems))
		for _, e := range v.Elems {
			b.WriteString(" ")
			e.write(b)
		}
	case Map:
		items := make([]string, len(v.Elems))
		for i := range v.Elems {
			items[i] = v.Keys[i].String() + " " + v.Elems[i].String()
		}
		sort.Strings(items)
		fmt.Fprintf(b, "P %d", len(items))
		for _, it := range items {
			b.WriteString(" ")
			b.WriteString(it)
		}
	}
}

// OrderedString is String but keeps map entries in their stored order (used when sending a value
// to the model so that it sees the same iteration order as the real code was given).
func (v Val) OrderedString() string {
	if v.K == Map {
		var b strings.Builder
		fmt.Fprintf(&b, "P %d", len(v.Elems))
		for i := range v.Elems {
			b.WriteString(" " + v.Keys[i].OrderedString() + " " + v.Elems[i].OrderedString())
		}
		return b.String()
	}
	switch v.K {
	case Some:
		return "S " + v.Elems[0].OrderedString()
	case Msg:
		var b strings.Builder
		fmt.Fprintf(&b, "M %d", len(v.Elems))
		for _, e := range v.Elems {
			b.WriteString(" " + e.OrderedString())
		}
		b.WriteString(" " + hexOf(v.B))
		return b.String()
	case List:
		var b strings.Builder
		fmt.Fprintf(&b, "L %d", len(v.Elems))
		for _, e := range v.Elems {
			b.WriteString(" " + e.OrderedString())
		}
		return b.String()
	}
	return v.String()
}

// Parse parses the text form.
func Parse(s string) (Val, error) {
	toks := strings.Fields(s)
	v, rest, err := parse(toks)
	if err != nil {
		return v, err
	}
	if len(rest) != 0 {
		return v, fmt.Errorf("trailing tokens")
	}
	return v, nil
}

func parse(t []string) (Val, []string, error) {
	if len(t) == 0 {
		return Val{}, nil, fmt.Errorf("unexpected end")
	}
	switch t[0] {
	case "N":
		if len(t) < 2 {
			return Val{}, nil, fmt.Errorf("N")
		}
		n, err := strconv.ParseUint(t[1], 10, 64)
		if err != nil {
			hi, lo, ok := parseWide(t[1])
			if !ok {
				return Val{}, nil, err
			}
			return Val{K: Num, Wide: true, Hi: hi, N: lo}, t[2:], nil
		}
		return N(n), t[2:], nil
	case "B":
		b, err := unhex(t[1])
		return Bs(b), t[2:], err
	case "Z":
		return Nil(), t[1:], nil
	case "S":
		v, r, err := parse(t[1:])
		return SomeOf(v), r, err
	case "M", "L":
		k, err := strconv.Atoi(t[1])
		if err != nil {
			return Val{}, nil, err
		}
		r := t[2:]
		es := make([]Val, 0, k)
		for i := 0; i < k; i++ {
			var e Val
			e, r, err = parse(r)
			if err != nil {
				return Val{}, nil, err
			}
			es = append(es, e)
		}
		if t[0] == "L" {
			return ListOf(es), r, nil
		}
		if len(r) == 0 {
			return Val{}, nil, fmt.Errorf("M unrec")
		}
		u, err := unhex(r[0])
		return MsgOf(es, u), r[1:], err
	case "P":
		k, err := strconv.Atoi(t[1])
		if err != nil {
			return Val{}, nil, err
		}
		r := t[2:]
		var ks, vs []Val
		for i := 0; i < k; i++ {
			var a, b Val
			a, r, err = parse(r)
			if err != nil {
				return Val{}, nil, err
			}
			b, r, err = parse(r)
			if err != nil {
				return Val{}, nil, err
			}
			ks = append(ks, a)
			vs = append(vs, b)
		}
		return MapOf(ks, vs), r, nil
	}
	return Val{}, nil, fmt.Errorf("bad token %q", t[0])
}

func unhex(s string) ([]byte, error) {
	if s == "-" {
		return nil, nil
	}
	return hex.DecodeString(s)
}
