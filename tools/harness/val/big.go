package val

import "math/big"

func bigString(hi, lo uint64) string {
	x := new(big.Int).SetUint64(hi)
	x.Lsh(x, 32)
	x.Add(x, new(big.Int).SetUint64(lo))
	return x.String()
}

func parseWide(s string) (hi, lo uint64, ok bool) {
	x, good := new(big.Int).SetString(s, 10)
	if !good || x.Sign() < 0 {
		return 0, 0, false
	}
	l := new(big.Int).And(x, big.NewInt(0xFFFFFFFF))
	h := new(big.Int).Rsh(x, 32)
	if !h.IsUint64() {
		return 0, 0, false
	}
	return h.Uint64(), l.Uint64(), true
}

// Unwide returns (sec, ns) of a time code, whether stored wide or narrow.
func (v Val) TimeParts() (sec int64, ns int) {
	if v.Wide {
		return int64(v.Hi), int(v.N)
	}
	return int64(v.N >> 32), int(v.N & 0xFFFFFFFF)
}
