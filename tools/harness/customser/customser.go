// Package customser holds serializer types for fields that carry (pico.field).custom_serialize
// WITHOUT custom_type: the Go field keeps its default type and is converted to the serializer type
// only while encoding and decoding. The serializers here write exactly what the default codec
// writes, so every oracle of the harness still applies to the message.
package customser

import "storj.io/picobuf"

// Raw serializes a bytes field.
type Raw []byte

// PicoEncode writes the bytes as an ordinary bytes field.
func (r *Raw) PicoEncode(c *picobuf.Encoder, field picobuf.FieldNumber) {
	c.Bytes(field, (*[]byte)(r))
}

// PicoDecode reads an ordinary bytes field.
func (r *Raw) PicoDecode(c *picobuf.Decoder, field picobuf.FieldNumber) {
	c.Bytes(field, (*[]byte)(r))
}

// Port serializes a uint32 field.
type Port uint32

// PicoEncode writes the number as an ordinary uint32 field.
func (p *Port) PicoEncode(c *picobuf.Encoder, field picobuf.FieldNumber) {
	c.Uint32(field, (*uint32)(p))
}

// PicoDecode reads an ordinary uint32 field.
func (p *Port) PicoDecode(c *picobuf.Decoder, field picobuf.FieldNumber) {
	c.Uint32(field, (*uint32)(p))
}
