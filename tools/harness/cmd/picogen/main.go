// picogen regenerates a *.pico.go file from a .proto file by driving a protoc-gen-pico binary with
// a synthesized CodeGeneratorRequest (there is no protoc in the sandbox).
//
//	picogen -plugin ./protoc-gen-pico -proto test.proto -gopkg import/path[;name] -param paths=source_relative,field_access=true -out test.pico.go
package main

import (
	"flag"
	"fmt"
	"os"
	"path/filepath"
	"strings"

	"storj.io/picobuf/verifharness/schema"
)

func main() {
	plugin := flag.String("plugin", "", "protoc-gen-pico binary")
	protoPath := flag.String("proto", "", ".proto file")
	gopkg := flag.String("gopkg", "", "go package override")
	param := flag.String("param", "paths=source_relative", "plugin parameter")
	out := flag.String("out", "", "output file ('-' = stdout)")
	flag.Parse()
	text, err := os.ReadFile(*protoPath)
	if err != nil {
		fatal(err)
	}
	f, err := schema.ParseProto(filepath.Base(*protoPath), string(text))
	if err != nil {
		fatal(err)
	}
	if *gopkg != "" {
		f.GoPackage = *gopkg
	}
	if i := strings.IndexByte(f.GoPackage, ';'); i >= 0 {
		f.GoName = f.GoPackage[i+1:]
		f.GoPackage = f.GoPackage[:i]
	}
	files, err := f.RunPluginWith(*plugin, *param, 5, 27, 3)
	if err != nil {
		fatal(err)
	}
	for name, content := range files {
		if *out == "-" {
			fmt.Print(content)
		} else if *out != "" {
			if err := os.WriteFile(*out, []byte(content), 0644); err != nil {
				fatal(err)
			}
		} else {
			fmt.Println(name, len(content))
		}
	}
}

func fatal(err error) {
	fmt.Fprintln(os.Stderr, "picogen:", err)
	os.Exit(1)
}
