package main

import (
	"fmt"
	"go/ast"
	"go/constant"
	"go/token"
	"go/types"
	"math/big"
	"strings"
)

// lx is a translated expression. For bool-typed expressions `s` is a Bool term and `p` a Prop.
type lx struct {
	s string
	p string
	t ltype
}

type loopFrame struct {
	name   string
	mods   []types.Object
	hasRet bool
	recArg string // the argument the recursion descends on ("fuel", or the rest of a ranged list)
}

type fctx struct {
	g           *golite
	info        *types.Info
	cfg         *fnCfg
	fd          *ast.FuncDecl
	names       map[types.Object]string
	used        map[string]bool
	recv        types.Object // pointer receiver (mutable state), nil otherwise
	ptrs        map[types.Object]bool
	cbs         map[types.Object]cbCfg
	state       types.Object // pseudo object for the user state σ (nil when the function has no callbacks)
	res         []ltype
	pre         []string // hoisted monadic binds, to be flushed before the current statement
	tmp         int
	loops       []loopFrame
	aux         []string // emitted loop definitions
	loopNo      int
	params      []string                           // Lean binder list of the function (for loops: subset is recomputed)
	closure     bool                               // translating a function literal: only the receiver is threaded
	closureOuts []types.Object                     // state-callback literal: its parameter and the captured variables it assigns
	ifaceCb     map[types.Object]map[string]string // interface parameter -> method -> Lean callback name
}

var leanReserved = map[string]bool{"end": true, "at": true, "from": true, "fun": true, "do": true, "then": true, "else": true,
	"if": true, "let": true, "have": true, "show": true, "open": true, "in": true, "match": true, "with": true, "where": true,
	"instance": true, "def": true, "theorem": true, "Type": true, "Prop": true, "Sort": true, "by": true, "s": true, "fuel": true,
	"return": true, "mut": true, "for": true, "unless": true, "try": true, "catch": true, "finally": true, "set": true, "nomatch": true}

func (c *fctx) declare(o types.Object) string {
	base := o.Name()
	if base == "_" {
		base = "unused"
	}
	if leanReserved[base] {
		base += "_"
	}
	n := base
	for i := 1; c.used[n]; i++ {
		n = fmt.Sprintf("%s_%d", base, i)
	}
	c.used[n] = true
	c.names[o] = n
	return n
}

func (c *fctx) fresh(prefix string) string {
	for {
		c.tmp++
		n := fmt.Sprintf("%s%d", prefix, c.tmp)
		if !c.used[n] {
			c.used[n] = true
			return n
		}
	}
}

func (c *fctx) hoist(term string) string {
	n := c.fresh("t")
	c.pre = append(c.pre, fmt.Sprintf("let %s ← %s", n, term))
	return n
}

func pow2(n int) string { return new(big.Int).Lsh(big.NewInt(1), uint(n)).String() }

func (c *fctx) typeOf(e ast.Expr) (ltype, error) {
	tv, ok := c.info.Types[e]
	if !ok {
		return ltype{}, fmt.Errorf("no type for expression at %s", fset.Position(e.Pos()))
	}
	return c.g.ltypeOf(tv.Type)
}

func boolOfProp(p string) string { return "decide (" + p + ")" }

func mkBool(p string) lx  { return lx{s: boolOfProp(p), p: p, t: ltype{k: kBool, lean: "Bool"}} }
func mkBoolV(s string) lx { return lx{s: s, p: "(" + s + " = true)", t: ltype{k: kBool, lean: "Bool"}} }

func (c *fctx) constExpr(e ast.Expr) (lx, bool, error) {
	tv, ok := c.info.Types[e]
	if !ok || tv.Value == nil {
		return lx{}, false, nil
	}
	t, err := c.g.ltypeOf(tv.Type)
	if err != nil {
		return lx{}, true, err
	}
	switch tv.Value.Kind() {
	case constant.Int:
		s, _ := constInt(tv.Value)
		if t.k == kUnsigned || t.k == kWireType {
			return lx{s: s, t: t}, true, nil
		}
		if t.k == kByte {
			return lx{s: "(" + s + " : Byte)", t: t}, true, nil
		}
		return lx{s: "(" + strings.Trim(s, "()") + " : Int)", t: t}, true, nil
	case constant.Float:
		// e.g. 1e9 used as an integer constant
		if v, ok := constant.Int64Val(constant.ToInt(tv.Value)); ok && t.isNum() {
			if t.k == kUnsigned {
				return lx{s: fmt.Sprint(v), t: t}, true, nil
			}
			return lx{s: fmt.Sprintf("(%d : Int)", v), t: t}, true, nil
		}
	case constant.Bool:
		if constant.BoolVal(tv.Value) {
			return lx{s: "true", p: "True", t: t}, true, nil
		}
		return lx{s: "false", p: "False", t: t}, true, nil
	case constant.String:
		return lx{s: leanStr(constant.StringVal(tv.Value)), t: t}, true, nil
	}
	return lx{}, true, fmt.Errorf("unsupported constant %s", tv.Value.ExactString())
}

func (c *fctx) constIntVal(e ast.Expr) (*big.Int, bool) {
	tv, ok := c.info.Types[e]
	if !ok || tv.Value == nil || tv.Value.Kind() != constant.Int {
		if ok && tv.Value != nil && tv.Value.Kind() == constant.Float {
			if v, ok2 := constant.Int64Val(constant.ToInt(tv.Value)); ok2 {
				return big.NewInt(v), true
			}
		}
		return nil, false
	}
	b, _ := new(big.Int).SetString(tv.Value.ExactString(), 10)
	return b, b != nil
}

func (c *fctx) zeroOf(t ltype) (string, error) {
	switch t.k {
	case kInt, kSigned:
		return "(0 : Int)", nil
	case kUnsigned, kWireType:
		return "0", nil
	case kFloat:
		return "(0 : Nat)", nil // +0.0: all bits zero
	case kMap:
		return "(none : " + t.lean + ")", nil
	case kByte:
		return "(0 : Byte)", nil
	case kBool:
		return "false", nil
	case kString:
		return `""`, nil
	case kList:
		if t.array > 0 {
			z, err := c.zeroOf(*t.elem)
			if err != nil {
				return "", err
			}
			return fmt.Sprintf("(List.replicate %d %s)", t.array, z), nil
		}
		return "[]", nil
	case kError:
		return "none", nil
	case kStruct:
		if sc, ok := c.g.structs[t.name]; ok && sc.zero != "" {
			return sc.zero, nil
		}
	}
	return "", fmt.Errorf("no zero value for %s", t.lean)
}

// expr translates a side-effect free expression (hoisting checked operations into c.pre).
func (c *fctx) expr(e ast.Expr) (lx, error) {
	if r, isConst, err := c.constExpr(e); isConst {
		return r, err
	}
	switch x := e.(type) {
	case *ast.ParenExpr:
		return c.expr(x.X)
	case *ast.Ident:
		if x.Name == "nil" {
			t, err := c.typeOf(e)
			if err != nil {
				return lx{}, err
			}
			z, err := c.zeroOf(t)
			return lx{s: z, t: t}, err
		}
		o := c.info.Uses[x]
		if o == nil {
			o = c.info.Defs[x]
		}
		n, ok := c.names[o]
		if !ok {
			return lx{}, fmt.Errorf("unknown identifier %s at %s", x.Name, fset.Position(x.Pos()))
		}
		t, err := c.g.ltypeOf(o.Type())
		if err != nil {
			return lx{}, err
		}
		if t.k == kBool {
			return mkBoolV(n), nil
		}
		return lx{s: n, t: t}, nil
	case *ast.StarExpr:
		return c.expr(x.X)
	case *ast.SelectorExpr:
		return c.selector(x)
	case *ast.UnaryExpr:
		a, err := c.expr(x.X)
		if err != nil {
			return lx{}, err
		}
		switch x.Op {
		case token.AND:
			if _, ok := stripParens(x.X).(*ast.CompositeLit); ok {
				return a, nil // &T{…}: the pointer is modelled by the value held in a local variable
			}
		case token.NOT:
			return lx{s: "(!" + a.s + ")", p: "¬ " + a.p, t: a.t}, nil
		case token.SUB:
			switch a.t.k {
			case kInt:
				return lx{s: "(-" + a.s + ")", t: a.t}, nil
			case kSigned:
				return lx{s: fmt.Sprintf("(Go.wrapS %d (-%s))", a.t.bits, a.s), t: a.t}, nil
			case kUnsigned:
				return lx{s: fmt.Sprintf("((%s - %s) %% %s)", pow2(a.t.bits), a.s, pow2(a.t.bits)), t: a.t}, nil
			}
		case token.ADD:
			return a, nil
		}
		return lx{}, fmt.Errorf("unsupported unary %s", x.Op)
	case *ast.BinaryExpr:
		return c.binary(x)
	case *ast.CallExpr:
		return c.callExpr(x)
	case *ast.IndexExpr:
		b, err := c.expr(x.X)
		if err != nil {
			return lx{}, err
		}
		i, err := c.intExpr(x.Index)
		if err != nil {
			return lx{}, err
		}
		if b.t.k != kList {
			return lx{}, fmt.Errorf("index of non-slice")
		}
		n := c.hoist(fmt.Sprintf("Go.index %s %s", b.s, i))
		if b.t.elem.k == kBool {
			return mkBoolV(n), nil
		}
		return lx{s: n, t: *b.t.elem}, nil
	case *ast.SliceExpr:
		b, err := c.expr(x.X)
		if err != nil {
			return lx{}, err
		}
		if b.t.k == kBuf {
			if x.Low != nil || x.High == nil || x.Slice3 {
				return lx{}, fmt.Errorf("only buf[:n] is supported on a written slice (outside copy / PutUvarint)")
			}
			h, err := c.intExpr(x.High)
			if err != nil {
				return lx{}, err
			}
			return lx{s: c.hoist(fmt.Sprintf("Pico.GoBuf.resliceTo %s %s", b.s, h)), t: b.t}, nil
		}
		if b.t.k != kList || x.Slice3 {
			return lx{}, fmt.Errorf("unsupported slice expression")
		}
		rt := b.t
		rt.array = 0
		cur := b.s
		// b[lo:hi] = (b[:hi])[lo:]  (capacity is not modelled: hi ≤ len is required, which is stricter than Go's hi ≤ cap)
		if x.High != nil {
			h, err := c.intExpr(x.High)
			if err != nil {
				return lx{}, err
			}
			cur = c.hoist(fmt.Sprintf("Go.sliceTo %s %s", cur, h))
		}
		if x.Low != nil {
			l, err := c.intExpr(x.Low)
			if err != nil {
				return lx{}, err
			}
			cur = c.hoist(fmt.Sprintf("Go.sliceFrom %s %s", cur, l))
		}
		return lx{s: cur, t: rt}, nil
	case *ast.CompositeLit:
		return c.composite(x)
	}
	return lx{}, fmt.Errorf("unsupported expression %T at %s", e, fset.Position(e.Pos()))
}

// intExpr translates an index / length expression to an `Int` term.
func (c *fctx) intExpr(e ast.Expr) (string, error) {
	a, err := c.expr(e)
	if err != nil {
		return "", err
	}
	switch a.t.k {
	case kInt, kSigned:
		return a.s, nil
	case kUnsigned, kWireType:
		return "(Int.ofNat " + a.s + ")", nil
	case kByte:
		return "(Int.ofNat " + a.s + ".toNat)", nil
	}
	return "", fmt.Errorf("index is not an integer")
}

func (c *fctx) selector(x *ast.SelectorExpr) (lx, error) {
	sel := c.info.Selections[x]
	if sel == nil {
		return lx{}, fmt.Errorf("unsupported qualified identifier %s", exprString(x))
	}
	if sel.Kind() != types.FieldVal {
		return lx{}, fmt.Errorf("method value %s not supported", exprString(x))
	}
	base, err := c.expr(x.X)
	if err != nil {
		return lx{}, err
	}
	if base.t.k != kStruct {
		return lx{}, fmt.Errorf("field of non-struct %s", exprString(x))
	}
	sc := c.g.structs[base.t.name]
	t, err := c.g.ltypeOf(sel.Type())
	if err != nil {
		return lx{}, err
	}
	var s string
	if sc.tuple != nil {
		idx := -1
		for i, f := range sc.tuple {
			if f == x.Sel.Name {
				idx = i
			}
		}
		if idx < 0 {
			return lx{}, fmt.Errorf("unknown field %s", x.Sel.Name)
		}
		s = base.s + tupleProj(idx, len(sc.tuple))
	} else {
		path, ok := sc.fields[x.Sel.Name]
		if !ok {
			return lx{}, fmt.Errorf("field %s of %s is not in the model's structure", x.Sel.Name, base.t.name)
		}
		s = base.s + "." + path
		if path == "" {
			s = base.s
		}
	}
	if sc.bufs[x.Sel.Name] {
		return lx{s: s, t: ltype{k: kBuf, lean: "Pico.EncLow.Buf"}}, nil
	}
	if t.k == kBool {
		return mkBoolV(s), nil
	}
	return lx{s: s, t: t}, nil
}

func tupleProj(i, n int) string {
	if n == 1 {
		return ""
	}
	s := ""
	for j := 0; j < i; j++ {
		s += ".2"
	}
	if i < n-1 {
		s += ".1"
	}
	return s
}

func isMask(b *big.Int) (int, bool) {
	// b = 2^k - 1 ?
	k := b.BitLen()
	m := new(big.Int).Sub(new(big.Int).Lsh(big.NewInt(1), uint(k)), big.NewInt(1))
	return k, b.Sign() > 0 && m.Cmp(b) == 0
}

func (c *fctx) binary(x *ast.BinaryExpr) (lx, error) {
	if x.Op == token.LAND || x.Op == token.LOR {
		a, err := c.expr(x.X)
		if err != nil {
			return lx{}, err
		}
		npre := len(c.pre)
		b, err := c.expr(x.Y)
		if err != nil {
			return lx{}, err
		}
		if len(c.pre) != npre {
			return lx{}, fmt.Errorf("checked operation under a short-circuit operator at %s", fset.Position(x.Pos()))
		}
		if x.Op == token.LAND {
			return lx{s: "(" + a.s + " && " + b.s + ")", p: "(" + a.p + " ∧ " + b.p + ")", t: a.t}, nil
		}
		return lx{s: "(" + a.s + " || " + b.s + ")", p: "(" + a.p + " ∨ " + b.p + ")", t: a.t}, nil
	}
	a, err := c.expr(x.X)
	if err != nil {
		return lx{}, err
	}
	// shifts: the count has its own type
	if x.Op == token.SHL || x.Op == token.SHR {
		if kv, ok := c.constIntVal(x.Y); ok {
			k := int(kv.Int64())
			switch {
			case x.Op == token.SHL && a.t.k == kUnsigned:
				return lx{s: fmt.Sprintf("((%s * %s) %% %s)", a.s, pow2(k), pow2(a.t.bits)), t: a.t}, nil
			case x.Op == token.SHL && a.t.k == kSigned:
				return lx{s: fmt.Sprintf("(Go.wrapS %d (%s * %s))", a.t.bits, a.s, pow2(k)), t: a.t}, nil
			case x.Op == token.SHR && a.t.k == kUnsigned:
				return lx{s: fmt.Sprintf("(%s / %s)", a.s, pow2(k)), t: a.t}, nil
			case x.Op == token.SHR && (a.t.k == kSigned || a.t.k == kInt):
				return lx{s: fmt.Sprintf("(%s / (%s : Int))", a.s, pow2(k)), t: a.t}, nil
			}
			return lx{}, fmt.Errorf("unsupported shift")
		}
		n, err := c.expr(x.Y)
		if err != nil {
			return lx{}, err
		}
		if n.t.k == kByte {
			n = lx{s: n.s + ".toNat", t: ltype{k: kUnsigned, bits: 8, lean: "Nat"}}
		}
		if n.t.k != kUnsigned || a.t.k != kUnsigned {
			return lx{}, fmt.Errorf("unsupported variable shift")
		}
		if x.Op == token.SHL {
			return lx{s: fmt.Sprintf("((%s <<< %s) %% %s)", a.s, n.s, pow2(a.t.bits)), t: a.t}, nil
		}
		return lx{s: fmt.Sprintf("(%s >>> %s)", a.s, n.s), t: a.t}, nil
	}
	if c.cfg.nonNilRecv && (x.Op == token.EQL || x.Op == token.NEQ) {
		if id, ok := stripParens(x.Y).(*ast.Ident); ok && id.Name == "nil" {
			if xi, ok := stripParens(x.X).(*ast.Ident); ok && c.recv != nil && c.info.Uses[xi] == c.recv {
				if x.Op == token.EQL {
					return lx{s: "false", p: "False", t: ltype{k: kBool, lean: "Bool"}}, nil
				}
				return lx{s: "true", p: "True", t: ltype{k: kBool, lean: "Bool"}}, nil
			}
		}
	}
	if (x.Op == token.EQL || x.Op == token.NEQ) && a.t.k == kMap {
		if id, ok := stripParens(x.Y).(*ast.Ident); ok && id.Name == "nil" {
			if x.Op == token.EQL {
				return mkBool("(Go.mapIsNil " + a.s + " = true)"), nil
			}
			return mkBool("(Go.mapIsNil " + a.s + " = false)"), nil
		}
		return lx{}, fmt.Errorf("maps can only be compared with nil")
	}
	b, err := c.expr(x.Y)
	if err != nil {
		return lx{}, err
	}
	switch x.Op {
	case token.EQL, token.NEQ, token.LSS, token.LEQ, token.GTR, token.GEQ:
		op := map[token.Token]string{token.EQL: "=", token.NEQ: "≠", token.LSS: "<", token.LEQ: "≤", token.GTR: ">", token.GEQ: "≥"}[x.Op]
		if a.t.k == kList || a.t.k == kFunc || a.t.k == kOther || a.t.k == kFloat || b.t.k == kFloat {
			return lx{}, fmt.Errorf("comparison of %s not supported", a.t.lean)
		}
		if a.t.k == kBool {
			return mkBool(fmt.Sprintf("(%s %s %s)", a.s, op, b.s)), nil
		}
		return mkBool(fmt.Sprintf("(%s %s %s)", a.s, op, b.s)), nil
	}
	if a.t.k == kFloat || b.t.k == kFloat {
		return lx{}, fmt.Errorf("floating-point arithmetic not supported at %s", fset.Position(x.Pos()))
	}
	t := a.t
	bits := t.bits
	switch t.k {
	case kString:
		if x.Op == token.ADD {
			return lx{s: "(" + a.s + " ++ " + b.s + ")", t: t}, nil
		}
	case kInt:
		switch x.Op {
		case token.ADD, token.SUB, token.MUL:
			return lx{s: fmt.Sprintf("(%s %s %s)", a.s, x.Op, b.s), t: t}, nil
		}
	case kSigned:
		switch x.Op {
		case token.ADD, token.SUB, token.MUL:
			return lx{s: fmt.Sprintf("(Go.wrapS %d (%s %s %s))", bits, a.s, x.Op, b.s), t: t}, nil
		}
	case kByte:
		switch x.Op {
		case token.ADD, token.SUB, token.MUL:
			return lx{s: fmt.Sprintf("(%s %s %s)", a.s, x.Op, b.s), t: t}, nil
		case token.AND:
			return lx{s: fmt.Sprintf("(%s &&& %s)", a.s, b.s), t: t}, nil
		case token.OR:
			return lx{s: fmt.Sprintf("(%s ||| %s)", a.s, b.s), t: t}, nil
		case token.XOR:
			return lx{s: fmt.Sprintf("(%s ^^^ %s)", a.s, b.s), t: t}, nil
		}
	case kUnsigned, kWireType:
		m := pow2(bits)
		switch x.Op {
		case token.ADD, token.MUL:
			return lx{s: fmt.Sprintf("((%s %s %s) %% %s)", a.s, x.Op, b.s, m), t: t}, nil
		case token.SUB:
			return lx{s: fmt.Sprintf("((%s + %s - %s) %% %s)", a.s, m, b.s, m), t: t}, nil
		case token.AND:
			if kv, ok := c.constIntVal(x.Y); ok {
				if k, ok := isMask(kv); ok {
					return lx{s: fmt.Sprintf("(%s %% %s)", a.s, pow2(k)), t: t}, nil
				}
			}
			return lx{s: fmt.Sprintf("(%s &&& %s)", a.s, b.s), t: t}, nil
		case token.OR:
			return lx{s: fmt.Sprintf("(%s ||| %s)", a.s, b.s), t: t}, nil
		case token.XOR:
			return lx{s: fmt.Sprintf("(%s ^^^ %s)", a.s, b.s), t: t}, nil
		}
	}
	if x.Op == token.QUO || x.Op == token.REM {
		kv, ok := c.constIntVal(x.Y)
		if !ok || kv.Sign() == 0 || kv.Cmp(big.NewInt(-1)) == 0 {
			return lx{}, fmt.Errorf("division by a non-constant (or 0 / -1) is not supported")
		}
		switch t.k {
		case kInt, kSigned:
			f := "Int.tdiv"
			if x.Op == token.REM {
				f = "Int.tmod"
			}
			return lx{s: fmt.Sprintf("(%s %s %s)", f, a.s, b.s), t: t}, nil
		case kUnsigned:
			return lx{s: fmt.Sprintf("(%s %s %s)", a.s, x.Op, b.s), t: t}, nil
		}
	}
	return lx{}, fmt.Errorf("unsupported operator %s on %s at %s", x.Op, t.lean, fset.Position(x.Pos()))
}

// convert implements Go's conversion T(a).
func (c *fctx) convert(a lx, to ltype, arg ast.Expr) (lx, error) {
	from := a.t
	switch {
	case to.k == kInt && (from.k == kInt || from.k == kSigned):
		return lx{s: a.s, t: to}, nil
	case to.k == kByte && from.k == kByte:
		return a, nil
	case to.k == kByte && (from.k == kUnsigned || from.k == kWireType):
		return lx{s: "(byteOfNat " + a.s + ")", t: to}, nil
	case to.k == kByte && (from.k == kInt || from.k == kSigned):
		return lx{s: fmt.Sprintf("(byteOfNat (Go.toU 8 %s))", a.s), t: to}, nil
	case (to.k == kUnsigned || to.k == kInt || to.k == kSigned) && from.k == kByte:
		if to.k == kUnsigned {
			return lx{s: a.s + ".toNat", t: to}, nil
		}
		if to.k == kSigned && to.bits == 8 {
			return lx{s: fmt.Sprintf("(Go.wrapS 8 (Int.ofNat %s.toNat))", a.s), t: to}, nil
		}
		return lx{s: "(Int.ofNat " + a.s + ".toNat)", t: to}, nil
	case to.k == kInt && from.k == kUnsigned:
		// assumption (trusted base): the value is < 2^63 — lengths and sizes only
		return lx{s: "(Int.ofNat " + a.s + ")", t: to}, nil
	case to.k == kSigned && (from.k == kInt || from.k == kSigned):
		if from.k == kSigned && from.bits <= to.bits {
			return lx{s: a.s, t: to}, nil
		}
		return lx{s: fmt.Sprintf("(Go.wrapS %d %s)", to.bits, a.s), t: to}, nil
	case to.k == kSigned && (from.k == kUnsigned || from.k == kWireType):
		if from.bits < to.bits {
			return lx{s: "(Int.ofNat " + a.s + ")", t: to}, nil
		}
		return lx{s: fmt.Sprintf("(Go.wrapS %d (Int.ofNat %s))", to.bits, a.s), t: to}, nil
	case to.k == kUnsigned && (from.k == kInt || from.k == kSigned):
		return lx{s: fmt.Sprintf("(Go.toU %d %s)", to.bits, a.s), t: to}, nil
	case to.k == kUnsigned && (from.k == kUnsigned || from.k == kWireType):
		if from.bits <= to.bits || from.k == kWireType {
			return lx{s: a.s, t: to}, nil
		}
		return lx{s: fmt.Sprintf("(%s %% %s)", a.s, pow2(to.bits)), t: to}, nil
	case to.k == kWireType && from.k == kUnsigned:
		// only `Type(x & m)` with m < 128 keeps the value non-negative as an int8
		if be, ok := stripParens(arg).(*ast.BinaryExpr); ok && be.Op == token.AND {
			if kv, ok := c.constIntVal(be.Y); ok && kv.Cmp(big.NewInt(128)) < 0 {
				return lx{s: a.s, t: to}, nil
			}
		}
		return lx{}, fmt.Errorf("conversion to protowire.Type of an unmasked value")
	case to.k == kWireType && from.k == kWireType:
		return lx{s: a.s, t: to}, nil
	case to.k == kString && from.k == kList && from.elem.k == kByte:
		return lx{s: "(Go.stringOfBytes " + a.s + ")", t: to}, nil
	case to.k == from.k && to.k == kStruct && (to.name == from.name || to.lean == from.lean):
		return lx{s: a.s, t: to}, nil
	case to.k == kBool && from.k == kBool, to.k == kString && from.k == kString:
		return a, nil
	case to.k == kList && from.k == kList:
		return lx{s: a.s, t: to}, nil
	}
	return lx{}, fmt.Errorf("unsupported conversion %s -> %s", from.lean, to.lean)
}

func stripParens(e ast.Expr) ast.Expr {
	for {
		p, ok := e.(*ast.ParenExpr)
		if !ok {
			return e
		}
		e = p.X
	}
}

func (c *fctx) composite(x *ast.CompositeLit) (lx, error) {
	t, err := c.typeOf(x)
	if err != nil {
		return lx{}, err
	}
	if t.k == kMap && len(x.Elts) == 0 {
		return lx{s: "(Go.mapEmpty : " + t.lean + ")", t: t}, nil
	}
	if t.k != kStruct {
		return lx{}, fmt.Errorf("composite literal of %s not supported", t.lean)
	}
	sc := c.g.structs[t.name]
	if len(sc.bufs) > 0 {
		if len(x.Elts) == 0 {
			return lx{s: "(⟨[], []⟩ : " + sc.lean + ")", t: ltype{k: kBuf, lean: sc.lean}}, nil
		}
		if len(x.Elts) == 1 {
			if kv, ok := x.Elts[0].(*ast.KeyValueExpr); ok {
				if se, ok := stripParens(kv.Value).(*ast.SliceExpr); ok && se.Low == nil && se.High != nil && !se.Slice3 {
					if hv, ok := c.constIntVal(se.High); ok && hv.Sign() == 0 {
						b, err := c.expr(se.X)
						if err != nil {
							return lx{}, err
						}
						if b.t.k == kList {
							return lx{s: "(Pico.GoBuf.ofSliceZero " + b.s + ")", t: ltype{k: kBuf, lean: sc.lean}}, nil
						}
					}
				}
			}
		}
		return lx{}, fmt.Errorf("unsupported literal of a struct holding a written slice")
	}
	if len(x.Elts) == 0 && sc.zero != "" {
		return lx{s: sc.zero, t: t}, nil
	}
	tv := c.info.Types[x]
	st, ok := tv.Type.Underlying().(*types.Struct)
	if !ok {
		return lx{}, fmt.Errorf("composite literal: not a struct")
	}
	vals := map[string]string{}
	for _, el := range x.Elts {
		kv, ok := el.(*ast.KeyValueExpr)
		if !ok {
			return lx{}, fmt.Errorf("positional composite literal not supported")
		}
		v, err := c.expr(kv.Value)
		if err != nil {
			return lx{}, err
		}
		vals[kv.Key.(*ast.Ident).Name] = v.s
	}
	var parts []string
	for i := 0; i < st.NumFields(); i++ {
		f := st.Field(i)
		v, ok := vals[f.Name()]
		if !ok {
			ft, err := c.g.ltypeOf(f.Type())
			if err != nil {
				return lx{}, err
			}
			v, err = c.zeroOf(ft)
			if err != nil {
				return lx{}, err
			}
		}
		if sc.tuple != nil {
			parts = append(parts, v)
		} else {
			path, ok := sc.fields[f.Name()]
			if !ok || strings.Contains(path, ".") {
				return lx{}, fmt.Errorf("composite literal field %s has no direct Lean field", f.Name())
			}
			parts = append(parts, path+" := "+v)
		}
	}
	if sc.tuple != nil {
		return lx{s: "(" + strings.Join(parts, ", ") + ")", t: t}, nil
	}
	return lx{s: "({ " + strings.Join(parts, ", ") + " } : " + sc.lean + ")", t: t}, nil
}

// calleeName returns the qualified name of the called function / method, or "".
func (c *fctx) calleeName(x *ast.CallExpr) (string, *types.Func) {
	var id *ast.Ident
	switch f := x.Fun.(type) {
	case *ast.Ident:
		id = f
	case *ast.SelectorExpr:
		id = f.Sel
	default:
		return "", nil
	}
	fn, ok := c.info.Uses[id].(*types.Func)
	if !ok || fn.Pkg() == nil {
		return "", nil
	}
	name := fn.Name()
	if sig := fn.Type().(*types.Signature); sig.Recv() != nil {
		rt := sig.Recv().Type()
		if p, ok := rt.(*types.Pointer); ok {
			rt = p.Elem()
		}
		if n, ok := rt.(*types.Named); ok {
			name = n.Obj().Name() + "." + name
		}
	}
	return qualName(fn.Pkg().Path(), name), fn
}

func (c *fctx) callExpr(x *ast.CallExpr) (lx, error) {
	// conversion
	if tv, ok := c.info.Types[x.Fun]; ok && tv.IsType() {
		a, err := c.expr(x.Args[0])
		if err != nil {
			return lx{}, err
		}
		to, err := c.g.ltypeOf(tv.Type)
		if err != nil {
			return lx{}, err
		}
		r, err := c.convert(a, to, x.Args[0])
		if err != nil {
			return lx{}, fmt.Errorf("%v at %s", err, fset.Position(x.Pos()))
		}
		return r, nil
	}
	if id, ok := x.Fun.(*ast.Ident); ok {
		if _, isBuiltin := c.info.Uses[id].(*types.Builtin); isBuiltin {
			switch id.Name {
			case "len":
				a, err := c.expr(x.Args[0])
				if err != nil {
					return lx{}, err
				}
				if a.t.k == kList {
					return lx{s: "(Go.len " + a.s + ")", t: ltype{k: kInt, lean: "Int"}}, nil
				}
				if a.t.k == kBuf {
					return lx{s: "(Int.ofNat " + a.s + ".len)", t: ltype{k: kInt, lean: "Int"}}, nil
				}
				return lx{}, fmt.Errorf("len of %s not supported", a.t.lean)
			case "append":
				a, err := c.expr(x.Args[0])
				if err != nil {
					return lx{}, err
				}
				if x.Ellipsis.IsValid() {
					b, err := c.expr(x.Args[1])
					if err != nil {
						return lx{}, err
					}
					if a.t.k == kBuf {
						if b.t.k != kList {
							return lx{}, fmt.Errorf("append of a written slice to a written slice")
						}
						return lx{s: "(Pico.EncLow.Buf.append oracle " + a.s + " " + b.s + ")", t: a.t}, nil
					}
					return lx{s: "(" + a.s + " ++ " + b.s + ")", t: a.t}, nil
				}
				var els []string
				for _, e := range x.Args[1:] {
					v, err := c.expr(e)
					if err != nil {
						return lx{}, err
					}
					els = append(els, v.s)
				}
				if a.t.k == kBuf {
					return lx{s: "(Pico.EncLow.Buf.append oracle " + a.s + " [" + strings.Join(els, ", ") + "])", t: a.t}, nil
				}
				return lx{s: "(" + a.s + " ++ [" + strings.Join(els, ", ") + "])", t: a.t}, nil
			case "make":
				t, err := c.typeOf(x)
				if err != nil {
					return lx{}, err
				}
				if t.k == kList && len(x.Args) == 3 {
					if lv, ok := c.constIntVal(x.Args[1]); ok && lv.Sign() == 0 {
						// make([]T, 0, cap): empty; the fresh capacity is zeros ("any stale tail" covers it)
						return lx{s: "[]", t: t}, nil
					}
				}
				if t.k != kList || len(x.Args) != 2 {
					return lx{}, fmt.Errorf("unsupported make")
				}
				n, err := c.intExpr(x.Args[1])
				if err != nil {
					return lx{}, err
				}
				z, err := c.zeroOf(*t.elem)
				if err != nil {
					return lx{}, err
				}
				return lx{s: c.hoist(fmt.Sprintf("Go.makeZero %s %s", z, n)), t: t}, nil
			}
			if id.Name == "new" && len(x.Args) == 1 {
				tv := c.info.Types[x.Args[0]]
				t, err := c.g.ltypeOf(tv.Type)
				if err != nil {
					return lx{}, err
				}
				z, err := c.zeroOf(t)
				return lx{s: z, t: t}, err
			}
			return lx{}, fmt.Errorf("builtin %s not supported", id.Name)
		}
	}
	if id, ok := x.Fun.(*ast.Ident); ok {
		if cb, ok := c.cbs[c.info.Uses[id]]; ok && (cb.kind == "recv0" && len(x.Args) == 0 || cb.kind == "recv1" && len(x.Args) == 1 && c.rootObj(x.Args[0]) == c.recv) && c.recv != nil &&
			c.info.Uses[id].Type().Underlying().(*types.Signature).Results().Len() == 1 {
			// `fn()` used for its result: the call is hoisted in front of the statement (it runs on,
			// and returns, the receiver); short-circuit operands are rejected by the caller
			rt, err := c.typeOf(x)
			if err != nil {
				return lx{}, err
			}
			rn := c.names[c.recv]
			r := c.fresh("r")
			c.pre = append(c.pre, fmt.Sprintf("let (%s, %s) ← %s %s", rn, r, c.names[c.info.Uses[id]], rn))
			if rt.k == kBool {
				return mkBoolV(r), nil
			}
			return lx{s: r, t: rt}, nil
		}
		if cb, ok := c.cbs[c.info.Uses[id]]; ok && cb.kind == "source" {
			var as []string
			for _, a := range x.Args {
				v, err := c.expr(a)
				if err != nil {
					return lx{}, err
				}
				as = append(as, paren(v.s))
			}
			rt, err := c.typeOf(x)
			if err != nil {
				return lx{}, err
			}
			return lx{s: "(" + c.names[c.info.Uses[id]] + " " + strings.Join(as, " ") + ")", t: rt}, nil
		}
	}
	q, fn := c.calleeName(x)
	if q == "" {
		return lx{}, fmt.Errorf("unsupported call %s", exprString(x.Fun))
	}
	sig := fn.Type().(*types.Signature)
	if p, ok := c.g.prims[q]; ok && p.bufLean != "" && len(x.Args) > 0 {
		a0, err := c.expr(x.Args[0])
		if err != nil {
			return lx{}, err
		}
		if a0.t.k == kBuf {
			as := []string{a0.s}
			for _, a := range x.Args[1:] {
				v, err := c.expr(a)
				if err != nil {
					return lx{}, err
				}
				as = append(as, paren(v.s))
			}
			return lx{s: "(" + p.bufLean + " " + strings.Join(as, " ") + ")", t: a0.t}, nil
		}
	}
	var args []string
	if sig.Recv() != nil {
		r, err := c.expr(x.Fun.(*ast.SelectorExpr).X)
		if err != nil {
			return lx{}, err
		}
		args = append(args, r.s)
	}
	for _, a := range x.Args {
		v, err := c.expr(a)
		if err != nil {
			return lx{}, err
		}
		args = append(args, paren(v.s))
	}
	var rt ltype
	if sig.Results().Len() == 1 {
		t, err := c.g.ltypeOf(sig.Results().At(0).Type())
		if err != nil {
			return lx{}, err
		}
		rt = t
	} else {
		rt = ltype{k: kOther, lean: "tuple"}
	}
	if p, ok := c.g.prims[q]; ok {
		term := p.lean + " " + strings.Join(args, " ")
		if p.monadic {
			term = c.hoist(term)
		} else {
			term = "(" + term + ")"
		}
		if rt.k == kBool {
			return mkBoolV(term), nil
		}
		return lx{s: term, t: rt}, nil
	}
	if f, ok := c.g.fns[q]; ok && f.pure {
		term := "(" + f.lean + " " + strings.Join(args, " ") + ")"
		if rt.k == kBool {
			return mkBoolV(term), nil
		}
		if sig.Recv() != nil && rt.k == kList {
			// a getter of a written-slice field returns the written slice
			if r, err := c.expr(x.Fun.(*ast.SelectorExpr).X); err == nil && r.t.k == kStruct && len(c.g.structs[r.t.name].bufs) > 0 {
				return lx{s: term, t: ltype{k: kBuf, lean: c.g.structs[r.t.name].lean}}, nil
			}
		}
		return lx{s: term, t: rt}, nil
	}
	if _, ok := c.g.fns[q]; !ok && sig.Recv() == nil {
		// a helper of the package without configuration: translated on demand
		c.autoFn(q, fn)
	}
	if f, ok := c.g.fns[q]; ok && !f.needsState() && len(f.callbacks) == 0 {
		// a translated function without receiver state / pointer params can be used in an expression
		if sig.Recv() == nil || !isPtr(sig.Recv().Type()) {
			ptr := false
			for i := 0; i < sig.Params().Len(); i++ {
				if isPtr(sig.Params().At(i).Type()) {
					ptr = true
				}
			}
			if !ptr {
				term := c.hoist(f.lean + " " + strings.Join(args, " "))
				if rt.k == kBool {
					return mkBoolV(term), nil
				}
				return lx{s: term, t: rt}, nil
			}
		}
	}
	return lx{}, fmt.Errorf("call of %s is not supported in an expression at %s", q, fset.Position(x.Pos()))
}

func isPtr(t types.Type) bool {
	_, ok := t.(*types.Pointer)
	return ok
}
