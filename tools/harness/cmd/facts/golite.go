package main

// golite: a translator from the statement-level Go of the hand-written runtime (decoder.go,
// message.go, internal/bitset, internal/protowire, picoconv) into Lean 4 definitions in the `Res`
// monad (Aeneas style: a method that mutates through its receiver or a pointer argument becomes a
// pure function returning the new value; a `for` loop becomes a fuel-recursive auxiliary function;
// Go operations that can panic are checked operations of PicoModel/GoPrelude.lean).
//
// The generated definitions are proved equal to the hand-written model by PicoProofs/GoTie*.lean,
// so that the theorems about the model are theorems about what the source says now.
//
// Supported subset (anything else is an error -> the definition is emitted as UNTRANSLATABLE and
// the tie theorem that mentions it no longer builds):
//   statements: := = op= ++ -- (on locals, receiver fields, *pointerParam, slice elements),
//     var declarations, if/else, switch (tag and tagless, no fallthrough), for (cond / 3-clause /
//     infinite) with break/continue/return, return, expression statements that are calls;
//   expressions: integer arithmetic and comparisons with Go's wrap-around, && || !, len, append,
//     make, slicing, indexing, conversions, composite literals of configured structs, calls of
//     configured primitives / translated functions / callback parameters, typed constants.

import (
	"fmt"
	"go/ast"
	"go/constant"
	"go/importer"
	"go/parser"
	"go/token"
	"go/types"
	"os"
	"path/filepath"
	"sort"
	"strings"
)

// ------------------------------------------------------------------------------------------
// loading with go/types

type loader struct {
	fset  *token.FileSet
	repo  string
	pkgs  map[string]*types.Package
	infos map[string]*types.Info
	files map[string][]*ast.File
	std   types.Importer
}

const modPath = "storj.io/picobuf"

func newLoader(repo string) *loader {
	return &loader{fset: fset, repo: repo, pkgs: map[string]*types.Package{}, infos: map[string]*types.Info{},
		files: map[string][]*ast.File{}, std: importer.ForCompiler(fset, "source", nil)}
}

func (l *loader) Import(path string) (*types.Package, error) {
	if p, ok := l.pkgs[path]; ok {
		return p, nil
	}
	if path == modPath || strings.HasPrefix(path, modPath+"/") {
		dir := filepath.Join(l.repo, strings.TrimPrefix(path, modPath))
		ents, err := os.ReadDir(dir)
		if err != nil {
			return nil, err
		}
		var files []*ast.File
		for _, e := range ents {
			n := e.Name()
			if !strings.HasSuffix(n, ".go") || strings.HasSuffix(n, "_test.go") {
				continue
			}
			f, err := parser.ParseFile(l.fset, filepath.Join(dir, n), nil, parser.ParseComments)
			if err != nil {
				return nil, err
			}
			files = append(files, f)
		}
		info := &types.Info{Types: map[ast.Expr]types.TypeAndValue{}, Defs: map[*ast.Ident]types.Object{},
			Uses: map[*ast.Ident]types.Object{}, Selections: map[*ast.SelectorExpr]*types.Selection{}}
		conf := types.Config{Importer: l, Error: func(error) {}}
		p, err := conf.Check(path, l.fset, files, info)
		if err != nil {
			return nil, err
		}
		l.pkgs[path], l.infos[path], l.files[path] = p, info, files
		return p, nil
	}
	return l.std.Import(path)
}

func (l *loader) funcDecl(pkg, name string) *ast.FuncDecl {
	for _, f := range l.files[pkg] {
		if fd := funcDecls(f)[name]; fd != nil {
			return fd
		}
	}
	return nil
}

// ------------------------------------------------------------------------------------------
// Lean-side representation of Go types

type lkind int

const (
	kInt      lkind = iota // Go int: unbounded Int
	kSigned                // intN: Int with wrapS
	kUnsigned              // uintN: Nat mod 2^bits
	kWireType              // protowire.Type: Nat (0..7)
	kByte                  // byte: BitVec 8
	kBool
	kString
	kList   // []T read-only view / value slice
	kStruct // configured struct
	kError  // error interface holding parseError
	kFunc
	kBuf   // []byte written in place: EncLow.Buf (logical bytes + stale capacity)
	kMap   // map[K]V: Go.Map K V = Option (association list in iteration order); none = nil map
	kFloat // float32/float64: the IEEE bit pattern (Nat); only moved around and passed to math.FloatNNbits/frombits
	kOther
)

type ltype struct {
	k     lkind
	bits  int
	elem  *ltype
	key   *ltype // map key type
	name  string // struct: Go type name
	lean  string // Lean type
	array int    // >0: fixed-size array of that length (modelled as a list of that length)
}

func (t ltype) isInt() bool { return t.k == kInt || t.k == kSigned }
func (t ltype) isNum() bool {
	return t.k == kInt || t.k == kSigned || t.k == kUnsigned || t.k == kWireType || t.k == kByte
}

type structCfg struct {
	lean   string            // Lean structure name
	fields map[string]string // Go field (possibly promoted) -> Lean projection path
	tuple  []string          // if non-nil: the struct is a Lean tuple of these Go fields, in order
	bufs   map[string]bool   // []byte fields modelled as EncLow.Buf
	zero   string            // Lean term of the zero value
}

type primCfg struct {
	bufLean string // variant used when the first argument is a written slice (result is one too)
	lean    string
	results int  // number of Go results
	monadic bool // returns Res
}

// cbCfg describes a callback parameter (a Go func value passed in).
type cbCfg struct {
	kind string // "state": func(*Decoder) ~ Dec -> σ -> Res (Dec × σ); "sink": func(x T) ~ T -> σ -> σ ; "source": func(i) T ~ Nat -> T (pure)
}

type fnCfg struct {
	pkg, goName string // e.g. "storj.io/picobuf", "Decoder.nextField"
	lean        string // Lean definition name (inside namespace Pico.GoSrc)
	callbacks   map[string]cbCfg
	fuel        []string                    // fuel expression per loop (in source order), over Lean variable names
	pure        bool                        // emit a non-monadic definition (single return expression, nothing can panic)
	ifaces      map[string]map[string]cbCfg // interface-typed parameters: method name -> callback kind
	idioms      []idiom                     // recognised statement templates with their Lean emission
	inout       map[string]bool             // slice parameters written through (returned like pointer parameters)
	nonNilRecv  bool                        // `recv == nil` is False (the model is about non-nil receivers)
	extra       string                      // extra leading binders shared by the file (e.g. the re-allocation oracle)
	extraArgs   string                      // the corresponding arguments at call sites
	rec         bool                        // the function calls itself: it takes a fuel argument shared with its loops (mutual structural recursion)
	callFuel    map[string]string           // fuel expression for calls of recursive functions, by callee Go name
	recvParam   string                      // the parameter that plays the receiver (threaded through closures) instead of the Go receiver
	auto        bool                        // a helper without configuration, translated on demand with the defaults of its caller
}

type golite struct {
	l                   *loader
	structs             map[string]structCfg // qualified Go type name -> cfg
	prims               map[string]primCfg   // qualified Go function name -> cfg
	fns                 map[string]*fnCfg    // qualified Go function name -> cfg (translated functions)
	zero                map[string]string    // Lean zero value per Go field type string (for composite literals)
	stringsAsBytes      bool                 // Go strings are byte strings (wire level)
	pending             []*fnCfg             // helpers registered on demand, to be emitted before their first user
	emitted             map[*fnCfg]bool
	tag                 string // name of the file being emitted (suffix of its unfold_aux tactic)
	stringValuesAsBytes bool   // variables of type string are byte strings; string constants stay texts (error messages)
}

func qualName(pkgPath, name string) string { return pkgPath + "." + name }

func (g *golite) ltypeOf(t types.Type) (ltype, error) {
	switch x := t.(type) {
	case *types.Named:
		q := x.Obj().Name()
		if x.Obj().Pkg() != nil {
			q = qualName(x.Obj().Pkg().Path(), x.Obj().Name())
		}
		switch q {
		case modPath + ".FieldNumber", modPath + "/internal/protowire.Number":
			return ltype{k: kSigned, bits: 32, lean: "Int"}, nil
		case modPath + "/internal/protowire.Type":
			return ltype{k: kWireType, bits: 8, lean: "Nat"}, nil
		case "error":
			return ltype{k: kError, lean: "Option (Int × String)"}, nil
		case "time.Duration":
			return ltype{k: kSigned, bits: 64, lean: "Int"}, nil
		}
		if sc, ok := g.structs[q]; ok {
			return ltype{k: kStruct, name: q, lean: sc.lean}, nil
		}
		return g.ltypeOf(x.Underlying())
	case *types.Basic:
		switch x.Kind() {
		case types.Int, types.UntypedInt:
			return ltype{k: kInt, lean: "Int"}, nil
		case types.Int8:
			return ltype{k: kSigned, bits: 8, lean: "Int"}, nil
		case types.Int16:
			return ltype{k: kSigned, bits: 16, lean: "Int"}, nil
		case types.Int32, types.UntypedRune:
			return ltype{k: kSigned, bits: 32, lean: "Int"}, nil
		case types.Int64:
			return ltype{k: kSigned, bits: 64, lean: "Int"}, nil
		case types.Uint8:
			return ltype{k: kByte, bits: 8, lean: "Byte"}, nil
		case types.Uint16:
			return ltype{k: kUnsigned, bits: 16, lean: "Nat"}, nil
		case types.Uint32:
			return ltype{k: kUnsigned, bits: 32, lean: "Nat"}, nil
		case types.Uint64, types.Uint, types.Uintptr:
			return ltype{k: kUnsigned, bits: 64, lean: "Nat"}, nil
		case types.Bool, types.UntypedBool:
			return ltype{k: kBool, lean: "Bool"}, nil
		case types.Float32:
			return ltype{k: kFloat, bits: 32, lean: "Nat"}, nil
		case types.Float64:
			return ltype{k: kFloat, bits: 64, lean: "Nat"}, nil
		case types.String, types.UntypedString:
			if g.stringsAsBytes || (g.stringValuesAsBytes && x.Kind() == types.String) {
				b := ltype{k: kByte, bits: 8, lean: "Byte"}
				return ltype{k: kList, elem: &b, lean: "Bytes"}, nil
			}
			return ltype{k: kString, lean: "String"}, nil
		}
	case *types.Slice:
		e, err := g.ltypeOf(x.Elem())
		if err != nil {
			return ltype{}, err
		}
		if e.k == kByte {
			return ltype{k: kList, elem: &e, lean: "Bytes"}, nil
		}
		return ltype{k: kList, elem: &e, lean: "List " + paren(e.lean)}, nil
	case *types.Array:
		e, err := g.ltypeOf(x.Elem())
		if err != nil {
			return ltype{}, err
		}
		if e.k == kByte {
			return ltype{k: kList, elem: &e, lean: "Bytes", array: int(x.Len())}, nil
		}
		return ltype{k: kList, elem: &e, lean: "List " + paren(e.lean), array: int(x.Len())}, nil
	case *types.Map:
		k, err := g.ltypeOf(x.Key())
		if err != nil {
			return ltype{}, err
		}
		e, err := g.ltypeOf(x.Elem())
		if err != nil {
			return ltype{}, err
		}
		if k.k == kFloat || k.k == kList && k.elem != nil && k.elem.k != kByte {
			return ltype{}, fmt.Errorf("unsupported map key type %s", x.Key().String())
		}
		return ltype{k: kMap, key: &k, elem: &e, lean: "Go.Map " + paren(k.lean) + " " + paren(e.lean)}, nil
	case *types.Pointer:
		return g.ltypeOf(x.Elem())
	case *types.Signature:
		return ltype{k: kFunc}, nil
	case *types.Interface:
		if x.NumMethods() == 1 && x.Method(0).Name() == "Error" {
			return ltype{k: kError, lean: "Option (Int × String)"}, nil
		}
	}
	return ltype{}, fmt.Errorf("unsupported type %s", t.String())
}

func paren(s string) string {
	if strings.ContainsAny(s, " ") && !strings.HasPrefix(s, "(") {
		return "(" + s + ")"
	}
	return s
}

func constInt(v constant.Value) (string, bool) {
	if v == nil || v.Kind() != constant.Int {
		return "", false
	}
	s := v.ExactString()
	if strings.HasPrefix(s, "-") {
		return "(" + s + ")", true
	}
	return s, true
}

func sortedKeys(m map[string]bool) []string {
	var ks []string
	for k := range m {
		ks = append(ks, k)
	}
	sort.Strings(ks)
	return ks
}

// needsState: does the function thread a user state σ (callbacks that fill the caller's message)?
func (f *fnCfg) needsState() bool {
	for _, ms := range f.ifaces {
		for _, cb := range ms {
			if cb.kind == "state" || cb.kind == "sink" {
				return true
			}
		}
	}
	for _, cb := range f.callbacks {
		if cb.kind == "state" || cb.kind == "sink" {
			return true
		}
	}
	return false
}

// idiom: a statement recognised by template (holes HE_/HI_ as in match.go) and emitted as given.
type idiom struct {
	tmpl string
	emit func(c *fctx, b *bindings, n int) (string, error)
}
