package main

import (
	"fmt"
	"path/filepath"
	"sort"
	"strings"
)

// picowire/map.go: the 180 map codecs, translated statement by statement. A Go map is a
// `Go.Map K V` (none = nil map, some es = association list in iteration order); the typed writers
// and readers it calls are the translated ones of GoEncTypes / GoDecTypes.

const pwirePkg = modPath + "/picowire"

func newGoliteMap(repo string) (*golite, error) {
	g, err := newGoliteEnc(repo)
	if err != nil {
		return nil, err
	}
	if _, err := g.l.Import(pwirePkg); err != nil {
		return nil, fmt.Errorf("type-checking %s: %v", pwirePkg, err)
	}
	g.stringValuesAsBytes = true
	ex, exa := "(oracle : Nat → Bytes)", "oracle"
	for _, m := range g.methodsOfFile("encoder_types.go") {
		if strings.HasPrefix(m, "Encoder.") {
			g.fns[qualName(modPath, m)] = &fnCfg{pkg: modPath, goName: m, lean: "Pico.GoSrc.EncTypes.w" + strings.TrimPrefix(m, "Encoder."), extra: ex, extraArgs: exa}
		}
	}
	for _, m := range g.methodsOfFile("decoder_types.go") {
		if strings.HasPrefix(m, "Decoder.") {
			g.fns[qualName(modPath, m)] = &fnCfg{pkg: modPath, goName: m, lean: "Pico.GoSrc.DecTypes.r" + strings.TrimPrefix(m, "Decoder.")}
		}
	}
	g.fns[qualName(modPath, "Encoder.AlwaysAnyBytes")] = &fnCfg{pkg: modPath, goName: "Encoder.AlwaysAnyBytes", lean: "Pico.GoSrc.Encoder.AlwaysAnyBytes",
		callbacks: map[string]cbCfg{"fn": {kind: "recv0"}}, extra: ex, extraArgs: exa}
	stateCb := map[string]cbCfg{"fn": {kind: "state"}}
	g.fns[qualName(modPath, "Decoder.RepeatedMessage")] = &fnCfg{pkg: modPath, goName: "Decoder.RepeatedMessage", lean: "Pico.GoSrc.Decoder.RepeatedMessage", callbacks: stateCb}
	g.fns[qualName(modPath, "Decoder.Loop")] = &fnCfg{pkg: modPath, goName: "Decoder.Loop", lean: "Pico.GoSrc.Decoder.Loop", callbacks: stateCb}
	return g, nil
}

// methodsOfPkgFile: the methods declared in file `base` of package pkg, sorted.
func (g *golite) methodsOfPkgFile(pkg, base string) []string {
	var names []string
	for _, f := range g.l.files[pkg] {
		if filepath.Base(fset.Position(f.Pos()).Filename) != base {
			continue
		}
		for name := range funcDecls(f) {
			names = append(names, name)
		}
	}
	sort.Strings(names)
	return names
}

func genGoMap(g *golite, note func(string, ...interface{})) string {
	var order []*fnCfg
	for _, m := range g.methodsOfPkgFile(pwirePkg, "map.go") {
		typ, meth, ok := strings.Cut(m, ".")
		if !ok {
			note("golite map.go: unexpected declaration %s", m)
			continue
		}
		switch meth {
		case "PicoEncode":
			order = append(order, g.add(pwirePkg, m, "enc"+typ, fnCfg{recvParam: "enc", extra: "(oracle : Nat → Bytes)", extraArgs: "oracle"}))
		case "PicoDecode":
			order = append(order, g.add(pwirePkg, m, "dec"+typ, fnCfg{recvParam: "dec"}))
		default:
			note("golite map.go: unexpected method %s", m)
		}
	}
	var b strings.Builder
	b.WriteString("import PicoModel.Gen.GoEncTypes\nimport PicoModel.Gen.GoDecTypes\nimport PicoModel.GoMap\n" + goHeader + "namespace Pico.GoSrc.Map\nopen Pico\n\n")
	g.tag = "Map"
	b.WriteString(g.emit(order, note))
	fmt.Fprintf(&b, "def names : List String := [%s]\n\n", quoteList(order))
	b.WriteString("end Pico.GoSrc.Map\n")
	return b.String()
}
