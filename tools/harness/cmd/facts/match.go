package main

// Structural matching of a Go AST against a template with holes.
//
// A template is ordinary Go source. Identifiers with special prefixes are holes:
//
//	HE_name   matches any expression, binds it
//	HI_name   matches any identifier, binds its name (consistently)
//	HL_name   matches any basic literal, binds its text (consistently)
//
// Everything else must be structurally identical (positions and comments ignored).

import (
	"fmt"
	"go/ast"
	"go/parser"
	"go/token"
	"reflect"
	"strings"
)

type bindings struct {
	exprs  map[string]ast.Expr
	idents map[string]string
	lits   map[string]string
}

func newBindings() *bindings {
	return &bindings{exprs: map[string]ast.Expr{}, idents: map[string]string{}, lits: map[string]string{}}
}

func parseTemplate(body string) []ast.Stmt {
	src := "package p\nfunc _() {\n" + body + "\n}\n"
	f, err := parser.ParseFile(token.NewFileSet(), "template.go", src, 0)
	if err != nil {
		panic(fmt.Sprintf("bad template: %v\n%s", err, body))
	}
	return f.Decls[0].(*ast.FuncDecl).Body.List
}

func matchStmts(tmpl, got []ast.Stmt, b *bindings) bool {
	if len(tmpl) != len(got) {
		return false
	}
	for i := range tmpl {
		if !matchNode(reflect.ValueOf(tmpl[i]), reflect.ValueOf(got[i]), b) {
			return false
		}
	}
	return true
}

var posType = reflect.TypeOf(token.Pos(0))

func matchNode(t, g reflect.Value, b *bindings) bool {
	// unwrap interfaces (a nil interface only matches a nil interface)
	if t.Kind() == reflect.Interface || g.Kind() == reflect.Interface {
		tn := t.Kind() == reflect.Interface && t.IsNil()
		gn := g.Kind() == reflect.Interface && g.IsNil()
		if tn || gn {
			return tn && gn
		}
		if t.Kind() == reflect.Interface {
			t = t.Elem()
		}
		if g.Kind() == reflect.Interface {
			g = g.Elem()
		}
	}
	// holes
	if t.Kind() == reflect.Ptr && !t.IsNil() {
		if id, ok := t.Interface().(*ast.Ident); ok {
			switch {
			case strings.HasPrefix(id.Name, "HE_"):
				e, ok := g.Interface().(ast.Expr)
				if !ok {
					return false
				}
				if prev, seen := b.exprs[id.Name]; seen {
					return exprString(prev) == exprString(e)
				}
				b.exprs[id.Name] = e
				return true
			case strings.HasPrefix(id.Name, "HI_"):
				gi, ok := g.Interface().(*ast.Ident)
				if !ok {
					return false
				}
				if prev, seen := b.idents[id.Name]; seen {
					return prev == gi.Name
				}
				b.idents[id.Name] = gi.Name
				return true
			case strings.HasPrefix(id.Name, "HL_"):
				gl, ok := g.Interface().(*ast.BasicLit)
				if !ok {
					return false
				}
				if prev, seen := b.lits[id.Name]; seen {
					return prev == gl.Value
				}
				b.lits[id.Name] = gl.Value
				return true
			}
		}
	}
	if t.Type() != g.Type() {
		return false
	}
	switch t.Kind() {
	case reflect.Ptr:
		if t.IsNil() || g.IsNil() {
			return t.IsNil() == g.IsNil()
		}
		// *ast.Object / *ast.Scope: ignore (resolution info)
		switch t.Interface().(type) {
		case *ast.Object, *ast.Scope, *ast.CommentGroup:
			return true
		}
		return matchNode(t.Elem(), g.Elem(), b)
	case reflect.Struct:
		for i := 0; i < t.NumField(); i++ {
			ft := t.Type().Field(i)
			if ft.Type == posType {
				continue
			}
			if ft.Name == "Obj" || ft.Name == "Doc" || ft.Name == "Comment" {
				continue
			}
			if !matchNode(t.Field(i), g.Field(i), b) {
				return false
			}
		}
		return true
	case reflect.Slice:
		if t.Len() != g.Len() {
			return false
		}
		for i := 0; i < t.Len(); i++ {
			if !matchNode(t.Index(i), g.Index(i), b) {
				return false
			}
		}
		return true
	case reflect.String:
		return t.String() == g.String()
	case reflect.Int, reflect.Int64, reflect.Int32:
		return t.Int() == g.Int()
	case reflect.Bool:
		return t.Bool() == g.Bool()
	}
	return false
}

func exprString(e ast.Expr) string {
	switch x := e.(type) {
	case *ast.Ident:
		return x.Name
	case *ast.BasicLit:
		return x.Value
	case *ast.ParenExpr:
		return "(" + exprString(x.X) + ")"
	case *ast.StarExpr:
		return "*" + exprString(x.X)
	case *ast.UnaryExpr:
		return x.Op.String() + exprString(x.X)
	case *ast.BinaryExpr:
		return exprString(x.X) + " " + x.Op.String() + " " + exprString(x.Y)
	case *ast.SelectorExpr:
		return exprString(x.X) + "." + x.Sel.Name
	case *ast.CallExpr:
		var args []string
		for _, a := range x.Args {
			args = append(args, exprString(a))
		}
		return exprString(x.Fun) + "(" + strings.Join(args, ", ") + ")"
	case *ast.IndexExpr:
		return exprString(x.X) + "[" + exprString(x.Index) + "]"
	case *ast.SliceExpr:
		lo, hi := "", ""
		if x.Low != nil {
			lo = exprString(x.Low)
		}
		if x.High != nil {
			hi = exprString(x.High)
		}
		return exprString(x.X) + "[" + lo + ":" + hi + "]"
	case *ast.ArrayType:
		return "[]" + exprString(x.Elt)
	case *ast.MapType:
		return "map[" + exprString(x.Key) + "]" + exprString(x.Value)
	case *ast.CompositeLit:
		return exprString(x.Type) + "{…}"
	}
	return fmt.Sprintf("<%T>", e)
}
