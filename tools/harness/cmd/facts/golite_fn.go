package main

import (
	"fmt"
	"go/ast"
	"go/constant"
	"go/token"
	"go/types"
	"strings"
)

func constantOf(bl *ast.BasicLit) constant.Value {
	return constant.MakeFromLiteral(bl.Value, bl.Kind, 0)
}

// cbLeanType: the Lean type of a callback parameter.
func (c *fctx) cbLeanType(o types.Object, cb cbCfg) (string, error) {
	sig := o.Type().Underlying().(*types.Signature)
	switch cb.kind {
	case "state":
		t, err := c.g.ltypeOf(sig.Params().At(0).Type())
		if err != nil {
			return "", err
		}
		return fmt.Sprintf("%s → σ → Res (%s × σ)", t.lean, t.lean), nil
	case "recv0", "recv1":
		rt := "Pico.EncLow.Buf"
		if c.recv != nil {
			if t, err := c.g.ltypeOf(c.recv.Type()); err == nil {
				rt = t.lean
			}
		}
		if sig.Results().Len() == 0 {
			return fmt.Sprintf("%s → Res %s", rt, paren(rt)), nil
		}
		t, err := c.g.ltypeOf(sig.Results().At(0).Type())
		if err != nil {
			return "", err
		}
		return fmt.Sprintf("%s → Res (%s × %s)", rt, rt, t.lean), nil
	case "source":
		var parts []string
		for i := 0; i < sig.Params().Len(); i++ {
			t, err := c.g.ltypeOf(sig.Params().At(i).Type())
			if err != nil {
				return "", err
			}
			parts = append(parts, t.lean)
		}
		t, err := c.g.ltypeOf(sig.Results().At(0).Type())
		if err != nil {
			return "", err
		}
		return strings.Join(parts, " → ") + " → " + t.lean, nil
	case "sink":
		var parts []string
		for i := 0; i < sig.Params().Len(); i++ {
			t, err := c.g.ltypeOf(sig.Params().At(i).Type())
			if err != nil {
				return "", err
			}
			parts = append(parts, t.lean)
		}
		return strings.Join(parts, " → ") + " → σ → σ", nil
	}
	return "", fmt.Errorf("callback kind %s", cb.kind)
}

func (c *fctx) leanTypeOfObj(o types.Object) (string, error) {
	if o == c.state {
		return "σ", nil
	}
	if cb, ok := c.cbs[o]; ok {
		return c.cbLeanType(o, cb)
	}
	t, err := c.g.ltypeOf(o.Type())
	if err != nil {
		return "", err
	}
	return t.lean, nil
}

// freeVars: objects declared outside `n` (already named) that are referenced inside it, in order of first use.
func (c *fctx) freeVars(n ast.Node) []types.Object {
	seen := map[types.Object]bool{}
	var out []types.Object
	usesState := false
	ast.Inspect(n, func(k ast.Node) bool {
		switch x := k.(type) {
		case *ast.FuncLit:
			return false
		case *ast.Ident:
			o := c.info.Uses[x]
			if o == nil {
				return true
			}
			if _, known := c.names[o]; known && !seen[o] {
				seen[o] = true
				out = append(out, o)
			}
		case *ast.CallExpr:
			c.callEffects(x, func(o types.Object) {
				if o == c.state && o != nil {
					usesState = true
				}
			})
		}
		return true
	})
	if usesState && !seen[c.state] {
		out = append(out, c.state)
	}
	return out
}

func (c *fctx) forStmt(x *ast.ForStmt, rest []ast.Stmt, k *cont, n int) (string, error) {
	var b strings.Builder
	if x.Init != nil {
		s, err := c.stmtsNoCont([]ast.Stmt{x.Init}, n)
		if err != nil {
			return "", err
		}
		b.WriteString(s)
	}
	c.loopNo++
	idx := c.loopNo
	lname := fmt.Sprintf("%s.loop%d", c.cfg.lean, idx)
	if idx-1 >= len(c.cfg.fuel) && !c.cfg.rec {
		return "", fmt.Errorf("no fuel hint for loop %d of %s", idx, c.cfg.goName)
	}
	var bodyNodes []ast.Stmt
	bodyNodes = append(bodyNodes, x.Body.List...)
	if x.Post != nil {
		bodyNodes = append(bodyNodes, x.Post)
	}
	mods := c.modified(bodyNodes)
	hasRet := hasReturn(x.Body)
	// read-only variables: referenced but not modified
	isMod := map[types.Object]bool{}
	for _, o := range mods {
		isMod[o] = true
	}
	var ro []types.Object
	for _, o := range c.freeVars(x) {
		if !isMod[o] {
			ro = append(ro, o)
		}
	}
	// fuel expression is evaluated at loop entry, over the current Lean names
	fuelExpr := "fuel"
	if !c.cfg.rec {
		fuelExpr = c.cfg.fuel[idx-1]
	}
	for o, nm := range c.names {
		fuelExpr = strings.ReplaceAll(fuelExpr, "${"+o.Name()+"}", nm)
	}
	if strings.Contains(fuelExpr, "${") {
		// the hint names a variable that is not there (renamed in the source): derive the fuel from
		// the loop condition where it has one of the shapes `len(xs) > 0`, `x == recv.field`
		fuelExpr = c.fuelFromCond(x.Cond)
		if fuelExpr == "" {
			return "", fmt.Errorf("the fuel hint for loop %d of %s names an unknown variable", idx, c.cfg.goName)
		}
	}

	// ---- the auxiliary definition
	saved := c.snapshot()
	savedPre := c.pre
	c.pre = nil
	var binders, roNames, modTypes []string
	if c.cfg.extra != "" {
		binders = append(binders, c.cfg.extra)
		roNames = append(roNames, c.cfg.extraArgs)
	}
	for _, o := range ro {
		t, err := c.leanTypeOfObj(o)
		if err != nil {
			return "", err
		}
		binders = append(binders, fmt.Sprintf("(%s : %s)", c.names[o], t))
		roNames = append(roNames, c.names[o])
	}
	for _, o := range mods {
		t, err := c.leanTypeOfObj(o)
		if err != nil {
			return "", err
		}
		modTypes = append(modTypes, t)
	}
	modTuple := "Unit"
	if len(modTypes) == 1 {
		modTuple = modTypes[0]
	} else if len(modTypes) > 1 {
		modTuple = strings.Join(modTypes, " × ")
	}
	retT := "Res (" + modTuple + ")"
	if hasRet {
		rt := "Unit"
		if len(c.res) == 1 {
			rt = c.res[0].lean
		} else if len(c.res) > 1 {
			var ps []string
			for _, r := range c.res {
				ps = append(ps, r.lean)
			}
			rt = strings.Join(ps, " × ")
		}
		retT = fmt.Sprintf("Res (Option (%s) × (%s))", rt, modTuple)
	}
	sigma := ""
	if c.state != nil {
		sigma = "{σ : Type} "
	}
	var d strings.Builder
	fmt.Fprintf(&d, "def %s %s%s : Nat", lname, sigma, strings.Join(binders, " "))
	for _, t := range modTypes {
		fmt.Fprintf(&d, " → %s", paren(t))
	}
	fmt.Fprintf(&d, " → %s\n", retT)
	under := strings.Repeat(", _", len(mods))
	fmt.Fprintf(&d, "  | 0%s => .outOfFuel\n", under)
	var modNames []string
	for _, o := range mods {
		modNames = append(modNames, c.names[o])
	}
	fmt.Fprintf(&d, "  | fuel + 1%s => do\n", prefixEach(", ", modNames))
	c.loops = append(c.loops, loopFrame{name: lname, mods: mods, hasRet: hasRet})
	exit := "pure " + c.tupleOf(mods)
	if hasRet {
		exit = "pure (none, " + c.tupleOf(mods) + ")"
	}
	lk := &cont{kind: "loopnext", loop: x, lname: lname, lro: roNames}
	if x.Cond != nil {
		cond, err := c.expr(x.Cond)
		if err != nil {
			return "", err
		}
		d.WriteString(c.flush(2))
		body, err := c.stmts(x.Body.List, lk, 3)
		if err != nil {
			return "", err
		}
		fmt.Fprintf(&d, "    if %s then do\n%s    else\n      %s\n", cond.p, body, exit)
	} else {
		body, err := c.stmts(x.Body.List, lk, 2)
		if err != nil {
			return "", err
		}
		d.WriteString(body)
	}
	c.loops = c.loops[:len(c.loops)-1]
	c.restore(saved)
	c.pre = savedPre
	c.aux = append(c.aux, d.String())

	// ---- the call
	args := append([]string{}, roNames...)
	args = append(args, "("+fuelExpr+")")
	args = append(args, modNames...)
	call := lname + " " + strings.Join(args, " ")
	pat := c.tupleOf(mods)
	if len(mods) == 0 {
		pat = "_"
	}
	if hasRet {
		rv := c.fresh("ret")
		fmt.Fprintf(&b, "%slet (%s, %s) ← %s\n", ind(n), rv, pat, call)
		var restS string
		if x.Cond == nil && !hasBreak(x.Body) {
			// `for { … }` without break only ends by return: the normal exit does not exist
			restS = ind(n+1) + "Res.panic \"unreachable: infinite loop exited\"\n"
		} else {
			var err error
			restS, err = c.stmts(rest, k, n+1)
			if err != nil {
				return "", err
			}
		}
		var rnames []string
		rpat := "_"
		if len(c.res) == 1 {
			rnames = []string{c.fresh("rv")}
			rpat = rnames[0]
		} else if len(c.res) > 1 {
			for range c.res {
				rnames = append(rnames, c.fresh("rv"))
			}
			rpat = "(" + strings.Join(rnames, ", ") + ")"
		}
		fmt.Fprintf(&b, "%smatch %s with\n%s| some %s =>\n%s%s| none => do\n%s", ind(n), rv, ind(n), rpat, c.emitReturn(rnames, n+1), ind(n), restS)
		return b.String(), nil
	}
	fmt.Fprintf(&b, "%slet %s ← %s\n", ind(n), pat, call)
	r, err := c.stmts(rest, k, n)
	return b.String() + r, err
}

// rangeStmt: `for _, x := range xs { … }` over a slice that the body does not assign: structural
// recursion over the list (Go evaluates the range expression once).
func (c *fctx) rangeStmt(x *ast.RangeStmt, rest []ast.Stmt, k *cont, n int) (string, error) {
	if x.Tok != token.DEFINE || x.Value == nil {
		return "", fmt.Errorf("unsupported form of range at %s", fset.Position(x.Pos()))
	}
	e, err := c.expr(x.X)
	if err != nil {
		return "", err
	}
	isMap := e.t.k == kMap
	var kid *ast.Ident
	if key, ok := x.Key.(*ast.Ident); !ok {
		return "", fmt.Errorf("unsupported range key at %s", fset.Position(x.Pos()))
	} else if isMap {
		kid = key
	} else if key.Name != "_" {
		return "", fmt.Errorf("range with an index variable not supported at %s", fset.Position(x.Pos()))
	}
	vid, ok := x.Value.(*ast.Ident)
	if !ok {
		return "", fmt.Errorf("unsupported range value at %s", fset.Position(x.Pos()))
	}
	elemLean, listTerm := "", e.s
	switch {
	case isMap:
		// iteration order is whatever order the association list has (any order: the theorems
		// quantify over the list)
		elemLean = e.t.key.lean + " × " + e.t.elem.lean
		listTerm = "Go.mapRange " + paren(e.s)
	case e.t.k == kList && e.t.elem != nil:
		elemLean = e.t.elem.lean
	default:
		return "", fmt.Errorf("range over %s not supported at %s", e.t.lean, fset.Position(x.Pos()))
	}
	var b strings.Builder
	b.WriteString(c.flush(n))
	c.loopNo++
	lname := fmt.Sprintf("%s.loop%d", c.cfg.lean, c.loopNo)
	mods := c.modified(x.Body.List)
	if root := c.rootObj(x.X); root != nil {
		for _, o := range mods {
			if o == root {
				return "", fmt.Errorf("the ranged slice is assigned inside the loop at %s", fset.Position(x.Pos()))
			}
		}
	}
	hasRet := hasReturn(x.Body)
	isMod := map[types.Object]bool{}
	for _, o := range mods {
		isMod[o] = true
	}
	var ro []types.Object
	for _, o := range c.freeVars(x.Body) {
		if !isMod[o] {
			ro = append(ro, o)
		}
	}
	saved := c.snapshot()
	savedPre := c.pre
	c.pre = nil
	var binders, roNames, modTypes []string
	if c.cfg.extra != "" {
		binders = append(binders, c.cfg.extra)
		roNames = append(roNames, c.cfg.extraArgs)
	}
	for _, o := range ro {
		t, err := c.leanTypeOfObj(o)
		if err != nil {
			return "", err
		}
		binders = append(binders, fmt.Sprintf("(%s : %s)", c.names[o], t))
		roNames = append(roNames, c.names[o])
	}
	for _, o := range mods {
		t, err := c.leanTypeOfObj(o)
		if err != nil {
			return "", err
		}
		modTypes = append(modTypes, t)
	}
	modTuple := "Unit"
	if len(modTypes) == 1 {
		modTuple = modTypes[0]
	} else if len(modTypes) > 1 {
		modTuple = strings.Join(modTypes, " × ")
	}
	retT := "Res (" + modTuple + ")"
	if hasRet {
		rt := "Unit"
		if len(c.res) == 1 {
			rt = c.res[0].lean
		} else if len(c.res) > 1 {
			var ps []string
			for _, r := range c.res {
				ps = append(ps, r.lean)
			}
			rt = strings.Join(ps, " × ")
		}
		retT = fmt.Sprintf("Res (Option (%s) × (%s))", rt, modTuple)
	}
	sigma := ""
	if c.state != nil {
		sigma = "{σ : Type} "
	}
	var modNames []string
	for _, o := range mods {
		modNames = append(modNames, c.names[o])
	}
	exit := "pure " + c.tupleOf(mods)
	if hasRet {
		exit = "pure (none, " + c.tupleOf(mods) + ")"
	}
	var d strings.Builder
	fmt.Fprintf(&d, "def %s %s%s : List %s", lname, sigma, strings.Join(binders, " "), paren(elemLean))
	for _, t := range modTypes {
		fmt.Fprintf(&d, " → %s", paren(t))
	}
	fmt.Fprintf(&d, " → %s\n", retT)
	fmt.Fprintf(&d, "  | []%s => %s\n", prefixEach(", ", modNames), exit)
	restName := c.fresh("rest")
	vobj := c.info.Defs[vid]
	vname := "_"
	if vobj != nil && vid.Name != "_" {
		vname = c.declare(vobj)
	}
	if isMap {
		kname := "_"
		if kobj := c.info.Defs[kid]; kobj != nil && kid.Name != "_" {
			kname = c.declare(kobj)
		}
		vname = "(" + kname + ", " + vname + ")"
	}
	fmt.Fprintf(&d, "  | %s :: %s%s => do\n", vname, restName, prefixEach(", ", modNames))
	c.loops = append(c.loops, loopFrame{name: lname, mods: mods, hasRet: hasRet, recArg: restName})
	lk := &cont{kind: "loopnext", lname: lname, lro: roNames}
	body, err := c.stmts(x.Body.List, lk, 2)
	if err != nil {
		return "", err
	}
	d.WriteString(body)
	c.loops = c.loops[:len(c.loops)-1]
	c.restore(saved)
	c.pre = savedPre
	c.aux = append(c.aux, d.String())

	args := append([]string{}, roNames...)
	args = append(args, paren(listTerm))
	args = append(args, modNames...)
	call := lname + " " + strings.Join(args, " ")
	pat := c.tupleOf(mods)
	if len(mods) == 0 {
		pat = "_"
	}
	if hasRet {
		rv := c.fresh("ret")
		fmt.Fprintf(&b, "%slet (%s, %s) ← %s\n", ind(n), rv, pat, call)
		restS, err := c.stmts(rest, k, n+1)
		if err != nil {
			return "", err
		}
		var rnames []string
		rpat := "_"
		if len(c.res) == 1 {
			rnames = []string{c.fresh("rv")}
			rpat = rnames[0]
		} else if len(c.res) > 1 {
			for range c.res {
				rnames = append(rnames, c.fresh("rv"))
			}
			rpat = "(" + strings.Join(rnames, ", ") + ")"
		}
		fmt.Fprintf(&b, "%smatch %s with\n%s| some %s =>\n%s%s| none => do\n%s", ind(n), rv, ind(n), rpat, c.emitReturn(rnames, n+1), ind(n), restS)
		return b.String(), nil
	}
	fmt.Fprintf(&b, "%slet %s ← %s\n", ind(n), pat, call)
	r, err := c.stmts(rest, k, n)
	return b.String() + r, err
}

func sortStrings(xs []string) {
	for i := range xs {
		for j := i + 1; j < len(xs); j++ {
			if xs[j] < xs[i] {
				xs[i], xs[j] = xs[j], xs[i]
			}
		}
	}
}

func prefixEach(p string, xs []string) string {
	s := ""
	for _, x := range xs {
		s += p + x
	}
	return s
}

// stmtsNoCont translates simple statements (assignments / declarations) that fall through.
func (c *fctx) stmtsNoCont(list []ast.Stmt, n int) (string, error) {
	var b strings.Builder
	for _, s := range list {
		switch x := s.(type) {
		case *ast.AssignStmt:
			o, err := c.assign(x, n)
			if err != nil {
				return "", err
			}
			b.WriteString(o)
		case *ast.DeclStmt:
			o, err := c.declStmt(x, n)
			if err != nil {
				return "", err
			}
			b.WriteString(o)
		default:
			return "", fmt.Errorf("unsupported init statement %T", s)
		}
	}
	return b.String(), nil
}

// translate one configured function; returns Lean source (auxiliary loop definitions first).
func (g *golite) translate(cfg *fnCfg) (string, error) {
	fd := g.l.funcDecl(cfg.pkg, cfg.goName)
	if fd == nil || fd.Body == nil {
		return "", fmt.Errorf("function %s not found in %s", cfg.goName, cfg.pkg)
	}
	info := g.l.infos[cfg.pkg]
	c := &fctx{g: g, info: info, cfg: cfg, fd: fd, names: map[types.Object]string{}, used: map[string]bool{},
		ptrs: map[types.Object]bool{}, cbs: map[types.Object]cbCfg{}}
	sig := info.Defs[fd.Name].Type().(*types.Signature)
	var binders []string
	if cfg.extra != "" {
		binders = append(binders, cfg.extra)
	}
	var recvBinder, recvAsPtr string
	if sig.Recv() != nil {
		o := sig.Recv()
		t, err := g.ltypeOf(o.Type())
		if err != nil {
			return "", err
		}
		name := c.declare(o)
		if isPtr(o.Type()) && cfg.recvParam != "" {
			c.ptrs[o] = true
			recvAsPtr = fmt.Sprintf("(%s : %s)", name, t.lean)
		} else if isPtr(o.Type()) {
			c.recv = o
			recvBinder = fmt.Sprintf("(%s : %s)", name, t.lean)
		} else {
			binders = append(binders, fmt.Sprintf("(%s : %s)", name, t.lean))
		}
	}
	if cfg.needsState() {
		c.state = types.NewVar(token.NoPos, nil, "s", types.Typ[types.Int])
		c.names[c.state] = "s"
		c.used["s"] = true
	}
	var ptrBinders []string
	for i := 0; i < sig.Params().Len(); i++ {
		o := sig.Params().At(i)
		if ms, ok := cfg.ifaces[o.Name()]; ok {
			if c.ifaceCb == nil {
				c.ifaceCb = map[types.Object]map[string]string{}
			}
			c.ifaceCb[o] = map[string]string{}
			var mnames []string
			for mn := range ms {
				mnames = append(mnames, mn)
			}
			sortStrings(mnames)
			for _, mn := range mnames {
				ln := o.Name() + mn
				c.used[ln] = true
				c.ifaceCb[o][mn] = ln
				var ty string
				switch ms[mn].kind {
				case "state":
					ty = "Pico.Dec.Dec → σ → Res (Pico.Dec.Dec × σ)"
				case "recv1":
					ty = "Pico.EncLow.Buf → Res (Pico.EncLow.Buf × Bool)"
				default:
					return "", fmt.Errorf("interface method kind %s", ms[mn].kind)
				}
				binders = append(binders, fmt.Sprintf("(%s : %s)", ln, ty))
			}
			continue
		}
		name := c.declare(o)
		if cb, ok := cfg.callbacks[o.Name()]; ok {
			c.cbs[o] = cb
			t, err := c.cbLeanType(o, cb)
			if err != nil {
				return "", err
			}
			binders = append(binders, fmt.Sprintf("(%s : %s)", name, t))
			continue
		}
		t, err := g.ltypeOf(o.Type())
		if err != nil {
			return "", fmt.Errorf("%s: parameter %s: %v", cfg.goName, o.Name(), err)
		}
		if t.k == kFunc {
			return "", fmt.Errorf("%s: function parameter %s has no callback configuration", cfg.goName, o.Name())
		}
		if cfg.recvParam != "" && o.Name() == cfg.recvParam {
			c.recv = o
			recvBinder = fmt.Sprintf("(%s : %s)", name, t.lean)
		} else if isPtr(o.Type()) || cfg.inout[o.Name()] {
			c.ptrs[o] = true
			ptrBinders = append(ptrBinders, fmt.Sprintf("(%s : %s)", name, t.lean))
		} else {
			binders = append(binders, fmt.Sprintf("(%s : %s)", name, t.lean))
		}
	}
	if recvBinder != "" {
		binders = append(binders, recvBinder)
	}
	if recvAsPtr != "" {
		binders = append(binders, recvAsPtr)
	}
	binders = append(binders, ptrBinders...)
	if c.state != nil {
		binders = append(binders, "(s : σ)")
	}
	var resTypes []string
	for _, o := range c.outObjs() {
		t, err := c.leanTypeOfObj(o)
		if err != nil {
			return "", err
		}
		resTypes = append(resTypes, t)
	}
	var namedInit strings.Builder
	for i := 0; i < sig.Results().Len(); i++ {
		o := sig.Results().At(i)
		t, err := g.ltypeOf(o.Type())
		if err != nil {
			return "", err
		}
		c.res = append(c.res, t)
		resTypes = append(resTypes, t.lean)
		if o.Name() != "" && o.Name() != "_" {
			z, err := c.zeroOf(t)
			if err != nil {
				return "", err
			}
			fmt.Fprintf(&namedInit, "  let %s : %s := %s\n", c.declare(o), t.lean, z)
		}
	}
	sigma := ""
	if c.state != nil {
		sigma = "{σ : Type} "
	}
	if cfg.pure {
		if len(fd.Body.List) != 1 {
			return "", fmt.Errorf("%s: a pure function must be a single return", cfg.goName)
		}
		rs, ok := fd.Body.List[0].(*ast.ReturnStmt)
		if !ok || len(rs.Results) != 1 {
			return "", fmt.Errorf("%s: a pure function must be a single return", cfg.goName)
		}
		v, err := c.expr(rs.Results[0])
		if err != nil {
			return "", err
		}
		if len(c.pre) > 0 {
			return "", fmt.Errorf("%s: a pure function contains a checked operation", cfg.goName)
		}
		rl := c.res[0].lean
		if v.t.k == kBuf {
			rl = v.t.lean
		}
		if cfg.extra != "" && len(binders) > 0 && binders[0] == cfg.extra {
			binders = binders[1:]
		}
		return fmt.Sprintf("def %s %s : %s := %s\n", cfg.lean, strings.Join(binders, " "), rl, v.s), nil
	}
	rt := "Unit"
	if len(resTypes) == 1 {
		rt = resTypes[0]
	} else if len(resTypes) > 1 {
		rt = strings.Join(resTypes, " × ")
	}
	body, err := c.stmts(fd.Body.List, &cont{kind: "fnend"}, 1)
	if err != nil {
		return "", fmt.Errorf("%s: %v", cfg.goName, err)
	}
	var out strings.Builder
	if cfg.rec {
		out.WriteString("mutual\n")
	}
	for _, a := range c.aux {
		out.WriteString(a + "\n")
	}
	if cfg.rec {
		body2 := strings.ReplaceAll(namedInit.String()+body, "\n  ", "\n    ")
		fmt.Fprintf(&out, "def %s %s%s : Nat → Res (%s)\n  | 0 => .outOfFuel\n  | fuel + 1 => do\n    %s", cfg.lean, sigma, strings.Join(binders, " "), rt, strings.TrimPrefix(body2, "  "))
		out.WriteString("end\n")
		return out.String(), nil
	}
	fmt.Fprintf(&out, "def %s %s%s : Res (%s) := do\n%s%s", cfg.lean, sigma, strings.Join(binders, " "), rt, namedInit.String(), body)
	return out.String(), nil
}

// fuelFromCond: a fuel bound read off the loop condition — `len(xs) > 0` / `0 < len(xs)`: the
// length of xs plus one; a comparison with a field of the decoder (`field == dec.pendingField`): the
// length of the decoder's buffer plus two.
func (c *fctx) fuelFromCond(cond ast.Expr) string {
	be, ok := stripParens(cond).(*ast.BinaryExpr)
	if !ok {
		return ""
	}
	for _, side := range []ast.Expr{be.X, be.Y} {
		if ce, ok := stripParens(side).(*ast.CallExpr); ok && len(ce.Args) == 1 {
			if id, ok := ce.Fun.(*ast.Ident); ok && id.Name == "len" {
				if o := c.rootObj(ce.Args[0]); o != nil && c.names[o] != "" {
					if t, err := c.g.ltypeOf(o.Type()); err == nil && t.k == kList {
						return "(" + c.names[o] + ".length + 1)"
					}
				}
			}
		}
		if se, ok := stripParens(side).(*ast.SelectorExpr); ok {
			if o := c.rootObj(se.X); o != nil && o == c.recv {
				if t, err := c.g.ltypeOf(o.Type()); err == nil && t.lean == "Pico.Dec.Dec" {
					return "(" + c.names[o] + ".cur.buffer.length + 2)"
				}
			}
		}
	}
	return ""
}
