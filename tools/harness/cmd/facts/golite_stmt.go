package main

import (
	"fmt"
	"go/ast"
	"go/token"
	"go/types"
	"strings"
)

// cont says what happens when a statement list runs off its end.
type cont struct {
	kind  string // "fnend" | "loopnext" | "join" | "stmts"
	join  []types.Object
	rest  []ast.Stmt
	next  *cont
	loop  *ast.ForStmt
	lname string
	lro   []string
}

func ind(n int) string { return strings.Repeat("  ", n) }

func (c *fctx) flush(n int) string {
	var b strings.Builder
	for _, p := range c.pre {
		b.WriteString(ind(n) + p + "\n")
	}
	c.pre = nil
	return b.String()
}

func (c *fctx) tupleOf(objs []types.Object) string {
	if len(objs) == 0 {
		return "()"
	}
	var ns []string
	for _, o := range objs {
		ns = append(ns, c.names[o])
	}
	if len(ns) == 1 {
		return ns[0]
	}
	return "(" + strings.Join(ns, ", ") + ")"
}

// outs: the state objects a function returns (receiver, pointer params, user state).
func (c *fctx) outObjs() []types.Object {
	var os []types.Object
	if c.recv != nil {
		os = append(os, c.recv)
	}
	if c.closure {
		if c.closureOuts != nil {
			return c.closureOuts
		}
		return os
	}
	sig := c.info.Defs[c.fd.Name].Type().(*types.Signature)
	if r := sig.Recv(); r != nil && c.ptrs[r] {
		os = append(os, r)
	}
	for i := 0; i < sig.Params().Len(); i++ {
		p := sig.Params().At(i)
		if c.ptrs[p] && p != c.recv {
			os = append(os, p)
		}
	}
	if c.state != nil {
		os = append(os, c.state)
	}
	return os
}

// retTerm builds the function-level result from the Go result terms.
func (c *fctx) fnResult(results []string) string {
	var parts []string
	for _, o := range c.outObjs() {
		parts = append(parts, c.names[o])
	}
	parts = append(parts, results...)
	if len(parts) == 0 {
		return "()"
	}
	if len(parts) == 1 {
		return parts[0]
	}
	return "(" + strings.Join(parts, ", ") + ")"
}

func resultsTuple(results []string) string {
	if len(results) == 0 {
		return "()"
	}
	if len(results) == 1 {
		return results[0]
	}
	return "(" + strings.Join(results, ", ") + ")"
}

// emitReturn: a Go `return` with the given result terms, in the current loop nesting.
func (c *fctx) emitReturn(results []string, n int) string {
	if len(c.loops) > 0 {
		lf := c.loops[len(c.loops)-1]
		return ind(n) + "pure (some " + resultsTuple(results) + ", " + c.tupleOf(lf.mods) + ")\n"
	}
	return ind(n) + "pure " + c.fnResult(results) + "\n"
}

func (c *fctx) runCont(k *cont, n int) (string, error) {
	switch k.kind {
	case "fnend":
		if len(c.res) != 0 {
			return "", fmt.Errorf("function with results runs off its end")
		}
		return c.emitReturn(nil, n), nil
	case "join":
		return ind(n) + "pure " + c.tupleOf(k.join) + "\n", nil
	case "stmts":
		return c.stmts(k.rest, k.next, n)
	case "loopnext":
		var b strings.Builder
		if k.loop != nil && k.loop.Post != nil {
			s, err := c.stmts([]ast.Stmt{k.loop.Post}, &cont{kind: "loopcall", lname: k.lname, lro: k.lro}, n)
			return s, err
		}
		b.WriteString(c.loopCall(k.lname, k.lro, n))
		return b.String(), nil
	case "loopcall":
		return c.loopCall(k.lname, k.lro, n), nil
	}
	return "", fmt.Errorf("bad continuation %s", k.kind)
}

func (c *fctx) loopCall(lname string, ro []string, n int) string {
	lf := c.loops[len(c.loops)-1]
	args := append([]string{}, ro...)
	if lf.recArg != "" {
		args = append(args, lf.recArg)
	} else {
		args = append(args, "fuel")
	}
	for _, o := range lf.mods {
		args = append(args, c.names[o])
	}
	return ind(n) + lname + " " + strings.Join(args, " ") + "\n"
}

// terminates: does every path through the statement end in return / break / continue?
func terminates(s ast.Stmt) bool {
	switch x := s.(type) {
	case *ast.ReturnStmt:
		return true
	case *ast.BranchStmt:
		return x.Tok == token.BREAK || x.Tok == token.CONTINUE
	case *ast.BlockStmt:
		return len(x.List) > 0 && terminates(x.List[len(x.List)-1])
	case *ast.IfStmt:
		return x.Else != nil && terminates(x.Body) && terminates(x.Else)
	case *ast.SwitchStmt:
		hasDefault := false
		for _, cl := range x.Body.List {
			cc := cl.(*ast.CaseClause)
			if cc.List == nil {
				hasDefault = true
			}
			if len(cc.Body) == 0 || !terminates(cc.Body[len(cc.Body)-1]) {
				return false
			}
		}
		return hasDefault
	case *ast.ForStmt:
		return x.Cond == nil && !hasBreak(x.Body)
	}
	return false
}

func hasBreak(n ast.Node) bool {
	found := false
	ast.Inspect(n, func(m ast.Node) bool {
		switch x := m.(type) {
		case *ast.ForStmt, *ast.RangeStmt, *ast.SwitchStmt, *ast.FuncLit:
			return m == n
		case *ast.BranchStmt:
			if x.Tok == token.BREAK {
				found = true
			}
		}
		return true
	})
	return found
}

// hasControl: does the node contain return / break / continue (not inside a nested loop for break/continue)?
func hasControl(n ast.Node) bool {
	found := false
	var visit func(m ast.Node, inLoop bool)
	visit = func(m ast.Node, inLoop bool) {
		ast.Inspect(m, func(k ast.Node) bool {
			switch x := k.(type) {
			case *ast.FuncLit:
				return false
			case *ast.ReturnStmt:
				found = true
			case *ast.BranchStmt:
				if !inLoop {
					found = true
				}
			case *ast.ForStmt:
				if k != m {
					visit(x, true)
					return false
				}
			}
			return true
		})
	}
	visit(n, false)
	return found
}

func hasReturn(n ast.Node) bool {
	found := false
	ast.Inspect(n, func(k ast.Node) bool {
		switch k.(type) {
		case *ast.FuncLit:
			return false
		case *ast.ReturnStmt:
			found = true
		}
		return true
	})
	return found
}

// rootObj returns the variable at the root of an lvalue expression.
func (c *fctx) rootObj(e ast.Expr) types.Object {
	for {
		switch x := e.(type) {
		case *ast.ParenExpr:
			e = x.X
		case *ast.StarExpr:
			e = x.X
		case *ast.SelectorExpr:
			e = x.X
		case *ast.IndexExpr:
			e = x.X
		case *ast.UnaryExpr:
			e = x.X
		case *ast.Ident:
			if o := c.info.Uses[x]; o != nil {
				return o
			}
			return c.info.Defs[x]
		default:
			return nil
		}
	}
}

// modified: the already-declared objects a statement list may assign (in order of first appearance).
func (c *fctx) modified(nodes []ast.Stmt) []types.Object {
	seen := map[types.Object]bool{}
	var out []types.Object
	add := func(o types.Object) {
		if o == nil || seen[o] {
			return
		}
		if _, known := c.names[o]; !known {
			return // declared inside
		}
		seen[o] = true
		out = append(out, o)
	}
	for _, s := range nodes {
		ast.Inspect(s, func(k ast.Node) bool {
			switch x := k.(type) {
			case *ast.FuncLit:
				return false
			case *ast.AssignStmt:
				for _, l := range x.Lhs {
					if id, ok := l.(*ast.Ident); ok && x.Tok == token.DEFINE {
						if c.info.Defs[id] != nil {
							continue // new variable
						}
					}
					add(c.rootObj(l))
				}
			case *ast.IncDecStmt:
				add(c.rootObj(x.X))
			case *ast.CallExpr:
				c.callEffects(x, add)
			}
			return true
		})
	}
	var ord []types.Object
	for _, o := range out {
		if o == c.recv && o != nil {
			ord = append(ord, o)
		}
	}
	for _, o := range out {
		if o != c.recv && o != c.state {
			ord = append(ord, o)
		}
	}
	for _, o := range out {
		if o == c.state && o != nil && o != c.recv {
			ord = append(ord, o)
		}
	}
	return ord
}

// callEffects reports the caller variables a call may change.
func (c *fctx) callEffects(x *ast.CallExpr, add func(types.Object)) {
	if id, ok := x.Fun.(*ast.Ident); ok {
		if cb, ok := c.cbs[c.info.Uses[id]]; ok {
			if cb.kind == "recv0" || cb.kind == "recv1" {
				add(c.recv)
				return
			}
			if cb.kind != "source" {
				add(c.state)
			}
			if cb.kind == "state" {
				for _, a := range x.Args {
					add(c.rootObj(a))
				}
			}
			return
		}
	}
	q, fn := c.calleeName(x)
	if fn == nil {
		return
	}
	f, ok := c.g.fns[q]
	if !ok || f.pure {
		return
	}
	sig := fn.Type().(*types.Signature)
	if sig.Recv() != nil && isPtr(sig.Recv().Type()) {
		add(c.rootObj(x.Fun.(*ast.SelectorExpr).X))
	}
	for i, a := range x.Args {
		if i < sig.Params().Len() && isPtr(sig.Params().At(i).Type()) {
			add(c.rootObj(a))
		}
	}
	if f.needsState() {
		add(c.state)
	}
}

func (c *fctx) stmts(list []ast.Stmt, k *cont, n int) (string, error) {
	if len(list) == 0 {
		return c.runCont(k, n)
	}
	s, rest := list[0], list[1:]
	for _, id := range c.cfg.idioms {
		bd := newBindings()
		if matchStmts(parseTemplate(id.tmpl), []ast.Stmt{s}, bd) {
			out, err := id.emit(c, bd, n)
			if err != nil {
				return "", err
			}
			r, err := c.stmts(rest, k, n)
			return out + r, err
		}
	}
	restK := k
	if len(rest) > 0 {
		restK = &cont{kind: "stmts", rest: rest, next: k}
	}
	switch x := s.(type) {
	case *ast.EmptyStmt:
		return c.stmts(rest, k, n)
	case *ast.BlockStmt:
		return c.stmts(append(append([]ast.Stmt{}, x.List...), rest...), k, n)
	case *ast.DeclStmt:
		out, err := c.declStmt(x, n)
		if err != nil {
			return "", err
		}
		r, err := c.stmts(rest, k, n)
		return out + r, err
	case *ast.AssignStmt:
		out, err := c.assign(x, n)
		if err != nil {
			return "", err
		}
		r, err := c.stmts(rest, k, n)
		return out + r, err
	case *ast.IncDecStmt:
		op := token.ADD_ASSIGN
		if x.Tok == token.DEC {
			op = token.SUB_ASSIGN
		}
		one := &ast.BasicLit{Kind: token.INT, Value: "1"}
		out, err := c.assignOp(x.X, op, one, n)
		if err != nil {
			return "", err
		}
		r, err := c.stmts(rest, k, n)
		return out + r, err
	case *ast.ExprStmt:
		call, ok := x.X.(*ast.CallExpr)
		if !ok {
			return "", fmt.Errorf("unsupported expression statement")
		}
		if out, ok, err := c.bufStmt(call, n); ok || err != nil {
			if err != nil {
				return "", err
			}
			r, err := c.stmts(rest, k, n)
			return out + r, err
		}
		out, _, err := c.callStmt(call, n)
		if err != nil {
			return "", err
		}
		r, err := c.stmts(rest, k, n)
		return out + r, err
	case *ast.ReturnStmt:
		var results []string
		if len(x.Results) == 0 && len(c.res) > 0 {
			// bare return with named results
			sig := c.info.Defs[c.fd.Name].Type().(*types.Signature)
			for i := 0; i < sig.Results().Len(); i++ {
				results = append(results, c.names[sig.Results().At(i)])
			}
		}
		if len(x.Results) == 1 && len(c.res) > 1 {
			return "", fmt.Errorf("return of a multi-value call not supported")
		}
		for i, r := range x.Results {
			if call, ok := stripParens(r).(*ast.CallExpr); ok && len(x.Results) == 1 && c.isStateCall(call) {
				out, val, err := c.callStmt(call, n)
				if err != nil {
					return "", err
				}
				return out + c.emitReturn([]string{val}, n), nil
			}
			var v lx
			var err error
			if id, ok := stripParens(r).(*ast.Ident); ok && id.Name == "nil" && c.info.Uses[id] == types.Universe.Lookup("nil") {
				z, zerr := c.zeroOf(c.res[i])
				v, err = lx{s: z, t: c.res[i]}, zerr
			} else {
				v, err = c.expr(r)
			}
			if err != nil {
				return "", err
			}
			v, err = c.coerceTo(v, c.res[i])
			if err != nil {
				return "", err
			}
			results = append(results, v.s)
		}
		return c.flush(n) + c.emitReturn(results, n), nil
	case *ast.BranchStmt:
		if len(c.loops) == 0 {
			return "", fmt.Errorf("%s outside a loop", x.Tok)
		}
		lf := c.loops[len(c.loops)-1]
		switch x.Tok {
		case token.BREAK:
			if lf.hasRet {
				return ind(n) + "pure (none, " + c.tupleOf(lf.mods) + ")\n", nil
			}
			return ind(n) + "pure " + c.tupleOf(lf.mods) + "\n", nil
		case token.CONTINUE:
			// find the enclosing loop continuation
			for kk := k; kk != nil; kk = kk.next {
				if kk.kind == "loopnext" {
					return c.runCont(kk, n)
				}
			}
			return "", fmt.Errorf("continue: no loop continuation")
		}
		return "", fmt.Errorf("unsupported branch %s", x.Tok)
	case *ast.IfStmt:
		return c.ifStmt(x, rest, k, restK, n)
	case *ast.SwitchStmt:
		return c.switchStmt(x, rest, k, restK, n)
	case *ast.ForStmt:
		return c.forStmt(x, rest, k, n)
	case *ast.RangeStmt:
		return c.rangeStmt(x, rest, k, n)
	}
	return "", fmt.Errorf("unsupported statement %T at %s", s, fset.Position(s.Pos()))
}

func (c *fctx) coerceTo(v lx, t ltype) (lx, error) {
	// constants already carry the target type; named/unnamed conversions are identities in the model
	if v.t.k == kBuf && t.k == kList {
		// a written slice handed out as a value: its logical bytes
		return lx{s: v.s + ".data", t: t}, nil
	}
	return v, nil
}

func (c *fctx) declStmt(x *ast.DeclStmt, n int) (string, error) {
	gd, ok := x.Decl.(*ast.GenDecl)
	if !ok || gd.Tok == token.TYPE {
		return "", fmt.Errorf("unsupported declaration")
	}
	if gd.Tok == token.CONST {
		return "", nil // constants are folded at their uses
	}
	var b strings.Builder
	for _, sp := range gd.Specs {
		vs := sp.(*ast.ValueSpec)
		for i, id := range vs.Names {
			o := c.info.Defs[id]
			t, err := c.g.ltypeOf(o.Type())
			if err != nil {
				return "", err
			}
			var val string
			if i < len(vs.Values) {
				v, err := c.expr(vs.Values[i])
				if err != nil {
					return "", err
				}
				val = v.s
			} else {
				val, err = c.zeroOf(t)
				if err != nil {
					return "", err
				}
			}
			b.WriteString(c.flush(n))
			name := c.declare(o)
			b.WriteString(fmt.Sprintf("%slet %s : %s := %s\n", ind(n), name, t.lean, val))
		}
	}
	return b.String(), nil
}

// setLvalue emits the rebinding for `lhs = val`.
func (c *fctx) setLvalue(lhs ast.Expr, val string, n int) (string, error) {
	switch x := stripParens(lhs).(type) {
	case *ast.Ident:
		if x.Name == "_" {
			return "", nil
		}
		o := c.info.Uses[x]
		if o == nil {
			o = c.info.Defs[x]
		}
		name, ok := c.names[o]
		if !ok {
			return "", fmt.Errorf("assignment to unknown %s", x.Name)
		}
		return fmt.Sprintf("%slet %s := %s\n", ind(n), name, val), nil
	case *ast.StarExpr:
		return c.setLvalue(x.X, val, n)
	case *ast.SelectorExpr:
		base, err := c.expr(x.X)
		if err != nil {
			return "", err
		}
		if base.t.k != kStruct {
			return "", fmt.Errorf("field assignment on non-struct")
		}
		if ft, err := c.typeOf(x); err == nil && ft.k == kError && !strings.HasPrefix(val, "none") && !strings.HasPrefix(val, "(some ") {
			val = "(some " + val + ")"
		}
		sc := c.g.structs[base.t.name]
		path, ok := sc.fields[x.Sel.Name]
		if !ok {
			return "", fmt.Errorf("field %s not in the model's structure", x.Sel.Name)
		}
		if path == "" {
			return c.setLvalue(x.X, val, n)
		}
		// { b with p1 := { b.p1 with p2 := val } }
		parts := strings.Split(path, ".")
		upd := val
		for i := len(parts) - 1; i >= 0; i-- {
			prefix := base.s
			if i > 0 {
				prefix += "." + strings.Join(parts[:i], ".")
			}
			upd = fmt.Sprintf("{ %s with %s := %s }", prefix, parts[i], upd)
		}
		return c.setLvalue(x.X, upd, n)
	case *ast.IndexExpr:
		base, err := c.expr(x.X)
		if err != nil {
			return "", err
		}
		if base.t.k == kMap {
			kx, err := c.expr(x.Index)
			if err != nil {
				return "", err
			}
			t := c.hoist(fmt.Sprintf("Go.mapSet %s %s %s", base.s, paren(kx.s), paren(val)))
			pre := c.flush(n)
			r, err := c.setLvalue(x.X, t, n)
			return pre + r, err
		}
		i, err := c.intExpr(x.Index)
		if err != nil {
			return "", err
		}
		t := c.hoist(fmt.Sprintf("Go.setIndex %s %s %s", base.s, i, paren(val)))
		pre := c.flush(n)
		r, err := c.setLvalue(x.X, t, n)
		return pre + r, err
	}
	return "", fmt.Errorf("unsupported assignment target %T", lhs)
}

func (c *fctx) assignOp(lhs ast.Expr, op token.Token, rhs ast.Expr, n int) (string, error) {
	binop := map[token.Token]token.Token{token.ADD_ASSIGN: token.ADD, token.SUB_ASSIGN: token.SUB, token.MUL_ASSIGN: token.MUL,
		token.QUO_ASSIGN: token.QUO, token.REM_ASSIGN: token.REM, token.AND_ASSIGN: token.AND, token.OR_ASSIGN: token.OR,
		token.XOR_ASSIGN: token.XOR, token.SHL_ASSIGN: token.SHL, token.SHR_ASSIGN: token.SHR}[op]
	be := &ast.BinaryExpr{X: lhs, Op: binop, Y: rhs}
	// type information for the synthesized node: reuse the operand's
	if tv, ok := c.info.Types[lhs]; ok {
		c.info.Types[be] = types.TypeAndValue{Type: tv.Type}
		if bl, ok := rhs.(*ast.BasicLit); ok {
			if _, has := c.info.Types[bl]; !has {
				c.info.Types[bl] = types.TypeAndValue{Type: tv.Type, Value: constantOf(bl)}
			}
		}
	}
	v, err := c.binary(be)
	if err != nil {
		return "", err
	}
	pre := c.flush(n)
	s, err := c.setLvalue(lhs, v.s, n)
	return pre + s, err
}

func (c *fctx) assign(x *ast.AssignStmt, n int) (string, error) {
	if x.Tok != token.ASSIGN && x.Tok != token.DEFINE {
		if len(x.Lhs) != 1 {
			return "", fmt.Errorf("unsupported op-assignment")
		}
		return c.assignOp(x.Lhs[0], x.Tok, x.Rhs[0], n)
	}
	var b strings.Builder
	// multi-value call
	if len(x.Rhs) == 1 && len(x.Lhs) > 1 {
		call, ok := x.Rhs[0].(*ast.CallExpr)
		if !ok {
			return "", fmt.Errorf("unsupported multi-assignment")
		}
		q, _ := c.calleeName(call)
		var tup string
		if p, ok := c.g.prims[q]; ok && !p.monadic {
			var args []string
			for _, a := range call.Args {
				v, err := c.expr(a)
				if err != nil {
					return "", err
				}
				args = append(args, paren(v.s))
			}
			b.WriteString(c.flush(n))
			tup = c.fresh("r")
			b.WriteString(fmt.Sprintf("%slet %s := %s %s\n", ind(n), tup, p.lean, strings.Join(args, " ")))
		} else if _, ok := c.g.fns[q]; ok {
			out, val, err := c.callStmt(call, n)
			if err != nil {
				return "", err
			}
			b.WriteString(out)
			tup = val
		} else {
			return "", fmt.Errorf("multi-value call of %s not supported", q)
		}
		for i, l := range x.Lhs {
			if id, ok := l.(*ast.Ident); ok && x.Tok == token.DEFINE && c.info.Defs[id] != nil && id.Name != "_" {
				c.declare(c.info.Defs[id])
			}
			s, err := c.setLvalue(l, tup+tupleProj(i, len(x.Lhs)), n)
			if err != nil {
				return "", err
			}
			b.WriteString(s)
		}
		return b.String(), nil
	}
	if len(x.Lhs) != len(x.Rhs) {
		return "", fmt.Errorf("unsupported assignment shape")
	}
	// parallel assignment: evaluate all right-hand sides first
	vals := make([]string, len(x.Rhs))
	for i, r := range x.Rhs {
		if call, ok := stripParens(r).(*ast.CallExpr); ok && len(x.Rhs) == 1 && c.isStateCall(call) {
			out, val, err := c.callStmt(call, n)
			if err != nil {
				return "", err
			}
			b.WriteString(out)
			vals[i] = val
			continue
		}
		v, err := c.expr(r)
		if err != nil {
			return "", err
		}
		vals[i] = v.s
	}
	b.WriteString(c.flush(n))
	if len(x.Lhs) > 1 {
		for i := range vals {
			t := c.fresh("v")
			b.WriteString(fmt.Sprintf("%slet %s := %s\n", ind(n), t, vals[i]))
			vals[i] = t
		}
	}
	for i, l := range x.Lhs {
		if id, ok := l.(*ast.Ident); ok && x.Tok == token.DEFINE && c.info.Defs[id] != nil && id.Name != "_" {
			c.declare(c.info.Defs[id])
		}
		s, err := c.setLvalue(l, vals[i], n)
		if err != nil {
			return "", err
		}
		b.WriteString(s)
	}
	return b.String(), nil
}

// callStmt translates a call that may change state. Returns the emitted lines and the Lean term of
// the Go result (tuple) if any.
func (c *fctx) callStmt(x *ast.CallExpr, n int) (string, string, error) {
	var b strings.Builder
	// callback parameter
	if id, ok := x.Fun.(*ast.Ident); ok {
		if cb, ok := c.cbs[c.info.Uses[id]]; ok {
			fname := c.names[c.info.Uses[id]]
			st := c.names[c.state]
			switch cb.kind {
			case "recv0", "recv1":
				rn := c.names[c.recv]
				sig := c.info.Uses[id].Type().Underlying().(*types.Signature)
				b.WriteString(c.flush(n))
				if sig.Results().Len() == 0 {
					b.WriteString(fmt.Sprintf("%slet %s ← %s %s\n", ind(n), rn, fname, rn))
					return b.String(), "", nil
				}
				r := c.fresh("r")
				b.WriteString(fmt.Sprintf("%slet (%s, %s) ← %s %s\n", ind(n), rn, r, fname, rn))
				return b.String(), r, nil
			case "state":
				o := c.rootObj(x.Args[0])
				if o == nil || len(x.Args) != 1 {
					return "", "", fmt.Errorf("callback call shape")
				}
				b.WriteString(c.flush(n))
				b.WriteString(fmt.Sprintf("%slet (%s, %s) ← %s %s %s\n", ind(n), c.names[o], st, fname, c.names[o], st))
				return b.String(), "", nil
			case "sink":
				var args []string
				for _, a := range x.Args {
					v, err := c.expr(a)
					if err != nil {
						return "", "", err
					}
					args = append(args, paren(v.s))
				}
				b.WriteString(c.flush(n))
				b.WriteString(fmt.Sprintf("%slet %s := %s %s %s\n", ind(n), st, fname, strings.Join(args, " "), st))
				return b.String(), "", nil
			}
			return "", "", fmt.Errorf("callback kind %s in statement position", cb.kind)
		}
	}
	// method of an interface parameter: msg.Encode(enc)
	if se, ok := x.Fun.(*ast.SelectorExpr); ok {
		if xi, ok := se.X.(*ast.Ident); ok {
			if m, ok := c.ifaceCb[c.info.Uses[xi]]; ok && m[se.Sel.Name] != "" && len(x.Args) == 1 {
				o := c.rootObj(x.Args[0])
				if o == nil {
					return "", "", fmt.Errorf("interface method call on a non-variable")
				}
				sig := c.info.Types[x.Fun].Type.(*types.Signature)
				b.WriteString(c.flush(n))
				if sig.Results().Len() == 0 {
					b.WriteString(fmt.Sprintf("%slet %s ← %s %s\n", ind(n), c.names[o], m[se.Sel.Name], c.names[o]))
					return b.String(), "", nil
				}
				r := c.fresh("r")
				b.WriteString(fmt.Sprintf("%slet (%s, %s) ← %s %s\n", ind(n), c.names[o], r, m[se.Sel.Name], c.names[o]))
				return b.String(), r, nil
			}
		}
	}
	q, fn := c.calleeName(x)
	if fn == nil {
		return "", "", fmt.Errorf("unsupported call statement %s", exprString(x.Fun))
	}
	f, ok := c.g.fns[q]
	if !ok {
		if p, ok := c.g.prims[q]; ok {
			// a primitive called for its value only
			v, err := c.callExpr(x)
			_ = p
			return c.flush(n), v.s, err
		}
		if f = c.autoFn(q, fn); f == nil {
			return "", "", fmt.Errorf("call of untranslated function %s", q)
		}
	}
	sig := fn.Type().(*types.Signature)
	var args []string
	var outs []string
	var recvArg string
	if sig.Recv() != nil {
		rx := x.Fun.(*ast.SelectorExpr).X
		r, err := c.expr(rx)
		if err != nil {
			return "", "", err
		}
		if isPtr(sig.Recv().Type()) {
			o := c.rootObj(rx)
			if o == nil || c.names[o] != r.s {
				return "", "", fmt.Errorf("method call on a non-variable receiver")
			}
			recvArg = r.s
			outs = append(outs, r.s)
		} else {
			args = append(args, paren(r.s))
		}
	}
	var ptrArgs []string
	cbState := ""
	for i, a := range x.Args {
		pt := sig.Params().At(i).Type()
		if _, isFn := pt.Underlying().(*types.Signature); isFn {
			if fl, ok := a.(*ast.FuncLit); ok {
				cb, ok := f.callbacks[sig.Params().At(i).Name()]
				if ok && cb.kind == "state" {
					lam, st, err := c.closureLitState(fl, n+1)
					if err != nil {
						return "", "", err
					}
					args = append(args, lam)
					cbState = st
					continue
				}
				if !ok || (cb.kind != "recv0" && cb.kind != "recv1") {
					return "", "", fmt.Errorf("function literal for a callback of unsupported kind at %s", fset.Position(a.Pos()))
				}
				lam, err := c.closureLit(fl, n+1)
				if err != nil {
					return "", "", err
				}
				args = append(args, lam)
				continue
			}
			if se, ok := a.(*ast.SelectorExpr); ok {
				if xi, ok := se.X.(*ast.Ident); ok {
					if m, ok := c.ifaceCb[c.info.Uses[xi]]; ok && m[se.Sel.Name] != "" {
						args = append(args, m[se.Sel.Name])
						continue
					}
				}
			}
			id, ok := a.(*ast.Ident)
			if !ok {
				return "", "", fmt.Errorf("method-value argument not supported at %s", fset.Position(a.Pos()))
			}
			args = append(args, c.names[c.info.Uses[id]])
			continue
		}
		if isPtr(pt) {
			o := c.rootObj(a)
			if o == nil {
				return "", "", fmt.Errorf("pointer argument is not a variable")
			}
			ptrArgs = append(ptrArgs, c.names[o])
			outs = append(outs, c.names[o])
			continue
		}
		v, err := c.expr(a)
		if err != nil {
			return "", "", err
		}
		args = append(args, paren(v.s))
	}
	if recvArg != "" {
		args = append(args, recvArg)
	}
	args = append(args, ptrArgs...)
	if f.needsState() {
		if cbState != "" {
			args = append(args, cbState)
			outs = append(outs, cbState)
		} else {
			if c.state == nil {
				return "", "", fmt.Errorf("call of %s needs a callback state", f.goName)
			}
			args = append(args, c.names[c.state])
			outs = append(outs, c.names[c.state])
		}
	}
	if f.rec {
		if f == c.cfg {
			args = append(args, "fuel")
		} else if fe, ok := c.cfg.callFuel[f.goName]; ok {
			for o, nm := range c.names {
				fe = strings.ReplaceAll(fe, "${"+o.Name()+"}", nm)
			}
			args = append(args, "("+fe+")")
		} else {
			return "", "", fmt.Errorf("call of recursive function %s needs a fuel hint", f.goName)
		}
	}
	b.WriteString(c.flush(n))
	nres := sig.Results().Len()
	var resName string
	if nres > 0 {
		resName = c.fresh("r")
		outs = append(outs, resName)
	}
	if f.extraArgs != "" {
		args = append([]string{f.extraArgs}, args...)
	}
	call := f.lean + " " + strings.Join(args, " ")
	if f.pure {
		return "", "", fmt.Errorf("pure function in statement position")
	}
	switch len(outs) {
	case 0:
		b.WriteString(fmt.Sprintf("%slet _ ← %s\n", ind(n), call))
	case 1:
		b.WriteString(fmt.Sprintf("%slet %s ← %s\n", ind(n), outs[0], call))
	default:
		b.WriteString(fmt.Sprintf("%slet (%s) ← %s\n", ind(n), strings.Join(outs, ", "), call))
	}
	return b.String(), resName, nil
}

func (c *fctx) ifStmt(x *ast.IfStmt, rest []ast.Stmt, k, restK *cont, n int) (string, error) {
	var b strings.Builder
	if x.Init != nil {
		return "", fmt.Errorf("if with init statement not supported")
	}
	cond, err := c.expr(x.Cond)
	if err != nil {
		return "", err
	}
	b.WriteString(c.flush(n))
	var elseList []ast.Stmt
	if x.Else != nil {
		switch e := x.Else.(type) {
		case *ast.BlockStmt:
			elseList = e.List
		default:
			elseList = []ast.Stmt{e}
		}
	}
	bodyCtl := hasControl(x.Body) || (x.Else != nil && hasControl(x.Else))
	if !bodyCtl && len(rest) > 0 {
		// join form: both branches fall through; rebind what they modify
		mods := c.modified(append(append([]ast.Stmt{}, x.Body.List...), elseList...))
		jk := &cont{kind: "join", join: mods}
		saved := c.snapshot()
		thenS, err := c.stmts(x.Body.List, jk, n+1)
		if err != nil {
			return "", err
		}
		c.restore(saved)
		elseS, err := c.stmts(elseList, jk, n+1)
		if err != nil {
			return "", err
		}
		c.restore(saved)
		if len(mods) == 0 {
			// nothing observable happens (can only be a panic): keep it for the effect
			b.WriteString(fmt.Sprintf("%slet _ ← (if %s then do\n%s%selse do\n%s%s)\n", ind(n), cond.p, thenS, ind(n), elseS, ind(n)))
		} else {
			pat := c.tupleOf(mods)
			b.WriteString(fmt.Sprintf("%slet %s ← (if %s then do\n%s%selse do\n%s%s)\n", ind(n), pat, cond.p, thenS, ind(n), elseS, ind(n)))
		}
		r, err := c.stmts(rest, k, n)
		return b.String() + r, err
	}
	// CPS form: each branch continues with the rest
	saved := c.snapshot()
	thenS, err := c.stmts(x.Body.List, restK, n+1)
	if err != nil {
		return "", err
	}
	c.restore(saved)
	elseS, err := c.stmts(elseList, restK, n+1)
	if err != nil {
		return "", err
	}
	c.restore(saved)
	b.WriteString(fmt.Sprintf("%sif %s then do\n%s%selse do\n%s", ind(n), cond.p, thenS, ind(n), elseS))
	return b.String(), nil
}

type snap struct {
	names map[types.Object]string
	used  map[string]bool
}

func (c *fctx) snapshot() snap {
	s := snap{names: map[types.Object]string{}, used: map[string]bool{}}
	for k, v := range c.names {
		s.names[k] = v
	}
	for k, v := range c.used {
		s.used[k] = v
	}
	return s
}

func (c *fctx) restore(s snap) {
	c.names = map[types.Object]string{}
	for k, v := range s.names {
		c.names[k] = v
	}
	// keep `used` monotone so that temporaries stay unique across branches
}

func (c *fctx) switchStmt(x *ast.SwitchStmt, rest []ast.Stmt, k, restK *cont, n int) (string, error) {
	if x.Init != nil {
		return "", fmt.Errorf("switch with init not supported")
	}
	// desugar into an if / else-if chain
	var tag ast.Expr = x.Tag
	var chain ast.Stmt
	var deflt *ast.CaseClause
	var clauses []*ast.CaseClause
	for _, cl := range x.Body.List {
		cc := cl.(*ast.CaseClause)
		for _, s := range cc.Body {
			if br, ok := s.(*ast.BranchStmt); ok && br.Tok == token.FALLTHROUGH {
				return "", fmt.Errorf("fallthrough not supported")
			}
		}
		if cc.List == nil {
			deflt = cc
		} else {
			clauses = append(clauses, cc)
		}
	}
	if deflt != nil {
		chain = &ast.BlockStmt{List: deflt.Body}
	}
	for i := len(clauses) - 1; i >= 0; i-- {
		cc := clauses[i]
		var cond ast.Expr
		for _, e := range cc.List {
			var one ast.Expr = e
			if tag != nil {
				be := &ast.BinaryExpr{X: tag, Op: token.EQL, Y: e}
				c.info.Types[be] = types.TypeAndValue{Type: types.Typ[types.Bool]}
				one = be
			}
			if cond == nil {
				cond = one
			} else {
				be := &ast.BinaryExpr{X: cond, Op: token.LOR, Y: one}
				c.info.Types[be] = types.TypeAndValue{Type: types.Typ[types.Bool]}
				cond = be
			}
		}
		ifs := &ast.IfStmt{Cond: cond, Body: &ast.BlockStmt{List: cc.Body}}
		if chain != nil {
			ifs.Else = chain
		}
		chain = ifs
	}
	if chain == nil {
		return c.stmts(rest, k, n)
	}
	// `break` inside a switch leaves the switch, not the loop: not supported
	for _, cl := range x.Body.List {
		if hasBreak(cl) {
			return "", fmt.Errorf("break inside switch not supported")
		}
	}
	return c.stmts(append([]ast.Stmt{chain}, rest...), k, n)
}

// bufStmt recognises the two in-place operations on a written slice:
//
//	copy(buf[dst:], buf[src:])            ->  buf ← GoBuf.copyWithin buf dst src
//	protowire.PutUvarint(buf[lo:hi], x)   ->  buf ← GoBuf.putUvarintAt buf lo hi x
func (c *fctx) bufStmt(call *ast.CallExpr, n int) (string, bool, error) {
	sliceOfBuf := func(e ast.Expr) (*ast.SliceExpr, lx, bool) {
		se, ok := stripParens(e).(*ast.SliceExpr)
		if !ok {
			return nil, lx{}, false
		}
		npre := len(c.pre)
		b, err := c.expr(se.X)
		if err != nil || b.t.k != kBuf || len(c.pre) != npre {
			c.pre = c.pre[:npre]
			return nil, lx{}, false
		}
		return se, b, true
	}
	if id, ok := call.Fun.(*ast.Ident); ok && id.Name == "copy" && len(call.Args) == 2 {
		d, db, ok1 := sliceOfBuf(call.Args[0])
		s, sb, ok2 := sliceOfBuf(call.Args[1])
		if !ok1 && !ok2 {
			return "", false, nil
		}
		if !ok1 || !ok2 || db.s != sb.s || d.Low == nil || d.High != nil || s.Low == nil || s.High != nil {
			return "", true, fmt.Errorf("unsupported copy on a written slice")
		}
		dl, err := c.intExpr(d.Low)
		if err != nil {
			return "", true, err
		}
		sl, err := c.intExpr(s.Low)
		if err != nil {
			return "", true, err
		}
		t := c.hoist(fmt.Sprintf("Pico.GoBuf.copyWithin %s %s %s", db.s, dl, sl))
		pre := c.flush(n)
		out, err := c.setLvalue(d.X, t, n)
		return pre + out, true, err
	}
	if q, _ := c.calleeName(call); q == qualName(pwPkg, "PutUvarint") && len(call.Args) == 2 {
		w, wb, ok := sliceOfBuf(call.Args[0])
		if !ok {
			return "", true, fmt.Errorf("PutUvarint into something that is not a window of a written slice")
		}
		if w.Low == nil || w.High == nil {
			return "", true, fmt.Errorf("PutUvarint window must be buf[lo:hi]")
		}
		lo, err := c.intExpr(w.Low)
		if err != nil {
			return "", true, err
		}
		hi, err := c.intExpr(w.High)
		if err != nil {
			return "", true, err
		}
		v, err := c.expr(call.Args[1])
		if err != nil {
			return "", true, err
		}
		t := c.hoist(fmt.Sprintf("Pico.GoBuf.putUvarintAt %s %s %s %s", wb.s, lo, hi, paren(v.s)))
		pre := c.flush(n)
		out, err := c.setLvalue(w.X, t, n)
		return pre + out, true, err
	}
	return "", false, nil
}

// isStateCall: must the call be translated at statement level (it threads state)?
func (c *fctx) isStateCall(call *ast.CallExpr) bool {
	if se, ok := call.Fun.(*ast.SelectorExpr); ok {
		if xi, ok := se.X.(*ast.Ident); ok {
			if m, ok := c.ifaceCb[c.info.Uses[xi]]; ok && m[se.Sel.Name] != "" {
				return true
			}
		}
	}
	if id, ok := call.Fun.(*ast.Ident); ok {
		if cb, ok := c.cbs[c.info.Uses[id]]; ok {
			return cb.kind != "source"
		}
	}
	if q, _ := c.calleeName(call); q != "" {
		if f, ok := c.g.fns[q]; ok && !f.pure {
			return true
		}
	}
	return false
}

// closureLit translates a function literal that captures the receiver (`func() bool { return fn(enc) }`)
// into a Lean lambda over the receiver's state.
func (c *fctx) closureLit(fl *ast.FuncLit, n int) (string, error) {
	if c.recv == nil {
		return "", fmt.Errorf("function literal outside a method")
	}
	sig := c.info.Types[fl].Type.(*types.Signature)
	if sig.Params().Len() != 0 {
		return "", fmt.Errorf("function literal with parameters not supported")
	}
	savedRes, savedLoops, savedClosure, savedPre := c.res, c.loops, c.closure, c.pre
	snapNames := c.snapshot()
	c.res, c.loops, c.closure, c.pre = nil, nil, true, nil
	for i := 0; i < sig.Results().Len(); i++ {
		t, err := c.g.ltypeOf(sig.Results().At(i).Type())
		if err != nil {
			return "", err
		}
		c.res = append(c.res, t)
	}
	body, err := c.stmts(fl.Body.List, &cont{kind: "fnend"}, n+1)
	c.res, c.loops, c.closure, c.pre = savedRes, savedLoops, savedClosure, savedPre
	c.restore(snapNames)
	if err != nil {
		return "", err
	}
	return "(fun " + c.names[c.recv] + " => do\n" + body + ind(n) + ")", nil
}

// nameOf: the Lean name of the variable called `goName` in the Go source.
func (c *fctx) nameOf(goName string) (string, error) {
	for o, n := range c.names {
		if o.Name() == goName {
			return n, nil
		}
	}
	return "", fmt.Errorf("idiom: no variable %s", goName)
}

// autoFn: a function of the package being translated that has no configuration (typically a helper
// introduced by a refactoring) is translated on demand with the defaults of its caller; it is
// emitted before its first user and listed in the file's `unfold_aux` tactic.
func (c *fctx) autoFn(q string, fn *types.Func) *fnCfg {
	if fn == nil || fn.Pkg() == nil || fn.Pkg().Path() != c.cfg.pkg {
		return nil
	}
	pkg := fn.Pkg().Path()
	goName := strings.TrimPrefix(q, pkg+".")
	fd := c.g.l.funcDecl(pkg, goName)
	if fd == nil || fd.Body == nil {
		return nil
	}
	sig := fn.Type().(*types.Signature)
	for i := 0; i < sig.Params().Len(); i++ {
		if _, isFn := sig.Params().At(i).Type().Underlying().(*types.Signature); isFn {
			return nil
		}
	}
	f := &fnCfg{pkg: pkg, goName: goName, lean: "aux_" + strings.ReplaceAll(goName, ".", "_"), extra: c.cfg.extra, extraArgs: c.cfg.extraArgs,
		nonNilRecv: c.cfg.nonNilRecv, auto: true}
	c.g.fns[q] = f
	c.g.pending = append(c.g.pending, f)
	return f
}

// closureLitState: `func(c *Decoder) { … }` handed to a callback of kind "state" (Dec → σ → Res (Dec × σ)).
// σ is the tuple of the enclosing function's variables the literal assigns (captured by reference in
// Go); the literal becomes `fun c s => do let (vars) := s; …; pure (c, vars)`. Returns the lambda and
// the tuple term (argument and result pattern at the call site).
func (c *fctx) closureLitState(fl *ast.FuncLit, n int) (string, string, error) {
	sig := c.info.Types[fl].Type.(*types.Signature)
	if sig.Params().Len() != 1 || sig.Results().Len() != 0 || !isPtr(sig.Params().At(0).Type()) {
		return "", "", fmt.Errorf("state callback literal must be func(*T) at %s", fset.Position(fl.Pos()))
	}
	pobj := sig.Params().At(0)
	mods := c.modified(fl.Body.List)
	var captured []types.Object
	for _, o := range mods {
		if o != nil && o != c.state {
			captured = append(captured, o)
		}
	}
	tuple := c.tupleOf(captured)
	savedRes, savedLoops, savedClosure, savedPre, savedOuts := c.res, c.loops, c.closure, c.pre, c.closureOuts
	snapNames := c.snapshot()
	pname := c.declare(pobj)
	c.res, c.loops, c.closure, c.pre = nil, nil, true, nil
	c.closureOuts = append([]types.Object{pobj}, captured...)
	body, err := c.stmts(fl.Body.List, &cont{kind: "fnend"}, n+1)
	c.res, c.loops, c.closure, c.pre, c.closureOuts = savedRes, savedLoops, savedClosure, savedPre, savedOuts
	c.restore(snapNames)
	if err != nil {
		return "", "", err
	}
	sv := c.fresh("st")
	bind := ""
	if len(captured) > 0 {
		bind = ind(n+1) + "let " + tuple + " := " + sv + "\n"
	}
	return "(fun " + pname + " " + sv + " => do\n" + bind + body + ind(n) + ")", tuple, nil
}
