package main

import (
	"fmt"
	"path/filepath"
	"sort"
	"strings"
)

// The typed readers and writers (decoder_types.go, encoder_types.go), translated statement by
// statement. Values: intN as Int, uintN as Nat, floats as their bit pattern, string / []byte as Bytes.

// methodsOfFile: the methods declared in file `base` of package modPath, sorted.
func (g *golite) methodsOfFile(base string) []string {
	var names []string
	for _, f := range g.l.files[modPath] {
		if filepath.Base(fset.Position(f.Pos()).Filename) != base {
			continue
		}
		for name := range funcDecls(f) {
			names = append(names, name)
		}
	}
	sort.Strings(names)
	return names
}

var convPrims = map[string]primCfg{
	qualName(modPath, "encodeZigZag32"): {lean: "Go.encodeZigZag32", results: 1},
	qualName(modPath, "decodeZigZag32"): {lean: "Go.decodeZigZag32", results: 1},
	qualName(modPath, "encodeBool64"):   {lean: "Go.encodeBool64", results: 1},
	qualName(modPath, "encodeBool8"):    {lean: "Go.encodeBool8", results: 1},
	qualName(pwPkg, "EncodeZigZag"):     {lean: "Go.encodeZigZag", results: 1},
	qualName(pwPkg, "DecodeZigZag"):     {lean: "Go.decodeZigZag", results: 1},
	"math.Float32bits":                  {lean: "Go.float32bits", results: 1},
	"math.Float64bits":                  {lean: "Go.float64bits", results: 1},
	"math.Float32frombits":              {lean: "Go.float32frombits", results: 1},
	"math.Float64frombits":              {lean: "Go.float64frombits", results: 1},
}

func newGoliteDecTypes(repo string) (*golite, error) {
	g, err := newGolite(repo)
	if err != nil {
		return nil, err
	}
	g.stringValuesAsBytes = true
	g.prims[qualName(pwPkg, "ConsumeString")] = primCfg{lean: "Pico.Wire.consumeBytes", results: 2}
	for k, v := range convPrims {
		g.prims[k] = v
	}
	for _, n := range []string{"fail", "nextField"} {
		g.fns[qualName(modPath, "Decoder."+n)] = &fnCfg{pkg: modPath, goName: "Decoder." + n, lean: "Pico.GoSrc.Decoder." + n}
	}
	return g, nil
}

func genGoDecTypes(g *golite, note func(string, ...interface{})) string {
	bufFuel := "(${dec}.cur.buffer.length + 2)"
	var order []*fnCfg
	for _, m := range g.methodsOfFile("decoder_types.go") {
		if !strings.HasPrefix(m, "Decoder.") {
			note("golite decoder_types.go: unexpected declaration %s", m)
			continue
		}
		order = append(order, g.add(modPath, m, "r"+strings.TrimPrefix(m, "Decoder."), fnCfg{fuel: []string{bufFuel, "(${packed}.length + 1)"}}))
	}
	var b strings.Builder
	b.WriteString("import PicoModel.Gen.GoDecoder\nimport PicoModel.GoConv\n" + goHeader + "namespace Pico.GoSrc.DecTypes\nopen Pico\n\n")
	g.tag = "DecTypes"
	b.WriteString(g.emit(order, note))
	fmt.Fprintf(&b, "def names : List String := [%s]\n\n", quoteList(order))
	b.WriteString("end Pico.GoSrc.DecTypes\n")
	return b.String()
}

func quoteList(order []*fnCfg) string {
	var qs []string
	for _, f := range order {
		qs = append(qs, leanStr(f.lean))
	}
	return strings.Join(qs, ", ")
}

func newGoliteEncTypes(repo string) (*golite, error) {
	g, err := newGoliteEnc(repo)
	if err != nil {
		return nil, err
	}
	g.stringValuesAsBytes = true
	for k, v := range convPrims {
		g.prims[k] = v
	}
	g.prims[qualName(pwPkg, "AppendFixed32")] = primCfg{bufLean: "Pico.GoBuf.appendFixed32 oracle", lean: "Go.appendFixed32", results: 1}
	g.prims[qualName(pwPkg, "AppendFixed64")] = primCfg{bufLean: "Pico.GoBuf.appendFixed64 oracle", lean: "Go.appendFixed64", results: 1}
	g.prims[qualName(pwPkg, "AppendBytes")] = primCfg{bufLean: "Pico.GoBuf.appendBytes oracle", lean: "Go.appendBytes", results: 1}
	g.prims[qualName(pwPkg, "AppendString")] = primCfg{bufLean: "Pico.GoBuf.appendBytes oracle", lean: "Go.appendBytes", results: 1}
	g.fns[qualName(modPath, "Encoder.alwaysAnyBytes")] = &fnCfg{pkg: modPath, goName: "Encoder.alwaysAnyBytes", lean: "Pico.GoSrc.Encoder.alwaysAnyBytes",
		callbacks: map[string]cbCfg{"fn": {kind: "recv0"}}, extra: "(oracle : Nat → Bytes)", extraArgs: "oracle"}
	return g, nil
}

func genGoEncTypes(g *golite, note func(string, ...interface{})) string {
	var order []*fnCfg
	for _, m := range g.methodsOfFile("encoder_types.go") {
		if !strings.HasPrefix(m, "Encoder.") {
			note("golite encoder_types.go: unexpected declaration %s", m)
			continue
		}
		order = append(order, g.add(modPath, m, "w"+strings.TrimPrefix(m, "Encoder."), fnCfg{extra: "(oracle : Nat → Bytes)", extraArgs: "oracle"}))
	}
	var b strings.Builder
	b.WriteString("import PicoModel.Gen.GoEncoder\nimport PicoModel.GoConv\n" + goHeader + "namespace Pico.GoSrc.EncTypes\nopen Pico\n\n")
	g.tag = "EncTypes"
	b.WriteString(g.emit(order, note))
	fmt.Fprintf(&b, "def names : List String := [%s]\n\n", quoteList(order))
	b.WriteString("end Pico.GoSrc.EncTypes\n")
	return b.String()
}
