package main

// Translation of straight-line integer Go expressions into Lean 4 `BitVec` terms.
//
// Supported: parameters and named results of types bool, byte, int32, uint32, int64, uint64,
// float32, float64 (floats are carried as their IEEE bit patterns); conversions between integer
// types (sign extension from signed sources, zero extension from unsigned ones, truncation);
// << >> by constants (>> is arithmetic on signed operands, logical on unsigned); ^ | & + - *;
// comparisons with constants; !b; calls to other translated functions, math.Float{32,64}bits,
// math.Float{32,64}frombits (identity on bit patterns), bits.Len64; the statement forms
// `return e` and `if c { return a }; return b`.  Anything else is an error: the obligation that
// depends on the expression is then reported as broken rather than guessed.

import (
	"fmt"
	"go/ast"
	"go/token"
	"strconv"
	"strings"
)

type gotype struct {
	name   string // bool, byte, int32, uint32, int64, uint64, float32, float64, int, untyped
	bits   int
	signed bool
}

var gotypes = map[string]gotype{
	"bool":    {"bool", 1, false},
	"byte":    {"byte", 8, false},
	"uint8":   {"byte", 8, false},
	"int8":    {"int8", 8, true},
	"int32":   {"int32", 32, true},
	"uint32":  {"uint32", 32, false},
	"int64":   {"int64", 64, true},
	"uint64":  {"uint64", 64, false},
	"int":     {"int", 64, true},
	"uint":    {"uint", 64, false},
	"float32": {"float32", 32, false},
	"float64": {"float64", 64, false},
	// named integer types of the code base
	"FieldNumber":      {"int32", 32, true},
	"Number":           {"int32", 32, true},
	"protowire.Number": {"int32", 32, true},
	"Type":             {"int8", 8, true},
	"protowire.Type":   {"int8", 8, true},
}

func (t gotype) lean() string {
	if t.name == "bool" {
		return "Bool"
	}
	return fmt.Sprintf("BitVec %d", t.bits)
}

func (t gotype) isFloat() bool { return t.name == "float32" || t.name == "float64" }

var untyped = gotype{"untyped", 0, false}

// funcSig is the signature of a callable known to the translator.
type funcSig struct {
	lean   string
	params []gotype
	result gotype
}

type translator struct {
	funcs map[string]funcSig // Go call name (e.g. "encodeZigZag32", "protowire.EncodeZigZag") -> signature
}

func newTranslator() *translator {
	t := &translator{funcs: map[string]funcSig{}}
	return t
}

type env map[string]gotype

type texpr struct {
	lean string
	typ  gotype
	// for untyped constants
	isConst bool
	cval    int64
}

func typeName(e ast.Expr) string {
	switch x := e.(type) {
	case *ast.Ident:
		return x.Name
	case *ast.SelectorExpr:
		if id, ok := x.X.(*ast.Ident); ok {
			return id.Name + "." + x.Sel.Name
		}
	case *ast.StarExpr:
		return "*" + typeName(x.X)
	case *ast.ArrayType:
		if x.Len == nil {
			return "[]" + typeName(x.Elt)
		}
	}
	return "?"
}

func (t *translator) constAs(c int64, ty gotype) string {
	if ty.name == "bool" {
		return "?"
	}
	if c < 0 {
		// two's complement
		return fmt.Sprintf("(BitVec.ofInt %d (%d))", ty.bits, c)
	}
	return fmt.Sprintf("%d#%d", c, ty.bits)
}

func (t *translator) coerce(e texpr, ty gotype) (texpr, error) {
	if e.isConst {
		return texpr{lean: t.constAs(e.cval, ty), typ: ty}, nil
	}
	if e.typ.name != ty.name {
		return e, fmt.Errorf("type mismatch %s vs %s", e.typ.name, ty.name)
	}
	return e, nil
}

func (t *translator) expr(e ast.Expr, en env) (texpr, error) {
	switch x := e.(type) {
	case *ast.ParenExpr:
		return t.expr(x.X, en)
	case *ast.Ident:
		if x.Name == "true" {
			return texpr{lean: "true", typ: gotypes["bool"]}, nil
		}
		if x.Name == "false" {
			return texpr{lean: "false", typ: gotypes["bool"]}, nil
		}
		ty, ok := en[x.Name]
		if !ok {
			return texpr{}, fmt.Errorf("unknown identifier %s", x.Name)
		}
		return texpr{lean: x.Name, typ: ty}, nil
	case *ast.StarExpr:
		// *v : dereference of the value pointer parameter; the model passes the value itself
		if id, ok := x.X.(*ast.Ident); ok {
			if ty, ok := en["*"+id.Name]; ok {
				return texpr{lean: id.Name, typ: ty}, nil
			}
		}
		return texpr{}, fmt.Errorf("unsupported dereference")
	case *ast.BasicLit:
		if x.Kind == token.INT {
			v, err := strconv.ParseInt(x.Value, 0, 64)
			if err != nil {
				// large unsigned literal
				u, err2 := strconv.ParseUint(x.Value, 0, 64)
				if err2 != nil {
					return texpr{}, err
				}
				v = int64(u)
			}
			return texpr{isConst: true, cval: v, typ: untyped}, nil
		}
		return texpr{}, fmt.Errorf("unsupported literal %s", x.Value)
	case *ast.UnaryExpr:
		a, err := t.expr(x.X, en)
		if err != nil {
			return a, err
		}
		switch x.Op {
		case token.NOT:
			if a.typ.name != "bool" {
				return a, fmt.Errorf("! on non-bool")
			}
			return texpr{lean: "(!" + a.lean + ")", typ: a.typ}, nil
		case token.SUB:
			if a.isConst {
				return texpr{isConst: true, cval: -a.cval, typ: untyped}, nil
			}
			return texpr{lean: "(-" + a.lean + ")", typ: a.typ}, nil
		case token.XOR:
			return texpr{lean: "(~~~" + a.lean + ")", typ: a.typ}, nil
		}
		return a, fmt.Errorf("unsupported unary %s", x.Op)
	case *ast.BinaryExpr:
		return t.binary(x, en)
	case *ast.CallExpr:
		return t.call(x, en)
	}
	return texpr{}, fmt.Errorf("unsupported expression %T", e)
}

func (t *translator) binary(x *ast.BinaryExpr, en env) (texpr, error) {
	a, err := t.expr(x.X, en)
	if err != nil {
		return a, err
	}
	b, err := t.expr(x.Y, en)
	if err != nil {
		return b, err
	}
	boolT := gotypes["bool"]
	switch x.Op {
	case token.SHL, token.SHR:
		if !b.isConst {
			return a, fmt.Errorf("shift by non-constant")
		}
		if a.isConst {
			if x.Op == token.SHL {
				return texpr{isConst: true, cval: a.cval << uint(b.cval), typ: untyped}, nil
			}
			return texpr{isConst: true, cval: a.cval >> uint(b.cval), typ: untyped}, nil
		}
		if a.typ.isFloat() || a.typ.name == "bool" {
			return a, fmt.Errorf("shift of %s", a.typ.name)
		}
		if x.Op == token.SHL {
			return texpr{lean: fmt.Sprintf("(%s <<< %d)", a.lean, b.cval), typ: a.typ}, nil
		}
		if a.typ.signed {
			return texpr{lean: fmt.Sprintf("(BitVec.sshiftRight %s %d)", a.lean, b.cval), typ: a.typ}, nil
		}
		return texpr{lean: fmt.Sprintf("(%s >>> %d)", a.lean, b.cval), typ: a.typ}, nil
	case token.LAND, token.LOR:
		if a.typ.name != "bool" || b.typ.name != "bool" {
			return a, fmt.Errorf("logical op on non-bool")
		}
		op := "&&"
		if x.Op == token.LOR {
			op = "||"
		}
		return texpr{lean: fmt.Sprintf("(%s %s %s)", a.lean, op, b.lean), typ: boolT}, nil
	}
	// unify operand types
	if a.isConst && b.isConst {
		var v int64
		switch x.Op {
		case token.ADD:
			v = a.cval + b.cval
		case token.SUB:
			v = a.cval - b.cval
		case token.MUL:
			v = a.cval * b.cval
		case token.OR:
			v = a.cval | b.cval
		case token.AND:
			v = a.cval & b.cval
		case token.XOR:
			v = a.cval ^ b.cval
		default:
			return a, fmt.Errorf("unsupported constant op %s", x.Op)
		}
		return texpr{isConst: true, cval: v, typ: untyped}, nil
	}
	ty := a.typ
	if a.isConst {
		ty = b.typ
	}
	if a, err = t.coerce(a, ty); err != nil {
		return a, err
	}
	if b, err = t.coerce(b, ty); err != nil {
		return b, err
	}
	switch x.Op {
	case token.EQL, token.NEQ:
		var l string
		if ty.isFloat() {
			// Go float comparison: +0 == -0, NaN != anything. Only comparison with the constant 0
			// is supported: true exactly for the two zero patterns.
			if !(strings.HasPrefix(b.lean, "0#")) {
				return a, fmt.Errorf("float comparison with non-zero")
			}
			mask := "0x7FFFFFFF#32"
			if ty.bits == 64 {
				mask = "0x7FFFFFFFFFFFFFFF#64"
			}
			l = fmt.Sprintf("((%s &&& %s) == %s)", a.lean, mask, b.lean)
		} else {
			l = fmt.Sprintf("(%s == %s)", a.lean, b.lean)
		}
		if x.Op == token.NEQ {
			l = "(!" + l + ")"
		}
		return texpr{lean: l, typ: boolT}, nil
	case token.LSS, token.GTR, token.LEQ, token.GEQ:
		if ty.isFloat() || ty.name == "bool" {
			return a, fmt.Errorf("ordering on %s", ty.name)
		}
		fn := map[token.Token]string{token.LSS: "ult", token.LEQ: "ule", token.GTR: "ult", token.GEQ: "ule"}[x.Op]
		if ty.signed {
			fn = "s" + fn[1:]
		}
		l, r := a.lean, b.lean
		if x.Op == token.GTR || x.Op == token.GEQ {
			l, r = r, l
		}
		return texpr{lean: fmt.Sprintf("(BitVec.%s %s %s)", fn, l, r), typ: boolT}, nil
	}
	if ty.isFloat() || ty.name == "bool" {
		return a, fmt.Errorf("arithmetic on %s", ty.name)
	}
	op := map[token.Token]string{token.ADD: "+", token.SUB: "-", token.MUL: "*", token.OR: "|||", token.AND: "&&&", token.XOR: "^^^"}[x.Op]
	if op == "" {
		if x.Op == token.QUO || x.Op == token.REM {
			if ty.signed {
				fn := "sdiv"
				if x.Op == token.REM {
					fn = "srem"
				}
				return texpr{lean: fmt.Sprintf("(BitVec.%s %s %s)", fn, a.lean, b.lean), typ: ty}, nil
			}
			o := "/"
			if x.Op == token.REM {
				o = "%"
			}
			return texpr{lean: fmt.Sprintf("(%s %s %s)", a.lean, o, b.lean), typ: ty}, nil
		}
		return a, fmt.Errorf("unsupported operator %s", x.Op)
	}
	return texpr{lean: fmt.Sprintf("(%s %s %s)", a.lean, op, b.lean), typ: ty}, nil
}

func (t *translator) convert(a texpr, to gotype) (texpr, error) {
	if a.isConst {
		return texpr{lean: t.constAs(a.cval, to), typ: to}, nil
	}
	from := a.typ
	if from.name == "bool" || to.name == "bool" {
		return a, fmt.Errorf("conversion involving bool")
	}
	if from.isFloat() || to.isFloat() {
		return a, fmt.Errorf("numeric float conversion is not supported")
	}
	switch {
	case to.bits == from.bits:
		return texpr{lean: a.lean, typ: to}, nil
	case to.bits < from.bits:
		return texpr{lean: fmt.Sprintf("(BitVec.setWidth %d %s)", to.bits, a.lean), typ: to}, nil
	case from.signed:
		return texpr{lean: fmt.Sprintf("(BitVec.signExtend %d %s)", to.bits, a.lean), typ: to}, nil
	default:
		return texpr{lean: fmt.Sprintf("(BitVec.setWidth %d %s)", to.bits, a.lean), typ: to}, nil
	}
}

func (t *translator) call(x *ast.CallExpr, en env) (texpr, error) {
	name := typeName(x.Fun)
	if ty, ok := gotypes[name]; ok && len(x.Args) == 1 {
		a, err := t.expr(x.Args[0], en)
		if err != nil {
			return a, err
		}
		return t.convert(a, ty)
	}
	switch name {
	case "math.Float32bits", "math.Float32frombits", "math.Float64bits", "math.Float64frombits":
		a, err := t.expr(x.Args[0], en)
		if err != nil {
			return a, err
		}
		res := map[string]string{"math.Float32bits": "uint32", "math.Float32frombits": "float32", "math.Float64bits": "uint64", "math.Float64frombits": "float64"}[name]
		arg := map[string]string{"math.Float32bits": "float32", "math.Float32frombits": "uint32", "math.Float64bits": "float64", "math.Float64frombits": "uint64"}[name]
		if a.typ.name != arg {
			return a, fmt.Errorf("%s applied to %s", name, a.typ.name)
		}
		return texpr{lean: a.lean, typ: gotypes[res]}, nil
	case "bits.Len64":
		a, err := t.expr(x.Args[0], en)
		if err != nil {
			return a, err
		}
		return texpr{lean: fmt.Sprintf("(Pico.bitsLen64 %s)", a.lean), typ: gotypes["int"]}, nil
	}
	sig, ok := t.funcs[name]
	if !ok {
		return texpr{}, fmt.Errorf("call to unknown function %s", name)
	}
	if len(sig.params) != len(x.Args) {
		return texpr{}, fmt.Errorf("arity of %s", name)
	}
	var args []string
	for i, ae := range x.Args {
		a, err := t.expr(ae, en)
		if err != nil {
			return a, err
		}
		a, err = t.coerce(a, sig.params[i])
		if err != nil {
			return a, fmt.Errorf("argument %d of %s: %v", i, name, err)
		}
		args = append(args, a.lean)
	}
	return texpr{lean: fmt.Sprintf("(%s %s)", sig.lean, strings.Join(args, " ")), typ: sig.result}, nil
}

// funcBody translates `return e` or `if c { return a }; return b` (possibly several ifs).
func (t *translator) funcBody(stmts []ast.Stmt, en env, res gotype) (string, error) {
	if len(stmts) == 0 {
		return "", fmt.Errorf("empty body")
	}
	switch s := stmts[0].(type) {
	case *ast.ReturnStmt:
		if len(s.Results) != 1 {
			return "", fmt.Errorf("multi-value return")
		}
		e, err := t.expr(s.Results[0], en)
		if err != nil {
			return "", err
		}
		e, err = t.coerce(e, res)
		if err != nil {
			return "", err
		}
		return e.lean, nil
	case *ast.IfStmt:
		if s.Init != nil {
			return "", fmt.Errorf("unsupported if form")
		}
		c, err := t.expr(s.Cond, en)
		if err != nil {
			return "", err
		}
		if c.typ.name != "bool" {
			return "", fmt.Errorf("non-bool condition")
		}
		th, err := t.funcBody(s.Body.List, en, res)
		if err != nil {
			return "", err
		}
		// `if c { return a } else { return b }` (both branches return) or `if c { return a }; rest`
		rest := stmts[1:]
		if s.Else != nil {
			eb, ok := s.Else.(*ast.BlockStmt)
			if !ok || len(rest) != 0 {
				return "", fmt.Errorf("unsupported if form")
			}
			rest = eb.List
		}
		el, err := t.funcBody(rest, en, res)
		if err != nil {
			return "", err
		}
		return fmt.Sprintf("(if %s then %s else %s)", c.lean, th, el), nil
	case *ast.AssignStmt:
		// `x := e` ahead of the returns: a let-binding
		if s.Tok != token.DEFINE || len(s.Lhs) != 1 || len(s.Rhs) != 1 || len(stmts) < 2 {
			return "", fmt.Errorf("unsupported assignment form")
		}
		id, ok := s.Lhs[0].(*ast.Ident)
		if !ok {
			return "", fmt.Errorf("unsupported assignment form")
		}
		e, err := t.expr(s.Rhs[0], en)
		if err != nil {
			return "", err
		}
		if e.isConst {
			return "", fmt.Errorf("untyped constant local %s", id.Name)
		}
		en2 := env{}
		for k, v := range en {
			en2[k] = v
		}
		en2[id.Name] = e.typ
		rest, err := t.funcBody(stmts[1:], en2, res)
		if err != nil {
			return "", err
		}
		return fmt.Sprintf("(let %s : %s := %s; %s)", id.Name, e.typ.lean(), e.lean, rest), nil
	}
	return "", fmt.Errorf("unsupported statement %T", stmts[0])
}

// translateFunc translates a whole single-result function declaration and registers it.
func (t *translator) translateFunc(fd *ast.FuncDecl, goName, leanName string) (string, error) {
	en := env{}
	var params []gotype
	var binders []string
	for _, p := range fd.Type.Params.List {
		ty, ok := gotypes[typeName(p.Type)]
		if !ok {
			return "", fmt.Errorf("%s: unsupported parameter type %s", goName, typeName(p.Type))
		}
		for _, n := range p.Names {
			en[n.Name] = ty
			params = append(params, ty)
			binders = append(binders, fmt.Sprintf("(%s : %s)", n.Name, ty.lean()))
		}
	}
	if fd.Type.Results == nil || len(fd.Type.Results.List) != 1 {
		return "", fmt.Errorf("%s: need exactly one result", goName)
	}
	res, ok := gotypes[typeName(fd.Type.Results.List[0].Type)]
	if !ok {
		return "", fmt.Errorf("%s: unsupported result type", goName)
	}
	body, err := t.funcBody(fd.Body.List, en, res)
	if err != nil {
		return "", fmt.Errorf("%s: %v", goName, err)
	}
	t.funcs[goName] = funcSig{lean: "Pico.Gen." + leanName, params: params, result: res}
	return fmt.Sprintf("def %s %s : %s := %s", leanName, strings.Join(binders, " "), res.lean(), body), nil
}
