package main

import (
	"fmt"
	"go/ast"
	"go/token"
	"path/filepath"
	"regexp"
	"sort"
	"strings"
)

var kindNames = []string{"Bool", "Int32", "Int64", "Uint32", "Uint64", "Sint32", "Sint64", "Fixed32", "Fixed64",
	"Sfixed32", "Sfixed64", "Float", "Double", "String", "Bytes"}

func splitMethod(name string) (always, repeated bool, kind string, ok bool) {
	rest := name
	if strings.HasPrefix(rest, "Always") {
		always = true
		rest = rest[len("Always"):]
	}
	if strings.HasPrefix(rest, "Repeated") {
		repeated = true
		rest = rest[len("Repeated"):]
	}
	for _, k := range kindNames {
		if k == rest {
			return always, repeated, k, true
		}
	}
	return false, false, "", false
}

// encoder templates ------------------------------------------------------------------------

const tEncSingle = `
enc.buffer = appendTag(enc.buffer, field, protowire.HI_wire)
enc.buffer = protowire.HI_append(enc.buffer, HE_enc)`

const tEncRepAnyBytes = `
enc.alwaysAnyBytes(field, func() {
	for _, x := range *v {
		enc.buffer = protowire.HI_append(enc.buffer, HE_enc)
	}
})`

const tEncRepLen = `
enc.buffer = appendTag(enc.buffer, field, protowire.HI_wire)
enc.buffer = protowire.AppendVarint(enc.buffer, uint64(len(*v)*HL_mul))
for _, x := range *v {
	enc.buffer = protowire.HI_append(enc.buffer, HE_enc)
}`

const tEncRepBool = `
enc.buffer = appendTag(enc.buffer, field, protowire.HI_wire)
enc.buffer = protowire.AppendVarint(enc.buffer, uint64(len(*v)))
for _, x := range *v {
	enc.buffer = append(enc.buffer, HE_enc)
}`

const tEncRepUnpacked = `
for _, x := range *v {
	enc.buffer = appendTag(enc.buffer, field, protowire.HI_wire)
	enc.buffer = protowire.HI_append(enc.buffer, HE_enc)
}`

const tGuard = `
if HE_guard {
	return
}`

// decoder templates ------------------------------------------------------------------------

const tDecSingle = `
if field != dec.pendingField {
	return
}
if dec.pendingWire != protowire.HI_wire {
	dec.fail(field, HL_wiremsg)
	return
}
x, n := protowire.HI_consume(dec.buffer)
if n < 0 {
	dec.fail(field, HL_parsemsg)
	return
}
*v = HE_dec
dec.nextField(n)`

const tDecRepPacked = `
for field == dec.pendingField {
	switch dec.pendingWire {
	case protowire.BytesType:
		packed, n := protowire.ConsumeBytes(dec.buffer)
		if n < 0 {
			dec.fail(field, HL_bytesmsg)
			return
		}
		for len(packed) > 0 {
			x, xn := protowire.HI_consume(packed)
			if xn < 0 {
				dec.fail(field, HL_parsemsg)
				return
			}
			*v = append(*v, HE_dec)
			packed = packed[xn:]
		}
		dec.nextField(n)
	case protowire.HI_wire:
		x, n := protowire.HI_consume(dec.buffer)
		if n < 0 {
			dec.fail(field, HL_parsemsg)
			return
		}
		*v = append(*v, HE_dec)
		dec.nextField(n)
	default:
		dec.fail(field, HL_wiremsg)
		return
	}
}`

const tDecRepUnpacked = `
for field == dec.pendingField {
	switch dec.pendingWire {
	case protowire.HI_wire:
		x, n := protowire.HI_consume(dec.buffer)
		if n < 0 {
			dec.fail(field, HL_parsemsg)
			return
		}
		*v = append(*v, HE_dec)
		dec.nextField(n)
	default:
		dec.fail(field, HL_wiremsg)
		return
	}
}`

func elemType(fd *ast.FuncDecl) (string, bool) {
	// second parameter: v *T or v *[]T
	ps := fd.Type.Params.List
	if len(ps) != 2 {
		return "", false
	}
	t := typeName(ps[1].Type)
	if !strings.HasPrefix(t, "*") {
		return "", false
	}
	t = t[1:]
	rep := false
	if strings.HasPrefix(t, "[]") && t != "[]byte" {
		rep = true
		t = t[2:]
	} else if strings.HasPrefix(t, "[][]") {
		rep = true
		t = t[2:]
	}
	return t, rep
}

// alphaNormalise renames the receiver, the two parameters and (after a match) the locals of a typed
// reader/writer to the names the templates and the recorded expression texts use, so that renaming a
// variable in the Go source does not change the extracted facts.
func renameIdents(n ast.Node, from, to string) {
	if from == "" || from == to {
		return
	}
	ast.Inspect(n, func(k ast.Node) bool {
		if id, ok := k.(*ast.Ident); ok && id.Name == from {
			id.Name = to
		}
		return true
	})
}

func normaliseSig(fd *ast.FuncDecl, recv string) {
	if fd.Recv != nil && len(fd.Recv.List) == 1 && len(fd.Recv.List[0].Names) == 1 {
		renameIdents(fd.Body, fd.Recv.List[0].Names[0].Name, recv)
	}
	var ps []string
	for _, p := range fd.Type.Params.List {
		for _, n := range p.Names {
			ps = append(ps, n.Name)
		}
	}
	if len(ps) == 2 {
		// temporary names first: a swap (field <-> v) must not merge the two
		renameIdents(fd.Body, ps[0], "HP_field")
		renameIdents(fd.Body, ps[1], "HP_v")
		renameIdents(fd.Body, "HP_field", "field")
		renameIdents(fd.Body, "HP_v", "v")
	}
}

var localHole = regexp.MustCompile(`\b(x|n|xn|packed)\b`)

// holed: the template with its local variables turned into identifier holes
func holed(tmpl string) string { return localHole.ReplaceAllString(tmpl, "HI_$1") }

// canonLocals: after a match, rename the bound locals back to the template's names inside the body
func canonLocals(fd *ast.FuncDecl, bd *bindings) {
	for _, c := range []string{"x", "n", "xn", "packed"} {
		if a := bd.idents["HI_"+c]; a != "" && a != c {
			renameIdents(fd.Body, a, "HQ_"+c)
		}
	}
	for _, c := range []string{"x", "n", "xn", "packed"} {
		renameIdents(fd.Body, "HQ_"+c, c)
	}
}

// negateCond: the logical negation of a condition, in the spelling the templates use (`a != b` ->
// `a == b`, `a > 0` for a length -> `a == 0`, `!x` -> `x`, `x` -> `!x`).
func negateCond(e ast.Expr) ast.Expr {
	switch x := e.(type) {
	case *ast.ParenExpr:
		return negateCond(x.X)
	case *ast.UnaryExpr:
		if x.Op == token.NOT {
			return x.X
		}
	case *ast.BinaryExpr:
		switch x.Op {
		case token.NEQ:
			return &ast.BinaryExpr{X: x.X, Op: token.EQL, Y: x.Y}
		case token.EQL:
			return &ast.BinaryExpr{X: x.X, Op: token.NEQ, Y: x.Y}
		case token.GTR:
			if bl, ok := x.Y.(*ast.BasicLit); ok && bl.Value == "0" {
				if ce, ok := x.X.(*ast.CallExpr); ok {
					if id, ok := ce.Fun.(*ast.Ident); ok && id.Name == "len" {
						return &ast.BinaryExpr{X: x.X, Op: token.EQL, Y: x.Y}
					}
				}
			}
		}
	}
	return &ast.UnaryExpr{Op: token.NOT, X: e}
}

// canonSwitch rewrites the body of a `for` loop that dispatches on one expression — either
// `switch E { case A: … default: … }` or `[t := E;] if t == A { … } else if t == B { … } else { … }` —
// into a switch on E whose clauses are ordered: the BytesType clause first, the other cases in source
// order, default last. The loop statement is modified in place.
func canonSwitch(loop *ast.ForStmt) {
	body := loop.Body.List
	var tag ast.Expr
	var clauses []ast.Stmt
	switch {
	case len(body) == 1:
		if sw, ok := body[0].(*ast.SwitchStmt); ok && sw.Init == nil && sw.Tag != nil {
			tag, clauses = sw.Tag, sw.Body.List
		} else if is, ok := body[0].(*ast.IfStmt); ok {
			tag, clauses = ifChain(is, nil)
		}
	case len(body) == 2:
		// t := E; if t == … (t used nowhere else)
		as, ok1 := body[0].(*ast.AssignStmt)
		is, ok2 := body[1].(*ast.IfStmt)
		if ok1 && ok2 && as.Tok == token.DEFINE && len(as.Lhs) == 1 && len(as.Rhs) == 1 {
			if id, ok := as.Lhs[0].(*ast.Ident); ok {
				t, cl := ifChain(is, id)
				if t != nil {
					tag, clauses = as.Rhs[0], cl
				}
			}
		}
	}
	if tag == nil || len(clauses) == 0 {
		return
	}
	var first, mid, last []ast.Stmt
	for _, c := range clauses {
		cc := c.(*ast.CaseClause)
		switch {
		case cc.List == nil:
			last = append(last, c)
		case len(cc.List) == 1 && exprString(cc.List[0]) == "protowire.BytesType":
			first = append(first, c)
		default:
			mid = append(mid, c)
		}
	}
	ordered := append(append(first, mid...), last...)
	loop.Body.List = []ast.Stmt{&ast.SwitchStmt{Tag: tag, Body: &ast.BlockStmt{List: ordered}}}
}

// ifChain: `if T == A {…} else if T == B {…} else {…}` as case clauses; with `local` given, T must be
// that identifier. Returns a nil tag when the statement is not such a chain.
func ifChain(is *ast.IfStmt, local *ast.Ident) (ast.Expr, []ast.Stmt) {
	var tag ast.Expr
	var clauses []ast.Stmt
	for cur := is; cur != nil; {
		be, ok := cur.Cond.(*ast.BinaryExpr)
		if !ok || be.Op != token.EQL || cur.Init != nil {
			return nil, nil
		}
		if tag == nil {
			tag = be.X
		} else if exprString(tag) != exprString(be.X) {
			return nil, nil
		}
		if local != nil {
			if id, ok := be.X.(*ast.Ident); !ok || id.Name != local.Name {
				return nil, nil
			}
		}
		clauses = append(clauses, &ast.CaseClause{List: []ast.Expr{be.Y}, Body: cur.Body.List})
		switch e := cur.Else.(type) {
		case nil:
			cur = nil
		case *ast.IfStmt:
			cur = e
		case *ast.BlockStmt:
			clauses = append(clauses, &ast.CaseClause{Body: e.List})
			cur = nil
		default:
			return nil, nil
		}
	}
	return tag, clauses
}

func genCoderTable(repo string, tr *translator, exprs *strings.Builder, note func(string, ...interface{})) string {
	var b strings.Builder
	b.WriteString("import PicoModel.TableTypes\n/- GENERATED by tools/harness/cmd/facts from encoder_types.go and decoder_types.go; do not edit. -/\nnamespace Pico.Gen\nopen Pico\n\n")

	encFile := parseFile(filepath.Join(repo, "encoder_types.go"))
	decFile := parseFile(filepath.Join(repo, "decoder_types.go"))
	encDecls := funcDecls(encFile)
	decDecls := funcDecls(decFile)

	emitExpr := func(defName string, e ast.Expr, varName string, elem string, resWant string) string {
		text := exprString(e)
		if elem == "string" || elem == "[]byte" {
			return text // not an integer expression; recorded as text only
		}
		ty, ok := gotypes[elem]
		if !ok {
			note("%s: unsupported element type %s", defName, elem)
			return text
		}
		en := env{}
		binder := ""
		switch varName {
		case "*v":
			en["*v"] = ty
			binder = fmt.Sprintf("(v : %s)", ty.lean())
		default:
			en[varName] = ty
			binder = fmt.Sprintf("(%s : %s)", varName, ty.lean())
		}
		te, err := tr.expr(e, en)
		if err != nil {
			note("%s: %v", defName, err)
			fmt.Fprintf(exprs, "-- UNTRANSLATABLE %s: %s (%v)\n", defName, text, err)
			return text
		}
		if te.isConst {
			note("%s: constant expression", defName)
			return text
		}
		fmt.Fprintf(exprs, "def %s %s : %s := %s\n", defName, binder, te.typ.lean(), te.lean)
		return text
	}

	// ---- encoders
	var encNames []string
	for n := range encDecls {
		if strings.HasPrefix(n, "Encoder.") {
			encNames = append(encNames, n)
		}
	}
	sort.Strings(encNames)
	b.WriteString("def encRows : List EncRow := [\n")
	first := true
	for _, full := range encNames {
		fd := encDecls[full]
		name := strings.TrimPrefix(full, "Encoder.")
		always, repeated, kind, ok := splitMethod(name)
		row := fmt.Sprintf("  { name := %s, kind := \"\", always := false, repeated := false, shape := .unrecognised, guard := \"\", wire := \"\", prim := \"\", expr := \"\", lenMul := 0 }", leanStr(name))
		if ok {
			elem, _ := elemType(fd)
			normaliseSig(fd, "enc")
			stmts := fd.Body.List
			guard := ""
			// `if !G { body }` as the whole method is the same as `if G { return }; body`
			if len(stmts) == 1 {
				if is, ok := stmts[0].(*ast.IfStmt); ok && is.Init == nil && is.Else == nil {
					ret := &ast.IfStmt{Cond: negateCond(is.Cond), Body: &ast.BlockStmt{List: []ast.Stmt{&ast.ReturnStmt{}}}}
					stmts = append([]ast.Stmt{ret}, is.Body.List...)
				}
			}
			if len(stmts) > 0 {
				gb := newBindings()
				if matchStmts(parseTemplate(tGuard), stmts[:1], gb) {
					ge := gb.exprs["HE_guard"]
					guard = exprString(ge)
					if !repeated && elem != "string" && elem != "[]byte" {
						emitExpr("guard_"+name, ge, "*v", elem, "bool")
					}
					stmts = stmts[1:]
				}
			}
			varName := "*v"
			if repeated {
				varName = "x"
			}
			type cand struct {
				tmpl, shape string
			}
			var cands []cand
			if repeated {
				cands = []cand{{tEncRepAnyBytes, ".repAnyBytes"}, {tEncRepLen, ".repLen"}, {tEncRepBool, ".repBool"}, {tEncRepUnpacked, ".repUnpacked"}}
			} else {
				cands = []cand{{tEncSingle, ".single"}}
			}
			matched := false
			for _, c := range cands {
				bd := newBindings()
				if matchStmts(parseTemplate(holed(c.tmpl)), stmts, bd) {
					canonLocals(fd, bd)
					wire := bd.idents["HI_wire"]
					prim := strings.TrimPrefix(bd.idents["HI_append"], "Append")
					mul := bd.lits["HL_mul"]
					if mul == "" {
						mul = "0"
					}
					etext := emitExpr("enc_"+name, bd.exprs["HE_enc"], varName, elem, "")
					row = fmt.Sprintf("  { name := %s, kind := %s, always := %v, repeated := %v, shape := %s, guard := %s, wire := %s, prim := %s, expr := %s, lenMul := %s }",
						leanStr(name), leanStr(kind), always, repeated, c.shape, leanStr(guard), leanStr(wire), leanStr(prim), leanStr(etext), mul)
					matched = true
					break
				}
			}
			if !matched {
				note("encoder method %s: body matches no known shape", name)
			}
		} else {
			note("encoder method %s: name not recognised", name)
		}
		if !first {
			b.WriteString(",\n")
		}
		first = false
		b.WriteString(row)
	}
	b.WriteString("\n]\n\n")

	// ---- decoders
	var decNames []string
	for n := range decDecls {
		if strings.HasPrefix(n, "Decoder.") {
			decNames = append(decNames, n)
		}
	}
	sort.Strings(decNames)
	b.WriteString("def decRows : List DecRow := [\n")
	first = true
	for _, full := range decNames {
		fd := decDecls[full]
		name := strings.TrimPrefix(full, "Decoder.")
		_, repeated, kind, ok := splitMethod(name)
		row := fmt.Sprintf("  { name := %s, kind := \"\", repeated := false, shape := .unrecognised, wire := \"\", prim := \"\", expr := \"\", wireMsg := \"\", parseMsg := \"\", bytesMsg := \"\" }", leanStr(name))
		if ok {
			elem, _ := elemType(fd)
			normaliseSig(fd, "dec")
			if len(fd.Body.List) == 1 {
				if loop, ok := fd.Body.List[0].(*ast.ForStmt); ok {
					canonSwitch(loop)
				}
			}
			type cand struct {
				tmpl, shape string
			}
			var cands []cand
			if repeated {
				cands = []cand{{tDecRepPacked, ".repPacked"}, {tDecRepUnpacked, ".repUnpacked"}}
			} else {
				cands = []cand{{tDecSingle, ".single"}}
			}
			matched := false
			for _, c := range cands {
				bd := newBindings()
				if matchStmts(parseTemplate(holed(c.tmpl)), fd.Body.List, bd) {
					canonLocals(fd, bd)
					// x has the result type of the Consume primitive
					prim := strings.TrimPrefix(bd.idents["HI_consume"], "Consume")
					xType := map[string]string{"Varint": "uint64", "Fixed32": "uint32", "Fixed64": "uint64", "String": "string", "Bytes": "[]byte"}[prim]
					etext := exprString(bd.exprs["HE_dec"])
					if xType == "" {
						note("decoder method %s: unknown primitive %s", name, prim)
					} else if elem != "string" && elem != "[]byte" {
						etext = emitExprDec(tr, exprs, note, "dec_"+name, bd.exprs["HE_dec"], xType, elem)
					}
					unq := func(s string) string { return strings.Trim(s, `"`) }
					row = fmt.Sprintf("  { name := %s, kind := %s, repeated := %v, shape := %s, wire := %s, prim := %s, expr := %s, wireMsg := %s, parseMsg := %s, bytesMsg := %s }",
						leanStr(name), leanStr(kind), repeated, c.shape, leanStr(bd.idents["HI_wire"]), leanStr(prim), leanStr(etext),
						leanStr(unq(bd.lits["HL_wiremsg"])), leanStr(unq(bd.lits["HL_parsemsg"])), leanStr(unq(bd.lits["HL_bytesmsg"])))
					matched = true
					break
				}
			}
			if !matched {
				note("decoder method %s: body matches no known shape", name)
			}
		} else {
			note("decoder method %s: name not recognised", name)
		}
		if !first {
			b.WriteString(",\n")
		}
		first = false
		b.WriteString(row)
	}
	b.WriteString("\n]\n\nend Pico.Gen\n")
	return b.String()
}

func emitExprDec(tr *translator, exprs *strings.Builder, note func(string, ...interface{}), defName string, e ast.Expr, xType, elem string) string {
	text := exprString(e)
	en := env{"x": gotypes[xType]}
	te, err := tr.expr(e, en)
	if err != nil {
		note("%s: %v", defName, err)
		fmt.Fprintf(exprs, "-- UNTRANSLATABLE %s: %s (%v)\n", defName, text, err)
		return text
	}
	want := gotypes[elem]
	if te.typ.name != want.name {
		note("%s: expression has type %s, target %s", defName, te.typ.name, want.name)
	}
	fmt.Fprintf(exprs, "def %s (x : %s) : %s := %s\n", defName, gotypes[xType].lean(), te.typ.lean(), te.lean)
	return text
}
