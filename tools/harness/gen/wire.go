package gen

import (
	"math/rand"

	"google.golang.org/protobuf/encoding/protowire"

	"storj.io/picobuf/verifharness/schema"
)

// UnknownFields returns n well-formed records whose numbers message m does not use, of every
// wire type including nested groups.
func UnknownFields(r *rand.Rand, m *schema.Message, n int) []byte {
	used := map[int32]bool{}
	for _, fd := range m.Fields {
		used[fd.Num] = true
	}
	var out []byte
	for i := 0; i < n; i++ {
		out = append(out, unknownRecord(r, used, 0)...)
	}
	return out
}

func unknownNum(r *rand.Rand, used map[int32]bool) protowire.Number {
	for {
		var n int32
		switch r.Intn(6) {
		case 0:
			n = int32(1 + r.Intn(15))
		case 1:
			n = int32(16 + r.Intn(48))
		case 2:
			n = int32(64 + r.Intn(2000))
		case 3:
			n = []int32{63, 64, 65, 2047, 2048, 1<<21 - 1, 1 << 21, 1<<28 - 1, 1 << 28, 1<<29 - 1, 19000}[r.Intn(11)]
		default:
			n = int32(1 + r.Intn(1<<29-1))
		}
		if !used[n] {
			return protowire.Number(n)
		}
	}
}

func unknownRecord(r *rand.Rand, used map[int32]bool, depth int) []byte {
	num := unknownNum(r, used)
	var b []byte
	switch t := r.Intn(6); {
	case t == 0:
		b = protowire.AppendTag(b, num, protowire.VarintType)
		b = protowire.AppendVarint(b, Bits(r, "uint64"))
	case t == 1:
		b = protowire.AppendTag(b, num, protowire.Fixed32Type)
		b = protowire.AppendFixed32(b, uint32(Bits(r, "uint32")))
	case t == 2:
		b = protowire.AppendTag(b, num, protowire.Fixed64Type)
		b = protowire.AppendFixed64(b, Bits(r, "uint64"))
	case t == 3 || depth > 2:
		b = protowire.AppendTag(b, num, protowire.BytesType)
		b = protowire.AppendBytes(b, RawBytes(r, Size(r, false)))
	default:
		b = protowire.AppendTag(b, num, protowire.StartGroupType)
		k := r.Intn(3)
		for i := 0; i < k; i++ {
			b = append(b, unknownRecord(r, map[int32]bool{}, depth+1)...)
		}
		b = protowire.AppendTag(b, num, protowire.EndGroupType)
	}
	return b
}

// Record is one top-level wire record.
type Record struct {
	Num protowire.Number
	Typ protowire.Type
	Tag []byte // tag bytes as they appeared
	Val []byte // raw value bytes (length prefix included)
}

// Split tokenizes a well-formed message into records; ok=false if it is not well-formed.
func Split(b []byte) (recs []Record, ok bool) {
	for len(b) > 0 {
		num, typ, n := protowire.ConsumeTag(b)
		if n < 0 {
			return nil, false
		}
		m := protowire.ConsumeFieldValue(num, typ, b[n:])
		if m < 0 {
			return nil, false
		}
		recs = append(recs, Record{num, typ, b[:n], b[n : n+m]})
		b = b[n+m:]
	}
	return recs, true
}

func Join(recs []Record) []byte {
	var b []byte
	for _, r := range recs {
		b = append(b, r.Tag...)
		b = append(b, r.Val...)
	}
	return b
}

// NonMinimalVarint re-encodes v with `extra` redundant continuation bytes (total ≤ 10 bytes).
func NonMinimalVarint(v uint64, extra int) []byte {
	b := protowire.AppendVarint(nil, v)
	if len(b)+extra > 10 {
		extra = 10 - len(b)
	}
	if extra <= 0 {
		return b
	}
	b[len(b)-1] |= 0x80
	for i := 0; i < extra-1; i++ {
		b = append(b, 0x80)
	}
	return append(b, 0x00)
}

// NormUnknown re-encodes every tag of a sequence of well-formed records minimally (what picobuf's
// capture does); returns the input unchanged if it does not tokenize.
func NormUnknown(b []byte) []byte {
	recs, ok := Split(b)
	if !ok {
		return b
	}
	var out []byte
	for _, r := range recs {
		out = protowire.AppendTag(out, r.Num, r.Typ)
		out = append(out, r.Val...)
	}
	return out
}

// Rewriter applies meaning-preserving wire rewrites guided by the schema.
type Rewriter struct {
	R *rand.Rand
	F *schema.File
}

// Rewrite returns a wire-equivalent re-encoding of b (a valid encoding of message `name`).
func (w *Rewriter) Rewrite(name string, b []byte, depth int) []byte {
	m := w.F.Msg(name)
	recs, ok := Split(b)
	if !ok || m == nil {
		return b
	}
	r := w.R
	byNum := map[int32]*schema.Field{}
	for i := range m.Fields {
		byNum[m.Fields[i].Num] = &m.Fields[i]
	}
	var out []Record
	for _, rec := range recs {
		fd := byNum[int32(rec.Num)]
		// non-minimal tag
		if r.Intn(6) == 0 {
			rec.Tag = NonMinimalVarint(protowire.EncodeTag(rec.Num, rec.Typ), 1+r.Intn(3))
		}
		if fd == nil {
			out = append(out, rec)
			continue
		}
		sh := w.F.ShapeOf(fd)
		// an earlier, overwritten occurrence of a singular scalar field (last one wins): same wire type,
		// different content and (for bytes/string) different length
		if !sh.Repeated && (sh.Cat == "scalar" || sh.Cat == "enum") && fd.Oneof == "" && r.Intn(5) == 0 {
			dup := rec
			switch rec.Typ {
			case protowire.VarintType:
				dup.Val = protowire.AppendVarint(nil, r.Uint64()>>uint(r.Intn(64)))
			case protowire.Fixed32Type:
				dup.Val = protowire.AppendFixed32(nil, r.Uint32())
			case protowire.Fixed64Type:
				dup.Val = protowire.AppendFixed64(nil, r.Uint64())
			case protowire.BytesType:
				n := []int{0, 1, 2, 3, 5, 8, 13, 40}[r.Intn(8)]
				p := make([]byte, n)
				for i := range p {
					p[i] = byte('a' + r.Intn(26))
				}
				dup.Val = protowire.AppendBytes(nil, p)
			}
			out = append(out, dup)
		}
		switch {
		case rec.Typ == protowire.VarintType:
			if r.Intn(4) == 0 {
				v, _ := protowire.ConsumeVarint(rec.Val)
				rec.Val = NonMinimalVarint(v, 1+r.Intn(4))
			}
			out = append(out, rec)
		case rec.Typ == protowire.BytesType:
			payload, _ := protowire.ConsumeBytes(rec.Val)
			switch {
			case sh.Cat == "message" && fd.Kind == "message":
				sub := w.Rewrite(fd.Ref, payload, depth+1)
				// split a singular sub-message into two occurrences (merge semantics)
				// (more often for a oneof member: the wrapper must be reused, not replaced)
				if !sh.Repeated && (r.Intn(4) == 0 || fd.Oneof != "" && r.Intn(2) == 0) {
					if parts, ok := Split(sub); ok && len(parts) >= 2 {
						k := 1 + r.Intn(len(parts)-1)
						out = append(out, lenRec(r, rec, Join(parts[:k])), lenRec(r, rec, Join(parts[k:])))
						continue
					}
				}
				out = append(out, lenRec(r, rec, sub))
			case sh.Cat == "map":
				// a map entry may omit a zero key / zero value (absent means zero), list value before
				// key, and carry unknown fields
				entry, ok := Split(payload)
				if ok && r.Intn(2) == 0 {
					var kept []Record
					for _, e := range entry {
						if (e.Num == 1 || e.Num == 2) && isZeroValue(e) && r.Intn(2) == 0 {
							continue
						}
						kept = append(kept, e)
					}
					if len(kept) == 2 && r.Intn(3) == 0 {
						kept[0], kept[1] = kept[1], kept[0]
					}
					if r.Intn(4) == 0 {
						// an unknown field before, between or after key and value
						u, _ := Split(unknownRecord(r, map[int32]bool{1: true, 2: true}, 1))
						pos := r.Intn(len(kept) + 1)
						kept = append(kept[:pos], append(u, kept[pos:]...)...)
					}
					payload = Join(kept)
				}
				out = append(out, lenRec(r, rec, payload))
			case sh.Repeated && (sh.Cat == "scalar" || sh.Cat == "enum") && fd.Kind != "string" && fd.Kind != "bytes":
				// non-minimal varints inside the packed payload
				if scalarIsVarint(fd.Kind) && r.Intn(3) == 0 {
					var np []byte
					rest := payload
					okp := true
					for len(rest) > 0 {
						v, n := protowire.ConsumeVarint(rest)
						if n < 0 {
							okp = false
							break
						}
						if r.Intn(2) == 0 {
							np = append(np, NonMinimalVarint(v, 1+r.Intn(3))...)
						} else {
							np = append(np, rest[:n]...)
						}
						rest = rest[n:]
					}
					if okp {
						payload = np
					}
				}
				// packed -> unpacked / mixed
				if r.Intn(2) == 0 {
					out = append(out, w.unpack(fd, rec, payload)...)
				} else {
					out = append(out, lenRec(r, rec, payload))
				}
			default:
				out = append(out, lenRec(r, rec, payload))
			}
		default:
			out = append(out, rec)
		}
	}
	// interleave unknown fields
	if r.Intn(3) == 0 {
		used := map[int32]bool{}
		for n := range byNum {
			used[n] = true
		}
		k := 1 + r.Intn(2)
		for i := 0; i < k; i++ {
			u, _ := Split(unknownRecord(r, used, 0))
			pos := r.Intn(len(out) + 1)
			out = append(out[:pos], append(u, out[pos:]...)...)
		}
	}
	// permute records of different fields (keeping the relative order of same-numbered ones, and
	// of members of one oneof, whose order is meaningful)
	if r.Intn(2) == 0 && len(out) > 1 {
		group := func(rec Record) int32 {
			if fd := byNum[int32(rec.Num)]; fd != nil && fd.Oneof != "" {
				for _, g := range m.Fields {
					if g.Oneof == fd.Oneof {
						return -g.Num
					}
				}
			}
			return int32(rec.Num)
		}
		for it := 0; it < len(out); it++ {
			i := r.Intn(len(out) - 1)
			if group(out[i]) != group(out[i+1]) {
				out[i], out[i+1] = out[i+1], out[i]
			}
		}
	}
	return Join(out)
}

func lenRec(r *rand.Rand, rec Record, payload []byte) Record {
	var v []byte
	if r.Intn(5) == 0 {
		v = NonMinimalVarint(uint64(len(payload)), 1+r.Intn(3))
	} else {
		v = protowire.AppendVarint(nil, uint64(len(payload)))
	}
	return Record{rec.Num, rec.Typ, rec.Tag, append(v, payload...)}
}

func (w *Rewriter) unpack(fd *schema.Field, rec Record, payload []byte) []Record {
	kind := fd.Kind
	var typ protowire.Type
	switch kind {
	case "fixed32", "sfixed32", "float":
		typ = protowire.Fixed32Type
	case "fixed64", "sfixed64", "double":
		typ = protowire.Fixed64Type
	default:
		typ = protowire.VarintType
	}
	var out []Record
	tag := protowire.AppendTag(nil, rec.Num, typ)
	rest := payload
	// leave a packed tail sometimes (mixed)
	for len(rest) > 0 {
		if len(out) > 0 && w.R.Intn(4) == 0 {
			out = append(out, lenRec(w.R, Record{rec.Num, protowire.BytesType, protowire.AppendTag(nil, rec.Num, protowire.BytesType), nil}, rest))
			return out
		}
		n := protowire.ConsumeFieldValue(rec.Num, typ, rest)
		if n < 0 {
			return []Record{rec}
		}
		out = append(out, Record{rec.Num, typ, tag, rest[:n]})
		rest = rest[n:]
	}
	if len(out) == 0 {
		return []Record{rec}
	}
	return out
}

// Ragged returns b (a valid encoding of message `name`) with one packed repeated scalar field made
// ragged: its payload gets 1..size-1 extra bytes (fixed-width kinds) or an unterminated varint
// (varint kinds), with a CONSISTENT length prefix — malformed for every protobuf parser. ok=false if
// the message has no packed occurrence.
func (w *Rewriter) Ragged(name string, b []byte) ([]byte, bool) {
	m := w.F.Msg(name)
	recs, ok := Split(b)
	if !ok || m == nil {
		return nil, false
	}
	byNum := map[int32]*schema.Field{}
	for i := range m.Fields {
		byNum[m.Fields[i].Num] = &m.Fields[i]
	}
	var cand []int
	for i, rec := range recs {
		fd := byNum[int32(rec.Num)]
		if fd == nil || rec.Typ != protowire.BytesType {
			continue
		}
		sh := w.F.ShapeOf(fd)
		if sh.Repeated && (sh.Cat == "scalar" || sh.Cat == "enum") && fd.Kind != "string" && fd.Kind != "bytes" {
			cand = append(cand, i)
		}
	}
	if len(cand) == 0 {
		return nil, false
	}
	i := cand[w.R.Intn(len(cand))]
	fd := byNum[int32(recs[i].Num)]
	payload, _ := protowire.ConsumeBytes(recs[i].Val)
	payload = append([]byte(nil), payload...)
	switch fd.Kind {
	case "fixed32", "sfixed32", "float":
		for k := 1 + w.R.Intn(3); k > 0; k-- {
			payload = append(payload, byte(w.R.Intn(256)))
		}
	case "fixed64", "sfixed64", "double":
		for k := 1 + w.R.Intn(7); k > 0; k-- {
			payload = append(payload, byte(w.R.Intn(256)))
		}
	default:
		for k := 1 + w.R.Intn(3); k > 0; k-- {
			payload = append(payload, byte(0x80|w.R.Intn(128)))
		}
	}
	recs[i].Val = protowire.AppendBytes(nil, payload)
	return Join(recs), true
}

// BadGroup inserts, at a record boundary of the valid encoding b, an unknown group that contains a
// nested group closed by an end marker of the WRONG field number (unbalanced for every parser), or a
// group cut off before its end marker. The field numbers used are unknown to message `name`.
func (w *Rewriter) BadGroup(name string, b []byte) ([]byte, bool) {
	m := w.F.Msg(name)
	recs, ok := Split(b)
	if !ok || m == nil {
		return nil, false
	}
	used := map[int32]bool{}
	for i := range m.Fields {
		used[m.Fields[i].Num] = true
	}
	r := w.R
	outer, inner, wrong := unknownNum(r, used), unknownNum(r, used), unknownNum(r, used)
	for wrong == inner {
		wrong++
	}
	var g []byte
	g = protowire.AppendTag(g, outer, protowire.StartGroupType)
	if r.Intn(2) == 0 {
		g = protowire.AppendTag(g, 1, protowire.VarintType)
		g = protowire.AppendVarint(g, r.Uint64()>>uint(r.Intn(64)))
	}
	g = protowire.AppendTag(g, inner, protowire.StartGroupType)
	if r.Intn(2) == 0 {
		g = protowire.AppendTag(g, 2, protowire.Fixed32Type)
		g = protowire.AppendFixed32(g, r.Uint32())
	}
	switch r.Intn(3) {
	case 0: // inner group closed with another number, outer closed properly
		g = protowire.AppendTag(g, wrong, protowire.EndGroupType)
		g = protowire.AppendTag(g, outer, protowire.EndGroupType)
	case 1: // inner closed properly, outer closed with the inner's number
		g = protowire.AppendTag(g, inner, protowire.EndGroupType)
		g = protowire.AppendTag(g, wrong, protowire.EndGroupType)
	default: // inner never closed
		g = protowire.AppendTag(g, outer, protowire.EndGroupType)
	}
	pos := r.Intn(len(recs) + 1)
	out := Join(recs[:pos])
	out = append(out, g...)
	out = append(out, Join(recs[pos:])...)
	return out, true
}

// Mutate returns a (probably malformed) corruption of b.
func Mutate(r *rand.Rand, b []byte) []byte {
	out := append([]byte(nil), b...)
	switch r.Intn(8) {
	case 0: // truncate
		if len(out) > 0 {
			out = out[:r.Intn(len(out))]
		}
	case 1: // flip a byte
		if len(out) > 0 {
			out[r.Intn(len(out))] ^= byte(1 << uint(r.Intn(8)))
		}
	case 2: // overwrite a byte
		if len(out) > 0 {
			out[r.Intn(len(out))] = []byte{0x00, 0x80, 0xff, 0x7f, 0x03, 0x04, 0x07, 0x0b, 0x0c}[r.Intn(9)]
		}
	case 3: // insert token
		pos := r.Intn(len(out) + 1)
		tok := Tokens[r.Intn(len(Tokens))]
		out = append(out[:pos], append(append([]byte(nil), tok...), out[pos:]...)...)
	case 4: // delete a byte
		if len(out) > 0 {
			p := r.Intn(len(out))
			out = append(out[:p], out[p+1:]...)
		}
	case 5: // append garbage
		out = append(out, Tokens[r.Intn(len(Tokens))]...)
	case 6: // duplicate a slice
		if len(out) > 1 {
			i := r.Intn(len(out))
			j := i + r.Intn(len(out)-i)
			out = append(out[:j], append(append([]byte(nil), out[i:j]...), out[j:]...)...)
		}
	default: // big field number tag / reserved wire type
		out = append(out, [][]byte{{0x80, 0x80, 0x80, 0x80, 0x10}, {0x80, 0x80, 0x80, 0x80, 0x08, 0x00}, {0x0e}, {0x0f}, {0x00}, {0xf8, 0xff, 0xff, 0xff, 0x0f, 0x01}, {0xf8, 0xff, 0xff, 0xff, 0x7f, 0x01}, {0xff, 0xff, 0xff, 0xff, 0xff, 0xff, 0xff, 0xff, 0xff, 0x01}, {0xff, 0xff, 0xff, 0xff, 0xff, 0xff, 0xff, 0xff, 0xff, 0x7f}, {0x12, 0xff, 0xff, 0xff, 0xff, 0xff, 0xff, 0xff, 0xff, 0x7f}, {0x0a, 0xff, 0xff, 0xff, 0xff, 0xff, 0xff, 0xff, 0xff, 0xff, 0x01}}[r.Intn(11)]...)
	}
	return out
}

// Tokens is the alphabet for exhaustive short-sequence enumeration: tags of fields 1,2,3,16 with
// every wire type, small and boundary values, lengths, end-group tags.
var Tokens = [][]byte{
	{0x08}, {0x09}, {0x0a}, {0x0b}, {0x0c}, {0x0d}, {0x0e}, {0x0f},
	{0x10}, {0x11}, {0x12}, {0x13}, {0x14}, {0x15},
	{0x18}, {0x1a}, {0x1b}, {0x1c},
	{0x80, 0x01}, {0x82, 0x01}, {0x78}, {0x7a},
	{0x00}, {0x01}, {0x02}, {0x03}, {0x04}, {0x7f}, {0x80}, {0xff},
	{0x80, 0x00}, {0xff, 0xff, 0xff, 0xff, 0x0f},
	{0x01, 0x00, 0x00, 0x00}, {0x01, 0x00, 0x00, 0x00, 0x00, 0x00, 0x00, 0x00},
	{0x02, 0x08, 0x01}, {0x02, 0x10, 0x01}, {0x01, 0x08}, {0x03, 0x0a, 0x01, 0x61},
	{0x80, 0x80, 0x80, 0x80, 0x10}, {0xf8, 0xff, 0xff, 0xff, 0x0f},
}

func scalarIsVarint(kind string) bool {
	switch kind {
	case "fixed32", "sfixed32", "float", "fixed64", "sfixed64", "double", "string", "bytes":
		return false
	}
	return true
}

// isZeroValue: the record's value is the zero of its wire type (0 varint, all-zero fixed, empty bytes)
func isZeroValue(e Record) bool {
	switch e.Typ {
	case protowire.VarintType:
		v, n := protowire.ConsumeVarint(e.Val)
		return n > 0 && v == 0
	case protowire.Fixed32Type, protowire.Fixed64Type:
		for _, b := range e.Val {
			if b != 0 {
				return false
			}
		}
		return true
	case protowire.BytesType:
		p, n := protowire.ConsumeBytes(e.Val)
		return n > 0 && len(p) == 0
	}
	return false
}
