package gen

import (
	"fmt"
	"math/rand"
	"strings"

	"storj.io/picobuf/verifharness/schema"
)

const (
	castTS  = "storj.io/picobuf/picoconv.Timestamp"
	castDur = "storj.io/picobuf/picoconv.Duration"
)

func baseFile(idx int) *schema.File {
	name := fmt.Sprintf("f%02d", idx)
	return &schema.File{
		Path: name + ".proto", Package: name,
		GoPackage: "storj.io/picobuf/verifrun/fresh/" + name, GoName: name,
		Enums: []schema.Enum{{Name: "E", Names: []string{"Z", "A", "NEG", "BIG"}, Values: []int32{0, 1, -5, 2147483647}}},
		Messages: []schema.Message{
			{Name: "Leaf", Fields: []schema.Field{{Name: "v", Num: 1, Kind: "int32"}, {Name: "s", Num: 2, Kind: "string"}}},
			{Name: "AP", Always: true, Fields: []schema.Field{{Name: "v", Num: 1, Kind: "sint32"}, {Name: "l", Num: 3, Kind: "message", Ref: "Leaf"}}},
			{Name: "TS", Fields: []schema.Field{{Name: "seconds", Num: 1, Kind: "int64"}, {Name: "nanos", Num: 2, Kind: "int32"}}},
		},
	}
}

// AllShapes is the deterministic schema that instantiates every (kind × shape × option) branch of
// protoc-gen-pico at least once; it is generated, compiled and exercised on every run.
func AllShapes(idx int) *schema.File {
	f := baseFile(idx)
	num := int32(0)
	next := func() int32 { num++; return num }
	// Plain: every scalar, enum, message pointer, always-present message (field-level and message-level)
	plain := schema.Message{Name: "Plain"}
	for _, k := range schema.Scalars {
		plain.Fields = append(plain.Fields, schema.Field{Name: "p_" + k, Num: next(), Kind: k})
	}
	plain.Fields = append(plain.Fields,
		schema.Field{Name: "p_enum", Num: next(), Kind: "enum", Ref: "E"},
		schema.Field{Name: "p_msg", Num: next(), Kind: "message", Ref: "Leaf"},
		schema.Field{Name: "p_msg_always", Num: next(), Kind: "message", Ref: "Leaf", Always: true},
		schema.Field{Name: "p_ap", Num: next(), Kind: "message", Ref: "AP"},
		schema.Field{Name: "p_rec", Num: next(), Kind: "message", Ref: "Plain"},
		schema.Field{Name: "p_enum_opt_always", Num: next(), Kind: "enum", Ref: "E", Label: "optional", Always: true},
	)
	// Opt: optional of every scalar (declared in descending number order) + optional message + optional-always scalar
	opt := schema.Message{Name: "Opt"}
	for i, k := range schema.Scalars {
		opt.Fields = append(opt.Fields, schema.Field{Name: "o_" + k, Num: int32(100 - i), Kind: k, Label: "optional"})
	}
	opt.Fields = append(opt.Fields,
		schema.Field{Name: "o_msg", Num: 3, Kind: "message", Ref: "Leaf", Label: "optional"},
		schema.Field{Name: "o_str_always", Num: 4, Kind: "string", Label: "optional", Always: true},
		schema.Field{Name: "o_msg_always", Num: 5, Kind: "message", Ref: "Leaf", Label: "optional", Always: true},
	)
	// Rep: repeated of everything, capture, field 63
	rep := schema.Message{Name: "Rep", Capture: true}
	for i, k := range schema.Scalars {
		rep.Fields = append(rep.Fields, schema.Field{Name: "r_" + k, Num: int32(1 + i), Kind: k, Label: "repeated"})
	}
	rep.Fields = append(rep.Fields,
		schema.Field{Name: "r_enum", Num: 20, Kind: "enum", Ref: "E", Label: "repeated"},
		schema.Field{Name: "r_msg", Num: 21, Kind: "message", Ref: "Leaf", Label: "repeated"},
		schema.Field{Name: "r_msg_always", Num: 22, Kind: "message", Ref: "Leaf", Label: "repeated", Always: true},
		schema.Field{Name: "r_ap", Num: 23, Kind: "message", Ref: "AP", Label: "repeated"},
		schema.Field{Name: "r_rec", Num: 24, Kind: "message", Ref: "Rep", Label: "repeated"},
		schema.Field{Name: "r_str_always", Num: 25, Kind: "string", Label: "repeated", Always: true},
		schema.Field{Name: "r_u64_always", Num: 26, Kind: "uint64", Label: "repeated", Always: true},
		schema.Field{Name: "r_enum_always", Num: 27, Kind: "enum", Ref: "E", Label: "repeated", Always: true},
		schema.Field{Name: "r_bool_always", Num: 28, Kind: "bool", Label: "repeated", Always: true},
		schema.Field{Name: "r_sf32_always", Num: 29, Kind: "sfixed32", Label: "repeated", Always: true},
		schema.Field{Name: "last", Num: 63, Kind: "int32"},
	)
	// One: a oneof with every kind, a second oneof, regular fields around and between
	one := schema.Message{Name: "One"}
	one.Fields = append(one.Fields, schema.Field{Name: "before", Num: 1, Kind: "string"})
	for i, k := range schema.Scalars {
		one.Fields = append(one.Fields, schema.Field{Name: "c_" + k, Num: int32(10 + i), Kind: k, Oneof: "choice"})
	}
	one.Fields = append(one.Fields,
		schema.Field{Name: "c_enum", Num: 30, Kind: "enum", Ref: "E", Oneof: "choice"},
		schema.Field{Name: "c_msg", Num: 31, Kind: "message", Ref: "Leaf", Oneof: "choice"},
		schema.Field{Name: "c_rec", Num: 32, Kind: "message", Ref: "One", Oneof: "choice"},
		schema.Field{Name: "c_ap", Num: 33, Kind: "message", Ref: "AP", Oneof: "choice"},
		schema.Field{Name: "after", Num: 2047, Kind: "int32"},
		schema.Field{Name: "other_a", Num: 5, Kind: "int32", Oneof: "second"},
		// (26: between two members of `choice` — the members of the two oneofs interleave by number)
		schema.Field{Name: "other_b", Num: 26, Kind: "string", Oneof: "second"},
		// a third oneof: the generator must emit the wrapper types in a fixed order whatever the
		// number of oneofs (checked by running it several times)
		schema.Field{Name: "other_c", Num: 7, Kind: "bool", Oneof: "third"},
		schema.Field{Name: "other_d", Num: 8, Kind: "bytes", Oneof: "third"},
		schema.Field{Name: "middle", Num: 40, Kind: "bool"},
		// a regular field whose number lies BETWEEN two members of the oneof `choice` (24 < 27 < 30):
		// every member must be written at its own place in the ascending order
		schema.Field{Name: "between", Num: 27, Kind: "sint32"},
	)
	// Cast: picoconv in every position
	cast := schema.Message{Name: "Cast", Fields: []schema.Field{
		{Name: "ts", Num: 1, Kind: "message", Ref: "TS", Custom: "time.Time", Cast: castTS},
		{Name: "ts_always", Num: 2, Kind: "message", Ref: "TS", Custom: "time.Time", Cast: castTS, Always: true},
		{Name: "ts_rep", Num: 3, Kind: "message", Ref: "TS", Custom: "time.Time", Cast: castTS, Label: "repeated"},
		{Name: "ts_rep_always", Num: 4, Kind: "message", Ref: "TS", Custom: "time.Time", Cast: castTS, Label: "repeated", Always: true},
		{Name: "dur", Num: 5, Kind: "message", Ref: "TS", Custom: "time.Duration", Cast: castDur},
		{Name: "dur_always", Num: 6, Kind: "message", Ref: "TS", Custom: "time.Duration", Cast: castDur, Always: true},
		{Name: "dur_rep", Num: 7, Kind: "message", Ref: "TS", Custom: "time.Duration", Cast: castDur, Label: "repeated"},
		{Name: "dur_rep_always", Num: 8, Kind: "message", Ref: "TS", Custom: "time.Duration", Cast: castDur, Label: "repeated", Always: true},
		// custom-typed members of a oneof (pointers in the wrapper, like plain message members)
		{Name: "ts_one", Num: 9, Kind: "message", Ref: "TS", Custom: "time.Time", Cast: castTS, Oneof: "when"},
		{Name: "dur_one", Num: 10, Kind: "message", Ref: "TS", Custom: "time.Duration", Cast: castDur, Oneof: "when"},
	}}
	// Wide: large field numbers (1..5 tag bytes)
	wide := schema.Message{Name: "Wide", Fields: []schema.Field{
		{Name: "w1", Num: 15, Kind: "int32"}, {Name: "w2", Num: 16, Kind: "string"}, {Name: "w3", Num: 2048, Kind: "message", Ref: "Leaf"},
		{Name: "w4", Num: 1 << 21, Kind: "sint64", Label: "repeated"}, {Name: "w5", Num: 1 << 28, Kind: "bool", Label: "optional"},
		{Name: "w6", Num: 1<<29 - 1, Kind: "fixed32"}, {Name: "w7", Num: 1<<28 - 1, Kind: "map", MapKey: "string", MapVal: "int32"},
		{Name: "w8", Num: 19000, Kind: "bytes"},
	}}
	// Nest: nested declarations (messages two levels deep and an enum declared inside a message),
	// referenced from inside, from their parent and from a sibling top-level message
	f.Enums = append(f.Enums, schema.Enum{Parent: "Nest", Name: "Nest_Color", Names: []string{"NONE", "RED", "DEEP_NEG"}, Values: []int32{0, 1, -7}})
	nest := schema.Message{Name: "Nest", Fields: []schema.Field{
		{Name: "inner", Num: 1, Kind: "message", Ref: "Nest_Inner"},
		{Name: "inners", Num: 2, Kind: "message", Ref: "Nest_Inner", Label: "repeated"},
		{Name: "color", Num: 3, Kind: "enum", Ref: "Nest_Color"},
		{Name: "colors", Num: 4, Kind: "enum", Ref: "Nest_Color", Label: "repeated"},
		{Name: "deep", Num: 5, Kind: "message", Ref: "Nest_Inner_Deep"},
		{Name: "pick_inner", Num: 6, Kind: "message", Ref: "Nest_Inner", Oneof: "pick"},
		{Name: "pick_color", Num: 7, Kind: "enum", Ref: "Nest_Color", Oneof: "pick"},
		// a map field in a message that also has nested declarations: its synthetic entry type
		// comes first in nested_type, before Inner
		{Name: "lookup", Num: 8, Kind: "map", MapKey: "string", MapVal: "int32"},
	}}
	nestInner := schema.Message{Name: "Nest_Inner", Parent: "Nest", Fields: []schema.Field{
		{Name: "x", Num: 1, Kind: "sint64"},
		{Name: "deep", Num: 2, Kind: "message", Ref: "Nest_Inner_Deep", Label: "repeated"},
		{Name: "up", Num: 3, Kind: "message", Ref: "Nest"},
		{Name: "c", Num: 4, Kind: "enum", Ref: "Nest_Color", Label: "optional", Always: true},
		// a oneof declared in a NESTED message (its interface and wrapper types must be emitted too)
		{Name: "alt_x", Num: 5, Kind: "uint32", Oneof: "alt"},
		{Name: "alt_deep", Num: 6, Kind: "message", Ref: "Nest_Inner_Deep", Oneof: "alt"},
	}}
	nestDeep := schema.Message{Name: "Nest_Inner_Deep", Parent: "Nest_Inner", Capture: true, Fields: []schema.Field{
		{Name: "s", Num: 1, Kind: "string"},
		{Name: "m", Num: 2, Kind: "map", MapKey: "int32", MapVal: "bytes"},
		// three levels down, a reference back to the grandparent
		{Name: "top", Num: 3, Kind: "message", Ref: "Nest"},
	}}
	user := schema.Message{Name: "NestUser", Fields: []schema.Field{
		{Name: "i", Num: 1, Kind: "message", Ref: "Nest_Inner"},
		{Name: "d", Num: 2, Kind: "message", Ref: "Nest_Inner_Deep", Label: "repeated"},
		{Name: "col", Num: 3, Kind: "enum", Ref: "Nest_Color"},
	}}
	// Shape: a oneof member named like a nested message (`circle` / `Circle`): the wrapper type name
	// Shape_Circle is taken by the nested message, protogen renames the wrapper
	shape := schema.Message{Name: "Shape", Fields: []schema.Field{
		{Name: "circle", Num: 1, Kind: "message", Ref: "Shape_Circle", Oneof: "kind"},
		{Name: "side", Num: 2, Kind: "int32", Oneof: "kind"},
		{Name: "more", Num: 3, Kind: "message", Ref: "Shape_Circle", Label: "repeated"},
		// messages WITHOUT declared fields: a present-but-empty Ack must keep its presence, an
		// Envelope captures everything it is sent
		{Name: "ack", Num: 5, Kind: "message", Ref: "Ack"},
		{Name: "ack_opt", Num: 6, Kind: "message", Ref: "Ack", Label: "optional"},
		{Name: "env", Num: 7, Kind: "message", Ref: "Envelope"},
		{Name: "acks", Num: 9, Kind: "message", Ref: "Ack", Label: "repeated"},
		// a second nested message called Inner (Nest has one too) with DIFFERENT message options
		{Name: "sinner", Num: 8, Kind: "message", Ref: "Shape_Inner"},
	}}
	// CapOne: capture_unrecognized_fields together with a oneof, a repeated message, a map and the
	// highest field number a capturing message may have
	capOne := schema.Message{Name: "CapOne", Capture: true, Fields: []schema.Field{
		{Name: "a", Num: 1, Kind: "int32", Oneof: "o"},
		{Name: "b", Num: 2, Kind: "string", Oneof: "o"},
		{Name: "ls", Num: 3, Kind: "message", Ref: "Leaf", Label: "repeated"},
		{Name: "mm", Num: 4, Kind: "map", MapKey: "string", MapVal: "int32"},
		{Name: "hi", Num: 63, Kind: "int32"},
	}}
	// Ser: custom_serialize WITHOUT custom_type (the Go field keeps its default type)
	ser := schema.Message{Name: "Ser", Fields: []schema.Field{
		{Name: "raw", Num: 1, Kind: "bytes", Cast: "storj.io/picobuf/verifharness/customser.Raw"},
		{Name: "port", Num: 2, Kind: "uint32", Cast: "storj.io/picobuf/verifharness/customser.Port"},
		{Name: "more", Num: 3, Kind: "bytes", Label: "repeated", Cast: "storj.io/picobuf/verifharness/customser.Raw"},
	}}
	ack := schema.Message{Name: "Ack"}
	envelope := schema.Message{Name: "Envelope", Capture: true}
	shapeInner := schema.Message{Name: "Shape_Inner", Parent: "Shape", Capture: true, Fields: []schema.Field{
		{Name: "x", Num: 1, Kind: "int32"},
	}}
	// an enum declared inside a LEAF message (no nested message, no map field)
	f.Enums = append(f.Enums, schema.Enum{Parent: "Shape_Circle", Name: "Shape_Circle_Unit", Names: []string{"MM", "INCH"}, Values: []int32{0, 1}})
	shapeCircle := schema.Message{Name: "Shape_Circle", Parent: "Shape", Fields: []schema.Field{
		{Name: "r", Num: 1, Kind: "double"},
		{Name: "unit", Num: 2, Kind: "enum", Ref: "Shape_Circle_Unit"},
	}}
	// Tree: a recursive `repeated` always_present field ([]Tree is a valid Go type)
	tree := schema.Message{Name: "Tree", Fields: []schema.Field{
		{Name: "kids", Num: 1, Kind: "message", Ref: "Tree", Label: "repeated", Always: true},
		{Name: "v", Num: 2, Kind: "int32"},
	}}
	f.Messages = append(f.Messages, plain, opt, rep, one, cast, wide, nest, nestInner, nestDeep, user, capOne, ser, ack, envelope, shape, shapeCircle, shapeInner, tree)
	return f
}

// AllMaps holds the 180 map instantiations, 45 per message (field numbers stay below 64 so that
// two of the four can capture unrecognized fields).
func AllMaps(idx int) *schema.File {
	f := baseFile(idx)
	var cur *schema.Message
	n := 0
	for _, k := range schema.MapKeys {
		for _, v := range schema.Scalars {
			if n%45 == 0 {
				f.Messages = append(f.Messages, schema.Message{Name: fmt.Sprintf("Maps%d", n/45), Capture: (n/45)%2 == 1})
				cur = &f.Messages[len(f.Messages)-1]
			}
			cur.Fields = append(cur.Fields, schema.Field{Name: fmt.Sprintf("m_%s_%s", k, v), Num: int32(1 + n%45), Kind: "map", MapKey: k, MapVal: v})
			n++
		}
	}
	return f
}

var numPools = [][2]int32{{1, 15}, {1, 15}, {16, 63}, {16, 2047}, {2048, 1 << 21}, {1 << 21, 1<<29 - 1}}

// RandomSchema draws a schema from the grammar.
func RandomSchema(r *rand.Rand, idx int) *schema.File {
	f := baseFile(idx)
	nm := 2 + r.Intn(3)
	names := make([]string, nm)
	parents := make([]string, nm)
	for i := range names {
		names[i] = fmt.Sprintf("M%d", i)
		// sometimes declare the message INSIDE an earlier one (its Go name becomes Parent_Mi)
		if i > 0 && r.Intn(4) == 0 {
			parents[i] = names[r.Intn(i)]
			names[i] = parents[i] + "_" + names[i]
		}
	}
	// sometimes an enum is declared inside a message (also inside a leaf or a nested one); any
	// message of the file may use it
	enumRefs := []string{"E"}
	for mi := 0; mi < nm; mi++ {
		if r.Intn(3) == 0 {
			en := names[mi] + "_K"
			f.Enums = append(f.Enums, schema.Enum{Parent: names[mi], Name: en, Names: []string{"K_ZERO", "K_ONE", "K_NEG"}, Values: []int32{0, 1, -3}})
			enumRefs = append(enumRefs, en)
		}
	}
	for mi := 0; mi < nm; mi++ {
		m := schema.Message{Name: names[mi], Parent: parents[mi], Capture: r.Intn(3) == 0}
		nf := 1 + r.Intn(10)
		if r.Intn(12) == 0 {
			nf = 0 // a message without declared fields (an opaque envelope when it captures)
		}
		used := map[int32]bool{}
		pick := func() int32 {
			for {
				p := numPools[r.Intn(len(numPools))]
				if m.Capture {
					p = [2]int32{1, 63}
				}
				n := p[0] + int32(r.Int63n(int64(p[1]-p[0])+1))
				if !used[n] {
					used[n] = true
					return n
				}
			}
		}
		oneofs := []string{}
		if r.Intn(2) == 0 {
			oneofs = append(oneofs, "oa")
			if r.Intn(3) == 0 {
				oneofs = append(oneofs, "ob")
				if r.Intn(2) == 0 {
					oneofs = append(oneofs, "oc")
				}
			}
		}
		for fi := 0; fi < nf; fi++ {
			fd := schema.Field{Name: fmt.Sprintf("f%d", fi), Num: pick()}
			switch k := r.Intn(24); {
			case k < 15:
				fd.Kind = schema.Scalars[k]
			case k == 15 || k == 16:
				fd.Kind = "enum"
				fd.Ref = enumRefs[r.Intn(len(enumRefs))]
			case k == 17:
				fd.Kind = "map"
				fd.MapKey = schema.MapKeys[r.Intn(len(schema.MapKeys))]
				fd.MapVal = schema.Scalars[r.Intn(len(schema.Scalars))]
			case k == 18:
				fd.Kind = "message"
				fd.Ref = "TS"
				if r.Intn(2) == 0 {
					fd.Custom, fd.Cast = "time.Time", castTS
				} else {
					fd.Custom, fd.Cast = "time.Duration", castDur
				}
			default:
				fd.Kind = "message"
				fd.Ref = append([]string{"Leaf", "AP"}, names...)[r.Intn(2+nm)]
			}
			if fd.Kind != "map" {
				switch r.Intn(6) {
				case 0:
					fd.Label = "optional"
				case 1, 2:
					fd.Label = "repeated"
				}
			}
			// oneof membership: plain label, no map, no cast
			if fd.Label == "" && fd.Kind != "map" && fd.Cast == "" && len(oneofs) > 0 && r.Intn(2) == 0 {
				fd.Oneof = oneofs[r.Intn(len(oneofs))]
			}
			// always_present: never on a field whose struct type would then contain itself
			if fd.Oneof == "" && fd.Kind != "map" && r.Intn(5) == 0 {
				if fd.Kind != "message" || fd.Ref == "Leaf" || fd.Ref == "AP" || fd.Ref == "TS" {
					fd.Always = true
				}
			}
			// optional enum is only supported with always_present
			if fd.Kind == "enum" && fd.Label == "optional" {
				fd.Always = true
			}
			m.Fields = append(m.Fields, fd)
		}
		// members of one oneof must be declared consecutively: pull them to the first member's place
		var ordered []schema.Field
		done := map[string]bool{}
		for _, fd := range m.Fields {
			if fd.Oneof == "" {
				ordered = append(ordered, fd)
				continue
			}
			if done[fd.Oneof] {
				continue
			}
			done[fd.Oneof] = true
			for _, g := range m.Fields {
				if g.Oneof == fd.Oneof {
					ordered = append(ordered, g)
				}
			}
		}
		m.Fields = ordered
		// a oneof member named like a message declared inside this one: the wrapper type name
		// <Msg>_<Field> is then taken by the nested message (protogen renames the wrapper)
		for ci := mi + 1; ci < nm; ci++ {
			if parents[ci] != names[mi] || r.Intn(2) != 0 {
				continue
			}
			short := strings.ToLower(strings.TrimPrefix(names[ci], names[mi]+"_"))
			for i := range m.Fields {
				if m.Fields[i].Oneof != "" {
					m.Fields[i].Name = short
					break
				}
			}
			break
		}
		f.Messages = append(f.Messages, m)
	}
	return f
}

// Roots returns the message names worth exercising as top-level messages.
func Roots(f *schema.File) []string {
	var out []string
	for _, m := range f.Messages {
		if m.Name == "TS" {
			continue
		}
		out = append(out, m.Name)
	}
	return out
}
