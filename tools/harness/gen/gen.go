// Package gen holds the generators of the correspondence check: fresh schemas drawn from a grammar
// covering every branch of protoc-gen-pico, boundary-biased scalar values, message values.
// Every random choice comes from the *rand.Rand handed in (seeded from VERIF_SEED).
package gen

import (
	"fmt"
	"math"
	"math/rand"

	"storj.io/picobuf/verifharness/schema"
	"storj.io/picobuf/verifharness/val"
)

// ---------------------------------------------------------------------------------------------
// scalars

var edges64 = []uint64{0, 1, 2, 127, 128, 129, 255, 256, 16383, 16384, 1<<21 - 1, 1 << 21, 1<<28 - 1, 1 << 28,
	1<<31 - 1, 1 << 31, 1<<31 + 1, 1<<32 - 1, 1 << 32, 1<<35 - 1, 1 << 35, 1<<42 - 1, 1 << 42, 1<<49 - 1, 1 << 49,
	1<<56 - 1, 1 << 56, 1<<62 - 1, 1 << 62, 1<<63 - 1, 1 << 63, 1<<63 + 1, math.MaxUint64 - 1, math.MaxUint64,
	0x7FF0000000000000, 0xFFF0000000000000, 0x7FF8000000000001, 0x7FF0000000000001, 0x8000000000000000, 0x0000000000000001,
	0x3FF0000000000000, 0xBFF0000000000000}

var edges32 = []uint64{0, 1, 2, 63, 64, 127, 128, 129, 255, 256, 16383, 16384, 1<<21 - 1, 1 << 21, 1<<28 - 1, 1 << 28,
	1<<30 - 1, 1 << 30, 1<<30 + 1, 1<<31 - 1, 1 << 31, 1<<31 + 1, 0xC0000000, 0xBFFFFFFF, 0xFFFFFFFE, 0xFFFFFFFF,
	0x7F800000, 0xFF800000, 0x7FC00001, 0x7F800001, 0x80000000, 0x00000001, 0x3F800000, 0xFFFFFF80, 0xFFFFFF7F, 0xFFFFC000}

// Bits returns a boundary-biased bit pattern for a numeric scalar kind.
func Bits(r *rand.Rand, kind string) uint64 {
	switch kind {
	case "bool":
		return uint64(r.Intn(2))
	case "int32", "uint32", "sint32", "fixed32", "sfixed32", "float", "enum":
		switch r.Intn(10) {
		case 0, 1, 2, 3:
			return edges32[r.Intn(len(edges32))]
		case 4:
			return uint64(uint32(-int32(edges32[r.Intn(len(edges32))])))
		case 5:
			return uint64(r.Intn(300))
		case 6:
			return uint64(uint32(1) << uint(r.Intn(32)))
		default:
			return uint64(r.Uint32())
		}
	default:
		switch r.Intn(10) {
		case 0, 1, 2, 3:
			return edges64[r.Intn(len(edges64))]
		case 4:
			return uint64(-int64(edges64[r.Intn(len(edges64))]))
		case 5:
			return uint64(r.Intn(300))
		case 6:
			return uint64(1) << uint(r.Intn(64))
		default:
			return r.Uint64()
		}
	}
}

var sizeEdges = []int{0, 0, 1, 1, 2, 3, 5, 10, 126, 127, 128, 129, 130, 200}

// Size returns a payload size biased to length-prefix boundaries; big enables 16383/16384/2^21.
func Size(r *rand.Rand, big bool) int {
	if big && r.Intn(40) == 0 {
		return []int{16382, 16383, 16384, 16385, 1<<21 - 1, 1 << 21, 1<<21 + 1}[r.Intn(7)]
	}
	if r.Intn(60) == 0 {
		return []int{16381, 16382, 16383, 16384, 16385}[r.Intn(5)]
	}
	return sizeEdges[r.Intn(len(sizeEdges))]
}

var utf8Pieces = []string{"a", "b", "z", "0", " ", "\x00", "\x7f", "é", "ж", "€", "𝄞", "日本", "ÿ", "ࠀ", "￿"}

// Str returns valid UTF-8 of roughly the requested byte size.
func Str(r *rand.Rand, n int) []byte {
	var b []byte
	for len(b) < n {
		p := utf8Pieces[r.Intn(len(utf8Pieces))]
		if len(b)+len(p) > n {
			p = "x"
		}
		b = append(b, p...)
	}
	return b
}

// RawBytes returns arbitrary bytes.
func RawBytes(r *rand.Rand, n int) []byte {
	b := make([]byte, n)
	switch r.Intn(4) {
	case 0:
		// all zero
	case 1:
		for i := range b {
			b[i] = 0xff
		}
	default:
		r.Read(b)
	}
	return b
}

// Scalar returns a value of the given scalar kind.
func Scalar(r *rand.Rand, kind string, big bool) val.Val {
	switch kind {
	case "string":
		return val.Bs(Str(r, Size(r, big)))
	case "bytes":
		return val.Bs(RawBytes(r, Size(r, big)))
	}
	return val.N(Bits(r, kind))
}

// ZeroScalar is the zero value of the kind.
func ZeroScalar(kind string) val.Val {
	if kind == "string" || kind == "bytes" {
		return val.Bs(nil)
	}
	return val.N(0)
}

// ---------------------------------------------------------------------------------------------
// times

var secEdges = []int64{0, 1, -1, 59, 60, 86399, 86400, 1e9, -1e9, 1 << 31, -(1 << 31), 1<<31 - 1, 1 << 32, 253402300799, 253402300798,
	-62135596800, -62135596799, -62135596801 + 2, 4102444800, 10413792000, -2208988800, -9223372036, 9223372036, -9223372037 + 1, 9223372035}

// Time returns (sec, ns) within the range timestamppb considers valid (years 1..9999).
func Time(r *rand.Rand) (int64, int) {
	var s int64
	switch r.Intn(4) {
	case 0:
		s = secEdges[r.Intn(len(secEdges))]
	case 1:
		s = int64(r.Intn(4000000000)) - 2000000000
	default:
		s = -62135596800 + r.Int63n(253402300799+62135596800+1)
	}
	if s < -62135596800 {
		s = -62135596800
	}
	if s > 253402300799 {
		s = 253402300799
	}
	var n int
	switch r.Intn(5) {
	case 0:
		n = 0
	case 1:
		n = 999999999
	case 2:
		n = 1
	default:
		n = r.Intn(1000000000)
	}
	return s, n
}

var durEdges = []int64{0, 1, -1, 999999999, 1000000000, 1000000001, -999999999, -1000000000, -1000000001, math.MaxInt64, math.MinInt64,
	math.MaxInt64 - 1, math.MinInt64 + 1, 9223372036000000000, -9223372036000000000, 9223372035999999999, 1 << 31, -(1 << 31), 1 << 32, 1<<63 - 1000000000}

func Duration(r *rand.Rand) int64 {
	switch r.Intn(4) {
	case 0, 1:
		return durEdges[r.Intn(len(durEdges))]
	case 2:
		return int64(r.Intn(2000000000)) - 1000000000
	}
	return int64(r.Uint64())
}

// ---------------------------------------------------------------------------------------------
// message values

type ValOpts struct {
	Big      bool // allow 16 KiB / 2 MiB payloads
	MaxDepth int
	// Presence: probability (percent) that a presence-carrying slot is set to its default content
	DefaultContent int
	// QuietFloat32 turns signalling float32 NaNs into quiet ones (see elemVal)
	QuietFloat32 bool
	// Budget bounds the total size of a generated value (nodes + bytes/32); shared by the recursion.
	Budget *int
}

func (o ValOpts) spend(n int) bool {
	if o.Budget == nil {
		return true
	}
	*o.Budget -= n
	return *o.Budget > 0
}

func listLen(r *rand.Rand) int {
	switch r.Intn(8) {
	case 0, 1:
		return 0
	case 2, 3:
		return 1
	case 4:
		return 2
	case 5:
		return 3
	case 6:
		if r.Intn(2) == 0 {
			return 9 + r.Intn(24) // the lengths around one-byte / two-byte packed length prefixes for 5- and 10-byte elements
		}
		return 4 + r.Intn(5)
	default:
		return []int{31, 32, 42, 43, 127, 128}[r.Intn(6)]
	}
}

// Message returns a random well-typed value of message `name`.
func Message(r *rand.Rand, f *schema.File, name string, o ValOpts, depth int) val.Val {
	m := f.Msg(name)
	slots := make([]val.Val, len(m.Fields))
	// choose the selected member of each oneof
	chosen := map[string]int{}
	members := map[string][]int{}
	for i, fd := range m.Fields {
		if fd.Oneof != "" {
			members[fd.Oneof] = append(members[fd.Oneof], i)
		}
	}
	for g, ms := range members {
		if r.Intn(5) == 0 {
			chosen[g] = -1
		} else {
			chosen[g] = ms[r.Intn(len(ms))]
		}
	}
	for i := range m.Fields {
		fd := &m.Fields[i]
		sh := f.ShapeOf(fd)
		if fd.Oneof != "" {
			if chosen[fd.Oneof] != i {
				slots[i] = val.Nil()
				continue
			}
			shi := sh
			shi.Oneof = false
			inner := fieldVal(r, f, fd, shi, o, depth, true)
			if !shi.Pointer && shi.Cat == "message" && inner.String() == Zero(f, fd.Ref).String() {
				// a selected oneof member holding an always-present message with no content is
				// encoded as absent by design; keep such members non-empty
				inner = nonEmpty(f, fd.Ref, inner)
			}
			if shi.Pointer && inner.K == val.None {
				// domain: oneof wrappers hold non-nil messages
				inner = val.SomeOf(elemVal(r, f, fd, shi, o, depth, true))
			}
			slots[i] = val.SomeOf(inner)
			continue
		}
		slots[i] = fieldVal(r, f, fd, sh, o, depth, false)
	}
	var unrec []byte
	if m.Capture && r.Intn(3) == 0 {
		unrec = UnknownFields(r, m, 1+r.Intn(3))
	}
	return val.MsgOf(slots, unrec)
}

func wantDefault(r *rand.Rand, o ValOpts) bool { return r.Intn(100) < o.DefaultContent }

func elemVal(r *rand.Rand, f *schema.File, fd *schema.Field, sh schema.Shape, o ValOpts, depth int, presence bool) val.Val {
	switch sh.Cat {
	case "scalar":
		if wantDefault(r, o) || !o.spend(1) {
			return ZeroScalar(fd.Kind)
		}
		v := Scalar(r, fd.Kind, o.Big)
		o.spend(len(v.B) / 32)
		if fd.Kind == "float" && o.QuietFloat32 && v.N&0x7F800000 == 0x7F800000 && v.N&0x007FFFFF != 0 {
			// protobuf-go's reflection API carries float32 as float64, which quiets signalling NaNs;
			// signalling float32 NaNs are exercised where no reference value API is involved
			v.N |= 0x00400000
		}
		return v
	case "enum":
		if wantDefault(r, o) {
			return val.N(0)
		}
		if r.Intn(2) == 0 {
			return val.N([]uint64{0, 1, uint64(uint32(0xFFFFFFFB)), 0x7FFFFFFF}[r.Intn(4)])
		}
		return val.N(Bits(r, "enum"))
	case "message":
		if depth >= o.MaxDepth || wantDefault(r, o) || !o.spend(2) {
			return Zero(f, fd.Ref)
		}
		return Message(r, f, fd.Ref, o, depth+1)
	case "timestamp":
		s, n := Time(r)
		if s == -62135596800 && n == 0 {
			n = 1
		}
		return val.TimeCode(s, n)
	case "duration":
		return val.N(uint64(Duration(r)))
	}
	panic("elemVal " + sh.Cat)
}

func fieldVal(r *rand.Rand, f *schema.File, fd *schema.Field, sh schema.Shape, o ValOpts, depth int, presence bool) val.Val {
	if sh.Cat == "map" {
		if r.Intn(4) == 0 {
			return val.Nil()
		}
		n := []int{1, 1, 2, 2, 3, 5, 9}[r.Intn(7)]
		seen := map[string]bool{}
		var ks, vs []val.Val
		for i := 0; i < n; i++ {
			var k val.Val
			if i == 0 && r.Intn(2) == 0 || r.Intn(4) == 0 {
				k = ZeroScalar(fd.MapKey)
			} else {
				k = Scalar(r, fd.MapKey, false)
			}
			if seen[k.String()] {
				continue
			}
			seen[k.String()] = true
			var v val.Val
			if r.Intn(3) == 0 {
				v = ZeroScalar(fd.MapVal)
			} else {
				v = Scalar(r, fd.MapVal, false)
				if fd.MapVal == "float" && o.QuietFloat32 && v.N&0x7F800000 == 0x7F800000 && v.N&0x007FFFFF != 0 {
					v.N |= 0x00400000
				}
			}
			ks = append(ks, k)
			vs = append(vs, v)
		}
		// random order
		r.Shuffle(len(ks), func(i, j int) { ks[i], ks[j] = ks[j], ks[i]; vs[i], vs[j] = vs[j], vs[i] })
		return val.MapOf(ks, vs)
	}
	if sh.Repeated {
		n := listLen(r)
		if sh.Cat == "message" && n > 8 {
			n = 8
		}
		if depth >= o.MaxDepth && sh.Cat == "message" && n > 1 {
			n = 1
		}
		if o.Budget != nil && *o.Budget <= 0 {
			n = 0
		}
		es := make([]val.Val, n)
		// homogeneous lists: every element negative (10-byte varints for int32/int64/enum), so that packed
		// payloads cross the length-prefix classes with few elements
		allNeg := (sh.Cat == "scalar" || sh.Cat == "enum") && r.Intn(5) == 0
		for i := range es {
			e := elemVal(r, f, fd, sh, o, depth, false)
			if allNeg {
				switch fd.Kind {
				case "int32", "sint32", "sfixed32", "enum":
					e.N |= 1 << 31
				case "int64", "sint64", "sfixed64":
					e.N |= 1 << 63
				}
			}
			if sh.Pointer && sh.Cat != "message" {
				e = val.SomeOf(e)
			}
			es[i] = e
		}
		return val.ListOf(es)
	}
	if sh.Pointer {
		if r.Intn(3) == 0 {
			return val.Nil()
		}
		return val.SomeOf(elemVal(r, f, fd, sh, o, depth, true))
	}
	if sh.Cat == "timestamp" && r.Intn(4) == 0 {
		return val.TimeCode(-62135596800, 0) // zero time: absent by design
	}
	if sh.Cat == "scalar" || sh.Cat == "enum" {
		if r.Intn(4) == 0 {
			return elemValZero(fd, sh)
		}
	}
	return elemVal(r, f, fd, sh, o, depth, presence)
}

func elemValZero(fd *schema.Field, sh schema.Shape) val.Val {
	if sh.Cat == "enum" {
		return val.N(0)
	}
	return ZeroScalar(fd.Kind)
}

// Zero is the value of new(T) for message `name`.
func Zero(f *schema.File, name string) val.Val {
	m := f.Msg(name)
	slots := make([]val.Val, len(m.Fields))
	for i := range m.Fields {
		fd := &m.Fields[i]
		sh := f.ShapeOf(fd)
		switch {
		case fd.Oneof != "":
			slots[i] = val.Nil()
		case sh.Cat == "map":
			slots[i] = val.Nil()
		case sh.Repeated:
			slots[i] = val.ListOf(nil)
		case sh.Pointer:
			slots[i] = val.Nil()
		case sh.Cat == "message":
			slots[i] = Zero(f, fd.Ref)
		case sh.Cat == "timestamp":
			slots[i] = val.TimeCode(-62135596800, 0)
		case sh.Cat == "duration":
			slots[i] = val.N(0)
		case sh.Cat == "enum":
			slots[i] = val.N(0)
		default:
			slots[i] = ZeroScalar(fd.Kind)
		}
	}
	return val.MsgOf(slots, nil)
}

var _ = fmt.Sprintf

// nonEmpty sets the first plain numeric scalar slot of a zero message value to 1.
func nonEmpty(f *schema.File, name string, v val.Val) val.Val {
	m := f.Msg(name)
	for i := range m.Fields {
		fd := &m.Fields[i]
		sh := f.ShapeOf(fd)
		if sh.Cat == "scalar" && !sh.Pointer && !sh.Repeated && fd.Oneof == "" && fd.Kind != "string" && fd.Kind != "bytes" {
			v.Elems[i] = val.N(1)
			return v
		}
	}
	return v
}
