package schema

import (
	"bytes"
	"fmt"
	"os"
	"os/exec"
	"strings"

	"google.golang.org/protobuf/encoding/protowire"
	"google.golang.org/protobuf/proto"
	"google.golang.org/protobuf/reflect/protodesc"
	"google.golang.org/protobuf/reflect/protoreflect"
	"google.golang.org/protobuf/reflect/protoregistry"
	"google.golang.org/protobuf/types/descriptorpb"
	"google.golang.org/protobuf/types/pluginpb"
)

func s(x string) *string { return &x }
func i32(x int32) *int32 { return &x }

var lblOpt = descriptorpb.FieldDescriptorProto_LABEL_OPTIONAL
var lblRep = descriptorpb.FieldDescriptorProto_LABEL_REPEATED

var typeOf = map[string]descriptorpb.FieldDescriptorProto_Type{
	"bool": descriptorpb.FieldDescriptorProto_TYPE_BOOL, "int32": descriptorpb.FieldDescriptorProto_TYPE_INT32,
	"int64": descriptorpb.FieldDescriptorProto_TYPE_INT64, "uint32": descriptorpb.FieldDescriptorProto_TYPE_UINT32,
	"uint64": descriptorpb.FieldDescriptorProto_TYPE_UINT64, "sint32": descriptorpb.FieldDescriptorProto_TYPE_SINT32,
	"sint64": descriptorpb.FieldDescriptorProto_TYPE_SINT64, "fixed32": descriptorpb.FieldDescriptorProto_TYPE_FIXED32,
	"fixed64": descriptorpb.FieldDescriptorProto_TYPE_FIXED64, "sfixed32": descriptorpb.FieldDescriptorProto_TYPE_SFIXED32,
	"sfixed64": descriptorpb.FieldDescriptorProto_TYPE_SFIXED64, "float": descriptorpb.FieldDescriptorProto_TYPE_FLOAT,
	"double": descriptorpb.FieldDescriptorProto_TYPE_DOUBLE, "string": descriptorpb.FieldDescriptorProto_TYPE_STRING,
	"bytes": descriptorpb.FieldDescriptorProto_TYPE_BYTES, "enum": descriptorpb.FieldDescriptorProto_TYPE_ENUM,
	"message": descriptorpb.FieldDescriptorProto_TYPE_MESSAGE,
}

func fieldOpts(always bool, ctype, cser string) *descriptorpb.FieldOptions {
	if !always && ctype == "" && cser == "" {
		return nil
	}
	var inner []byte
	if always {
		inner = protowire.AppendTag(inner, 1, protowire.VarintType)
		inner = protowire.AppendVarint(inner, 1)
	}
	if ctype != "" {
		inner = protowire.AppendTag(inner, 2, protowire.BytesType)
		inner = protowire.AppendString(inner, ctype)
	}
	if cser != "" {
		inner = protowire.AppendTag(inner, 3, protowire.BytesType)
		inner = protowire.AppendString(inner, cser)
	}
	fo := &descriptorpb.FieldOptions{}
	raw := protowire.AppendTag(nil, 28980, protowire.BytesType)
	raw = protowire.AppendBytes(raw, inner)
	fo.ProtoReflect().SetUnknown(raw)
	return fo
}

func msgOpts(always, capture bool) *descriptorpb.MessageOptions {
	if !always && !capture {
		return nil
	}
	var inner []byte
	if always {
		inner = append(inner, 0x08, 1)
	}
	if capture {
		inner = append(inner, 0x10, 1)
	}
	mo := &descriptorpb.MessageOptions{}
	raw := protowire.AppendTag(nil, 28980, protowire.BytesType)
	raw = protowire.AppendBytes(raw, inner)
	mo.ProtoReflect().SetUnknown(raw)
	return mo
}

// PicoFile is pico.proto as a descriptor (hand-built; there is no protoc in the sandbox).
func PicoFile() *descriptorpb.FileDescriptorProto {
	tBool := descriptorpb.FieldDescriptorProto_TYPE_BOOL
	tStr := descriptorpb.FieldDescriptorProto_TYPE_STRING
	tMsg := descriptorpb.FieldDescriptorProto_TYPE_MESSAGE
	return &descriptorpb.FileDescriptorProto{
		Name: s("pico.proto"), Package: s("pico"), Syntax: s("proto3"),
		Dependency: []string{"google/protobuf/descriptor.proto"},
		Options:    &descriptorpb.FileOptions{GoPackage: s("storj.io/picobuf;main")},
		MessageType: []*descriptorpb.DescriptorProto{
			{Name: s("MessageOptions"), Field: []*descriptorpb.FieldDescriptorProto{
				{Name: s("always_present"), Number: i32(1), Label: &lblOpt, Type: &tBool, JsonName: s("alwaysPresent")},
				{Name: s("capture_unrecognized_fields"), Number: i32(2), Label: &lblOpt, Type: &tBool, JsonName: s("captureUnrecognizedFields")},
			}},
			{Name: s("FieldOptions"), Field: []*descriptorpb.FieldDescriptorProto{
				{Name: s("always_present"), Number: i32(1), Label: &lblOpt, Type: &tBool, JsonName: s("alwaysPresent")},
				{Name: s("custom_type"), Number: i32(2), Label: &lblOpt, Type: &tStr, JsonName: s("customType")},
				{Name: s("custom_serialize"), Number: i32(3), Label: &lblOpt, Type: &tStr, JsonName: s("customSerialize")},
			}},
		},
		Extension: []*descriptorpb.FieldDescriptorProto{
			{Name: s("message"), Number: i32(28980), Label: &lblOpt, Type: &tMsg, TypeName: s(".pico.MessageOptions"), Extendee: s(".google.protobuf.MessageOptions"), JsonName: s("message")},
			{Name: s("field"), Number: i32(28980), Label: &lblOpt, Type: &tMsg, TypeName: s(".pico.FieldOptions"), Extendee: s(".google.protobuf.FieldOptions"), JsonName: s("field")},
		},
	}
}

func jsonName(n string) string {
	var b strings.Builder
	up := false
	for _, c := range n {
		if c == '_' {
			up = true
			continue
		}
		if up && c >= 'a' && c <= 'z' {
			c -= 32
		}
		up = false
		b.WriteRune(c)
	}
	return b.String()
}

func camel(n string) string {
	j := jsonName(n)
	if j == "" {
		return j
	}
	return strings.ToUpper(j[:1]) + j[1:]
}

// Descriptor turns the file into a FileDescriptorProto (with pico options as raw extension bytes).
func (f *File) Descriptor() *descriptorpb.FileDescriptorProto {
	fdp := &descriptorpb.FileDescriptorProto{
		Name: s(f.Path), Package: s(f.Package), Syntax: s("proto3"),
		Dependency: []string{"pico.proto"},
	}
	gp := f.GoPackage
	if f.GoName != "" {
		gp += ";" + f.GoName
	}
	if gp != "" {
		fdp.Options = &descriptorpb.FileOptions{GoPackage: s(gp)}
	}
	nestedEnums := map[string][]*descriptorpb.EnumDescriptorProto{}
	for _, e := range f.Enums {
		ed := &descriptorpb.EnumDescriptorProto{Name: s(strings.TrimPrefix(e.Name, e.Parent+"_"))}
		if e.Parent == "" {
			ed.Name = s(e.Name)
		}
		for i := range e.Names {
			ed.Value = append(ed.Value, &descriptorpb.EnumValueDescriptorProto{Name: s(e.Names[i]), Number: i32(e.Values[i])})
		}
		if e.Parent == "" {
			fdp.EnumType = append(fdp.EnumType, ed)
		} else {
			nestedEnums[e.Parent] = append(nestedEnums[e.Parent], ed)
		}
	}
	built := map[string]*descriptorpb.DescriptorProto{}
	pkgDot := "."
	if f.Package != "" {
		pkgDot = "." + f.Package + "."
	}
	for _, m := range f.Messages {
		md := &descriptorpb.DescriptorProto{Name: s(m.ProtoName()), Options: msgOpts(m.Always, m.Capture)}
		md.EnumType = nestedEnums[m.Name]
		built[m.Name] = md
		oneofs := map[string]int32{}
		for _, fd := range m.Fields {
			if fd.Oneof != "" {
				if _, ok := oneofs[fd.Oneof]; !ok {
					oneofs[fd.Oneof] = int32(len(md.OneofDecl))
					md.OneofDecl = append(md.OneofDecl, &descriptorpb.OneofDescriptorProto{Name: s(fd.Oneof)})
				}
			}
		}
		for _, fd := range m.Fields {
			d := &descriptorpb.FieldDescriptorProto{Name: s(fd.Name), Number: i32(fd.Num), JsonName: s(jsonName(fd.Name)),
				Options: fieldOpts(fd.Always, fd.Custom, fd.Cast)}
			d.Label = &lblOpt
			if fd.Label == "repeated" {
				d.Label = &lblRep
			}
			switch fd.Kind {
			case "map":
				entryName := camel(fd.Name) + "Entry"
				kt, vt := typeOf[fd.MapKey], typeOf[fd.MapVal]
				entry := &descriptorpb.DescriptorProto{Name: s(entryName), Options: &descriptorpb.MessageOptions{MapEntry: proto.Bool(true)},
					Field: []*descriptorpb.FieldDescriptorProto{
						{Name: s("key"), Number: i32(1), Label: &lblOpt, Type: &kt, JsonName: s("key")},
						{Name: s("value"), Number: i32(2), Label: &lblOpt, Type: &vt, JsonName: s("value")},
					}}
				md.NestedType = append(md.NestedType, entry)
				t := descriptorpb.FieldDescriptorProto_TYPE_MESSAGE
				d.Type = &t
				d.Label = &lblRep
				d.TypeName = s(pkgDot + f.ProtoPath(m.Name) + "." + entryName)
			case "enum", "message":
				t := typeOf[fd.Kind]
				d.Type = &t
				d.TypeName = s(pkgDot + f.ProtoPath(fd.Ref))
			default:
				t := typeOf[fd.Kind]
				d.Type = &t
			}
			if fd.Oneof != "" {
				d.OneofIndex = i32(oneofs[fd.Oneof])
			}
			if fd.Label == "optional" {
				d.Proto3Optional = proto.Bool(true)
			}
			md.Field = append(md.Field, d)
		}
		for _, d := range md.Field {
			if d.GetProto3Optional() {
				idx := int32(len(md.OneofDecl))
				md.OneofDecl = append(md.OneofDecl, &descriptorpb.OneofDescriptorProto{Name: s("_" + d.GetName())})
				d.OneofIndex = i32(idx)
			}
		}
		if m.Parent == "" {
			fdp.MessageType = append(fdp.MessageType, md)
		} else if p := built[m.Parent]; p != nil {
			// the enclosing message is declared earlier in f.Messages
			p.NestedType = append(p.NestedType, md)
		} else {
			panic("schema: message " + m.Name + " is declared before its parent " + m.Parent)
		}
	}
	return fdp
}

// Resolve builds protoreflect descriptors for the reference implementation (dynamicpb).
func (f *File) Resolve() (protoreflect.FileDescriptor, error) {
	files := &protoregistry.Files{}
	descFile := protodesc.ToFileDescriptorProto(descriptorpb.File_google_protobuf_descriptor_proto)
	for _, fp := range []*descriptorpb.FileDescriptorProto{descFile, PicoFile(), f.Descriptor()} {
		fd, err := protodesc.NewFile(fp, files)
		if err != nil {
			return nil, fmt.Errorf("%s: %w", fp.GetName(), err)
		}
		if err := files.RegisterFile(fd); err != nil {
			return nil, err
		}
		if fp.GetName() == f.Path {
			return fd, nil
		}
	}
	return nil, fmt.Errorf("unreachable")
}

// RunPlugin pipes a CodeGeneratorRequest for the file into the given protoc-gen-pico binary and
// returns the generated file contents by name.
func (f *File) RunPlugin(pluginPath string) (map[string]string, error) {
	return f.RunPluginWith(pluginPath, "paths=source_relative", 3, 21, 12)
}

// RunPluginWith is RunPlugin with an explicit plugin parameter and reported protoc version.
func (f *File) RunPluginWith(pluginPath, param string, major, minor, patch int32) (map[string]string, error) {
	descFile := protodesc.ToFileDescriptorProto(descriptorpb.File_google_protobuf_descriptor_proto)
	req := &pluginpb.CodeGeneratorRequest{
		FileToGenerate:  []string{f.Path},
		Parameter:       s(param),
		ProtoFile:       []*descriptorpb.FileDescriptorProto{descFile, PicoFile(), f.Descriptor()},
		CompilerVersion: &pluginpb.Version{Major: i32(major), Minor: i32(minor), Patch: i32(patch)},
	}
	in, err := proto.Marshal(req)
	if err != nil {
		return nil, err
	}
	cmd := exec.Command(pluginPath)
	cmd.Stdin = bytes.NewReader(in)
	var out, errb bytes.Buffer
	cmd.Stdout = &out
	cmd.Stderr = &errb
	if err := cmd.Run(); err != nil {
		return nil, fmt.Errorf("plugin failed: %v: %s", err, tail(errb.String()))
	}
	var resp pluginpb.CodeGeneratorResponse
	if err := proto.Unmarshal(out.Bytes(), &resp); err != nil {
		return nil, err
	}
	if resp.GetError() != "" {
		return nil, fmt.Errorf("plugin error: %s", resp.GetError())
	}
	res := map[string]string{}
	for _, gf := range resp.File {
		res[gf.GetName()] = gf.GetContent()
	}
	return res, nil
}

func tail(s string) string {
	if len(s) > 600 {
		return s[:600]
	}
	return s
}

var _ = os.Stderr

// ImportPair builds two files, dep/dep.proto and imp/imp.proto (imp imports dep; different Go
// packages under goBase), and runs the plugin on both. imp uses dep's enum and message as singular,
// repeated, optional and oneof fields, and declares a local enum with the SAME name as the imported
// one. Returns generated file name -> content.
func ImportPair(pluginPath, goBase string) (map[string]string, error) {
	return ImportGroup(pluginPath, goBase, "paths=source_relative")
}

// ImportGroup is ImportPair with an explicit plugin parameter (output file NAMES depend on
// `paths=` / `module=`). The group also holds only/only.proto, a file with nothing but an enum,
// imported by imp.
func ImportGroup(pluginPath, goBase, param string) (map[string]string, error) {
	lbl, rep := descriptorpb.FieldDescriptorProto_LABEL_OPTIONAL, descriptorpb.FieldDescriptorProto_LABEL_REPEATED
	tEnum, tMsg, tI32 := descriptorpb.FieldDescriptorProto_TYPE_ENUM, descriptorpb.FieldDescriptorProto_TYPE_MESSAGE, descriptorpb.FieldDescriptorProto_TYPE_INT32
	level := func(name string) *descriptorpb.EnumDescriptorProto {
		return &descriptorpb.EnumDescriptorProto{Name: s(name), Value: []*descriptorpb.EnumValueDescriptorProto{
			{Name: s(name + "_LOW"), Number: i32(0)}, {Name: s(name + "_HIGH"), Number: i32(1)}}}
	}
	dep := &descriptorpb.FileDescriptorProto{Name: s("dep/dep.proto"), Package: s("dep"), Syntax: s("proto3"),
		Dependency: []string{"pico.proto"},
		Options:    &descriptorpb.FileOptions{GoPackage: s(goBase + "/dep")},
		EnumType: []*descriptorpb.EnumDescriptorProto{level("Level"),
			// two names for one number (allow_alias): String() must still compile and name the value
			{Name: s("Al"), Options: &descriptorpb.EnumOptions{AllowAlias: proto.Bool(true)}, Value: []*descriptorpb.EnumValueDescriptorProto{
				{Name: s("AL_ZERO"), Number: i32(0)}, {Name: s("AL_ONE"), Number: i32(1)}, {Name: s("AL_UNO"), Number: i32(1)}}}},
		MessageType: []*descriptorpb.DescriptorProto{{Name: s("Ext"), Field: []*descriptorpb.FieldDescriptorProto{
			{Name: s("v"), Number: i32(1), Label: &lbl, Type: &tI32, JsonName: s("v")},
			{Name: s("l"), Number: i32(2), Label: &lbl, Type: &tEnum, TypeName: s(".dep.Level"), JsonName: s("l")}}}},
	}
	only := &descriptorpb.FileDescriptorProto{Name: s("only/only.proto"), Package: s("only"), Syntax: s("proto3"),
		Options:  &descriptorpb.FileOptions{GoPackage: s(goBase + "/only")},
		EnumType: []*descriptorpb.EnumDescriptorProto{level("Grade")},
	}
	localLevel := &descriptorpb.EnumDescriptorProto{Name: s("Level"), Value: []*descriptorpb.EnumValueDescriptorProto{
		{Name: s("LOCAL_NONE"), Number: i32(0)}, {Name: s("LOCAL_SOME"), Number: i32(5)}}}
	user := &descriptorpb.DescriptorProto{Name: s("User"),
		OneofDecl: []*descriptorpb.OneofDescriptorProto{{Name: s("o")}, {Name: s("_opt")}},
		Field: []*descriptorpb.FieldDescriptorProto{
			{Name: s("lvl"), Number: i32(1), Label: &lbl, Type: &tEnum, TypeName: s(".dep.Level"), JsonName: s("lvl")},
			{Name: s("lvls"), Number: i32(2), Label: &rep, Type: &tEnum, TypeName: s(".dep.Level"), JsonName: s("lvls")},
			{Name: s("ext"), Number: i32(3), Label: &lbl, Type: &tMsg, TypeName: s(".dep.Ext"), JsonName: s("ext")},
			{Name: s("exts"), Number: i32(4), Label: &rep, Type: &tMsg, TypeName: s(".dep.Ext"), JsonName: s("exts")},
			{Name: s("ol"), Number: i32(5), Label: &lbl, Type: &tEnum, TypeName: s(".dep.Level"), OneofIndex: i32(0), JsonName: s("ol")},
			{Name: s("oe"), Number: i32(6), Label: &lbl, Type: &tMsg, TypeName: s(".dep.Ext"), OneofIndex: i32(0), JsonName: s("oe")},
			{Name: s("mine"), Number: i32(7), Label: &lbl, Type: &tEnum, TypeName: s(".imp.Level"), JsonName: s("mine")},
			{Name: s("opt"), Number: i32(8), Label: &lbl, Type: &tMsg, TypeName: s(".dep.Ext"), OneofIndex: i32(1), Proto3Optional: proto.Bool(true), JsonName: s("opt")},
			{Name: s("grade"), Number: i32(9), Label: &lbl, Type: &tEnum, TypeName: s(".only.Grade"), JsonName: s("grade")},
		}}
	imp := &descriptorpb.FileDescriptorProto{Name: s("imp/imp.proto"), Package: s("imp"), Syntax: s("proto3"),
		Dependency:  []string{"pico.proto", "dep/dep.proto", "only/only.proto"},
		Options:     &descriptorpb.FileOptions{GoPackage: s(goBase + "/imp")},
		EnumType:    []*descriptorpb.EnumDescriptorProto{localLevel},
		MessageType: []*descriptorpb.DescriptorProto{user},
	}
	descFile := protodesc.ToFileDescriptorProto(descriptorpb.File_google_protobuf_descriptor_proto)
	req := &pluginpb.CodeGeneratorRequest{
		FileToGenerate:  []string{"dep/dep.proto", "only/only.proto", "imp/imp.proto"},
		Parameter:       s(param),
		ProtoFile:       []*descriptorpb.FileDescriptorProto{descFile, PicoFile(), dep, only, imp},
		CompilerVersion: &pluginpb.Version{Major: i32(3), Minor: i32(21), Patch: i32(12)},
	}
	in, err := proto.Marshal(req)
	if err != nil {
		return nil, err
	}
	cmd := exec.Command(pluginPath)
	cmd.Stdin = bytes.NewReader(in)
	var out, errb bytes.Buffer
	cmd.Stdout = &out
	cmd.Stderr = &errb
	if err := cmd.Run(); err != nil {
		return nil, fmt.Errorf("plugin failed: %v: %s", err, tail(errb.String()))
	}
	var resp pluginpb.CodeGeneratorResponse
	if err := proto.Unmarshal(out.Bytes(), &resp); err != nil {
		return nil, err
	}
	if resp.GetError() != "" {
		return nil, fmt.Errorf("plugin error: %s", resp.GetError())
	}
	res := map[string]string{}
	for _, gf := range resp.File {
		res[gf.GetName()] = gf.GetContent()
	}
	return res, nil
}

// ImportAssertions: compile-time checks (package imp) that the fields of imp.User referring to dep's
// declarations have dep's types — not a same-named local one.
const ImportAssertions = `package imp

import (
	dep "%[1]s/dep"
	only "%[1]s/only"
)

var (
	_ dep.Level   = (&User{}).Lvl
	_ []dep.Level = (&User{}).Lvls
	_ *dep.Ext    = (&User{}).Ext
	_ []*dep.Ext  = (&User{}).Exts
	_ dep.Level   = (&User_Ol{}).Ol
	_ *dep.Ext    = (&User_Oe{}).Oe
	_ Level       = (&User{}).Mine
	_ *dep.Ext    = (&User{}).Opt
	_             = dep.Al_AL_UNO.String()
	_ only.Grade  = (&User{}).Grade
)
`
