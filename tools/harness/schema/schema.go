// Package schema is the harness's own, independent representation of the proto3 subset that
// protoc-gen-pico supports. The same value is turned into (a) a FileDescriptorProto that drives
// the working-tree protoc-gen-pico and the reference implementation (dynamicpb), (b) a line of
// text for the Lean model, (c) the guide for the reflect bridge onto generated Go structs.
package schema

import (
	"fmt"
	"sort"
	"strings"
)

// Scalars lists the 15 scalar kinds in the order used everywhere (Lean `Scalar` too).
var Scalars = []string{"bool", "int32", "int64", "uint32", "uint64", "sint32", "sint64",
	"fixed32", "fixed64", "sfixed32", "sfixed64", "float", "double", "string", "bytes"}

// MapKeys lists the 12 kinds allowed as map keys.
var MapKeys = []string{"bool", "int32", "int64", "uint32", "uint64", "sint32", "sint64",
	"fixed32", "fixed64", "sfixed32", "sfixed64", "string"}

func IsScalar(k string) bool {
	for _, s := range Scalars {
		if s == k {
			return true
		}
	}
	return false
}

// Field is one declared field.
type Field struct {
	Name   string
	Num    int32
	Kind   string // one of Scalars, or "enum", "message", "map"
	Ref    string // message or enum name for Kind enum/message
	MapKey string // for Kind map
	MapVal string // for Kind map (scalar only; the generator rejects others)
	Label  string // "", "optional", "repeated"
	Oneof  string // name of the real oneof, or ""
	Always bool   // (pico.field).always_present
	Custom string // (pico.field).custom_type
	Cast   string // (pico.field).custom_serialize
}

// Message is one message declaration (flat: no nested declarations).
type Message struct {
	Name    string
	Fields  []Field
	Capture bool // (pico.message).capture_unrecognized_fields
	Always  bool // (pico.message).always_present
	// Parent is the Name of the message this one is declared INSIDE ("" = top level). Name is always
	// the Go type name, which for a nested declaration is Parent + "_" + the proto name.
	Parent string
}

// ProtoName is the name in the .proto declaration (without the enclosing messages).
func (m *Message) ProtoName() string {
	if m.Parent == "" {
		return m.Name
	}
	return strings.TrimPrefix(m.Name, m.Parent+"_")
}

// ProtoPath maps a Go type name of this file ("Outer_Inner") to its dotted proto path ("Outer.Inner").
func (f *File) ProtoPath(goName string) string {
	if m := f.Msg(goName); m != nil && m.Parent != "" {
		return f.ProtoPath(m.Parent) + "." + m.ProtoName()
	}
	for i := range f.Enums {
		if f.Enums[i].Name == goName && f.Enums[i].Parent != "" {
			return f.ProtoPath(f.Enums[i].Parent) + "." + strings.TrimPrefix(goName, f.Enums[i].Parent+"_")
		}
	}
	return goName
}

// Enum is one enum declaration.
type Enum struct {
	Parent string // Name of the enclosing message ("" = top level); Name = Parent + "_" + proto name
	Name   string
	Names  []string
	Values []int32
}

// File is one .proto file.
type File struct {
	Path      string // e.g. "fresh.proto"
	Package   string
	GoPackage string // import path of generated code
	GoName    string // Go package name
	Enums     []Enum
	Messages  []Message
}

func (f *File) Msg(name string) *Message {
	for i := range f.Messages {
		if f.Messages[i].Name == name {
			return &f.Messages[i]
		}
	}
	return nil
}

func (f *File) MsgIndex(name string) int {
	for i := range f.Messages {
		if f.Messages[i].Name == name {
			return i
		}
	}
	return -1
}

// Shape is how the generator lays the field out in Go ("fieldInfo" of protoc-gen-pico,
// re-derived here from the documented behaviour; the reflect bridge fails loudly if the
// generated struct disagrees).
type Shape struct {
	Pointer  bool
	Repeated bool
	Oneof    bool
	// Cat: "scalar", "enum", "message", "map", "timestamp", "duration", "customother"
	Cat string
}

// MsgAlways reports whether message `name` is declared always_present.
func (f *File) MsgAlways(name string) bool {
	m := f.Msg(name)
	return m != nil && m.Always
}

func (f *File) ShapeOf(fd *Field) Shape {
	var s Shape
	s.Repeated = fd.Label == "repeated"
	s.Oneof = fd.Oneof != ""
	switch fd.Kind {
	case "message":
		s.Cat = "message"
		s.Pointer = !s.Repeated || true
		s.Pointer = true
		if f.MsgAlways(fd.Ref) {
			s.Pointer = false
		}
	case "map":
		s.Cat = "map"
	case "enum":
		s.Cat = "enum"
		s.Pointer = fd.Label == "optional"
	default:
		s.Cat = "scalar"
		s.Pointer = fd.Label == "optional"
	}
	if s.Pointer && s.Cat != "message" && s.Oneof {
		s.Pointer = false
	}
	if fd.Always {
		s.Pointer = false
	}
	switch {
	case fd.Cast == "storj.io/picobuf/picoconv.Timestamp":
		s.Cat = "timestamp"
	case fd.Cast == "storj.io/picobuf/picoconv.Duration":
		s.Cat = "duration"
	case fd.Cast != "" || fd.Custom != "":
		s.Cat = "customother"
	}
	return s
}

// Sorted returns the fields in ascending number order (stable).
func (m *Message) Sorted() []Field {
	out := append([]Field(nil), m.Fields...)
	sort.SliceStable(out, func(i, j int) bool { return out[i].Num < out[j].Num })
	return out
}

// HasCustomOther reports whether the message (not transitively) uses a custom type the model does
// not cover (test-only pic.* types).
func (f *File) HasCustomOther(m *Message) bool {
	for i := range m.Fields {
		if f.ShapeOf(&m.Fields[i]).Cat == "customother" {
			return true
		}
	}
	return false
}

// Reachable returns the names of messages reachable from root (including root).
func (f *File) Reachable(root string) []string {
	seen := map[string]bool{}
	var order []string
	var walk func(string)
	walk = func(n string) {
		if seen[n] {
			return
		}
		seen[n] = true
		order = append(order, n)
		m := f.Msg(n)
		if m == nil {
			return
		}
		for _, fd := range m.Fields {
			if fd.Kind == "message" {
				walk(fd.Ref)
			}
		}
	}
	walk(root)
	return order
}

// Modelled reports whether every message reachable from root stays inside the modelled subset.
func (f *File) Modelled(root string) bool {
	for _, n := range f.Reachable(root) {
		m := f.Msg(n)
		if m == nil || f.HasCustomOther(m) {
			return false
		}
	}
	return true
}

// Text renders the file as one line for the Lean driver:
//
//	msgs=N ; M name capture always nfields ; F num kind ref label oneofIdx always cat ; ...
//
// Messages are referred to by index. kind is the scalar index 0..14, 15=enum, 16=message, 17=map
// (then ref = key*16+val). label: 0 plain,1 optional,2 repeated. cat: 0 normal, 1 timestamp, 2 duration.
func (f *File) Text() string {
	var b strings.Builder
	fmt.Fprintf(&b, "%d", len(f.Messages))
	for _, m := range f.Messages {
		oneofs := map[string]int{}
		fmt.Fprintf(&b, " M %d %d %d", b2i(m.Capture), b2i(m.Always), len(m.Fields))
		for _, fd := range m.Fields {
			kind, ref := 0, 0
			switch fd.Kind {
			case "enum":
				kind = 15
			case "message":
				kind = 16
				ref = f.MsgIndex(fd.Ref)
			case "map":
				kind = 17
				ref = scalarIndex(fd.MapKey)*16 + scalarIndex(fd.MapVal)
			default:
				kind = scalarIndex(fd.Kind)
			}
			label := 0
			switch fd.Label {
			case "optional":
				label = 1
			case "repeated":
				label = 2
			}
			oi := 0
			if fd.Oneof != "" {
				if _, ok := oneofs[fd.Oneof]; !ok {
					oneofs[fd.Oneof] = len(oneofs) + 1
				}
				oi = oneofs[fd.Oneof]
			}
			cat := 0
			sh := f.ShapeOf(&fd)
			switch sh.Cat {
			case "timestamp":
				cat = 1
			case "duration":
				cat = 2
			case "customother":
				cat = 3
			}
			fmt.Fprintf(&b, " F %d %d %d %d %d %d %d", fd.Num, kind, ref, label, oi, b2i(fd.Always), cat)
		}
	}
	return b.String()
}

func b2i(b bool) int {
	if b {
		return 1
	}
	return 0
}

func scalarIndex(k string) int {
	for i, s := range Scalars {
		if s == k {
			return i
		}
	}
	panic("not a scalar: " + k)
}
