package schema

import (
	"fmt"
	"strconv"
	"strings"
	"unicode"
)

// ParseProto parses the proto3 subset used by the checked-in .proto files of storj/picobuf:
// syntax/package/import/option lines, flat messages and enums, scalar/enum/message fields,
// optional/repeated labels, map<k,v>, oneof blocks, (pico.field)/(pico.message) options.
// Anything else is an error (the harness must not silently misread a schema).
func ParseProto(path, text string) (*File, error) {
	toks, err := lex(text)
	if err != nil {
		return nil, err
	}
	p := &parser{toks: toks}
	f := &File{Path: path}
	for !p.eof() {
		switch t := p.next(); t {
		case "syntax":
			p.expect("=")
			if s := p.next(); s != `"proto3"` {
				return nil, fmt.Errorf("unsupported syntax %s", s)
			}
			p.expect(";")
		case "package":
			f.Package = p.next()
			p.expect(";")
		case "import":
			p.next()
			p.expect(";")
		case "option":
			name := p.next()
			p.expect("=")
			val := p.next()
			p.expect(";")
			if name == "go_package" {
				f.GoPackage = strings.Trim(val, `"`)
			}
		case "enum":
			e := Enum{Name: p.next()}
			p.expect("{")
			for p.peek() != "}" {
				n := p.next()
				p.expect("=")
				v, err := strconv.ParseInt(p.next(), 10, 32)
				if err != nil {
					return nil, err
				}
				p.expect(";")
				e.Names = append(e.Names, n)
				e.Values = append(e.Values, int32(v))
			}
			p.expect("}")
			f.Enums = append(f.Enums, e)
		case "message":
			m, err := p.message()
			if err != nil {
				return nil, err
			}
			f.Messages = append(f.Messages, *m)
		case ";":
		default:
			return nil, fmt.Errorf("%s: unexpected top-level token %q", path, t)
		}
		if p.err != nil {
			return nil, fmt.Errorf("%s: %v", path, p.err)
		}
	}
	// resolve enum vs message references
	enums := map[string]bool{}
	for _, e := range f.Enums {
		enums[e.Name] = true
	}
	for mi := range f.Messages {
		for fi := range f.Messages[mi].Fields {
			fd := &f.Messages[mi].Fields[fi]
			if fd.Kind == "ref" {
				if enums[fd.Ref] {
					fd.Kind = "enum"
				} else if f.Msg(fd.Ref) != nil {
					fd.Kind = "message"
				} else {
					return nil, fmt.Errorf("%s: unknown type %s", path, fd.Ref)
				}
			}
		}
	}
	return f, nil
}

type parser struct {
	toks []string
	pos  int
	err  error
}

func (p *parser) eof() bool { return p.pos >= len(p.toks) }
func (p *parser) peek() string {
	if p.eof() {
		return ""
	}
	return p.toks[p.pos]
}
func (p *parser) next() string {
	t := p.peek()
	p.pos++
	return t
}
func (p *parser) expect(s string) {
	if t := p.next(); t != s && p.err == nil {
		p.err = fmt.Errorf("expected %q, got %q (token %d)", s, t, p.pos)
	}
}

func (p *parser) message() (*Message, error) {
	m := &Message{Name: p.next()}
	p.expect("{")
	for p.peek() != "}" && !p.eof() {
		switch p.peek() {
		case "option":
			p.next()
			p.expect("(")
			ext := p.next()
			p.expect(")")
			p.expect(".")
			name := p.next()
			p.expect("=")
			val := p.next()
			p.expect(";")
			if ext != "pico.message" {
				return nil, fmt.Errorf("unsupported message option %s", ext)
			}
			switch name {
			case "capture_unrecognized_fields":
				m.Capture = val == "true"
			case "always_present":
				m.Always = val == "true"
			default:
				return nil, fmt.Errorf("unsupported message option %s", name)
			}
		case "oneof":
			p.next()
			oname := p.next()
			p.expect("{")
			for p.peek() != "}" && !p.eof() {
				fd, err := p.field("")
				if err != nil {
					return nil, err
				}
				fd.Oneof = oname
				m.Fields = append(m.Fields, *fd)
			}
			p.expect("}")
		case "message", "enum", "reserved", "extensions", "extend":
			return nil, fmt.Errorf("unsupported nested declaration %q in %s", p.peek(), m.Name)
		case ";":
			p.next()
		default:
			label := ""
			if p.peek() == "optional" || p.peek() == "repeated" {
				label = p.next()
			}
			fd, err := p.field(label)
			if err != nil {
				return nil, err
			}
			m.Fields = append(m.Fields, *fd)
		}
		if p.err != nil {
			return nil, p.err
		}
	}
	p.expect("}")
	return m, p.err
}

func (p *parser) field(label string) (*Field, error) {
	fd := &Field{Label: label}
	typ := p.next()
	if typ == "map" {
		p.expect("<")
		fd.MapKey = p.next()
		p.expect(",")
		fd.MapVal = p.next()
		p.expect(">")
		fd.Kind = "map"
		if !IsScalar(fd.MapKey) || !IsScalar(fd.MapVal) {
			return nil, fmt.Errorf("unsupported map<%s,%s>", fd.MapKey, fd.MapVal)
		}
	} else if IsScalar(typ) {
		fd.Kind = typ
	} else {
		fd.Kind = "ref"
		fd.Ref = typ
	}
	fd.Name = p.next()
	p.expect("=")
	n, err := strconv.ParseInt(p.next(), 10, 32)
	if err != nil {
		return nil, err
	}
	fd.Num = int32(n)
	if p.peek() == "[" {
		p.next()
		for {
			p.expect("(")
			ext := p.next()
			p.expect(")")
			p.expect(".")
			name := p.next()
			p.expect("=")
			val := p.next()
			if ext != "pico.field" {
				return nil, fmt.Errorf("unsupported field option (%s)", ext)
			}
			switch name {
			case "always_present":
				fd.Always = val == "true"
			case "custom_type":
				fd.Custom = strings.Trim(val, `"`)
			case "custom_serialize":
				fd.Cast = strings.Trim(val, `"`)
			default:
				return nil, fmt.Errorf("unsupported field option %s", name)
			}
			if p.peek() == "," {
				p.next()
				continue
			}
			break
		}
		p.expect("]")
	}
	p.expect(";")
	return fd, p.err
}

func lex(text string) ([]string, error) {
	var toks []string
	rs := []rune(text)
	for i := 0; i < len(rs); {
		c := rs[i]
		switch {
		case unicode.IsSpace(c):
			i++
		case c == '/' && i+1 < len(rs) && rs[i+1] == '/':
			for i < len(rs) && rs[i] != '\n' {
				i++
			}
		case c == '/' && i+1 < len(rs) && rs[i+1] == '*':
			j := strings.Index(string(rs[i+2:]), "*/")
			if j < 0 {
				return nil, fmt.Errorf("unterminated comment")
			}
			i += 2 + len([]rune(string(rs[i+2:])[:j])) + 2
		case c == '"':
			j := i + 1
			for j < len(rs) && rs[j] != '"' {
				j++
			}
			toks = append(toks, string(rs[i:j+1]))
			i = j + 1
		case unicode.IsLetter(c) || c == '_' || unicode.IsDigit(c) || c == '-':
			j := i + 1
			for j < len(rs) && (unicode.IsLetter(rs[j]) || rs[j] == '_' || unicode.IsDigit(rs[j]) || (rs[j] == '.' && j+1 < len(rs) && (unicode.IsLetter(rs[j+1]) || rs[j+1] == '_'))) {
				j++
			}
			toks = append(toks, string(rs[i:j]))
			i = j
		default:
			toks = append(toks, string(c))
			i++
		}
	}
	return toks, nil
}
