//go:build verifoverlay

package corr

import "storj.io/picobuf"

// built together with `-overlay` (export_verif.go injected into package picobuf)
const haveOverlay = true

func ovEncodeZigZag32(v int32) uint32 { return picobuf.VerifEncodeZigZag32(v) }
func ovDecodeZigZag32(v uint32) int32 { return picobuf.VerifDecodeZigZag32(v) }
func ovAppendTag(buf []byte, num int32, typ int8) []byte {
	return picobuf.VerifAppendTag(buf, picobuf.FieldNumber(num), typ)
}
func ovRemaining(dec *picobuf.Decoder) int   { return dec.VerifRemaining() }
func ovPendingWire(dec *picobuf.Decoder) int { return dec.VerifPendingWire() }
