package corr

import (
	"fmt"
	"math"
	"reflect"
	"strings"

	refwire "google.golang.org/protobuf/encoding/protowire"

	"storj.io/picobuf"
	"storj.io/picobuf/verifharness/gen"
	"storj.io/picobuf/verifharness/schema"
)

// dop is one node of a decoder program.
type dop struct {
	kind  string // R RR RENUM MSG RMSG LOOP UNREC FAIL
	k     int
	field int32
	mask  uint64
	ops   []dop
}

func (o *dop) render(b *strings.Builder) {
	switch o.kind {
	case "R", "RR":
		fmt.Fprintf(b, " %s %d %d", o.kind, o.k, o.field)
	case "RENUM", "FAIL", "FAILE":
		fmt.Fprintf(b, " %s %d", o.kind, o.field)
	case "MSG", "RMSG", "RMSGN":
		fmt.Fprintf(b, " %s %d %d", o.kind, o.field, len(o.ops))
		for i := range o.ops {
			o.ops[i].render(b)
		}
	case "LOOP":
		fmt.Fprintf(b, " LOOP %d", len(o.ops))
		for i := range o.ops {
			o.ops[i].render(b)
		}
	case "UNREC":
		fmt.Fprintf(b, " UNREC %d", o.mask)
	}
}

func showScalar(k int, v reflect.Value) string {
	switch schema.Scalars[k] {
	case "bool":
		if v.Bool() {
			return "1"
		}
		return "0"
	case "int32", "sint32", "sfixed32":
		return fmt.Sprint(uint32(int32(v.Int())))
	case "int64", "sint64", "sfixed64":
		return fmt.Sprint(uint64(v.Int()))
	case "uint32", "fixed32", "uint64", "fixed64":
		return fmt.Sprint(v.Uint())
	case "float":
		return fmt.Sprint(math.Float32bits(v.Interface().(float32)))
	case "double":
		return fmt.Sprint(math.Float64bits(v.Interface().(float64)))
	case "string":
		return "x" + hexs([]byte(v.String()))
	default:
		return "x" + hexs(v.Bytes())
	}
}

type dstate struct {
	log []string
	// violations of the per-call contract observed on the real code (C13)
	contract []string
}

func suffix(dec *picobuf.Decoder) string {
	return fmt.Sprintf("@%d/%d", int32(dec.PendingField()), ovRemaining(dec))
}

func wireOfKind(k int) int {
	switch refWireType(k) {
	case refwire.Fixed32Type:
		return 5
	case refwire.Fixed64Type:
		return 1
	case refwire.BytesType:
		return 2
	}
	return 0
}

func (o *dop) run(dec *picobuf.Decoder, st *dstate) {
	field := picobuf.FieldNumber(o.field)
	switch o.kind {
	case "R":
		p := reflect.New(goTypes[o.k])
		if isBytesKind(o.k) {
			setScalar(o.k, p.Elem(), 0, []byte{0x5a})
		} else if o.k == 0 {
			p.Elem().SetBool(true)
		} else {
			setScalar(o.k, p.Elem(), 90, nil)
		}
		sentinel := showScalar(o.k, p.Elem())
		beforePF, beforeRem, beforeErr, beforeWire := dec.PendingField(), ovRemaining(dec), dec.Err(), ovPendingWire(dec)
		reflect.ValueOf(dec).MethodByName(goNames[o.k]).Call([]reflect.Value{reflect.ValueOf(field), p})
		after := showScalar(o.k, p.Elem())
		if beforePF != field {
			if dec.PendingField() != beforePF || ovRemaining(dec) != beforeRem || dec.Err() != beforeErr || after != sentinel {
				st.contract = append(st.contract, fmt.Sprintf("reader %s(%d) touched the decoder although field %d was pending", goNames[o.k], o.field, beforePF))
			}
		} else if beforeWire != wireOfKind(o.k) {
			if dec.Err() == nil || dec.PendingField() != -1 {
				st.contract = append(st.contract, fmt.Sprintf("reader %s(%d) on wire type %d did not latch an error", goNames[o.k], o.field, beforeWire))
			}
		}
		st.log = append(st.log, "r="+after+suffix(dec))
	case "RR":
		p := reflect.New(reflect.SliceOf(goTypes[o.k]))
		beforePF, beforeRem := dec.PendingField(), ovRemaining(dec)
		reflect.ValueOf(dec).MethodByName("Repeated" + goNames[o.k]).Call([]reflect.Value{reflect.ValueOf(field), p})
		var vs []string
		for i := 0; i < p.Elem().Len(); i++ {
			vs = append(vs, showScalar(o.k, p.Elem().Index(i)))
		}
		if beforePF != field && (dec.PendingField() != beforePF || ovRemaining(dec) != beforeRem || len(vs) != 0) {
			st.contract = append(st.contract, fmt.Sprintf("reader Repeated%s(%d) touched the decoder although field %d was pending", goNames[o.k], o.field, beforePF))
		}
		if beforePF == field && dec.PendingField() == field {
			st.contract = append(st.contract, fmt.Sprintf("reader Repeated%s(%d) left an occurrence of its field pending", goNames[o.k], o.field))
		}
		st.log = append(st.log, "rr="+strings.Join(vs, ",")+suffix(dec))
	case "RENUM":
		var vs []string
		dec.RepeatedEnum(field, func(x int32) { vs = append(vs, fmt.Sprint(uint32(x))) })
		st.log = append(st.log, "re="+strings.Join(vs, ",")+suffix(dec))
	case "MSG":
		dec.Message(field, func(c *picobuf.Decoder) {
			for i := range o.ops {
				o.ops[i].run(c, st)
			}
		})
	case "RMSG":
		dec.RepeatedMessage(field, func(c *picobuf.Decoder) {
			st.log = append(st.log, "entry")
			c.Loop(func(c *picobuf.Decoder) {
				for i := range o.ops {
					o.ops[i].run(c, st)
				}
			})
		})
	case "RMSGN":
		// a custom type that reads each element with one pass of its readers, without Loop
		dec.RepeatedMessage(field, func(c *picobuf.Decoder) {
			st.log = append(st.log, "entry")
			for i := range o.ops {
				o.ops[i].run(c, st)
			}
		})
	case "LOOP":
		dec.Loop(func(c *picobuf.Decoder) {
			for i := range o.ops {
				o.ops[i].run(c, st)
			}
		})
	case "UNREC":
		var out []byte
		dec.UnrecognizedFields(o.mask, &out)
		st.log = append(st.log, "u="+hexs(out)+suffix(dec))
	case "FAILE":
		dec.Fail(field, "")
		if dec.Err() == nil {
			st.contract = append(st.contract, "Fail(field, \"\") did not latch an error")
		}
		st.log = append(st.log, "f"+suffix(dec))
	case "FAIL":
		dec.Fail(field, "x")
		if dec.Err() == nil {
			st.contract = append(st.contract, "Fail() did not latch an error")
		}
		st.log = append(st.log, "f"+suffix(dec))
	}
}

func (c *ctx) randDop(depth int, fields []int32) dop {
	r := c.r
	f := fields[r.Intn(len(fields))]
	x := r.Intn(14)
	if depth >= 3 && x >= 9 && x <= 11 {
		x = 0
	}
	switch {
	case x <= 5:
		return dop{kind: "R", k: r.Intn(15), field: f}
	case x <= 7:
		return dop{kind: "RR", k: r.Intn(15), field: f}
	case x == 8:
		return dop{kind: "RENUM", field: f}
	case x <= 11:
		o := dop{kind: []string{"MSG", "RMSG", "MSG"}[x-9], field: f}
		if o.kind == "RMSG" && r.Intn(3) == 0 {
			o.kind = "RMSGN"
		}
		n := 1 + r.Intn(3)
		for i := 0; i < n; i++ {
			o.ops = append(o.ops, c.randDop(depth+1, fields))
		}
		return o
	case x == 12:
		return dop{kind: "UNREC", mask: r.Uint64() & 0x1fe}
	default:
		if r.Intn(4) == 0 {
			if r.Intn(3) == 0 {
				return dop{kind: "FAILE", field: f}
			}
			return dop{kind: "FAIL", field: f}
		}
		return dop{kind: "R", k: r.Intn(15), field: f}
	}
}

// inputFor builds an input whose records mostly fit the readers of the program.
func (c *ctx) inputFor(prog []dop, fields []int32, depth int) []byte {
	r := c.r
	type rk struct {
		k   int
		rep bool
		sub []dop
		msg bool
	}
	byField := map[int32][]rk{}
	var walk func(ops []dop)
	walk = func(ops []dop) {
		for _, o := range ops {
			switch o.kind {
			case "R":
				byField[o.field] = append(byField[o.field], rk{k: o.k})
			case "RR":
				byField[o.field] = append(byField[o.field], rk{k: o.k, rep: true})
			case "RENUM":
				byField[o.field] = append(byField[o.field], rk{k: 1, rep: true})
			case "MSG", "RMSG", "RMSGN":
				byField[o.field] = append(byField[o.field], rk{msg: true, sub: o.ops})
			case "LOOP":
				walk(o.ops)
			}
		}
	}
	walk(prog)
	var b []byte
	n := r.Intn(7)
	for i := 0; i < n; i++ {
		f := fields[r.Intn(len(fields))]
		if r.Intn(6) == 0 {
			f = []int32{7, 8, 63, 64, 100, 1<<29 - 1}[r.Intn(6)]
		}
		cands := byField[f]
		if len(cands) == 0 || r.Intn(6) == 0 {
			// arbitrary record for this number, any wire type
			typ := []refwire.Type{refwire.VarintType, refwire.Fixed64Type, refwire.BytesType, refwire.Fixed32Type, refwire.StartGroupType}[r.Intn(5)]
			b = refwire.AppendTag(b, refwire.Number(f), typ)
			switch typ {
			case refwire.VarintType:
				b = refwire.AppendVarint(b, gen.Bits(r, "uint64"))
			case refwire.Fixed64Type:
				b = refwire.AppendFixed64(b, gen.Bits(r, "uint64"))
			case refwire.Fixed32Type:
				b = refwire.AppendFixed32(b, uint32(gen.Bits(r, "uint32")))
			case refwire.BytesType:
				b = refwire.AppendBytes(b, gen.RawBytes(r, gen.Size(r, false)))
			default:
				b = append(b, gen.UnknownFields(r, &schema.Message{}, r.Intn(3))...)
				b = refwire.AppendTag(b, refwire.Number(f), refwire.EndGroupType)
			}
			continue
		}
		cd := cands[r.Intn(len(cands))]
		switch {
		case cd.msg:
			var sub []byte
			if depth < 3 {
				sub = c.inputFor(cd.sub, fields, depth+1)
			}
			b = refwire.AppendTag(b, refwire.Number(f), refwire.BytesType)
			b = refwire.AppendBytes(b, sub)
		case cd.rep && !isBytesKind(cd.k) && r.Intn(2) == 0:
			var p []byte
			m := r.Intn(5)
			for j := 0; j < m; j++ {
				p = append(p, refScalar(cd.k, gen.Bits(r, schema.Scalars[cd.k]), nil)...)
			}
			if r.Intn(8) == 0 && len(p) > 0 {
				p = p[:len(p)-1]
			}
			b = refwire.AppendTag(b, refwire.Number(f), refwire.BytesType)
			b = refwire.AppendBytes(b, p)
		default:
			b = refwire.AppendTag(b, refwire.Number(f), refWireType(cd.k))
			if isBytesKind(cd.k) {
				b = append(b, refScalar(cd.k, 0, gen.RawBytes(r, gen.Size(r, false)))...)
			} else {
				n := gen.Bits(r, schema.Scalars[cd.k])
				v := refScalar(cd.k, n, nil)
				if refWireType(cd.k) == refwire.VarintType && r.Intn(5) == 0 {
					x, _ := refwire.ConsumeVarint(v)
					if r.Intn(2) == 0 {
						x = gen.Bits(r, "uint64") // out-of-range varint for a narrower kind
					}
					v = gen.NonMinimalVarint(x, r.Intn(4))
				}
				b = append(b, v...)
			}
		}
	}
	if depth == 0 {
		switch r.Intn(6) {
		case 0:
			b = gen.Mutate(r, b)
		case 1:
			if len(b) > 0 {
				b = b[:r.Intn(len(b))]
			}
		}
	}
	return b
}

// streamD: random programs over the low-level Decoder API on matching, mismatching and malformed input.
func (c *ctx) streamD() error {
	c.focusedReaders(c.n / 3)
	c.focusedElements(200)
	c.focusedErrors(c.n / 3)
	if !haveOverlay {
		c.rep.Notes = append(c.rep.Notes, "stream D skipped: built without the overlay exports")
		c.rep.Rule = "skipped (no overlay)"
		return nil
	}
	c.rep.Rule = "random (input, program) pairs: programs over all 30 typed readers, RepeatedEnum, Message, RepeatedMessage+Loop, Loop, UnrecognizedFields(mask), Fail; inputs whose records mostly fit the program's readers, with wrong wire types, packed/unpacked, non-minimal and out-of-range varints, unknown fields, groups, truncations and mutations; observed after every call: stored value, pending field, remaining length; at the end error text; distinct = distinct (input, program)"
	type dc struct {
		prog []dop
		in   []byte
		op   string
	}
	var dcs []dc
	for i := 0; i < c.n; i++ {
		fields := []int32{1, 2, 3, 4, 5, 6}
		if c.r.Intn(5) == 0 {
			fields = []int32{1, 15, 16, 2047, 2048, 1<<29 - 1}
		}
		body := []dop{}
		k := 1 + c.r.Intn(5)
		for j := 0; j < k; j++ {
			body = append(body, c.randDop(0, fields))
		}
		var prog []dop
		switch c.r.Intn(6) {
		case 0:
			prog = body // readers without Loop: pending field is 0 until initialised
		default:
			prog = []dop{{kind: "LOOP", ops: body}}
			if c.r.Intn(5) == 0 {
				prog = append(prog, c.randDop(0, fields))
			}
		}
		in := c.inputFor(prog, fields, 0)
		var b strings.Builder
		fmt.Fprintf(&b, "dec %s %d", hexs(in), len(prog))
		for j := range prog {
			prog[j].render(&b)
		}
		dcs = append(dcs, dc{prog, in, b.String()})
	}
	for start := 0; start < len(dcs); start += 1000 {
		end := start + 1000
		if end > len(dcs) {
			end = len(dcs)
		}
		chunk := dcs[start:end]
		var ans []string
		if c.model != nil {
			ops := make([]string, len(chunk))
			for i := range chunk {
				ops[i] = chunk[i].op
			}
			var err error
			if ans, err = c.model.Ask(ops); err != nil {
				return err
			}
		}
		for i := range chunk {
			d := &chunk[i]
			c.rep.Evaluations++
			c.distinct(d.op)
			st := &dstate{}
			var line string
			keep := append([]byte(nil), d.in...)
			p, to := guarded(20e9, func() {
				dec := picobuf.NewDecoder(d.in)
				for j := range d.prog {
					d.prog[j].run(dec, st)
				}
				e := "0"
				if dec.Err() != nil {
					e = strings.ReplaceAll(dec.Err().Error(), " ", "_")
				}
				line = fmt.Sprintf("pf=%d rem=%d err=%s %s", int32(dec.PendingField()), ovRemaining(dec), e, strings.Join(st.log, ";"))
				if e == "0" {
					c.count("final=ok")
				} else {
					c.count("final=err")
				}
			})
			cs := map[string]string{"op": short(d.op)}
			if to {
				c.disagree(Disagreement{Kind: "timeout", Check: "decoder-program", Case: cs})
				continue
			}
			if p != "" {
				c.disagree(Disagreement{Kind: "panic", Check: "decoder-program", Case: cs, Got: map[string]string{"real": p}})
				continue
			}
			if string(keep) != string(d.in) {
				c.disagree(Disagreement{Kind: "input-mutated", Check: "decoder-program", Case: cs})
			}
			for _, v := range st.contract {
				c.disagree(Disagreement{Kind: "contract", Check: "decoder-call-contract", Case: cs, Got: map[string]string{"real": v}})
			}
			c.sample(d.op + " => " + line)
			if ans != nil && ans[i] != line {
				c.disagree(Disagreement{Kind: "real!=model", Check: "decoder-program", Case: cs, Got: map[string]string{"real": short(line), "model": short(ans[i]), "diff": firstDiff(line, ans[i])}})
			}
		}
	}
	return nil
}

// refDecode: the protobuf specification's reading of a wire number for a scalar kind, as a bit
// pattern (written on the reference protowire package's conversions).
func refDecode(k int, x uint64) uint64 {
	switch schema.Scalars[k] {
	case "bool":
		if x != 0 {
			return 1
		}
		return 0
	case "int32", "uint32":
		return uint64(uint32(x))
	case "sint32":
		return uint64(uint32(int32(refwire.DecodeZigZag(x & 0xffffffff))))
	case "sint64":
		return uint64(refwire.DecodeZigZag(x))
	}
	return x
}

// focusedReaders: one typed reader on occurrences of its own field, encoded in every legal way
// (packed, unpacked, mixed, non-minimal varints, out-of-range varints for narrow kinds), against
// the values the specification prescribes — a model-independent oracle for C13/C15/C02.
func (c *ctx) focusedReaders(n int) {
	r := c.r
	for i := 0; i < n; i++ {
		k := r.Intn(13) // numeric kinds
		field := int32(1 + r.Intn(40))
		if r.Intn(6) == 0 {
			field = []int32{2047, 2048, 1 << 21, 1<<29 - 1}[r.Intn(4)]
		}
		cnt := 1 + r.Intn(6)
		var want []uint64
		var in []byte
		wt := refWireType(k)
		rawVals := make([]uint64, cnt)
		for j := range rawVals {
			rawVals[j] = gen.Bits(r, "uint64")
			if r.Intn(2) == 0 {
				rawVals[j] = gen.Bits(r, schema.Scalars[k])
			}
			if wt == refwire.Fixed32Type {
				rawVals[j] &= 0xffffffff
			}
			want = append(want, refDecode(k, rawVals[j]))
		}
		enc1 := func(v uint64) []byte {
			switch wt {
			case refwire.Fixed32Type:
				return refwire.AppendFixed32(nil, uint32(v))
			case refwire.Fixed64Type:
				return refwire.AppendFixed64(nil, v)
			}
			if r.Intn(3) == 0 {
				return gen.NonMinimalVarint(v, 1+r.Intn(4))
			}
			return refwire.AppendVarint(nil, v)
		}
		// split the values into runs, each run packed or unpacked
		for j := 0; j < cnt; {
			run := 1 + r.Intn(cnt-j)
			if r.Intn(2) == 0 {
				var p []byte
				for _, v := range rawVals[j : j+run] {
					p = append(p, enc1(v)...)
				}
				in = refwire.AppendTag(in, refwire.Number(field), refwire.BytesType)
				in = refwire.AppendBytes(in, p)
			} else {
				for _, v := range rawVals[j : j+run] {
					in = refwire.AppendTag(in, refwire.Number(field), wt)
					in = append(in, enc1(v)...)
				}
			}
			j += run
		}
		c.rep.Evaluations++
		var got []uint64
		var errText string
		p, to := guarded(10e9, func() {
			dec := picobuf.NewDecoder(in)
			sl := reflect.New(reflect.SliceOf(goTypes[k]))
			dec.Loop(func(cc *picobuf.Decoder) {
				reflect.ValueOf(cc).MethodByName("Repeated" + goNames[k]).Call([]reflect.Value{reflect.ValueOf(picobuf.FieldNumber(field)), sl})
			})
			if dec.Err() != nil {
				errText = dec.Err().Error()
			}
			for j := 0; j < sl.Elem().Len(); j++ {
				var u uint64
				fmt.Sscan(showScalar(k, sl.Elem().Index(j)), &u)
				got = append(got, u)
			}
		})
		cs := map[string]string{"reader": "Repeated" + goNames[k], "field": fmt.Sprint(field), "input": hexs(in)}
		if to || p != "" {
			c.disagree(Disagreement{Kind: "panic", Check: "decoder-program", Case: cs, Got: map[string]string{"real": p}})
			continue
		}
		if errText != "" || fmt.Sprint(got) != fmt.Sprint(want) {
			c.disagree(Disagreement{Kind: "real!=ref", Check: "reader-matches-reference", Case: cs, Got: map[string]string{"real": fmt.Sprint(got), "ref": fmt.Sprint(want), "err": errText}})
		}
		// the singular reader: last occurrence wins (only for unpacked encodings)
		if cnt >= 1 {
			var in2 []byte
			for _, v := range rawVals {
				in2 = refwire.AppendTag(in2, refwire.Number(field), wt)
				in2 = append(in2, enc1(v)...)
			}
			var last string
			errText = ""
			p, _ := guarded(10e9, func() {
				dec := picobuf.NewDecoder(in2)
				v := reflect.New(goTypes[k])
				dec.Loop(func(cc *picobuf.Decoder) {
					reflect.ValueOf(cc).MethodByName(goNames[k]).Call([]reflect.Value{reflect.ValueOf(picobuf.FieldNumber(field)), v})
				})
				if dec.Err() != nil {
					errText = dec.Err().Error()
				}
				last = showScalar(k, v.Elem())
			})
			if p != "" || errText != "" || last != fmt.Sprint(want[len(want)-1]) {
				c.disagree(Disagreement{Kind: "real!=ref", Check: "reader-matches-reference", Case: map[string]string{"reader": goNames[k], "field": fmt.Sprint(field), "input": hexs(in2)}, Got: map[string]string{"real": last, "ref": fmt.Sprint(want[len(want)-1]), "err": errText, "panic": p}})
			}
		}
	}
}

// focusedErrors (C19): a known field at nesting depth 0..2 with a wrong wire type or a truncated
// value: the error must be non-nil and name THAT field's number.
// focusedElements: the low-level API used the way hand-written code may use it — the callback of
// RepeatedMessage / Message reads the element's fields with typed readers DIRECTLY (no Loop inside).
// The input is a canonical encoding (ascending fields) of `repeated Point{sint32 x=1; uint64 y=2;
// string s=3}` built with the reference wire package, so straight-line readers see every field; the
// decoded elements must be the points that were encoded. Independent of the Lean model.
func (c *ctx) focusedElements(n int) {
	r := c.r
	type pt struct {
		x int32
		y uint64
		s string
	}
	for i := 0; i < n; i++ {
		field := int32(1 + r.Intn(30))
		cnt := 1 + r.Intn(4)
		var pts []pt
		var in []byte
		for j := 0; j < cnt; j++ {
			p := pt{x: int32(gen.Bits(r, "sint32")), y: gen.Bits(r, "uint64"), s: string(gen.Str(r, r.Intn(6)))}
			if r.Intn(4) == 0 {
				p.x = 0
			}
			if r.Intn(4) == 0 {
				p.y = 0
			}
			pts = append(pts, p)
			var e []byte
			if p.x != 0 {
				e = refwire.AppendVarint(refwire.AppendTag(e, 1, refwire.VarintType), refwire.EncodeZigZag(int64(p.x))&0xffffffff)
			}
			if p.y != 0 {
				e = refwire.AppendVarint(refwire.AppendTag(e, 2, refwire.VarintType), p.y)
			}
			if p.s != "" {
				e = refwire.AppendString(refwire.AppendTag(e, 3, refwire.BytesType), p.s)
			}
			in = refwire.AppendBytes(refwire.AppendTag(in, refwire.Number(field), refwire.BytesType), e)
		}
		useMessage := cnt == 1 && r.Intn(2) == 0
		c.rep.Evaluations++
		var got []pt
		var errText string
		p, to := guarded(10e9, func() {
			dec := picobuf.NewDecoder(in)
			read := func(cc *picobuf.Decoder) {
				var q pt
				cc.Sint32(1, &q.x)
				cc.Uint64(2, &q.y)
				cc.String(3, &q.s)
				got = append(got, q)
			}
			dec.Loop(func(cc *picobuf.Decoder) {
				if useMessage {
					cc.Message(picobuf.FieldNumber(field), read)
				} else {
					cc.RepeatedMessage(picobuf.FieldNumber(field), read)
				}
			})
			if err := dec.Err(); err != nil {
				errText = err.Error()
			}
		})
		bad := p != "" || to || errText != "" || len(got) < len(pts)
		if !bad && !useMessage {
			for j := range pts {
				if got[j] != pts[j] {
					bad = true
				}
			}
		}
		if !bad && useMessage {
			// Message runs its callback through Loop: the last invocation holds the element
			bad = got[len(got)-1] != pts[0] && !(len(got) >= 1 && got[0] == pts[0])
		}
		if bad {
			c.disagree(Disagreement{Kind: "real!=ref", Check: "reader-matches-reference",
				Case: map[string]string{"program": map[bool]string{true: "Message", false: "RepeatedMessage"}[useMessage] + fmt.Sprintf("(%d){ Sint32(1,&x); Uint64(2,&y); String(3,&s) }  -- no Loop inside the callback", field), "input": hexs(in), "want": fmt.Sprint(pts)},
				Got:  map[string]string{"got": fmt.Sprint(got), "err": errText, "panic": p, "timeout": fmt.Sprint(to)}})
			return
		}
	}
	c.count(fmt.Sprintf("focused_element_cases=%d", n))
}

func (c *ctx) focusedErrors(n int) {
	r := c.r
	for i := 0; i < n; i++ {
		k := r.Intn(15)
		g := int32(1 + r.Intn(60))
		if r.Intn(5) == 0 {
			g = []int32{10, 100, 1000, 1099, 2047, 100000, 1<<29 - 1, 19000}[r.Intn(8)]
		}
		depth := r.Intn(3)
		outer := []int32{int32(1 + r.Intn(30)), int32(1 + r.Intn(30))}
		// the offending record
		var bad []byte
		truncated := r.Intn(2) == 0
		if truncated {
			bad = refwire.AppendTag(nil, refwire.Number(g), refWireType(k))
			full := refScalar(k, gen.Bits(r, "uint64")|0x8000000000000000, gen.RawBytes(r, 5))
			if refWireType(k) == refwire.VarintType {
				full = []byte{0xff, 0xff} // unterminated varint
			} else if len(full) > 1 {
				full = full[:len(full)-1]
			}
			bad = append(bad, full...)
		} else {
			var w refwire.Type
			for {
				w = []refwire.Type{refwire.VarintType, refwire.Fixed32Type, refwire.Fixed64Type, refwire.BytesType}[r.Intn(4)]
				if w != refWireType(k) {
					break
				}
			}
			bad = refwire.AppendTag(nil, refwire.Number(g), w)
			switch w {
			case refwire.VarintType:
				bad = refwire.AppendVarint(bad, 1)
			case refwire.Fixed32Type:
				bad = refwire.AppendFixed32(bad, 1)
			case refwire.Fixed64Type:
				bad = refwire.AppendFixed64(bad, 1)
			default:
				bad = refwire.AppendBytes(bad, []byte{1})
			}
		}
		in := bad
		expectField := g
		// alternatively the truncation is in an enclosing message: its declared length exceeds what
		// is there, and the error must name the MESSAGE field
		cutLevel := -1
		if truncated && depth > 0 && r.Intn(2) == 0 {
			cutLevel = r.Intn(depth)
			in = refScalarOK(k, r)
			in = append(refwire.AppendTag(nil, refwire.Number(g), refWireType(k)), in...)
		}
		for d := depth - 1; d >= 0; d-- {
			if d == cutLevel {
				hdr := refwire.AppendTag(nil, refwire.Number(outer[d]), refwire.BytesType)
				hdr = refwire.AppendVarint(hdr, uint64(len(in)+1+r.Intn(5)))
				in = append(hdr, in...)
				expectField = outer[d]
				continue
			}
			in = refwire.AppendBytes(refwire.AppendTag(nil, refwire.Number(outer[d]), refwire.BytesType), in)
		}
		if cutLevel >= 0 && expectField != g {
			// ambiguous when the two numbers coincide textually; keep them apart
			if outer[cutLevel] == g {
				continue
			}
		}
		c.rep.Evaluations++
		var errText string
		p, _ := guarded(10e9, func() {
			dec := picobuf.NewDecoder(in)
			v := reflect.New(goTypes[k])
			read := func(cc *picobuf.Decoder) {
				reflect.ValueOf(cc).MethodByName(goNames[k]).Call([]reflect.Value{reflect.ValueOf(picobuf.FieldNumber(g)), v})
			}
			var body func(level int) func(cc *picobuf.Decoder)
			body = func(level int) func(cc *picobuf.Decoder) {
				if level == depth {
					return read
				}
				return func(cc *picobuf.Decoder) { cc.Message(picobuf.FieldNumber(outer[level]), body(level+1)) }
			}
			dec.Loop(body(0))
			if dec.Err() != nil {
				errText = dec.Err().Error()
			}
		})
		cs := map[string]string{"reader": goNames[k], "field": fmt.Sprint(g), "depth": fmt.Sprint(depth), "input": hexs(in), "truncated": fmt.Sprint(truncated)}
		if p != "" {
			c.disagree(Disagreement{Kind: "panic", Check: "decoder-program", Case: cs, Got: map[string]string{"real": p}})
			continue
		}
		cs["expected_field"] = fmt.Sprint(expectField)
		if !strings.Contains(errText, fmt.Sprintf("parsing %d:", expectField)) || len(errText) < len(fmt.Sprintf("parsing %d: x", expectField)) {
			c.disagree(Disagreement{Kind: "error-text", Check: "error-names-field", Case: cs, Got: map[string]string{"error": errText}})
		}
	}
}

// refScalarOK: a complete, valid value of the kind (without tag)
func refScalarOK(k int, r interface{ Intn(int) int }) []byte {
	return refScalar(k, uint64(1+r.Intn(100)), []byte("ab"))
}
