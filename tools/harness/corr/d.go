package corr

import (
	"fmt"
	"math"
	"reflect"
	"strings"

	refwire "google.golang.org/protobuf/encoding/protowire"

	"storj.io/picobuf"
	"storj.io/picobuf/verifharness/gen"
	"storj.io/picobuf/verifharness/schema"
)

// dop is one node of a decoder program.
type dop struct {
	kind  string // R RR RENUM MSG RMSG LOOP UNREC FAIL
	k     int
	field int32
	mask  uint64
	ops   []dop
}

func (o *dop) render(b *strings.Builder) {
	switch o.kind {
	case "R", "RR":
		fmt.Fprintf(b, " %s %d %d", o.kind, o.k, o.field)
	case "RENUM", "FAIL":
		fmt.Fprintf(b, " %s %d", o.kind, o.field)
	case "MSG", "RMSG":
		fmt.Fprintf(b, " %s %d %d", o.kind, o.field, len(o.ops))
		for i := range o.ops {
			o.ops[i].render(b)
		}
	case "LOOP":
		fmt.Fprintf(b, " LOOP %d", len(o.ops))
		for i := range o.ops {
			o.ops[i].render(b)
		}
	case "UNREC":
		fmt.Fprintf(b, " UNREC %d", o.mask)
	}
}

func showScalar(k int, v reflect.Value) string {
	switch schema.Scalars[k] {
	case "bool":
		if v.Bool() {
			return "1"
		}
		return "0"
	case "int32", "sint32", "sfixed32":
		return fmt.Sprint(uint32(int32(v.Int())))
	case "int64", "sint64", "sfixed64":
		return fmt.Sprint(uint64(v.Int()))
	case "uint32", "fixed32", "uint64", "fixed64":
		return fmt.Sprint(v.Uint())
	case "float":
		return fmt.Sprint(math.Float32bits(v.Interface().(float32)))
	case "double":
		return fmt.Sprint(math.Float64bits(v.Interface().(float64)))
	case "string":
		return "x" + hexs([]byte(v.String()))
	default:
		return "x" + hexs(v.Bytes())
	}
}

type dstate struct {
	log []string
	// violations of the per-call contract observed on the real code (C13)
	contract []string
}

func suffix(dec *picobuf.Decoder) string {
	return fmt.Sprintf("@%d/%d", int32(dec.PendingField()), dec.VerifRemaining())
}

func wireOfKind(k int) int {
	switch refWireType(k) {
	case refwire.Fixed32Type:
		return 5
	case refwire.Fixed64Type:
		return 1
	case refwire.BytesType:
		return 2
	}
	return 0
}

func (o *dop) run(dec *picobuf.Decoder, st *dstate) {
	field := picobuf.FieldNumber(o.field)
	switch o.kind {
	case "R":
		p := reflect.New(goTypes[o.k])
		if isBytesKind(o.k) {
			setScalar(o.k, p.Elem(), 0, []byte{0x5a})
		} else if o.k == 0 {
			p.Elem().SetBool(true)
		} else {
			setScalar(o.k, p.Elem(), 90, nil)
		}
		sentinel := showScalar(o.k, p.Elem())
		beforePF, beforeRem, beforeErr, beforeWire := dec.PendingField(), dec.VerifRemaining(), dec.Err(), dec.VerifPendingWire()
		reflect.ValueOf(dec).MethodByName(goNames[o.k]).Call([]reflect.Value{reflect.ValueOf(field), p})
		after := showScalar(o.k, p.Elem())
		if beforePF != field {
			if dec.PendingField() != beforePF || dec.VerifRemaining() != beforeRem || dec.Err() != beforeErr || after != sentinel {
				st.contract = append(st.contract, fmt.Sprintf("reader %s(%d) touched the decoder although field %d was pending", goNames[o.k], o.field, beforePF))
			}
		} else if beforeWire != wireOfKind(o.k) {
			if dec.Err() == nil || dec.PendingField() != -1 {
				st.contract = append(st.contract, fmt.Sprintf("reader %s(%d) on wire type %d did not latch an error", goNames[o.k], o.field, beforeWire))
			}
		}
		st.log = append(st.log, "r="+after+suffix(dec))
	case "RR":
		p := reflect.New(reflect.SliceOf(goTypes[o.k]))
		beforePF, beforeRem := dec.PendingField(), dec.VerifRemaining()
		reflect.ValueOf(dec).MethodByName("Repeated" + goNames[o.k]).Call([]reflect.Value{reflect.ValueOf(field), p})
		var vs []string
		for i := 0; i < p.Elem().Len(); i++ {
			vs = append(vs, showScalar(o.k, p.Elem().Index(i)))
		}
		if beforePF != field && (dec.PendingField() != beforePF || dec.VerifRemaining() != beforeRem || len(vs) != 0) {
			st.contract = append(st.contract, fmt.Sprintf("reader Repeated%s(%d) touched the decoder although field %d was pending", goNames[o.k], o.field, beforePF))
		}
		if beforePF == field && dec.PendingField() == field {
			st.contract = append(st.contract, fmt.Sprintf("reader Repeated%s(%d) left an occurrence of its field pending", goNames[o.k], o.field))
		}
		st.log = append(st.log, "rr="+strings.Join(vs, ",")+suffix(dec))
	case "RENUM":
		var vs []string
		dec.RepeatedEnum(field, func(x int32) { vs = append(vs, fmt.Sprint(uint32(x))) })
		st.log = append(st.log, "re="+strings.Join(vs, ",")+suffix(dec))
	case "MSG":
		dec.Message(field, func(c *picobuf.Decoder) {
			for i := range o.ops {
				o.ops[i].run(c, st)
			}
		})
	case "RMSG":
		dec.RepeatedMessage(field, func(c *picobuf.Decoder) {
			st.log = append(st.log, "entry")
			c.Loop(func(c *picobuf.Decoder) {
				for i := range o.ops {
					o.ops[i].run(c, st)
				}
			})
		})
	case "LOOP":
		dec.Loop(func(c *picobuf.Decoder) {
			for i := range o.ops {
				o.ops[i].run(c, st)
			}
		})
	case "UNREC":
		var out []byte
		dec.UnrecognizedFields(o.mask, &out)
		st.log = append(st.log, "u="+hexs(out)+suffix(dec))
	case "FAIL":
		dec.Fail(field, "x")
		if dec.Err() == nil {
			st.contract = append(st.contract, "Fail() did not latch an error")
		}
		st.log = append(st.log, "f"+suffix(dec))
	}
}

func (c *ctx) randDop(depth int, fields []int32) dop {
	r := c.r
	f := fields[r.Intn(len(fields))]
	x := r.Intn(14)
	if depth >= 3 && x >= 9 && x <= 11 {
		x = 0
	}
	switch {
	case x <= 5:
		return dop{kind: "R", k: r.Intn(15), field: f}
	case x <= 7:
		return dop{kind: "RR", k: r.Intn(15), field: f}
	case x == 8:
		return dop{kind: "RENUM", field: f}
	case x <= 11:
		o := dop{kind: []string{"MSG", "RMSG", "MSG"}[x-9], field: f}
		n := 1 + r.Intn(3)
		for i := 0; i < n; i++ {
			o.ops = append(o.ops, c.randDop(depth+1, fields))
		}
		return o
	case x == 12:
		return dop{kind: "UNREC", mask: r.Uint64() & 0x1fe}
	default:
		if r.Intn(4) == 0 {
			return dop{kind: "FAIL", field: f}
		}
		return dop{kind: "R", k: r.Intn(15), field: f}
	}
}

// inputFor builds an input whose records mostly fit the readers of the program.
func (c *ctx) inputFor(prog []dop, fields []int32, depth int) []byte {
	r := c.r
	type rk struct {
		k   int
		rep bool
		sub []dop
		msg bool
	}
	byField := map[int32][]rk{}
	var walk func(ops []dop)
	walk = func(ops []dop) {
		for _, o := range ops {
			switch o.kind {
			case "R":
				byField[o.field] = append(byField[o.field], rk{k: o.k})
			case "RR":
				byField[o.field] = append(byField[o.field], rk{k: o.k, rep: true})
			case "RENUM":
				byField[o.field] = append(byField[o.field], rk{k: 1, rep: true})
			case "MSG", "RMSG":
				byField[o.field] = append(byField[o.field], rk{msg: true, sub: o.ops})
			case "LOOP":
				walk(o.ops)
			}
		}
	}
	walk(prog)
	var b []byte
	n := r.Intn(7)
	for i := 0; i < n; i++ {
		f := fields[r.Intn(len(fields))]
		if r.Intn(6) == 0 {
			f = []int32{7, 8, 63, 64, 100, 1<<29 - 1}[r.Intn(6)]
		}
		cands := byField[f]
		if len(cands) == 0 || r.Intn(6) == 0 {
			// arbitrary record for this number, any wire type
			typ := []refwire.Type{refwire.VarintType, refwire.Fixed64Type, refwire.BytesType, refwire.Fixed32Type, refwire.StartGroupType}[r.Intn(5)]
			b = refwire.AppendTag(b, refwire.Number(f), typ)
			switch typ {
			case refwire.VarintType:
				b = refwire.AppendVarint(b, gen.Bits(r, "uint64"))
			case refwire.Fixed64Type:
				b = refwire.AppendFixed64(b, gen.Bits(r, "uint64"))
			case refwire.Fixed32Type:
				b = refwire.AppendFixed32(b, uint32(gen.Bits(r, "uint32")))
			case refwire.BytesType:
				b = refwire.AppendBytes(b, gen.RawBytes(r, gen.Size(r, false)))
			default:
				b = append(b, gen.UnknownFields(r, &schema.Message{}, r.Intn(3))...)
				b = refwire.AppendTag(b, refwire.Number(f), refwire.EndGroupType)
			}
			continue
		}
		cd := cands[r.Intn(len(cands))]
		switch {
		case cd.msg:
			var sub []byte
			if depth < 3 {
				sub = c.inputFor(cd.sub, fields, depth+1)
			}
			b = refwire.AppendTag(b, refwire.Number(f), refwire.BytesType)
			b = refwire.AppendBytes(b, sub)
		case cd.rep && !isBytesKind(cd.k) && r.Intn(2) == 0:
			var p []byte
			m := r.Intn(5)
			for j := 0; j < m; j++ {
				p = append(p, refScalar(cd.k, gen.Bits(r, schema.Scalars[cd.k]), nil)...)
			}
			if r.Intn(8) == 0 && len(p) > 0 {
				p = p[:len(p)-1]
			}
			b = refwire.AppendTag(b, refwire.Number(f), refwire.BytesType)
			b = refwire.AppendBytes(b, p)
		default:
			b = refwire.AppendTag(b, refwire.Number(f), refWireType(cd.k))
			if isBytesKind(cd.k) {
				b = append(b, refScalar(cd.k, 0, gen.RawBytes(r, gen.Size(r, false)))...)
			} else {
				n := gen.Bits(r, schema.Scalars[cd.k])
				v := refScalar(cd.k, n, nil)
				if refWireType(cd.k) == refwire.VarintType && r.Intn(5) == 0 {
					x, _ := refwire.ConsumeVarint(v)
					if r.Intn(2) == 0 {
						x = gen.Bits(r, "uint64") // out-of-range varint for a narrower kind
					}
					v = gen.NonMinimalVarint(x, r.Intn(4))
				}
				b = append(b, v...)
			}
		}
	}
	if depth == 0 {
		switch r.Intn(6) {
		case 0:
			b = gen.Mutate(r, b)
		case 1:
			if len(b) > 0 {
				b = b[:r.Intn(len(b))]
			}
		}
	}
	return b
}

// streamD: random programs over the low-level Decoder API on matching, mismatching and malformed input.
func (c *ctx) streamD() error {
	c.rep.Rule = "random (input, program) pairs: programs over all 30 typed readers, RepeatedEnum, Message, RepeatedMessage+Loop, Loop, UnrecognizedFields(mask), Fail; inputs whose records mostly fit the program's readers, with wrong wire types, packed/unpacked, non-minimal and out-of-range varints, unknown fields, groups, truncations and mutations; observed after every call: stored value, pending field, remaining length; at the end error text; distinct = distinct (input, program)"
	type dc struct {
		prog []dop
		in   []byte
		op   string
	}
	var dcs []dc
	for i := 0; i < c.n; i++ {
		fields := []int32{1, 2, 3, 4, 5, 6}
		if c.r.Intn(5) == 0 {
			fields = []int32{1, 15, 16, 2047, 2048, 1<<29 - 1}
		}
		body := []dop{}
		k := 1 + c.r.Intn(5)
		for j := 0; j < k; j++ {
			body = append(body, c.randDop(0, fields))
		}
		var prog []dop
		switch c.r.Intn(6) {
		case 0:
			prog = body // readers without Loop: pending field is 0 until initialised
		default:
			prog = []dop{{kind: "LOOP", ops: body}}
			if c.r.Intn(5) == 0 {
				prog = append(prog, c.randDop(0, fields))
			}
		}
		in := c.inputFor(prog, fields, 0)
		var b strings.Builder
		fmt.Fprintf(&b, "dec %s %d", hexs(in), len(prog))
		for j := range prog {
			prog[j].render(&b)
		}
		dcs = append(dcs, dc{prog, in, b.String()})
	}
	for start := 0; start < len(dcs); start += 1000 {
		end := start + 1000
		if end > len(dcs) {
			end = len(dcs)
		}
		chunk := dcs[start:end]
		var ans []string
		if c.model != nil {
			ops := make([]string, len(chunk))
			for i := range chunk {
				ops[i] = chunk[i].op
			}
			var err error
			if ans, err = c.model.Ask(ops); err != nil {
				return err
			}
		}
		for i := range chunk {
			d := &chunk[i]
			c.rep.Evaluations++
			c.distinct(d.op)
			st := &dstate{}
			var line string
			keep := append([]byte(nil), d.in...)
			p, to := guarded(20e9, func() {
				dec := picobuf.NewDecoder(d.in)
				for j := range d.prog {
					d.prog[j].run(dec, st)
				}
				e := "0"
				if dec.Err() != nil {
					e = strings.ReplaceAll(dec.Err().Error(), " ", "_")
				}
				line = fmt.Sprintf("pf=%d rem=%d err=%s %s", int32(dec.PendingField()), dec.VerifRemaining(), e, strings.Join(st.log, ";"))
				if e == "0" {
					c.count("final=ok")
				} else {
					c.count("final=err")
				}
			})
			cs := map[string]string{"op": short(d.op)}
			if to {
				c.disagree(Disagreement{Kind: "timeout", Check: "decoder-program", Case: cs})
				continue
			}
			if p != "" {
				c.disagree(Disagreement{Kind: "panic", Check: "decoder-program", Case: cs, Got: map[string]string{"real": p}})
				continue
			}
			if string(keep) != string(d.in) {
				c.disagree(Disagreement{Kind: "input-mutated", Check: "decoder-program", Case: cs})
			}
			for _, v := range st.contract {
				c.disagree(Disagreement{Kind: "contract", Check: "decoder-call-contract", Case: cs, Got: map[string]string{"real": v}})
			}
			c.sample(d.op + " => " + line)
			if ans != nil && ans[i] != line {
				c.disagree(Disagreement{Kind: "real!=model", Check: "decoder-program", Case: cs, Got: map[string]string{"real": short(line), "model": short(ans[i]), "diff": firstDiff(line, ans[i])}})
			}
		}
	}
	return nil
}
