package corr

import "fmt"

func (c *ctx) streamP() error       { return fmt.Errorf("stream P not implemented") }
func (c *ctx) streamE() error       { return fmt.Errorf("stream E not implemented") }
func (c *ctx) streamD() error       { return fmt.Errorf("stream D not implemented") }
func (c *ctx) streamT() error       { return fmt.Errorf("stream T not implemented") }
func (c *ctx) streamS() error       { return fmt.Errorf("stream S not implemented") }
func (c *ctx) streamR() error       { return fmt.Errorf("stream R not implemented") }
func (c *ctx) forwardCompat() error { return nil }
func (c *ctx) replayFile(path string) error { return fmt.Errorf("replay not implemented") }
