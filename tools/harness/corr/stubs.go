package corr

import "fmt"

func (c *ctx) replayFile(path string) error { return fmt.Errorf("replay not implemented") }
