// Package corr is the correspondence check: it runs the real picobuf code, the Lean model (through
// the line-protocol driver) and the reference implementation on the same cases and reports where
// they differ.
package corr

import (
	"bufio"
	"fmt"
	"io"
	"os"
	"os/exec"
	"strings"
)

// Model is a running picodriver process.
type Model struct {
	cmd *exec.Cmd
	in  io.WriteCloser
	out *bufio.Reader
	// Lines counts the operations sent.
	Lines int
}

func StartModel(path string) (*Model, error) {
	cmd := exec.Command("sh", "-c", "ulimit -s unlimited 2>/dev/null || ulimit -s 1000000 2>/dev/null; exec \"$0\"", path)
	in, err := cmd.StdinPipe()
	if err != nil {
		return nil, err
	}
	out, err := cmd.StdoutPipe()
	if err != nil {
		return nil, err
	}
	cmd.Stderr = os.Stderr
	if err := cmd.Start(); err != nil {
		return nil, err
	}
	return &Model{cmd: cmd, in: in, out: bufio.NewReaderSize(out, 1<<20)}, nil
}

// Ask sends the operations and returns one answer per operation.
func (m *Model) Ask(ops []string) ([]string, error) {
	if dump := os.Getenv("VERIF_DUMP_OPS"); dump != "" {
		if f, err := os.OpenFile(dump, os.O_APPEND|os.O_CREATE|os.O_WRONLY, 0644); err == nil {
			for _, op := range ops {
				f.WriteString(op + "\n")
			}
			f.Close()
		}
	}
	errc := make(chan error, 1)
	go func() {
		w := bufio.NewWriterSize(m.in, 1<<20)
		for _, op := range ops {
			if strings.ContainsAny(op, "\n\r") {
				errc <- fmt.Errorf("newline in op")
				return
			}
			w.WriteString(op)
			w.WriteByte('\n')
		}
		errc <- w.Flush()
	}()
	res := make([]string, 0, len(ops))
	for range ops {
		line, err := m.out.ReadString('\n')
		if err != nil {
			return res, fmt.Errorf("model driver: %v (after %d answers)", err, len(res))
		}
		res = append(res, strings.TrimRight(line, "\n"))
	}
	if err := <-errc; err != nil {
		return res, err
	}
	m.Lines += len(ops)
	return res, nil
}

func (m *Model) Ask1(op string) (string, error) {
	r, err := m.Ask([]string{op})
	if err != nil {
		return "", err
	}
	return r[0], nil
}

func (m *Model) Close() {
	m.in.Close()
	m.cmd.Wait()
}
