package corr

import (
	"fmt"
	"math"
	"strconv"
	"strings"

	refwire "google.golang.org/protobuf/encoding/protowire"

	"storj.io/picobuf"
	"storj.io/picobuf/internal/bitset"
	"storj.io/picobuf/internal/protowire"
	"storj.io/picobuf/verifharness/gen"
	"storj.io/picobuf/verifharness/schema"
)

type opcase struct {
	op   string
	real string
	ref  string // "" = no independent reference for this op
}

func (c *ctx) runOps(check string, cases []opcase) error {
	for start := 0; start < len(cases); start += 2000 {
		end := start + 2000
		if end > len(cases) {
			end = len(cases)
		}
		chunk := cases[start:end]
		var ans []string
		if c.model != nil {
			ops := make([]string, len(chunk))
			for i, oc := range chunk {
				ops[i] = oc.op
			}
			var err error
			ans, err = c.model.Ask(ops)
			if err != nil {
				return err
			}
		}
		for i, oc := range chunk {
			c.rep.Evaluations++
			c.distinct(oc.op)
			if i < 3 && start == 0 {
				c.sample(oc.op + " => " + oc.real)
			}
			if oc.ref != "" && oc.ref != oc.real {
				c.disagree(Disagreement{Kind: "real!=ref", Check: check, Case: map[string]string{"op": short(oc.op)}, Got: map[string]string{"real": short(oc.real), "ref": short(oc.ref)}})
			}
			if ans != nil && ans[i] != oc.real {
				c.disagree(Disagreement{Kind: "real!=model", Check: check, Case: map[string]string{"op": short(oc.op)}, Got: map[string]string{"real": short(oc.real), "model": short(ans[i])}})
			}
		}
	}
	return nil
}

func catch(f func() string) (s string) {
	defer func() {
		if r := recover(); r != nil {
			s = fmt.Sprint("panic ", r)
		}
	}()
	return f()
}

func randWireBytes(c *ctx) []byte {
	r := c.r
	switch r.Intn(5) {
	case 0:
		return gen.RawBytes(r, r.Intn(14))
	case 1:
		v := gen.Bits(r, "uint64")
		return append(gen.NonMinimalVarint(v, r.Intn(10)), gen.RawBytes(r, r.Intn(3))...)
	case 2:
		b := refwire.AppendVarint(nil, gen.Bits(r, "uint64"))
		if r.Intn(2) == 0 && len(b) > 0 {
			b = b[:r.Intn(len(b))]
		}
		return b
	case 3:
		// ten or eleven continuation bytes
		n := 9 + r.Intn(3)
		b := make([]byte, n)
		for i := range b {
			b[i] = 0x80 | byte(r.Intn(128))
		}
		return append(b, byte(r.Intn(4)))
	default:
		var b []byte
		k := 1 + r.Intn(4)
		for i := 0; i < k; i++ {
			b = append(b, gen.Tokens[r.Intn(len(gen.Tokens))]...)
		}
		return b
	}
}

func randFieldNum(c *ctx) int32 {
	r := c.r
	switch r.Intn(5) {
	case 0:
		return []int32{0, 1, 15, 16, 2047, 2048, 1<<21 - 1, 1 << 21, 1<<28 - 1, 1 << 28, 1<<29 - 1, 1 << 29, math.MaxInt32, -1, -2, math.MinInt32, 19000}[r.Intn(17)]
	case 1:
		return int32(1 + r.Intn(64))
	case 2:
		return int32(r.Uint32())
	default:
		return int32(1 + r.Intn(1<<29-1))
	}
}

func deepGroups(depth int, close bool) []byte {
	var b []byte
	for i := 0; i < depth; i++ {
		b = append(b, 0x0b) // field 1 start group
	}
	if close {
		for i := 0; i < depth; i++ {
			b = append(b, 0x0c)
		}
	}
	return b
}

// streamP: wire primitives and integer expressions.
func (c *ctx) streamP() error {
	c.rep.Rule = "boundary-biased and random arguments for every primitive of internal/protowire and conv.go; consume functions on mutated encodings, over-long varints and token strings; distinct = distinct operation line; every case non-trivial"
	var cases []opcase
	add := func(op, real, ref string) {
		if !haveOverlay && (strings.HasPrefix(op, "apptag") || strings.HasPrefix(op, "encbits") || strings.HasPrefix(op, "decbits")) {
			return // these three need the overlay exports
		}
		cases = append(cases, opcase{op, real, ref})
	}
	n := c.n
	for i := 0; i < n; i++ {
		v := gen.Bits(c.r, "uint64")
		switch i % 16 {
		case 0:
			add(fmt.Sprintf("varint %d", v), hexs(protowire.AppendVarint(nil, v)), hexs(refwire.AppendVarint(nil, v)))
		case 1:
			b := randWireBytes(c)
			x, k := protowire.ConsumeVarint(b)
			y, l := refwire.ConsumeVarint(b)
			add("cvarint "+hexs(b), fmt.Sprintf("%d %d", x, k), fmt.Sprintf("%d %d", y, l))
		case 2:
			add(fmt.Sprintf("sizevarint %d", v), fmt.Sprint(protowire.SizeVarint(v)), fmt.Sprint(refwire.SizeVarint(v)))
		case 3:
			w := uint32(gen.Bits(c.r, "uint32"))
			add(fmt.Sprintf("fixed32 %d", w), hexs(protowire.AppendFixed32(nil, w)), hexs(refwire.AppendFixed32(nil, w)))
		case 4:
			add(fmt.Sprintf("fixed64 %d", v), hexs(protowire.AppendFixed64(nil, v)), hexs(refwire.AppendFixed64(nil, v)))
		case 5:
			b := gen.RawBytes(c.r, c.r.Intn(7))
			x, k := protowire.ConsumeFixed32(b)
			y, l := refwire.ConsumeFixed32(b)
			add("cfixed32 "+hexs(b), fmt.Sprintf("%d %d", x, k), fmt.Sprintf("%d %d", y, l))
		case 6:
			b := gen.RawBytes(c.r, c.r.Intn(11))
			x, k := protowire.ConsumeFixed64(b)
			y, l := refwire.ConsumeFixed64(b)
			add("cfixed64 "+hexs(b), fmt.Sprintf("%d %d", x, k), fmt.Sprintf("%d %d", y, l))
		case 7:
			var b []byte
			if c.r.Intn(2) == 0 {
				b = refwire.AppendBytes(nil, gen.RawBytes(c.r, gen.Size(c.r, false)))
				if c.r.Intn(3) == 0 && len(b) > 0 {
					b = b[:c.r.Intn(len(b))]
				}
			} else {
				b = randWireBytes(c)
			}
			real := catch(func() string { x, k := protowire.ConsumeBytes(b); return fmt.Sprintf("%s %d", hexs(x), k) })
			y, l := refwire.ConsumeBytes(b)
			add("cbytes "+hexs(b), real, fmt.Sprintf("%s %d", hexs(y), l))
		case 8:
			num := randFieldNum(c)
			typ := int8(c.r.Intn(8))
			if c.r.Intn(6) == 0 {
				typ = int8(c.r.Intn(256) - 128)
			}
			add(fmt.Sprintf("tag %d %d", num, uint8(typ)&7), hexs(protowire.AppendTag(nil, protowire.Number(num), protowire.Type(typ))), hexs(refwire.AppendTag(nil, refwire.Number(num), refwire.Type(typ))))
		case 9:
			num := randFieldNum(c)
			typ := int8(c.r.Intn(8))
			add(fmt.Sprintf("apptag %d %d", num, typ), hexs(ovAppendTag(nil, num, typ)), hexs(refwire.AppendTag(nil, refwire.Number(num), refwire.Type(typ))))
		case 10:
			b := randWireBytes(c)
			x, t, k := protowire.ConsumeTag(b)
			y, u, l := refwire.ConsumeTag(b)
			add("ctag "+hexs(b), fmt.Sprintf("%d %d %d", x, t, k), fmt.Sprintf("%d %d %d", y, u, l))
		case 11:
			b := randWireBytes(c)
			if c.r.Intn(3) == 0 {
				b = gen.UnknownFields(c.r, &schema.Message{}, 1)
				if _, _, k := refwire.ConsumeTag(b); k > 0 {
					num, typ, _ := refwire.ConsumeTag(b)
					rest := b[k:]
					if c.r.Intn(3) == 0 && len(rest) > 0 {
						rest = rest[:c.r.Intn(len(rest))]
					}
					real := catch(func() string {
						return fmt.Sprint(protowire.ConsumeFieldValue(protowire.Number(num), protowire.Type(typ), rest))
					})
					add(fmt.Sprintf("cfv %d %d %s", num, typ, hexs(rest)), real, fmt.Sprint(refwire.ConsumeFieldValue(num, typ, rest)))
					continue
				}
			}
			num := randFieldNum(c)
			typ := int8(c.r.Intn(8))
			real := catch(func() string {
				return fmt.Sprint(protowire.ConsumeFieldValue(protowire.Number(num), protowire.Type(typ), b))
			})
			add(fmt.Sprintf("cfv %d %d %s", num, typ, hexs(b)), real, fmt.Sprint(refwire.ConsumeFieldValue(refwire.Number(num), refwire.Type(typ), b)))
		case 12:
			add(fmt.Sprintf("zz64enc %d", v), fmt.Sprint(protowire.EncodeZigZag(int64(v))), fmt.Sprint(refwire.EncodeZigZag(int64(v))))
		case 13:
			add(fmt.Sprintf("zz64dec %d", v), fmt.Sprint(uint64(protowire.DecodeZigZag(v))), fmt.Sprint(uint64(refwire.DecodeZigZag(v))))
		case 14:
			w := uint32(gen.Bits(c.r, "sint32"))
			// sint32 as the plain writer hands it to AppendVarint; reference closed form
			zz := uint32((int32(w) << 1) ^ (int32(w) >> 31))
			add(fmt.Sprintf("encbits 0 5 %d", w), fmt.Sprint(uint64(ovEncodeZigZag32(int32(w)))), fmt.Sprint(uint64(zz)))
		case 15:
			w := uint32(gen.Bits(c.r, "uint32"))
			dz := uint32(int32(w>>1) ^ -int32(w&1))
			add(fmt.Sprintf("decbits 0 5 %d", w), fmt.Sprint(uint32(ovDecodeZigZag32(w))), fmt.Sprint(dz))
		}
	}
	// deep groups: the recursion limit of skipped groups
	for _, d := range []int{1, 2, 100, 9999, 10000, 10001, 10002} {
		for _, closed := range []bool{true, false} {
			b := deepGroups(d, closed)
			rest := b[1:]
			real := catch(func() string { return fmt.Sprint(protowire.ConsumeFieldValue(1, protowire.StartGroupType, rest)) })
			add(fmt.Sprintf("cfv 1 3 %s", hexs(rest)), real, fmt.Sprint(refwire.ConsumeFieldValue(1, refwire.StartGroupType, rest)))
		}
	}
	return c.runOps("primitive", cases)
}

// ---------------------------------------------------------------------------------------------

// streamS: FieldNumber.String, error text, bitset.
func (c *ctx) streamS() error {
	c.rep.Rule = "FieldNumber.String on boundary-biased and random int32 values against strconv.Itoa; bitset.Small on all sequences of <=3 (quick) / <=4 (thorough) insertions over the 15-value boundary alphabet plus long random sequences against a map-based set; distinct = distinct operation line"
	var cases []opcase
	// field numbers
	nums := []int32{0, 1, -1, 9, 10, 11, 99, 100, 101, 999, 1000, 1001, 1099, 9999, 10000, 100000, 109999, 1000000, 10000000, 10999999, 100000000,
		1000000000, 1099999999, 2147483647, -2147483648, -2147483647, -10, -1000, -1000000000, 536870911, 536870912, 19000}
	for i := 0; i < c.n/4; i++ {
		nums = append(nums, randFieldNum(c), int32(c.r.Uint32()), int32(c.r.Intn(200000)-100000))
	}
	for _, x := range nums {
		real := catch(func() string { return picobuf.FieldNumber(x).String() })
		cases = append(cases, opcase{fmt.Sprintf("fieldstr %d", x), real, strconv.Itoa(int(x))})
	}
	if err := c.runOps("fieldnumber-string", cases); err != nil {
		return err
	}
	// bitset
	cases = nil
	alphabet := []int32{-1, 0, 1, 62, 63, 64, 65, 127, 128, 129, 191, 192, 4095, 4096, 1 << 20}
	runSet := func(xs []int32) (string, string) {
		op := "bitset"
		for _, x := range xs {
			op += fmt.Sprintf(" %d", x)
		}
		real := catch(func() string {
			var s bitset.Small
			out := ""
			for _, x := range xs {
				if s.Set(x) {
					out += "1"
				} else {
					out += "0"
				}
			}
			return out
		})
		seen := map[int32]bool{}
		ref := ""
		for _, x := range xs {
			if x >= 0 && seen[x] {
				ref += "1"
			} else {
				ref += "0"
			}
			if x >= 0 {
				seen[x] = true
			}
		}
		cases = append(cases, opcase{op, real, ref})
		return real, ref
	}
	maxLen := 3
	if c.tier == "thorough" {
		maxLen = 4
	}
	var rec func(prefix []int32)
	rec = func(prefix []int32) {
		if len(prefix) > 0 {
			runSet(append([]int32(nil), prefix...))
		}
		if len(prefix) == maxLen {
			return
		}
		for _, a := range alphabet {
			rec(append(prefix, a))
		}
	}
	rec(nil)
	for i := 0; i < c.n/10; i++ {
		k := 2 + c.r.Intn(40)
		xs := make([]int32, k)
		pool := make([]int32, 1+c.r.Intn(6))
		for j := range pool {
			switch c.r.Intn(4) {
			case 0:
				pool[j] = alphabet[c.r.Intn(len(alphabet))]
			case 1:
				pool[j] = int32(c.r.Intn(300))
			case 2:
				pool[j] = int32(c.r.Intn(1 << 22))
			default:
				pool[j] = int32(c.r.Intn(70000)) - 100
			}
		}
		for j := range xs {
			xs[j] = pool[c.r.Intn(len(pool))]
		}
		runSet(xs)
	}
	if err := c.runOps("bitset", cases); err != nil {
		return err
	}
	// values near the top of the int32 range: the bit set grows to 32 Mi words (256 MiB), so these few
	// sequences run against the map-based reference only (the model column would need a 32 Mi-element list)
	cases = nil
	big := [][]int32{{2147483647}, {2147483647, 2147483647}, {2147483200, 5, 2147483200}, {1 << 30, 1<<30 + 64, 1 << 30},
		{2147483647 - 63, 2147483647 - 64, 2147483647 - 63}, {-2147483648, 2147483647, -2147483648}}
	if c.tier == "thorough" {
		for i := 0; i < 12; i++ {
			a := int32(2147483647 - c.r.Intn(1<<uint(8+c.r.Intn(22))))
			big = append(big, []int32{a, a - int32(c.r.Intn(130)), a})
		}
	}
	for _, xs := range big {
		runSet(xs)
	}
	saved := c.model
	c.model = nil
	err := c.runOps("bitset", cases)
	c.model = saved
	return err
}
