//go:build !verifoverlay

package corr

import "storj.io/picobuf"

// fallback build without the overlay (used when export_verif.go no longer compiles against the
// working tree): streams P and D, which need the exports, report themselves as skipped
const haveOverlay = false

func ovEncodeZigZag32(v int32) uint32                    { return 0 }
func ovDecodeZigZag32(v uint32) int32                    { return 0 }
func ovAppendTag(buf []byte, num int32, typ int8) []byte { return nil }
func ovRemaining(dec *picobuf.Decoder) int               { return -1 }
func ovPendingWire(dec *picobuf.Decoder) int             { return -1 }
