package corr

import (
	"fmt"
	"math"
	"time"

	refwire "google.golang.org/protobuf/encoding/protowire"
	"google.golang.org/protobuf/proto"
	"google.golang.org/protobuf/types/known/durationpb"
	"google.golang.org/protobuf/types/known/timestamppb"

	"storj.io/picobuf"
	"storj.io/picobuf/picoconv"
	"storj.io/picobuf/verifharness/gen"
)

func secNanosPayload(s int64, n int32) []byte {
	var b []byte
	if s != 0 {
		b = refwire.AppendTag(b, 1, refwire.VarintType)
		b = refwire.AppendVarint(b, uint64(s))
	}
	if n != 0 {
		b = refwire.AppendTag(b, 2, refwire.VarintType)
		b = refwire.AppendVarint(b, uint64(int64(n)))
	}
	return b
}

func asField(field int32, payload []byte) []byte {
	b := refwire.AppendTag(nil, refwire.Number(field), refwire.BytesType)
	return refwire.AppendBytes(b, payload)
}

// streamT: picoconv against durationpb / timestamppb and the model.
func (c *ctx) streamT() error {
	c.rep.Rule = "boundary-biased int64 durations, instants in years 1..9999 and (seconds,nanos) pairs including out-of-range and mixed-sign ones, through picoconv (real Encoder/Decoder), durationpb/timestamppb and the model; distinct = distinct operation line"
	var cases []opcase
	add := func(op, real, ref string) { cases = append(cases, opcase{op, real, ref}) }
	for i := 0; i < c.n; i++ {
		field := int32(1 + c.r.Intn(20))
		switch i % 4 {
		case 0: // Duration encode
			n := gen.Duration(c.r)
			real := catch(func() string {
				d := picoconv.Duration(time.Duration(n))
				enc := picobuf.NewEncoder()
				d.PicoEncode(enc, picobuf.FieldNumber(field))
				return hexs(enc.Buffer())
			})
			pb, _ := proto.MarshalOptions{Deterministic: true}.Marshal(durationpb.New(time.Duration(n)))
			add(fmt.Sprintf("durenc %d %d", field, n), real, hexs(asField(field, pb)))
			// round trip through the real decoder
			rt := catch(func() string {
				d := picoconv.Duration(time.Duration(n))
				enc := picobuf.NewEncoder()
				d.PicoEncode(enc, 1)
				var out picoconv.Duration
				dec := picobuf.NewDecoder(enc.Buffer())
				dec.Loop(func(c *picobuf.Decoder) { out.PicoDecode(c, 1) })
				if dec.Err() != nil {
					return "err " + dec.Err().Error()
				}
				return fmt.Sprint(int64(out))
			})
			if rt != fmt.Sprint(n) {
				c.disagree(Disagreement{Kind: "roundtrip", Check: "duration-roundtrip", Case: map[string]string{"duration": fmt.Sprint(n)}, Got: map[string]string{"real": rt}})
			}
		case 1: // Duration decode of arbitrary pairs
			s := int64(gen.Bits(c.r, "int64"))
			if c.r.Intn(2) == 0 {
				s = []int64{0, 1, -1, 9223372036, -9223372036, 9223372037, -9223372037, 9223372035, math.MaxInt64, math.MinInt64, 1 << 33, -(1 << 33), 9223372036854775, -9223372036854775}[c.r.Intn(14)]
			}
			n := int32(gen.Bits(c.r, "int32"))
			if c.r.Intn(2) == 0 {
				n = []int32{0, 1, -1, 999999999, -999999999, 1000000000, -1000000000, math.MaxInt32, math.MinInt32, 854775807, 854775808, -854775808, -854775809}[c.r.Intn(13)]
			}
			in := asField(1, secNanosPayload(s, n))
			real := catch(func() string {
				var out picoconv.Duration
				dec := picobuf.NewDecoder(in)
				dec.Loop(func(c *picobuf.Decoder) { out.PicoDecode(c, 1) })
				if dec.Err() != nil {
					return "err " + dec.Err().Error()
				}
				return fmt.Sprint(int64(out))
			})
			ref := fmt.Sprint(int64((&durationpb.Duration{Seconds: s, Nanos: n}).AsDuration()))
			add(fmt.Sprintf("durdec %d %d", s, n), real, ref)
		case 2: // Timestamp encode
			s, n := gen.Time(c.r)
			if c.r.Intn(12) == 0 {
				s, n = -62135596800, 0 // zero time: absent
			}
			t := time.Unix(s, int64(n))
			if c.r.Intn(2) == 0 {
				t = t.In(time.FixedZone("x", 3600*(c.r.Intn(25)-12)))
			}
			real := catch(func() string {
				ts := picoconv.Timestamp(t)
				enc := picobuf.NewEncoder()
				ts.PicoEncode(enc, picobuf.FieldNumber(field))
				return hexs(enc.Buffer())
			})
			ref := "-"
			if !t.IsZero() {
				pb, _ := proto.MarshalOptions{Deterministic: true}.Marshal(timestamppb.New(t))
				ref = hexs(asField(field, pb))
			}
			add(fmt.Sprintf("tsenc %d %d %d", field, s, n), real, ref)
			if !t.IsZero() {
				rt := catch(func() string {
					ts := picoconv.Timestamp(t)
					enc := picobuf.NewEncoder()
					ts.PicoEncode(enc, 1)
					var out picoconv.Timestamp
					dec := picobuf.NewDecoder(enc.Buffer())
					dec.Loop(func(c *picobuf.Decoder) { out.PicoDecode(c, 1) })
					o := time.Time(out)
					if dec.Err() != nil || !o.Equal(t) || o.Location() != time.UTC || o.Nanosecond() != t.Nanosecond() {
						return fmt.Sprintf("err=%v got=%v", dec.Err(), o)
					}
					return "ok"
				})
				if rt != "ok" {
					c.disagree(Disagreement{Kind: "roundtrip", Check: "timestamp-roundtrip", Case: map[string]string{"sec": fmt.Sprint(s), "ns": fmt.Sprint(n)}, Got: map[string]string{"real": rt}})
				}
			}
		case 3: // Timestamp decode of arbitrary pairs
			s := int64(gen.Bits(c.r, "int64"))
			if c.r.Intn(2) == 0 {
				s, _ = gen.Time(c.r)
			}
			n := int32(gen.Bits(c.r, "int32"))
			if c.r.Intn(2) == 0 {
				n = []int32{0, 1, -1, 999999999, -999999999, 1000000000, -1000000000, 1999999999, 2000000000, math.MaxInt32, math.MinInt32}[c.r.Intn(11)]
			}
			in := asField(1, secNanosPayload(s, n))
			real := catch(func() string {
				var out picoconv.Timestamp
				dec := picobuf.NewDecoder(in)
				dec.Loop(func(c *picobuf.Decoder) { out.PicoDecode(c, 1) })
				if dec.Err() != nil {
					return "err " + dec.Err().Error()
				}
				o := time.Time(out)
				if o.Location() != time.UTC {
					return "not-utc"
				}
				return fmt.Sprintf("%d %d", o.Unix(), o.Nanosecond())
			})
			rt := (&timestamppb.Timestamp{Seconds: s, Nanos: n}).AsTime()
			add(fmt.Sprintf("unixnorm %d %d", s, n), real, fmt.Sprintf("%d %d", rt.Unix(), rt.Nanosecond()))
		}
	}
	return c.runOps("picoconv", cases)
}
