package corr

import (
	"encoding/json"
	"flag"
	"fmt"
	"math/rand"
	"os"
	"sort"
	"strings"
	"time"

	"storj.io/picobuf"
	"storj.io/picobuf/verifharness/bridge"
	"storj.io/picobuf/verifharness/schema"
)

// Entry is one schema file together with its generated Go types (filled in by the generated main).
type Entry struct {
	Source     string // "checked-in" or "fresh"
	SchemaJSON string
	New        map[string]func() picobuf.Message
	Wrappers   map[string][]func() interface{}
	NarrowOf   string // for a narrow twin: Path of the wide file
}

// Loaded is an Entry ready for use.
type Loaded struct {
	Entry
	File *schema.File
	Reg  *bridge.Registry
	Ref  *bridge.Ref
	Text string // schema text for the model
}

// Disagreement is one case on which two columns differ (or the real code misbehaved).
type Disagreement struct {
	Stream string `json:"stream"`
	// Kind: real!=model, real!=spec, model!=spec, ref!=spec, real!=ref, panic, timeout, input-mutated, ...
	Kind   string            `json:"kind"`
	Check  string            `json:"check"`
	Case   map[string]string `json:"case"`
	Got    map[string]string `json:"got"`
	Reason string            `json:"reason,omitempty"`
}

// Report is what one stream run produced.
type Report struct {
	Stream        string         `json:"stream"`
	Seed          int64          `json:"seed"`
	Tier          string         `json:"tier"`
	Evaluations   int            `json:"evaluations"`
	Distinct      int            `json:"distinct_nontrivial"`
	Rule          string         `json:"rule"`
	ModelOps      int            `json:"model_ops"`
	Samples       []string       `json:"samples"`
	Dist          map[string]int `json:"distribution"`
	Disagreements []Disagreement `json:"disagreements"`
	Notes         []string       `json:"notes,omitempty"`
	WallS         float64        `json:"wall_s"`
}

type ctx struct {
	r       *rand.Rand
	model   *Model
	rep     *Report
	entries []*Loaded
	tier    string
	n       int
	seen    map[string]bool
	filter  string
}

func (c *ctx) count(key string) { c.rep.Dist[key]++ }

func (c *ctx) distinct(key string) {
	if !c.seen[key] {
		c.seen[key] = true
		c.rep.Distinct++
	}
}

func (c *ctx) sample(s string) {
	if len(c.rep.Samples) < 6 {
		if len(s) > 400 {
			s = s[:400] + "…"
		}
		c.rep.Samples = append(c.rep.Samples, s)
	}
}

func (c *ctx) disagree(d Disagreement) {
	d.Stream = c.rep.Stream
	if len(c.rep.Disagreements) < 40 {
		c.rep.Disagreements = append(c.rep.Disagreements, d)
	}
	c.count("DISAGREE:" + d.Kind + ":" + d.Check)
}

func load(es []Entry) ([]*Loaded, error) {
	var out []*Loaded
	for _, e := range es {
		var f schema.File
		if err := json.Unmarshal([]byte(e.SchemaJSON), &f); err != nil {
			return nil, err
		}
		l := &Loaded{Entry: e, File: &f}
		l.Reg = &bridge.Registry{File: &f, New: e.New, Wrappers: e.Wrappers}
		ref, err := bridge.NewRef(&f)
		if err != nil {
			return nil, fmt.Errorf("%s: %v", f.Path, err)
		}
		l.Ref = ref
		l.Text = f.Text()
		out = append(out, l)
	}
	return out, nil
}

// Main is called by the generated main package.
func Main(entries []Entry) {
	stream := flag.String("stream", "M", "stream: P E D M T S R")
	n := flag.Int("n", 1000, "number of cases")
	seed := flag.Int64("seed", 0, "PRNG seed")
	driver := flag.String("driver", "", "path of picodriver")
	out := flag.String("out", "", "JSON report path")
	tier := flag.String("tier", "quick", "quick|thorough")
	replay := flag.String("replay", "", "replay file")
	filter := flag.String("filter", "", "comma separated sub-checks to run (stream specific)")
	flag.Parse()

	start := time.Now()
	rep := &Report{Stream: *stream, Seed: *seed, Tier: *tier, Dist: map[string]int{}}
	fail := func(err error) {
		rep.Notes = append(rep.Notes, "harness error: "+err.Error())
		rep.Disagreements = append(rep.Disagreements, Disagreement{Stream: *stream, Kind: "harness-error", Check: "setup", Reason: err.Error()})
		writeReport(*out, rep, start)
		os.Exit(0)
	}
	ls, err := load(entries)
	if err != nil {
		fail(err)
	}
	var model *Model
	if *driver != "" {
		model, err = StartModel(*driver)
		if err != nil {
			fail(err)
		}
		defer model.Close()
	}
	c := &ctx{r: rand.New(rand.NewSource(*seed*7919 + int64(len(*stream))*104729 + int64((*stream)[0]))), model: model, rep: rep,
		entries: ls, tier: *tier, n: *n, seen: map[string]bool{}, filter: *filter}
	if *replay != "" {
		if err := c.replayFile(*replay); err != nil {
			fail(err)
		}
		writeReport(*out, rep, start)
		return
	}
	switch *stream {
	case "P":
		err = c.streamP()
	case "E":
		err = c.streamE()
	case "D":
		err = c.streamD()
	case "M":
		err = c.streamM()
	case "T":
		err = c.streamT()
	case "S":
		err = c.streamS()
	case "R":
		err = c.streamR()
	default:
		err = fmt.Errorf("unknown stream %s", *stream)
	}
	if err != nil {
		fail(err)
	}
	if model != nil {
		rep.ModelOps = model.Lines
	}
	writeReport(*out, rep, start)
}

func writeReport(path string, rep *Report, start time.Time) {
	rep.WallS = time.Since(start).Seconds()
	// stable order for the distribution
	keys := make([]string, 0, len(rep.Dist))
	for k := range rep.Dist {
		keys = append(keys, k)
	}
	sort.Strings(keys)
	b, _ := json.MarshalIndent(rep, "", " ")
	if path == "" {
		fmt.Println(string(b))
		return
	}
	os.WriteFile(path, b, 0644)
	fmt.Printf("stream %s: %d evaluations, %d distinct, %d disagreements, %.1fs\n", rep.Stream, rep.Evaluations, rep.Distinct, len(rep.Disagreements), rep.WallS)
}

func (c *ctx) want(check string) bool {
	if c.filter == "" {
		return true
	}
	for _, f := range strings.Split(c.filter, ",") {
		if f == check {
			return true
		}
	}
	return false
}

// has reports whether the filter explicitly names the word (unlike want, false for an empty filter).
func (c *ctx) has(word string) bool {
	for _, f := range strings.Split(c.filter, ",") {
		if f == word {
			return true
		}
	}
	return false
}

// guarded runs f under recover and a watchdog.
func guarded(limit time.Duration, f func()) (panicked string, timedOut bool) {
	done := make(chan string, 1)
	go func() {
		defer func() {
			if r := recover(); r != nil {
				done <- fmt.Sprint("panic: ", r)
				return
			}
			done <- ""
		}()
		f()
	}()
	select {
	case p := <-done:
		return p, false
	case <-time.After(limit):
		return "", true
	}
}
