package corr

import (
	"fmt"
	"strings"
	"sync"
	"time"

	"google.golang.org/protobuf/proto"

	"storj.io/picobuf"
	"storj.io/picobuf/picoconv"
	"storj.io/picobuf/verifharness/gen"
	"storj.io/picobuf/verifharness/val"
)

// streamR: concurrent Marshal of one message / Unmarshal of one input, against the sequential
// result. Meant to be run from a binary built with -race (the check does that).
func (c *ctx) streamR() error {
	c.rep.Rule = "for random messages of every modelled type: G goroutines marshal the same (unmodified) message and unmarshal the same bytes into distinct messages, interleaved with map-codec and time-conversion calls; every result is compared with the sequential one; the binary is built with -race; distinct = distinct (type, value)"
	type root struct {
		l    *Loaded
		name string
	}
	var roots []root
	for _, l := range c.entries {
		if l.NarrowOf != "" {
			continue
		}
		for _, n := range gen.Roots(l.File) {
			if l.File.Modelled(n) && l.New[n] != nil {
				roots = append(roots, root{l, n})
			}
		}
	}
	G := 8
	for i := 0; i < c.n; i++ {
		rt := roots[c.r.Intn(len(roots))]
		l, name := rt.l, rt.name
		v := gen.Message(c.r, l.File, name, c.valOpts(), 0)
		if i%25 == 3 {
			// long repeated scalar fields (thousands of elements): large-payload paths of the packed writers
			inflateLists(&v, 1500+c.r.Intn(3000))
		}
		// cold phase: G goroutines marshal G DIFFERENT messages none of which has been marshalled
		// before (state that Marshal might keep between calls — a size hint, a pooled buffer — is
		// then written concurrently); each result must equal the sequential one computed afterwards
		if i%3 == 0 {
			cold := make([]picobuf.Message, G)
			coldOut := make([][]byte, G)
			for g := range cold {
				cv := gen.Message(c.r, l.File, name, c.valOpts(), 0)
				if g%2 == 1 {
					inflateLists(&cv, 20+c.r.Intn(400))
				}
				cold[g] = l.Reg.ToStruct(name, cv)
			}
			var cwg sync.WaitGroup
			for g := range cold {
				cwg.Add(1)
				go func(g int) {
					defer cwg.Done()
					defer func() { _ = recover() }()
					coldOut[g], _ = picobuf.Marshal(cold[g])
				}(g)
			}
			cwg.Wait()
			for g := range cold {
				want, bad := realMarshal(cold[g])
				if bad == "" && !c.sameBytes(l, name, coldOut[g], want) {
					c.disagree(Disagreement{Kind: "concurrent!=sequential", Check: "concurrent-equals-sequential",
						Case: caseOf(l, name, map[string]string{"what": "first-time concurrent Marshal of distinct messages", "goroutine": fmt.Sprint(g)}),
						Got:  map[string]string{"concurrent": short(hexs(coldOut[g])), "sequential": short(hexs(want))}})
					break
				}
			}
		}
		vs := v.String()
		msg := l.Reg.ToStruct(name, v)
		data, bad := realMarshal(msg)
		if bad != "" {
			continue
		}
		c.rep.Evaluations++
		if len(data) > 0 {
			c.distinct(name + "|" + vs)
		}
		seq := l.New[name]()
		if et, bad := realUnmarshal(data, seq); et != "" || bad != "" {
			continue
		}
		want := l.Reg.FromStruct(name, seq).String()
		var wg sync.WaitGroup
		var mu sync.Mutex
		var problems []string
		report := func(s string) {
			mu.Lock()
			problems = append(problems, s)
			mu.Unlock()
		}
		d := time.Duration(int64(gen.Duration(c.r)))
		// two malformed inputs (truncation / corruption of the valid bytes): every goroutine also decodes
		// one of them and must get exactly the error the sequential call gives
		badIn := [2][]byte{gen.Mutate(c.r, data), gen.Mutate(c.r, data)}
		if len(data) > 1 {
			badIn[0] = append([]byte(nil), data[:1+c.r.Intn(len(data)-1)]...)
		}
		var seqErr [2]string
		for k := range badIn {
			m := l.New[name]()
			if et, b := realUnmarshal(append([]byte(nil), badIn[k]...), m); b == "" {
				seqErr[k] = et
			} else {
				seqErr[k] = "PANIC " + b
			}
		}
		for g := 0; g < G; g++ {
			wg.Add(1)
			go func(g int) {
				defer wg.Done()
				defer func() {
					if r := recover(); r != nil {
						report(fmt.Sprint("panic: ", r))
					}
				}()
				for rep := 0; rep < 3; rep++ {
					if g%2 == 0 {
						b, err := picobuf.Marshal(msg)
						if err != nil || !c.sameBytes(l, name, b, data) {
							report("concurrent Marshal differs from sequential: " + hexs(b))
						}
					} else {
						m := l.New[name]()
						if err := picobuf.Unmarshal(data, m); err != nil {
							report("concurrent Unmarshal error: " + err.Error())
						} else if got := l.Reg.FromStruct(name, m).String(); got != want {
							report("concurrent Unmarshal differs: " + firstDiff(want, got))
						}
					}
					// failing decodes: the error is this call's own
					{
						k := (g / 2) % 2
						m := l.New[name]()
						err := picobuf.Unmarshal(append([]byte(nil), badIn[k]...), m)
						got := ""
						if err != nil {
							got = err.Error()
						}
						if !strings.HasPrefix(seqErr[k], "PANIC") && got != seqErr[k] {
							report(fmt.Sprintf("concurrent Unmarshal of a malformed input reports %q, sequential call reports %q", got, seqErr[k]))
						}
					}
					// time conversions share nothing either
					pd := picoconv.Duration(d)
					enc := picobuf.NewEncoder()
					pd.PicoEncode(enc, 1)
					var out picoconv.Duration
					dec := picobuf.NewDecoder(enc.Buffer())
					dec.Loop(func(c *picobuf.Decoder) { out.PicoDecode(c, 1) })
					if time.Duration(out) != d {
						report("concurrent Duration round trip differs")
					}
				}
			}(g)
		}
		wg.Wait()
		if len(problems) > 0 {
			c.disagree(Disagreement{Kind: "concurrent!=sequential", Check: "concurrent-equals-sequential", Case: caseOf(l, name, map[string]string{"value": vs, "real_bytes": hexs(data)}), Got: map[string]string{"problems": short(strings.Join(problems, " | "))}})
		}
	}
	return nil
}

// inflateLists repeats the elements of every non-empty top-level list of numbers up to n elements.
func inflateLists(v *val.Val, n int) {
	if v.K != val.Msg {
		return
	}
	for i := range v.Elems {
		e := &v.Elems[i]
		if e.K == val.List && len(e.Elems) > 0 && e.Elems[0].K == val.Num {
			out := make([]val.Val, n)
			for j := range out {
				out[j] = e.Elems[j%len(e.Elems)]
			}
			e.Elems = out
		}
	}
}

// forwardCompat (C10): sender with the wide schema -> intermediary with the narrow twin (captures
// what it does not know) -> receiver with the wide schema.
func (c *ctx) forwardCompat() error {
	byPath := map[string]*Loaded{}
	for _, l := range c.entries {
		byPath[l.File.Path] = l
	}
	type pair struct{ wide, narrow *Loaded }
	var pairs []pair
	for _, l := range c.entries {
		if l.NarrowOf != "" && byPath[l.NarrowOf] != nil {
			pairs = append(pairs, pair{byPath[l.NarrowOf], l})
		}
	}
	if len(pairs) == 0 {
		return nil
	}
	total := c.n / 4
	if total < 20 {
		total = 20
	}
	for i := 0; i < total; i++ {
		p := pairs[c.r.Intn(len(pairs))]
		var names []string
		for _, n := range gen.Roots(p.wide.File) {
			if p.wide.File.Modelled(n) && p.narrow.New[n] != nil && p.wide.New[n] != nil {
				names = append(names, n)
			}
		}
		if len(names) == 0 {
			continue
		}
		name := names[c.r.Intn(len(names))]
		if err := c.forwardCase(p.wide, p.narrow, name); err != nil {
			return err
		}
	}
	return nil
}

func (c *ctx) forwardCase(wide, narrow *Loaded, name string) error {
	v := gen.Message(c.r, wide.File, name, c.valOpts(), 0)
	refMsg := wide.Ref.FromVal(name, v)
	wb, err := detMarshal.Marshal(refMsg)
	if err != nil {
		return nil
	}
	if c.r.Intn(2) == 0 {
		w := &gen.Rewriter{R: c.r, F: wide.File}
		wb = w.Rewrite(name, wb, 0)
	}
	c.rep.Evaluations++
	c.count("forward")
	if len(wb) > 0 {
		c.distinct("fw|" + name + "|" + hexs(wb))
	}
	cs := func() map[string]string {
		m := caseOf(wide, name, map[string]string{"sender_bytes": hexs(wb)})
		m["narrow_schema_text"] = narrow.Text
		m["narrow_schema_file"] = narrow.File.Path
		return m
	}
	// direct: receiver reads the sender's bytes
	direct := wide.New[name]()
	if et, bad := realUnmarshal(append([]byte(nil), wb...), direct); et != "" || bad != "" {
		c.disagree(Disagreement{Kind: "accept!=wellformed", Check: "forward-direct-decode", Case: cs(), Got: map[string]string{"err": et, "panic": bad}})
		return nil
	}
	want := wide.Reg.FromStruct(name, direct).String()
	// intermediary
	mid := narrow.New[name]()
	if et, bad := realUnmarshal(append([]byte(nil), wb...), mid); et != "" || bad != "" {
		c.disagree(Disagreement{Kind: "accept!=wellformed", Check: "forward-intermediary-decode", Case: cs(), Got: map[string]string{"err": et, "panic": bad}})
		return nil
	}
	midVal := narrow.Reg.FromStruct(name, mid)
	// captured bytes: exactly the unknown records, minimal tags, original order
	if nm := narrow.File.Msg(name); nm.Capture {
		known := map[int32]bool{}
		for _, fd := range nm.Fields {
			known[fd.Num] = true
		}
		recs, ok := gen.Split(wb)
		if ok {
			var unk []gen.Record
			for _, r := range recs {
				if !known[int32(r.Num)] {
					unk = append(unk, r)
				}
			}
			exp := gen.NormUnknown(gen.Join(unk))
			if string(exp) != string(midVal.B) {
				c.disagree(Disagreement{Kind: "capture", Check: "forward-captured-bytes", Case: cs(), Got: map[string]string{"captured": hexs(midVal.B), "expected": hexs(exp)}})
			}
		}
	}
	nb, bad := realMarshal(mid)
	if bad != "" {
		c.disagree(Disagreement{Kind: "panic", Check: "forward-intermediary-marshal", Case: cs(), Got: map[string]string{"real": bad}})
		return nil
	}
	recv := wide.New[name]()
	et, bad := realUnmarshal(append([]byte(nil), nb...), recv)
	if et != "" || bad != "" {
		c.disagree(Disagreement{Kind: "accept!=wellformed", Check: "forward-receiver-decode", Case: cs(), Got: map[string]string{"err": et, "panic": bad, "forwarded": hexs(nb)}})
		return nil
	}
	got := wide.Reg.FromStruct(name, recv).String()
	if got != want {
		c.disagree(Disagreement{Kind: "forward", Check: "forward-recovers-all-fields", Case: cs(), Got: map[string]string{"direct": short(want), "via_intermediary": short(got), "diff": firstDiff(want, got), "forwarded": hexs(nb)}})
	}
	// the reference receiver sees the same
	ref := wide.Ref.New(name)
	if err := proto.Unmarshal(nb, ref); err == nil && !hasSingularCast(wide, name) {
		rv := c.normUnrec(wide.Ref.ToVal(name, ref)).String()
		if rv != got {
			c.disagree(Disagreement{Kind: "real!=ref", Check: "forward-reference-receiver", Case: cs(), Got: map[string]string{"real": short(got), "ref": short(rv), "diff": firstDiff(got, rv)}})
		}
	}
	// model: the same chain
	if c.model != nil {
		id := wide.File.MsgIndex(name)
		nid := narrow.File.MsgIndex(name)
		a, err := c.model.Ask([]string{"schema " + narrow.Text, fmt.Sprintf("unmarshal %d %s %s", nid, hexs(wb), gen.Zero(narrow.File, name).String())})
		if err != nil {
			return err
		}
		if !strings.HasPrefix(a[1], "ok ") {
			c.disagree(Disagreement{Kind: "real!=model", Check: "forward-intermediary-decode", Case: cs(), Got: map[string]string{"model": short(a[1])}})
			return nil
		}
		mv, perr := val.Parse(strings.TrimPrefix(a[1], "ok "))
		if perr != nil {
			return perr
		}
		if mv.String() != midVal.String() {
			c.disagree(Disagreement{Kind: "real!=model", Check: "forward-intermediary-decode", Case: cs(), Got: map[string]string{"diff": firstDiff(midVal.String(), mv.String())}})
		}
		b, err := c.model.Ask([]string{fmt.Sprintf("marshal %d %s", nid, mv.OrderedString())})
		if err != nil {
			return err
		}
		if !c.sameHex(narrow, name, b[0], nb) {
			c.disagree(Disagreement{Kind: "real!=model", Check: "forward-intermediary-marshal", Case: cs(), Got: map[string]string{"real": hexs(nb), "model": short(b[0])}})
		}
		d, err := c.model.Ask([]string{"schema " + wide.Text, fmt.Sprintf("unmarshal %d %s %s", id, hexs(nb), gen.Zero(wide.File, name).String())})
		if err != nil {
			return err
		}
		if d[1] != "ok "+got {
			c.disagree(Disagreement{Kind: "real!=model", Check: "forward-receiver-decode", Case: cs(), Got: map[string]string{"diff": firstDiff("ok "+got, d[1])}})
		}
	}
	return nil
}
