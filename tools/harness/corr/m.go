package corr

import (
	"bytes"
	"encoding/hex"
	"fmt"
	"reflect"
	"sort"
	"strings"
	"time"

	"google.golang.org/protobuf/encoding/protowire"
	"google.golang.org/protobuf/proto"

	"storj.io/picobuf"
	"storj.io/picobuf/verifharness/gen"
	"storj.io/picobuf/verifharness/schema"
	"storj.io/picobuf/verifharness/val"
)

type pending struct {
	ops    []string
	verify func(ans []string)
}

type batch struct {
	c     *ctx
	text  string
	items []pending
	nops  int
}

func (b *batch) add(p pending) error {
	b.items = append(b.items, p)
	b.nops += len(p.ops)
	if b.nops >= 400 {
		return b.flush()
	}
	return nil
}

func (b *batch) flush() error {
	if len(b.items) == 0 {
		return nil
	}
	if b.c.model == nil {
		b.items, b.nops = nil, 0
		return nil
	}
	ops := []string{"schema " + b.text}
	for _, it := range b.items {
		ops = append(ops, it.ops...)
	}
	ans, err := b.c.model.Ask(ops)
	if err != nil {
		return err
	}
	if ans[0] != "ok" {
		return fmt.Errorf("model rejected schema: %s", ans[0])
	}
	k := 1
	for _, it := range b.items {
		it.verify(ans[k : k+len(it.ops)])
		k += len(it.ops)
	}
	b.items, b.nops = nil, 0
	return nil
}

func hexs(b []byte) string {
	if len(b) == 0 {
		return "-"
	}
	return hex.EncodeToString(b)
}

// firstDiff describes where two token strings start to differ.
func firstDiff(a, b string) string {
	ta, tb := strings.Fields(a), strings.Fields(b)
	i := 0
	for i < len(ta) && i < len(tb) && ta[i] == tb[i] {
		i++
	}
	lo := i - 6
	if lo < 0 {
		lo = 0
	}
	hiA, hiB := i+6, i+6
	if hiA > len(ta) {
		hiA = len(ta)
	}
	if hiB > len(tb) {
		hiB = len(tb)
	}
	return fmt.Sprintf("token %d: …%s… vs …%s…", i, short(strings.Join(ta[lo:hiA], " ")), short(strings.Join(tb[lo:hiB], " ")))
}

func short(s string) string {
	if len(s) > 1500 {
		return s[:1500] + "…(" + fmt.Sprint(len(s)) + " chars)"
	}
	return s
}

var detMarshal = proto.MarshalOptions{Deterministic: true}

// realMarshal runs picobuf.Marshal under recover.
func realMarshal(msg picobuf.Message) (b []byte, bad string) {
	p, to := guarded(20*time.Second, func() {
		var err error
		b, err = picobuf.Marshal(msg)
		if err != nil {
			bad = "error: " + err.Error()
		}
	})
	if to {
		return nil, "timeout"
	}
	if p != "" {
		return nil, p
	}
	return b, bad
}

// realUnmarshal runs picobuf.Unmarshal under recover; errText is "" for a nil error.
func realUnmarshal(data []byte, msg picobuf.Message) (errText string, bad string) {
	p, to := guarded(20*time.Second, func() {
		if err := picobuf.Unmarshal(data, msg); err != nil {
			errText = err.Error()
			if errText == "" {
				errText = "(empty error text)"
			}
		}
	})
	if to {
		return "", "timeout"
	}
	return errText, p
}

// sortRecords stably sorts the records of every level by field number (oneof placement, DESIGN 8).
func sortRecordsTop(b []byte) []byte {
	recs, ok := gen.Split(b)
	if !ok {
		return b
	}
	sort.SliceStable(recs, func(i, j int) bool { return recs[i].Num < recs[j].Num })
	return gen.Join(recs)
}

func (c *ctx) sortRecordsDeep(l *Loaded, name string, b []byte) []byte {
	m := l.File.Msg(name)
	recs, ok := gen.Split(b)
	if !ok || m == nil {
		return b
	}
	byNum := map[int32]*schema.Field{}
	for i := range m.Fields {
		byNum[m.Fields[i].Num] = &m.Fields[i]
	}
	for i, rec := range recs {
		fd := byNum[int32(rec.Num)]
		if fd != nil && fd.Kind == "message" && fd.Cast == "" && rec.Typ == protowire.BytesType {
			payload, n := protowire.ConsumeBytes(rec.Val)
			if n >= 0 {
				sub := c.sortRecordsDeep(l, fd.Ref, payload)
				recs[i].Val = protowire.AppendBytes(nil, sub)
			}
		}
	}
	key := func(r gen.Record) int64 {
		if byNum[int32(r.Num)] == nil {
			return 1 << 40 // unknown (captured) fields stay last, in their original order
		}
		return int64(r.Num)
	}
	sort.SliceStable(recs, func(i, j int) bool {
		if key(recs[i]) != key(recs[j]) {
			return key(recs[i]) < key(recs[j])
		}
		if byNum[int32(recs[i].Num)] == nil {
			return false
		}
		// entries of one map field: Go iteration order is random, compare as a multiset
		if fd := byNum[int32(recs[i].Num)]; fd != nil && fd.Kind == "map" {
			return bytes.Compare(recs[i].Val, recs[j].Val) < 0
		}
		return false
	})
	return gen.Join(recs)
}

// sameBytes: equality, modulo the iteration order of map entries when the message has maps.
func (c *ctx) sameBytes(l *Loaded, name string, a, b []byte) bool {
	if bytes.Equal(a, b) {
		return true
	}
	if !hasMap(l, name) || len(a) != len(b) {
		return false
	}
	return bytes.Equal(c.sortRecordsDeep(l, name, a), c.sortRecordsDeep(l, name, b))
}

func (c *ctx) sameHex(l *Loaded, name string, h string, b []byte) bool {
	if h == "-" {
		return len(b) == 0
	}
	a, err := hex.DecodeString(h)
	return err == nil && c.sameBytes(l, name, a, b)
}

func hasMap(l *Loaded, name string) bool {
	for _, n := range l.File.Reachable(name) {
		for _, fd := range l.File.Msg(n).Fields {
			if fd.Kind == "map" {
				return true
			}
		}
	}
	return false
}

func (c *ctx) valOpts() gen.ValOpts {
	o := gen.ValOpts{MaxDepth: 3, DefaultContent: 15, QuietFloat32: true}
	if c.has("presence") && c.r.Intn(2) == 0 {
		o.DefaultContent = 100
	}
	switch c.r.Intn(6) {
	case 0:
		o.DefaultContent = 100
	case 1:
		o.DefaultContent = 60
	case 2:
		o.MaxDepth = 5
	}
	budget := 250
	if c.tier == "thorough" {
		o.Big = c.r.Intn(6) == 0
		budget = 1500
	}
	o.Budget = &budget
	return o
}

// normUnrec minimal-tags the captured bytes of every capture message in a value (what picobuf's
// capture does to the tags), so that reference and real can be compared.
func (c *ctx) normUnrec(v val.Val) val.Val {
	switch v.K {
	case val.Msg:
		out := v
		out.Elems = make([]val.Val, len(v.Elems))
		for i, e := range v.Elems {
			out.Elems[i] = c.normUnrec(e)
		}
		out.B = gen.NormUnknown(v.B)
		return out
	case val.List, val.Some:
		out := v
		out.Elems = make([]val.Val, len(v.Elems))
		for i, e := range v.Elems {
			out.Elems[i] = c.normUnrec(e)
		}
		return out
	}
	return v
}

func caseOf(l *Loaded, name string, extra map[string]string) map[string]string {
	m := map[string]string{"schema_file": l.File.Path, "source": l.Source, "message": name, "schema_text": l.Text,
		"msg_id": fmt.Sprint(l.File.MsgIndex(name))}
	for k, v := range extra {
		m[k] = short(v)
	}
	return m
}

// streamM: messages through real Marshal/Unmarshal, the model, the spec and the reference.
func (c *ctx) streamM() error {
	c.rep.Rule = "random well-typed values (boundary-biased scalars, presence slots at default content, sizes around length-prefix classes) of every modelled message type of the checked-in and fresh schemas; reference encodings closed under wire rewrites; mutated encodings; concatenations. distinct = distinct (message type, canonical value or input bytes); trivial (empty encoding) cases are not counted"
	type root struct {
		l    *Loaded
		name string
	}
	var roots []root
	for _, l := range c.entries {
		if l.NarrowOf != "" {
			continue
		}
		for _, n := range gen.Roots(l.File) {
			if l.File.Modelled(n) && l.New[n] != nil {
				if c.has("maps") && !hasMap(l, n) {
					continue
				}
				if c.has("fresh") && l.Source != "fresh" {
					continue
				}
				roots = append(roots, root{l, n})
			}
		}
	}
	if len(roots) == 0 {
		return fmt.Errorf("no modelled message types")
	}
	c.count(fmt.Sprintf("roots=%d", len(roots)))
	per := c.n / len(roots)
	if per < 2 {
		per = 2
	}
	for _, rt := range roots {
		b := &batch{c: c, text: rt.l.Text}
		for i := 0; i < per; i++ {
			if err := c.caseM(b, rt.l, rt.name); err != nil {
				return err
			}
		}
		if err := b.flush(); err != nil {
			return err
		}
	}
	if c.want("forward") {
		if err := c.forwardCompat(); err != nil {
			return err
		}
	}
	if c.want("enc") {
		for i := 0; i < 8+c.n/150; i++ {
			rt := roots[c.r.Intn(len(roots))]
			c.historyCase(rt.l, rt.name)
		}
	}
	if c.want("enc") && c.tier == "thorough" {
		for _, rt := range roots {
			if c.hugeNestedCase(rt.l, rt.name) {
				break
			}
		}
	}
	if c.want("enc") || c.want("dec") {
		for _, rt := range roots {
			c.nilMessageCase(rt.l, rt.name)
		}
	}
	return nil
}

// nilMessageCase (C01, C04): Marshal of a nil *T returns the empty encoding and Unmarshal into a nil
// *T returns — neither panics (every generated Encode/Decode starts with a nil-receiver guard).
func (c *ctx) nilMessageCase(l *Loaded, name string) {
	nilMsg, ok := reflect.Zero(reflect.TypeOf(l.New[name]())).Interface().(picobuf.Message)
	if !ok {
		return
	}
	c.count("nil_message_cases")
	c.rep.Evaluations++
	if c.want("enc") {
		out, bad := realMarshal(nilMsg)
		if bad != "" || len(out) != 0 {
			c.disagree(Disagreement{Kind: "panic", Check: "marshal", Case: caseOf(l, name, map[string]string{"what": "Marshal of a nil *" + name}),
				Got: map[string]string{"real": bad, "bytes": hexs(out)}})
		}
	}
	if c.want("dec") {
		v := gen.Message(c.r, l.File, name, c.valOpts(), 0)
		data, bad0 := realMarshal(l.Reg.ToStruct(name, v))
		if bad0 != "" {
			return
		}
		_, bad := realUnmarshal(data, nilMsg)
		if bad != "" {
			c.disagree(Disagreement{Kind: "panic", Check: "unmarshal", Case: caseOf(l, name, map[string]string{"what": "Unmarshal into a nil *" + name, "input": hexs(data)}),
				Got: map[string]string{"real": bad}})
		}
	}
}

// hugeNestedCase (thorough tier, about 1.5 GB of memory): a generated message whose SUB-message
// carries a string/bytes field of 2^28+5 bytes, so that the sub-message's length prefix is in the
// five-byte class. Marshal must return normally; the reference must parse the bytes back to a
// message whose nested field has that length. Returns false if the type has no such field.
func (c *ctx) hugeNestedCase(l *Loaded, name string) bool {
	m := l.File.Msg(name)
	for i := range m.Fields {
		fd := &m.Fields[i]
		if fd.Kind != "message" || fd.Label == "repeated" || fd.Oneof != "" || fd.Cast != "" || fd.Ref == name {
			continue
		}
		inner := gen.Zero(l.File, fd.Ref)
		inner, ok := withBigField(c, l, fd.Ref, inner, 1<<28+5)
		if !ok {
			continue
		}
		v := gen.Zero(l.File, name)
		if l.File.ShapeOf(fd).Pointer {
			v.Elems[i] = val.SomeOf(inner)
		} else {
			v.Elems[i] = inner
		}
		msg := l.Reg.ToStruct(name, v)
		data, bad := realMarshal(msg)
		c.rep.Evaluations++
		c.count("huge_nested_cases")
		okLen := len(data) > 1<<28+5 && len(data) < 1<<28+64
		if bad != "" || !okLen {
			c.disagree(Disagreement{Kind: "panic", Check: "marshal",
				Case: caseOf(l, name, map[string]string{"what": "sub-message " + fd.Name + " holding one string/bytes field of 2^28+5 bytes (five-byte length prefix)"}),
				Got:  map[string]string{"real": bad, "len": fmt.Sprint(len(data))}})
			return true
		}
		ref := l.Ref.New(name)
		if err := proto.Unmarshal(data, ref); err != nil {
			c.disagree(Disagreement{Kind: "real!=ref", Check: "reference-parses-marshal-output",
				Case: caseOf(l, name, map[string]string{"what": "sub-message " + fd.Name + " holding one string/bytes field of 2^28+5 bytes"}),
				Got:  map[string]string{"ref": "error: " + err.Error()}})
		}
		return true
	}
	return false
}

// withBigField puts a large string/bytes value into the first top-level string/bytes field.
func withBigField(c *ctx, l *Loaded, name string, v val.Val, size int) (val.Val, bool) {
	m := l.File.Msg(name)
	for i := range m.Fields {
		fd := &m.Fields[i]
		if (fd.Kind != "string" && fd.Kind != "bytes") || fd.Oneof != "" {
			continue
		}
		sh := l.File.ShapeOf(fd)
		big := val.Bs(gen.Str(c.r, size))
		switch {
		case sh.Repeated:
			v.Elems[i] = val.ListOf([]val.Val{big})
		case sh.Pointer:
			v.Elems[i] = val.SomeOf(big)
		default:
			v.Elems[i] = big
		}
		return v, true
	}
	return v, false
}

// historyCase (C17): a sequence of Marshal / MarshalBuffer calls whose results are all retained;
// after every call every earlier result must still hold the bytes it was returned with.
func (c *ctx) historyCase(l *Loaded, name string) {
	type kept struct {
		buf  []byte
		copy []byte
	}
	var results []kept
	var desc []string
	steps := 3 + c.r.Intn(3)
	for s := 0; s < steps; s++ {
		v := gen.Message(c.r, l.File, name, c.valOpts(), 0)
		if c.r.Intn(2) == 0 {
			size := []int{100, 3000, 4095, 4096, 4097, 5000, 20000, 70000}[c.r.Intn(8)]
			v, _ = withBigField(c, l, name, v, size)
		}
		msg := l.Reg.ToStruct(name, v)
		var out []byte
		useBuf := c.r.Intn(3) == 0
		p, _ := guarded(20*time.Second, func() {
			if useBuf {
				out, _ = picobuf.MarshalBuffer(msg, make([]byte, c.r.Intn(64), 64+c.r.Intn(9000)))
			} else {
				out, _ = picobuf.Marshal(msg)
			}
		})
		c.rep.Evaluations++
		desc = append(desc, fmt.Sprintf("%d bytes (buffer=%v)", len(out), useBuf))
		if p != "" {
			c.disagree(Disagreement{Kind: "panic", Check: "marshal", Case: caseOf(l, name, map[string]string{"value": v.String()}), Got: map[string]string{"real": p}})
			return
		}
		for j, k := range results {
			if !bytes.Equal(k.buf, k.copy) {
				c.disagree(Disagreement{Kind: "result-modified", Check: "earlier-result-unchanged", Case: caseOf(l, name, map[string]string{"history": strings.Join(desc, "; "), "modified_result": fmt.Sprint(j)}),
					Got: map[string]string{"diff": firstDiffHex(hexs(k.copy), hexs(k.buf))}})
				return
			}
		}
		results = append(results, kept{out, append([]byte(nil), out...)})
	}
}

func (c *ctx) caseM(b *batch, l *Loaded, name string) error {
	id := l.File.MsgIndex(name)
	v := gen.Message(c.r, l.File, name, c.valOpts(), 0)
	vs := v.String()
	c.rep.Evaluations++
	c.count("src=" + l.Source)

	// ---------------- encode direction
	msg := l.Reg.ToStruct(name, v)
	data, bad := realMarshal(msg)
	if bad != "" {
		c.disagree(Disagreement{Kind: "panic", Check: "marshal", Case: caseOf(l, name, map[string]string{"value": vs}), Got: map[string]string{"real": bad}})
		return nil
	}
	if len(data) > 0 {
		c.distinct(name + "|" + vs)
	}
	c.count(fmt.Sprintf("enc_len_class=%d", protowire.SizeVarint(uint64(len(data)))))
	c.sample(fmt.Sprintf("%s.%s value=%s bytes=%s", l.File.Path, name, vs, hexs(data)))
	dh := hexs(data)
	cs := func(extra map[string]string) map[string]string {
		e := map[string]string{"value": vs, "real_bytes": dh}
		for k, x := range extra {
			e[k] = x
		}
		return caseOf(l, name, e)
	}
	// message unchanged by Marshal (C17)
	if after := l.Reg.FromStruct(name, msg).String(); after != vs {
		c.disagree(Disagreement{Kind: "argument-modified", Check: "marshal-leaves-message", Case: cs(nil), Got: map[string]string{"after": short(after)}})
	}
	// the returned bytes are the caller's: they share no memory with the message (C17)
	if c.want("enc") {
		c.aliasOracle(l, name, msg, v, data, cs)
	}
	// a nil element of a repeated message field is written as an empty element, never dropped (C08)
	if c.want("enc") {
		c.nilElementOracle(l, name, msg, cs)
		c.nilOneofOracle(msg, cs)
	}
	// reference parses it back to the same values and presence (C01)
	if c.want("enc") {
		ref := l.Ref.New(name)
		if err := proto.Unmarshal(data, ref); err != nil {
			c.disagree(Disagreement{Kind: "real!=ref", Check: "reference-parses-marshal-output", Case: cs(nil), Got: map[string]string{"ref": "error: " + err.Error()}})
		} else {
			rv := c.normUnrec(l.Ref.ToVal(name, ref)).String()
			if rv != c.normUnrec(v).String() {
				c.disagree(Disagreement{Kind: "real!=ref", Check: "reference-parses-marshal-output", Case: cs(nil), Got: map[string]string{"ref_value": short(rv), "diff": firstDiff(c.normUnrec(v).String(), rv)}})
			}
			// canonical bytes (C06): map-free messages only
			if !hasMap(l, name) {
				rb, err := detMarshal.Marshal(ref)
				if err == nil {
					if !bytes.Equal(rb, data) {
						srt := c.sortRecordsDeep(l, name, rb)
						if bytes.Equal(srt, data) {
							c.count("canonical_needed_oneof_sort")
						} else {
							c.disagree(Disagreement{Kind: "real!=ref", Check: "canonical-bytes", Case: cs(nil), Got: map[string]string{"ref_bytes": hexs(rb), "diff": firstDiffHex(hexs(data), hexs(rb))}})
						}
					} else {
						c.count("canonical_equal")
					}
				}
			}
		}
		// MarshalBuffer with adversarial buffers (C17)
		for _, buf := range dirtyBuffers(c, len(data)) {
			var got []byte
			p, _ := guarded(20*time.Second, func() { got, _ = picobuf.MarshalBuffer(msg, buf) })
			if p != "" || !c.sameBytes(l, name, got, data) {
				c.disagree(Disagreement{Kind: "real!=real", Check: "marshalbuffer-equals-marshal", Case: cs(map[string]string{"buffer_len": fmt.Sprint(len(buf)), "buffer_cap": fmt.Sprint(cap(buf))}), Got: map[string]string{"marshalbuffer": hexs(got), "panic": p}})
				break
			}
		}
	}
	// round trip on the real code (C03, C08)
	fresh := l.New[name]()
	et, bad := realUnmarshal(append([]byte(nil), data...), fresh)
	rts := ""
	if bad != "" {
		c.disagree(Disagreement{Kind: "panic", Check: "unmarshal-own-output", Case: cs(nil), Got: map[string]string{"real": bad}})
	} else {
		rts = l.Reg.FromStruct(name, fresh).String()
		if et != "" || rts != vs {
			c.disagree(Disagreement{Kind: "roundtrip", Check: "unmarshal-marshal-identity", Case: cs(nil), Got: map[string]string{"err": et, "decoded": short(rts), "diff": firstDiff(vs, rts)}})
		}
	}
	zero := gen.Zero(l.File, name).String()
	ops := []string{
		fmt.Sprintf("marshal %d %s", id, v.OrderedString()),
		fmt.Sprintf("specenc %d %s", id, v.OrderedString()),
		fmt.Sprintf("unmarshal %d %s %s", id, dh, zero),
		fmt.Sprintf("specdec %d %s %s", id, dh, zero),
		fmt.Sprintf("wt 1 %d %s", id, v.OrderedString()),
	}
	if err := b.add(pending{ops: ops, verify: func(ans []string) {
		if ans[4] != "1" {
			// the theorems' hypothesis must cover what the generator produces (non-vacuity)
			c.disagree(Disagreement{Kind: "model!=spec", Check: "generated-value-is-welltyped", Case: cs(nil), Got: map[string]string{"wtMsg": ans[4]}})
		}
		if ans[0] != dh && !c.sameHex(l, name, ans[0], data) {
			c.disagree(Disagreement{Kind: "real!=model", Check: "marshal", Case: cs(nil), Got: map[string]string{"model": short(ans[0])}})
		}
		if ans[1] != ans[0] {
			c.disagree(Disagreement{Kind: "model!=spec", Check: "marshal", Case: cs(nil), Got: map[string]string{"model": short(ans[0]), "spec": short(ans[1])}})
		}
		if bad == "" {
			want := "ok " + rts
			if et != "" {
				want = "err " + strings.ReplaceAll(et, " ", "_") + " " + rts
			}
			if ans[2] != want {
				c.disagree(Disagreement{Kind: "real!=model", Check: "unmarshal-own-output", Case: cs(nil), Got: map[string]string{"real": short(want), "model": short(ans[2]), "diff": firstDiff(want, ans[2])}})
			}
			if ans[3] != "ok "+vs {
				c.disagree(Disagreement{Kind: "spec", Check: "spec-roundtrip", Case: cs(nil), Got: map[string]string{"spec": short(ans[3]), "diff": firstDiff("ok "+vs, ans[3])}})
			}
		}
	}}); err != nil {
		return err
	}

	// ---------------- decode direction: reference encoding, rewritten
	if c.want("dec") {
		refMsg := l.Ref.FromVal(name, v)
		rb, err := detMarshal.Marshal(refMsg)
		if err != nil {
			c.count("ref_marshal_error")
		} else {
			w := &gen.Rewriter{R: c.r, F: l.File}
			in := rb
			if c.r.Intn(4) != 0 {
				in = w.Rewrite(name, rb, 0)
			}
			c.decodeCase(b, l, name, in, zero, "valid")
			// concatenation (C09)
			if c.want("concat") && (c.has("concat") || c.r.Intn(3) == 0) {
				v2 := gen.Message(c.r, l.File, name, c.valOpts(), 0)
				if rb2, err := detMarshal.Marshal(l.Ref.FromVal(name, v2)); err == nil {
					in2 := w.Rewrite(name, rb2, 0)
					c.concatCase(b, l, name, in, in2)
				}
			}
			// malformed (C04, C05)
			if c.want("malformed") {
				k := 1 + c.r.Intn(2)
				for i := 0; i < k; i++ {
					mut := gen.Mutate(c.r, in)
					c.decodeCase(b, l, name, mut, zero, "mutated")
				}
				if rg, ok := w.Ragged(name, in); ok {
					c.decodeCase(b, l, name, rg, zero, "ragged")
				}
				if c.r.Intn(3) == 0 {
					if bg, ok := w.BadGroup(name, in); ok {
						c.decodeCase(b, l, name, bg, zero, "badgroup")
					}
				}
				if len(in) > 0 && c.r.Intn(4) == 0 {
					// every prefix of a valid encoding
					step := 1
					if len(in) > 64 {
						step = len(in) / 40
					}
					for p := 0; p < len(in); p += step {
						c.decodeCase(b, l, name, in[:p], zero, "prefix")
					}
				}
			}
		}
	}
	return nil
}

func dirtyBuffers(c *ctx, n int) [][]byte {
	ff := func(k int) []byte {
		b := make([]byte, k)
		for i := range b {
			b[i] = 0xff
		}
		return b
	}
	out := [][]byte{nil, ff(n), ff(n + 7)[:n], ff(2*n + 64)}
	if n > 3 {
		out = append(out, ff(n/2), ff(n-1), ff(n + 1)[:1])
	}
	return out
}

// decodeCase: real Unmarshal vs reference vs model vs spec on one input.
func (c *ctx) decodeCase(b *batch, l *Loaded, name string, in []byte, startText string, class string) {
	id := l.File.MsgIndex(name)
	c.rep.Evaluations++
	c.count("dec_class=" + class)
	ih := hexs(in)
	if len(in) > 0 {
		c.distinct(name + "|in|" + ih)
	}
	cs := func() map[string]string {
		return caseOf(l, name, map[string]string{"input": ih, "class": class})
	}
	keep := append([]byte(nil), in...)
	msg := l.New[name]()
	et, bad := realUnmarshal(in, msg)
	if bad != "" {
		c.disagree(Disagreement{Kind: "panic", Check: "unmarshal", Case: cs(), Got: map[string]string{"real": bad}})
		return
	}
	if !bytes.Equal(keep, in) {
		c.disagree(Disagreement{Kind: "input-mutated", Check: "unmarshal-leaves-input", Case: cs(), Got: map[string]string{"after": hexs(in)}})
	}
	got := l.Reg.FromStruct(name, msg).String()
	wf := wellFormed(l.File, name, keep, 0)
	if wf {
		c.count("dec_wellformed")
	} else {
		c.count("dec_malformed")
	}
	// C05: nil error exactly on well-formed input
	if (et == "") != wf {
		c.disagree(Disagreement{Kind: "accept!=wellformed", Check: "ok-iff-wellformed", Case: cs(), Got: map[string]string{"real_err": et, "wellformed": fmt.Sprint(wf)}})
	}
	// C02: on valid input the reference decodes to the same values
	if wf && class != "mutated" && class != "prefix" {
		ref := l.Ref.New(name)
		if err := proto.Unmarshal(keep, ref); err != nil {
			c.count("ref_rejects_valid:" + firstWords(err.Error()))
		} else {
			rv := c.normUnrec(l.Ref.ToVal(name, ref)).String()
			if rv != got {
				c.disagree(Disagreement{Kind: "real!=ref", Check: "unmarshal-matches-reference", Case: cs(), Got: map[string]string{"real": short(got), "ref": short(rv), "diff": firstDiff(got, rv)}})
			}
		}
	}
	ops := []string{
		fmt.Sprintf("unmarshal %d %s %s", id, ih, startText),
		fmt.Sprintf("specdec %d %s %s", id, ih, startText),
	}
	b.add(pending{ops: ops, verify: func(ans []string) {
		want := "ok " + got
		if et != "" {
			want = "err " + strings.ReplaceAll(et, " ", "_") + " " + got
		}
		if ans[0] != want {
			c.disagree(Disagreement{Kind: "real!=model", Check: "unmarshal", Case: cs(), Got: map[string]string{"real": short(want), "model": short(ans[0]), "diff": firstDiff(want, ans[0])}})
		}
		// spec: none iff error; same value when ok
		if et == "" {
			if ans[1] != "ok "+got {
				c.disagree(Disagreement{Kind: "real!=spec", Check: "unmarshal", Case: cs(), Got: map[string]string{"real": short(want), "spec": short(ans[1]), "diff": firstDiff(want, ans[1])}})
			}
		} else if ans[1] != "none" {
			c.disagree(Disagreement{Kind: "real!=spec", Check: "unmarshal-error", Case: cs(), Got: map[string]string{"real": short(want), "spec": short(ans[1])}})
		}
	}})
}

func firstDiffHex(a, b string) string {
	i := 0
	for i < len(a) && i < len(b) && a[i] == b[i] {
		i++
	}
	lo := i - 24
	if lo < 0 {
		lo = 0
	}
	ha, hb := i+40, i+40
	if ha > len(a) {
		ha = len(a)
	}
	if hb > len(b) {
		hb = len(b)
	}
	return fmt.Sprintf("byte %d (lens %d/%d): …%s vs …%s", i/2, len(a)/2, len(b)/2, a[lo:ha], b[lo:hb])
}

// hasSingularCast: the message (transitively) has a non-repeated picoconv field, whose merge of two
// occurrences is "last one wins" by design rather than protobuf's field-by-field merge.
func hasSingularCast(l *Loaded, name string) bool {
	for _, n := range l.File.Reachable(name) {
		for _, fd := range l.File.Msg(n).Fields {
			if fd.Cast != "" && fd.Label != "repeated" {
				return true
			}
		}
	}
	return false
}

func firstWords(s string) string {
	f := strings.Fields(s)
	if len(f) > 4 {
		f = f[:4]
	}
	return strings.Join(f, "_")
}

// concatCase (C09): a then b into one message == a||b in one call == reference(a||b).
func (c *ctx) concatCase(b *batch, l *Loaded, name string, x, y []byte) {
	id := l.File.MsgIndex(name)
	c.rep.Evaluations++
	c.count("concat")
	cs := func() map[string]string {
		return caseOf(l, name, map[string]string{"a": hexs(x), "b": hexs(y)})
	}
	m1 := l.New[name]()
	e1, bad1 := realUnmarshal(append([]byte(nil), x...), m1)
	var e2, bad2 string
	if bad1 == "" {
		e2, bad2 = realUnmarshal(append([]byte(nil), y...), m1)
	}
	m2 := l.New[name]()
	xy := append(append([]byte(nil), x...), y...)
	e3, bad3 := realUnmarshal(xy, m2)
	if bad1+bad2+bad3 != "" {
		c.disagree(Disagreement{Kind: "panic", Check: "concat", Case: cs(), Got: map[string]string{"real": bad1 + bad2 + bad3}})
		return
	}
	seq := l.Reg.FromStruct(name, m1).String()
	one := l.Reg.FromStruct(name, m2).String()
	if e1 != "" || e2 != "" || e3 != "" {
		c.disagree(Disagreement{Kind: "accept!=wellformed", Check: "concat-valid-inputs-accepted", Case: cs(), Got: map[string]string{"e1": e1, "e2": e2, "e3": e3}})
		return
	}
	if seq != one {
		c.disagree(Disagreement{Kind: "real!=real", Check: "concat-equals-sequential", Case: cs(), Got: map[string]string{"sequential": short(seq), "one_call": short(one)}})
	}
	// the same two calls reading from ONE reused buffer (a network read buffer): what was decoded from
	// the first input must not change when the buffer is overwritten with the second. `bytes` fields
	// alias the input by design, so this is checked for message types without any bytes field.
	if !hasBytesField(l.File, name, map[string]bool{}) {
		buf := make([]byte, len(x)+len(y)+8)
		m3 := l.New[name]()
		copy(buf, x)
		e4, bad4 := realUnmarshal(buf[:len(x):len(x)], m3)
		for i := range buf {
			buf[i] = 0xAA
		}
		copy(buf, y)
		e5, bad5 := realUnmarshal(buf[:len(y):len(y)], m3)
		for i := range buf {
			buf[i] = 0x55
		}
		c.count("concat_reused_buffer")
		if bad4+bad5 != "" || e4 != "" || e5 != "" {
			c.disagree(Disagreement{Kind: "real!=real", Check: "concat-with-reused-buffer", Case: cs(), Got: map[string]string{"real": bad4 + bad5 + e4 + e5}})
		} else if reused := l.Reg.FromStruct(name, m3).String(); reused != seq {
			c.disagree(Disagreement{Kind: "real!=real", Check: "concat-with-reused-buffer", Case: cs(), Got: map[string]string{"separate_buffers": short(seq), "reused_buffer": short(reused), "diff": firstDiff(seq, reused)}})
		}
	}
	ref := l.Ref.New(name)
	if hasSingularCast(l, name) {
		c.count("concat_ref_skipped_custom_merge")
	} else if err := proto.Unmarshal(xy, ref); err == nil {
		rv := c.normUnrec(l.Ref.ToVal(name, ref)).String()
		if rv != one {
			c.disagree(Disagreement{Kind: "real!=ref", Check: "concat-matches-reference", Case: cs(), Got: map[string]string{"real": short(one), "ref": short(rv)}})
		}
	}
	zero := gen.Zero(l.File, name).String()
	ops := []string{fmt.Sprintf("specdec %d %s %s", id, hexs(x), zero)}
	b.add(pending{ops: ops, verify: func(ans []string) {
		// spec: decoding b from the result of a equals the one-call result (checked again through the model below)
		if !strings.HasPrefix(ans[0], "ok ") {
			c.disagree(Disagreement{Kind: "real!=spec", Check: "concat-first-part", Case: cs(), Got: map[string]string{"spec": short(ans[0])}})
		}
	}})
}

// wellFormed is an independent Go predicate for C05, written on the *reference* protowire package:
// complete records, valid numbers, balanced groups, allowed wire types for known fields,
// recursively through known sub-messages, map entries, packed fields and picoconv payloads.
func wellFormed(f *schema.File, name string, b []byte, depth int) bool {
	m := f.Msg(name)
	byNum := map[int32]*schema.Field{}
	if m != nil {
		for i := range m.Fields {
			byNum[m.Fields[i].Num] = &m.Fields[i]
		}
	}
	for len(b) > 0 {
		num, typ, n := protowire.ConsumeTag(b)
		if n < 0 || num < 1 || num > protowire.MaxValidNumber {
			return false
		}
		b = b[n:]
		vn := protowire.ConsumeFieldValue(num, typ, b)
		if vn < 0 {
			return false
		}
		raw := b[:vn]
		b = b[vn:]
		fd := byNum[int32(num)]
		if fd == nil {
			continue
		}
		if !wfField(f, fd, typ, raw, depth) {
			return false
		}
	}
	return true
}

func scalarWire(kind string) protowire.Type {
	switch kind {
	case "fixed32", "sfixed32", "float":
		return protowire.Fixed32Type
	case "fixed64", "sfixed64", "double":
		return protowire.Fixed64Type
	case "string", "bytes":
		return protowire.BytesType
	}
	return protowire.VarintType
}

func wfPacked(kind string, payload []byte) bool {
	t := scalarWire(kind)
	for len(payload) > 0 {
		n := protowire.ConsumeFieldValue(1, t, payload)
		if n < 0 {
			return false
		}
		payload = payload[n:]
	}
	return true
}

func wfSecNanos(payload []byte) bool {
	for len(payload) > 0 {
		num, typ, n := protowire.ConsumeTag(payload)
		if n < 0 || num < 1 || num > protowire.MaxValidNumber {
			return false
		}
		payload = payload[n:]
		vn := protowire.ConsumeFieldValue(num, typ, payload)
		if vn < 0 {
			return false
		}
		if (num == 1 || num == 2) && typ != protowire.VarintType {
			return false
		}
		payload = payload[vn:]
	}
	return true
}

func wfField(f *schema.File, fd *schema.Field, typ protowire.Type, raw []byte, depth int) bool {
	kind := fd.Kind
	switch kind {
	case "map":
		if typ != protowire.BytesType {
			return false
		}
		payload, _ := protowire.ConsumeBytes(raw)
		for len(payload) > 0 {
			num, t, n := protowire.ConsumeTag(payload)
			if n < 0 || num < 1 || num > protowire.MaxValidNumber {
				return false
			}
			payload = payload[n:]
			vn := protowire.ConsumeFieldValue(num, t, payload)
			if vn < 0 {
				return false
			}
			if num == 1 && t != scalarWire(fd.MapKey) {
				return false
			}
			if num == 2 && t != scalarWire(fd.MapVal) {
				return false
			}
			payload = payload[vn:]
		}
		return true
	case "message":
		if typ != protowire.BytesType {
			return false
		}
		payload, _ := protowire.ConsumeBytes(raw)
		if fd.Cast != "" {
			return wfSecNanos(payload)
		}
		return wellFormed(f, fd.Ref, payload, depth+1)
	case "enum":
		kind = "int32"
	}
	want := scalarWire(kind)
	if typ == want {
		return true
	}
	if fd.Label == "repeated" && typ == protowire.BytesType && want != protowire.BytesType {
		payload, _ := protowire.ConsumeBytes(raw)
		return wfPacked(kind, payload)
	}
	return false
}

var picoMessageType = reflect.TypeOf((*picobuf.Message)(nil)).Elem()

// nilOneofOracle: a selected oneof member whose wrapper holds a nil sub-message pointer is a legal Go
// value; Marshal must not panic on it and must leave it as it is (C17: the message is never modified).
func (c *ctx) nilOneofOracle(msg picobuf.Message, cs func(map[string]string) map[string]string) {
	rv := reflect.ValueOf(msg)
	if rv.Kind() != reflect.Ptr || rv.Elem().Kind() != reflect.Struct {
		return
	}
	st := rv.Elem()
	for i := 0; i < st.NumField(); i++ {
		f := st.Field(i)
		if f.Kind() != reflect.Interface || f.IsNil() || !f.CanSet() {
			continue
		}
		w := f.Elem()
		if w.Kind() != reflect.Ptr || w.IsNil() || w.Elem().Kind() != reflect.Struct || w.Elem().NumField() != 1 {
			continue
		}
		inner := w.Elem().Field(0)
		if inner.Kind() != reflect.Ptr || inner.Type().Elem().Kind() != reflect.Struct || !inner.Type().Implements(picoMessageType) || !inner.CanSet() {
			continue
		}
		saved := reflect.New(inner.Type()).Elem()
		saved.Set(inner)
		inner.Set(reflect.Zero(inner.Type()))
		_, bad := realMarshal(msg)
		changed := !inner.IsNil()
		inner.Set(saved)
		c.count("nil_oneof_member_cases")
		if bad != "" {
			c.disagree(Disagreement{Kind: "panic", Check: "marshal", Case: cs(map[string]string{"what": "oneof wrapper holding a nil sub-message"}), Got: map[string]string{"real": bad}})
		}
		if changed {
			c.disagree(Disagreement{Kind: "argument-modified", Check: "marshal-leaves-message",
				Case: cs(map[string]string{"field_index": fmt.Sprint(i), "what": "the nil sub-message of a selected oneof member was allocated by Marshal"})})
		}
		return
	}
}

// nilElementOracle: for every field `[]*T` (T a generated message) with at least one element, the
// message with element i set to nil marshals to the same bytes as with element i set to an empty T:
// repeated message elements are never dropped (the reference has no nil elements; an absent element
// would shift every later one).
func (c *ctx) nilElementOracle(l *Loaded, name string, msg picobuf.Message, cs func(map[string]string) map[string]string) {
	rv := reflect.ValueOf(msg)
	if rv.Kind() != reflect.Ptr || rv.Elem().Kind() != reflect.Struct {
		return
	}
	st := rv.Elem()
	for i := 0; i < st.NumField(); i++ {
		f := st.Field(i)
		if f.Kind() != reflect.Slice || f.Len() == 0 || !f.CanSet() {
			continue
		}
		et := f.Type().Elem()
		if et.Kind() != reflect.Ptr || et.Elem().Kind() != reflect.Struct || !et.Implements(picoMessageType) {
			continue
		}
		k := c.r.Intn(f.Len())
		saved := reflect.New(et).Elem()
		saved.Set(f.Index(k))
		f.Index(k).Set(reflect.Zero(et))
		withNil, bad1 := realMarshal(msg)
		if !f.Index(k).IsNil() {
			c.disagree(Disagreement{Kind: "argument-modified", Check: "marshal-leaves-message",
				Case: cs(map[string]string{"field_index": fmt.Sprint(i), "element": fmt.Sprint(k), "what": "a nil element of a repeated message field was replaced by Marshal"})})
		}
		f.Index(k).Set(reflect.New(et.Elem()))
		withEmpty, bad2 := realMarshal(msg)
		f.Index(k).Set(saved)
		c.count("nil_element_cases")
		// compared as decoded values: an empty element of a type with an always-written field (a
		// non-pointer Duration, an `always` scalar) is not the empty byte string, but both must
		// decode to the same list — same length, element k the zero message
		same := bad1 == "" && bad2 == "" && c.sameBytes(l, name, withNil, withEmpty)
		if !same && bad1 == "" && bad2 == "" {
			a, b := l.New[name](), l.New[name]()
			e1, p1 := realUnmarshal(append([]byte(nil), withNil...), a)
			e2, p2 := realUnmarshal(append([]byte(nil), withEmpty...), b)
			if e1 == "" && e2 == "" && p1 == "" && p2 == "" &&
				l.Reg.FromStruct(name, a).String() == l.Reg.FromStruct(name, b).String() {
				same = true
				c.count("nil_element_equal_as_values_only")
			}
		}
		if !same {
			c.disagree(Disagreement{Kind: "real!=real", Check: "nil-element-is-empty-element",
				Case: cs(map[string]string{"field_index": fmt.Sprint(i), "element": fmt.Sprint(k)}),
				Got:  map[string]string{"with_nil": short(hexs(withNil) + bad1), "with_empty": short(hexs(withEmpty) + bad2)}})
		}
		return
	}
}

// aliasOracle (C17): the slice returned by Marshal must not share memory with the message. The whole
// capacity of the result is overwritten; marshalling the same message again must give the original
// bytes. Run on the message itself and — for a message type that captures unrecognized fields — on
// the message holding NOTHING but captured bytes (no known field is written before them, so the
// encoder's buffer is still empty when they are appended).
func (c *ctx) aliasOracle(l *Loaded, name string, msg picobuf.Message, v val.Val, data []byte, cs func(map[string]string) map[string]string) {
	probe := func(m picobuf.Message, what string) {
		first, bad := realMarshal(m)
		if bad != "" {
			return
		}
		keep := append([]byte(nil), first...)
		full := first[:cap(first)]
		for i := range full {
			full[i] = 0xA5
		}
		again, bad2 := realMarshal(m)
		c.count("alias_probes")
		if bad2 != "" || !c.sameBytes(l, name, again, keep) {
			c.disagree(Disagreement{Kind: "result-aliases-message", Check: "result-owned-by-caller",
				Case: cs(map[string]string{"what": what, "first_result": hexs(keep)}),
				Got:  map[string]string{"after_overwriting_the_result": short(hexs(again) + bad2)}})
		}
	}
	probe(msg, "Marshal(m); overwrite the result's whole capacity; Marshal(m) again")
	if m := l.File.Msg(name); m != nil && m.Capture {
		z := gen.Zero(l.File, name)
		z.B = []byte{0xf8, 0x07, 0x01, 0xfa, 0x07, 0x03, 'a', 'b', 'c'} // fields 127 (varint 1) and 127 (bytes "abc")
		probe(l.Reg.ToStruct(name, z), "message holding only captured unrecognized bytes: Marshal; overwrite the result; Marshal again")
	}
	_ = v
	_ = data
}

// hasBytesField: does message `name` (transitively) hold a `bytes` field, a map with bytes values, or
// captured unrecognized bytes?
func hasBytesField(f *schema.File, name string, seen map[string]bool) bool {
	if seen[name] {
		return false
	}
	seen[name] = true
	m := f.Msg(name)
	if m == nil {
		return false
	}
	for i := range m.Fields {
		fd := &m.Fields[i]
		switch {
		case fd.Kind == "bytes":
			return true
		case fd.Kind == "map" && fd.MapVal == "bytes":
			return true
		case fd.Kind == "message" && fd.Cast == "" && fd.Custom == "":
			if hasBytesField(f, fd.Ref, seen) {
				return true
			}
		}
	}
	return false
}
