package corr

import (
	"bytes"
	"fmt"
	"math"
	"reflect"
	"strings"
	"time"

	refwire "google.golang.org/protobuf/encoding/protowire"

	"storj.io/picobuf"
	"storj.io/picobuf/verifharness/gen"
	"storj.io/picobuf/verifharness/schema"
)

var goNames = []string{"Bool", "Int32", "Int64", "Uint32", "Uint64", "Sint32", "Sint64", "Fixed32", "Fixed64",
	"Sfixed32", "Sfixed64", "Float", "Double", "String", "Bytes"}

var goTypes = []reflect.Type{reflect.TypeOf(false), reflect.TypeOf(int32(0)), reflect.TypeOf(int64(0)), reflect.TypeOf(uint32(0)),
	reflect.TypeOf(uint64(0)), reflect.TypeOf(int32(0)), reflect.TypeOf(int64(0)), reflect.TypeOf(uint32(0)), reflect.TypeOf(uint64(0)),
	reflect.TypeOf(int32(0)), reflect.TypeOf(int64(0)), reflect.TypeOf(float32(0)), reflect.TypeOf(float64(0)), reflect.TypeOf(""), reflect.TypeOf([]byte(nil))}

// eop is one node of an encoder program.
type eop struct {
	kind   string // W MSG AMSG PMSG AAB RENUM UNREC
	always bool
	rep    bool
	k      int
	field  int32
	nums   []uint64
	bys    [][]byte
	ok     bool
	ops    []eop
	raw    []byte
}

func setScalar(k int, dst reflect.Value, n uint64, b []byte) {
	switch schema.Scalars[k] {
	case "bool":
		dst.SetBool(n != 0)
	case "int32", "sint32", "sfixed32":
		dst.SetInt(int64(int32(uint32(n))))
	case "int64", "sint64", "sfixed64":
		dst.SetInt(int64(n))
	case "uint32", "fixed32", "uint64", "fixed64":
		dst.SetUint(n)
	case "float":
		dst.Set(reflect.ValueOf(math.Float32frombits(uint32(n))))
	case "double":
		dst.Set(reflect.ValueOf(math.Float64frombits(n)))
	case "string":
		dst.SetString(string(b))
	case "bytes":
		dst.SetBytes(b)
	}
}

func isBytesKind(k int) bool { return k >= 13 }

func (o *eop) render(b *strings.Builder) {
	b01 := func(x bool) int {
		if x {
			return 1
		}
		return 0
	}
	switch o.kind {
	case "W":
		fmt.Fprintf(b, " W %d %d %d %d", b01(o.always), b01(o.rep), o.k, o.field)
		if o.rep {
			if isBytesKind(o.k) {
				fmt.Fprintf(b, " %d", len(o.bys))
				for _, x := range o.bys {
					b.WriteString(" " + hexs(x))
				}
			} else {
				fmt.Fprintf(b, " %d", len(o.nums))
				for _, x := range o.nums {
					fmt.Fprintf(b, " %d", x)
				}
			}
		} else if isBytesKind(o.k) {
			b.WriteString(" " + hexs(o.bys[0]))
		} else {
			fmt.Fprintf(b, " %d", o.nums[0])
		}
	case "MSG", "AMSG", "PMSG", "AAB":
		fmt.Fprintf(b, " %s %d %d %d", o.kind, o.field, b01(o.ok), len(o.ops))
		for i := range o.ops {
			o.ops[i].render(b)
		}
	case "RENUM":
		fmt.Fprintf(b, " RENUM %d %d", o.field, len(o.nums))
		for _, x := range o.nums {
			fmt.Fprintf(b, " %d", x)
		}
	case "UNREC":
		b.WriteString(" UNREC " + hexs(o.raw))
	}
}

func (o *eop) runReal(enc *picobuf.Encoder) {
	switch o.kind {
	case "W":
		name := goNames[o.k]
		if o.rep {
			name = "Repeated" + name
		}
		if o.always {
			name = "Always" + name
		}
		m := reflect.ValueOf(enc).MethodByName(name)
		var arg reflect.Value
		if o.rep {
			n := len(o.nums)
			if isBytesKind(o.k) {
				n = len(o.bys)
			}
			sl := reflect.MakeSlice(reflect.SliceOf(goTypes[o.k]), n, n)
			for i := 0; i < n; i++ {
				if isBytesKind(o.k) {
					setScalar(o.k, sl.Index(i), 0, o.bys[i])
				} else {
					setScalar(o.k, sl.Index(i), o.nums[i], nil)
				}
			}
			p := reflect.New(sl.Type())
			if n > 0 {
				p.Elem().Set(sl)
			}
			arg = p
		} else {
			p := reflect.New(goTypes[o.k])
			if isBytesKind(o.k) {
				setScalar(o.k, p.Elem(), 0, o.bys[0])
			} else {
				setScalar(o.k, p.Elem(), o.nums[0], nil)
			}
			arg = p
		}
		m.Call([]reflect.Value{reflect.ValueOf(picobuf.FieldNumber(o.field)), arg})
	case "MSG":
		enc.Message(picobuf.FieldNumber(o.field), func(e *picobuf.Encoder) bool {
			for i := range o.ops {
				o.ops[i].runReal(e)
			}
			return o.ok
		})
	case "AMSG":
		enc.AlwaysMessage(picobuf.FieldNumber(o.field), func(e *picobuf.Encoder) bool {
			for i := range o.ops {
				o.ops[i].runReal(e)
			}
			return o.ok
		})
	case "PMSG":
		enc.PresentMessage(picobuf.FieldNumber(o.field), func(e *picobuf.Encoder) bool {
			for i := range o.ops {
				o.ops[i].runReal(e)
			}
			return o.ok
		})
	case "AAB":
		enc.AlwaysAnyBytes(picobuf.FieldNumber(o.field), func() {
			for i := range o.ops {
				o.ops[i].runReal(enc)
			}
		})
	case "RENUM":
		enc.RepeatedEnum(picobuf.FieldNumber(o.field), len(o.nums), func(i uint) int32 { return int32(uint32(o.nums[i])) })
	case "UNREC":
		enc.UnrecognizedFields(o.raw)
	}
}

// refScalar: the protobuf specification's encoding of one value (without tag), written on the
// reference protowire package.
func refScalar(k int, n uint64, b []byte) []byte {
	switch schema.Scalars[k] {
	case "bool":
		if n != 0 {
			return []byte{1}
		}
		return []byte{0}
	case "int32":
		return refwire.AppendVarint(nil, uint64(int64(int32(uint32(n)))))
	case "int64", "uint64":
		return refwire.AppendVarint(nil, n)
	case "uint32":
		return refwire.AppendVarint(nil, uint64(uint32(n)))
	case "sint32":
		return refwire.AppendVarint(nil, refwire.EncodeZigZag(int64(int32(uint32(n)))))
	case "sint64":
		return refwire.AppendVarint(nil, refwire.EncodeZigZag(int64(n)))
	case "fixed32", "sfixed32", "float":
		return refwire.AppendFixed32(nil, uint32(n))
	case "fixed64", "sfixed64", "double":
		return refwire.AppendFixed64(nil, n)
	default:
		return refwire.AppendBytes(nil, b)
	}
}

func refWireType(k int) refwire.Type {
	switch schema.Scalars[k] {
	case "fixed32", "sfixed32", "float":
		return refwire.Fixed32Type
	case "fixed64", "sfixed64", "double":
		return refwire.Fixed64Type
	case "string", "bytes":
		return refwire.BytesType
	}
	return refwire.VarintType
}

// refBytes is what the protobuf specification prescribes for the program.
func (o *eop) refBytes() []byte {
	num := refwire.Number(o.field)
	sub := func() []byte {
		var p []byte
		for i := range o.ops {
			p = append(p, o.ops[i].refBytes()...)
		}
		return p
	}
	lenField := func(p []byte) []byte {
		return refwire.AppendBytes(refwire.AppendTag(nil, num, refwire.BytesType), p)
	}
	switch o.kind {
	case "W":
		if o.rep {
			n := len(o.nums)
			if isBytesKind(o.k) {
				n = len(o.bys)
			}
			if n == 0 && !o.always {
				return nil
			}
			if isBytesKind(o.k) {
				var out []byte
				for _, x := range o.bys {
					out = append(out, lenField(x)...)
				}
				return out
			}
			var p []byte
			for _, x := range o.nums {
				p = append(p, refScalar(o.k, x, nil)...)
			}
			return lenField(p)
		}
		if !o.always {
			if isBytesKind(o.k) && len(o.bys[0]) == 0 {
				return nil
			}
			if !isBytesKind(o.k) && o.nums[0] == 0 {
				return nil
			}
		}
		var b []byte
		var n uint64
		if isBytesKind(o.k) {
			b = o.bys[0]
		} else {
			n = o.nums[0]
		}
		return append(refwire.AppendTag(nil, num, refWireType(o.k)), refScalar(o.k, n, b)...)
	case "MSG":
		if !o.ok {
			return nil
		}
		return lenField(sub())
	case "AMSG", "AAB":
		return lenField(sub())
	case "PMSG":
		p := sub()
		if len(p) == 0 {
			return nil
		}
		return lenField(p)
	case "RENUM":
		if len(o.nums) == 0 {
			return nil
		}
		var p []byte
		for _, x := range o.nums {
			p = refwire.AppendVarint(p, uint64(int64(int32(uint32(x)))))
		}
		return lenField(p)
	case "UNREC":
		return o.raw
	}
	return nil
}

func (o *eop) validNumbers() bool {
	if o.kind != "UNREC" && (o.field < 1 || o.field > 1<<29-1) {
		return false
	}
	for i := range o.ops {
		if !o.ops[i].validNumbers() {
			return false
		}
	}
	return true
}

var encFieldNums = []int32{1, 2, 3, 15, 16, 2047, 2048, 1<<21 - 1, 1 << 21, 1<<28 - 1, 1 << 28, 1<<29 - 1}

func (c *ctx) randEncField(allowInvalid bool) int32 {
	if allowInvalid && c.r.Intn(25) == 0 {
		return []int32{0, -1, 1 << 29, math.MaxInt32, math.MinInt32, -5}[c.r.Intn(6)]
	}
	switch c.r.Intn(3) {
	case 0:
		return encFieldNums[c.r.Intn(len(encFieldNums))]
	case 1:
		return int32(1 + c.r.Intn(1<<29-1))
	}
	return int32(1 + c.r.Intn(30))
}

func (c *ctx) randWriter(allowInvalid bool) eop {
	r := c.r
	o := eop{kind: "W", k: r.Intn(15), always: r.Intn(2) == 0, rep: r.Intn(3) == 0, field: c.randEncField(allowInvalid)}
	kind := schema.Scalars[o.k]
	one := func() {
		if isBytesKind(o.k) {
			var b []byte
			if r.Intn(4) != 0 {
				if kind == "string" {
					b = gen.Str(r, gen.Size(r, c.tier == "thorough"))
				} else {
					b = gen.RawBytes(r, gen.Size(r, c.tier == "thorough"))
				}
			}
			o.bys = append(o.bys, b)
		} else {
			n := gen.Bits(r, kind)
			if r.Intn(4) == 0 {
				n = 0
			}
			o.nums = append(o.nums, n)
		}
	}
	if o.rep {
		n := listLen(c)
		for i := 0; i < n; i++ {
			one()
		}
	} else {
		one()
	}
	return o
}

func listLen(c *ctx) int {
	switch c.r.Intn(8) {
	case 0, 1:
		return 0
	case 2:
		return 1
	case 3:
		return 2
	case 4:
		return 3 + c.r.Intn(6)
	case 5:
		return []int{15, 16, 17, 31, 32, 33}[c.r.Intn(6)]
	default:
		return []int{42, 43, 63, 64, 126, 127, 128, 129}[c.r.Intn(8)]
	}
}

func (c *ctx) randEop(depth int, allowInvalid bool) eop {
	r := c.r
	x := r.Intn(12)
	if depth >= 5 && x >= 7 && x <= 10 {
		x = 0
	}
	switch {
	case x <= 6:
		return c.randWriter(allowInvalid)
	case x <= 10:
		o := eop{kind: []string{"MSG", "AMSG", "PMSG", "AAB"}[x-7], field: c.randEncField(allowInvalid), ok: r.Intn(5) != 0}
		n := []int{0, 0, 1, 1, 2, 3, 5}[r.Intn(7)]
		for i := 0; i < n; i++ {
			o.ops = append(o.ops, c.randEop(depth+1, allowInvalid))
		}
		return o
	case x == 11 && r.Intn(2) == 0:
		o := eop{kind: "RENUM", field: c.randEncField(allowInvalid)}
		n := listLen(c)
		for i := 0; i < n; i++ {
			o.nums = append(o.nums, gen.Bits(r, "enum"))
		}
		return o
	default:
		return eop{kind: "UNREC", raw: gen.UnknownFields(r, &schema.Message{}, r.Intn(3))}
	}
}

// sizedProgram: a message op whose payload length is exactly n (filled with one bytes field), at
// the given nesting, to sweep every length-prefix size class.
func (c *ctx) sizedProgram(n int, nesting int) eop {
	// payload = tag(1 byte) + len varint + data  => choose data length so that total is n
	var inner eop
	switch {
	case n == 1:
		// a single byte is not a record; a packed bool list with one element has a 1-byte payload
		return eop{kind: "W", k: 0, always: true, rep: true, field: 7, nums: []uint64{1}}
	case n%2 == 0:
		inner = eop{kind: "UNREC", raw: bytes.Repeat([]byte{0x08, 0x01}, n/2)}
	default:
		inner = eop{kind: "UNREC", raw: append([]byte{0x10, 0x80, 0x01}, bytes.Repeat([]byte{0x08, 0x01}, (n-3)/2)...)}
	}
	o := eop{kind: []string{"MSG", "AMSG", "PMSG", "AAB"}[c.r.Intn(4)], field: c.randEncField(false), ok: true, ops: []eop{inner}}
	for i := 1; i < nesting; i++ {
		o = eop{kind: []string{"MSG", "AMSG", "PMSG", "AAB"}[c.r.Intn(4)], field: c.randEncField(false), ok: true, ops: []eop{o}}
	}
	return o
}

func runEncoder(prog []eop, enc *picobuf.Encoder) (out []byte, bad string) {
	p, to := guarded(20e9, func() {
		for i := range prog {
			prog[i].runReal(enc)
		}
		out = append([]byte(nil), enc.Buffer()...)
	})
	if to {
		return nil, "timeout"
	}
	return out, p
}

// streamE: random programs over the low-level Encoder API.
func (c *ctx) streamE() error {
	c.rep.Rule = "random programs over all 60 typed writers, Message/AlwaysMessage/PresentMessage/AlwaysAnyBytes (nesting <= 6, callbacks reporting absence), RepeatedEnum, UnrecognizedFields; payload sizes swept through every length-prefix class at nesting 1-4; encoders started on nil/small/exact/oversized/0xFF-filled buffers; compared with the model and with bytes built by the reference protowire package; distinct = distinct program text; programs with empty output are trivial"
	type pc struct {
		prog []eop
		op   string
		real string
	}
	var pcs []pc
	mk := func(prog []eop) {
		var b strings.Builder
		fmt.Fprintf(&b, "enc %d", len(prog))
		for i := range prog {
			prog[i].render(&b)
		}
		pcs = append(pcs, pc{prog: prog, op: b.String()})
	}
	if c.tier == "thorough" {
		c.hugePayloadCase()
	}
	sizes := []int{0, 1, 2, 3, 126, 127, 128, 129, 130, 255, 256, 16382, 16383, 16384, 16385}
	if c.tier == "thorough" {
		sizes = append(sizes, 1<<21-1, 1<<21, 1<<21+1)
	}
	// inside the 4-byte length class (2^21 .. 2^28): sizes whose length varint has mixed bits
	big := []int{1<<21 + 128 + c.r.Intn(1<<20)}
	if c.tier == "thorough" {
		big = append(big, 3000000+c.r.Intn(1<<20), 1<<22+c.r.Intn(1<<22))
	}
	for _, n := range big {
		mk([]eop{c.sizedProgram(n, 1)})
		mk([]eop{c.sizedProgram(n, 2)})
	}
	for _, n := range sizes {
		for nest := 1; nest <= 4; nest++ {
			mk([]eop{c.sizedProgram(n, nest)})
			// a payload of one class nested inside a payload of the next class
			mk([]eop{{kind: "MSG", field: 3, ok: true, ops: []eop{c.sizedProgram(n, nest), c.randWriter(false)}}})
		}
	}
	for i := 0; i < c.n; i++ {
		k := 1 + c.r.Intn(4)
		var prog []eop
		for j := 0; j < k; j++ {
			prog = append(prog, c.randEop(0, true))
		}
		mk(prog)
	}
	for start := 0; start < len(pcs); start += 500 {
		end := start + 500
		if end > len(pcs) {
			end = len(pcs)
		}
		chunk := pcs[start:end]
		var ans []string
		if c.model != nil {
			ops := make([]string, len(chunk))
			for i := range chunk {
				ops[i] = chunk[i].op
			}
			var err error
			if ans, err = c.model.Ask(ops); err != nil {
				return err
			}
		}
		for i := range chunk {
			p := &chunk[i]
			c.rep.Evaluations++
			out, bad := runEncoder(p.prog, picobuf.NewEncoder())
			cs := map[string]string{"program": short(p.op)}
			if bad != "" {
				c.disagree(Disagreement{Kind: "panic", Check: "encoder-program", Case: cs, Got: map[string]string{"real": bad}})
				continue
			}
			if len(out) > 0 {
				c.distinct(p.op)
			}
			c.count(fmt.Sprintf("out_len_class=%d", refwire.SizeVarint(uint64(len(out)))))
			c.sample(p.op + " => " + hexs(out))
			valid := true
			for j := range p.prog {
				valid = valid && p.prog[j].validNumbers()
			}
			if valid {
				var ref []byte
				for j := range p.prog {
					ref = append(ref, p.prog[j].refBytes()...)
				}
				if !bytes.Equal(ref, out) {
					c.disagree(Disagreement{Kind: "real!=ref", Check: "encoder-program", Case: cs, Got: map[string]string{"real": hexs(out), "ref": hexs(ref), "diff": firstDiffHex(hexs(out), hexs(ref))}})
				}
			} else {
				c.count("invalid_field_numbers")
			}
			if ans != nil && ans[i] != hexs(out) {
				c.disagree(Disagreement{Kind: "real!=model", Check: "encoder-program", Case: cs, Got: map[string]string{"real": hexs(out), "model": short(ans[i]), "diff": firstDiffHex(hexs(out), ans[i])}})
			}
			// buffer provenance (C17)
			for _, buf := range dirtyBuffers(c, len(out)) {
				got, bad := runEncoder(p.prog, picobuf.NewEncoderBuffer(buf))
				if bad != "" || !bytes.Equal(got, out) {
					c.disagree(Disagreement{Kind: "real!=real", Check: "encoder-buffer-provenance", Case: map[string]string{"program": short(p.op), "buffer_len": fmt.Sprint(len(buf)), "buffer_cap": fmt.Sprint(cap(buf))}, Got: map[string]string{"fresh": hexs(out), "with_buffer": hexs(got), "panic": bad}})
					break
				}
			}
		}
	}
	return nil
}

// hugePayloadCase (thorough tier only; about 1.5 GB of memory): one length-delimited payload in the
// FIVE-byte length class (>= 2^28 bytes), through AlwaysAnyBytes and Message. The result is checked
// structurally (tag, length varint, payload ends), not against a materialised reference copy.
func (c *ctx) hugePayloadCase() {
	n := 1<<28 + 5
	payload := make([]byte, n)
	payload[0], payload[n-1] = 0x11, 0x77
	run := func(what string, f func(enc *picobuf.Encoder)) {
		var out []byte
		p, _ := guarded(120*time.Second, func() {
			enc := picobuf.NewEncoder()
			f(enc)
			out = enc.Buffer()
		})
		c.rep.Evaluations++
		c.count("huge_payload_cases")
		// inner = tag(1,bytes) varint(n) payload ; outer = tag(7,bytes) varint(len(inner)) inner
		innerLen := 1 + len(refwire.AppendVarint(nil, uint64(n))) + n
		want := refwire.AppendVarint(refwire.AppendTag(nil, 7, refwire.BytesType), uint64(innerLen))
		want = refwire.AppendVarint(refwire.AppendTag(want, 1, refwire.BytesType), uint64(n))
		ok := p == "" && len(out) == len(want)+n && bytes.Equal(out[:len(want)], want) && out[len(want)] == 0x11 && out[len(out)-1] == 0x77
		if !ok {
			c.disagree(Disagreement{Kind: "panic", Check: "encoder-program",
				Case: map[string]string{"program": what, "payload_bytes": fmt.Sprint(n)},
				Got:  map[string]string{"real": p, "len": fmt.Sprint(len(out)), "want_len": fmt.Sprint(len(want) + n)}})
		}
	}
	run("AlwaysAnyBytes(7){ Bytes(1, 2^28+5 bytes) }", func(enc *picobuf.Encoder) {
		enc.AlwaysAnyBytes(7, func() { enc.Bytes(1, &payload) })
	})
	run("Message(7){ Bytes(1, 2^28+5 bytes); return true }", func(enc *picobuf.Encoder) {
		enc.Message(7, func(e *picobuf.Encoder) bool { e.Bytes(1, &payload); return true })
	})
}
