#!/bin/bash
# harmless.sh <patch-dir>...   apply each behaviour-preserving patch (<dir>/patch.diff) to the repo
# snapshot, run every claimed check (quick tier), undo; one summary line per (patch, property).
# Measures the false-alarm side: each line with rc!=0 is a report on code where the property holds.
cd "$(dirname "$0")/.."
export VERIF_REPO=${VP_RUN_REPO:-${VERIF_REPO:-/repo}}
if [ "$VERIF_REPO" = /repo ] && [ -z "$ALLOW_REPO" ]; then echo "refusing to patch /repo itself: use vp run --with-repo (or ALLOW_REPO=1)"; exit 2; fi
./check --setup >/dev/null 2>&1
for d in "$@"; do
  case "$d" in /*) ;; *) d="$(pwd)/$d";; esac
  id=$(basename $d)
  if ! git -C $VERIF_REPO apply $d/patch.diff; then echo "$id: patch does not apply"; continue; fi
  for p in C01 C02 C03 C04 C05 C06 C07 C08 C09 C10 C11 C12 C13 C14 C15 C16 C17 C19 C20; do
    out=$(./check $p --tier quick 2>&1); rc=$?
    echo "$id $p rc=$rc $(echo "$out" | grep -E '^VIOLATION' | head -1)"
    if [ $rc -ne 0 ]; then echo "$out" | grep -E 'BROKEN|failing input' | cut -c1-260 | head -6; fi
  done
  git -C $VERIF_REPO apply -R $d/patch.diff
  git -C $VERIF_REPO status --short | head -3
done
