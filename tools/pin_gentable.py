#!/usr/bin/env python3
"""Re-pin PicoProofs/GenTie.lean's expectedGenRows from the regenerated Gen/GenTable.lean.
Run ONLY on the unchanged tree, after a deliberate change of the AllShapes schema (tools/harness/gen/schema.go)."""
import os
L = os.path.join(os.path.dirname(os.path.abspath(__file__)), "..", "lean")
g = open(os.path.join(L, "PicoModel/Gen/GenTable.lean")).read()
rows = g[g.index("def genRows"):]
rows = rows[rows.index("[") + 1:rows.rindex("]")]
p = os.path.join(L, "PicoProofs/GenTie.lean")
s = open(p).read()
head = "def expectedGenRows : List (String × String × String × String) := ["
a = s.index(head) + len(head)
b = s.index("theorem generator_table_expected")
end = s.rindex("]", a, b)
open(p, "w").write(s[:a] + rows + s[end:])
print(rows.count("\n"), "rows pinned")
