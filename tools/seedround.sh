#!/bin/bash
# seedround.sh <ids...>: verify then detect candidates (in this snapshot of /verif, against $VP_RUN_REPO)
cd "$(dirname "$0")/.."
export VERIF_REPO=${VP_RUN_REPO:-/repo}
if [ "$VERIF_REPO" = /repo ] && [ -z "$ALLOW_REPO" ]; then echo "refusing to patch /repo itself: use vp run --with-repo (or ALLOW_REPO=1)"; exit 2; fi
./check --setup > /dev/null 2>&1
python3 tools/seedtest.py verify "$@" 2>&1 | tee verify.out
python3 tools/seedtest.py detect "$@" 2>&1 | tee detect.out
