#!/usr/bin/env python3
"""
seedtest.py verify <id>...     confirm a seeded change: applies cleanly, full suite passes, demo fails
                               with it and passes without it (in a scratch worktree outside /repo)
seedtest.py detect <id>... [--props C01,C02] [--tier quick]
                               apply the change to /repo, run the checks, undo; report which caught it
Candidates live in /verif/seeded/_candidates/<id>/ or /verif/seeded/<id>/.
"""
import json, os, re, shutil, subprocess, sys, time

VERIF = os.path.dirname(os.path.dirname(os.path.abspath(__file__)))
REPO = "/repo"
DREPO = os.environ.get("VP_RUN_REPO") or os.environ.get("VERIF_REPO") or "/repo"   # where detect applies the change
ENV = dict(os.environ, GOFLAGS="-mod=mod", GOPROXY="off", GOSUMDB="off", GOTOOLCHAIN="local")
SCRATCH = "/tmp/seedscratch-%d" % os.getpid()


def sh(cmd, cwd=None, timeout=1800):
    p = subprocess.run(cmd, cwd=cwd, env=ENV, stdout=subprocess.PIPE, stderr=subprocess.STDOUT, text=True, timeout=timeout, shell=isinstance(cmd, str))
    return p.returncode, p.stdout


def cand_dir(i):
    for d in (os.path.join(VERIF, "seeded", i), os.path.join(VERIF, "seeded", "_candidates", i)):
        if os.path.isdir(d):
            return d
    raise SystemExit("no such candidate " + i)


def demo_info(d):
    path = os.path.join(d, "demo_test.go")
    head = open(path).readline()
    m = re.search(r"[Pp]lace in (?:the )?(\S+)", head)
    place = m.group(1).rstrip("/") if m else "."
    if place in ("worktree", "repository", "repo", "root"):
        place = "."
    if place.endswith("/"):
        place = place[:-1]
    m = re.search(r"run: (go test .*)$", head.strip())
    cmd = m.group(1) if m else None
    return path, place, cmd


def ensure_scratch():
    if os.path.isdir(SCRATCH):
        sh(["git", "-C", REPO, "worktree", "remove", "--force", SCRATCH])
        shutil.rmtree(SCRATCH, ignore_errors=True)
    rc, out = sh(["git", "-C", REPO, "worktree", "add", "--detach", SCRATCH, "HEAD"])
    if rc != 0:
        raise SystemExit(out)


def drop_scratch():
    sh(["git", "-C", REPO, "worktree", "remove", "--force", SCRATCH])
    shutil.rmtree(SCRATCH, ignore_errors=True)


def verify(ids):
    ensure_scratch()
    res = {}
    try:
        for i in ids:
            d = cand_dir(i)
            r = {"id": i}
            sh("git checkout -q -- . && git clean -fdq", cwd=SCRATCH)
            rc, out = sh(["git", "apply", os.path.join(d, "patch.diff")], cwd=SCRATCH)
            r["applies"] = rc == 0
            if rc != 0:
                r["error"] = out[-300:]
                res[i] = r
                print(json.dumps(r)); continue
            rc, out = sh("go build ./... && go test -vet=off -count=1 ./...", cwd=SCRATCH)
            r["suite_passes"] = rc == 0
            if rc != 0:
                r["suite_out"] = out[-400:]
            demo, place, cmd = demo_info(d)
            extra = [f for f in os.listdir(d) if f.endswith(".go") and f != "demo_test.go"] + [f for f in os.listdir(d) if f.endswith(".proto")]
            dst = os.path.join(SCRATCH, place, "zz_demo_%s_test.go" % i.replace("-", "_").lower())
            shutil.copy(demo, dst)
            for f in extra:
                shutil.copy(os.path.join(d, f), os.path.join(SCRATCH, place, f))
            rc1, out1 = sh(cmd, cwd=SCRATCH) if cmd else (0, "no command")
            r["demo_fails_with_change"] = rc1 != 0
            sh(["git", "apply", "-R", os.path.join(d, "patch.diff")], cwd=SCRATCH)
            rc2, out2 = sh(cmd, cwd=SCRATCH) if cmd else (1, "no command")
            r["demo_passes_without"] = rc2 == 0
            if rc2 != 0:
                r["demo_out_without"] = out2[-300:]
            r["confirmed"] = bool(r["applies"] and r["suite_passes"] and r["demo_fails_with_change"] and r["demo_passes_without"])
            res[i] = r
            print(json.dumps(r))
    finally:
        drop_scratch()
    return res


def detect(ids, props, tier):
    out_all = {}
    for i in ids:
        d = cand_dir(i)
        if os.path.isdir(os.path.join(DREPO, ".git")) or os.path.isfile(os.path.join(DREPO, ".git")):
            rc, st = sh(["git", "-C", DREPO, "status", "--short"])
            if st.strip():
                raise SystemExit(DREPO + " is dirty: " + st)
        mm = re.search(r"C\d\d", i)
        if props:
            ps = props
        elif mm:
            ps = [mm.group(0)]
        else:
            mj = json.load(open(os.path.join(d, "meta.json")))
            ps = [mj["breaks_property"]] if "breaks_property" in mj else mj["breaks_properties"][:1]
        r = {"id": i, "results": {}}
        rc, out = sh(["git", "apply", os.path.join(d, "patch.diff")], cwd=DREPO)
        if rc != 0:
            r["error"] = "does not apply: " + out[-200:]
            print(json.dumps(r)); continue
        saved = {}
        for p in ps:
            ev = os.path.join(VERIF, "evidence", p + ".json")
            if os.path.exists(ev):
                saved[ev] = open(ev).read()
        try:
            for p in ps:
                t0 = time.time()
                rc, out = sh("VERIF_REPO=%s %s %s --tier %s" % (DREPO, os.path.join(VERIF, "check"), p, tier), cwd=VERIF, timeout=7200)
                vio = [l for l in out.splitlines() if l.startswith("VIOLATION")]
                fi = [l for l in out.splitlines() if "failing input" in l]
                br = [l.strip() for l in out.splitlines() if l.strip().startswith("BROKEN")]
                r["results"][p] = {"exit": rc, "violation": vio[:1], "failing_input": [x[:300] for x in fi[:1]], "broken": [b[:200] for b in br[:6]], "wall": round(time.time() - t0)}
        finally:
            sh(["git", "apply", "-R", os.path.join(d, "patch.diff")], cwd=DREPO)
            for ev, content in saved.items():   # evidence files must come from runs on the unchanged tree
                open(ev, "w").write(content)
        print(json.dumps(r))
        out_all[i] = r
    return out_all


if __name__ == "__main__":
    a = sys.argv[1:]
    mode = a[0]
    props, tier, ids = None, "quick", []
    i = 1
    while i < len(a):
        if a[i] == "--props":
            props = a[i + 1].split(","); i += 2
        elif a[i] == "--tier":
            tier = a[i + 1]; i += 2
        else:
            ids.append(a[i]); i += 1
    if mode == "verify":
        verify(ids)
    else:
        detect(ids, props, tier)
