import json,sys
r=json.load(open(sys.argv[1]))
print(r['evaluations'], r['distinct_nontrivial'], r['model_ops'], r.get('notes'))
print({k:v for k,v in r['distribution'].items() if k.startswith('DISAGREE') or len(sys.argv)>3})
seen={}
lim=int(sys.argv[2]) if len(sys.argv)>2 else 1
for d in (r["disagreements"] or []):
    key=(d['kind'],d['check'])
    seen[key]=seen.get(key,0)+1
    if seen[key]>lim: continue
    print('---',d['kind'],d['check'],d.get('reason'))
    c=d.get('case') or {}
    for k in c:
        if k in ('schema_text',): continue
        print('  ',k,':',c[k][:600])
    for k,v in (d.get('got') or {}).items(): print('   got',k,':',v[:600])
