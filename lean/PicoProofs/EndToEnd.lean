import PicoProofs.EncRefine
import PicoProofs.DecRefineWT
import PicoProofs.DecRefineShapeOut
import PicoProofs.SpecRoundtrip
/-
Composition of the three big theorems:
  T_enc  (EncRefine)      marshal = specEnc                       for well-typed values
  T_rt   (SpecRoundtrip)  specDec (specEnc v) zero = some v       for strictly well-typed values
  T_dec  (DecRefine)      unmarshal = specUnmarshal               for every byte string
into the machine-level round trip.
-/
namespace Pico
open Pico.Gen2

/-- the side conditions on a schema: what protoc-gen-pico accepts, and always-present (value-typed)
sub-messages do not contain themselves (Go would not compile such structs) -/
def Schema.ok (S : Schema) : Prop := S.supported = true ∧ SpecRt.zeroMsgOk S

/-- `Unmarshal(Marshal(v))` into a fresh message: no error, and exactly `v` -/
theorem unmarshal_marshal (S : Schema) (hS : S.ok) (id : Nat) (v : Val)
    (hwt : wtMsg S true id v = true) (hsz : (Spec.specEnc S id v).length < 2 ^ 64) :
    ∃ d, unmarshal S id (marshal S id v) (zeroMsg S id) = .ok (d, v) ∧ d.err = none := by
  obtain ⟨hsup, hz⟩ := hS
  have henc : marshal S id v = Spec.specEnc S id v := marshal_eq_spec S id v (wtMsg_mono S id v hwt)
  obtain ⟨fuel, hrt⟩ := SpecRt.spec_roundtrip S hsup hz id v hwt hsz
  have hspec : Spec.specUnmarshal S id (Spec.specEnc S id v) (zeroMsg S id) = some v :=
    Spec.specDec_some_unmarshal S hrt
  obtain ⟨d, m, hrun, hiff, hval⟩ := unmarshal_new_refines_spec S hsup id (Spec.specEnc S id v)
  have herr : d.err = none := hiff.mpr (by rw [hspec]; rfl)
  have hm : m = v := by
    have := hval herr
    rw [hspec] at this
    exact (Option.some.inj this).symm
  subst hm
  exact ⟨d, by rw [henc]; exact hrun, herr⟩

/-- the specification reads Marshal's output back to the same value (this is what the reference
implementation is compared with) -/
theorem spec_reads_marshal (S : Schema) (hS : S.ok) (id : Nat) (v : Val)
    (hwt : wtMsg S true id v = true) (hsz : (Spec.specEnc S id v).length < 2 ^ 64) :
    Spec.specUnmarshal S id (marshal S id v) (zeroMsg S id) = some v := by
  obtain ⟨hsup, hz⟩ := hS
  rw [marshal_eq_spec S id v (wtMsg_mono S id v hwt)]
  obtain ⟨fuel, hrt⟩ := SpecRt.spec_roundtrip S hsup hz id v hwt hsz
  exact Spec.specDec_some_unmarshal S hrt

/-- machine-level concatenation law: if `a` decodes without error into `m1`, then decoding `a ++ b`
in one call gives the same verdict and value as decoding `b` into `m1` -/
theorem unmarshal_concat (S : Schema) (hS : S.supported = true) (id : Nat) (a b : Bytes) (m0 : Val)
    (hm0 : shMsg S id m0 = true) :
    ∀ d1 m1, unmarshal S id a m0 = .ok (d1, m1) → d1.err = none →
    ∃ d2 m2 d12 m12, unmarshal S id b m1 = .ok (d2, m2) ∧ unmarshal S id (a ++ b) m0 = .ok (d12, m12) ∧
      (d12.err = none ↔ d2.err = none) ∧ (d2.err = none → m12 = m2) := by
  intro d1 m1 h1 he1
  have hm1 : shMsg S id m1 = true := unmarshal_preserves_shape S hS id a m0 hm0 d1 m1 h1 he1
  obtain ⟨d1', m1', hr1, hiff1, hval1⟩ := unmarshal_refines_spec S hS id a m0 hm0
  rw [h1] at hr1
  cases hr1
  have hs1 : Spec.specUnmarshal S id a m0 = some m1 := hval1 he1
  have happ := Spec.specUnmarshal_append S id b hs1
  obtain ⟨d12, m12, hr12, hiff12, hval12⟩ := unmarshal_refines_spec S hS id (a ++ b) m0 hm0
  obtain ⟨d2, m2, hr2, hiff2, hval2⟩ := unmarshal_refines_spec S hS id b m1 hm1
  refine ⟨d2, m2, d12, m12, hr2, hr12, ?_, ?_⟩
  · rw [hiff12, hiff2, happ]
  · intro he2
    have e2 := hval2 he2
    have he12 : d12.err = none := by rw [hiff12, happ, e2]; rfl
    have e12 := hval12 he12
    rw [happ, e2] at e12
    exact (Option.some.inj e12).symm

end Pico
