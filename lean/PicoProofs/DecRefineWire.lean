import PicoProofs.SpecLaws
import PicoProofs.ScalarLemmas
import PicoProofs.DecSafe
import PicoProofs.FieldLemmas
/-!
Wire-level facts used by the decoder refinement (`PicoProofs/DecRefine.lean`):
value bounds of the primitive consumers, "a consumer only looks at the bytes it consumes"
(`consumeX (b.take n) = consumeX b`), the typed consumers of the readers against the generic
`consumeFieldValue` / `Record.scalar` of the specification, and the packed loops against
`Spec.unpack`.
-/
namespace Pico.Wire

theorem consumeVarintAux_bound : ∀ (b : Bytes) (idx : Nat), idx ≤ 9 →
    (consumeVarintAux idx b).1 + 2 ^ (7 * idx) ≤ 2 ^ 64 := by
  intro b
  induction b with
  | nil =>
    intro idx h
    simp only [consumeVarintAux, Nat.zero_add]
    exact Nat.pow_le_pow_right (by omega) (by omega)
  | cons y ys ih =>
    intro idx h
    have hy := y.isLt
    have ih' := ih (idx + 1)
    simp only [consumeVarintAux, Nat.shiftLeft_eq]
    have hc : idx = 0 ∨ idx = 1 ∨ idx = 2 ∨ idx = 3 ∨ idx = 4 ∨ idx = 5 ∨ idx = 6 ∨ idx = 7 ∨ idx = 8 ∨ idx = 9 := by omega
    rcases hc with h | h | h | h | h | h | h | h | h | h <;> subst h <;>
      simp only [Nat.reduceEqDiff, ↓reduceIte, Nat.reduceMul, Nat.reducePow, Nat.reduceAdd] at ih' ⊢ <;>
      (repeat' split) <;> omega

theorem consumeVarint_lt (b : Bytes) : (consumeVarint b).1 < 2 ^ 64 := by
  have := consumeVarintAux_bound b 0 (by omega)
  simp only [consumeVarint] at *
  omega

theorem consumeFixed32_lt (b : Bytes) : (consumeFixed32 b).1 < 2 ^ 32 := by
  unfold consumeFixed32
  split
  · rename_i b0 b1 b2 b3 _
    have := b0.isLt; have := b1.isLt; have := b2.isLt; have := b3.isLt
    simp only; omega
  · simp

theorem consumeFixed64_lt (b : Bytes) : (consumeFixed64 b).1 < 2 ^ 64 := by
  unfold consumeFixed64
  split
  · rename_i b0 b1 b2 b3 b4 b5 b6 b7 _
    have := b0.isLt; have := b1.isLt; have := b2.isLt; have := b3.isLt
    have := b4.isLt; have := b5.isLt; have := b6.isLt; have := b7.isLt
    simp only; omega
  · simp

theorem consumeVarintAux_take_ge : ∀ (b : Bytes) (idx n : Nat),
    0 ≤ (consumeVarintAux idx b).2 → (consumeVarintAux idx b).2.toNat ≤ n →
    consumeVarintAux idx (b.take n) = consumeVarintAux idx b := by
  intro b
  induction b with
  | nil => intro idx n _ _; simp
  | cons y ys ih =>
    intro idx n h hn
    have hp := consumeVarintAux_progress (y :: ys) idx h
    cases n with
    | zero => omega
    | succ m =>
      simp only [List.take_succ_cons, consumeVarintAux] at h hn ⊢
      by_cases h9 : idx = 9
      · simp only [h9, ↓reduceIte]
      · simp only [h9, ↓reduceIte] at h hn ⊢
        by_cases hlt : y.toNat < 128
        · simp only [hlt, ↓reduceIte]
        · simp only [hlt, ↓reduceIte] at h hn ⊢
          by_cases hneg : (consumeVarintAux (idx + 1) ys).2 < 0
          · simp only [hneg, ↓reduceIte] at h; omega
          · simp only [hneg, ↓reduceIte] at hn
            rw [ih (idx + 1) m (by omega) (by omega)]

theorem consumeVarint_take_ge (b : Bytes) (n : Nat) (h : 0 ≤ (consumeVarint b).2)
    (hn : (consumeVarint b).2.toNat ≤ n) : consumeVarint (b.take n) = consumeVarint b :=
  consumeVarintAux_take_ge b 0 n h hn

theorem consumeVarint_take (b : Bytes) (h : 0 ≤ (consumeVarint b).2) :
    consumeVarint (b.take (consumeVarint b).2.toNat) = consumeVarint b :=
  consumeVarint_take_ge b _ h (Nat.le_refl _)

theorem consumeFixed32_take (b : Bytes) (h : 0 ≤ (consumeFixed32 b).2) :
    consumeFixed32 (b.take (consumeFixed32 b).2.toNat) = consumeFixed32 b := by
  match b, h with
  | [], h => simp [consumeFixed32, errTruncated] at h
  | [_], h => simp [consumeFixed32, errTruncated] at h
  | [_, _], h => simp [consumeFixed32, errTruncated] at h
  | [_, _, _], h => simp [consumeFixed32, errTruncated] at h
  | _ :: _ :: _ :: _ :: _, _ => simp [consumeFixed32]

theorem consumeFixed64_take (b : Bytes) (h : 0 ≤ (consumeFixed64 b).2) :
    consumeFixed64 (b.take (consumeFixed64 b).2.toNat) = consumeFixed64 b := by
  match b, h with
  | [], h => simp [consumeFixed64, errTruncated] at h
  | [_], h => simp [consumeFixed64, errTruncated] at h
  | [_, _], h => simp [consumeFixed64, errTruncated] at h
  | [_, _, _], h => simp [consumeFixed64, errTruncated] at h
  | [_, _, _, _], h => simp [consumeFixed64, errTruncated] at h
  | [_, _, _, _, _], h => simp [consumeFixed64, errTruncated] at h
  | [_, _, _, _, _, _], h => simp [consumeFixed64, errTruncated] at h
  | [_, _, _, _, _, _, _], h => simp [consumeFixed64, errTruncated] at h
  | _ :: _ :: _ :: _ :: _ :: _ :: _ :: _ :: _, _ => simp [consumeFixed64]

theorem consumeBytes_take (b : Bytes) (h : 0 ≤ (consumeBytes b).2) :
    consumeBytes (b.take (consumeBytes b).2.toNat) = consumeBytes b := by
  have hp := consumeBytes_progress b h
  have hsplit : b = b.take (consumeBytes b).2.toNat ++ b.drop (consumeBytes b).2.toNat :=
    (List.take_append_drop _ _).symm
  generalize hn : (consumeBytes b).2.toNat = n at *
  simp only [consumeBytes] at h hn ⊢
  by_cases hneg : (consumeVarint b).2 < 0
  · rw [if_pos hneg] at h; simp only at h; omega
  · have hvp := consumeVarint_progress b (by omega)
    rw [if_neg hneg] at h hn ⊢
    by_cases hgt : (consumeVarint b).1 > (List.drop (consumeVarint b).2.toNat b).length
    · rw [if_pos hgt] at h; simp [errTruncated] at h
    · rw [if_neg hgt] at h hn ⊢
      simp only at hn
      simp only [List.length_drop] at hgt
      rw [consumeVarint_take_ge b n (by omega) (by omega), if_neg hneg]
      have hlen : ¬ ((consumeVarint b).1 > (List.drop (consumeVarint b).2.toNat (List.take n b)).length) := by
        simp only [List.length_drop, List.length_take]; omega
      rw [if_neg hlen]
      congr 1
      rw [List.drop_take, List.take_take]
      congr 1
      omega

theorem consumeFieldValue_wire0 (num : Int) (b : Bytes) : consumeFieldValue num 0 b = (consumeVarint b).2 := by
  simp [consumeFieldValue, consumeFieldValueD, consumeScalarValue]

theorem consumeFieldValue_wire5 (num : Int) (b : Bytes) : consumeFieldValue num 5 b = (consumeFixed32 b).2 := by
  simp [consumeFieldValue, consumeFieldValueD, consumeScalarValue]

theorem consumeFieldValue_wire1 (num : Int) (b : Bytes) : consumeFieldValue num 1 b = (consumeFixed64 b).2 := by
  simp [consumeFieldValue, consumeFieldValueD, consumeScalarValue]

theorem consumeFieldValue_wire2 (num : Int) (b : Bytes) : consumeFieldValue num 2 b = (consumeBytes b).2 := by
  simp [consumeFieldValue, consumeFieldValueD, consumeScalarValue]

end Pico.Wire

namespace Pico.Dec
open Pico.Wire

theorem consumeScalar_snd (rep : Bool) (k : Scalar) (num : Int) (b : Bytes) :
    (consumeScalar rep k b).2 = consumeFieldValue num k.wire b := by
  rcases wire_cases k with ⟨h | h | h, _⟩ | ⟨h, _⟩ <;>
    simp only [consumeScalar, h, consumeFieldValue_wire0, consumeFieldValue_wire1, consumeFieldValue_wire2, consumeFieldValue_wire5]

theorem scalar_of_consumeScalar (rep : Bool) (k : Scalar) (num : Nat) (b : Bytes)
    (h : 0 ≤ (consumeScalar rep k b).2) :
    Spec.Record.scalar ⟨num, k.wire, b.take (consumeScalar rep k b).2.toNat⟩ k
      = some (consumeScalar rep k b).1 := by
  rcases wire_cases k with ⟨hw | hw | hw, _⟩ | ⟨hw, _⟩
  · simp only [consumeScalar, hw] at h ⊢
    simp only [Spec.Record.scalar, hw, ne_eq, not_true_eq_false, ↓reduceIte, Spec.Record.varintVal]
    rw [consumeVarint_take b h, dec_closed_form rep k _ (consumeVarint_lt b) (by omega)]
  · simp only [consumeScalar, hw] at h ⊢
    simp only [Spec.Record.scalar, hw, ne_eq, not_true_eq_false, ↓reduceIte, Spec.Record.fixed32Val]
    rw [consumeFixed32_take b h, dec_closed_form rep k _ (by have := consumeFixed32_lt b; omega) (fun _ => consumeFixed32_lt b)]
  · simp only [consumeScalar, hw] at h ⊢
    simp only [Spec.Record.scalar, hw, ne_eq, not_true_eq_false, ↓reduceIte, Spec.Record.fixed64Val]
    rw [consumeFixed64_take b h, dec_closed_form rep k _ (consumeFixed64_lt b) (by omega)]
  · simp only [consumeScalar, hw] at h ⊢
    simp only [Spec.Record.scalar, hw, ne_eq, not_true_eq_false, ↓reduceIte, Spec.Record.payload]
    rw [consumeBytes_take b h]

theorem scalar_wire_ne (r : Spec.Record) (k : Scalar) (h : r.wire ≠ k.wire) : r.scalar k = none := by
  simp [Spec.Record.scalar, h]

theorem payload_take (num w : Nat) (b : Bytes) (h : 0 ≤ (consumeBytes b).2) :
    Spec.Record.payload ⟨num, w, b.take (consumeBytes b).2.toNat⟩ = (consumeBytes b).1 := by
  simp only [Spec.Record.payload, consumeBytes_take b h]

theorem varintVal_take (num w : Nat) (b : Bytes) (h : 0 ≤ (consumeVarint b).2) :
    Spec.Record.varintVal ⟨num, w, b.take (consumeVarint b).2.toNat⟩ = (consumeVarint b).1 := by
  simp only [Spec.Record.varintVal, consumeVarint_take b h]

theorem consumeScalar_unpackElem (rep : Bool) (k : Scalar) (hk : k.isBytes = false) (p : Bytes) :
    consumeScalar rep k p
      = (.num (Spec.scalarOfBits k (Spec.unpackElem k p).1), (Spec.unpackElem k p).2) := by
  rcases wire_cases k with ⟨hw | hw | hw, _⟩ | ⟨_, hb⟩
  · simp only [consumeScalar, Spec.unpackElem, hw]
    rw [dec_closed_form rep k _ (consumeVarint_lt p) (by omega)]
  · simp only [consumeScalar, Spec.unpackElem, hw]
    rw [dec_closed_form rep k _ (by have := consumeFixed32_lt p; omega) (fun _ => consumeFixed32_lt p)]
  · simp only [consumeScalar, Spec.unpackElem, hw]
    rw [dec_closed_form rep k _ (consumeFixed64_lt p) (by omega)]
  · rw [hk] at hb; cases hb

theorem unpack_drop_fuel (k : Scalar) (p rest : Bytes) (h : rest.length + 1 ≤ p.length) :
    Spec.unpack k p.length rest = Spec.unpack k (rest.length + 1) rest := by
  have := Spec.unpack_fuel_enough k rest (p.length - (rest.length + 1))
  rw [this]; congr 1; omega

theorem readPacked_unpack (k : Scalar) (hk : k.isBytes = false) :
    ∀ (fuel : Nat) (p : Bytes) (acc xs : List Enc.SVal) (bad : Bool),
      readPacked k fuel p acc = .ok (xs, bad) →
      ∃ ys, xs = acc ++ ys ∧
        (bad = false → Spec.unpack k (p.length + 1) p = some ys) ∧
        (bad = true → Spec.unpack k (p.length + 1) p = none) := by
  intro fuel
  induction fuel with
  | zero => intro p acc xs bad h; simp [readPacked] at h
  | succ fuel ih =>
    intro p acc xs bad h
    rw [readPacked] at h
    rw [Spec.unpack_succ]
    by_cases hp : p.length = 0
    · rw [if_pos hp] at h
      injection h with h
      injection h with h1 h2
      have : p.isEmpty = true := by simpa using hp
      refine ⟨[], by simp [h1], fun _ => by simp [this], fun hb => by simp [← h2] at hb⟩
    · rw [if_neg hp] at h
      have hne : ¬ (p.isEmpty = true) := by simpa using hp
      rw [if_neg hne]
      simp only [consumeScalar_unpackElem true k hk p] at h
      by_cases hneg : (Spec.unpackElem k p).2 < 0
      · rw [if_pos hneg] at h
        injection h with h
        injection h with h1 h2
        refine ⟨[], by simp [h1], fun hb => by simp [← h2] at hb, fun _ => by simp [hneg]⟩
      · rw [if_neg hneg] at h
        have hpr := Spec.unpackElem_progress k p (by omega)
        rw [sliceFrom_ok p _ (by omega) hpr.2] at h
        simp only [Res.bind_ok] at h
        obtain ⟨ys, hxs, hf, ht⟩ := ih _ _ _ _ h
        rw [if_neg hneg]
        have hlen : (p.drop (Spec.unpackElem k p).2.toNat).length + 1 ≤ p.length := by
          simp only [List.length_drop]; omega
        rw [unpack_drop_fuel k p _ hlen]
        refine ⟨.num (Spec.scalarOfBits k (Spec.unpackElem k p).1) :: ys, by simp [hxs], fun hb => ?_, fun hb => ?_⟩
        · rw [hf hb]; rfl
        · rw [ht hb]; rfl

theorem unpackElem_int32 (p : Bytes) : Spec.unpackElem .int32 p = consumeVarint p := rfl

theorem packedEnum_unpack :
    ∀ (fuel : Nat) (p : Bytes) (acc xs : List Nat) (bad : Bool),
      readRepeatedEnumN.packedEnum fuel p acc = .ok (xs, bad) →
      ∃ ys, xs = acc ++ ys ∧
        (bad = false → Spec.unpack .int32 (p.length + 1) p = some (ys.map Enc.SVal.num)) ∧
        (bad = true → Spec.unpack .int32 (p.length + 1) p = none) := by
  intro fuel
  induction fuel with
  | zero => intro p acc xs bad h; simp [readRepeatedEnumN.packedEnum] at h
  | succ fuel ih =>
    intro p acc xs bad h
    rw [readRepeatedEnumN.packedEnum] at h
    rw [Spec.unpack_succ, unpackElem_int32]
    by_cases hp : p.length = 0
    · rw [if_pos hp] at h
      injection h with h
      injection h with h1 h2
      have : p.isEmpty = true := by simpa using hp
      refine ⟨[], by simp [h1], fun _ => by simp [this], fun hb => by simp [← h2] at hb⟩
    · rw [if_neg hp] at h
      have hne : ¬ (p.isEmpty = true) := by simpa using hp
      rw [if_neg hne]
      simp only at h
      by_cases hneg : (consumeVarint p).2 < 0
      · rw [if_pos hneg] at h
        injection h with h
        injection h with h1 h2
        refine ⟨[], by simp [h1], fun hb => by simp [← h2] at hb, fun _ => by simp [hneg]⟩
      · rw [if_neg hneg] at h
        have hpr := consumeVarint_progress p (by omega)
        rw [sliceFrom_ok p _ (by omega) hpr.2] at h
        simp only [Res.bind_ok] at h
        obtain ⟨ys, hxs, hf, ht⟩ := ih _ _ _ _ h
        rw [if_neg hneg]
        have hlen : (p.drop (consumeVarint p).2.toNat).length + 1 ≤ p.length := by
          simp only [List.length_drop]; omega
        rw [unpack_drop_fuel .int32 p _ hlen]
        refine ⟨(consumeVarint p).1 % 4294967296 :: ys, by simp [hxs], fun hb => ?_, fun hb => ?_⟩
        · rw [hf hb]; rfl
        · rw [ht hb]; rfl

end Pico.Dec

#print axioms Pico.Dec.scalar_of_consumeScalar
#print axioms Pico.Dec.readPacked_unpack
#print axioms Pico.Dec.packedEnum_unpack
#print axioms Pico.Wire.consumeBytes_take
