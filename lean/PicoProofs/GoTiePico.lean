import PicoModel.Gen.GoPico
import PicoProofs.TimeLemmas
import PicoProofs.GoTieDecoder
/-
Tie between the statement-level translation of picoconv/duration.go and picoconv/timestamp.go
(`PicoModel/Gen/GoPico.lean`, regenerated on every run; the `c.Message(field, func…)` callbacks are
recognised by template, the `time` package is the trusted parameter of `GoTime.lean`) and the
arithmetic model `PicoModel/Time.lean` / the casts of `GenCode.lean`.
-/
namespace Pico.GoTie.P
open Pico Pico.Time


theorem wrapS64_eq (x : Int) : Go.wrapS 64 x = Time.wrap64 x := by
  unfold Go.wrapS Time.wrap64 Time.two64
  simp only [show (2:Int)^64 = 18446744073709551616 from by decide, show (2:Int)^(64-1) = 9223372036854775808 from by decide]

theorem wrapS32_eq (x : Int) : Go.wrapS 32 x = Time.wrap32 x := by
  unfold Go.wrapS Time.wrap32 Time.two32
  simp only [show (2:Int)^32 = 4294967296 from by decide, show (2:Int)^(32-1) = 2147483648 from by decide]

/-- `Duration.PicoEncode` as translated: the split and the two-field message of the model -/
theorem durationEncode_eq (field : Int) (d : Int) (c : Bytes) (hd : Time.I64 d) :
    GoSrc.Pico.durationEncode field d c
      = .ok (d, c ++ GoTime.secNanosMessage field (Time.durSplit d).1 (Time.durSplit d).2, true) := by
  first
  | (unfold GoSrc.Pico.durationEncode Time.durSplit GoTime.nanoseconds
     simp [wrapS64_eq, wrapS32_eq, Time.nano]
     done)
  | -- the source computes the split some other way: compare with the exact quotient and remainder
    (rw [durSplit_eq d hd]
     have f := tdiv_tmod_facts d
     unfold Time.I64 at hd
     unfold GoSrc.Pico.durationEncode
     simp only [GoTime.nanoseconds, wrapS64_eq, wrapS32_eq, if_false, pure, bind, Res.bind, Res.ok.injEq,
       Prod.mk.injEq, List.append_cancel_left_eq, and_true, true_and]
     refine congr (congrArg _ ?_) ?_
     all_goals
       (simp only [Time.wrap64, Time.wrap32, Time.two64, Time.two32]
        repeat' split
        all_goals omega))

/-- the arithmetic after the two fields have been read -/
theorem durationDecode_arith (seconds nanos : Int) (hn : Time.I32 nanos) :
    (let z := (Go.wrapS 64 (seconds * (1000000000 : Int)))
     let overflow := decide (((Int.tdiv z (1000000000 : Int)) ≠ seconds))
     let z := (Go.wrapS 64 (z + (Go.wrapS 64 (nanos * (1 : Int)))))
     let overflow := (overflow || ((decide ((seconds < (0 : Int))) && decide ((nanos < (0 : Int)))) && decide ((z > (0 : Int)))))
     let overflow := (overflow || ((decide ((seconds > (0 : Int))) && decide ((nanos > (0 : Int)))) && decide ((z < (0 : Int)))))
     if (overflow = true) then
       (if (seconds < (0 : Int)) then (-9223372036854775808 : Int)
        else if (seconds > (0 : Int)) then (9223372036854775807 : Int) else z)
     else z) = Time.durDecode seconds nanos := by
  have hw : Go.wrapS 64 (nanos * 1) = nanos := by
    rw [wrapS64_eq, Int.mul_one]
    exact wrap64_id nanos (by unfold Time.I32 at hn; unfold Time.I64; omega)
  simp only [hw, wrapS64_eq]
  unfold Time.durDecode Time.nano Time.minInt64 Time.maxInt64
  simp only []
  have hb : ((wrap64 (seconds * 1000000000)).tdiv 1000000000 != seconds)
      = decide ((wrap64 (seconds * 1000000000)).tdiv 1000000000 ≠ seconds) := by
    by_cases h : (wrap64 (seconds * 1000000000)).tdiv 1000000000 = seconds <;> simp [h]
  rw [hb]
  generalize (decide ((wrap64 (seconds * 1000000000)).tdiv 1000000000 ≠ seconds) ||
              decide (seconds < 0) && decide (nanos < 0) &&
                decide (wrap64 (wrap64 (seconds * 1000000000) + nanos) > 0) ||
            decide (seconds > 0) && decide (nanos > 0) && decide (wrap64 (wrap64 (seconds * 1000000000) + nanos) < 0)) = ov
  cases ov
  · simp
  · by_cases h1 : seconds < 0
    · simp [h1]
    · by_cases h2 : seconds > 0
      · simp [h1, h2]
      · simp [h1, h2]

theorem wrap32_I32 (x : Int) : Time.I32 (Time.wrap32 x) := by
  unfold Time.wrap32 Time.I32 Time.two32
  simp only []
  split <;> omega

/-- `Duration.PicoDecode` as translated: untouched on another field; otherwise the two fields are read
through `c.Message` and the result is the model's saturating `durDecode` -/
theorem durationDecode_eq (field : Int) (d : Int) (c : Dec.Dec) :
    GoSrc.Pico.durationDecode field d c
      = if c.cur.pendingField ≠ field then .ok (d, c)
        else (do
          let r ← GoTime.readSecNanos field c 0 0
          pure (Time.durDecode r.2.1 r.2.2, r.1)) := by
  unfold GoSrc.Pico.durationDecode
  simp only [GoTie.D.pendingField_eq]
  first
  | (split
     · rfl
     · unfold GoTime.readSecNanos
       cases h : Dec.message field Gen2.secNanosPass c (pat64 0, pat32 0) with
       | ok r =>
         obtain ⟨c', s⟩ := r
         simp only [Res.bind_ok, pure]
         have := durationDecode_arith (wrap64 ↑s.1) (wrap32 ↑s.2) (wrap32_I32 _)
         simp only [] at this
         rw [← this]
         generalize (decide ((Go.wrapS 64 (wrap64 ↑s.1 * 1000000000)).tdiv 1000000000 ≠ wrap64 ↑s.1) ||
                 decide (wrap64 ↑s.1 < 0) && decide (wrap32 ↑s.2 < 0) &&
                   decide (Go.wrapS 64 (Go.wrapS 64 (wrap64 ↑s.1 * 1000000000) + Go.wrapS 64 (wrap32 ↑s.2 * 1)) > 0) ||
               decide (wrap64 ↑s.1 > 0) && decide (wrap32 ↑s.2 > 0) &&
                 decide (Go.wrapS 64 (Go.wrapS 64 (wrap64 ↑s.1 * 1000000000) + Go.wrapS 64 (wrap32 ↑s.2 * 1)) < 0)) = ov
         cases ov
         · simp
         · by_cases h1 : wrap64 ↑s.1 < 0
           · simp [h1]
           · by_cases h2 : wrap64 ↑s.1 > 0
             · simp [h1, h2]
             · simp [h1, h2]
       | panic w => rfl
       | outOfFuel => rfl)
  | -- the source computes the saturated sum some other way: compare with `durDecode_saturates`
    (by_cases hp : c.cur.pendingField ≠ field
     · simp [hp]
     · simp only [hp, if_false]
       unfold GoTime.readSecNanos
       cases h : Dec.message field Gen2.secNanosPass c (pat64 0, pat32 0) with
       | ok r =>
         obtain ⟨c', s⟩ := r
         have hs := wrap64_I64 (↑s.1)
         have hn := wrap32_I32 (↑s.2)
         simp only [Res.bind_ok, pure]
         generalize wrap64 ↑s.1 = S at *
         generalize wrap32 ↑s.2 = N at *
         rw [durDecode_saturates S N hs hn]
         try unfold_aux_Pico
         simp only [wrapS64_eq, wrapS32_eq, Time.wrap64, Time.wrap32, Time.two64, Time.two32, Time.I64, Time.I32,
           Time.minInt64, Time.maxInt64, show (10 : Int) ^ 9 = 1000000000 from by decide, bind, Res.bind, pure] at *
         simp only [← apply_ite (Res.ok (α := Int)), Res.ok.injEq, Prod.mk.injEq, and_true]
         repeat' split
         all_goals (first | omega | (simp only [Res.ok.injEq, Prod.mk.injEq, and_true, reduceCtorEq] at *; omega))
       | panic w => rfl
       | outOfFuel => rfl)

/-- `Timestamp.PicoEncode` as translated: nothing for the zero time, otherwise the two-field message
of `Unix()` and `Nanosecond()` -/
theorem timestampEncode_eq (field : Int) (t : GoTime.T) (c : Bytes) :
    GoSrc.Pico.timestampEncode field t c
      = if Time.isZero t.1 t.2 then .ok (t, c, false)
        else .ok (t, c ++ GoTime.secNanosMessage field t.1 (Time.wrap32 t.2), true) := by
  unfold GoSrc.Pico.timestampEncode GoTime.isZero GoTime.unix GoTime.nanosecond
  first
  | (simp [wrapS32_eq]; done)
  | (simp only [wrapS32_eq, bind, Res.bind, pure]; grind)

/-- `Timestamp.PicoDecode` as translated: `time.Unix(seconds, nanos).UTC()` of the two fields read -/
theorem timestampDecode_eq (field : Int) (t : GoTime.T) (c : Dec.Dec) :
    GoSrc.Pico.timestampDecode field t c
      = if c.cur.pendingField ≠ field then .ok (t, c)
        else (do
          let r ← GoTime.readSecNanos field c 0 0
          pure (Time.unixNorm r.2.1 r.2.2, r.1)) := by
  unfold GoSrc.Pico.timestampDecode GoTime.utc GoTime.ofUnix
  simp only [GoTie.D.pendingField_eq]
  first
  | (by_cases hp : c.cur.pendingField ≠ field
     · simp [hp]
     · simp only [hp, if_false])
  | (simp only [bind, Res.bind, pure]; grind)

/-- the model's cast `Gen2.durEncode` appends exactly what the translated `Duration.PicoEncode` appends -/
theorem durEncode_model (field : Int) (d : Int) (hd : Time.I64 d) :
    Gen2.durEncode field (Time.pat64 d) = GoTime.secNanosMessage field (Time.durSplit d).1 (Time.durSplit d).2 := by
  unfold Gen2.durEncode GoTime.secNanosMessage
  have : Time.wrap64 (Time.pat64 d) = d := by
    unfold Time.wrap64 Time.pat64 Time.two64 Time.I64 at *
    simp only []
    split <;> omega
  simp only [this]

/-- the model's cast `Gen2.durDecode` is the translated `Duration.PicoDecode` (value as int64 pattern) -/
theorem durDecode_model (field : Int) (d0 : Int) (c : Dec.Dec) :
    Gen2.durDecode field c
      = (do let r ← GoSrc.Pico.durationDecode field d0 c
            pure (r.2, if c.cur.pendingField ≠ field then none else some (Time.pat64 r.1))) := by
  rw [durationDecode_eq]
  unfold Gen2.durDecode GoTime.readSecNanos
  by_cases hp : c.cur.pendingField ≠ field
  · simp [hp]
  · simp only [hp, if_false]
    have h0 : (Time.pat64 0, Time.pat32 0) = ((0 : Nat), (0 : Nat)) := by decide
    rw [h0]
    cases Dec.message field Gen2.secNanosPass c (0, 0) <;> rfl

end Pico.GoTie.P
