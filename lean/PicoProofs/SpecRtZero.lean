import PicoProofs.SpecRtShape
/-
Task F, part 5: what is encoded as nothing is the zero value.
-/
namespace Pico.SpecRt
open Pico Pico.Spec
open Pico.Wire

def zeroMsgOk (S : Schema) : Prop :=
  ∀ id, Gen2.zeroMsgN S (S.length + 1) id = Gen2.zeroMsgN S (S.length + 2) id

theorem zeroMsg_unfold (S : Schema) (hZ : zeroMsgOk S) (id : Nat) :
    Gen2.zeroMsg S id = .msg ((S.msg id).fields.map fun f => Gen2.zeroField S f) [] := by
  show Gen2.zeroMsgN S (S.length + 1) id = _
  rw [hZ id]
  rfl

theorem zeroField_plain (S : Schema) (f : Field) (ho : f.inOneof = false) (hr : f.repeated = false) :
    Gen2.zeroField S f =
      match f.kind with
      | .map _ _ => .none
      | .message id =>
        if f.pointer S then .none
        else if f.cat == 1 then .num (Time.timeCode Time.zeroUnix 0)
        else if f.cat == 2 then .num 0
        else Gen2.zeroMsg S id
      | .scalar k => if f.pointer S then .none else k.zero
      | .enum => .num 0 := by
  simp only [Gen2.zeroField, Gen2.zeroSlot, ho, hr, Bool.false_eq_true, ↓reduceIte]
  cases f.kind <;> rfl

theorem zeroField_rep (S : Schema) (f : Field) (ho : f.inOneof = false) (hr : f.repeated = true) :
    Gen2.zeroField S f = .list [] := by
  simp only [Gen2.zeroField, Gen2.zeroSlot, ho, hr, Bool.false_eq_true, ↓reduceIte]

theorem zeroField_oneof (S : Schema) (f : Field) (ho : f.inOneof = true) :
    Gen2.zeroField S f = .none := by
  simp only [Gen2.zeroField, Gen2.zeroSlot, ho, ↓reduceIte]

theorem time_zero_code (c : Nat) (hok : timeOk c = true) (hz : isZeroTime c = true) :
    c = Time.timeCode Time.zeroUnix 0 := by
  simp only [timeOk, Bool.and_eq_true, decide_eq_true_eq] at hok
  simp only [isZeroTime, Time.isZero, Bool.and_eq_true, beq_iff_eq] at hz
  obtain ⟨h1, h2⟩ := hz
  unfold Time.codeSec Time.wrap64 Time.two64 Time.zeroUnix at h1
  unfold Time.codeNs at h2
  unfold Time.timeCode Time.pat64 Time.zeroUnix Time.two64
  simp only [Int.ofNat_eq_natCast] at h1 h2
  split at h1 <;> omega

theorem tsField_eq_nil (num c : Nat) (h : tsField num c = []) : isZeroTime c = true := by
  unfold tsField at h
  unfold isZeroTime
  split at h
  · assumption
  · exact absurd h (lenField_ne_nil _ _)

theorem flatten_eq_nil_of_ne {α β} (vs : List α) (F : α → List β) (hF : ∀ v ∈ vs, F v ≠ [])
    (h : (vs.map F).flatten = []) : vs = [] := by
  cases vs with
  | nil => rfl
  | cons a as =>
    simp only [List.map_cons, List.flatten_cons, List.append_eq_nil_iff] at h
    exact absurd h.1 (hF a List.mem_cons_self)

/-- a field value that is encoded as nothing is the zero value of the field -/
theorem shape_empty_zero (S : Schema) (f : Field) (x : Val) (e : Bytes) (hs : Shape S false f x e)
    (ho : f.inOneof = false) (he : e = [])
    (hEZ : ∀ id', wtMsg S true id' x = true → specEnc S id' x = [] → x = Gen2.zeroMsg S id') :
    x = Gen2.zeroField S f := by
  cases hs with
  | none hw hz => exact hz.symm
  | ptrScalar k y hk hr hp hy => exact absurd he (field1_ne_nil _ _ _)
  | ptrTs id' c hk hc hr hp hok hnz => exact absurd he (lenField_ne_nil _ _)
  | ptrDur id' c hk hc hr hp hok => exact absurd he (lenField_ne_nil _ _)
  | ptrMsg id' y hk hc1 hc2 hr hp hy => exact absurd he (lenField_ne_nil _ _)
  | numScalar k n hk hr hp hb hn =>
    rw [zeroField_plain S f ho hr]
    simp only [hk, hp, Bool.false_eq_true, ↓reduceIte, Scalar.zero, hb]
    split at he
    · rename_i h0
      simp only [Bool.not_false, Bool.true_and, isZeroVal, hb, Bool.false_eq_true, ↓reduceIte, Enc.SVal.num!,
        beq_iff_eq] at h0
      rw [h0]
    · exact absurd he (field1_ne_nil _ _ _)
  | numEnum n hk hr hp hn =>
    rw [zeroField_plain S f ho hr]
    simp only [hk]
    split at he
    · rename_i h0
      simp only [Bool.not_false, Bool.true_and, beq_iff_eq] at h0
      rw [h0]
    · exact absurd he (field1_ne_nil _ _ _)
  | numTs id' c hk hc hr hp hok hw =>
    rw [zeroField_plain S f ho hr]
    simp only [hk, hp, hc, Bool.false_eq_true, ↓reduceIte, BEq.rfl]
    rw [time_zero_code c hok (tsField_eq_nil _ _ he)]
  | numDur id' c hk hc hr hp hok hw => exact absurd he (lenField_ne_nil _ _)
  | bytes k b hk hr hp hb =>
    rw [zeroField_plain S f ho hr]
    simp only [hk, hp, Bool.false_eq_true, ↓reduceIte, Scalar.zero, hb]
    split at he
    · rename_i h0
      simp only [Bool.not_false, Bool.true_and, List.isEmpty_iff] at h0
      rw [h0]
    · exact absurd he (field1_ne_nil _ _ _)
  | msg id' slots unrec hk hc1 hc2 hr hp hy hne =>
    rw [zeroField_plain S f ho hr]
    simp only [hk, hp, beq_iff_eq, hc1, hc2, Bool.false_eq_true, ↓reduceIte]
    split at he
    · rename_i h0
      exact hEZ id' hy (List.isEmpty_iff.mp h0)
    · exact absurd he (lenField_ne_nil _ _)
  | listPacked k vs hk hr hw hb hall =>
    rw [zeroField_rep S f ho hr]
    split at he
    · rename_i h0; rw [List.isEmpty_iff.mp h0]
    · exact absurd he (lenField_ne_nil _ _)
  | listBytes k vs hk hr hw hb hall =>
    rw [zeroField_rep S f ho hr, flatten_eq_nil_of_ne vs _ (fun v _ => field1_ne_nil _ _ _) he]
  | listEnum vs hk hr hw hall =>
    rw [zeroField_rep S f ho hr]
    split at he
    · rename_i h0; rw [List.isEmpty_iff.mp h0]
    · exact absurd he (lenField_ne_nil _ _)
  | listTs id' vs hk hc hr hw hall =>
    rw [zeroField_rep S f ho hr, flatten_eq_nil_of_ne vs _ (fun v _ => lenField_ne_nil _ _) he]
  | listDur id' vs hk hc hr hw hall =>
    rw [zeroField_rep S f ho hr, flatten_eq_nil_of_ne vs _ (fun v _ => lenField_ne_nil _ _) he]
  | listMsg id' vs hk hc1 hc2 hr hw hall =>
    rw [zeroField_rep S f ho hr, flatten_eq_nil_of_ne vs _ (fun v _ => lenField_ne_nil _ _) he]
  | map k v es hk hw hall hne hnd =>
    exfalso
    unfold mapEntries at he
    exact hne (flatten_eq_nil_of_ne es _ (fun v _ => lenField_ne_nil _ _) he)

/-- inside a selected oneof wrapper something is always written -/
theorem shape_wrapper_ne_nil (S : Schema) (f : Field) (x : Val) (e : Bytes) (hs : Shape S true f x e) : e ≠ [] := by
  cases hs with
  | none hw hz => cases hw
  | ptrScalar k y hk hr hp hy => exact field1_ne_nil _ _ _
  | ptrTs id' c hk hc hr hp hok hnz => exact lenField_ne_nil _ _
  | ptrDur id' c hk hc hr hp hok => exact lenField_ne_nil _ _
  | ptrMsg id' y hk hc1 hc2 hr hp hy => exact lenField_ne_nil _ _
  | numScalar k n hk hr hp hb hn => simp only [Bool.not_true, Bool.false_and, Bool.false_eq_true, ↓reduceIte]; exact field1_ne_nil _ _ _
  | numEnum n hk hr hp hn => simp only [Bool.not_true, Bool.false_and, Bool.false_eq_true, ↓reduceIte]; exact field1_ne_nil _ _ _
  | numTs id' c hk hc hr hp hok hw => cases hw
  | numDur id' c hk hc hr hp hok hw => cases hw
  | bytes k b hk hr hp hb => simp only [Bool.not_true, Bool.false_and, Bool.false_eq_true, ↓reduceIte]; exact field1_ne_nil _ _ _
  | msg id' slots unrec hk hc1 hc2 hr hp hy hne =>
    have := hne rfl
    have h0 : (specEnc S id' (.msg slots unrec)).isEmpty = false := isEmpty_false_of_ne_nil this
    rw [h0]; simp only [Bool.false_eq_true, ↓reduceIte]; exact lenField_ne_nil _ _
  | listPacked k vs hk hr hw hb hall => cases hw
  | listBytes k vs hk hr hw hb hall => cases hw
  | listEnum vs hk hr hw hall => cases hw
  | listTs id' vs hk hc hr hw hall => cases hw
  | listDur id' vs hk hc hr hw hall => cases hw
  | listMsg id' vs hk hc1 hc2 hr hw hall => cases hw
  | map k v es hk hw hall hne hnd => cases hw


theorem wt_oneof_cases (S : Schema) (f : Field) (ho : f.inOneof = true) (x : Val)
    (hwt : wtField S true false f x = true) :
    x = .none ∨ ∃ y, x = .some y ∧ wtField S true true f y = true ∧ encField S false f x = encField S true f y := by
  cases x with
  | none => exact Or.inl rfl
  | some y =>
    right
    refine ⟨y, rfl, ?_, ?_⟩
    · rw [wtField_some] at hwt
      simpa [ho] using hwt
    · rw [encField.eq_2]; simp [ho]
  | num n => simp [wtField, ho] at hwt
  | bytes b => simp [wtField, ho] at hwt
  | msg s u => simp [wtField, ho] at hwt
  | list vs => rw [show wtField S true false f (.list vs) = (!f.inOneof && f.repeated && _) from rfl] at hwt; simp [ho] at hwt
  | map es => simp [wtField, ho] at hwt

theorem field_empty_zero (S : Schema) (f : Field) (hF : FieldFacts S f) (x : Val)
    (hwt : wtField S true false f x = true) (he : encField S false f x = [])
    (hEZ : ∀ id', wtMsg S true id' x = true → specEnc S id' x = [] → x = Gen2.zeroMsg S id') :
    x = Gen2.zeroField S f := by
  cases ho : f.inOneof with
  | false => exact shape_empty_zero S f x _ (classify S false f ho hF x hwt) ho he hEZ
  | true =>
    rcases wt_oneof_cases S f ho x hwt with rfl | ⟨y, rfl, hy, henc⟩
    · exact (zeroField_oneof S f ho).symm
    · rw [henc] at he
      exact absurd he (shape_wrapper_ne_nil S f y _ (classify S true f ho hF y hy))

theorem sortChunks_eq_nil (cs : List (Nat × Bytes)) (h : sortChunks cs = []) : ∀ p ∈ cs, p.2 = [] := by
  intro p hp
  unfold sortChunks at h
  rw [List.flatten_eq_nil_iff] at h
  have hp' : p ∈ cs.mergeSort (fun a b => a.1 ≤ b.1) := (List.mergeSort_perm cs _).mem_iff.mpr hp
  exact h p.2 (List.mem_map.mpr ⟨p, hp', rfl⟩)

theorem slots_zero (S : Schema) : ∀ (fs : List Field) (slots : List Val), wtSlots S true fs slots = true →
    (∀ p ∈ encSlots S fs slots, p.2 = []) → (∀ f ∈ fs, FieldFacts S f) →
    (∀ x ∈ slots, ∀ id', wtMsg S true id' x = true → specEnc S id' x = [] → x = Gen2.zeroMsg S id') →
    slots = fs.map fun f => Gen2.zeroField S f := by
  intro fs
  induction fs with
  | nil =>
    intro slots hwt _ _ _
    cases slots with
    | nil => rfl
    | cons _ _ => simp [wtSlots] at hwt
  | cons f fs ih =>
    intro slots hwt henc hF hEZ
    cases slots with
    | nil => simp [wtSlots] at hwt
    | cons x xs =>
      rw [wtSlots.eq_2, Bool.and_eq_true] at hwt
      rw [encSlots.eq_1] at henc
      have h1 := field_empty_zero S f (hF f List.mem_cons_self) x hwt.1 (henc _ List.mem_cons_self)
        (hEZ x List.mem_cons_self)
      have h2 := ih xs hwt.2 (fun p hp => henc p (List.mem_cons_of_mem _ hp))
        (fun g hg => hF g (List.mem_cons_of_mem _ hg)) (fun y hy => hEZ y (List.mem_cons_of_mem _ hy))
      rw [List.map_cons, ← h1, ← h2]

theorem fieldFacts_all (S : Schema) (hS : S.supported = true) (id : Nat) :
    ∀ f ∈ (S.msg id).fields, FieldFacts S f := by
  intro f hf
  obtain ⟨i, hi, rfl⟩ := List.mem_iff_getElem.mp hf
  exact fieldFacts S _ (field_supported S hS id i _ (by simp [hi]))

/-- a strictly well-typed message that is encoded as nothing is the zero message -/
theorem msg_empty_zero (S : Schema) (hS : S.supported = true) (hZ : zeroMsgOk S) : ∀ (n : Nat) (v : Val), sizeOf v ≤ n →
    ∀ id, wtMsg S true id v = true → specEnc S id v = [] → v = Gen2.zeroMsg S id := by
  intro n
  induction n with
  | zero =>
    intro v hv
    cases v <;> simp at hv
  | succ n ih =>
    intro v hv id hwt he
    cases v with
    | msg slots unrec =>
      rw [wtMsg.eq_1] at hwt
      simp only [Bool.and_eq_true] at hwt
      obtain ⟨⟨hws, _⟩, hcap⟩ := hwt
      simp only [specEnc, List.append_eq_nil_iff] at he
      obtain ⟨he1, he2⟩ := he
      have hu : unrec = [] := by
        cases hc : (S.msg id).capture with
        | true => simpa [hc] using he2
        | false => simpa [hc] using hcap
      have := slots_zero S _ slots hws (sortChunks_eq_nil _ he1) (fieldFacts_all S hS id)
        (fun x hx id' hwx hex => ih x (by
          have := List.sizeOf_lt_of_mem hx
          simp only [Val.msg.sizeOf_spec] at hv
          omega) id' hwx hex)
      rw [zeroMsg_unfold S hZ id, this, hu]
    | _ => simp [wtMsg] at hwt

end Pico.SpecRt
