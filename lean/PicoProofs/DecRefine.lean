import PicoProofs.DecRefineInner
/-!
T_dec — the cursor-machine decoder computes the record-at-a-time specification
(properties C02, C05, C09, C10).
-/
namespace Pico.Gen2
open Pico.Wire Pico.Dec

/-! ### fields of a message -/

theorem findField_of_nodup_aux : ∀ (fs : List Field) (i k : Nat) (f : Field),
    (fs.map (·.num)).Nodup → fs[i]? = some f →
    (fs.zipIdx k).find? (fun p => p.1.num == f.num) = some (f, i + k) := by
  intro fs
  induction fs with
  | nil => intro i k f _ h; simp at h
  | cons g fs ih =>
    intro i k f hnd hf
    simp only [List.map_cons, List.nodup_cons] at hnd
    rw [List.zipIdx_cons, List.find?_cons]
    cases i with
    | zero =>
      simp only [List.getElem?_cons_zero, Option.some.injEq] at hf
      subst hf
      simp
    | succ i =>
      simp only [List.getElem?_cons_succ] at hf
      have hmem : f ∈ fs := List.mem_of_getElem? hf
      have hne : (g.num == f.num) = false := by
        rw [beq_eq_false_iff_ne]
        intro he
        exact hnd.1 (by rw [he]; exact List.mem_map_of_mem hmem)
      simp only [hne]
      rw [ih i (k + 1) f hnd.2 hf]
      congr 2
      omega

theorem findField_of_nodup (fs : List Field) (i : Nat) (f : Field) (hnd : (fs.map (·.num)).Nodup)
    (hf : fs[i]? = some f) : Spec.findField fs f.num = some (i, f) := by
  unfold Spec.findField
  rw [findField_of_nodup_aux fs i 0 f hnd hf]
  rfl


theorem stepU_plain (S : Schema) (id : Nat) (r : Spec.Record) (m : Val) (i : Nat) (f : Field)
    (hf : Spec.findField (S.msg id).fields r.num = some (i, f)) (ho : f.inOneof = false) :
    Spec.stepU S id r m = (Spec.applyU S f r (getSlot m i)).map fun v => setSlot m i v := by
  unfold Spec.stepU Spec.step
  rw [hf]
  simp only [ho, Bool.false_eq_true, ↓reduceIte]

theorem stepU_oneof (S : Schema) (id : Nat) (r : Spec.Record) (m : Val) (i : Nat) (f : Field)
    (hf : Spec.findField (S.msg id).fields r.num = some (i, f)) (ho : f.inOneof = true) :
    Spec.stepU S id r m =
      (Spec.applyU S { f with oneof := 0 } r
        (match getSlot m i with | .some x => x | _ => zeroField S { f with oneof := 0 })).map
        fun inner => setSlot
          (match getSlot m i with | .some _ => m | _ => clearGroup (S.msg id).fields f.oneof i m)
          i (.some inner) := by
  unfold Spec.stepU Spec.step
  rw [hf]
  simp only [ho, ↓reduceIte]
  rfl

/-- whether a record is acceptable for a field does not depend on the value decoded into -/
theorem applyU_isSome_indep (S : Schema) (f : Field) (r : Spec.Record) (c c' : Val) :
    (Spec.applyU S f r c).isSome = (Spec.applyU S f r c').isSome := by
  rw [← Spec.applyRec_of_ge S (n := 2 * r.payload.length + 3) (Nat.le_refl _),
    ← Spec.applyRec_of_ge S (n := 2 * r.payload.length + 3) (c := c') (Nat.le_refl _),
    Spec.applyRec_isSome_eq_recOk, Spec.applyRec_isSome_eq_recOk]

theorem opt_map_const {α β : Type} (o o' : Option α) (b : β) (h : o.isSome = o'.isSome) :
    o.map (fun _ => b) = o'.map (fun _ => b) := by
  cases o <;> cases o' <;> simp_all

theorem nestedOk_none (S : Schema) (f : Field) : nestedOk S f .none = true := by
  unfold nestedOk
  cases f.kind <;> simp [shMsg]

theorem cast_num_eq {r : Spec.Record} {f : Field} (h : (r.num : Int) = (f.num : Int)) : r.num = f.num := by
  omega

/-- writing back what the reader of another field returns changes nothing -/
theorem setSlot_noop (S : Schema) (id : Nat) (m : Val) (i : Nat) (f : Field)
    (hfi : (S.msg id).fields[i]? = some f) (ho : f.inOneof = false) (hI : InvM S id m) :
    setSlot m i (noopVal f (getSlot m i)) = m := by
  have hout : shVar S true f = shVar S false f := by
    funext v; rw [shVar_true, if_neg (by rw [ho]; simp)]
  rcases slot_cases m i with ⟨slots, u, rfl, hi, _⟩ | ⟨hset, _⟩
  · have hv : slots[i]? = some (getSlot (.msg slots u) i) := by
      rw [getSlot_msg, List.getElem?_eq_getElem hi]; rfl
    have hs := shMsg_slot S id slots u i f _ hI hfi hv
    rw [hout, shVar_false, Bool.and_eq_true] at hs
    rw [noopVal_eq f _ hs.1, setSlot_getSlot_self]
  · exact hset _

/-- the variable of a field that is not a oneof member, inside the message value -/
theorem slotCtx_plain (S : Schema) (id : Nat) (m : Val) (i : Nat) (f : Field)
    (hnd : ((S.msg id).fields.map (·.num)).Nodup) (hfi : (S.msg id).fields[i]? = some f)
    (ho : f.inOneof = false) (hI : InvM S id m) :
    SlotCtx S id f m (getSlot m i) (fun v => setSlot m i v) := by
  have hfind : ∀ r : Spec.Record, (r.num : Int) = f.num →
      Spec.findField (S.msg id).fields r.num = some (i, f) := by
    intro r hr
    rw [cast_num_eq hr]
    exact findField_of_nodup _ i f hnd hfi
  have hout : shVar S true f = shVar S false f := by
    funext v; rw [shVar_true, if_neg (by rw [ho]; simp)]
  refine ⟨fun r hr => stepU_plain S id r m i f (hfind r hr) ho, fun _ v r hr => ?_, fun _ => ?_, fun v hv => ?_, ?_⟩
  · rw [stepU_plain S id r _ i f (hfind r hr) ho]
    simp only [setSlot_setSlot]
    rcases slot_cases m i with ⟨slots, u, _, _, hget⟩ | ⟨hset, hget⟩
    · rw [hget]
    · rw [hset, hget]
      have : (fun v => setSlot m i v) = fun _ => m := by funext v; exact hset v
      rw [this]
      exact opt_map_const _ _ m (applyU_isSome_indep S f r _ _)
  · rcases slot_cases m i with ⟨slots, u, rfl, hi, _⟩ | ⟨hset, _⟩
    · have hv : slots[i]? = some (getSlot (.msg slots u) i) := by
        rw [getSlot_msg, List.getElem?_eq_getElem hi]; rfl
      have hs := shMsg_slot S id slots u i f _ hI hfi hv
      rw [hout, shVar_false, Bool.and_eq_true] at hs
      rw [noopVal_eq f _ hs.1, setSlot_getSlot_self]
    · exact (hset _).symm
  · exact shMsg_setSlot S id m i f v hI hfi (by rw [hout]; exact hv)
  · rcases slot_cases m i with ⟨slots, u, rfl, hi, _⟩ | ⟨_, hget⟩
    · have hv : slots[i]? = some (getSlot (.msg slots u) i) := by
        rw [getSlot_msg, List.getElem?_eq_getElem hi]; rfl
      have hs := shMsg_slot S id slots u i f _ hI hfi hv
      rw [hout, shVar_false, Bool.and_eq_true] at hs
      exact hs.2
    · rw [hget]; exact nestedOk_none S f


/-! ### what `supported` gives -/

theorem supported_oneof (S : Schema) (f : Field) (hs : Field.supported S f = true) (ho : f.inOneof = true) :
    f.repeated = false ∧ ∀ k v, f.kind ≠ .map k v := by
  unfold Field.supported at hs
  simp only [Bool.and_eq_true, Bool.or_eq_true, bne_iff_ne, ne_eq, beq_iff_eq] at hs
  obtain ⟨⟨⟨⟨⟨⟨_, hkind⟩, _⟩, hl2⟩, _⟩, _⟩, _⟩ := hs
  have ho' : f.oneof ≠ 0 := by
    unfold Field.inOneof at ho
    simpa using ho
  constructor
  · unfold Field.repeated
    have : f.label ≠ 2 := by
      rcases hl2 with h | h
      · exact h
      · exact absurd h ho'
    simp [this]
  · intro k v hk
    rw [hk] at hkind
    simp only [Bool.and_eq_true, bne_iff_ne, ne_eq, beq_iff_eq] at hkind
    exact ho' hkind.2

theorem msg_supported (S : Schema) (hS : S.supported = true) (id : Nat) :
    Msg.supported S (S.msg id) = true := by
  unfold Schema.msg
  by_cases hi : id < S.length
  · unfold Schema.supported at hS
    rw [List.all_eq_true] at hS
    have : S.getD id ⟨[], false, false⟩ = S[id] := by
      simp [List.getD_eq_getElem?_getD, List.getElem?_eq_getElem hi]
    rw [this]
    exact hS _ (List.getElem_mem hi)
  · have : S.getD id ⟨[], false, false⟩ = ⟨[], false, false⟩ := by
      simp [List.getD_eq_getElem?_getD, List.getElem?_eq_none (by omega : S.length ≤ id)]
    rw [this]
    rfl

/-- the three facts about the fields of one message -/
structure MsgOk (S : Schema) (id : Nat) : Prop where
  fields : ∀ f ∈ (S.msg id).fields, Field.supported S f = true
  nodup : ((S.msg id).fields.map (·.num)).Nodup
  small : (S.msg id).capture = true → ∀ f ∈ (S.msg id).fields, f.num < 64

theorem msgOk_of_supported (S : Schema) (hS : S.supported = true) (id : Nat) : MsgOk S id := by
  have h := msg_supported S hS id
  unfold Msg.supported at h
  simp only [Bool.and_eq_true, Bool.or_eq_true, Bool.not_eq_true', List.all_eq_true, decide_eq_true_eq] at h
  obtain ⟨⟨h1, h2⟩, h3⟩ := h
  refine ⟨h1, h2, fun hc f hf => ?_⟩
  rcases h3 with h3 | h3
  · rw [hc] at h3; cases h3
  · exact h3 f hf


/-! ### `decField` -/

theorem shVar_some_oneof (S : Schema) (f : Field) (ho : f.inOneof = true) (v : Val) :
    shVar S true f (.some v) = shVar S false { f with oneof := 0 } v := by
  rw [shVar_true, if_pos ho, shVar_false_oneof]

/-- the oneof branch of `decField`, with the wrapper bookkeeping abstracted -/
theorem decField_oneof_core (S : Schema) (fuel id : Nat)
    (hpass : ∀ id', PassC (Spec.specUnmarshal S id') (Spec.stepU S id') (InvM S id') (decPass S fuel id'))
    (hok : MsgOk S id) (i : Nat) (f : Field) (hfi : (S.msg id).fields[i]? = some f) (ho : f.inOneof = true)
    {b : Bytes} {d : Dec} {m : Val} (hta : TA b d) (hpf : (f.num : Int) = d.cur.pendingField)
    (base m0 inner0 : Val)
    (hinner : inner0 = (match getSlot m i with | .some x => x | _ => zeroField S { f with oneof := 0 }))
    (hbase : base = (match getSlot m i with | .some _ => m | _ => clearGroup (S.msg id).fields f.oneof i m))
    (hm0 : ∀ v, setSlot m0 i v = setSlot base i v)
    (hnest : nestedOk S { f with oneof := 0 } inner0 = true) (hIb : InvM S id base)
    {d' : Dec} {m' : Val}
    (h : (decInner S fuel { f with oneof := 0 } d inner0 >>= fun x => pure (x.1, setSlot m0 i (.some x.2)))
      = .ok (d', m')) :
    Fired (Spec.specUnmarshal S id) (InvM S id) b d m d' m' := by
  obtain ⟨⟨d1, inner'⟩, hdi, h⟩ := bind_ok_inv h
  simp only [Res.pure_eq] at h
  cases h
  have hsup := hok.fields f (List.mem_of_getElem? hfi)
  obtain ⟨hrep, hnomap⟩ := supported_oneof S f hsup ho
  have hmulti : ¬ (({ f with oneof := 0 } : Field).repeated = true ∨
      ∃ k v, ({ f with oneof := 0 } : Field).kind = .map k v) := by
    rintro (h1 | ⟨k, v, h2⟩)
    · have : f.repeated = true := h1
      rw [hrep] at this; cases this
    · exact hnomap k v h2
  have hfind : ∀ r : Spec.Record, (r.num : Int) = (f.num : Int) →
      Spec.findField (S.msg id).fields r.num = some (i, f) := by
    intro r hr
    rw [cast_num_eq hr]
    exact findField_of_nodup _ i f hok.nodup hfi
  have hc : SlotCtx S id { f with oneof := 0 } m inner0 (fun inner => setSlot base i (.some inner)) := by
    refine ⟨fun r hr => ?_, fun hmu => absurd hmu hmulti, fun hmu => absurd hmu hmulti, fun v hv => ?_, hnest⟩
    · rw [stepU_oneof S id r m i f (hfind r hr) ho, hinner, hbase]
    · exact shMsg_setSlot S id base i f _ hIb hfi (by rw [shVar_some_oneof S f ho]; exact hv)
  have := decInner_fired S fuel id hpass _ hta hc hdi
  have hf := this.2 hpf
  rw [hm0]
  exact hf


theorem decField_chain (S : Schema) (fuel id : Nat)
    (hpass : ∀ id', PassC (Spec.specUnmarshal S id') (Spec.stepU S id') (InvM S id') (decPass S fuel id'))
    (hok : MsgOk S id) (i : Nat) (f : Field) (hfi : (S.msg id).fields[i]? = some f) :
    ChainC (Spec.specUnmarshal S id) (InvM S id) (fun n => (f.num : Int) = n)
      (decField S fuel (S.msg id).fields i f) := by
  intro b d m d' m' hta hI h
  unfold decField at h
  by_cases ho : f.inOneof = true
  · simp only [ho, ↓reduceIte] at h
    by_cases hpf : d.cur.pendingField ≠ (f.num : Int)
    · rw [if_pos hpf] at h
      cases h
      exact ⟨fun _ => ⟨rfl, rfl⟩, fun he => absurd he.symm hpf⟩
    · rw [if_neg hpf] at h
      have hpf' : (f.num : Int) = d.cur.pendingField := (Decidable.of_not_not hpf).symm
      refine ⟨fun hne => absurd hpf' hne, fun _ => ?_⟩
      have hg0 : f.oneof ≠ 0 := by
        unfold Field.inOneof at ho
        simpa using ho
      cases hg : getSlot m i with
      | some x =>
        simp only [hg] at h
        refine decField_oneof_core S fuel id hpass hok i f hfi ho hta hpf' m m x (by rw [hg]) (by rw [hg])
          (fun _ => rfl) ?_ hI h
        rcases slot_cases m i with ⟨slots, u, rfl, hi, _⟩ | ⟨_, hget⟩
        · have hv : slots[i]? = some (Val.some x) := by
            rw [getSlot_msg, List.getElem?_eq_getElem hi] at hg
            rw [List.getElem?_eq_getElem hi]
            exact congrArg some hg
          have hs := shMsg_slot S id slots u i f _ hI hfi hv
          rw [shVar_some_oneof S f ho, shVar_false, Bool.and_eq_true] at hs
          exact hs.2
        · rw [hget] at hg; cases hg
      | _ =>
        simp only [hg] at h
        refine decField_oneof_core S fuel id hpass hok i f hfi ho hta hpf'
          (clearGroup (S.msg id).fields f.oneof i m) _ _ (by rw [hg]) (by rw [hg])
          (fun v => setSlot_setSlot _ _ _ _) ?_ (shMsg_clearGroup S id m _ _ hg0 hI) h
        have := shVar_zeroField S { f with oneof := 0 } rfl
        rw [shVar_false, Bool.and_eq_true] at this
        exact this.2
  · have ho' : f.inOneof = false := by cases hh : f.inOneof <;> simp_all
    simp only [ho', Bool.false_eq_true, ↓reduceIte] at h
    obtain ⟨⟨d1, v⟩, hdi, h⟩ := bind_ok_inv h
    simp only [Res.pure_eq] at h
    cases h
    have hc := slotCtx_plain S id m i f hok.nodup hfi ho' hI
    have := decInner_fired S fuel id hpass f hta hc hdi
    refine ⟨fun hne => ?_, fun hpf => this.2 hpf⟩
    obtain ⟨e1, e2⟩ := this.1 hne
    refine ⟨e1, ?_⟩
    rw [e2]
    exact setSlot_noop S id m i f hfi ho' hI


/-! ### `decFields`: one pass over the readers -/

theorem decFields_nil (S : Schema) (fuel : Nat) (fs : List Field) :
    decFields S fuel fs [] = fun d m => .ok (d, m) := by
  funext d m
  rw [decFields]

theorem decFields_cons (S : Schema) (fuel : Nat) (fs : List Field) (i : Nat) (f : Field)
    (rest : List (Nat × Field)) :
    decFields S fuel fs ((i, f) :: rest) =
      fun d m => decField S fuel fs i f d m >>= fun p => decFields S fuel fs rest p.1 p.2 := by
  funext d m
  rw [decFields]

theorem decFields_chain (S : Schema) (fuel id : Nat)
    (hpass : ∀ id', PassC (Spec.specUnmarshal S id') (Spec.stepU S id') (InvM S id') (decPass S fuel id'))
    (hok : MsgOk S id) : ∀ (L : List (Nat × Field)), (∀ p ∈ L, (S.msg id).fields[p.1]? = some p.2) →
    ChainC (Spec.specUnmarshal S id) (InvM S id) (fun n => ∃ p ∈ L, (p.2.num : Int) = n)
      (decFields S fuel (S.msg id).fields L) := by
  intro L
  induction L with
  | nil =>
    intro _
    rw [decFields_nil]
    exact ChainC.nil.mono_set (fun n => ⟨fun h => h.elim, fun ⟨p, hp, _⟩ => by cases hp⟩)
  | cons p rest ih =>
    intro hall
    obtain ⟨i, f⟩ := p
    rw [decFields_cons]
    have h1 := decField_chain S fuel id hpass hok i f (hall (i, f) List.mem_cons_self)
    have h2 := ih (fun q hq => hall q (List.mem_cons_of_mem _ hq))
    refine (ChainC.seq h1 h2 (decField_mono S fuel (decPass_mono S fuel) _ i f)
      (decFields_mono S fuel (decPass_mono S fuel) _ rest)).mono_set ?_
    intro n
    constructor
    · rintro (h | ⟨q, hq, hn⟩)
      · exact ⟨(i, f), List.mem_cons_self, h⟩
      · exact ⟨q, List.mem_cons_of_mem _ hq, hn⟩
    · rintro ⟨q, hq, hn⟩
      rcases List.mem_cons.mp hq with rfl | hq
      · exact Or.inl hn
      · exact Or.inr ⟨q, hq, hn⟩

theorem mem_sortedIdx (fs : List Field) (p : Nat × Field) : p ∈ sortedIdx fs ↔ fs[p.1]? = some p.2 := by
  unfold sortedIdx
  rw [List.mem_mergeSort, List.mem_map]
  constructor
  · rintro ⟨q, hq, rfl⟩
    exact List.mem_zipIdx_iff_getElem?.mp hq
  · intro h
    exact ⟨(p.2, p.1), List.mem_zipIdx_iff_getElem?.mpr h, rfl⟩


/-! ### `UnrecognizedFields` at the end of the pass -/

theorem testBit_or_shift (w b k : Nat) : (w ||| (1 <<< b)).testBit k = (w.testBit k || decide (b = k)) := by
  rw [Nat.testBit_or, Nat.one_shiftLeft, Nat.testBit_two_pow]

theorem fieldsMask_aux : ∀ (fs : List Field) (z n : Nat),
    (fs.foldl (fun z f => z ||| (1 <<< f.num)) z).testBit n = (z.testBit n || fs.any fun f => f.num == n) := by
  intro fs
  induction fs with
  | nil => intro z n; simp
  | cons f fs ih =>
    intro z n
    rw [List.foldl_cons, ih, testBit_or_shift, List.any_cons, Bool.or_assoc]
    congr 2

theorem fieldsMask_testBit (fs : List Field) (n : Nat) :
    (fieldsMask fs).testBit n = fs.any fun f => f.num == n := by
  unfold fieldsMask
  rw [fieldsMask_aux]
  simp

/-- the tail of the generated `Decode`: capture of unknown fields -/
def capPart (S : Schema) (id : Nat) : DecM Val := fun d m =>
  if (S.msg id).capture then
    match m with
    | .msg slots u => do
      let (d, u) ← Dec.unrecognizedFields (fieldsMask (S.msg id).fields) d u
      return (d, .msg slots u)
    | x => return (d, x)
  else return (d, m)

theorem decPass_succ (S : Schema) (fuel id : Nat) :
    decPass S (fuel + 1) id = fun d m =>
      decFields S fuel (S.msg id).fields (sortedIdx (S.msg id).fields) d m >>= fun p => capPart S id p.1 p.2 := by
  funext d m
  rw [decPass]
  rfl

theorem capPart_mono (S : Schema) (id : Nat) : MonoFn (capPart S id) := by
  intro d m d2 m2 h
  unfold capPart at h
  by_cases hc : (S.msg id).capture = true
  · rw [if_pos hc] at h
    cases m with
    | msg slots u =>
      simp only at h
      obtain ⟨⟨d3, u3⟩, hu, h⟩ := bind_ok_inv h
      cases h
      exact unrecognizedFields_mono _ d u d3 u3 hu
    | _ => cases h; exact Mono.refl _
  · rw [if_neg hc] at h
    cases h
    exact Mono.refl _

/-- a number `UnrecognizedFields` captures is not a field number (in a capturing message all field
numbers are below 64) -/
theorem findField_none_of_unk (S : Schema) (id : Nat) (hok : MsgOk S id) (hc : (S.msg id).capture = true)
    (n : Nat) (h : unkNum (fieldsMask (S.msg id).fields) (n : Int)) :
    Spec.findField (S.msg id).fields n = none := by
  rw [Spec.findField_none_iff]
  intro f hf hnum
  have hlt := hok.small hc f hf
  rcases h.2 with h64 | hbit
  · omega
  · rw [Int.toNat_natCast, fieldsMask_testBit] at hbit
    have : ((S.msg id).fields.any fun g => g.num == n) = true := by
      rw [List.any_eq_true]; exact ⟨f, hf, by rw [hnum]; simp⟩
    rw [this] at hbit
    cases hbit

theorem unk_of_findField_none (S : Schema) (id : Nat) (n : Int) (hn : 1 ≤ n)
    (h : Spec.findField (S.msg id).fields n.toNat = none) :
    unkNum (fieldsMask (S.msg id).fields) n := by
  refine ⟨by omega, ?_⟩
  right
  rw [fieldsMask_testBit]
  rw [Spec.findField_none_iff] at h
  cases ha : (S.msg id).fields.any fun g => g.num == n.toNat with
  | false => rfl
  | true =>
    rw [List.any_eq_true] at ha
    obtain ⟨f, hf, he⟩ := ha
    exact absurd (by simpa using he) (h f hf)

theorem capPart_spec (S : Schema) (id : Nat) (hok : MsgOk S id) {b : Bytes} {d : Dec} {m : Val}
    {d2 : Dec} {m2 : Val} (hta : TA b d) (hI : InvM S id m) (h : capPart S id d m = .ok (d2, m2)) :
    ((d2 = d ∧ m2 = m) ∨ Fired (Spec.specUnmarshal S id) (InvM S id) b d m d2 m2) ∧
    (b ≠ [] → Spec.findField (S.msg id).fields (pendRec d.cur).num = none →
      Spec.stepU S id (pendRec d.cur) m = some m ∨
        Fired (Spec.specUnmarshal S id) (InvM S id) b d m d2 m2) := by
  have hL := u_laws S id
  unfold capPart at h
  by_cases hc : (S.msg id).capture = true
  · rw [if_pos hc] at h
    cases m with
    | msg slots u =>
      simp only at h
      obtain ⟨⟨d3, u3⟩, hu, h⟩ := bind_ok_inv h
      simp only [Res.pure_eq] at h
      cases h
      unfold unrecognizedFields at hu
      have hun := unrecognizedFieldsN_fired (Inv := InvM S id) hL (fieldsMask (S.msg id).fields)
        (fun u => Val.msg slots u) (fun u' => by
          have : shMsg S id (.msg slots u') = shMsg S id (.msg slots u) := by rw [shMsg, shMsg]
          unfold InvM; rw [this]; exact hI)
        (by
          intro u' r hr
          rw [Spec.stepU_unknown S id r _ (findField_none_of_unk S id hok hc r.num hr)]
          unfold Spec.captureRec
          simp only [hc, ↓reduceIte])
        _ b d u _ u3 hta hu
      constructor
      · by_cases hk : unkNum (fieldsMask (S.msg id).fields) d.cur.pendingField
        · exact Or.inr (hun.2 hk)
        · obtain ⟨e1, e2⟩ := hun.1 hk
          exact Or.inl ⟨e1, by rw [e2]⟩
      · intro hb hf
        right
        apply hun.2
        exact unk_of_findField_none S id _ (hta.frame.valid hb).1 hf
    | _ =>
      cases h
      refine ⟨Or.inl ⟨rfl, rfl⟩, fun hb hf => Or.inl ?_⟩
      rw [Spec.stepU_unknown S id _ _ hf]
      unfold Spec.captureRec
      simp only [hc, ↓reduceIte]
  · rw [if_neg hc] at h
    cases h
    refine ⟨Or.inl ⟨rfl, rfl⟩, fun hb hf => Or.inl ?_⟩
    rw [Spec.stepU_unknown S id _ _ hf]
    unfold Spec.captureRec
    simp only [hc, Bool.false_eq_true, ↓reduceIte]


/-! ### the generated `Decode` is a `Loop` callback for the specification -/

theorem decPass_passC (S : Schema) (hS : S.supported = true) : ∀ (fuel id : Nat),
    PassC (Spec.specUnmarshal S id) (Spec.stepU S id) (InvM S id) (decPass S fuel id) := by
  intro fuel
  induction fuel with
  | zero => intro id b d m d2 m2 _ _ h; rw [decPass] at h; cases h
  | succ fuel ih =>
    intro id b d m d2 m2 hta hI h
    rw [decPass_succ] at h
    obtain ⟨⟨d1, m1⟩, hdf, hcap⟩ := bind_ok_inv h
    have hok := msgOk_of_supported S hS id
    have hch := decFields_chain S fuel id ih hok (sortedIdx (S.msg id).fields)
      (fun p hp => (mem_sortedIdx _ p).1 hp) b d m d1 m1 hta hI hdf
    have hM1 := decFields_mono S fuel (decPass_mono S fuel) _ _ d m d1 m1 hdf
    by_cases hN : ∃ p ∈ sortedIdx (S.msg id).fields, (p.2.num : Int) = d.cur.pendingField
    · have hfired : Fired (Spec.specUnmarshal S id) (InvM S id) b d m d2 m2 :=
        (hch.2 hN).trans (capPart_mono S id d1 m1 d2 m2 hcap).err
          (fun b1 hta1 he1 hI1 => (capPart_spec S id hok ⟨he1, hM1.init hta.init, hta1⟩ hI1 hcap).1)
      exact ⟨Or.inr hfired, fun _ => Or.inr hfired⟩
    · obtain ⟨rfl, rfl⟩ := hch.1 hN
      have hs := capPart_spec S id hok hta hI hcap
      refine ⟨hs.1, fun hb => hs.2 hb ?_⟩
      rw [Spec.findField_none_iff]
      intro f hf hnum
      apply hN
      obtain ⟨i, hi⟩ := List.getElem?_of_mem hf
      exact ⟨(i, f), (mem_sortedIdx _ (i, f)).2 hi, by rw [hnum]; exact toNat_cast_pending hta.frame hb⟩

/-! ### `Unmarshal` -/

/-- **T_dec**: `picobuf.Unmarshal(data, m0)` returns nil exactly when the record-at-a-time
specification accepts `data`, and then the message holds the specification's value.

Side conditions: the schema is one the generator accepts (`S.supported`), and the value decoded
into has the Go shape of the message type (`shMsg S id m0` — `new(T)` has it: `shMsg_zeroMsg`).
No condition on `data`. -/
theorem unmarshal_refines_spec (S : Schema) (hS : S.supported = true) (id : Nat) (data : Bytes) (m0 : Val)
    (hm0 : shMsg S id m0 = true) :
    ∃ d m, unmarshal S id data m0 = .ok (d, m) ∧
      (d.err = none ↔ (Spec.specUnmarshal S id data m0).isSome) ∧
      (d.err = none → Spec.specUnmarshal S id data m0 = some m) := by
  obtain ⟨d, m, h⟩ := unmarshal_total S id data m0
  refine ⟨d, m, h, ?_⟩
  unfold unmarshal at h
  rw [loop_eq] at h
  have hL := u_laws S id
  have hP := decPass_passC S hS (data.length + 1) id
  have hMn := decPass_mono S (data.length + 1) id
  have hstart : loopStart (Dec.new data) = { nextFieldD (Dec.new data) 0 with init := true } := by
    unfold loopStart; rfl
  rw [hstart] at h
  have key : FinO (Spec.specUnmarshal S id data m0) d m := by
    rcases nextFieldD_cases (Dec.new data) 0 (Int.le_refl 0) (by simp) with ⟨_, he, hf⟩ | ⟨hbad, he⟩
    · have hd : (Dec.new data).cur.buffer.drop (0 : Int).toNat = data := by simp [Dec.new]
      rw [hd] at hf
      have hta : TA data { nextFieldD (Dec.new data) 0 with init := true } :=
        ⟨he.trans rfl, rfl, hf⟩
      exact (loopN_refines hL hP hMn _ data _ m0 d m hta hm0 h).1
    · have hd : (Dec.new data).cur.buffer.drop (0 : Int).toNat = data := by simp [Dec.new]
      rw [hd] at hbad
      have hM := loopN_mono _ hMn _ _ m0 d m h
      exact Or.inr ⟨hM.err he, hL.bad hbad m0⟩
  rcases key with ⟨he, ho⟩ | ⟨he, ho⟩
  · exact ⟨⟨fun _ => by rw [ho]; rfl, fun _ => he⟩, fun _ => ho⟩
  · exact ⟨⟨fun h0 => absurd h0 he, fun hs => by rw [ho] at hs; cases hs⟩, fun h0 => absurd h0 he⟩

/-- for a freshly allocated message (`new(T)`) no side condition on the value remains -/
theorem unmarshal_new_refines_spec (S : Schema) (hS : S.supported = true) (id : Nat) (data : Bytes) :
    ∃ d m, unmarshal S id data (zeroMsg S id) = .ok (d, m) ∧
      (d.err = none ↔ (Spec.specUnmarshal S id data (zeroMsg S id)).isSome) ∧
      (d.err = none → Spec.specUnmarshal S id data (zeroMsg S id) = some m) :=
  unmarshal_refines_spec S hS id data _ (shMsg_zeroMsg S id)

end Pico.Gen2

#print axioms Pico.Gen2.unmarshal_refines_spec
#print axioms Pico.Gen2.unmarshal_new_refines_spec
#print axioms Pico.Gen2.decPass_passC
#print axioms Pico.Dec.loopN_refines
