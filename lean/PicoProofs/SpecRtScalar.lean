import PicoProofs.SpecRtCore
/-
Task F, part 2: value-level facts — scalar records, packed payloads, seconds/nanos payloads, map entries.
-/
namespace Pico.SpecRt
open Pico Pico.Spec
open Pico.Wire

/-- a scalar value fits kind `k` (and, for strings, is shorter than 2^64) -/
def SvOk (k : Scalar) : Enc.SVal → Prop
  | .num n => k.isBytes = false ∧ n < 2 ^ k.width
  | .bytes b => k.isBytes = true ∧ b.length < 2 ^ 64

theorem wire_cases (k : Scalar) :
    (k.wire = 0 ∧ k.isBytes = false) ∨ (k.wire = 5 ∧ k.isBytes = false) ∨ (k.wire = 1 ∧ k.isBytes = false) ∨
      (k.wire = 2 ∧ k.isBytes = true) := by
  cases k <;> simp [Scalar.wire, Scalar.isBytes]

theorem wire_lt_8 (k : Scalar) : k.wire < 8 := by
  rcases wire_cases k with h | h | h | h <;> omega

theorem cfv_varint (num : Int) (x : Nat) (hx : x < 2 ^ 64) (rest : Bytes) :
    consumeFieldValue num 0 (varint x ++ rest) = (varint x).length := by
  rw [consumeFieldValue_scalar _ _ _ (by omega)]
  simp only [consumeScalarValue, consumeVarint_varint x hx rest]

theorem cfv_fixed32 (num : Int) (x : Nat) (hx : x < 2 ^ 32) (rest : Bytes) :
    consumeFieldValue num 5 (fixed32 x ++ rest) = (fixed32 x).length := by
  rw [consumeFieldValue_scalar _ _ _ (by omega)]
  simp only [consumeScalarValue, consumeFixed32_fixed32 x rest hx, fixed32_length]; rfl

theorem cfv_fixed64 (num : Int) (x : Nat) (hx : x < 2 ^ 64) (rest : Bytes) :
    consumeFieldValue num 1 (fixed64 x ++ rest) = (fixed64 x).length := by
  rw [consumeFieldValue_scalar _ _ _ (by omega)]
  simp only [consumeScalarValue, consumeFixed64_fixed64 x rest hx, fixed64_length]; rfl

theorem cfv_bytes (num : Int) (p : Bytes) (hp : p.length < 2 ^ 64) (rest : Bytes) :
    consumeFieldValue num 2 (lenPrefixed p ++ rest) = (lenPrefixed p).length := by
  rw [consumeFieldValue_scalar _ _ _ (by omega)]
  simp only [consumeScalarValue, consumeBytes_lenPrefixed p rest hp]

theorem cfv_scalarWire (num : Int) (k : Scalar) (sv : Enc.SVal) (h : SvOk k sv) (rest : Bytes) :
    consumeFieldValue num k.wire (scalarWire k sv ++ rest) = (scalarWire k sv).length := by
  cases sv with
  | num n =>
    obtain ⟨hb, hn⟩ := h
    have h64 := scalarBits_lt_two64 k n hn
    rcases wire_cases k with hw | hw | hw | hw
    · simp only [scalarWire, hw.1, Enc.SVal.num!]; exact cfv_varint _ _ h64 _
    · simp only [scalarWire, hw.1, Enc.SVal.num!]; exact cfv_fixed32 _ _ (scalarBits_lt_two32 k hw.1 n hn) _
    · simp only [scalarWire, hw.1, Enc.SVal.num!]; exact cfv_fixed64 _ _ h64 _
    · rw [hw.2] at hb; cases hb
  | bytes b =>
    obtain ⟨hb, hn⟩ := h
    rcases wire_cases k with hw | hw | hw | hw
    · rw [hw.2] at hb; cases hb
    · rw [hw.2] at hb; cases hb
    · rw [hw.2] at hb; cases hb
    · simp only [scalarWire, hw.1, Enc.SVal.bytes!]; exact cfv_bytes _ _ hn _

theorem parse1_field1 (num : Nat) (h1 : 1 ≤ num) (h2 : num ≤ 536870911) (k : Scalar) (sv : Enc.SVal)
    (h : SvOk k sv) (rest : Bytes) :
    parse1 (field1 num k sv ++ rest) = some (⟨num, k.wire, scalarWire k sv⟩, rest) := by
  unfold field1
  exact parse1_record num k.wire _ rest h1 h2 (wire_lt_8 k) (cfv_scalarWire _ k sv h rest)

theorem parse1_lenField (num : Nat) (h1 : 1 ≤ num) (h2 : num ≤ 536870911) (p : Bytes)
    (hp : p.length < 2 ^ 64) (rest : Bytes) :
    parse1 (lenField num p ++ rest) = some (⟨num, 2, lenPrefixed p⟩, rest) := by
  unfold lenField
  exact parse1_record num 2 _ rest h1 h2 (by omega) (cfv_bytes _ p hp rest)

theorem payload_lenPrefixed (num : Nat) (p : Bytes) (hp : p.length < 2 ^ 64) :
    (Record.mk num 2 (lenPrefixed p)).payload = p := by
  have := consumeBytes_lenPrefixed p [] hp
  simp only [List.append_nil] at this
  simp only [Record.payload, this]

/-- the record written for a scalar denotes that scalar -/
theorem record_scalar_rt (num : Nat) (k : Scalar) (sv : Enc.SVal) (h : SvOk k sv) :
    (Record.mk num k.wire (scalarWire k sv)).scalar k = some sv := by
  unfold Record.scalar
  simp only [ne_eq, not_true_eq_false, ↓reduceIte]
  cases sv with
  | num n =>
    obtain ⟨hb, hn⟩ := h
    have h64 := scalarBits_lt_two64 k n hn
    have hrt := roundtrip_spec k n hn
    rcases wire_cases k with hw | hw | hw | hw
    · have := consumeVarint_varint _ h64 []
      simp only [List.append_nil] at this
      simp only [hw.1, Record.varintVal, scalarWire, Enc.SVal.num!, this, hrt]
    · have := consumeFixed32_fixed32 _ [] (scalarBits_lt_two32 k hw.1 n hn)
      simp only [List.append_nil] at this
      simp only [hw.1, Record.fixed32Val, scalarWire, Enc.SVal.num!, this, hrt]
    · have := consumeFixed64_fixed64 _ [] h64
      simp only [List.append_nil] at this
      simp only [hw.1, Record.fixed64Val, scalarWire, Enc.SVal.num!, this, hrt]
    · rw [hw.2] at hb; cases hb
  | bytes b =>
    obtain ⟨hb, hn⟩ := h
    rcases wire_cases k with hw | hw | hw | hw
    · rw [hw.2] at hb; cases hb
    · rw [hw.2] at hb; cases hb
    · rw [hw.2] at hb; cases hb
    · have := consumeBytes_lenPrefixed b [] hn
      simp only [List.append_nil] at this
      simp only [hw.1, Record.payload, scalarWire, Enc.SVal.bytes!, this]


/-! ### packed payloads -/

theorem scalarWire_num_ne_nil (k : Scalar) (hb : k.isBytes = false) (n : Nat) : scalarWire k (.num n) ≠ [] := by
  rcases wire_cases k with hw | hw | hw | hw
  · simp only [scalarWire, hw.1]; exact varint_ne_nil _
  · simp only [scalarWire, hw.1, fixed32]; simp
  · simp only [scalarWire, hw.1, fixed64, fixed32]; simp
  · rw [hw.2] at hb; cases hb

theorem unpack_succ (k : Scalar) (fuel : Nat) (b : Bytes) :
    unpack k (fuel + 1) b =
      if b.isEmpty then some []
      else
        let r : Nat × Int := match k.wire with
          | 0 => consumeVarint b
          | 5 => consumeFixed32 b
          | _ => consumeFixed64 b
        if r.2 < 0 then none
        else (unpack k fuel (b.drop r.2.toNat)).map (.num (scalarOfBits k r.1) :: ·) := rfl

theorem unpack_head (k : Scalar) (hb : k.isBytes = false) (n : Nat) (hn : n < 2 ^ k.width) (rest : Bytes) :
    (match k.wire with
      | 0 => consumeVarint (scalarWire k (.num n) ++ rest)
      | 5 => consumeFixed32 (scalarWire k (.num n) ++ rest)
      | _ => consumeFixed64 (scalarWire k (.num n) ++ rest)) =
      (scalarBits k n, ((scalarWire k (.num n)).length : Int)) := by
  have h64 := scalarBits_lt_two64 k n hn
  rcases wire_cases k with hw | hw | hw | hw
  · simp only [hw.1, scalarWire, Enc.SVal.num!]; exact consumeVarint_varint _ h64 _
  · simp only [hw.1, scalarWire, Enc.SVal.num!]
    exact consumeFixed32_fixed32 _ _ (scalarBits_lt_two32 k hw.1 n hn)
  · simp only [hw.1, scalarWire, Enc.SVal.num!]; exact consumeFixed64_fixed64 _ _ h64
  · rw [hw.2] at hb; cases hb

theorem unpack_rt (k : Scalar) (hb : k.isBytes = false) : ∀ (ns : List Nat) (fuel : Nat),
    (∀ n ∈ ns, n < 2 ^ k.width) → ns.length < fuel →
    unpack k fuel (ns.map fun n => scalarWire k (.num n)).flatten = some (ns.map .num) := by
  intro ns
  induction ns with
  | nil =>
    intro fuel _ hf
    obtain ⟨f, rfl⟩ : ∃ f, fuel = f + 1 := ⟨fuel - 1, by omega⟩
    rfl
  | cons n ns ih =>
    intro fuel hall hf
    obtain ⟨f, rfl⟩ : ∃ f, fuel = f + 1 := ⟨fuel - 1, by omega⟩
    have hn := hall n (List.mem_cons_self)
    rw [unpack_succ]
    simp only [List.map_cons, List.flatten_cons]
    have hne : (scalarWire k (.num n) ++ (ns.map fun n => scalarWire k (.num n)).flatten).isEmpty = false := by
      apply isEmpty_false_of_ne_nil
      intro h
      exact scalarWire_num_ne_nil k hb n (List.append_eq_nil_iff.mp h).1
    rw [hne]
    simp only [Bool.false_eq_true, ↓reduceIte, unpack_head k hb n hn]
    rw [if_neg (by omega)]
    simp only [Int.toNat_natCast, List.drop_left]
    rw [ih f (fun m hm => hall m (List.mem_cons_of_mem _ hm)) (by simpa using hf)]
    simp only [Option.map_some, roundtrip_spec k n hn]

theorem flatten_length_ge {α} (L : List (List α)) (h : ∀ x ∈ L, 1 ≤ x.length) : L.length ≤ L.flatten.length := by
  induction L with
  | nil => simp
  | cons x xs ih =>
    simp only [List.flatten_cons, List.length_append, List.length_cons]
    have := h x List.mem_cons_self
    have := ih (fun y hy => h y (List.mem_cons_of_mem _ hy))
    omega

/-- the packed payload of a repeated numeric field decodes to its elements -/
theorem unpack_payload (k : Scalar) (hb : k.isBytes = false) (ns : List Nat) (hall : ∀ n ∈ ns, n < 2 ^ k.width) :
    let p := (ns.map fun n => scalarWire k (.num n)).flatten
    unpack k (p.length + 1) p = some (ns.map .num) := by
  intro p
  apply unpack_rt k hb ns _ hall
  have : (ns.map fun n => scalarWire k (.num n)).length ≤ p.length := by
    apply flatten_length_ge
    intro x hx
    obtain ⟨n, _, rfl⟩ := List.mem_map.mp hx
    have := scalarWire_num_ne_nil k hb n
    cases h : scalarWire k (.num n) with
    | nil => exact absurd h this
    | cons _ _ => simp
  simp only [List.length_map] at this
  omega


/-! ### seconds / nanos payloads -/

theorem secNanos_succ (fuel : Nat) (b : Bytes) (s : Nat × Nat) :
    secNanos (fuel + 1) b s =
      if b.isEmpty then some s
      else match parse1 b with
        | none => none
        | some (r, rest) =>
          if r.num = 1 then
            (match r.scalar .int64 with | some v => secNanos fuel rest (v.num!, s.2) | none => none)
          else if r.num = 2 then
            (match r.scalar .int32 with | some v => secNanos fuel rest (s.1, v.num!) | none => none)
          else secNanos fuel rest s := rfl

theorem secNanos_step1 (fuel : Nat) (a : Nat) (ha : a < 2 ^ 64) (rest : Bytes) (s : Nat × Nat) :
    secNanos (fuel + 1) (field1 1 .int64 (.num a) ++ rest) s = secNanos fuel rest (a, s.2) := by
  have hok : SvOk .int64 (.num a) := ⟨rfl, ha⟩
  have hp := parse1_field1 1 (by omega) (by omega) .int64 (.num a) hok rest
  rw [secNanos_succ, isEmpty_false_of_ne_nil (parse1_ne_nil hp), hp]
  simp only [Bool.false_eq_true, ↓reduceIte, record_scalar_rt 1 .int64 (.num a) hok, Enc.SVal.num!]

theorem secNanos_step2 (fuel : Nat) (a : Nat) (ha : a < 2 ^ 32) (rest : Bytes) (s : Nat × Nat) :
    secNanos (fuel + 1) (field1 2 .int32 (.num a) ++ rest) s = secNanos fuel rest (s.1, a) := by
  have hok : SvOk .int32 (.num a) := ⟨rfl, ha⟩
  have hp := parse1_field1 2 (by omega) (by omega) .int32 (.num a) hok rest
  rw [secNanos_succ, isEmpty_false_of_ne_nil (parse1_ne_nil hp), hp]
  simp only [Bool.false_eq_true, ↓reduceIte, record_scalar_rt 2 .int32 (.num a) hok, Enc.SVal.num!]
  simp

theorem field1_length_pos (num : Nat) (k : Scalar) (sv : Enc.SVal) : 1 ≤ (field1 num k sv).length := by
  unfold field1 tag
  have := varint_length_pos (encodeTag num k.wire)
  simp only [List.length_append]; omega

theorem secNanos_two (c1 c2 : Prop) [Decidable c1] [Decidable c2] (a b : Nat) (ha : a < 2 ^ 64)
    (hb : b < 2 ^ 32) (h1 : c1 → a = 0) (h2 : c2 → b = 0) :
    secNanos (((if c1 then [] else field1 1 .int64 (.num a)) ++
        (if c2 then [] else field1 2 .int32 (.num b))).length + 1)
      ((if c1 then [] else field1 1 .int64 (.num a)) ++ (if c2 then [] else field1 2 .int32 (.num b))) (0, 0) =
      some (a, b) := by
  have l1 := field1_length_pos 1 .int64 (.num a)
  have l2 := field1_length_pos 2 .int32 (.num b)
  by_cases hc1 : c1
  · by_cases hc2 : c2
    · simp only [hc1, hc2, ↓reduceIte, List.append_nil, List.length_nil]
      rw [h1 hc1, h2 hc2]; rfl
    · simp only [hc1, hc2, ↓reduceIte, List.nil_append]
      obtain ⟨f, hf⟩ : ∃ f, (field1 2 .int32 (.num b)).length + 1 = f + 1 + 1 := ⟨(field1 2 .int32 (.num b)).length - 1, by omega⟩
      have := secNanos_step2 (f + 1) b hb [] (0, 0)
      simp only [List.append_nil] at this
      rw [hf, this, h1 hc1]; rfl
  · by_cases hc2 : c2
    · simp only [hc1, hc2, ↓reduceIte, List.append_nil]
      obtain ⟨f, hf⟩ : ∃ f, (field1 1 .int64 (.num a)).length + 1 = f + 1 + 1 := ⟨(field1 1 .int64 (.num a)).length - 1, by omega⟩
      have := secNanos_step1 (f + 1) a ha [] (0, 0)
      simp only [List.append_nil] at this
      rw [hf, this, h2 hc2]; rfl
    · simp only [hc1, hc2, ↓reduceIte]
      obtain ⟨f, hf⟩ : ∃ f, (field1 1 .int64 (.num a) ++ field1 2 .int32 (.num b)).length + 1 = f + 1 + 1 + 1 :=
        ⟨(field1 1 .int64 (.num a) ++ field1 2 .int32 (.num b)).length - 2, by simp only [List.length_append]; omega⟩
      have e2 := secNanos_step2 (f + 1) b hb [] (a, 0)
      simp only [List.append_nil] at e2
      rw [hf, secNanos_step1 _ a ha, e2]; rfl


/-! ### time arithmetic -/

theorem pat64_lt (x : Int) : Time.pat64 x < 2 ^ 64 := by
  unfold Time.pat64 Time.two64; omega

theorem pat32_lt (x : Int) : Time.pat32 x < 2 ^ 32 := by
  unfold Time.pat32 Time.two32; omega

theorem wrap64_pat64 (x : Int) (h : Time.I64 x) : Time.wrap64 (Time.pat64 x) = x := by
  unfold Time.I64 at h
  unfold Time.wrap64 Time.pat64 Time.two64
  simp only []
  split <;> omega

theorem wrap32_pat32 (x : Int) (h : Time.I32 x) : Time.wrap32 (Time.pat32 x) = x := by
  unfold Time.I32 at h
  unfold Time.wrap32 Time.pat32 Time.two32
  simp only []
  split <;> omega

theorem pat64_wrap64 (p : Nat) (h : p < 2 ^ 64) : Time.pat64 (Time.wrap64 p) = p := by
  unfold Time.wrap64 Time.pat64 Time.two64
  simp only []
  split <;> omega

/-- a well-formed time code survives `tsField` / `tsOf` -/
theorem ts_code_rt (c : Nat) (h : timeOk c = true) :
    tsOf (Time.pat64 (Time.codeSec c), (Time.codeNs c).toNat) = c ∧
    (Time.codeNs c).toNat < 2 ^ 32 ∧ (Time.codeSec c = 0 → Time.pat64 (Time.codeSec c) = 0) ∧
    (Time.codeNs c = 0 → (Time.codeNs c).toNat = 0) := by
  simp only [timeOk, Bool.and_eq_true, decide_eq_true_eq] at h
  obtain ⟨h1, h2⟩ := h
  have hI : Time.I64 (Time.codeSec c) := Time.wrap64_I64 _
  refine ⟨?_, ?_, ?_, ?_⟩
  · unfold tsOf
    simp only
    rw [wrap64_pat64 _ hI]
    have hns : Time.wrap32 ((Time.codeNs c).toNat : Int) = Time.codeNs c := by
      unfold Time.codeNs Time.wrap32 Time.two32
      simp only [Int.ofNat_eq_natCast, Int.toNat_natCast]
      split <;> omega
    rw [hns, Time.unixNorm_id _ _ (by unfold Time.codeNs; simp only [Int.ofNat_eq_natCast]; omega)]
    simp only
    unfold Time.timeCode Time.codeSec Time.codeNs
    simp only [Int.ofNat_eq_natCast, Int.toNat_natCast]
    rw [pat64_wrap64 _ h1]
    omega
  · unfold Time.codeNs; simp only [Int.ofNat_eq_natCast, Int.toNat_natCast]; omega
  · intro h0; rw [h0]; rfl
  · intro h0; rw [h0]; rfl

/-- an `int64` duration pattern survives `durField` / `durOf` -/
theorem dur_code_rt (p : Nat) (h : p < 2 ^ 64) :
    durOf (Time.pat64 ((Time.wrap64 p).tdiv Time.nano), Time.pat32 ((Time.wrap64 p).tmod Time.nano)) = p := by
  have hI : Time.I64 (Time.wrap64 p) := Time.wrap64_I64 _
  have f := Time.tdiv_tmod_facts (Time.wrap64 p)
  have hrt := Time.dur_roundtrip _ hI
  rw [Time.durSplit_eq _ hI] at hrt
  simp only at hrt
  unfold durOf
  simp only [Time.nano]
  have hs : Time.I64 ((Time.wrap64 p).tdiv 1000000000) := by unfold Time.I64 at *; omega
  have hn : Time.I32 ((Time.wrap64 p).tmod 1000000000) := by unfold Time.I32; unfold Time.I64 at hI; omega
  rw [wrap64_pat64 _ hs, wrap32_pat32 _ hn, hrt, pat64_wrap64 p h]


def durPayload (pat : Nat) : Bytes :=
  (if (Time.wrap64 pat).tdiv Time.nano = 0 then [] else field1 1 .int64 (.num (Time.pat64 ((Time.wrap64 pat).tdiv Time.nano)))) ++
  (if (Time.wrap64 pat).tmod Time.nano = 0 then [] else field1 2 .int32 (.num (Time.pat32 ((Time.wrap64 pat).tmod Time.nano))))

theorem durField_eq (num pat : Nat) : durField num pat = lenField num (durPayload pat) := rfl

theorem secNanos_tsPayload (c : Nat) (h : timeOk c = true) :
    (secNanos ((tsPayload c).length + 1) (tsPayload c) (0, 0)).map tsOf = some c := by
  obtain ⟨h1, h2, h3, h4⟩ := ts_code_rt c h
  have := secNanos_two (Time.codeSec c = 0) (Time.codeNs c = 0) _ _ (pat64_lt (Time.codeSec c)) h2 h3 h4
  simp only [tsPayload]
  rw [this, Option.map_some, h1]

theorem secNanos_durPayload (p : Nat) (h : p < 2 ^ 64) :
    (secNanos ((durPayload p).length + 1) (durPayload p) (0, 0)).map durOf = some p := by
  have := secNanos_two ((Time.wrap64 p).tdiv Time.nano = 0) ((Time.wrap64 p).tmod Time.nano = 0) _ _
    (pat64_lt ((Time.wrap64 p).tdiv Time.nano)) (pat32_lt ((Time.wrap64 p).tmod Time.nano))
    (fun h0 => by rw [h0]; rfl) (fun h0 => by rw [h0]; rfl)
  simp only [durPayload]
  rw [this, Option.map_some, dur_code_rt p h]

/-! ### map entries -/

theorem mapEntry_succ (k v : Scalar) (fuel : Nat) (b : Bytes) (kv : Val × Val) :
    mapEntry k v (fuel + 1) b kv =
      if b.isEmpty then some kv
      else match parse1 b with
        | none => none
        | some (r, rest) =>
          if r.num = 1 then
            (match r.scalar k with | some x => mapEntry k v fuel rest (Val.ofSVal x, kv.2) | none => none)
          else if r.num = 2 then
            (match r.scalar v with | some x => mapEntry k v fuel rest (kv.1, Val.ofSVal x) | none => none)
          else mapEntry k v fuel rest kv := rfl

theorem mapEntry_step1 (k v : Scalar) (fuel : Nat) (x : Enc.SVal) (hx : SvOk k x) (rest : Bytes) (kv : Val × Val) :
    mapEntry k v (fuel + 1) (field1 1 k x ++ rest) kv = mapEntry k v fuel rest (Val.ofSVal x, kv.2) := by
  have hp := parse1_field1 1 (by omega) (by omega) k x hx rest
  rw [mapEntry_succ, isEmpty_false_of_ne_nil (parse1_ne_nil hp), hp]
  simp only [Bool.false_eq_true, ↓reduceIte, record_scalar_rt 1 k x hx]

theorem mapEntry_step2 (k v : Scalar) (fuel : Nat) (x : Enc.SVal) (hx : SvOk v x) (rest : Bytes) (kv : Val × Val) :
    mapEntry k v (fuel + 1) (field1 2 v x ++ rest) kv = mapEntry k v fuel rest (kv.1, Val.ofSVal x) := by
  have hp := parse1_field1 2 (by omega) (by omega) v x hx rest
  rw [mapEntry_succ, isEmpty_false_of_ne_nil (parse1_ne_nil hp), hp]
  simp only [Bool.false_eq_true, ↓reduceIte, record_scalar_rt 2 v x hx]
  simp

theorem mapEntry_two (k v : Scalar) (c1 c2 : Prop) [Decidable c1] [Decidable c2] (x y : Enc.SVal)
    (hx : SvOk k x) (hy : SvOk v y) (h1 : c1 → Val.ofSVal x = k.zero) (h2 : c2 → Val.ofSVal y = v.zero) :
    mapEntry k v (((if c1 then [] else field1 1 k x) ++ (if c2 then [] else field1 2 v y)).length + 1)
      ((if c1 then [] else field1 1 k x) ++ (if c2 then [] else field1 2 v y)) (k.zero, v.zero) =
      some (Val.ofSVal x, Val.ofSVal y) := by
  have l1 := field1_length_pos 1 k x
  have l2 := field1_length_pos 2 v y
  by_cases hc1 : c1
  · by_cases hc2 : c2
    · simp only [hc1, hc2, ↓reduceIte, List.append_nil, List.length_nil]
      rw [h1 hc1, h2 hc2]; rfl
    · simp only [hc1, hc2, ↓reduceIte, List.nil_append]
      obtain ⟨f, hf⟩ : ∃ f, (field1 2 v y).length + 1 = f + 1 + 1 := ⟨(field1 2 v y).length - 1, by omega⟩
      have := mapEntry_step2 k v (f + 1) y hy [] (k.zero, v.zero)
      simp only [List.append_nil] at this
      rw [hf, this, h1 hc1]; rfl
  · by_cases hc2 : c2
    · simp only [hc1, hc2, ↓reduceIte, List.append_nil]
      obtain ⟨f, hf⟩ : ∃ f, (field1 1 k x).length + 1 = f + 1 + 1 := ⟨(field1 1 k x).length - 1, by omega⟩
      have := mapEntry_step1 k v (f + 1) x hx [] (k.zero, v.zero)
      simp only [List.append_nil] at this
      rw [hf, this, h2 hc2]; rfl
    · simp only [hc1, hc2, ↓reduceIte]
      obtain ⟨f, hf⟩ : ∃ f, (field1 1 k x ++ field1 2 v y).length + 1 = f + 1 + 1 + 1 :=
        ⟨(field1 1 k x ++ field1 2 v y).length - 2, by simp only [List.length_append]; omega⟩
      have e2 := mapEntry_step2 k v (f + 1) y hy [] (Val.ofSVal x, v.zero)
      simp only [List.append_nil] at e2
      rw [hf, mapEntry_step1 _ _ _ x hx, e2]; rfl

end Pico.SpecRt
