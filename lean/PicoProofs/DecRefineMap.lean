import PicoProofs.DecRefineGen
/-!
The picowire map entry callback: `Gen2.mapEntry` (fresh key/value, `c.Loop{ c.K(1,&key); c.V(2,&val) }`,
insert) computes `Spec.mapEntry`.
-/
namespace Pico.Gen2
open Pico.Wire Pico.Dec

def mapSpec (k v : Scalar) (b : Bytes) (kv : Val × Val) : Option (Val × Val) :=
  Spec.mapEntry k v (b.length + 1) b kv

def mapStep (k v : Scalar) (r : Spec.Record) (kv : Val × Val) : Option (Val × Val) :=
  if r.num = 1 then (r.scalar k).map fun x => (Val.ofSVal x, kv.2)
  else if r.num = 2 then (r.scalar v).map fun x => (kv.1, Val.ofSVal x)
  else some kv

theorem map_laws (k v : Scalar) : Laws (mapSpec k v) (mapStep k v) where
  nil := fun s => by unfold mapSpec; rw [Spec.mapEntry_succ]; rfl
  cons := by
    intro b r rest s hp
    have hpr := Spec.parse1_progress hp
    have e : ∀ s', Spec.mapEntry k v b.length rest s' = mapSpec k v rest s' := by
      intro s'
      unfold mapSpec
      have := Spec.mapEntry_fuel_enough k v rest s' (b.length - (rest.length + 1))
      rw [this]; congr 1; omega
    unfold mapSpec
    rw [Spec.mapEntry_succ, isEmpty_false_of_ne (ne_nil_of_parse1 hp)]
    simp only [Bool.false_eq_true, ↓reduceIte, hp, e]
    unfold mapStep
    by_cases h1 : r.num = 1
    · simp only [h1, ↓reduceIte]
      cases r.scalar k <;> rfl
    · simp only [h1, ↓reduceIte]
      by_cases h2 : r.num = 2
      · simp only [h2, ↓reduceIte]
        cases r.scalar v <;> rfl
      · simp only [h2, ↓reduceIte]; rfl
  none := by
    intro b s hb hp
    unfold mapSpec
    rw [Spec.mapEntry_succ, isEmpty_false_of_ne hb]
    simp only [Bool.false_eq_true, ↓reduceIte, hp]

/-- the `Loop` callback inside `mapEntry` -/
def mapPass (k v : Scalar) : DecM (Val × Val) := fun d kv => do
  let (d, a) ← readSingle k 1 d
  let kv := match a with | some x => (Val.ofSVal x, kv.2) | none => kv
  let (d, b) ← readSingle v 2 d
  let kv := match b with | some x => (kv.1, Val.ofSVal x) | none => kv
  return (d, kv)

theorem mapEntry_eq (k v : Scalar) (d : Dec) (m : Option (List (Val × Val))) :
    mapEntry k v d m =
      Dec.loop (mapPass k v) d (k.zero, v.zero) >>= fun p =>
        pure (p.1, (match m with | none => some [] | some es => some es).map
          fun es => mapInsert es p.2.1 p.2.2 keyEq) := rfl

theorem mapPass_eq (k v : Scalar) :
    mapPass k v = fun d s =>
      singleComp k 1 (fun x (kv : Val × Val) => (Val.ofSVal x, kv.2)) d s >>= fun p =>
        singleComp v 2 (fun x (kv : Val × Val) => (kv.1, Val.ofSVal x)) p.1 p.2 := by
  funext d s
  unfold mapPass singleComp
  cases readSingle k 1 d with
  | panic w => rfl
  | outOfFuel => rfl
  | ok p => rfl

theorem mapPass_mono (k v : Scalar) : MonoFn (mapPass k v) := by
  rw [mapPass_eq]
  intro d s d' s' h
  replace h : (singleComp k 1 (fun x (kv : Val × Val) => (Val.ofSVal x, kv.2)) d s >>= fun p =>
        singleComp v 2 (fun x (kv : Val × Val) => (kv.1, Val.ofSVal x)) p.1 p.2) = .ok (d', s') := h
  cases h1 : singleComp k 1 (fun x (kv : Val × Val) => (Val.ofSVal x, kv.2)) d s with
  | panic w => rw [h1] at h; cases h
  | outOfFuel => rw [h1] at h; cases h
  | ok p =>
    rw [h1] at h
    simp only [Res.bind_ok] at h
    exact (singleComp_mono _ _ _ d s p.1 p.2 h1).trans (singleComp_mono _ _ _ p.1 p.2 d' s' h)

theorem mapPassC (k v : Scalar) : PassC (mapSpec k v) (mapStep k v) (fun _ => True) (mapPass k v) := by
  rw [mapPass_eq]
  refine ChainC.passC (N := fun n => (1 : Int) = n ∨ (2 : Int) = n) ?_ ?_
  · refine ChainC.seq ?_ ?_ (singleComp_mono _ _ _) (singleComp_mono _ _ _)
    · refine singleComp_chain (map_laws k v) k 1 (by omega) _ ?_ (fun _ _ => trivial)
      intro s r hr
      have : r.num = 1 := by omega
      unfold mapStep; rw [if_pos this]
    · refine singleComp_chain (map_laws k v) v 2 (by omega) _ ?_ (fun _ _ => trivial)
      intro s r hr
      have : r.num = 2 := by omega
      unfold mapStep; rw [if_neg (by omega), if_pos this]
  · intro b d s hta _ hb hn
    have h1 := pending_toNat_ne hta.frame hb 1 (fun h => hn (Or.inl h))
    have h2 := pending_toNat_ne hta.frame hb 2 (fun h => hn (Or.inr h))
    unfold mapStep
    rw [if_neg h1, if_neg h2]

/-- the expected result of the entry callback on payload `p`, map so far `t` -/
def mapEntryO (k v : Scalar) (t : Option (List (Val × Val))) (p : Bytes) : Option (Option (List (Val × Val))) :=
  (mapSpec k v p (k.zero, v.zero)).map fun kv =>
    some (mapInsert (match t with | some es => es | none => []) kv.1 kv.2 keyEq)

theorem mapEntry_cb (k v : Scalar) (t : Option (List (Val × Val))) (p : Bytes) (d1 d2 : Dec)
    (t2 : Option (List (Val × Val))) (hta : TA p d1) (h : mapEntry k v d1 t = .ok (d2, t2)) :
    FinO (mapEntryO k v t p) d2 t2 := by
  rw [mapEntry_eq] at h
  cases hl : Dec.loop (mapPass k v) d1 (k.zero, v.zero) with
  | panic w => rw [hl] at h; cases h
  | outOfFuel => rw [hl] at h; cases h
  | ok q =>
    obtain ⟨d3, kv⟩ := q
    rw [hl] at h
    simp only [Res.bind_ok, Res.pure_eq] at h
    cases h
    have := (loop_refines (map_laws k v) (mapPassC k v) (mapPass_mono k v) hta trivial hl).1
    unfold mapEntryO
    rcases this with ⟨he, ho⟩ | ⟨he, ho⟩
    · left
      refine ⟨he, ?_⟩
      rw [ho]
      cases t <;> rfl
    · right
      exact ⟨he, by rw [ho]; rfl⟩

theorem mapEntryO_bad (k v : Scalar) (t : Option (List (Val × Val))) (p : Bytes) (h : ¬ tagOk p) :
    mapEntryO k v t p = none := by
  unfold mapEntryO
  rw [(map_laws k v).bad h]; rfl

end Pico.Gen2
