import PicoModel.WellTyped
import PicoProofs.WireLemmas
import PicoProofs.ScalarLemmas
/-
Field-level round trip: what a typed writer appends after the tag, the matching typed reader
consumes and turns back into the same value — for every value in the kind's range.
-/
namespace Pico
open Pico.Wire

/-- value in the kind's range: a numeric bit pattern below 2^width, or any byte string shorter
than 2^64 for string/bytes -/
def svalOk (k : Scalar) : Enc.SVal → Prop
  | .num n => k.isBytes = false ∧ n < 2 ^ k.width
  | .bytes b => k.isBytes = true ∧ b.length < 2 ^ 64

theorem wire_cases (k : Scalar) : (k.wire = 0 ∨ k.wire = 5 ∨ k.wire = 1) ∧ k.isBytes = false ∨ k.wire = 2 ∧ k.isBytes = true := by
  cases k <;> simp [Scalar.wire, Scalar.isBytes]

/-- `ConsumeX(AppendX(enc(v)) ++ rest)` followed by the reader's decode expression returns `v`
and the number of bytes the writer appended — all four writer variants, both reader variants. -/
theorem consumeScalar_scalarPayload (rep : Bool) (var : Variant) (k : Scalar) (v : Enc.SVal) (h : svalOk k v)
    (rest : Bytes) :
    Dec.consumeScalar rep k (Enc.scalarPayload var k v ++ rest) = (v, ((Enc.scalarPayload var k v).length : Int)) := by
  cases v with
  | num n =>
    obtain ⟨hb, hn⟩ := h
    have hrt := (roundtrip_bits rep var k n hn).2
    have h64 := enc_lt_two64 var k hb n
    rcases wire_cases k with ⟨hw, _⟩ | ⟨_, hb'⟩
    · rcases hw with hw | hw | hw
      · simp only [Dec.consumeScalar, Enc.scalarPayload, hw, Enc.SVal.num!]
        rw [consumeVarint_varint _ h64]
        simp [hrt]
      · have h32 := enc_lt_two32 var k hw n
        simp only [Dec.consumeScalar, Enc.scalarPayload, hw, Enc.SVal.num!]
        rw [consumeFixed32_fixed32 _ _ h32]
        simp [hrt, fixed32_length]
      · simp only [Dec.consumeScalar, Enc.scalarPayload, hw, Enc.SVal.num!]
        rw [consumeFixed64_fixed64 _ _ h64]
        simp [hrt, fixed64_length]
    · rw [hb] at hb'; cases hb'
  | bytes b =>
    obtain ⟨hb, hlen⟩ := h
    rcases wire_cases k with ⟨_, hb'⟩ | ⟨hw, _⟩
    · rw [hb] at hb'; cases hb'
    · simp only [Dec.consumeScalar, Enc.scalarPayload, hw, Enc.SVal.bytes!]
      rw [consumeBytes_lenPrefixed _ _ hlen]

end Pico
