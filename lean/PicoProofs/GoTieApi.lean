import PicoProofs.GoTieDecoder
import PicoModel.GenCode
/-
`picobuf.Unmarshal` as it is in the source: the translated message.go `Unmarshal` (which runs the
translated decoder.go `Loop`) applied to the generated `Decode` of a message type. Equal to the
model's `Gen2.unmarshal`, so every theorem about the latter is a theorem about the former.
-/
namespace Pico.GoTie
open Pico Pico.Gen2

/-- `picobuf.Unmarshal(data, &m)` for a message of type `id` of schema `S`, run through the
translated Go source: the filled message and the returned error -/
def srcUnmarshal (S : Schema) (id : Nat) (data : Bytes) (m0 : Val) : Res (Val × Option (Int × String)) :=
  GoSrc.Decoder.Unmarshal data (decPass S (data.length + 1) id) m0

theorem srcUnmarshal_eq (S : Schema) (id : Nat) (data : Bytes) (m0 : Val) :
    srcUnmarshal S id data m0 = (do let r ← unmarshal S id data m0; pure (r.2, r.1.err)) := by
  unfold srcUnmarshal unmarshal
  rw [D.Unmarshal_eq]

/-- transfer: whatever the model's `unmarshal` returns, the translated source returns its message
and latched error -/
theorem srcUnmarshal_of (S : Schema) (id : Nat) (data : Bytes) (m0 : Val) (d : Dec.Dec) (m : Val)
    (h : unmarshal S id data m0 = .ok (d, m)) : srcUnmarshal S id data m0 = .ok (m, d.err) := by
  rw [srcUnmarshal_eq, h]; rfl

end Pico.GoTie
