import PicoProofs.SpecRtScalar
/-
Task F, part 3: the effect of one record on the variable of a field (`applyRec`), per shape.
-/
namespace Pico.SpecRt
open Pico Pico.Spec
open Pico.Wire

theorem Applies.of_body {S : Schema} {f : Field} {rc : Record} {cur r : Val}
    (h : ∀ D, applyBody S D f rc cur = some r) : Applies S f rc cur r :=
  ⟨1, by rw [applyRec_succ]; exact h _⟩

/-- singular scalar (plain or pointer) -/
theorem applies_scalar (S : Schema) (f : Field) (k : Scalar) (hk : f.kind = .scalar k) (hr : f.repeated = false)
    (sv : Enc.SVal) (hsv : SvOk k sv) (num : Nat) (cur : Val) :
    Applies S f ⟨num, k.wire, scalarWire k sv⟩ cur
      (if f.pointer S then .some (Val.ofSVal sv) else Val.ofSVal sv) := by
  apply Applies.of_body; intro D
  simp only [applyBody, hk, hr, Bool.false_eq_true, ↓reduceIte, record_scalar_rt num k sv hsv, Option.map_some]

/-- singular enum -/
theorem applies_enum (S : Schema) (f : Field) (hk : f.kind = .enum) (hr : f.repeated = false)
    (n : Nat) (hn : n < 2 ^ 32) (num : Nat) (cur : Val) :
    Applies S f ⟨num, Scalar.int32.wire, scalarWire .int32 (.num n)⟩ cur (.num n) := by
  apply Applies.of_body; intro D
  have hsv : SvOk .int32 (.num n) := ⟨rfl, hn⟩
  simp only [applyBody, hk, hr, Bool.false_eq_true, ↓reduceIte, record_scalar_rt num .int32 _ hsv, Option.map_some,
    Val.ofSVal]

theorem svs_eq_nums (k : Scalar) (hb : k.isBytes = false) (svs : List Enc.SVal) (h : ∀ sv ∈ svs, SvOk k sv) :
    svs = (svs.map (·.num!)).map .num ∧ ∀ n ∈ svs.map (·.num!), n < 2 ^ k.width := by
  induction svs with
  | nil => simp
  | cons sv svs ih =>
    have h1 := h sv List.mem_cons_self
    obtain ⟨ih1, ih2⟩ := ih (fun x hx => h x (List.mem_cons_of_mem _ hx))
    cases sv with
    | num n =>
      refine ⟨?_, ?_⟩
      · show Enc.SVal.num n :: svs = Enc.SVal.num n :: List.map Enc.SVal.num (List.map (·.num!) svs)
        rw [← ih1]
      · intro m hm
        simp only [List.map_cons, Enc.SVal.num!, List.mem_cons] at hm
        rcases hm with rfl | hm
        · exact h1.2
        · exact ih2 m hm
    | bytes b => rw [h1.1] at hb; cases hb

theorem unpack_svs (k : Scalar) (hb : k.isBytes = false) (svs : List Enc.SVal) (h : ∀ sv ∈ svs, SvOk k sv) :
    unpack k ((svs.map fun v => scalarWire k v).flatten.length + 1) (svs.map fun v => scalarWire k v).flatten = some svs := by
  obtain ⟨e, hall⟩ := svs_eq_nums k hb svs h
  have := unpack_payload k hb _ hall
  simp only at this
  rw [e]
  simp only [List.map_map] at this ⊢
  exact this

/-- packed repeated numeric scalar -/
theorem applies_packed (S : Schema) (f : Field) (k : Scalar) (hk : f.kind = .scalar k) (hr : f.repeated = true)
    (hb : k.isBytes = false) (svs : List Enc.SVal) (h : ∀ sv ∈ svs, SvOk k sv)
    (hsz : (svs.map fun v => scalarWire k v).flatten.length < 2 ^ 64) (num : Nat) (cur : Val) :
    Applies S f ⟨num, 2, lenPrefixed (svs.map fun v => scalarWire k v).flatten⟩ cur
      (.list (cur.list! ++ svs.map Val.ofSVal)) := by
  apply Applies.of_body; intro D
  simp only [applyBody, hk, hr, ↓reduceIte, hb, Bool.not_false, and_self, payload_lenPrefixed num _ hsz,
    unpack_svs k hb svs h, Option.map_some]

/-- packed repeated enum -/
theorem applies_packed_enum (S : Schema) (f : Field) (hk : f.kind = .enum) (hr : f.repeated = true)
    (svs : List Enc.SVal) (h : ∀ sv ∈ svs, SvOk .int32 sv)
    (hsz : (svs.map fun v => scalarWire .int32 v).flatten.length < 2 ^ 64) (num : Nat) (cur : Val) :
    Applies S f ⟨num, 2, lenPrefixed (svs.map fun v => scalarWire .int32 v).flatten⟩ cur
      (.list (cur.list! ++ svs.map Val.ofSVal)) := by
  apply Applies.of_body; intro D
  simp only [applyBody, hk, hr, ↓reduceIte, payload_lenPrefixed num _ hsz,
    unpack_svs .int32 rfl svs h, Option.map_some]

/-- one element of a repeated string / bytes field -/
theorem applies_rep_bytes (S : Schema) (f : Field) (k : Scalar) (hk : f.kind = .scalar k) (hr : f.repeated = true)
    (hb : k.isBytes = true) (sv : Enc.SVal) (hsv : SvOk k sv) (num : Nat) (cur : Val) :
    Applies S f ⟨num, k.wire, scalarWire k sv⟩ cur (.list (cur.list! ++ [Val.ofSVal sv])) := by
  apply Applies.of_body; intro D
  simp only [applyBody, hk, hr, ↓reduceIte, hb, Bool.not_true, Bool.false_eq_true, and_false,
    record_scalar_rt num k sv hsv, Option.map_some]

/-- the entries of a map-typed variable (`nil` map = no entries) -/
def entriesOf : Val → List (Val × Val)
  | .map es => es
  | _ => []

/-- one map entry -/
theorem applies_map (S : Schema) (f : Field) (k v : Scalar) (hk : f.kind = .map k v) (p : Bytes)
    (hsz : p.length < 2 ^ 64) (key val : Val) (hp : mapEntry k v (p.length + 1) p (k.zero, v.zero) = some (key, val))
    (num : Nat) (cur : Val) :
    Applies S f ⟨num, 2, lenPrefixed p⟩ cur
      (.map (Gen2.mapInsert (entriesOf cur) key val Gen2.keyEq)) := by
  apply Applies.of_body; intro D
  simp only [applyBody, hk, ne_eq, not_true_eq_false, ↓reduceIte, payload_lenPrefixed num _ hsz, hp, Option.map_some]
  rfl

/-- timestamp cast -/
theorem applies_ts (S : Schema) (f : Field) (id' : Nat) (hk : f.kind = .message id') (hc : f.cat = 1)
    (c : Nat) (hok : timeOk c = true) (hsz : (tsPayload c).length < 2 ^ 64) (num : Nat) (cur : Val) :
    Applies S f ⟨num, 2, lenPrefixed (tsPayload c)⟩ cur
      (if f.repeated then .list (cur.list! ++ [if f.pointer S then .some (.num c) else .num c])
       else if f.pointer S then .some (.num c) else .num c) := by
  apply Applies.of_body; intro D
  have := secNanos_tsPayload c hok
  obtain ⟨s, hs, hs'⟩ := Option.map_eq_some_iff.mp this
  simp only [applyBody, hk, hc, ne_eq, not_true_eq_false, ↓reduceIte, payload_lenPrefixed num _ hsz, hs,
    Option.map_some, BEq.rfl, true_or, hs']

/-- duration cast -/
theorem applies_dur (S : Schema) (f : Field) (id' : Nat) (hk : f.kind = .message id') (hc : f.cat = 2)
    (p : Nat) (hok : p < 2 ^ 64) (hsz : (durPayload p).length < 2 ^ 64) (num : Nat) (cur : Val) :
    Applies S f ⟨num, 2, lenPrefixed (durPayload p)⟩ cur
      (if f.repeated then .list (cur.list! ++ [if f.pointer S then .some (.num p) else .num p])
       else if f.pointer S then .some (.num p) else .num p) := by
  apply Applies.of_body; intro D
  have := secNanos_durPayload p hok
  obtain ⟨s, hs, hs'⟩ := Option.map_eq_some_iff.mp this
  simp only [applyBody, hk, hc, ne_eq, not_true_eq_false, ↓reduceIte, payload_lenPrefixed num _ hsz, hs,
    Option.map_some, BEq.rfl, or_true, hs']
  simp

theorem Applies.of_decs {S : Schema} {f : Field} {rc : Record} {cur r x start : Val} {id' : Nat} {p : Bytes}
    (hd : Decs S id' p start x)
    (h : ∀ D, D id' p start = some x → applyBody S D f rc cur = some r) : Applies S f rc cur r := by
  obtain ⟨fuel, hd⟩ := hd
  exact ⟨fuel + 1, by rw [applyRec_succ]; exact h _ hd⟩

/-- sub-message, the three positions -/
theorem applies_msg_rep (S : Schema) (f : Field) (id' : Nat) (hk : f.kind = .message id') (hc1 : f.cat ≠ 1)
    (hc2 : f.cat ≠ 2) (hr : f.repeated = true) (p : Bytes) (hsz : p.length < 2 ^ 64) (x : Val)
    (hd : Decs S id' p (Gen2.zeroMsg S id') x) (num : Nat) (cur : Val) :
    Applies S f ⟨num, 2, lenPrefixed p⟩ cur (.list (cur.list! ++ [x])) := by
  apply Applies.of_decs hd; intro D hD
  simp only [applyBody, hk, ne_eq, not_true_eq_false, ↓reduceIte, beq_iff_eq, hc1, hc2, or_self, hr,
    payload_lenPrefixed num _ hsz, hD, Option.map_some]

theorem applies_msg_ptr (S : Schema) (f : Field) (id' : Nat) (hk : f.kind = .message id') (hc1 : f.cat ≠ 1)
    (hc2 : f.cat ≠ 2) (hr : f.repeated = false) (hp : f.pointer S = true) (p : Bytes) (hsz : p.length < 2 ^ 64) (x : Val)
    (hd : Decs S id' p (Gen2.zeroMsg S id') x) (num : Nat) :
    Applies S f ⟨num, 2, lenPrefixed p⟩ .none (.some x) := by
  apply Applies.of_decs hd; intro D hD
  simp only [applyBody, hk, ne_eq, not_true_eq_false, ↓reduceIte, beq_iff_eq, hc1, hc2, or_self, hr, hp,
    Bool.false_eq_true, payload_lenPrefixed num _ hsz, hD, Option.map_some]

theorem applies_msg_plain (S : Schema) (f : Field) (id' : Nat) (hk : f.kind = .message id') (hc1 : f.cat ≠ 1)
    (hc2 : f.cat ≠ 2) (hr : f.repeated = false) (hp : f.pointer S = false) (p : Bytes) (hsz : p.length < 2 ^ 64)
    (x cur : Val) (hd : Decs S id' p cur x) (num : Nat) :
    Applies S f ⟨num, 2, lenPrefixed p⟩ cur x := by
  apply Applies.of_decs hd; intro D hD
  simp only [applyBody, hk, ne_eq, not_true_eq_false, ↓reduceIte, beq_iff_eq, hc1, hc2, or_self, hr, hp,
    Bool.false_eq_true, payload_lenPrefixed num _ hsz, hD]


/-! ### what `Schema.supported` gives -/

theorem msg_supported (S : Schema) (hS : S.supported = true) (id : Nat) : Msg.supported S (S.msg id) = true := by
  unfold Schema.msg
  by_cases h : id < S.length
  · have : S.getD id ⟨[], false, false⟩ = S[id] := by simp [List.getD, h]
    rw [this]
    exact List.all_eq_true.mp hS _ (List.getElem_mem h)
  · have : S.getD id ⟨[], false, false⟩ = ⟨[], false, false⟩ := by
      simp [List.getD, List.getElem?_eq_none (Nat.le_of_not_lt h)]
    rw [this]; rfl

theorem nums_nodup (S : Schema) (hS : S.supported = true) (id : Nat) :
    ((S.msg id).fields.map (·.num)).Nodup := by
  have := msg_supported S hS id
  simp only [Msg.supported, Bool.and_eq_true, decide_eq_true_eq] at this
  exact this.1.2

theorem field_supported (S : Schema) (hS : S.supported = true) (id i : Nat) (f : Field)
    (hf : (S.msg id).fields[i]? = some f) : Field.supported S f = true := by
  have := msg_supported S hS id
  simp only [Msg.supported, Bool.and_eq_true] at this
  exact List.all_eq_true.mp this.1.1 f (List.mem_of_getElem? hf)

structure FieldFacts (S : Schema) (f : Field) : Prop where
  num1 : 1 ≤ f.num
  num2 : f.num ≤ 536870911
  enumNoPtr : f.kind = .enum → f.pointer S = false
  catOneof : f.cat ≠ 0 → f.oneof = 0
  mapOneof : ∀ k v, f.kind = .map k v → f.oneof = 0
  repOneof : f.repeated = true → f.oneof = 0

theorem fieldFacts (S : Schema) (f : Field) (h : Field.supported S f = true) : FieldFacts S f := by
  simp only [Field.supported, Bool.and_eq_true, Bool.or_eq_true, decide_eq_true_eq, bne_iff_ne, ne_eq,
    beq_iff_eq] at h
  obtain ⟨⟨⟨⟨⟨⟨hc3, hkind⟩, hcat⟩, hl2⟩, hl1⟩, hn1⟩, hn2⟩ := h
  refine ⟨hn1, hn2, ?_, ?_, ?_, ?_⟩
  · intro hk; rw [hk] at hkind; simpa using hkind
  · intro hc; rcases hcat with h0 | h0
    · exact absurd h0 hc
    · exact h0.2
  · intro k v hk; rw [hk] at hkind
    simp only [Bool.and_eq_true, bne_iff_ne, ne_eq, beq_iff_eq] at hkind
    exact hkind.2
  · intro hr
    simp only [Field.repeated, Bool.and_eq_true, beq_iff_eq] at hr
    rcases hl2 with h | h
    · exact absurd hr.1 h
    · exact h

/-! ### generic decoding steps -/

theorem lenField_length (num : Nat) (p : Bytes) :
    (lenField num p).length = (tag num 2).length + (varint p.length).length + p.length := by
  simp [lenField, lenPrefixed, Nat.add_assoc]

theorem lenField_ne_nil (num : Nat) (p : Bytes) : lenField num p ≠ [] := by
  intro h
  have := congrArg List.length h
  rw [lenField_length] at this
  have h2 := varint_length_pos p.length
  simp only [List.length_nil] at this; omega

theorem field1_ne_nil (num : Nat) (k : Scalar) (sv : Enc.SVal) : field1 num k sv ≠ [] := by
  intro h
  have := field1_length_pos num k sv
  rw [h] at this; simp at this

/-- one record for a known field outside any oneof, then the rest -/
theorem decs_known {S : Schema} {id i : Nat} {f : Field} {b rest : Bytes} {rc : Record} {cs : List Val}
    {u : Bytes} {old v r : Val}
    (hfind : findField (S.msg id).fields f.num = some (i, f)) (ho : f.inOneof = false)
    (hp : parse1 b = some (rc, rest)) (hn : rc.num = f.num) (hold : cs[i]? = some old)
    (ha : Applies S f rc old v) (hrest : Decs S id rest (.msg (cs.set i v) u) r) :
    Decs S id b (.msg cs u) r := by
  obtain ⟨fuel, ha⟩ := ha
  rw [← hn] at hfind
  rw [← getSlot_of_getElem? (u := u) hold] at ha
  exact Decs.step hp (upd_known hfind ho ha) hrest

/-- a run of records for the same field, each transforming an accumulator -/
theorem decs_loop {S : Schema} {id i : Nat} {f : Field} {β : Type} (st : List β → Val) (enc : β → Bytes)
    (P : List β → β → Prop)
    (hfind : findField (S.msg id).fields f.num = some (i, f)) (ho : f.inOneof = false)
    (hstep : ∀ acc a, P acc a → ∃ rc, (∀ rest, parse1 (enc a ++ rest) = some (rc, rest)) ∧ rc.num = f.num ∧
      Applies S f rc (st acc) (st (acc ++ [a]))) :
    ∀ (elems acc : List β) (cs : List Val) (u : Bytes),
      (∀ pre a post, elems = pre ++ a :: post → P (acc ++ pre) a) → cs[i]? = some (st acc) →
      Decs S id (elems.map enc).flatten (.msg cs u) (.msg (cs.set i (st (acc ++ elems))) u) := by
  intro elems
  induction elems with
  | nil =>
    intro acc cs u _ hc
    simp only [List.map_nil, List.flatten_nil, List.append_nil]
    rw [set_self cs i _ hc]
    exact Decs.nil S id _
  | cons a rest ih =>
    intro acc cs u hP hc
    have hPa := hP [] a rest rfl
    simp only [List.append_nil] at hPa
    obtain ⟨rc, hp, hn, happ⟩ := hstep acc a hPa
    simp only [List.map_cons, List.flatten_cons]
    have hi : i < cs.length := by
      apply Decidable.byContradiction; intro hge
      rw [List.getElem?_eq_none (by omega)] at hc; cases hc
    have := ih (acc ++ [a]) (cs.set i (st (acc ++ [a]))) u
      (by
        intro pre b post he
        have := hP (a :: pre) b post (by rw [he]; rfl)
        simpa using this)
      (by simp [List.getElem?_set_self hi])
    simp only [List.set_set, List.append_assoc, List.singleton_append] at this
    exact decs_known hfind ho (hp _) hn hc happ this

end Pico.SpecRt
