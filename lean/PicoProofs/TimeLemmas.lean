import PicoModel.Time
/-
C14 — the duration / timestamp arithmetic of `picoconv` (Go int64/int32 with wrap-around).
Kernel-only (`omega`; no `bv_decide`).
-/
namespace Pico.Time

/-- `n` is representable as a Go `int64` -/
def I64 (n : Int) : Prop := -9223372036854775808 ≤ n ∧ n < 9223372036854775808
/-- `n` is representable as a Go `int32` -/
def I32 (n : Int) : Prop := -2147483648 ≤ n ∧ n < 2147483648

instance (n : Int) : Decidable (I64 n) := by unfold I64; infer_instance
instance (n : Int) : Decidable (I32 n) := by unfold I32; infer_instance

/-! ### truncated division by 10^9, in a form `omega` can use (it treats `tdiv`/`tmod` as atoms) -/

theorem tdiv_tmod_facts (n : Int) :
    n = n.tdiv 1000000000 * 1000000000 + n.tmod 1000000000 ∧
    (0 ≤ n → 0 ≤ n.tmod 1000000000 ∧ n.tmod 1000000000 < 1000000000) ∧
    (n ≤ 0 → -1000000000 < n.tmod 1000000000 ∧ n.tmod 1000000000 ≤ 0) := by
  by_cases h : 0 ≤ n
  · rw [Int.tdiv_eq_ediv_of_nonneg h, Int.tmod_eq_emod_of_nonneg h]; omega
  · obtain ⟨m, rfl⟩ : ∃ m, n = -m := ⟨-n, by omega⟩
    have hm : 0 ≤ m := by omega
    rw [Int.neg_tdiv, Int.neg_tmod, Int.tdiv_eq_ediv_of_nonneg hm, Int.tmod_eq_emod_of_nonneg hm]
    omega

theorem mul_tdiv_nano (s : Int) : (s * 1000000000).tdiv 1000000000 = s := by
  have := tdiv_tmod_facts (s * 1000000000); omega

theorem wrap64_id (x : Int) (h : I64 x) : wrap64 x = x := by
  unfold I64 at h; unfold wrap64 two64; simp only []; split <;> omega

theorem wrap32_id (x : Int) (h : I32 x) : wrap32 x = x := by
  unfold I32 at h; unfold wrap32 two32; simp only []; split <;> omega

theorem wrap64_I64 (x : Int) : I64 (wrap64 x) := by
  unfold I64 wrap64 two64; simp only []; split <;> omega

/-- `wrap64` is congruent to the identity modulo 2^64 -/
theorem wrap64_wrap64_add (x y : Int) : wrap64 (wrap64 x + y) = wrap64 (x + y) := by
  unfold wrap64 two64; simp only []; split <;> split <;> split <;> omega

/-! ### (a) `Duration.PicoEncode` splits exactly, with no wrap-around -/

theorem durSplit_eq (n : Int) (h : I64 n) :
    durSplit n = (n.tdiv 1000000000, n.tmod 1000000000) := by
  have f := tdiv_tmod_facts n
  unfold I64 at h
  unfold durSplit nano
  simp only []
  have h1 : wrap64 (n.tdiv 1000000000 * 1000000000) = n.tdiv 1000000000 * 1000000000 :=
    wrap64_id _ (by unfold I64; omega)
  have h2 : n - n.tdiv 1000000000 * 1000000000 = n.tmod 1000000000 := by omega
  rw [h1, h2, wrap64_id _ (by unfold I64; omega), wrap32_id _ (by unfold I32; omega)]

theorem durSplit_spec (n : Int) (h : I64 n) :
    let (s, ns) := durSplit n
    s = n.tdiv (10 ^ 9) ∧ ns = n.tmod (10 ^ 9) ∧ -10 ^ 9 < ns ∧ ns < 10 ^ 9 ∧
      (0 ≤ n → 0 ≤ s ∧ 0 ≤ ns) ∧ (n ≤ 0 → s ≤ 0 ∧ ns ≤ 0) ∧ s * 10 ^ 9 + ns = n := by
  rw [durSplit_eq n h]
  have f := tdiv_tmod_facts n
  simp only [show (10 : Int) ^ 9 = 1000000000 from by decide, true_and]
  omega

/-- the same statement with projections -/
theorem durSplit_spec' (n : Int) (h : I64 n) :
    (durSplit n).1 = n.tdiv 1000000000 ∧ (durSplit n).2 = n.tmod 1000000000 ∧
      -1000000000 < (durSplit n).2 ∧ (durSplit n).2 < 1000000000 ∧
      (0 ≤ n → 0 ≤ (durSplit n).1 ∧ 0 ≤ (durSplit n).2) ∧
      (n ≤ 0 → (durSplit n).1 ≤ 0 ∧ (durSplit n).2 ≤ 0) ∧
      (durSplit n).1 * 1000000000 + (durSplit n).2 = n := by
  rw [durSplit_eq n h]
  have f := tdiv_tmod_facts n
  dsimp only
  omega

/-! ### (c) `Duration.PicoDecode` saturates exactly like `durationpb.AsDuration` -/

/-- the overflow test `z / 1e9 != seconds` fires iff the product left the int64 range -/
theorem product_overflow_iff (s : Int) (hs : I64 s) :
    (wrap64 (s * 1000000000)).tdiv 1000000000 ≠ s ↔ ¬ I64 (s * 1000000000) := by
  constructor
  · intro hne hI
    rw [wrap64_id _ hI, mul_tdiv_nano] at hne
    exact hne rfl
  · intro hI
    have hw := wrap64_I64 (s * 1000000000)
    have f := tdiv_tmod_facts (wrap64 (s * 1000000000))
    generalize wrap64 (s * 1000000000) = w at *
    unfold I64 at *
    omega

theorem durDecode_saturates (s ns : Int) (hs : I64 s) (hn : I32 ns) :
    durDecode s ns =
      if ¬ I64 (s * 10 ^ 9) then (if s < 0 then minInt64 else maxInt64)
      else if I64 (s * 10 ^ 9 + ns) then s * 10 ^ 9 + ns
      else (if s < 0 then minInt64 else maxInt64) := by
  simp only [show (10 : Int) ^ 9 = 1000000000 from by decide]
  have key := product_overflow_iff s hs
  unfold durDecode nano
  simp only []
  by_cases hI : I64 (s * 1000000000)
  · have e1 : wrap64 (s * 1000000000) = s * 1000000000 := wrap64_id _ hI
    simp only [hI, not_true_eq_false, ↓reduceIte, e1, mul_tdiv_nano, bne_self_eq_false,
      Bool.false_or]
    by_cases hE : I64 (s * 1000000000 + ns)
    · rw [wrap64_id _ hE]
      simp only [hE, ↓reduceIte]
      unfold I64 I32 at *
      by_cases h1 : s < 0 <;> by_cases h2 : ns < 0 <;> by_cases h3 : s > 0 <;>
        by_cases h4 : ns > 0 <;> by_cases h5 : s * 1000000000 + ns > 0 <;>
        by_cases h6 : s * 1000000000 + ns < 0 <;> simp [h1, h2, h3, h4, h5, h6] <;> omega
    · simp only [hE, ↓reduceIte]
      have hw : (s < 0 ∧ ns < 0 ∧ wrap64 (s * 1000000000 + ns) > 0) ∨
                (s > 0 ∧ ns > 0 ∧ wrap64 (s * 1000000000 + ns) < 0) := by
        unfold I64 I32 at *
        unfold wrap64 two64
        simp only []
        split <;> omega
      rcases hw with ⟨a, b, c⟩ | ⟨a, b, c⟩
      · simp [a, b, c]
      · have a' : ¬ s < 0 := by omega
        simp [a, b, c, a']
  · have hne := key.2 hI
    have ho : ((wrap64 (s * 1000000000)).tdiv 1000000000 != s) = true := by simpa using hne
    simp only [hI, not_false_eq_true, ↓reduceIte, ho, Bool.true_or, Bool.true_and]
    have hs0 : s ≠ 0 := by
      intro h0; subst h0; exact hI (by unfold I64; omega)
    by_cases h1 : s < 0
    · simp [h1]
    · have h3 : s > 0 := by omega
      simp [h1, h3]

/-! ### (b) encode then decode is the identity on every `int64` duration -/

theorem dur_roundtrip (n : Int) (h : I64 n) : durDecode (durSplit n).1 (durSplit n).2 = n := by
  have f := tdiv_tmod_facts n
  rw [durSplit_eq n h]
  simp only []
  have hs : I64 (n.tdiv 1000000000) := by unfold I64 at *; omega
  have hn : I32 (n.tmod 1000000000) := by unfold I32; unfold I64 at h; omega
  rw [durDecode_saturates _ _ hs hn]
  simp only [show (10 : Int) ^ 9 = 1000000000 from by decide]
  have e : n.tdiv 1000000000 * 1000000000 + n.tmod 1000000000 = n := by omega
  have hp : I64 (n.tdiv 1000000000 * 1000000000) := by unfold I64 at *; omega
  rw [e]
  simp only [hp, not_true_eq_false, ↓reduceIte, h]

/-! ### (d) `time.Unix` normalisation is floor division -/

theorem unixNorm_eq (s ns : Int) (hs : I64 s) :
    unixNorm s ns = (wrap64 (s + ns.fdiv 1000000000), ns.fmod 1000000000) := by
  rw [Int.fdiv_eq_ediv_of_nonneg _ (by omega), Int.fmod_eq_emod_of_nonneg _ (by omega)]
  have f := tdiv_tmod_facts ns
  unfold unixNorm nano
  simp only []
  split
  · split
    · have e1 : ns.tdiv 1000000000 - 1 = ns / 1000000000 := by omega
      have e2 : ns - ns.tdiv 1000000000 * 1000000000 + 1000000000 = ns % 1000000000 := by omega
      have e3 : wrap64 (s + ns.tdiv 1000000000) - 1 = wrap64 (s + ns.tdiv 1000000000) + (-1) := by
        omega
      rw [e2, e3, wrap64_wrap64_add, ← e1]
      congr 2; omega
    · have e1 : ns.tdiv 1000000000 = ns / 1000000000 := by omega
      have e2 : ns - ns.tdiv 1000000000 * 1000000000 = ns % 1000000000 := by omega
      rw [e2, e1]
  · have e1 : ns / 1000000000 = 0 := by omega
    have e2 : ns % 1000000000 = ns := by omega
    rw [e1, e2, Int.add_zero, wrap64_id s hs]

theorem unixNorm_spec (s ns : Int) (hs : I64 s) (_hn : I32 ns) :
    let (s', n') := unixNorm s ns
    0 ≤ n' ∧ n' < 10 ^ 9 ∧ s' = wrap64 (s + ns.fdiv (10 ^ 9)) ∧ n' = ns.fmod (10 ^ 9) := by
  simp only [show (10 : Int) ^ 9 = 1000000000 from by decide]
  rw [unixNorm_eq s ns hs]
  dsimp only
  simp only [and_true]
  rw [Int.fmod_eq_emod_of_nonneg _ (by omega)]
  omega

theorem unixNorm_id (s ns : Int) (h : 0 ≤ ns ∧ ns < 1000000000) : unixNorm s ns = (s, ns) := by
  unfold unixNorm nano
  rw [if_neg (by omega)]

/-! ### (e) the packed `time.Time` code round-trips -/

theorem ts_roundtrip (s ns : Int) (hs : I64 s) (hn : 0 ≤ ns ∧ ns < 1000000000) :
    codeSec (timeCode s ns) = s ∧ codeNs (timeCode s ns) = ns ∧ unixNorm s ns = (s, ns) := by
  refine ⟨?_, ?_, unixNorm_id s ns hn⟩
  · unfold codeSec timeCode pat64 two64
    simp only [Int.ofNat_eq_natCast]
    have e : ((s % 18446744073709551616).toNat * 4294967296 + ns.toNat) / 4294967296 = (s % 18446744073709551616).toNat := by
      omega
    rw [e]
    unfold I64 at hs
    unfold wrap64 two64
    simp only []
    split <;> omega
  · unfold codeNs timeCode
    simp only [Int.ofNat_eq_natCast]
    omega

end Pico.Time

#print axioms Pico.Time.durSplit_spec
#print axioms Pico.Time.dur_roundtrip
#print axioms Pico.Time.product_overflow_iff
#print axioms Pico.Time.durDecode_saturates
#print axioms Pico.Time.unixNorm_spec
#print axioms Pico.Time.unixNorm_eq
#print axioms Pico.Time.ts_roundtrip
