import PicoProofs.DecRefine
/-!
Decoding preserves the shape invariant `shMsg`, so T_dec (`unmarshal_refines_spec`) composes over
several `Unmarshal` calls into the same message.
-/
namespace Pico.Gen2
open Pico.Wire Pico.Dec

/-- a successful `Unmarshal` (returns nil) into a well-shaped message leaves it well shaped -/
theorem unmarshal_preserves_shape (S : Schema) (hS : S.supported = true) (id : Nat) (data : Bytes) (m0 : Val)
    (hm0 : shMsg S id m0 = true) :
    ∀ d m, unmarshal S id data m0 = .ok (d, m) → d.err = none → shMsg S id m = true := by
  intro d m h he
  unfold unmarshal at h
  rw [loop_eq] at h
  have hL := u_laws S id
  have hP := decPass_passC S hS (data.length + 1) id
  have hMn := decPass_mono S (data.length + 1) id
  have hstart : loopStart (Dec.new data) = { nextFieldD (Dec.new data) 0 with init := true } := by
    unfold loopStart; rfl
  rw [hstart] at h
  rcases nextFieldD_cases (Dec.new data) 0 (Int.le_refl 0) (by simp) with ⟨_, he0, hf⟩ | ⟨_, he0⟩
  · have hd : (Dec.new data).cur.buffer.drop (0 : Int).toNat = data := by simp [Dec.new]
    rw [hd] at hf
    have hta : TA data { nextFieldD (Dec.new data) 0 with init := true } := ⟨he0.trans rfl, rfl, hf⟩
    exact (loopN_refines hL hP hMn _ data _ m0 d m hta hm0 h).2 he
  · have hM := loopN_mono _ hMn _ _ m0 d m h
    exact absurd he (hM.err he0)

/-- the specification preserves the shape invariant (on supported schemas) -/
theorem specUnmarshal_preserves_shape (S : Schema) (hS : S.supported = true) (id : Nat) (b : Bytes)
    (m m' : Val) (h : Spec.specUnmarshal S id b m = some m') (hm : shMsg S id m = true) :
    shMsg S id m' = true := by
  obtain ⟨d, m1, hu, hiff, hval⟩ := unmarshal_refines_spec S hS id b m hm
  have he : d.err = none := hiff.2 (by rw [h]; rfl)
  have := hval he
  rw [h] at this
  cases this
  exact unmarshal_preserves_shape S hS id b m hm d m' hu he

/-- one record's effect preserves the shape invariant -/
theorem stepU_preserves_shape (S : Schema) (hS : S.supported = true) (id : Nat) {b : Bytes}
    {r : Spec.Record} (hp : Spec.parse1 b = some (r, [])) (m m' : Val)
    (h : Spec.stepU S id r m = some m') (hm : shMsg S id m = true) : shMsg S id m' = true := by
  apply specUnmarshal_preserves_shape S hS id b m m' _ hm
  rw [Spec.specUnmarshal_cons S id m hp, h, Option.bind_some, Spec.specUnmarshal_nil]

/-- T_dec composed: two `Unmarshal` calls into the same message are `Unmarshal` of the
concatenation, at specification level, with the shape hypothesis only on the initial value -/
theorem unmarshal_twice_refines_spec (S : Schema) (hS : S.supported = true) (id : Nat) (a b : Bytes) (m0 : Val)
    (hm0 : shMsg S id m0 = true) :
    ∀ d1 m1, unmarshal S id a m0 = .ok (d1, m1) → d1.err = none →
      ∃ d2 m2, unmarshal S id b m1 = .ok (d2, m2) ∧
        (d2.err = none ↔ (Spec.specUnmarshal S id (a ++ b) m0).isSome) ∧
        (d2.err = none → Spec.specUnmarshal S id (a ++ b) m0 = some m2) := by
  intro d1 m1 h1 he1
  obtain ⟨d, m, hu, _, hval⟩ := unmarshal_refines_spec S hS id a m0 hm0
  rw [hu] at h1
  cases h1
  have hs1 := hval he1
  have hm1 := unmarshal_preserves_shape S hS id a m0 hm0 _ _ hu he1
  rw [Spec.specUnmarshal_append S id b hs1]
  exact unmarshal_refines_spec S hS id b _ hm1

end Pico.Gen2

#print axioms Pico.Gen2.unmarshal_preserves_shape
#print axioms Pico.Gen2.specUnmarshal_preserves_shape
#print axioms Pico.Gen2.stepU_preserves_shape
#print axioms Pico.Gen2.unmarshal_twice_refines_spec
