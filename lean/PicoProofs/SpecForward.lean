import PicoProofs.WireTake
import PicoProofs.SpecRtCore
import PicoProofs.SpecPerm
/-
C10, the forwarding chain sender → intermediary → receiver at the level of the specification:
an unknown field captured by an intermediary and re-emitted behind a minimal tag is tokenized by
the receiver as the very same record, so a forwarder that knows none of the fields hands the
receiver an input that decodes exactly like the sender's bytes.
-/
namespace Pico.Spec
open Pico Pico.Wire

/-- a record re-emitted as `tag ++ raw` is read back as itself, whatever follows -/
def SelfParsing (r : Record) : Prop :=
  ∀ rest : Bytes, parse1 (tag r.num r.wire ++ r.raw ++ rest) = some (r, rest)

/-- every record the tokenizer produces is self-parsing: its value bytes, cut out of the input, are
a complete value (`consumeFieldValue_take`), and its number and wire type fit a minimal tag -/
theorem selfParsing_of_parse1 {b : Bytes} {r : Record} {rest : Bytes} (h : parse1 b = some (r, rest)) :
    SelfParsing r := by
  obtain ⟨h1, h2, h3, hr, _⟩ := parse1_eq_some h
  have hv := (SpecRt.numberIsValid_iff _).mp h2
  have ht := consumeTag_progress b h1
  have hp := consumeFieldValue_progress _ _ _ h3
  have htk := consumeFieldValue_take _ _ _ h3
  intro rest'
  subst hr
  simp only
  have hnum : (((consumeTag b).1.toNat : Nat) : Int) = (consumeTag b).1 := by omega
  have hlen : ((b.drop (consumeTag b).2.2.toNat).take
      (consumeFieldValue (consumeTag b).1 (consumeTag b).2.1 (b.drop (consumeTag b).2.2.toNat)).toNat).length
      = (consumeFieldValue (consumeTag b).1 (consumeTag b).2.1 (b.drop (consumeTag b).2.2.toNat)).toNat := by
    rw [List.length_take]; omega
  apply SpecRt.parse1_record _ _ _ _ (by omega) (by omega) ht.2.2.2
  rw [hnum, consumeFieldValue_append _ _ _ _ (by rw [htk]; exact h3), htk, hlen]
  omega

theorem selfParsing_of_records : ∀ (n : Nat) (b : Bytes) (rs : List Record), records n b = some rs →
    ∀ r ∈ rs, SelfParsing r := by
  intro n
  induction n with
  | zero => intro b rs h; simp [records] at h
  | succ n ih =>
    intro b rs h
    rw [records_succ] at h
    by_cases hb : b.isEmpty = true
    · rw [if_pos hb] at h; cases h; intro r hr; cases hr
    · rw [if_neg hb] at h
      cases hp : parse1 b with
      | none => rw [hp] at h; cases h
      | some x =>
        obtain ⟨r0, rest⟩ := x
        rw [hp] at h
        simp only at h
        cases hr : records n rest with
        | none => rw [hr] at h; cases h
        | some rs' =>
          rw [hr] at h
          simp only [Option.map_some, Option.some.injEq] at h
          subst h
          intro r hmem
          rcases List.mem_cons.mp hmem with rfl | hm
          · exact selfParsing_of_parse1 hp
          · exact ih rest rs' hr r hm

/-- the re-emitted records, concatenated, tokenize to the same record list -/
theorem records_retag : ∀ (rs : List Record), (∀ r ∈ rs, SelfParsing r) →
    records (rs.length + 1) (rs.map fun r => tag r.num r.wire ++ r.raw).flatten = some rs := by
  intro rs
  induction rs with
  | nil => intro _; rfl
  | cons r rs ih =>
    intro hall
    have hp := hall r (List.mem_cons_self ..) (rs.map fun r => tag r.num r.wire ++ r.raw).flatten
    have hne : (List.map (fun r => tag r.num r.wire ++ r.raw) (r :: rs)).flatten ≠ [] := by
      intro h0
      simp only [List.map_cons, List.flatten_cons] at h0
      rw [h0] at hp
      rw [parse1_nil] at hp
      cases hp
    rw [List.length_cons, records_succ, if_neg (by simpa [List.isEmpty_iff] using hne)]
    simp only [List.map_cons, List.flatten_cons]
    rw [hp]
    simp only
    rw [ih (fun r hr => hall r (List.mem_cons_of_mem _ hr))]
    rfl

/-- two inputs with the same record list decode alike -/
theorem specUnmarshal_same_records (S : Schema) (id : Nat) (n n' : Nat) (b b' : Bytes) (rs : List Record) (m : Val)
    (h : records n b = some rs) (h' : records n' b' = some rs) :
    specUnmarshal S id b m = specUnmarshal S id b' m := by
  rw [Perm.specUnmarshal_records S id n b rs m h, Perm.specUnmarshal_records S id n' b' rs m h']

/-- the bytes a pure forwarder (a capturing message type that knows none of the fields) re-marshals
are the sender's records behind minimal tags, in the original order -/
theorem forwarder_output (S : Schema) (idN : Nat) (hf : (S.msg idN).fields = []) (hc : (S.msg idN).capture = true)
    (n : Nat) (b : Bytes) (rs : List Record) (hr : records n b = some rs) (slots : List Val) :
    ∃ v, specUnmarshal S idN b (.msg slots []) = some v ∧
      specEnc S idN v = (rs.map fun r => tag r.num r.wire ++ r.raw).flatten := by
  refine ⟨_, capture_exact S idN hc n b rs slots [] hr (fun r _ => by rw [hf]; rfl), ?_⟩
  simp [specEnc, hc, hf, encSlots, sortChunks]

/-- FORWARDING CHAIN (pure forwarder): sender → intermediary that knows none of the fields and
captures them → receiver. Whatever the receiver's message type `idW` and start value, decoding the
intermediary's re-marshalled bytes gives exactly what decoding the sender's bytes gives: every field
the sender wrote — of any wire type, groups included, non-minimal tags included — is recovered. -/
theorem forwarder_chain (S : Schema) (idN idW : Nat) (hf : (S.msg idN).fields = [])
    (hc : (S.msg idN).capture = true) (n : Nat) (b : Bytes) (rs : List Record) (hr : records n b = some rs)
    (slots : List Val) (mW : Val) :
    ∃ v, specUnmarshal S idN b (.msg slots []) = some v ∧
      specUnmarshal S idW (specEnc S idN v) mW = specUnmarshal S idW b mW := by
  obtain ⟨v, hv, he⟩ := forwarder_output S idN hf hc n b rs hr slots
  refine ⟨v, hv, ?_⟩
  rw [he]
  exact specUnmarshal_same_records S idW _ n _ b rs mW
    (records_retag rs (selfParsing_of_records n b rs hr)) hr

/-! ### an intermediary that knows some of the fields -/

/-- the records of an input that message type `id` does not know -/
def unknownOf (S : Schema) (id : Nat) (rs : List Record) : List Record :=
  rs.filter fun r => (findField (S.msg id).fields r.num).isNone

/-- mixed input: whatever the known records do to the slots, the captured bytes grow by exactly the
unknown records, re-tagged, in input order -/
theorem foldSteps_captured (S : Schema) (id : Nat) (hc : (S.msg id).capture = true) :
    ∀ (rs : List Record) (slots : List Val) (u0 : Bytes) (v : Val),
      Perm.foldSteps S id rs (.msg slots u0) = some v →
      ∃ slots', v = .msg slots' (u0 ++ ((unknownOf S id rs).map fun r => tag r.num r.wire ++ r.raw).flatten) := by
  intro rs
  induction rs with
  | nil =>
    intro slots u0 v h
    simp only [Perm.foldSteps, Option.some.injEq] at h
    exact ⟨slots, by subst h; simp [unknownOf]⟩
  | cons r rs ih =>
    intro slots u0 v h
    simp only [Perm.foldSteps] at h
    cases hf : findField (S.msg id).fields r.num with
    | none =>
      unfold stepU at h
      rw [Perm.step_unknown S _ id r _ hf, Perm.captureRec_msg, hc] at h
      simp only [if_true, Option.bind_some] at h
      obtain ⟨slots', hv⟩ := ih _ _ _ h
      refine ⟨slots', ?_⟩
      rw [hv]
      simp [unknownOf, hf, List.append_assoc]
    | some p =>
      obtain ⟨i, f⟩ := p
      unfold stepU at h
      rw [Perm.step_known S _ id r slots u0 i f hf] at h
      cases ha : applyU S (Perm.fieldOf f) r (Perm.target S f (slots.getD i Val.none)).1 with
      | none => rw [ha] at h; cases h
      | some w =>
        rw [ha] at h
        simp only [Option.map_some, Option.bind_some] at h
        obtain ⟨slots', hv⟩ := ih _ _ _ h
        refine ⟨slots', ?_⟩
        rw [hv]
        simp [unknownOf, hf]

/-- C10 "the captured bytes are exactly those fields in their original order", for ANY accepted
input — known and unknown fields interleaved in any way -/
theorem capture_exact_mixed (S : Schema) (id : Nat) (hc : (S.msg id).capture = true) (n : Nat) (b : Bytes)
    (rs : List Record) (hr : records n b = some rs) (slots : List Val) (u0 : Bytes) (v : Val)
    (h : specUnmarshal S id b (.msg slots u0) = some v) :
    ∃ slots', v = .msg slots' (u0 ++ ((unknownOf S id rs).map fun r => tag r.num r.wire ++ r.raw).flatten) := by
  rw [Perm.specUnmarshal_records S id n b rs _ hr] at h
  exact foldSteps_captured S id hc rs slots u0 v h

/-- … and a receiver tokenizes the captured bytes into exactly those records: the unknown fields are
forwarded intact, whatever their wire type -/
theorem captured_bytes_records (S : Schema) (id : Nat) (n : Nat) (b : Bytes) (rs : List Record)
    (hr : records n b = some rs) :
    records ((unknownOf S id rs).length + 1)
      ((unknownOf S id rs).map fun r => tag r.num r.wire ++ r.raw).flatten = some (unknownOf S id rs) :=
  records_retag _ fun r hm => selfParsing_of_records n b rs hr r (List.mem_filter.mp hm).1

/-- `records_retag` at any sufficient fuel -/
theorem records_retag_fuel : ∀ (rs : List Record) (n : Nat), rs.length < n → (∀ r ∈ rs, SelfParsing r) →
    records n (rs.map fun r => tag r.num r.wire ++ r.raw).flatten = some rs := by
  intro rs
  induction rs with
  | nil => intro n hn _; obtain ⟨k, rfl⟩ : ∃ k, n = k + 1 := ⟨n - 1, by omega⟩; rfl
  | cons r rs ih =>
    intro n hn hall
    obtain ⟨k, rfl⟩ : ∃ k, n = k + 1 := ⟨n - 1, by omega⟩
    have hp := hall r (List.mem_cons_self ..) (rs.map fun r => tag r.num r.wire ++ r.raw).flatten
    have hne : (List.map (fun r => tag r.num r.wire ++ r.raw) (r :: rs)).flatten ≠ [] := by
      intro h0
      simp only [List.map_cons, List.flatten_cons] at h0
      rw [h0] at hp
      rw [parse1_nil] at hp
      cases hp
    rw [records_succ, if_neg (by simpa [List.isEmpty_iff] using hne)]
    simp only [List.map_cons, List.flatten_cons]
    rw [hp]
    simp only
    rw [ih k (by simp only [List.length_cons] at hn; omega) (fun r hr => hall r (List.mem_cons_of_mem _ hr))]
    rfl

/-- a re-emitted record is not empty -/
theorem retag_ne_nil {r : Record} (h : SelfParsing r) : tag r.num r.wire ++ r.raw ≠ [] := by
  intro h0
  have := h []
  rw [List.append_nil, h0, parse1_nil] at this
  cases this

theorem retag_length_le : ∀ (rs : List Record), (∀ r ∈ rs, SelfParsing r) →
    rs.length ≤ ((rs.map fun r => tag r.num r.wire ++ r.raw).flatten).length := by
  intro rs
  induction rs with
  | nil => intro _; simp
  | cons r rs ih =>
    intro hall
    have h1 := retag_ne_nil (hall r (List.mem_cons_self ..))
    have h2 := ih (fun r hr => hall r (List.mem_cons_of_mem _ hr))
    have : 0 < (tag r.num r.wire ++ r.raw).length := List.length_pos_iff.mpr h1
    simp only [List.map_cons, List.flatten_cons, List.length_append, List.length_cons] at this ⊢
    omega

/-- the captured bytes of ANY accepted input meet the `unrecOk` premise of strict well-typedness
(`wtMsg S true`), the hypothesis of the round-trip theorems about `XXX_unrecognized`: they tokenize,
every record is unknown to the message, and they are in re-tagged normal form -/
theorem captured_unrecOk (S : Schema) (id : Nat) (n : Nat) (b : Bytes) (rs : List Record)
    (hr : records n b = some rs) :
    unrecOk (S.msg id).fields ((unknownOf S id rs).map fun r => tag r.num r.wire ++ r.raw).flatten = true := by
  have hsp : ∀ r ∈ unknownOf S id rs, SelfParsing r :=
    fun r hm => selfParsing_of_records n b rs hr r (List.mem_filter.mp hm).1
  have hrec := records_retag_fuel (unknownOf S id rs)
    (((unknownOf S id rs).map fun r => tag r.num r.wire ++ r.raw).flatten.length + 1)
    (by have := retag_length_le _ hsp; omega) hsp
  unfold unrecOk
  rw [hrec]
  simp only [Bool.and_eq_true, List.all_eq_true, beq_self_eq_true, and_true, Bool.not_eq_eq_eq_not, Bool.not_true]
  intro r hm
  have := (List.mem_filter.mp hm).2
  rw [Option.isNone_iff_eq_none] at this
  have hno := (findField_none_iff _ _).mp this
  rw [Bool.eq_false_iff]
  intro ha
  obtain ⟨f, hf, he⟩ := List.any_eq_true.mp ha
  exact hno f hf (by simpa using he)

/-- CHAIN, any intermediary: what the intermediary re-marshals is its known part (canonical) followed
by the captured records; a receiver that accepts the known part applies, after it, exactly the
sender's records the intermediary did not know, in the sender's order -/
theorem chain_unknown_part (S : Schema) (idN idW : Nat) (hc : (S.msg idN).capture = true) (n : Nat) (b : Bytes)
    (rs : List Record) (hr : records n b = some rs) (slots : List Val) (v : Val)
    (h : specUnmarshal S idN b (.msg slots []) = some v) :
    ∃ slots', v = .msg slots' ((unknownOf S idN rs).map fun r => tag r.num r.wire ++ r.raw).flatten ∧
      specEnc S idN v = sortChunks (encSlots S (S.msg idN).fields slots')
        ++ ((unknownOf S idN rs).map fun r => tag r.num r.wire ++ r.raw).flatten ∧
      ∀ mW m1, specUnmarshal S idW (sortChunks (encSlots S (S.msg idN).fields slots')) mW = some m1 →
        specUnmarshal S idW (specEnc S idN v) mW = Perm.foldSteps S idW (unknownOf S idN rs) m1 := by
  obtain ⟨slots', hv⟩ := capture_exact_mixed S idN hc n b rs hr slots [] v h
  rw [List.nil_append] at hv
  have henc : specEnc S idN v = sortChunks (encSlots S (S.msg idN).fields slots')
        ++ ((unknownOf S idN rs).map fun r => tag r.num r.wire ++ r.raw).flatten := by
    rw [hv]; simp [specEnc, hc]
  refine ⟨slots', hv, henc, ?_⟩
  intro mW m1 hk
  rw [henc, specUnmarshal_append S idW _ hk]
  exact Perm.specUnmarshal_records S idW _ _ _ m1 (captured_bytes_records S idN n b rs hr)

end Pico.Spec
