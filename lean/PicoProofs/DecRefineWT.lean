import PicoProofs.DecRefine
/-!
Well-typed values (`PicoModel/WellTyped.lean`, either strictness) have the shape the decoder
refinement asks for: `wtMsg S strict id m = true → shMsg S id m = true`.
-/
namespace Pico.Gen2
open Pico

theorem isSV_of_scalarOk (k : Scalar) (v : Val) (h : scalarOk k v = true) : isSV v = true := by
  cases v <;> simp_all [scalarOk, isSV]

theorem all_isSV_of_scalarOk (k : Scalar) (vs : List Val) (h : vs.all (scalarOk k) = true) :
    vs.all isSV = true := by
  rw [List.all_eq_true] at h ⊢
  exact fun v hv => isSV_of_scalarOk k v (h v hv)

theorem all_isNumV_of (vs : List Val)
    (h : vs.all (fun v => match v with | .num n => decide (n < 2 ^ 32) | _ => false) = true) :
    vs.all isNumV = true := by
  rw [List.all_eq_true] at h ⊢
  intro v hv
  have := h v hv
  cases v <;> simp_all [isNumV]

theorem outer_of_inner (S : Schema) (f : Field) (v : Val) (hv : ∀ x, v ≠ .some x)
    (h1 : f.inOneof = false → shVar S false f v = true) : shVar S true f v = true := by
  rw [shVar_true]
  by_cases ho : f.inOneof = true
  · rw [if_pos ho]
    cases v <;> first | rfl | exact absurd rfl (hv _)
  · rw [if_neg ho]
    exact h1 (by cases h : f.inOneof <;> simp_all)

theorem shVar_false_intro (S : Schema) (f : Field) (v : Val) (h1 : normOk f v = true)
    (h2 : nestedOk S f v = true) : shVar S false f v = true := by
  rw [shVar_false, h1, h2]; rfl

theorem nestedOk_flat (S : Schema) (f : Field) (v : Val) (h1 : ∀ x, v ≠ .some x)
    (h2 : ∀ s u, v ≠ .msg s u) : nestedOk S f v = true := by
  unfold nestedOk
  cases f.kind with
  | message id =>
    simp only
    split
    · split
      · cases v <;> first | rfl | exact absurd rfl (h1 _)
      · exact shMsg_not_msg S id v h2
    · rfl
  | _ => rfl

mutual
theorem sh_of_wtMsg (S : Schema) (strict : Bool) (id : Nat) :
    ∀ v : Val, wtMsg S strict id v = true → shMsg S id v = true
  | .msg slots u, h => by
    rw [wtMsg] at h
    simp only [Bool.and_eq_true] at h
    rw [shMsg]
    exact sh_of_wtSlots S strict _ slots h.1.1
  | .num _, _ => by simp [shMsg]
  | .bytes _, _ => by simp [shMsg]
  | .list _, _ => by simp [shMsg]
  | .map _, _ => by simp [shMsg]
  | .none, _ => by simp [shMsg]
  | .some _, _ => by simp [shMsg]

theorem sh_of_wtSlots (S : Schema) (strict : Bool) :
    ∀ (fs : List Field) (vs : List Val), wtSlots S strict fs vs = true → shSlots S fs vs = true
  | [], [], _ => by simp [shSlots]
  | f :: fs, v :: vs, h => by
    rw [wtSlots] at h
    simp only [Bool.and_eq_true] at h
    rw [shSlots, Bool.and_eq_true]
    exact ⟨(sh_of_wtField S strict false f v h.1).2 rfl, sh_of_wtSlots S strict fs vs h.2⟩
  | [], _ :: _, _ => by simp [shSlots]
  | _ :: _, [], _ => by simp [shSlots]

theorem sh_of_wtField (S : Schema) (strict inW : Bool) (f : Field) :
    ∀ v : Val, wtField S strict inW f v = true →
      ((inW = true ∨ f.inOneof = false) → shVar S false f v = true) ∧
      (inW = false → shVar S true f v = true)
  | .some x, h => by
    unfold wtField at h
    have core : (inW = true ∨ f.inOneof = false) → shVar S false f (.some x) = true := by
      intro hc
      have hcond : ¬ ((f.inOneof && !inW) = true) := by
        rcases hc with hc | hc <;> simp [hc]
      rw [if_neg hcond] at h
      simp only [Bool.and_eq_true, Bool.not_eq_true'] at h
      obtain ⟨⟨hr, hp⟩, hk⟩ := h
      cases hkind : f.kind with
      | scalar k =>
        apply shVar_false_intro
        · unfold normOk; rw [hkind]; simp [hr]
        · unfold nestedOk; rw [hkind]
      | enum => rw [hkind] at hk; cases hk
      | map k v => rw [hkind] at hk; cases hk
      | message id =>
        rw [hkind] at hk
        simp only at hk
        apply shVar_false_intro
        · unfold normOk; rw [hkind]; simp [hr]
        · unfold nestedOk; rw [hkind]
          simp only
          by_cases hpl : plainMsg f = true
          · rw [if_pos hpl, if_pos hp]
            unfold plainMsg at hpl
            simp only [Bool.and_eq_true, Bool.not_eq_true', Bool.or_eq_false_iff] at hpl
            rw [if_neg (by rw [hpl.1.1]; simp), if_neg (by rw [hpl.1.2]; simp)] at hk
            exact sh_of_wtMsg S strict id x hk
          · rw [if_neg hpl]
    refine ⟨core, fun hin => ?_⟩
    rw [shVar_true]
    by_cases ho : f.inOneof = true
    · rw [if_pos ho]
      rw [if_pos (by rw [ho, hin]; rfl)] at h
      exact (sh_of_wtField S strict true f x h).1 (Or.inl rfl)
    · rw [if_neg ho]
      exact core (Or.inr (by cases hh : f.inOneof <;> simp_all))
  | .msg slots u, h => by
    rw [wtField] at h
    simp only [Bool.and_eq_true, Bool.not_eq_true', beq_iff_eq] at h
    obtain ⟨⟨⟨⟨_, hr⟩, hp⟩, hcat⟩, hk⟩ := h
    have core : shVar S false f (.msg slots u) = true := by
      cases hkind : f.kind with
      | scalar k => rw [hkind] at hk; cases hk
      | enum => rw [hkind] at hk; cases hk
      | map k v => rw [hkind] at hk; cases hk
      | message id =>
        rw [hkind] at hk
        simp only [Bool.and_eq_true] at hk
        apply shVar_false_intro
        · unfold normOk; rw [hkind]; simp [hr]
        · unfold nestedOk; rw [hkind]
          have hpl : plainMsg f = true := by
            unfold plainMsg; rw [hcat, hr]; rfl
          simp only [hpl, hp, Bool.false_eq_true, ↓reduceIte]
          rw [shMsg]
          exact sh_of_wtSlots S strict _ slots hk.1.1.1
    exact ⟨fun _ => core, fun _ => outer_of_inner S f _ (fun _ => by simp) (fun _ => core)⟩
  | .num n, h => by
    rw [wtField] at h
    simp only [Bool.and_eq_true, Bool.or_eq_true, Bool.not_eq_true'] at h
    obtain ⟨⟨⟨_, hr⟩, _⟩, hk⟩ := h
    have core : shVar S false f (.num n) = true := by
      apply shVar_false_intro _ _ _ _ (nestedOk_flat S f _ (fun _ => by simp) (fun _ _ => by simp))
      unfold normOk
      cases hkind : f.kind <;> simp_all
    exact ⟨fun _ => core, fun _ => outer_of_inner S f _ (fun _ => by simp) (fun _ => core)⟩
  | .bytes b, h => by
    rw [wtField] at h
    simp only [Bool.and_eq_true, Bool.or_eq_true, Bool.not_eq_true'] at h
    obtain ⟨⟨⟨_, hr⟩, _⟩, hk⟩ := h
    have core : shVar S false f (.bytes b) = true := by
      apply shVar_false_intro _ _ _ _ (nestedOk_flat S f _ (fun _ => by simp) (fun _ _ => by simp))
      unfold normOk
      cases hkind : f.kind <;> simp_all
    exact ⟨fun _ => core, fun _ => outer_of_inner S f _ (fun _ => by simp) (fun _ => core)⟩
  | .list vs, h => by
    rw [wtField] at h
    simp only [Bool.and_eq_true, Bool.not_eq_true'] at h
    obtain ⟨⟨_, hr⟩, hk⟩ := h
    have core : shVar S false f (.list vs) = true := by
      apply shVar_false_intro _ _ _ _ (nestedOk_flat S f _ (fun _ => by simp) (fun _ _ => by simp))
      unfold normOk
      cases hkind : f.kind with
      | scalar k => rw [hkind] at hk; simp only at hk ⊢; simp [hr, all_isSV_of_scalarOk k vs hk]
      | enum => rw [hkind] at hk; simp only at hk ⊢; simp only [hr, Bool.not_true, Bool.false_or]; exact all_isNumV_of vs hk
      | map k v => rw [hkind] at hk; simp at hk
      | message id => simp
    exact ⟨fun _ => core, fun _ => outer_of_inner S f _ (fun _ => by simp) (fun _ => core)⟩
  | .map es, h => by
    rw [wtField] at h
    simp only [Bool.and_eq_true, Bool.not_eq_true'] at h
    obtain ⟨_, hk⟩ := h
    have core : shVar S false f (.map es) = true := by
      apply shVar_false_intro _ _ _ _ (nestedOk_flat S f _ (fun _ => by simp) (fun _ _ => by simp))
      unfold normOk
      cases hkind : f.kind <;> simp_all
    exact ⟨fun _ => core, fun _ => outer_of_inner S f _ (fun _ => by simp) (fun _ => core)⟩
  | .none, h => by
    rw [wtField] at h
    have core : (inW = true ∨ f.inOneof = false) → shVar S false f .none = true := by
      intro hc
      apply shVar_false_intro _ _ _ _ (nestedOk_flat S f _ (fun _ => by simp) (fun _ _ => by simp))
      have hr : f.repeated = false := by
        rcases hc with hc | hc <;> simp_all
      unfold normOk
      cases hkind : f.kind <;> simp_all
    exact ⟨core, fun _ => outer_of_inner S f _ (fun _ => by simp) (fun ho => core (Or.inr ho))⟩
end

/-- a well-typed message value (either strictness) has the shape `unmarshal_refines_spec` asks for -/
theorem shMsg_of_wtMsg (S : Schema) (strict : Bool) (id : Nat) (m : Val) (h : wtMsg S strict id m = true) :
    shMsg S id m = true := sh_of_wtMsg S strict id m h

/-- T_dec for well-typed starting values -/
theorem unmarshal_refines_spec_wt (S : Schema) (hS : S.supported = true) (id : Nat) (data : Bytes) (m0 : Val)
    (strict : Bool) (hm0 : wtMsg S strict id m0 = true) :
    ∃ d m, unmarshal S id data m0 = .ok (d, m) ∧
      (d.err = none ↔ (Spec.specUnmarshal S id data m0).isSome) ∧
      (d.err = none → Spec.specUnmarshal S id data m0 = some m) :=
  unmarshal_refines_spec S hS id data m0 (shMsg_of_wtMsg S strict id m0 hm0)

end Pico.Gen2

#print axioms Pico.Gen2.shMsg_of_wtMsg
#print axioms Pico.Gen2.unmarshal_refines_spec_wt
