import PicoModel.EncLow
import PicoProofs.Varint
/-
C06/C17 — the encoder's length-patching trick: `anyBytesLow` / `alwaysAnyBytesLow` (Go-slice level, stale
capacity, capacity oracle, in-place `copy`/`PutUvarint`/re-slice) refine the list-append semantics
`Pico.Enc.anyBytes` / `Pico.Enc.alwaysAnyBytes`. Kernel-only (no `bv_decide`).
-/
namespace Pico.EncLow
open Pico Pico.Wire

/-! ### `SizeVarint v = len(AppendVarint(nil, v))` for every `uint64` -/

theorem varint_length_le : ∀ (k v : Nat), v < 128 ^ (k + 1) → (varint v).length ≤ k + 1 := by
  intro k
  induction k with
  | zero => intro v h; rw [varint_lt v (by simpa using h)]; simp
  | succ k ih =>
    intro v h
    by_cases hlt : v < 128
    · rw [varint_lt v hlt]; simp
    · rw [varint_ge v hlt, List.length_cons]
      have : v / 128 < 128 ^ (k + 1) := by
        rw [Nat.pow_succ] at h
        exact Nat.div_lt_of_lt_mul (by omega)
      have := ih (v / 128) this
      omega

theorem varint_length_ge : ∀ (k v : Nat), 128 ^ k ≤ v → k + 1 ≤ (varint v).length := by
  intro k
  induction k with
  | zero => intro v _; exact varint_length_pos v
  | succ k ih =>
    intro v h
    have h128 : 128 ≤ 128 ^ (k + 1) := by
      have := Nat.pow_le_pow_right (n := 128) (by omega) (show 1 ≤ k + 1 by omega)
      simpa using this
    have hlt : ¬ v < 128 := by omega
    rw [varint_ge v hlt, List.length_cons]
    have : 128 ^ k ≤ v / 128 := by
      rw [Nat.pow_succ] at h
      exact (Nat.le_div_iff_mul_le (by omega)).2 h
    have := ih (v / 128) this
    omega

theorem size_arith (n : Nat) (h : n < 64) : (9 * (n + 1) + 64) / 64 = n / 7 + 1 := by omega

theorem sizeVarint_eq_length (v : Nat) (hv : v < 2 ^ 64) : sizeVarint v = (varint v).length := by
  unfold sizeVarint len64
  by_cases h0 : v = 0
  · subst h0; rw [varint_lt 0 (by omega)]; rfl
  · simp only [h0, ↓reduceIte]
    have hn : Nat.log2 v < 64 := (Nat.log2_lt h0).2 hv
    have hlo : 2 ^ Nat.log2 v ≤ v := Nat.log2_self_le h0
    have hhi : v < 2 ^ (Nat.log2 v + 1) := Nat.lt_log2_self
    generalize Nat.log2 v = n at hn hlo hhi
    rw [size_arith n hn]
    have e : ∀ j, (128 : Nat) ^ j = 2 ^ (7 * j) := by
      intro j; rw [Nat.pow_mul]
    have h1 : 128 ^ (n / 7) ≤ v := by
      rw [e]
      exact Nat.le_trans (Nat.pow_le_pow_right (by omega) (by omega)) hlo
    have h2 : v < 128 ^ (n / 7 + 1) := by
      rw [e]
      exact Nat.lt_of_lt_of_le hhi (Nat.pow_le_pow_right (by omega) (by omega))
    have := varint_length_le _ _ h2
    have := varint_length_ge _ _ h1
    omega

/-! ### list facts -/

theorem take_pre {α} (pre x : List α) (j : Nat) : (pre ++ x).take (pre.length + j) = pre ++ x.take j := by
  induction pre with
  | nil => simp
  | cons p ps ih => simp [Nat.succ_add, ih]

theorem drop_pre {α} (pre x : List α) (j : Nat) : (pre ++ x).drop (pre.length + j) = x.drop j := by
  induction pre with
  | nil => simp
  | cons p ps ih => simp [Nat.succ_add, ih]

/-- shrink: one length byte, payload moved left by one -/
theorem shrink_lists {α} (z : α) (pre payload vi : List α) (hv : vi.length = 1) :
    let d3 := pre ++ z :: z :: payload
    let L := payload.length
    let d5 := d3.take (pre.length + 1) ++ (d3.drop (pre.length + 2)).take L ++ d3.drop (pre.length + 1 + L)
    let d6 := d5.take pre.length ++ vi ++ d5.drop (pre.length + 1)
    d6.take (pre.length + 1 + L) = pre ++ vi ++ payload := by
  intro d3 L d5 d6
  have h1 : d3.take (pre.length + 1) = pre ++ [z] := by simp [d3, take_pre]
  have h2 : (d3.drop (pre.length + 2)).take L = payload := by simp [d3, L]
  have hd5 : d5 = pre ++ ([z] ++ payload ++ d3.drop (pre.length + 1 + L)) := by simp [d5, h1, h2]
  have h3 : d5.take pre.length = pre := by rw [hd5]; simp
  have h4 : d5.drop (pre.length + 1) = payload ++ d3.drop (pre.length + 1 + L) := by
    rw [hd5, drop_pre]; simp
  have hd6 : d6 = (pre ++ vi ++ payload) ++ d3.drop (pre.length + 1 + L) := by simp [d6, h3, h4]
  rw [hd6]
  have hl : pre.length + 1 + L = (pre ++ vi ++ payload).length := by simp [hv, L]; omega
  rw [hl]
  generalize pre ++ vi ++ payload = A
  generalize List.drop A.length d3 = B
  simp

/-- grow: three or more length bytes, buffer extended, payload moved right -/
theorem grow_lists {α} (z : α) (pre payload vi : List α) (hv : 3 ≤ vi.length) :
    let sz := vi.length
    let L := payload.length
    let d4 := pre ++ z :: z :: payload ++ List.replicate (sz - 2) z
    let d5 := d4.take (pre.length + sz) ++ (d4.drop (pre.length + 2)).take L ++ d4.drop (pre.length + sz + L)
    let d6 := d5.take pre.length ++ vi ++ d5.drop (pre.length + sz)
    d6 = pre ++ vi ++ payload ∧ d4.length = pre.length + sz + L := by
  intro sz L d4 d5 d6
  have hlen4 : d4.length = pre.length + sz + L := by simp [d4, L, sz]; omega
  have hx : ((z :: z :: payload) ++ List.replicate (sz - 2) z).length = sz + L := by simp [L]; omega
  have h1 : d4.take (pre.length + sz) = pre ++ ((z :: z :: payload) ++ List.replicate (sz - 2) z).take sz := by
    simp only [d4]; rw [← take_pre]; simp
  have h2 : (d4.drop (pre.length + 2)).take L = payload := by
    have : d4 = pre ++ ((z :: z :: payload) ++ List.replicate (sz - 2) z) := by simp [d4]
    rw [this, drop_pre]; simp [L]
  have h3 : d4.drop (pre.length + sz + L) = [] := by
    apply List.drop_eq_nil_of_le; omega
  have hX : (((z :: z :: payload) ++ List.replicate (sz - 2) z).take sz).length = sz := by
    rw [List.length_take]; omega
  generalize hXd : ((z :: z :: payload) ++ List.replicate (sz - 2) z).take sz = X at h1 hX
  have hd5 : d5 = pre ++ (X ++ payload) := by simp [d5, h1, h2, h3]
  have h4 : d5.take pre.length = pre := by rw [hd5]; simp
  have h5 : d5.drop (pre.length + sz) = payload := by
    rw [hd5, drop_pre, ← hX]; simp
  exact ⟨by simp [d6, h4, h5], hlen4⟩

/-! ### the slice operations on their non-panicking domain -/

theorem append_data (oracle) (b : Buf) (xs) : (b.append oracle xs).data = b.data ++ xs := by
  unfold Buf.append; split <;> rfl

theorem copyWithin_eq (b : Buf) (dst src : Nat) (h1 : dst ≤ b.data.length) (h2 : src ≤ b.data.length) :
    b.copyWithin dst src = .ok ⟨b.data.take dst ++ (b.data.drop src).take (min (b.data.length - dst) (b.data.length - src))
      ++ b.data.drop (dst + min (b.data.length - dst) (b.data.length - src)), b.tail⟩ := by
  simp [Buf.copyWithin, h1, h2]

theorem putUvarintAt_eq (b : Buf) (lo hi x : Nat) (h1 : lo ≤ hi) (h2 : hi ≤ b.data.length)
    (h3 : (varint x).length ≤ hi - lo) :
    b.putUvarintAt lo hi x = .ok ⟨b.data.take lo ++ varint x ++ b.data.drop (lo + (varint x).length), b.tail⟩ := by
  simp [Buf.putUvarintAt, putUvarintBytes, h1, h2, h3]

/-- a re-slice operation that behaves like `b[:n]` whenever `n ≤ len` (no assumption beyond `len`) -/
def ResliceOK (rs : Buf → Nat → Res Buf) : Prop :=
  ∀ (b : Buf) (n : Nat), n ≤ b.data.length → rs b n = .ok ⟨b.data.take n, b.data.drop n ++ b.tail⟩

theorem resliceTo_ok : ResliceOK Buf.resliceTo := by
  intro b n h; simp [Buf.resliceTo, h]

theorem resliceToStrict_ok : ResliceOK Buf.resliceToStrict := by
  intro b n h; simp [Buf.resliceToStrict, h]

/-! ### the length patch -/

theorem finishLowWith_spec (rs) (hrs : ResliceOK rs) (oracle) (pre payload t3 : Bytes)
    (hp : payload.length < 2 ^ 64) :
    dataOf1 (finishLowWith rs oracle ⟨pre ++ 0 :: 0 :: payload, t3⟩ pre.length (pre.length + 2)) =
      some (pre ++ varint payload.length ++ payload) := by
  unfold finishLowWith
  have hml : (⟨pre ++ 0 :: 0 :: payload, t3⟩ : Buf).len - (pre.length + 2) = payload.length := by
    simp [Buf.len]; omega
  have hl2 : lengthBufferPrediction.length = 2 := rfl
  simp only [hml, hl2, sizeVarint_eq_length _ hp]
  have hpos := varint_length_pos payload.length
  generalize hvi : varint payload.length = vi at hpos
  by_cases h2 : vi.length = 2
  · simp only [h2, ↓reduceIte]
    rw [putUvarintAt_eq _ _ _ _ (by omega) (by simp) (by rw [hvi]; omega)]
    simp only [hvi, h2, dataOf1]
    simp
  · simp only [h2, ↓reduceIte, bind, Res.bind]
    by_cases h3 : vi.length > 2
    · simp only [h3, ↓reduceIte]
      obtain ⟨hd6, hlen4⟩ := grow_lists (0 : Byte) pre payload vi (by omega)
      generalize hb4 : (⟨pre ++ 0 :: 0 :: payload, t3⟩ : Buf).append oracle (List.replicate (vi.length - 2) 0) = b4
      have hd4 : b4.data = pre ++ 0 :: 0 :: payload ++ List.replicate (vi.length - 2) 0 := by
        rw [← hb4, append_data]
      have hl4 : b4.data.length = pre.length + vi.length + payload.length := by rw [hd4]; simpa using hlen4
      rw [copyWithin_eq b4 _ _ (by omega) (by omega)]
      have hk : min (b4.data.length - (pre.length + vi.length)) (b4.data.length - (pre.length + 2)) = payload.length := by
        rw [hl4]; omega
      simp only [hk]
      rw [putUvarintAt_eq _ _ _ _ (by omega) (by
            simp only [List.length_append, List.length_take, List.length_drop, hl4]; omega) (by rw [hvi]; omega)]
      simp only [hvi]
      rw [hd4, hd6]
      rw [hrs _ _ (by simp; omega)]
      simp only [dataOf1]
      rw [List.take_of_length_le (by simp; omega)]
    · have h1 : vi.length = 1 := by omega
      simp only [h3, ↓reduceIte]
      have hs := shrink_lists (0 : Byte) pre payload vi h1
      simp only at hs
      have hl3 : (pre ++ 0 :: 0 :: payload).length = pre.length + 2 + payload.length := by simp; omega
      rw [copyWithin_eq _ _ _ (by simp only [hl3, h1]; omega) (by simp only [hl3]; omega)]
      have hk : min ((pre ++ 0 :: 0 :: payload).length - (pre.length + 1))
          ((pre ++ 0 :: 0 :: payload).length - (pre.length + 2)) = payload.length := by
        rw [hl3]; omega
      simp only [h1]
      simp only [hk]
      rw [putUvarintAt_eq _ _ _ _ (by omega) (by
            simp only [List.length_append, List.length_take, List.length_drop, hl3]; omega) (by rw [hvi]; omega)]
      simp only [hvi, h1]
      rw [hrs _ _ (by
            simp only [List.length_append, List.length_take, List.length_drop, hl3, h1]; omega)]
      simp only [dataOf1]
      rw [hs]

/-! ### main theorems -/

/-- C06/C17 core, for any re-slice operation that is only specified up to `len`: for every payload
length `< 2^64`, every initial stale tail and every capacity oracle, the reserve-two-bytes-and-shift code
produces exactly `buf ++ tag ++ varint(len) ++ payload` (or leaves the logical buffer as it was when the
callback reports absence), and never panics. -/
theorem anyBytesLowWith_refines (rs) (hrs : ResliceOK rs) (oracle : Nat → Bytes) (tag p : Bytes) (ok : Bool)
    (fn) (hfn : AppendOnly fn p ok) (hp : p.length < 2 ^ 64) (b : Buf) :
    dataOf (anyBytesLowWith rs oracle tag fn b) =
      some (if ok then b.data ++ tag ++ varint p.length ++ p else b.data, ok) := by
  unfold anyBytesLowWith
  obtain ⟨t3, h3⟩ := hfn ((b.append oracle tag).append oracle lengthBufferPrediction)
  simp only [bind, Res.bind, h3, Buf.len, append_data, pure]
  cases ok with
  | false =>
    rw [show (!false) = true from rfl]
    simp only [↓reduceIte]
    rw [hrs _ _ (by simp)]
    simp [dataOf]
  | true =>
    simp only [Bool.not_true, Bool.false_eq_true, ↓reduceIte]
    have e : b.data ++ tag ++ lengthBufferPrediction ++ p = (b.data ++ tag) ++ 0 :: 0 :: p := by
      simp [lengthBufferPrediction]
    have l1 : (b.data ++ tag ++ lengthBufferPrediction).length = (b.data ++ tag).length + 2 := by
      simp only [lengthBufferPrediction, List.length_append, List.length_cons, List.length_nil]
    rw [e, l1]
    have hf := finishLowWith_spec rs hrs oracle (b.data ++ tag) p t3 hp
    revert hf
    cases finishLowWith rs oracle ⟨(b.data ++ tag) ++ 0 :: 0 :: p, t3⟩ (b.data ++ tag).length
        ((b.data ++ tag).length + 2) with
    | ok b7 => simp only [dataOf1, dataOf]; intro hf; simp only [Option.some.injEq] at hf; rw [hf]
    | panic w => simp [dataOf1]
    | outOfFuel => simp [dataOf1]

theorem alwaysAnyBytesLowWith_refines (rs) (hrs : ResliceOK rs) (oracle : Nat → Bytes) (tag p : Bytes)
    (fn) (hfn : AppendOnly1 fn p) (hp : p.length < 2 ^ 64) (b : Buf) :
    dataOf1 (alwaysAnyBytesLowWith rs oracle tag fn b) = some (b.data ++ tag ++ varint p.length ++ p) := by
  unfold alwaysAnyBytesLowWith
  obtain ⟨t3, h3⟩ := hfn ((b.append oracle tag).append oracle lengthBufferPrediction)
  simp only [bind, Res.bind, h3, Buf.len, append_data]
  have e : b.data ++ tag ++ lengthBufferPrediction ++ p = (b.data ++ tag) ++ 0 :: 0 :: p := by
    simp [lengthBufferPrediction]
  have l1 : (b.data ++ tag ++ lengthBufferPrediction).length = (b.data ++ tag).length + 2 := by
    simp only [lengthBufferPrediction, List.length_append, List.length_cons, List.length_nil]
  rw [e, l1]
  exact finishLowWith_spec rs hrs oracle (b.data ++ tag) p t3 hp

/-- `anyBytesLow_refines` (C06/C17) -/
theorem anyBytesLow_refines (oracle : Nat → Bytes) (tag p : Bytes) (ok : Bool)
    (fn) (hfn : AppendOnly fn p ok) (hp : p.length < 2 ^ 64) (b : Buf) :
    dataOf (anyBytesLow oracle tag fn b) =
      some (if ok then b.data ++ tag ++ varint p.length ++ p else b.data, ok) :=
  anyBytesLowWith_refines _ resliceTo_ok oracle tag p ok fn hfn hp b

theorem alwaysAnyBytesLow_refines (oracle : Nat → Bytes) (tag p : Bytes)
    (fn) (hfn : AppendOnly1 fn p) (hp : p.length < 2 ^ 64) (b : Buf) :
    dataOf1 (alwaysAnyBytesLow oracle tag fn b) = some (b.data ++ tag ++ varint p.length ++ p) :=
  alwaysAnyBytesLowWith_refines _ resliceTo_ok oracle tag p fn hfn hp b

/-- the Go-slice `anyBytes` appends exactly what the abstract encoder `Pico.Enc.anyBytes` says -/
theorem anyBytesLow_eq_abstract (oracle : Nat → Bytes) (field : Int) (p : Bytes) (ok : Bool)
    (fn) (hfn : AppendOnly fn p ok) (hp : p.length < 2 ^ 64) (b : Buf) :
    dataOf (anyBytesLow oracle (Pico.Enc.appendTag field 2) fn b) =
      some (b.data ++ Pico.Enc.anyBytes field p ok, ok) := by
  rw [anyBytesLow_refines oracle _ p ok fn hfn hp b]
  cases ok <;> simp [Pico.Enc.anyBytes]

theorem alwaysAnyBytesLow_eq_abstract (oracle : Nat → Bytes) (field : Int) (p : Bytes)
    (fn) (hfn : AppendOnly1 fn p) (hp : p.length < 2 ^ 64) (b : Buf) :
    dataOf1 (alwaysAnyBytesLow oracle (Pico.Enc.appendTag field 2) fn b) =
      some (b.data ++ Pico.Enc.alwaysAnyBytes field p) := by
  rw [alwaysAnyBytesLow_refines oracle _ p fn hfn hp b]
  simp [Pico.Enc.alwaysAnyBytes]

theorem dataOf_some {r : Res (Buf × Bool)} {d ok} (h : dataOf r = some (d, ok)) :
    ∃ t, r = .ok (⟨d, t⟩, ok) := by
  match r, h with
  | .ok (⟨d', t⟩, ok'), h =>
    simp only [dataOf, Option.some.injEq, Prod.mk.injEq] at h
    exact ⟨t, by rw [h.1, h.2]⟩

theorem dataOf1_some {r : Res Buf} {d} (h : dataOf1 r = some d) : ∃ t, r = .ok ⟨d, t⟩ := by
  match r, h with
  | .ok ⟨d', t⟩, h =>
    simp only [dataOf1, Option.some.injEq] at h
    exact ⟨t, by rw [h]⟩

/-- the result is again append-only, so nested `Message` calls compose -/
theorem anyBytesLow_appendOnly (oracle : Nat → Bytes) (tag p : Bytes) (ok : Bool)
    (fn) (hfn : AppendOnly fn p ok) (hp : p.length < 2 ^ 64) :
    AppendOnly (anyBytesLow oracle tag fn) (if ok then tag ++ varint p.length ++ p else []) ok := by
  intro b
  have h := anyBytesLow_refines oracle tag p ok fn hfn hp b
  have e : (if ok then b.data ++ tag ++ varint p.length ++ p else b.data)
      = b.data ++ (if ok then tag ++ varint p.length ++ p else []) := by
    cases ok <;> simp
  rw [e] at h
  exact dataOf_some h

theorem alwaysAnyBytesLow_appendOnly (oracle : Nat → Bytes) (tag p : Bytes)
    (fn) (hfn : AppendOnly1 fn p) (hp : p.length < 2 ^ 64) :
    AppendOnly1 (alwaysAnyBytesLow oracle tag fn) (tag ++ varint p.length ++ p) := by
  intro b
  have h := alwaysAnyBytesLow_refines oracle tag p fn hfn hp b
  rw [List.append_assoc, List.append_assoc, ← List.append_assoc tag] at h
  exact dataOf1_some h

/-- no re-slice beyond `len` is taken: with `b[:n]` instrumented to panic whenever `n > len` (i.e. whenever
it would expose stale capacity), `anyBytes` still does not panic and yields the same logical bytes. -/
theorem no_stale_exposed (oracle : Nat → Bytes) (tag p : Bytes) (ok : Bool)
    (fn) (hfn : AppendOnly fn p ok) (hp : p.length < 2 ^ 64) (b : Buf) :
    dataOf (anyBytesLowWith Buf.resliceToStrict oracle tag fn b) = dataOf (anyBytesLow oracle tag fn b) ∧
    (∃ r, anyBytesLowWith Buf.resliceToStrict oracle tag fn b = .ok r) := by
  have hs := anyBytesLowWith_refines _ resliceToStrict_ok oracle tag p ok fn hfn hp b
  refine ⟨by rw [hs, anyBytesLow_refines oracle tag p ok fn hfn hp b], ?_⟩
  obtain ⟨t, ht⟩ := dataOf_some hs
  exact ⟨_, ht⟩

theorem no_stale_exposed_always (oracle : Nat → Bytes) (tag p : Bytes)
    (fn) (hfn : AppendOnly1 fn p) (hp : p.length < 2 ^ 64) (b : Buf) :
    dataOf1 (alwaysAnyBytesLowWith Buf.resliceToStrict oracle tag fn b) = dataOf1 (alwaysAnyBytesLow oracle tag fn b) ∧
    (∃ r, alwaysAnyBytesLowWith Buf.resliceToStrict oracle tag fn b = .ok r) := by
  have hs := alwaysAnyBytesLowWith_refines _ resliceToStrict_ok oracle tag p fn hfn hp b
  refine ⟨by rw [hs, alwaysAnyBytesLow_refines oracle tag p fn hfn hp b], ?_⟩
  obtain ⟨t, ht⟩ := dataOf1_some hs
  exact ⟨_, ht⟩

end Pico.EncLow

#print axioms Pico.EncLow.sizeVarint_eq_length
#print axioms Pico.EncLow.anyBytesLow_refines
#print axioms Pico.EncLow.alwaysAnyBytesLow_refines
#print axioms Pico.EncLow.anyBytesLow_eq_abstract
#print axioms Pico.EncLow.alwaysAnyBytesLow_eq_abstract
#print axioms Pico.EncLow.anyBytesLow_appendOnly
#print axioms Pico.EncLow.alwaysAnyBytesLow_appendOnly
#print axioms Pico.EncLow.no_stale_exposed
#print axioms Pico.EncLow.no_stale_exposed_always
