import PicoModel.WellTyped
import PicoProofs.WireLemmas
import PicoProofs.ScalarLemmas
import PicoProofs.TimeLemmas
/-
Task F, part 1: generic machinery for the specification decoder — one-step unfoldings with the
nested decoder abstracted, fuel monotonicity, tokenizer facts, `specDec_append`, the fuel-free
relation `Decs` and its step rules.
-/
namespace Pico.SpecRt
open Pico Pico.Spec
open Pico.Wire

/-- body of `applyRec` with the nested decoder abstracted -/
def applyBody (S : Schema) (D : Nat → Bytes → Val → Option Val) (f : Field) (r : Record) (cur : Val) : Option Val :=
    match f.kind with
    | .scalar k =>
      if f.repeated then
        if r.wire = 2 ∧ !k.isBytes then
          (unpack k (r.payload.length + 1) r.payload).map fun xs => .list (cur.list! ++ xs.map Val.ofSVal)
        else (r.scalar k).map fun x => .list (cur.list! ++ [Val.ofSVal x])
      else (r.scalar k).map fun x => if f.pointer S then .some (Val.ofSVal x) else Val.ofSVal x
    | .enum =>
      if f.repeated then
        if r.wire = 2 then
          (unpack .int32 (r.payload.length + 1) r.payload).map fun xs => .list (cur.list! ++ xs.map Val.ofSVal)
        else (r.scalar .int32).map fun x => .list (cur.list! ++ [Val.ofSVal x])
      else (r.scalar .int32).map Val.ofSVal
    | .map k v =>
      if r.wire ≠ 2 then none
      else (mapEntry k v (r.payload.length + 1) r.payload (k.zero, v.zero)).map fun kv =>
        .map (Gen2.mapInsert (match cur with | .map es => es | _ => []) kv.1 kv.2 Gen2.keyEq)
    | .message id =>
      if r.wire ≠ 2 then none
      else if f.cat == 1 ∨ f.cat == 2 then
        (secNanos (r.payload.length + 1) r.payload (0, 0)).map fun s =>
          let c : Val := .num (if f.cat == 1 then tsOf s else durOf s)
          if f.repeated then .list (cur.list! ++ [if f.pointer S then .some c else c])
          else if f.pointer S then .some c else c
      else if f.repeated then
        (D id r.payload (Gen2.zeroMsg S id)).map fun x => .list (cur.list! ++ [x])
      else if f.pointer S then
        (D id r.payload (match cur with | .some x => x | _ => Gen2.zeroMsg S id)).map .some
      else D id r.payload cur

theorem applyRec_succ (S : Schema) (fuel : Nat) (f : Field) (r : Record) (cur : Val) :
    applyRec S (fuel + 1) f r cur = applyBody S (specDec S fuel) f r cur := by
  rfl

/-- the effect of one parsed record on the message -/
def upd (S : Schema) (fuel : Nat) (id : Nat) (r : Record) (cur : Val) : Option Val :=
  let m := S.msg id
  match findField m.fields r.num with
  | none =>
    some (if m.capture then
        (match cur with
         | .msg slots u => Val.msg slots (u ++ tag r.num r.wire ++ r.raw)
         | x => x)
      else cur)
  | some (i, f) =>
    let slot := Gen2.getSlot cur i
    if f.inOneof then
      let inner0 := match slot with | .some x => x | _ => Gen2.zeroField S { f with oneof := 0 }
      let base := match slot with | .some _ => cur | _ => Gen2.clearGroup m.fields f.oneof i cur
      (applyRec S fuel { f with oneof := 0 } r inner0).map fun inner => Gen2.setSlot base i (.some inner)
    else
      (applyRec S fuel f r slot).map fun v => Gen2.setSlot cur i v

theorem specDec_succ (S : Schema) (fuel id : Nat) (b : Bytes) (cur : Val) :
    specDec S (fuel + 1) id b cur =
      if b.isEmpty then some cur
      else match parse1 b with
        | none => none
        | some (r, rest) => (upd S fuel id r cur).bind fun c => specDec S fuel id rest c := by
  rw [specDec]
  cases hb : b.isEmpty with
  | true => rfl
  | false =>
    simp only [Bool.false_eq_true, ↓reduceIte]
    cases hp : parse1 b with
    | none => rfl
    | some p =>
      obtain ⟨r, rest⟩ := p
      simp only [upd]
      cases hf : findField (S.msg id).fields r.num with
      | none => rfl
      | some q =>
        obtain ⟨i, f⟩ := q
        cases ho : f.inOneof with
        | true =>
          simp only [ho, ↓reduceIte]
          cases applyRec S fuel { f with oneof := 0 } _ _ <;> rfl
        | false =>
          simp only [ho, Bool.false_eq_true, ↓reduceIte]
          cases applyRec S fuel f _ _ <;> rfl


theorem applyBody_mono (S : Schema) (D D' : Nat → Bytes → Val → Option Val)
    (h : ∀ id b c r, D id b c = some r → D' id b c = some r) (f : Field) (rc : Record) (cur r : Val) :
    applyBody S D f rc cur = some r → applyBody S D' f rc cur = some r := by
  unfold applyBody
  split
  · exact fun hh => hh
  · exact fun hh => hh
  · exact fun hh => hh
  · rename_i id
    split
    · exact fun hh => hh
    · split
      · exact fun hh => hh
      · split
        · intro hx
          obtain ⟨x, hx', rfl⟩ := Option.map_eq_some_iff.mp hx
          rw [h _ _ _ _ hx']; rfl
        · split
          · intro hx
            obtain ⟨x, hx', rfl⟩ := Option.map_eq_some_iff.mp hx
            rw [h _ _ _ _ hx']; rfl
          · exact h _ _ _ _

theorem upd_mono (S : Schema) (fuel id : Nat) (rc : Record) (cur r : Val)
    (hA : ∀ f rc cur r, applyRec S fuel f rc cur = some r → applyRec S (fuel + 1) f rc cur = some r) :
    upd S fuel id rc cur = some r → upd S (fuel + 1) id rc cur = some r := by
  unfold upd
  simp only
  split
  · exact fun hh => hh
  · split
    · intro hx
      obtain ⟨x, hx', rfl⟩ := Option.map_eq_some_iff.mp hx
      rw [hA _ _ _ _ hx']; rfl
    · intro hx
      obtain ⟨x, hx', rfl⟩ := Option.map_eq_some_iff.mp hx
      rw [hA _ _ _ _ hx']; rfl

theorem mono_aux (S : Schema) : ∀ fuel,
    (∀ id b cur r, specDec S fuel id b cur = some r → specDec S (fuel + 1) id b cur = some r) ∧
    (∀ f rc cur r, applyRec S fuel f rc cur = some r → applyRec S (fuel + 1) f rc cur = some r) := by
  intro fuel
  induction fuel with
  | zero =>
    constructor
    · intro id b cur r h; simp [specDec] at h
    · intro f rc cur r h; simp [applyRec] at h
  | succ fuel ih =>
    have hA : ∀ f rc cur r, applyRec S (fuel + 1) f rc cur = some r →
        applyRec S (fuel + 1 + 1) f rc cur = some r := by
      intro f rc cur r
      rw [applyRec_succ, applyRec_succ]
      exact applyBody_mono S _ _ ih.1 f rc cur r
    refine ⟨?_, hA⟩
    intro id b cur r
    rw [specDec_succ, specDec_succ]
    split
    · exact fun hh => hh
    · split
      · exact fun hh => hh
      · rename_i rc rest hp
        intro hx
        obtain ⟨c, hc, hx'⟩ := Option.bind_eq_some_iff.mp hx
        rw [upd_mono S fuel id rc cur c ih.2 hc]
        exact ih.1 _ _ _ _ hx'

theorem specDec_mono_le (S : Schema) {fuel fuel' id b cur r} (hle : fuel ≤ fuel')
    (h : specDec S fuel id b cur = some r) : specDec S fuel' id b cur = some r := by
  induction hle with
  | refl => exact h
  | step _ ih => exact (mono_aux S _).1 _ _ _ _ ih

theorem applyRec_mono_le (S : Schema) {fuel fuel' f rc cur r} (hle : fuel ≤ fuel')
    (h : applyRec S fuel f rc cur = some r) : applyRec S fuel' f rc cur = some r := by
  induction hle with
  | refl => exact h
  | step _ ih => exact (mono_aux S _).2 _ _ _ _ ih

theorem upd_mono_le (S : Schema) {fuel fuel' id rc cur r} (hle : fuel ≤ fuel')
    (h : upd S fuel id rc cur = some r) : upd S fuel' id rc cur = some r := by
  induction hle with
  | refl => exact h
  | step _ ih => exact upd_mono S _ _ _ _ _ (mono_aux S _).2 ih


theorem parse1_nil : parse1 [] = none := rfl

theorem parse1_ne_nil {b r rest} (h : parse1 b = some (r, rest)) : b ≠ [] := by
  intro hb; subst hb; rw [parse1_nil] at h; cases h

theorem numberIsValid_iff (n : Int) : numberIsValid n = true ↔ 1 ≤ n ∧ n ≤ 536870911 := by
  simp [numberIsValid]

/-- prefix determinism of the tokenizer -/
theorem parse1_append {a : Bytes} {r rest} (b : Bytes) (h : parse1 a = some (r, rest)) :
    parse1 (a ++ b) = some (r, rest ++ b) := by
  unfold parse1 at h ⊢
  simp only at h ⊢
  split at h
  · cases h
  · rename_i hc
    have ht : 0 ≤ (consumeTag a).2.2 := by
      apply Decidable.byContradiction; intro hn; exact hc (Or.inl (by omega))
    have hp := consumeTag_progress a ht
    rw [consumeTag_append a b ht]
    rw [if_neg hc]
    split at h
    · cases h
    · rename_i hn
      have hd : (a ++ b).drop (consumeTag a).2.2.toNat = a.drop (consumeTag a).2.2.toNat ++ b :=
        drop_append_of_le a b _ (by omega)
      rw [hd]
      have hv : 0 ≤ consumeFieldValue (consumeTag a).1 (consumeTag a).2.1 (a.drop (consumeTag a).2.2.toNat) := by omega
      have hvp := consumeFieldValue_progress _ _ _ hv
      rw [consumeFieldValue_append _ _ _ b hv, if_neg hn]
      simp only [Option.some.injEq, Prod.mk.injEq] at h ⊢
      obtain ⟨h1, h2⟩ := h
      rw [← h1, ← h2]
      refine ⟨?_, ?_⟩
      · rw [List.take_append_of_le_length (by omega)]
      · rw [drop_append_of_le _ b _ (by omega)]

/-- a well-formed record in front of anything is tokenized as itself -/
theorem parse1_record (num : Nat) (w : Nat) (raw rest : Bytes) (h1 : 1 ≤ num) (h2 : num ≤ 536870911)
    (hw : w < 8) (hv : consumeFieldValue (num : Int) w (raw ++ rest) = raw.length) :
    parse1 (tag num w ++ raw ++ rest) = some (⟨num, w, raw⟩, rest) := by
  unfold parse1
  simp only [List.append_assoc]
  rw [consumeTag_tag (num : Int) w (raw ++ rest) (by omega) (by omega) hw]
  simp only
  have hvalid : numberIsValid (num : Int) = true := by
    rw [numberIsValid_iff]; omega
  rw [if_neg (by rw [hvalid]; simp)]
  simp only [Int.toNat_natCast, List.drop_left, hv]
  rw [if_neg (by omega)]
  simp

theorem isEmpty_false_of_ne_nil {b : Bytes} (h : b ≠ []) : b.isEmpty = false := by
  cases b with
  | nil => exact absurd rfl h
  | cons _ _ => rfl

/-- C09 at spec level: decoding a concatenation = decoding one part after the other -/
theorem specDec_append (S : Schema) (id : Nat) (b : Bytes) (r : Val) : ∀ (f1 f2 : Nat) (a : Bytes) (cur mid : Val),
    specDec S f1 id a cur = some mid → specDec S f2 id b mid = some r →
    specDec S (f1 + f2) id (a ++ b) cur = some r := by
  intro f1
  induction f1 with
  | zero => intro f2 a cur mid h; simp [specDec] at h
  | succ f1 ih =>
    intro f2 a cur mid h1 h2
    rw [specDec_succ] at h1
    cases a with
    | nil =>
      simp only [List.isEmpty_nil, ↓reduceIte, Option.some.injEq] at h1
      subst h1
      exact specDec_mono_le S (by omega) h2
    | cons x xs =>
      simp only [List.isEmpty_cons, Bool.false_eq_true, ↓reduceIte] at h1
      have e : f1 + 1 + f2 = (f1 + f2) + 1 := by omega
      rw [e, specDec_succ]
      simp only [List.cons_append, List.isEmpty_cons, Bool.false_eq_true, ↓reduceIte]
      cases hp : parse1 (x :: xs) with
      | none => rw [hp] at h1; cases h1
      | some p =>
        obtain ⟨rc, rest⟩ := p
        rw [hp] at h1
        have hp' := parse1_append b hp
        simp only [List.cons_append] at hp'
        rw [hp']
        simp only at h1 ⊢
        obtain ⟨c, hc, hx⟩ := Option.bind_eq_some_iff.mp h1
        rw [upd_mono_le S (Nat.le_add_right f1 f2) hc]
        exact ih f2 rest c mid hx h2

/-- fuel-free decoding relation -/
def Decs (S : Schema) (id : Nat) (b : Bytes) (cur r : Val) : Prop := ∃ fuel, specDec S fuel id b cur = some r

/-- fuel-free `applyRec` -/
def Applies (S : Schema) (f : Field) (rc : Record) (cur r : Val) : Prop := ∃ fuel, applyRec S fuel f rc cur = some r

theorem Decs.nil (S : Schema) (id : Nat) (cur : Val) : Decs S id [] cur cur := ⟨1, by rw [specDec_succ]; rfl⟩

theorem Decs.append {S : Schema} {id : Nat} {a b : Bytes} {cur mid r : Val}
    (h1 : Decs S id a cur mid) (h2 : Decs S id b mid r) : Decs S id (a ++ b) cur r := by
  obtain ⟨f1, h1⟩ := h1
  obtain ⟨f2, h2⟩ := h2
  exact ⟨f1 + f2, specDec_append S id b r f1 f2 a cur mid h1 h2⟩

/-- one record, then the rest -/
theorem Decs.step {S : Schema} {id : Nat} {b rest : Bytes} {rc : Record} {cur c r : Val} {fuel : Nat}
    (hp : parse1 b = some (rc, rest)) (hu : upd S fuel id rc cur = some c) (h : Decs S id rest c r) :
    Decs S id b cur r := by
  obtain ⟨f2, h⟩ := h
  refine ⟨max fuel f2 + 1, ?_⟩
  rw [specDec_succ, isEmpty_false_of_ne_nil (parse1_ne_nil hp)]
  simp only [Bool.false_eq_true, ↓reduceIte, hp]
  rw [upd_mono_le S (Nat.le_max_left fuel f2) hu]
  exact specDec_mono_le S (Nat.le_max_right fuel f2) h

/-- a single record -/
theorem Decs.single {S : Schema} {id : Nat} {b : Bytes} {rc : Record} {cur c : Val} {fuel : Nat}
    (hp : parse1 b = some (rc, [])) (hu : upd S fuel id rc cur = some c) : Decs S id b cur c :=
  Decs.step hp hu (Decs.nil S id c)

theorem upd_known {S : Schema} {fuel id : Nat} {rc : Record} {cur v : Val} {i : Nat} {f : Field}
    (hf : findField (S.msg id).fields rc.num = some (i, f)) (ho : f.inOneof = false)
    (ha : applyRec S fuel f rc (Gen2.getSlot cur i) = some v) :
    upd S fuel id rc cur = some (Gen2.setSlot cur i v) := by
  unfold upd
  simp only [hf, ho, Bool.false_eq_true, ↓reduceIte, ha, Option.map_some]

theorem upd_oneof_fresh {S : Schema} {fuel id : Nat} {rc : Record} {cur v : Val} {i : Nat} {f : Field}
    (hf : findField (S.msg id).fields rc.num = some (i, f)) (ho : f.inOneof = true)
    (hs : Gen2.getSlot cur i = .none)
    (ha : applyRec S fuel { f with oneof := 0 } rc (Gen2.zeroField S { f with oneof := 0 }) = some v) :
    upd S fuel id rc cur = some (Gen2.setSlot (Gen2.clearGroup (S.msg id).fields f.oneof i cur) i (.some v)) := by
  unfold upd
  simp only [hf, ho, ↓reduceIte, hs, ha, Option.map_some]

theorem upd_unknown {S : Schema} {fuel id : Nat} {rc : Record} {slots : List Val} {u : Bytes}
    (hf : findField (S.msg id).fields rc.num = none) (hc : (S.msg id).capture = true) :
    upd S fuel id rc (.msg slots u) = some (.msg slots (u ++ tag rc.num rc.wire ++ rc.raw)) := by
  unfold upd
  simp only [hf, hc, ↓reduceIte]


/-! ### field lookup, slots -/

theorem findField_aux (fs : List Field) (k : Nat) (num : Nat) :
    ((fs.zipIdx k).find? fun p => p.1.num == num) =
      ((fs.zipIdx 0).find? fun p => p.1.num == num).map fun p => (p.1, p.2 + k) := by
  induction fs generalizing k with
  | nil => rfl
  | cons g gs ih =>
    simp only [List.zipIdx_cons, List.find?_cons]
    cases hg : g.num == num with
    | true => simp
    | false =>
      simp only [Nat.zero_add]
      rw [ih (k + 1), ih 1]
      cases (List.find? (fun p => p.1.num == num) (gs.zipIdx 0)) with
      | none => rfl
      | some p => simp; omega

theorem findField_cons (g : Field) (gs : List Field) (num : Nat) :
    findField (g :: gs) num =
      if g.num == num then some (0, g) else (findField gs num).map fun p => (p.1 + 1, p.2) := by
  unfold findField
  simp only [List.zipIdx_cons, List.find?_cons]
  cases hg : g.num == num with
  | true => simp
  | false =>
    simp only [Nat.zero_add, Bool.false_eq_true, ↓reduceIte]
    rw [findField_aux gs 1]
    cases (List.find? (fun p => p.1.num == num) (gs.zipIdx 0)) with
    | none => rfl
    | some p => rfl

theorem findField_of_nodup (fs : List Field) (hnd : (fs.map (·.num)).Nodup) (i : Nat) (f : Field)
    (hf : fs[i]? = some f) : findField fs f.num = some (i, f) := by
  induction fs generalizing i with
  | nil => simp at hf
  | cons g gs ih =>
    simp only [List.map_cons, List.nodup_cons] at hnd
    rw [findField_cons]
    cases i with
    | zero =>
      simp at hf; subst hf; simp
    | succ j =>
      simp at hf
      have hne : g.num ≠ f.num := by
        intro h; apply hnd.1; rw [h]
        exact List.mem_map.mpr ⟨f, List.mem_of_getElem? hf, rfl⟩
      have := ih hnd.2 j hf
      simp [hne, this]

theorem findField_none (fs : List Field) (num : Nat) (h : (fs.any fun f => f.num == num) = false) :
    findField fs num = none := by
  induction fs with
  | nil => rfl
  | cons g gs ih =>
    simp only [List.any_cons, Bool.or_eq_false_iff] at h
    rw [findField_cons, h.1, ih h.2]; rfl

theorem getSlot_msg (cs : List Val) (u : Bytes) (i : Nat) : Gen2.getSlot (.msg cs u) i = cs.getD i .none := rfl
theorem setSlot_msg (cs : List Val) (u : Bytes) (i : Nat) (v : Val) :
    Gen2.setSlot (.msg cs u) i v = .msg (cs.set i v) u := rfl

theorem getSlot_of_getElem? {cs : List Val} {u : Bytes} {i : Nat} {v : Val} (h : cs[i]? = some v) :
    Gen2.getSlot (.msg cs u) i = v := by
  simp [Gen2.getSlot, List.getD, h]

theorem set_self {α} (l : List α) (i : Nat) (a : α) (h : l[i]? = some a) : l.set i a = l := by
  induction l generalizing i with
  | nil => simp
  | cons x xs ih =>
    cases i with
    | zero => simp at h; subst h; simp
    | succ j => simp at h; simp [ih j h]

/-- selecting a oneof member when every other member of the group is unset changes nothing -/
theorem clearGroup_id (fs : List Field) (group keep : Nat) (cs : List Val) (u : Bytes)
    (hlen : cs.length = fs.length)
    (h : ∀ j g, j ≠ keep → fs[j]? = some g → g.oneof = group → cs[j]? = some .none) :
    Gen2.clearGroup fs group keep (.msg cs u) = .msg cs u := by
  unfold Gen2.clearGroup
  simp only [Val.msg.injEq, and_true]
  apply List.ext_getElem?
  intro j
  simp only [List.getElem?_map]
  by_cases hj : j < cs.length
  · have hj' : j < fs.length := by omega
    rw [List.getElem?_eq_getElem hj]
    have e : ((cs.zipIdx).zip fs)[j]? = some ((cs[j], j), fs[j]) := by
      rw [List.getElem?_zip_eq_some]
      simp [hj, hj']
    rw [e]
    simp only [Option.map_some, Option.some.injEq]
    split
    · rename_i hc
      simp only [Bool.and_eq_true, beq_iff_eq, bne_iff_ne, ne_eq] at hc
      have := h j fs[j] hc.2 (by simp [hj']) hc.1
      rw [List.getElem?_eq_getElem hj] at this
      simpa using this.symm
    · rfl
  · have : ((cs.zipIdx).zip fs)[j]? = none := by
      apply List.getElem?_eq_none
      simp; omega
    rw [this, List.getElem?_eq_none (by omega)]
    rfl


/-! ### captured bytes -/

theorem decs_records (S : Schema) (id : Nat) (hc : (S.msg id).capture = true) : ∀ (fuel : Nat) (b : Bytes)
    (rs : List Record), records fuel b = some rs →
    (rs.all fun r => !((S.msg id).fields.any fun f => f.num == r.num)) = true →
    ∀ (cs : List Val) (u0 : Bytes),
      Decs S id b (.msg cs u0) (.msg cs (u0 ++ (rs.map fun r => tag r.num r.wire ++ r.raw).flatten)) := by
  intro fuel
  induction fuel with
  | zero => intro b rs h; simp [records] at h
  | succ fuel ih =>
    intro b rs h hall cs u0
    rw [records] at h
    cases b with
    | nil =>
      simp only [List.isEmpty_nil, ↓reduceIte, Option.some.injEq] at h
      subst h
      simpa using Decs.nil S id (.msg cs u0)
    | cons x xs =>
      simp only [List.isEmpty_cons, Bool.false_eq_true, ↓reduceIte] at h
      cases hp : parse1 (x :: xs) with
      | none => rw [hp] at h; cases h
      | some p =>
        obtain ⟨rc, rest⟩ := p
        rw [hp] at h
        simp only at h
        obtain ⟨rs', hrs', rfl⟩ := Option.map_eq_some_iff.mp h
        simp only [List.all_cons, Bool.and_eq_true, Bool.not_eq_true'] at hall
        have hu := upd_unknown (fuel := 0) (slots := cs) (u := u0) (findField_none _ _ hall.1) hc
        have := ih rest rs' hrs' hall.2 cs (u0 ++ tag rc.num rc.wire ++ rc.raw)
        simp only [List.map_cons, List.flatten_cons]
        simp only [List.append_assoc] at this ⊢
        exact Decs.step hp (by simpa using hu) this

theorem decs_unrec (S : Schema) (id : Nat) (hc : (S.msg id).capture = true) (u : Bytes)
    (hu : unrecOk (S.msg id).fields u = true) (cs : List Val) (u0 : Bytes) :
    Decs S id u (.msg cs u0) (.msg cs (u0 ++ u)) := by
  unfold unrecOk at hu
  split at hu
  · rename_i rs hrs
    simp only [Bool.and_eq_true, beq_iff_eq] at hu
    have := decs_records S id hc _ _ _ hrs hu.1 cs u0
    rw [hu.2] at this
    exact this
  · cases hu

end Pico.SpecRt
