import PicoProofs.DecSafe
/-!
Frame monotonicity of the decoder machine, in partial-correctness style: whenever an operation
returns `.ok (d', _)`, then `d'` has the same stack as the entry state `d`, a set `init` flag stays
set (`d.init = true → d'.init = true`; equality would be false: `Dec.loop` sets the flag on a fresh
decoder), and a latched error stays latched (`d.err ≠ none → d'.err ≠ none`: no operation ever clears
`Decoder.err`). No fuel or totality reasoning is needed here (totality is `PicoProofs/DecSafe.lean`).
-/
namespace Pico.Dec
open Pico.Wire

structure Mono (d d' : Dec) : Prop where
  init : d.init = true → d'.init = true
  stack : d'.stack = d.stack
  err : d.err ≠ none → d'.err ≠ none

theorem Mono.refl (d : Dec) : Mono d d := ⟨id, rfl, id⟩

theorem Mono.trans {a b c : Dec} (h1 : Mono a b) (h2 : Mono b c) : Mono a c :=
  ⟨fun h => h2.init (h1.init h), h2.stack.trans h1.stack, fun h => h2.err (h1.err h)⟩

/-- every successful outcome of `r` is `Mono`-related to `d` -/
def MonoR {α : Type} (d : Dec) (r : Res (Dec × α)) : Prop := ∀ d' a, r = .ok (d', a) → Mono d d'

def MonoFn {σ : Type} (fn : DecM σ) : Prop := ∀ d s, MonoR d (fn d s)

/-! ### combinators -/

theorem MonoR.ok {α} {d d' : Dec} (a : α) (h : Mono d d') : MonoR d (.ok (d', a)) := by
  intro d2 a2 e; cases e; exact h

theorem MonoR.step {α} {d d1 : Dec} {r : Res (Dec × α)} (h : Mono d d1) (hr : MonoR d1 r) :
    MonoR d r := fun d' a e => h.trans (hr d' a e)

theorem MonoR.bind {α β} {d : Dec} {r : Res (Dec × α)} {f : Dec × α → Res (Dec × β)}
    (h : MonoR d r) (hf : ∀ d1 a, r = .ok (d1, a) → MonoR d1 (f (d1, a))) : MonoR d (r >>= f) := by
  cases r with
  | ok x =>
    obtain ⟨d1, a⟩ := x
    simp only [Res.bind_ok]
    exact MonoR.step (h d1 a rfl) (hf d1 a rfl)
  | panic w => intro d' a e; simp at e
  | outOfFuel => intro d' a e; simp at e

/-- binding a computation that does not touch the decoder -/
theorem MonoR.bindRes {α β} {d : Dec} {r : Res α} {f : α → Res (Dec × β)}
    (hf : ∀ a, r = .ok a → MonoR d (f a)) : MonoR d (r >>= f) := by
  cases r with
  | ok x => simp only [Res.bind_ok]; exact hf x rfl
  | panic w => intro d' a e; simp at e
  | outOfFuel => intro d' a e; simp at e

/-- `do let (d, a) ← r; return (d, g a)` -/
theorem MonoR.bind_ret {α β} {d : Dec} {r : Res (Dec × α)} {f : Dec × α → Res (Dec × β)}
    (h : MonoR d r) (hf : ∀ d a, ∃ b, f (d, a) = .ok (d, b)) : MonoR d (r >>= f) := by
  refine MonoR.bind h ?_
  intro d1 a _
  obtain ⟨b, eb⟩ := hf d1 a
  rw [eb]
  exact MonoR.ok _ (Mono.refl _)

theorem fail_mono (d : Dec) (f : Int) (m : String) : Mono d (fail d f m) :=
  ⟨id, rfl, fun _ => by simp [fail]⟩

theorem nextFieldD_mono (d : Dec) (adv : Int) : Mono d (nextFieldD d adv) := by
  unfold nextFieldD
  split
  · exact fail_mono _ _ _
  · unfold nextFieldState
    simp only
    split
    · exact ⟨id, rfl, id⟩
    · split
      · exact ⟨id, rfl, fun _ => by simp [fail]⟩
      · exact ⟨id, rfl, id⟩

theorem nextField_mono (d : Dec) (adv : Int) (d' : Dec) (h : nextField d adv = .ok d') : Mono d d' := by
  rw [nextField_eqD] at h
  cases h
  exact nextFieldD_mono d adv

/-- `nextField` followed by a continuation -/
theorem MonoR.nextField {β} {d : Dec} (adv : Int) {f : Dec → Res (Dec × β)}
    (hf : MonoR (nextFieldD d adv) (f (nextFieldD d adv))) : MonoR d (nextField d adv >>= f) := by
  rw [nextField_eqD]
  simp only [Res.bind_ok]
  exact MonoR.step (nextFieldD_mono d adv) hf

theorem readSingle_mono (k : Scalar) (field : Int) (d : Dec) : MonoR d (readSingle k field d) := by
  unfold readSingle
  split
  · exact MonoR.ok _ (Mono.refl _)
  · split
    · exact MonoR.ok _ (fail_mono _ _ _)
    · simp only
      split
      · exact MonoR.ok _ (fail_mono _ _ _)
      · exact MonoR.nextField _ (MonoR.ok _ (Mono.refl _))

theorem readRepeatedN_mono (k : Scalar) (field : Int) :
    ∀ (fuel : Nat) (d : Dec) (acc : List Enc.SVal), MonoR d (readRepeatedN k field fuel d acc) := by
  intro fuel
  induction fuel with
  | zero => intro d acc d' a e; simp [readRepeatedN] at e
  | succ f ih =>
    intro d acc
    unfold readRepeatedN
    split
    · exact MonoR.ok _ (Mono.refl _)
    · split
      · simp only
        split
        · exact MonoR.ok _ (fail_mono _ _ _)
        · refine MonoR.bindRes ?_
          intro ⟨xs, bad⟩ _
          simp only
          split
          · exact MonoR.ok _ (fail_mono _ _ _)
          · exact MonoR.nextField _ (ih _ _)
      · split
        · simp only
          split
          · exact MonoR.ok _ (fail_mono _ _ _)
          · exact MonoR.nextField _ (ih _ _)
        · exact MonoR.ok _ (fail_mono _ _ _)

theorem readRepeated_mono (k : Scalar) (field : Int) (d : Dec) (acc : List Enc.SVal) :
    MonoR d (readRepeated k field d acc) :=
  readRepeatedN_mono k field _ d acc

theorem readRepeatedEnumN_mono (field : Int) :
    ∀ (fuel : Nat) (d : Dec) (acc : List Nat), MonoR d (readRepeatedEnumN field fuel d acc) := by
  intro fuel
  induction fuel with
  | zero => intro d acc d' a e; simp [readRepeatedEnumN] at e
  | succ f ih =>
    intro d acc
    unfold readRepeatedEnumN
    split
    · exact MonoR.ok _ (Mono.refl _)
    · split
      · simp only
        split
        · exact MonoR.ok _ (fail_mono _ _ _)
        · refine MonoR.bindRes ?_
          intro ⟨xs, bad⟩ _
          simp only
          split
          · exact MonoR.ok _ (fail_mono _ _ _)
          · exact MonoR.nextField _ (ih _ _)
      · split
        · simp only
          split
          · exact MonoR.ok _ (fail_mono _ _ _)
          · exact MonoR.nextField _ (ih _ _)
        · exact MonoR.ok _ (fail_mono _ _ _)

theorem readRepeatedEnum_mono (field : Int) (d : Dec) (acc : List Nat) :
    MonoR d (readRepeatedEnum field d acc) :=
  readRepeatedEnumN_mono field _ d acc

theorem unrecognizedFieldsN_mono (exclude : Nat) :
    ∀ (fuel : Nat) (d : Dec) (out : Bytes), MonoR d (unrecognizedFieldsN exclude fuel d out) := by
  intro fuel
  induction fuel with
  | zero => intro d out d' a e; simp [unrecognizedFieldsN] at e
  | succ f ih =>
    intro d out
    unfold unrecognizedFieldsN
    simp only
    split
    · split
      · exact MonoR.ok _ (fail_mono _ _ _)
      · refine MonoR.bindRes ?_
        intro raw _
        exact MonoR.nextField _ (ih _ _)
    · exact MonoR.ok _ (Mono.refl _)

theorem unrecognizedFields_mono (exclude : Nat) (d : Dec) (out : Bytes) :
    MonoR d (unrecognizedFields exclude d out) :=
  unrecognizedFieldsN_mono exclude _ d out

theorem loopN_mono {σ} (fn : DecM σ) (hfn : MonoFn fn) :
    ∀ (fuel : Nat) (d : Dec) (s : σ), MonoR d (loopN fn fuel d s) := by
  intro fuel
  induction fuel with
  | zero => intro d s d' a e; simp [loopN] at e
  | succ f ih =>
    intro d s
    unfold loopN
    refine MonoR.bind (hfn d s) ?_
    intro d1 s1 _
    simp only
    split
    · exact MonoR.ok _ (Mono.refl _)
    · split
      · exact MonoR.nextField _ (ih _ _)
      · exact ih _ _

theorem loop_mono {σ} (fn : DecM σ) (hfn : MonoFn fn) : MonoFn (loop fn) := by
  intro d s
  unfold loop
  split
  · rw [nextField_eqD]
    simp only [Res.bind_ok, Res.pure_eq]
    refine MonoR.step (d1 := { nextFieldD d 0 with init := true }) ?_ (loopN_mono fn hfn _ _ _)
    have h := nextFieldD_mono d 0
    exact ⟨fun _ => rfl, h.stack, h.err⟩
  · simp only [Res.pure_eq, Res.bind_ok]
    exact loopN_mono fn hfn _ _ _

theorem nextFieldD_init (d : Dec) (adv : Int) : (nextFieldD d adv).init = d.init := by
  unfold nextFieldD
  split
  · rfl
  · unfold nextFieldState
    simp only
    split
    · rfl
    · split <;> rfl

/-- `pushState` puts the current frame on the stack; everything else is as for `nextField` -/
theorem pushState_facts (d : Dec) (msg : Bytes) (d1 : Dec) (h : pushState d msg = .ok d1) :
    d1.init = d.init ∧ d1.stack = d.stack ++ [d.cur] ∧ (d.err ≠ none → d1.err ≠ none) := by
  unfold pushState at h
  rw [nextField_eqD] at h
  cases h
  exact ⟨nextFieldD_init _ _, (nextFieldD_mono _ _).stack, fun h => (nextFieldD_mono _ _).err h⟩

/-- the frame part shared by `Message` and `RepeatedMessage`: push, callback, pop, advance, then a
continuation `K` -/
theorem nested_mono {σ β} (fn : DecM σ) (hfn : MonoFn fn) (d : Dec) (s : σ) (msg : Bytes) (adv : Int)
    (K : Dec → σ → Res (Dec × β)) (hK : ∀ d4 s4, MonoR d4 (K d4 s4)) :
    MonoR d (do
        let d1 ← pushState d msg
        let (d2, s) ← fn d1 s
        let d3 := popState d2
        let d4 ← nextField d3 adv
        K d4 s : Res (Dec × β)) := by
  cases hp : pushState d msg with
  | panic w => intro d' a e; simp at e
  | outOfFuel => intro d' a e; simp at e
  | ok d1 =>
    simp only [Res.bind_ok]
    obtain ⟨hi, hs, he⟩ := pushState_facts d msg d1 hp
    cases hf : fn d1 s with
    | panic w => intro d' a e; simp at e
    | outOfFuel => intro d' a e; simp at e
    | ok x =>
      obtain ⟨d2, s2⟩ := x
      simp only [Res.bind_ok]
      have hm := hfn d1 s d2 s2 hf
      rw [popState_eq d2 d.stack d.cur (by rw [hm.stack, hs])]
      refine MonoR.step (d1 := { d2 with cur := d.cur, stack := d.stack })
        ⟨fun h => hm.init (hi.trans h), rfl, fun h => hm.err (he h)⟩ ?_
      exact MonoR.nextField _ (hK _ _)

theorem message_mono {σ} (field : Int) (fn : DecM σ) (hfn : MonoFn fn) : MonoFn (message field fn) := by
  intro d s
  unfold message
  split
  · exact MonoR.ok _ (Mono.refl _)
  · split
    · exact MonoR.ok _ (fail_mono _ _ _)
    · simp only
      split
      · exact MonoR.ok _ (fail_mono _ _ _)
      · exact nested_mono (loop fn) (loop_mono fn hfn) d s _ _ (fun d s => pure (d, s))
          fun d4 s4 => MonoR.ok _ (Mono.refl _)

theorem repeatedMessageN_mono {σ} (field : Int) (fn : DecM σ) (hfn : MonoFn fn) :
    ∀ (fuel : Nat) (d : Dec) (s : σ), MonoR d (repeatedMessageN field fn fuel d s) := by
  intro fuel
  induction fuel with
  | zero => intro d s d' a e; simp [repeatedMessageN] at e
  | succ f ih =>
    intro d s
    unfold repeatedMessageN
    split
    · exact MonoR.ok _ (Mono.refl _)
    · split
      · exact MonoR.ok _ (fail_mono _ _ _)
      · simp only
        split
        · exact MonoR.ok _ (fail_mono _ _ _)
        · exact nested_mono fn hfn d s _ _ (repeatedMessageN field fn f) ih

theorem repeatedMessage_mono {σ} (field : Int) (fn : DecM σ) (hfn : MonoFn fn) :
    MonoFn (repeatedMessage field fn) :=
  fun d s => repeatedMessageN_mono field fn hfn _ d s

end Pico.Dec

namespace Pico.Gen2
open Pico.Wire Pico.Dec

theorem secNanosPass_mono : MonoFn secNanosPass := by
  intro d s
  unfold secNanosPass
  refine MonoR.bind (readSingle_mono _ _ d) ?_
  intro d1 a _
  simp only
  refine MonoR.bind (readSingle_mono _ _ d1) ?_
  intro d2 b _
  exact MonoR.ok _ (Mono.refl _)

theorem tsDecode_mono (field : Int) (d : Dec) : MonoR d (tsDecode field d) := by
  unfold tsDecode
  split
  · exact MonoR.ok _ (Mono.refl _)
  · exact MonoR.bind_ret (message_mono field _ secNanosPass_mono d (0, 0)) fun _ _ => ⟨_, rfl⟩

theorem durDecode_mono (field : Int) (d : Dec) : MonoR d (durDecode field d) := by
  unfold durDecode
  split
  · exact MonoR.ok _ (Mono.refl _)
  · exact MonoR.bind_ret (message_mono field _ secNanosPass_mono d (0, 0)) fun _ _ => ⟨_, rfl⟩

theorem castLoop_mono (one : Dec → Res (Dec × Option Nat)) (ptr : Bool) (zeroC : Nat)
    (hone : ∀ d, MonoR d (one d)) :
    ∀ (fuel : Nat) (num : Int) (d : Dec) (xs : List Val), MonoR d (castLoop one ptr zeroC fuel num d xs) := by
  intro fuel
  induction fuel with
  | zero => intro num d xs d' a e; simp [castLoop] at e
  | succ f ih =>
    intro num d xs
    unfold castLoop
    split
    · exact MonoR.ok _ (Mono.refl _)
    · refine MonoR.bind (hone d) ?_
      intro d1 a _
      simp only
      exact ih _ _ _

theorem mapEntry_mono (k v : Scalar) : MonoFn (mapEntry k v) := by
  intro d m
  unfold mapEntry
  simp only
  refine MonoR.bind_ret (loop_mono _ ?_ d _) fun _ _ => ⟨_, rfl⟩
  intro d kv
  refine MonoR.bind (readSingle_mono _ _ d) ?_
  intro d1 a _
  simp only
  refine MonoR.bind (readSingle_mono _ _ d1) ?_
  intro d2 b _
  exact MonoR.ok _ (Mono.refl _)

theorem mapDecode_mono (k v : Scalar) (field : Int) : MonoFn (mapDecode k v field) :=
  repeatedMessage_mono field _ (mapEntry_mono k v)

theorem decInner_mono (S : Schema) (fuel : Nat) (ih : ∀ id, MonoFn (decPass S fuel id)) (f : Field) :
    MonoFn (decInner S fuel f) := by
  intro d cur
  unfold decInner
  simp only
  split
  · -- scalar
    split
    · exact MonoR.bind_ret (readRepeated_mono _ _ d _) fun _ _ => ⟨_, rfl⟩
    · split
      · split
        · exact MonoR.ok _ (Mono.refl _)
        · exact MonoR.bind_ret (readSingle_mono _ _ d) fun _ _ => ⟨_, rfl⟩
      · exact MonoR.bind_ret (readSingle_mono _ _ d) fun _ _ => ⟨_, rfl⟩
  · -- enum
    split
    · exact MonoR.bind_ret (readRepeatedEnum_mono _ d _) fun _ _ => ⟨_, rfl⟩
    · exact MonoR.bind_ret (readSingle_mono _ _ d) fun _ _ => ⟨_, rfl⟩
  · -- map
    exact MonoR.bind_ret (mapDecode_mono _ _ _ d _) fun _ _ => ⟨_, rfl⟩
  · -- message
    rename_i id _
    have hone : ∀ d : Dec, MonoR d (if (f.cat == 1) = true then tsDecode (f.num : Int) d
        else durDecode (f.num : Int) d) := by
      intro d
      split
      · exact tsDecode_mono _ d
      · exact durDecode_mono _ d
    split
    · -- casts
      split
      · exact castLoop_mono _ _ _ hone _ _ d _
      · split
        · split
          · exact MonoR.ok _ (Mono.refl _)
          · exact MonoR.bind_ret (hone d) fun _ _ => ⟨_, rfl⟩
        · exact MonoR.bind_ret (hone d) fun _ _ => ⟨_, rfl⟩
    · split
      · -- repeated message
        refine MonoR.bind_ret (repeatedMessage_mono _ _ ?_ d _) fun _ _ => ⟨_, rfl⟩
        intro d1 xs
        exact MonoR.bind_ret (loop_mono _ (ih id) d1 _) fun _ _ => ⟨_, rfl⟩
      · split
        · -- pointer message
          refine message_mono _ _ ?_ d cur
          intro d1 c1
          exact MonoR.bind_ret (ih id d1 _) fun _ _ => ⟨_, rfl⟩
        · exact message_mono _ _ (ih id) d cur

theorem decField_mono (S : Schema) (fuel : Nat) (ih : ∀ id, MonoFn (decPass S fuel id))
    (fs : List Field) (i : Nat) (f : Field) : MonoFn (decField S fuel fs i f) := by
  intro d m
  unfold decField
  simp only
  split
  · split
    · exact MonoR.ok _ (Mono.refl _)
    · exact MonoR.bind_ret (decInner_mono S fuel ih _ d _) fun _ _ => ⟨_, rfl⟩
  · exact MonoR.bind_ret (decInner_mono S fuel ih f d _) fun _ _ => ⟨_, rfl⟩

theorem decFields_mono (S : Schema) (fuel : Nat) (ih : ∀ id, MonoFn (decPass S fuel id))
    (fs : List Field) : ∀ rest : List (Nat × Field), MonoFn (decFields S fuel fs rest) := by
  intro rest
  induction rest with
  | nil => intro d m; unfold decFields; exact MonoR.ok _ (Mono.refl _)
  | cons p rest ihr =>
    intro d m
    obtain ⟨i, fld⟩ := p
    unfold decFields
    refine MonoR.bind (decField_mono S fuel ih fs i fld d m) ?_
    intro d1 m1 _
    exact ihr d1 m1

/-- the generated `Decode`, at every nesting fuel -/
theorem decPass_mono (S : Schema) : ∀ (fuel id : Nat), MonoFn (decPass S fuel id) := by
  intro fuel
  induction fuel with
  | zero => intro id d m d' a e; simp [decPass] at e
  | succ f ih =>
    intro id d m
    unfold decPass
    refine MonoR.bind (decFields_mono S f ih _ _ d m) ?_
    intro d1 m1 _
    simp only
    split
    · split
      · exact MonoR.bind_ret (unrecognizedFields_mono _ d1 _) fun _ _ => ⟨_, rfl⟩
      · exact MonoR.ok _ (Mono.refl _)
    · exact MonoR.ok _ (Mono.refl _)

end Pico.Gen2

#print axioms Pico.Gen2.decPass_mono
#print axioms Pico.Dec.loop_mono
