import PicoProofs.SpecLaws
import PicoProofs.SpecRtCore
/-
Order independence of the specification decoder (C02: "fields in any order", C10: unknown fields
anywhere): two records commute when they belong to different known fields that are not members of
one oneof, when one of them is unknown, or when both are unknown and the message does not capture
them. Hence any rearrangement of a record sequence by exchanges of such neighbours — every
permutation that keeps the relative order of the occurrences of each field, of the members of each
oneof and of captured unknown fields — decodes to the same message, or is rejected alike.
-/
namespace Pico.Spec.Perm
open Pico Pico.Spec Pico.Gen2

/-- a message value with one slot per field -/
def Wide (S : Schema) (id : Nat) (m : Val) : Prop :=
  ∃ slots u, m = .msg slots u ∧ slots.length = (S.msg id).fields.length

theorem getSlot_setSlot_ne (m : Val) (i j : Nat) (v : Val) (h : i ≠ j) :
    getSlot (setSlot m i v) j = getSlot m j := by
  cases m <;> simp [getSlot, setSlot, List.getD, List.getElem?_set_ne h]

theorem setSlot_comm (m : Val) (i j : Nat) (v w : Val) (h : i ≠ j) :
    setSlot (setSlot m i v) j w = setSlot (setSlot m j w) i v := by
  cases m <;> simp [setSlot, List.set_comm _ _ h]

theorem wide_setSlot {S : Schema} {id : Nat} {m : Val} (h : Wide S id m) (i : Nat) (v : Val) :
    Wide S id (setSlot m i v) := by
  obtain ⟨slots, u, rfl, hl⟩ := h
  exact ⟨slots.set i v, u, rfl, by simp [hl]⟩

/-- the slot list `clearGroup` produces -/
def cleared (fs : List Field) (g keep : Nat) (slots : List Val) : List Val :=
  (slots.zipIdx.zip fs).map fun (p : (Val × Nat) × Field) =>
    if p.2.oneof == g && p.1.2 != keep then Val.none else p.1.1

theorem clearGroup_msg (fs : List Field) (g keep : Nat) (slots : List Val) (u : Bytes) :
    clearGroup fs g keep (.msg slots u) = .msg (cleared fs g keep slots) u := rfl

theorem cleared_getElem? (fs : List Field) (g keep : Nat) (slots : List Val) (j : Nat) :
    (cleared fs g keep slots)[j]? =
      match slots[j]?, fs[j]? with
      | some v, some f => some (if f.oneof == g && j != keep then Val.none else v)
      | _, _ => none := by
  unfold cleared
  rw [List.getElem?_map, List.zip_eq_zipWith, List.getElem?_zipWith, List.getElem?_zipIdx]
  cases slots[j]? <;> cases fs[j]? <;> simp

theorem cleared_length (fs : List Field) (g keep : Nat) (slots : List Val) (h : slots.length = fs.length) :
    (cleared fs g keep slots).length = slots.length := by
  simp [cleared, h]

theorem wide_clearGroup {S : Schema} {id : Nat} {m : Val} (h : Wide S id m) (g keep : Nat) :
    Wide S id (clearGroup (S.msg id).fields g keep m) := by
  obtain ⟨slots, u, rfl, hl⟩ := h
  exact ⟨_, u, clearGroup_msg _ _ _ _ _, by rw [cleared_length _ _ _ _ hl, hl]⟩


/-! ### list-level lemmas -/

theorem getD_eq (l : List Val) (j : Nat) : l.getD j Val.none = (l[j]?).getD Val.none := by
  simp [List.getD]

/-- clearing group `g` leaves the slot of a field outside `g` (or the kept one) alone -/
theorem cleared_getD (fs : List Field) (g keep : Nat) (slots : List Val) (j : Nat)
    (hl : slots.length = fs.length) (hj : ∀ f, fs[j]? = some f → (f.oneof == g && j != keep) = false) :
    (cleared fs g keep slots).getD j Val.none = slots.getD j Val.none := by
  rw [getD_eq, getD_eq, cleared_getElem?]
  by_cases hlt : j < slots.length
  · have hf : j < fs.length := by omega
    have hs : slots[j]? = some slots[j] := by simp [hlt]
    have hff : fs[j]? = some fs[j] := by simp [hf]
    rw [hs, hff]
    simp [hj fs[j] hff]
  · have hs : slots[j]? = none := by simp; omega
    rw [hs]

/-- … and commutes with an assignment to such a slot -/
theorem cleared_set (fs : List Field) (g keep : Nat) (slots : List Val) (i : Nat) (a : Val)
    (hi : ∀ f, fs[i]? = some f → (f.oneof == g && i != keep) = false) :
    cleared fs g keep (slots.set i a) = (cleared fs g keep slots).set i a := by
  apply List.ext_getElem?
  intro k
  rw [cleared_getElem?]
  by_cases hk : i = k
  · subst hk
    by_cases hlt : i < slots.length
    · rw [List.getElem?_set_self (by simpa using hlt)]
      have hc : i < (cleared fs g keep slots).length ∨ ¬ i < (cleared fs g keep slots).length := Classical.em _
      cases hff : fs[i]? with
      | none =>
        have : (cleared fs g keep slots)[i]? = none := by rw [cleared_getElem?, hff]; cases slots[i]? <;> rfl
        rw [List.getElem?_set]
        simp [this]
        exact List.getElem?_eq_none_iff.mp this
      | some f =>
        have hcl : i < (cleared fs g keep slots).length := by
          have : (cleared fs g keep slots)[i]? ≠ none := by
            rw [cleared_getElem?, hff]; simp [hlt]
          simpa [List.getElem?_eq_none_iff] using this
        rw [List.getElem?_set_self hcl]
        simp [hi f hff]
    · have h1 : (slots.set i a)[i]? = none := by simp; omega
      have h2 : (cleared fs g keep slots)[i]? = none := by
        rw [cleared_getElem?]; have : slots[i]? = none := by simp; omega
        rw [this]
      rw [h1]
      rw [List.getElem?_set]
      simp [h2]
      exact List.getElem?_eq_none_iff.mp h2
  · rw [List.getElem?_set_ne hk, List.getElem?_set_ne hk, cleared_getElem?]

/-- clearing two different groups commutes -/
theorem cleared_comm (fs : List Field) (g1 k1 g2 k2 : Nat) (slots : List Val) :
    cleared fs g1 k1 (cleared fs g2 k2 slots) = cleared fs g2 k2 (cleared fs g1 k1 slots) := by
  apply List.ext_getElem?
  intro k
  rw [cleared_getElem?, cleared_getElem?, cleared_getElem?, cleared_getElem?]
  cases slots[k]? with
  | none => cases fs[k]? <;> rfl
  | some v =>
    cases fs[k]? with
    | none => rfl
    | some f =>
      simp only []
      by_cases h1 : (f.oneof == g1 && k != k1) <;> by_cases h2 : (f.oneof == g2 && k != k2) <;> simp [h1, h2]


/-! ### one record on a wide message, in a uniform shape -/

def fieldOf (f : Field) : Field := if f.inOneof then { f with oneof := 0 } else f
def wrapV (f : Field) (v : Val) : Val := if f.inOneof then .some v else v

/-- the value the field function is applied to, and whether the oneof group has to be cleared first -/
def target (S : Schema) (f : Field) (cur : Val) : Val × Bool :=
  if f.inOneof then
    (match cur with
     | .some x => (x, false)
     | _ => (zeroField S { f with oneof := 0 }, true))
  else (cur, false)

def baseSlots (fs : List Field) (f : Field) (i : Nat) (clear : Bool) (slots : List Val) : List Val :=
  if clear then cleared fs f.oneof i slots else slots

theorem step_known (S : Schema) (ap : Field → Record → Val → Option Val) (id : Nat) (r : Record)
    (slots : List Val) (u : Bytes) (i : Nat) (f : Field)
    (hff : findField (S.msg id).fields r.num = some (i, f)) :
    step S ap id r (.msg slots u) =
      (ap (fieldOf f) r (target S f (slots.getD i Val.none)).1).map fun v =>
        Val.msg ((baseSlots (S.msg id).fields f i (target S f (slots.getD i Val.none)).2 slots).set i (wrapV f v)) u := by
  unfold step
  rw [hff]
  simp only [getSlot]
  by_cases ho : f.inOneof = true
  · simp only [ho, if_true, fieldOf, wrapV, target]
    cases hc : slots.getD i Val.none with
    | some x => simp [baseSlots, setSlot]
    | num n => simp [baseSlots, setSlot, clearGroup_msg]
    | bytes b => simp [baseSlots, setSlot, clearGroup_msg]
    | msg a b => simp [baseSlots, setSlot, clearGroup_msg]
    | list l => simp [baseSlots, setSlot, clearGroup_msg]
    | map es => simp [baseSlots, setSlot, clearGroup_msg]
    | none => simp [baseSlots, setSlot, clearGroup_msg]
  · simp only [Bool.not_eq_true] at ho
    simp [ho, fieldOf, wrapV, target, baseSlots, setSlot]


theorem findField_getElem? : ∀ (fs : List Field) (num i : Nat) (f : Field),
    findField fs num = some (i, f) → fs[i]? = some f
  | [], num, i, f, h => by simp [findField] at h
  | g :: gs, num, i, f, h => by
    rw [Pico.SpecRt.findField_cons] at h
    by_cases hg : (g.num == num) = true
    · simp only [hg, if_true, Option.some.injEq, Prod.mk.injEq] at h
      obtain ⟨rfl, rfl⟩ := h
      rfl
    · simp only [hg, if_false] at h
      cases hgs : findField gs num with
      | none => rw [hgs] at h; cases h
      | some p =>
        rw [hgs] at h
        simp only [Option.map_some, Option.some.injEq, Prod.mk.injEq] at h
        obtain ⟨rfl, rfl⟩ := h
        have := findField_getElem? gs num p.1 p.2 (by rw [hgs])
        simpa using this

/-- two known fields in different slots that are not members of one oneof -/
def IndepK (i j : Nat) (f g : Field) : Prop := i ≠ j ∧ (f.oneof = 0 ∨ g.oneof = 0 ∨ f.oneof ≠ g.oneof)

theorem notCleared {i j : Nat} {f g : Field} (h : IndepK i j f g) (c : Bool)
    (hc : c = true → f.inOneof = true) : c = true → (g.oneof == f.oneof && j != i) = false := by
  intro hct
  have hf := hc hct
  simp only [Field.inOneof, bne_iff_ne, ne_eq] at hf
  rcases h.2 with h0 | h0 | h0
  · exact absurd h0 hf
  · simp [h0]; intro e; exact absurd e.symm hf
  · simp; intro e; exact absurd e.symm h0

theorem target_clear_oneof (S : Schema) (f : Field) (cur : Val) : (target S f cur).2 = true → f.inOneof = true := by
  unfold target
  by_cases h : f.inOneof = true
  · intro _; exact h
  · simp [h]

theorem baseSlots_getD (fs : List Field) (f g : Field) (i j : Nat) (c : Bool) (slots : List Val)
    (hl : slots.length = fs.length) (hg : fs[j]? = some g)
    (hnc : c = true → (g.oneof == f.oneof && j != i) = false) :
    (baseSlots fs f i c slots).getD j Val.none = slots.getD j Val.none := by
  unfold baseSlots
  cases c with
  | false => rfl
  | true =>
    simp only [if_true]
    exact cleared_getD fs f.oneof i slots j hl (fun f' hf' => by rw [hg] at hf'; cases hf'; exact hnc rfl)

theorem baseSlots_length (fs : List Field) (f : Field) (i : Nat) (c : Bool) (slots : List Val)
    (hl : slots.length = fs.length) : (baseSlots fs f i c slots).length = slots.length := by
  unfold baseSlots; cases c <;> simp [cleared_length _ _ _ _ hl]

theorem baseSlots_set (fs : List Field) (f g : Field) (i j : Nat) (c : Bool) (slots : List Val) (a : Val)
    (hg : fs[j]? = some g) (hnc : c = true → (g.oneof == f.oneof && j != i) = false) :
    baseSlots fs f i c (slots.set j a) = (baseSlots fs f i c slots).set j a := by
  unfold baseSlots
  cases c with
  | false => rfl
  | true =>
    simp only [if_true]
    exact cleared_set fs f.oneof i slots j a (fun f' hf' => by rw [hg] at hf'; cases hf'; exact hnc rfl)

theorem baseSlots_comm (fs : List Field) (f g : Field) (i j : Nat) (c d : Bool) (slots : List Val) :
    baseSlots fs f i c (baseSlots fs g j d slots) = baseSlots fs g j d (baseSlots fs f i c slots) := by
  unfold baseSlots
  cases c <;> cases d <;> simp [cleared_comm]


theorem IndepK.symm {i j : Nat} {f g : Field} (h : IndepK i j f g) : IndepK j i g f :=
  ⟨fun e => h.1 e.symm, by rcases h.2 with h0 | h0 | h0; exact Or.inr (Or.inl h0); exact Or.inl h0; exact Or.inr (Or.inr (fun e => h0 e.symm))⟩

/-- two records of independent known fields commute -/
theorem step_comm_known (S : Schema) (ap : Field → Record → Val → Option Val) (id : Nat) (r1 r2 : Record)
    (slots : List Val) (u : Bytes) (i j : Nat) (f g : Field)
    (hl : slots.length = (S.msg id).fields.length)
    (h1 : findField (S.msg id).fields r1.num = some (i, f))
    (h2 : findField (S.msg id).fields r2.num = some (j, g))
    (hind : IndepK i j f g) :
    (step S ap id r1 (.msg slots u)).bind (step S ap id r2)
      = (step S ap id r2 (.msg slots u)).bind (step S ap id r1) := by
  have hfi := findField_getElem? _ _ _ _ h1
  have hgj := findField_getElem? _ _ _ _ h2
  rw [step_known S ap id r1 slots u i f h1, step_known S ap id r2 slots u j g h2]
  -- abbreviations
  generalize hta : target S f (slots.getD i Val.none) = ta
  generalize htb : target S g (slots.getD j Val.none) = tb
  have hca : ta.2 = true → f.inOneof = true := by rw [← hta]; exact target_clear_oneof S f _
  have hcb : tb.2 = true → g.inOneof = true := by rw [← htb]; exact target_clear_oneof S g _
  have ncab := notCleared hind ta.2 hca          -- A's clearing spares slot j
  have ncba := notCleared hind.symm tb.2 hcb     -- B's clearing spares slot i
  cases hoa : ap (fieldOf f) r1 ta.1 with
  | none =>
    simp only [Option.map_none, Option.bind_none]
    cases hob : ap (fieldOf g) r2 tb.1 with
    | none => rfl
    | some vb =>
      simp only [Option.map_some, Option.bind_some]
      rw [step_known S ap id r1 _ u i f h1]
      have hrd : ((baseSlots (S.msg id).fields g j tb.2 slots).set j (wrapV g vb)).getD i Val.none = slots.getD i Val.none := by
        rw [getD_eq, List.getElem?_set_ne (fun e => hind.1 e.symm), ← getD_eq]
        exact baseSlots_getD _ g f j i tb.2 slots hl hfi ncba
      rw [hrd, hta, hoa]; rfl
  | some va =>
    simp only [Option.map_some, Option.bind_some]
    rw [step_known S ap id r2 _ u j g h2]
    have hrd : ((baseSlots (S.msg id).fields f i ta.2 slots).set i (wrapV f va)).getD j Val.none = slots.getD j Val.none := by
      rw [getD_eq, List.getElem?_set_ne hind.1, ← getD_eq]
      exact baseSlots_getD _ f g i j ta.2 slots hl hgj ncab
    rw [hrd, htb]
    cases hob : ap (fieldOf g) r2 tb.1 with
    | none => rfl
    | some vb =>
      simp only [Option.map_some, Option.bind_some]
      rw [step_known S ap id r1 _ u i f h1]
      have hrd2 : ((baseSlots (S.msg id).fields g j tb.2 slots).set j (wrapV g vb)).getD i Val.none = slots.getD i Val.none := by
        rw [getD_eq, List.getElem?_set_ne (fun e => hind.1 e.symm), ← getD_eq]
        exact baseSlots_getD _ g f j i tb.2 slots hl hfi ncba
      rw [hrd2, hta, hoa]
      simp only [Option.map_some]
      congr 2
      rw [baseSlots_set _ g f j i tb.2 _ _ hfi ncba, baseSlots_set _ f g i j ta.2 _ _ hgj ncab,
        baseSlots_comm, List.set_comm _ _ hind.1]


/-! ### independence of two records, commutation in general -/

/-- two records may be exchanged: different known fields that are not members of one oneof; a known
and an unknown field; two unknown fields of a message that does not capture them -/
def Indep (S : Schema) (id : Nat) (r1 r2 : Record) : Prop :=
  match findField (S.msg id).fields r1.num, findField (S.msg id).fields r2.num with
  | some (i, f), some (j, g) => IndepK i j f g
  | none, none => (S.msg id).capture = false
  | _, _ => True

theorem step_unknown (S : Schema) (ap : Field → Record → Val → Option Val) (id : Nat) (r : Record) (m : Val)
    (h : findField (S.msg id).fields r.num = none) :
    step S ap id r m = some (captureRec (S.msg id).capture r m) := by
  unfold step; rw [h]

theorem captureRec_msg (c : Bool) (r : Record) (slots : List Val) (u : Bytes) :
    captureRec c r (.msg slots u) = .msg slots (if c then u ++ Wire.tag r.num r.wire ++ r.raw else u) := by
  unfold captureRec; cases c <;> rfl

theorem step_comm (S : Schema) (ap : Field → Record → Val → Option Val) (id : Nat) (r1 r2 : Record)
    (m : Val) (hw : Wide S id m) (hind : Indep S id r1 r2) :
    (step S ap id r1 m).bind (step S ap id r2) = (step S ap id r2 m).bind (step S ap id r1) := by
  obtain ⟨slots, u, rfl, hl⟩ := hw
  unfold Indep at hind
  cases h1 : findField (S.msg id).fields r1.num with
  | none =>
    cases h2 : findField (S.msg id).fields r2.num with
    | none =>
      rw [h1, h2] at hind
      simp only [step_unknown S ap id _ _ h1, step_unknown S ap id _ _ h2, Option.bind_some, hind, captureRec]
      rfl
    | some q =>
      obtain ⟨j, g⟩ := q
      simp only [step_unknown S ap id r1 _ h1, Option.bind_some, captureRec_msg,
        step_known S ap id r2 slots _ j g h2]
      cases ap (fieldOf g) r2 (target S g (slots.getD j Val.none)).1 with
      | none => rfl
      | some v => simp only [Option.map_some, Option.bind_some, step_unknown S ap id r1 _ h1, captureRec_msg]
  | some p =>
    obtain ⟨i, f⟩ := p
    cases h2 : findField (S.msg id).fields r2.num with
    | none =>
      simp only [step_unknown S ap id r2 _ h2, Option.bind_some, captureRec_msg,
        step_known S ap id r1 slots _ i f h1]
      cases ap (fieldOf f) r1 (target S f (slots.getD i Val.none)).1 with
      | none => rfl
      | some v => simp only [Option.map_some, Option.bind_some, step_unknown S ap id r2 _ h2, captureRec_msg]
    | some q =>
      obtain ⟨j, g⟩ := q
      rw [h1, h2] at hind
      exact step_comm_known S ap id r1 r2 slots u i j f g hl h1 h2 hind

theorem step_wide (S : Schema) (ap : Field → Record → Val → Option Val) (id : Nat) (r : Record)
    (m m' : Val) (hw : Wide S id m) (h : step S ap id r m = some m') : Wide S id m' := by
  obtain ⟨slots, u, rfl, hl⟩ := hw
  cases h1 : findField (S.msg id).fields r.num with
  | none =>
    rw [step_unknown S ap id r _ h1, captureRec_msg] at h
    cases h
    exact ⟨slots, _, rfl, hl⟩
  | some p =>
    obtain ⟨i, f⟩ := p
    rw [step_known S ap id r slots u i f h1] at h
    cases ha : ap (fieldOf f) r (target S f (slots.getD i Val.none)).1 with
    | none => rw [ha] at h; cases h
    | some v =>
      rw [ha] at h
      simp only [Option.map_some, Option.some.injEq] at h
      subst h
      exact ⟨_, u, rfl, by rw [List.length_set, baseSlots_length _ _ _ _ _ hl, hl]⟩


/-! ### permutations of records -/

/-- the message-level effect of a list of records, in order -/
def foldSteps (S : Schema) (id : Nat) : List Record → Val → Option Val
  | [], m => some m
  | r :: rs, m => (stepU S id r m).bind (foldSteps S id rs)

theorem foldSteps_append (S : Schema) (id : Nat) (l1 l2 : List Record) (m : Val) :
    foldSteps S id (l1 ++ l2) m = (foldSteps S id l1 m).bind (foldSteps S id l2) := by
  induction l1 generalizing m with
  | nil => rfl
  | cons r rs ih =>
    simp only [List.cons_append, foldSteps]
    cases stepU S id r m with
    | none => rfl
    | some m' => simp [ih]

theorem foldSteps_wide (S : Schema) (id : Nat) (l : List Record) (m m' : Val) (hw : Wide S id m)
    (h : foldSteps S id l m = some m') : Wide S id m' := by
  induction l generalizing m with
  | nil => simp only [foldSteps, Option.some.injEq] at h; subst h; exact hw
  | cons r rs ih =>
    simp only [foldSteps] at h
    cases hs : stepU S id r m with
    | none => rw [hs] at h; cases h
    | some m1 => rw [hs] at h; exact ih m1 (step_wide S _ id r m m1 hw hs) h

/-- record lists that differ by exchanging adjacent independent records, any number of times -/
inductive PermI (S : Schema) (id : Nat) : List Record → List Record → Prop where
  | refl (l) : PermI S id l l
  | swap (l1 : List Record) (r1 r2 : Record) (l2 : List Record) (h : Indep S id r1 r2) :
      PermI S id (l1 ++ r1 :: r2 :: l2) (l1 ++ r2 :: r1 :: l2)
  | trans {a b c} : PermI S id a b → PermI S id b c → PermI S id a c

/-- decoding does not depend on the order of independent records -/
theorem foldSteps_perm (S : Schema) (id : Nat) {a b : List Record} (h : PermI S id a b) (m : Val)
    (hw : Wide S id m) : foldSteps S id a m = foldSteps S id b m := by
  induction h with
  | refl l => rfl
  | swap l1 r1 r2 l2 hind =>
    rw [foldSteps_append, foldSteps_append]
    cases h1 : foldSteps S id l1 m with
    | none => rfl
    | some m1 =>
      have hw1 := foldSteps_wide S id l1 m m1 hw h1
      simp only [Option.bind_some, foldSteps]
      have hc := step_comm S (applyU S) id r1 r2 m1 hw1 hind
      unfold stepU
      rw [← Option.bind_assoc, ← Option.bind_assoc, hc]
  | trans _ _ ih1 ih2 => rw [ih1, ih2]

/-- `specUnmarshal` is the fold of its records -/
theorem specUnmarshal_records (S : Schema) (id : Nat) : ∀ (n : Nat) (b : Bytes) (rs : List Record) (m : Val),
    records n b = some rs → specUnmarshal S id b m = foldSteps S id rs m := by
  intro n
  induction n with
  | zero => intro b rs m h; simp [records] at h
  | succ n ih =>
    intro b rs m h
    rw [records] at h
    by_cases hb : b.isEmpty = true
    · simp only [hb, if_true, Option.some.injEq] at h
      subst h
      have : b = [] := by cases b <;> simp_all
      subst this
      exact specUnmarshal_nil S id m
    · simp only [hb, Bool.false_eq_true, if_false] at h
      cases hp : parse1 b with
      | none => rw [hp] at h; cases h
      | some p =>
        obtain ⟨r, rest⟩ := p
        rw [hp] at h
        simp only [] at h
        cases hr : records n rest with
        | none => rw [hr] at h; cases h
        | some rs' =>
          rw [hr] at h
          simp only [Option.map_some, Option.some.injEq] at h
          subst h
          rw [specUnmarshal_cons S id m hp]
          simp only [foldSteps]
          cases stepU S id r m with
          | none => rfl
          | some m1 => exact ih rest rs' m1 hr

/-- C02: two byte strings whose records are the same up to exchanging independent records decode
to the same message (or are both rejected) -/
theorem specUnmarshal_perm (S : Schema) (id : Nat) (n n' : Nat) (b b' : Bytes) (rs rs' : List Record) (m : Val)
    (h : records n b = some rs) (h' : records n' b' = some rs') (hp : PermI S id rs rs') (hw : Wide S id m) :
    specUnmarshal S id b m = specUnmarshal S id b' m := by
  rw [specUnmarshal_records S id n b rs m h, specUnmarshal_records S id n' b' rs' m h', foldSteps_perm S id hp m hw]

theorem wide_zeroMsg (S : Schema) (id : Nat) : Wide S id (zeroMsg S id) := by
  unfold zeroMsg zeroMsgN
  exact ⟨_, [], rfl, by simp⟩

/-! ### wire-equivalent re-encodings: split sub-messages, packed vs unpacked -/

/-- C02 "a sub-message split into several occurrences": for a singular (non-repeated, non-cast)
message field, one record whose payload is `a ++ b` — `a` a complete sequence of records — has the
effect of a record with payload `a` followed by a record with payload `b` (merge semantics) -/
theorem applyU_split (S : Schema) (f : Field) (id : Nat) (hk : f.kind = .message id)
    (hcat : ¬ (f.cat == 1 ∨ f.cat == 2)) (hrep : f.repeated = false)
    (r ra rb : Record) (hw : r.wire = 2) (hwa : ra.wire = 2) (hwb : rb.wire = 2)
    (hp : r.payload = ra.payload ++ rb.payload) (n : Nat) (rs : List Record) (hrs : records n ra.payload = some rs)
    (cur : Val) :
    applyU S f r cur = (applyU S f ra cur).bind (applyU S f rb) := by
  unfold applyU apply1
  simp only [hk, hw, hwa, hwb, hcat, hrep, ne_eq, not_true_eq_false, if_false, Bool.false_eq_true, hp]
  have key := fun m => specUnmarshal_append_records S id rb.payload n ra.payload rs m hrs
  by_cases hptr : f.pointer S = true
  · simp only [hptr, if_true, key]
    cases specUnmarshal S id ra.payload (match cur with | .some x => x | _ => zeroMsg S id) with
    | none => rfl
    | some m1 => rfl
  · simp only [hptr, if_false, Bool.false_eq_true, key]


theorem fieldOf_kind (f : Field) : (fieldOf f).kind = f.kind := by unfold fieldOf; split <;> rfl
theorem fieldOf_cat (f : Field) : (fieldOf f).cat = f.cat := by unfold fieldOf; split <;> rfl
theorem fieldOf_repeated (f : Field) : (fieldOf f).repeated = f.repeated := by
  unfold fieldOf; split <;> rfl

theorem target_wrapV (S : Schema) (f : Field) (v : Val) : target S f (wrapV f v) = (v, false) := by
  unfold target wrapV
  by_cases h : f.inOneof = true <;> simp [h]

/-- the same at message level: a record of a known singular message field (a oneof member too) with
payload `a ++ b` = the record with payload `a`, then the record with payload `b` -/
theorem stepU_split (S : Schema) (id : Nat) (m : Val) (hw : Wide S id m) (i : Nat) (f : Field) (sub : Nat)
    (r ra rb : Record) (hnum : findField (S.msg id).fields r.num = some (i, f))
    (hna : ra.num = r.num) (hnb : rb.num = r.num)
    (hk : f.kind = .message sub) (hcat : ¬ (f.cat == 1 ∨ f.cat == 2)) (hrep : f.repeated = false)
    (hwr : r.wire = 2) (hwa : ra.wire = 2) (hwb : rb.wire = 2)
    (hp : r.payload = ra.payload ++ rb.payload) (n : Nat) (rs : List Record) (hrs : records n ra.payload = some rs) :
    stepU S id r m = (stepU S id ra m).bind (stepU S id rb) := by
  obtain ⟨slots, u, rfl, hl⟩ := hw
  have hfi := findField_getElem? _ _ _ _ hnum
  have hil : i < slots.length := by
    have : i < (S.msg id).fields.length := by
      rcases Nat.lt_or_ge i (S.msg id).fields.length with h | h
      · exact h
      · rw [List.getElem?_eq_none (by omega)] at hfi; cases hfi
    omega
  unfold stepU
  rw [step_known S _ id r slots u i f hnum, step_known S _ id ra slots u i f (by rw [hna]; exact hnum)]
  have hsplit := applyU_split S (fieldOf f) sub (by rw [fieldOf_kind]; exact hk) (by rw [fieldOf_cat]; exact hcat)
    (by rw [fieldOf_repeated]; exact hrep) r ra rb hwr hwa hwb hp n rs hrs
  rw [hsplit]
  cases applyU S (fieldOf f) ra (target S f (slots.getD i Val.none)).1 with
  | none => rfl
  | some va =>
    simp only [Option.bind_some, Option.map_some]
    rw [step_known S _ id rb _ u i f (by rw [hnb]; exact hnum)]
    have hlen : i < (baseSlots (S.msg id).fields f i (target S f (slots.getD i Val.none)).2 slots).length := by
      rw [baseSlots_length _ _ _ _ _ hl]; exact hil
    have hget : ((baseSlots (S.msg id).fields f i (target S f (slots.getD i Val.none)).2 slots).set i (wrapV f va)).getD i Val.none = wrapV f va := by
      rw [getD_eq, List.getElem?_set_self hlen]; rfl
    rw [hget, target_wrapV]
    simp only [baseSlots, Bool.false_eq_true, if_false, List.set_set]


/-- the effect of a list of records on one field's variable, in order -/
def foldApply (S : Schema) (f : Field) : List Record → Val → Option Val
  | [], cur => some cur
  | r :: rs, cur => (applyU S f r cur).bind (foldApply S f rs)

/-- C02 "repeated scalars packed, unpacked or mixed": for a repeated scalar field of a packable kind,
one packed record whose payload unpacks to `xs` has the effect of the unpacked records `es` carrying
the same values one by one -/
theorem applyU_packed_eq_unpacked (S : Schema) (f : Field) (k : Scalar) (hk : f.kind = .scalar k)
    (hrep : f.repeated = true) (hnb : k.isBytes = false) (hw2 : k.wire ≠ 2)
    (r : Record) (hw : r.wire = 2) (xs : List Enc.SVal)
    (hun : unpack k (r.payload.length + 1) r.payload = some xs)
    (es : List Record) (hes : es.map (fun e => (e.wire, e.scalar k)) = xs.map (fun x => (k.wire, some x)))
    (cur : Val) (hcur : ∃ l, cur = .list l) :
    applyU S f r cur = foldApply S f es cur := by
  obtain ⟨l, rfl⟩ := hcur
  have hL : applyU S f r (.list l) = some (.list (l ++ xs.map Val.ofSVal)) := by
    unfold applyU apply1
    simp [hk, hrep, hw, hnb, hun, Val.list!]
  rw [hL]
  clear hL hun
  induction es generalizing l xs with
  | nil =>
    cases xs with
    | nil => simp [foldApply]
    | cons x xs => simp at hes
  | cons e es ih =>
    cases xs with
    | nil => simp at hes
    | cons x xs =>
      simp only [List.map_cons, List.cons.injEq, Prod.mk.injEq] at hes
      obtain ⟨⟨hew, hev⟩, hrest⟩ := hes
      have he : applyU S f e (.list l) = some (.list (l ++ [Val.ofSVal x])) := by
        unfold applyU apply1
        have hne : ¬ (e.wire = 2) := by rw [hew]; exact hw2
        simp only [hk, hrep, if_true, hne, false_and, if_false, hev, Option.map_some, Val.list!]
      simp only [foldApply, he, Option.bind_some]
      rw [← ih xs hrest (l ++ [Val.ofSVal x])]
      simp [List.append_assoc]


end Pico.Spec.Perm
