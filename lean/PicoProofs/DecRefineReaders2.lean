import PicoProofs.DecRefineReaders
/-!
More readers against the generic specification interface: chains of pass components (`ChainC`),
the singular reader as a component, `RepeatedEnum`, `UnrecognizedFields`, and the cast loop.
-/
namespace Pico.Dec
open Pico.Wire

section
variable {σ : Type} {spec : Bytes → σ → Option σ} {step : Spec.Record → σ → Option σ} {Inv : σ → Prop}

/-! ### pass components -/

/-- contract of a pass component that serves the pending numbers in `N`: it does nothing when the
pending number is not in `N`, and is a non-empty chain of specification steps when it is -/
def ChainC (spec : Bytes → σ → Option σ) (Inv : σ → Prop) (N : Int → Prop) (op : DecM σ) : Prop :=
  ∀ b d s d' s', TA b d → Inv s → op d s = .ok (d', s') →
    (¬ N d.cur.pendingField → d' = d ∧ s' = s) ∧
    (N d.cur.pendingField → Fired spec Inv b d s d' s')

theorem ChainC.step_or {N : Int → Prop} {op : DecM σ} (h : ChainC spec Inv N op) {b d s d' s'}
    (hta : TA b d) (hI : Inv s) (ho : op d s = .ok (d', s')) :
    (d' = d ∧ s' = s) ∨ Fired spec Inv b d s d' s' := by
  by_cases hn : N d.cur.pendingField
  · exact Or.inr ((h b d s d' s' hta hI ho).2 hn)
  · exact Or.inl ((h b d s d' s' hta hI ho).1 hn)

theorem ChainC.nil : ChainC spec Inv (fun _ => False) (fun d s => .ok (d, s)) := by
  intro b d s d' s' _ _ h
  cases h
  exact ⟨fun _ => ⟨rfl, rfl⟩, fun h => h.elim⟩

/-- sequencing two components -/
theorem ChainC.seq {N1 N2 : Int → Prop} {op1 op2 : DecM σ} (h1 : ChainC spec Inv N1 op1)
    (h2 : ChainC spec Inv N2 op2) (hm1 : MonoFn op1) (hm2 : MonoFn op2) :
    ChainC spec Inv (fun n => N1 n ∨ N2 n) (fun d s => op1 d s >>= fun p => op2 p.1 p.2) := by
  intro b d s d' s' hta hI h
  replace h : (op1 d s >>= fun p => op2 p.1 p.2) = .ok (d', s') := h
  cases ho1 : op1 d s with
  | panic w => rw [ho1] at h; cases h
  | outOfFuel => rw [ho1] at h; cases h
  | ok p =>
    obtain ⟨d1, s1⟩ := p
    rw [ho1] at h
    simp only [Res.bind_ok] at h
    have hM1 := hm1 d s d1 s1 ho1
    have hM2 := hm2 d1 s1 d' s' h
    obtain ⟨hA, hB⟩ := h1 b d s d1 s1 hta hI ho1
    by_cases hn1 : N1 d.cur.pendingField
    · refine ⟨fun hn => absurd (Or.inl hn1) hn, fun _ => ?_⟩
      refine (hB hn1).trans hM2.err ?_
      intro b1 hta1 he1 hI1
      exact h2.step_or ⟨he1, hM1.init hta.init, hta1⟩ hI1 h
    · obtain ⟨rfl, rfl⟩ := hA hn1
      obtain ⟨hC, hD⟩ := h2 b d1 s1 d' s' hta hI h
      refine ⟨fun hn => hC (fun h2' => hn (Or.inr h2')), fun hn => ?_⟩
      rcases hn with hn | hn
      · exact absurd hn hn1
      · exact hD hn

theorem ChainC.mono_set {N N' : Int → Prop} {op : DecM σ} (h : ChainC spec Inv N op)
    (hiff : ∀ n, N n ↔ N' n) : ChainC spec Inv N' op := by
  intro b d s d' s' hta hI ho
  obtain ⟨hA, hB⟩ := h b d s d' s' hta hI ho
  exact ⟨fun hn => hA (fun h' => hn ((hiff _).1 h')), fun hn => hB ((hiff _).2 hn)⟩

/-- a chain whose numbers cover every pending record that is not a no-op of the specification is a
`Loop` callback for that specification -/
theorem ChainC.passC {N : Int → Prop} {op : DecM σ} (h : ChainC spec Inv N op)
    (hun : ∀ b d s, TA b d → Inv s → b ≠ [] → ¬ N d.cur.pendingField → step (pendRec d.cur) s = some s) :
    PassC spec step Inv op := by
  intro b d s d1 s1 hta hI ho
  refine ⟨h.step_or hta hI ho, fun hb => ?_⟩
  by_cases hn : N d.cur.pendingField
  · exact Or.inr ((h b d s d1 s1 hta hI ho).2 hn)
  · exact Or.inl (hun b d s hta hI hb hn)

/-! ### a singular reader as a component -/

/-- `c.X(field, &v)` where `v` is a part of the state -/
def singleComp (k : Scalar) (field : Int) (upd : Enc.SVal → σ → σ) : DecM σ := fun d s => do
  let (d, a) ← readSingle k field d
  return (d, match a with | some x => upd x s | none => s)

theorem singleComp_mono (k : Scalar) (field : Int) (upd : Enc.SVal → σ → σ) :
    MonoFn (singleComp k field upd) := by
  intro d s d' s' h
  unfold singleComp at h
  cases hr : readSingle k field d with
  | panic w => rw [hr] at h; cases h
  | outOfFuel => rw [hr] at h; cases h
  | ok p =>
    obtain ⟨d1, a⟩ := p
    rw [hr] at h
    simp only [Res.bind_ok, Res.pure_eq] at h
    cases h
    exact readSingle_mono k field d _ a hr

theorem singleComp_chain (hL : Laws spec step) (k : Scalar) (field : Int) (hf : 0 ≤ field)
    (upd : Enc.SVal → σ → σ)
    (hstep : ∀ s (r : Spec.Record), (r.num : Int) = field → step r s = (r.scalar k).map fun x => upd x s)
    (hI : ∀ x s, Inv (upd x s)) :
    ChainC spec Inv (fun n => field = n) (singleComp k field upd) := by
  intro b d s d' s' hta _ h
  unfold singleComp at h
  cases hr : readSingle k field d with
  | panic w => rw [hr] at h; cases h
  | outOfFuel => rw [hr] at h; cases h
  | ok p =>
    obtain ⟨d1, a⟩ := p
    rw [hr] at h
    simp only [Res.bind_ok, Res.pure_eq] at h
    cases h
    constructor
    · intro hne
      unfold readSingle at hr
      rw [if_pos hne] at hr
      cases hr
      exact ⟨rfl, rfl⟩
    · intro hpf
      have hb : b ≠ [] := hta.frame.ne_nil (by omega)
      have hnum : ((pendRec d.cur).num : Int) = field := by
        rw [hpf]; exact toNat_cast_pending hta.frame hb
      rcases readSingle_fired (Inv := Inv) hL k field hta hb hpf (fun x => upd x s)
          (hstep s _ hnum) (fun x => hI x s) hr with ⟨x, rfl, hf⟩ | ⟨rfl, he, hs⟩
      · exact hf
      · exact Or.inr ⟨he, hs⟩

/-! ### `RepeatedEnum` -/

theorem map_num_num! (xs : List Nat) : (xs.map Enc.SVal.num).map Enc.SVal.num! = xs := by
  induction xs with
  | nil => rfl
  | cons x xs ih => simp only [List.map_cons, ih]; rfl

theorem scalar_int32_of_wire0 (r : Spec.Record) (h : r.wire = 0) :
    r.scalar .int32 = some (.num (r.varintVal % 4294967296)) := by
  unfold Spec.Record.scalar
  rw [if_neg (by intro hne; exact hne h)]
  rfl

theorem readRepeatedEnumN_fired (hL : Laws spec step) (field : Int) (hf : 0 ≤ field)
    (G : List Nat → σ) (hI : ∀ acc, Inv (G acc))
    (hstep : ∀ acc (r : Spec.Record), (r.num : Int) = field →
      step r (G acc) =
        (if r.wire = 2 then Spec.unpack .int32 (r.payload.length + 1) r.payload
         else (r.scalar .int32).map fun x => [x]).map fun xs => G (acc ++ xs.map Enc.SVal.num!)) :
    ∀ (fuel : Nat) (b : Bytes) (d : Dec) (acc : List Nat) (d' : Dec) (acc' : List Nat), TA b d →
      readRepeatedEnumN field fuel d acc = .ok (d', acc') →
      (field ≠ d.cur.pendingField → d' = d ∧ acc' = acc) ∧
      (field = d.cur.pendingField → Fired spec Inv b d (G acc) d' (G acc')) := by
  intro fuel
  induction fuel with
  | zero => intro b d acc d' acc' _ h; unfold readRepeatedEnumN at h; cases h
  | succ fuel ih =>
    intro b d acc d' acc' hta h
    unfold readRepeatedEnumN at h
    by_cases hpf : field ≠ d.cur.pendingField
    · rw [if_pos hpf] at h
      cases h
      exact ⟨fun _ => ⟨rfl, rfl⟩, fun he => absurd he hpf⟩
    · rw [if_neg hpf] at h
      have hpf' : field = d.cur.pendingField := Decidable.of_not_not hpf
      refine ⟨fun hne => absurd hpf' hne, fun _ => ?_⟩
      have hb : b ≠ [] := hta.frame.ne_nil (by omega)
      have hnum : ((pendRec d.cur).num : Int) = field := by rw [hpf']; exact toNat_cast_pending hta.frame hb
      have hst := hstep acc (pendRec d.cur) hnum
      have hrw : (pendRec d.cur).wire = d.cur.pendingWire := rfl
      have cont : ∀ (acc1 : List Nat) (n : Int), n = pendLen d.cur → 0 ≤ n →
          step (pendRec d.cur) (G acc) = some (G acc1) →
          readRepeatedEnumN field fuel (nextFieldD d n) acc1 = .ok (d', acc') →
          Fired spec Inv b d (G acc) d' (G acc') := by
        intro acc1 n hn hn0 hs h3
        subst hn
        have hfired := fired_ok (Inv := Inv) hL hta.frame hb d rfl hta.err hn0 hs (hI acc1)
        have hM4 := readRepeatedEnumN_mono field fuel _ acc1 d' acc' h3
        refine hfired.trans hM4.err ?_
        intro b1 hta1 he1 _
        have := ih b1 _ acc1 d' acc' ⟨he1, (nextFieldD_mono _ _).init hta.init, hta1⟩ h3
        by_cases hp4 : field = (nextFieldD d (pendLen d.cur)).cur.pendingField
        · exact Or.inr (this.2 hp4)
        · obtain ⟨e1, e2⟩ := this.1 hp4
          exact Or.inl ⟨e1, by rw [e2]⟩
      by_cases hpk : d.cur.pendingWire = 2
      · rw [if_pos hpk] at h
        rw [hrw, if_pos hpk] at hst
        simp only at h
        have hlen : pendLen d.cur = (consumeBytes d.cur.buffer).2 := by
          unfold pendLen; rw [hpk]; exact consumeFieldValue_wire2 _ _
        by_cases hr : (consumeBytes d.cur.buffer).2 < 0
        · rw [if_pos hr] at h
          cases h
          exact Or.inr ⟨by simp [fail], spec_none_of_parse1_none hL _ hta.frame hb (by omega)⟩
        · rw [if_neg hr] at h
          have hpay : (pendRec d.cur).payload = (consumeBytes d.cur.buffer).1 := by
            unfold pendRec; rw [hlen]; exact payload_take _ _ _ (by omega)
          rw [hpay] at hst
          cases hrp : readRepeatedEnumN.packedEnum ((consumeBytes d.cur.buffer).1.length + 1)
              (consumeBytes d.cur.buffer).1 [] with
          | panic w => rw [hrp] at h; cases h
          | outOfFuel => rw [hrp] at h; cases h
          | ok p =>
            obtain ⟨xs, bad⟩ := p
            rw [hrp] at h
            simp only [Res.bind_ok] at h
            obtain ⟨ys, hxs, hgood, hbad⟩ := packedEnum_unpack _ _ _ _ _ hrp
            simp only [List.nil_append] at hxs
            subst hxs
            cases bad with
            | true =>
              simp only [↓reduceIte, Res.pure_eq] at h
              cases h
              refine Or.inr ⟨by simp [fail], spec_none_of_step_none hL _ hta.frame hb ?_⟩
              rw [hst, hbad rfl]; rfl
            | false =>
              simp only [Bool.false_eq_true, ↓reduceIte, nextField_eqD, Res.bind_ok] at h
              refine cont _ _ hlen.symm (by omega) ?_ h
              rw [hst, hgood rfl]
              simp only [Option.map_some, map_num_num!]
      · rw [if_neg hpk] at h
        rw [hrw, if_neg hpk] at hst
        by_cases hw : d.cur.pendingWire = 0
        · rw [if_pos hw] at h
          simp only at h
          have hlen : (consumeVarint d.cur.buffer).2 = pendLen d.cur := by
            unfold pendLen; rw [hw]; exact (consumeFieldValue_wire0 _ _).symm
          by_cases hr : (consumeVarint d.cur.buffer).2 < 0
          · rw [if_pos hr] at h
            cases h
            exact Or.inr ⟨by simp [fail], spec_none_of_parse1_none hL _ hta.frame hb (by omega)⟩
          · rw [if_neg hr, nextField_eqD] at h
            simp only [Res.bind_ok] at h
            have hvv : (pendRec d.cur).varintVal = (consumeVarint d.cur.buffer).1 := by
              unfold pendRec; rw [← hlen]; exact varintVal_take _ _ _ (by omega)
            refine cont _ _ hlen (by omega) ?_ h
            rw [hst, scalar_int32_of_wire0 _ (hrw.trans hw), hvv]
            rfl
        · rw [if_neg hw] at h
          cases h
          refine Or.inr ⟨by simp [fail], spec_none_of_step_none hL _ hta.frame hb ?_⟩
          rw [hst, scalar_wire_ne (pendRec d.cur) .int32 hw]; rfl

/-! ### `UnrecognizedFields` -/

/-- the pending number is one `UnrecognizedFields(exclude, …)` captures -/
def unkNum (exclude : Nat) (n : Int) : Prop := n ≥ 0 ∧ (n ≥ 64 ∨ (!(exclude.testBit n.toNat)) = true)

theorem unrecognizedFieldsN_fired (hL : Laws spec step) (exclude : Nat)
    (G : Bytes → σ) (hI : ∀ u, Inv (G u))
    (hstep : ∀ u (r : Spec.Record), unkNum exclude r.num →
      step r (G u) = some (G (u ++ tag r.num r.wire ++ r.raw))) :
    ∀ (fuel : Nat) (b : Bytes) (d : Dec) (u : Bytes) (d' : Dec) (u' : Bytes), TA b d →
      unrecognizedFieldsN exclude fuel d u = .ok (d', u') →
      (¬ unkNum exclude d.cur.pendingField → d' = d ∧ u' = u) ∧
      (unkNum exclude d.cur.pendingField → Fired spec Inv b d (G u) d' (G u')) := by
  intro fuel
  induction fuel with
  | zero => intro b d u d' u' _ h; unfold unrecognizedFieldsN at h; cases h
  | succ fuel ih =>
    intro b d u d' u' hta h
    unfold unrecognizedFieldsN at h
    simp only at h
    by_cases hun : unkNum exclude d.cur.pendingField
    · refine ⟨fun hn => absurd hun hn, fun _ => ?_⟩
      have hun' : d.cur.pendingField ≥ 0 ∧ (d.cur.pendingField ≥ 64 ∨
          (!exclude.testBit d.cur.pendingField.toNat) = true) := hun
      rw [if_pos hun'] at h
      have hb : b ≠ [] := hta.frame.ne_nil hun.1
      have hnum : ((pendRec d.cur).num : Int) = d.cur.pendingField := toNat_cast_pending hta.frame hb
      by_cases hr : consumeFieldValue d.cur.pendingField d.cur.pendingWire d.cur.buffer < 0
      · rw [if_pos hr] at h
        cases h
        exact Or.inr ⟨by simp [fail], spec_none_of_parse1_none hL _ hta.frame hb hr⟩
      · rw [if_neg hr] at h
        have hp := pendLen_progress d.cur (by unfold pendLen; omega)
        unfold pendLen at hp
        rw [sliceTo_ok _ _ (by omega) hp.2, nextField_eqD] at h
        simp only [Res.bind_ok] at h
        have hs : step (pendRec d.cur) (G u) = some (G (u ++ tag d.cur.pendingField d.cur.pendingWire ++
            List.take (consumeFieldValue d.cur.pendingField d.cur.pendingWire d.cur.buffer).toNat d.cur.buffer)) := by
          rw [hstep u (pendRec d.cur) (by rw [hnum]; exact hun), hnum]
          rfl
        have hfired := fired_ok (Inv := Inv) hL hta.frame hb d rfl hta.err (by unfold pendLen; omega) hs (hI _)
        have hM4 := unrecognizedFieldsN_mono exclude fuel _ _ d' u' h
        refine hfired.trans hM4.err ?_
        intro b1 hta1 he1 _
        have := ih b1 _ _ d' u' ⟨he1, (nextFieldD_mono _ _).init hta.init, hta1⟩ h
        by_cases hp4 : unkNum exclude (nextFieldD d (pendLen d.cur)).cur.pendingField
        · exact Or.inr (this.2 hp4)
        · obtain ⟨e1, e2⟩ := this.1 hp4
          exact Or.inl ⟨e1, by rw [e2]⟩
    · have hun' : ¬ (d.cur.pendingField ≥ 0 ∧ (d.cur.pendingField ≥ 64 ∨
          (!exclude.testBit d.cur.pendingField.toNat) = true)) := hun
      rw [if_neg hun'] at h
      cases h
      exact ⟨fun _ => ⟨rfl, rfl⟩, fun hn => absurd hn hun⟩

end

end Pico.Dec
