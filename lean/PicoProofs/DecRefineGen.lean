import PicoProofs.DecRefineReaders2
/-!
The picoconv casts (`secNanosPass` loop = `Spec.secNanos`), the picowire map entry callback
(`Gen2.mapEntry` = `Spec.mapEntry`), the cast loop, and the wrapper lemma for `Loop` callbacks that
keep their state behind a pointer.
-/
namespace Pico.Dec
open Pico.Wire

theorem Laws.bad {σ : Type} {spec : Bytes → σ → Option σ} {step : Spec.Record → σ → Option σ}
    (hL : Laws spec step) {p : Bytes} (h : ¬ tagOk p) (s : σ) : spec p s = Option.none := by
  obtain ⟨h1, h2⟩ := parse1_of_not_tagOk h
  exact hL.none s h1 h2

/-- a `Loop` whose callback keeps its state behind a wrapper (`if m.F == nil { m.F = new(T) };
m.F.Decode(c)`) is the `Loop` of the unwrapped callback -/
theorem loopN_wrap {σ τ : Type} (fn : DecM σ) (fn' : DecM τ) (wrap : σ → τ) (unwrap : τ → σ)
    (hu : ∀ x, unwrap (wrap x) = x)
    (hfn : ∀ d t, fn' d t = fn d (unwrap t) >>= fun p => pure (p.1, wrap p.2)) :
    ∀ (f : Nat) (d : Dec) (t : τ),
      loopN fn' f d t = loopN fn f d (unwrap t) >>= fun p => pure (p.1, wrap p.2) := by
  intro f
  induction f with
  | zero => intro d t; rfl
  | succ f ih =>
    intro d t
    conv => lhs; unfold loopN
    conv => rhs; unfold loopN
    rw [hfn]
    cases fn d (unwrap t) with
    | panic w => rfl
    | outOfFuel => rfl
    | ok p =>
      obtain ⟨d1, x1⟩ := p
      simp only [Res.bind_ok, Res.pure_eq]
      by_cases hv : (!pendingValid d1) = true
      · simp only [hv, ↓reduceIte, Res.bind_ok]
      · simp only [hv, Bool.false_eq_true, ↓reduceIte]
        by_cases hl : d1.cur.buffer.length = d.cur.buffer.length
        · simp only [hl, ↓reduceIte]
          rw [nextField_eqD]
          simp only [Res.bind_ok]
          rw [ih, hu]; rfl
        · simp only [hl, ↓reduceIte]
          rw [ih, hu]; rfl

/-- the state in which `Loop` enters its `for` -/
def loopStart (d : Dec) : Dec := if d.init = true then d else { nextFieldD d 0 with init := true }

theorem loop_eq {σ : Type} (fn : DecM σ) (d : Dec) (s : σ) :
    loop fn d s = loopN fn ((loopStart d).cur.buffer.length + 2) (loopStart d) s := by
  unfold loop loopStart
  by_cases hi : d.init = true
  · simp only [hi, Bool.not_true, Bool.false_eq_true, ↓reduceIte, Res.pure_eq, Res.bind_ok]
  · have hi' : d.init = false := by cases h : d.init <;> simp_all
    simp only [hi', Bool.not_false, ↓reduceIte, nextField_eqD, Res.pure_eq, Res.bind_ok, Bool.false_eq_true]

theorem loop_wrap {σ τ : Type} (fn : DecM σ) (fn' : DecM τ) (wrap : σ → τ) (unwrap : τ → σ)
    (hu : ∀ x, unwrap (wrap x) = x)
    (hfn : ∀ d t, fn' d t = fn d (unwrap t) >>= fun p => pure (p.1, wrap p.2))
    {d : Dec} {t : τ} {d' : Dec} {t' : τ} (h : loop fn' d t = .ok (d', t')) :
    ∃ x', loop fn d (unwrap t) = .ok (d', x') ∧ t' = wrap x' := by
  rw [loop_eq, loopN_wrap fn fn' wrap unwrap hu hfn] at h
  rw [loop_eq]
  cases hl : loopN fn ((loopStart d).cur.buffer.length + 2) (loopStart d) (unwrap t) with
  | panic w => rw [hl] at h; cases h
  | outOfFuel => rw [hl] at h; cases h
  | ok p =>
    rw [hl] at h
    simp only [Res.bind_ok, Res.pure_eq] at h
    cases h
    exact ⟨p.2, rfl, rfl⟩

end Pico.Dec

namespace Pico.Gen2
open Pico.Wire Pico.Dec

/-! ### `{1: seconds, 2: nanos}` -/

def secSpec (b : Bytes) (s : Nat × Nat) : Option (Nat × Nat) := Spec.secNanos (b.length + 1) b s

def secStep (r : Spec.Record) (s : Nat × Nat) : Option (Nat × Nat) :=
  if r.num = 1 then (r.scalar .int64).map fun v => (v.num!, s.2)
  else if r.num = 2 then (r.scalar .int32).map fun v => (s.1, v.num!)
  else some s

theorem isEmpty_false_of_ne {b : Bytes} (hb : b ≠ []) : b.isEmpty = false := by
  cases b with
  | nil => exact absurd rfl hb
  | cons _ _ => rfl

theorem ne_nil_of_parse1 {b : Bytes} {r : Spec.Record} {rest : Bytes} (hp : Spec.parse1 b = some (r, rest)) :
    b ≠ [] := by
  intro h; subst h; rw [Spec.parse1_nil] at hp; cases hp

theorem sec_laws : Laws secSpec secStep where
  nil := fun s => by unfold secSpec; rw [Spec.secNanos_succ]; rfl
  cons := by
    intro b r rest s hp
    have hpr := Spec.parse1_progress hp
    have e : ∀ s', Spec.secNanos b.length rest s' = secSpec rest s' := by
      intro s'
      unfold secSpec
      have := Spec.secNanos_fuel_enough rest s' (b.length - (rest.length + 1))
      rw [this]; congr 1; omega
    unfold secSpec
    rw [Spec.secNanos_succ, isEmpty_false_of_ne (ne_nil_of_parse1 hp)]
    simp only [Bool.false_eq_true, ↓reduceIte, hp, e]
    unfold secStep
    by_cases h1 : r.num = 1
    · simp only [h1, ↓reduceIte]
      cases r.scalar .int64 <;> rfl
    · simp only [h1, ↓reduceIte]
      by_cases h2 : r.num = 2
      · simp only [h2, ↓reduceIte]
        cases r.scalar .int32 <;> rfl
      · simp only [h2, ↓reduceIte]; rfl
  none := by
    intro b s hb hp
    unfold secSpec
    rw [Spec.secNanos_succ, isEmpty_false_of_ne hb]
    simp only [Bool.false_eq_true, ↓reduceIte, hp]

theorem secNanosPass_eq :
    secNanosPass = fun d s =>
      singleComp .int64 1 (fun v (s : Nat × Nat) => (v.num!, s.2)) d s >>= fun p =>
        singleComp .int32 2 (fun v (s : Nat × Nat) => (s.1, v.num!)) p.1 p.2 := by
  funext d s
  unfold secNanosPass singleComp
  cases readSingle .int64 1 d with
  | panic w => rfl
  | outOfFuel => rfl
  | ok p => rfl

theorem pending_toNat_ne {b : Bytes} {c : Frame} (h : TAF b c) (hb : b ≠ []) (n : Nat)
    (hne : ¬ ((n : Int) = c.pendingField)) : (pendRec c).num ≠ n := by
  have := toNat_cast_pending h hb
  intro he
  rw [he] at this
  exact hne this

theorem secPassC : PassC secSpec secStep (fun _ => True) secNanosPass := by
  rw [secNanosPass_eq]
  refine ChainC.passC (N := fun n => (1 : Int) = n ∨ (2 : Int) = n) ?_ ?_
  · refine ChainC.seq ?_ ?_ (singleComp_mono _ _ _) (singleComp_mono _ _ _)
    · refine singleComp_chain sec_laws .int64 1 (by omega) _ ?_ (fun _ _ => trivial)
      intro s r hr
      have : r.num = 1 := by omega
      unfold secStep; rw [if_pos this]
    · refine singleComp_chain sec_laws .int32 2 (by omega) _ ?_ (fun _ _ => trivial)
      intro s r hr
      have : r.num = 2 := by omega
      unfold secStep; rw [if_neg (by omega), if_pos this]
  · intro b d s hta _ hb hn
    have h1 := pending_toNat_ne hta.frame hb 1 (fun h => hn (Or.inl h))
    have h2 := pending_toNat_ne hta.frame hb 2 (fun h => hn (Or.inr h))
    unfold secStep
    rw [if_neg h1, if_neg h2]

theorem secLoop {p : Bytes} {d1 d2 : Dec} {s s2 : Nat × Nat} (hta : TA p d1)
    (h : loop secNanosPass d1 s = .ok (d2, s2)) : FinO (secSpec p s) d2 s2 :=
  (loop_refines sec_laws secPassC secNanosPass_mono hta trivial h).1

section
variable {σ : Type} {spec : Bytes → σ → Option σ} {step : Spec.Record → σ → Option σ} {Inv : σ → Prop}

/-- `c.Message(field, {Int64(1,&sec); Int32(2,&nanos)})` and conversion by `conv` -/
theorem secMessage_fired (hL : Laws spec step) (field : Int) {b : Bytes} {d : Dec} {s : σ}
    (hta : TA b d) (hb : b ≠ []) (hpf : field = d.cur.pendingField) (g : Nat × Nat → σ) (hI : ∀ c, Inv (g c))
    (hstep : step (pendRec d.cur) s =
      if (pendRec d.cur).wire ≠ 2 then none
      else (Spec.secNanos ((pendRec d.cur).payload.length + 1) (pendRec d.cur).payload (0, 0)).map g)
    {d' : Dec} {s2 : Nat × Nat} (h : Dec.message field secNanosPass d (0, 0) = .ok (d', s2)) :
    Fired spec Inv b d s d' (g s2) :=
  message_fired hL field secNanosPass secNanosPass_mono (fun p => secSpec p (0, 0)) (fun _ => True)
    (fun _ _ _ _ hta1 h1 => ⟨secLoop hta1 h1, fun _ => trivial⟩) (fun _ hbad => sec_laws.bad hbad _) hta hb hpf g
    (fun v _ => hI v) (fun hw => by rw [hstep, if_pos hw]) (fun hw => by
      rw [hstep, if_neg (fun hne => hne hw)]; rfl) h

theorem tsDecode_fired (hL : Laws spec step) (field : Int) {b : Bytes} {d : Dec} {s : σ}
    (hta : TA b d) (hb : b ≠ []) (hpf : field = d.cur.pendingField) (g : Nat → σ) (hI : ∀ c, Inv (g c))
    (hstep : step (pendRec d.cur) s =
      if (pendRec d.cur).wire ≠ 2 then none
      else (Spec.secNanos ((pendRec d.cur).payload.length + 1) (pendRec d.cur).payload (0, 0)).map
        fun sn => g (Spec.tsOf sn))
    {d' : Dec} {a : Option Nat} (h : tsDecode field d = .ok (d', a)) :
    ∃ c, a = some c ∧ Fired spec Inv b d s d' (g c) := by
  unfold tsDecode at h
  rw [if_neg (fun hne => hne hpf.symm)] at h
  cases hm : Dec.message field secNanosPass d (0, 0) with
  | panic w => rw [hm] at h; cases h
  | outOfFuel => rw [hm] at h; cases h
  | ok p =>
    obtain ⟨d1, s2⟩ := p
    rw [hm] at h
    simp only [Res.bind_ok, Res.pure_eq] at h
    cases h
    exact ⟨_, rfl, secMessage_fired hL field hta hb hpf (fun sn => g (Spec.tsOf sn)) (fun _ => hI _) hstep hm⟩

theorem durDecode_fired (hL : Laws spec step) (field : Int) {b : Bytes} {d : Dec} {s : σ}
    (hta : TA b d) (hb : b ≠ []) (hpf : field = d.cur.pendingField) (g : Nat → σ) (hI : ∀ c, Inv (g c))
    (hstep : step (pendRec d.cur) s =
      if (pendRec d.cur).wire ≠ 2 then none
      else (Spec.secNanos ((pendRec d.cur).payload.length + 1) (pendRec d.cur).payload (0, 0)).map
        fun sn => g (Spec.durOf sn))
    {d' : Dec} {a : Option Nat} (h : durDecode field d = .ok (d', a)) :
    ∃ c, a = some c ∧ Fired spec Inv b d s d' (g c) := by
  unfold durDecode at h
  rw [if_neg (fun hne => hne hpf.symm)] at h
  cases hm : Dec.message field secNanosPass d (0, 0) with
  | panic w => rw [hm] at h; cases h
  | outOfFuel => rw [hm] at h; cases h
  | ok p =>
    obtain ⟨d1, s2⟩ := p
    rw [hm] at h
    simp only [Res.bind_ok, Res.pure_eq] at h
    cases h
    exact ⟨_, rfl, secMessage_fired hL field hta hb hpf (fun sn => g (Spec.durOf sn)) (fun _ => hI _) hstep hm⟩

/-! ### the cast loop of a repeated Timestamp/Duration field -/

theorem castLoop_list (one : Dec → Res (Dec × Option Nat)) (ptr : Bool) (zeroC : Nat) (num : Int) :
    ∀ (fuel : Nat) (d : Dec) (xs : List Val) (d' : Dec) (v : Val),
      castLoop one ptr zeroC fuel num d xs = .ok (d', v) → ∃ xs', v = .list xs' := by
  intro fuel
  induction fuel with
  | zero => intro d xs d' v h; unfold castLoop at h; cases h
  | succ fuel ih =>
    intro d xs d' v h
    unfold castLoop at h
    by_cases hpf : d.cur.pendingField ≠ num
    · rw [if_pos hpf] at h
      cases h
      exact ⟨_, rfl⟩
    · rw [if_neg hpf] at h
      cases ho : one d with
      | panic w => rw [ho] at h; cases h
      | outOfFuel => rw [ho] at h; cases h
      | ok p =>
        rw [ho] at h
        simp only [Res.bind_ok] at h
        exact ih _ _ _ _ h

theorem castLoop_fired (one : Dec → Res (Dec × Option Nat)) (hone_m : ∀ d, MonoR d (one d))
    (ptr : Bool) (zeroC : Nat) (num : Int) (G : List Val → σ)
    (hone : ∀ b d xs d1 a, TA b d → num = d.cur.pendingField → one d = .ok (d1, a) →
      ∃ c, a = some c ∧
        Fired spec Inv b d (G xs) d1 (G (xs ++ [if ptr = true then Val.some (Val.num c) else Val.num c]))) :
    ∀ (fuel : Nat) (b : Bytes) (d : Dec) (xs : List Val) (d' : Dec) (v : Val), TA b d →
      castLoop one ptr zeroC fuel num d xs = .ok (d', v) →
      (num ≠ d.cur.pendingField → d' = d ∧ v = .list xs) ∧
      (num = d.cur.pendingField → Fired spec Inv b d (G xs) d' (G v.list!)) := by
  intro fuel
  induction fuel with
  | zero => intro b d xs d' v _ h; unfold castLoop at h; cases h
  | succ fuel ih =>
    intro b d xs d' v hta h
    unfold castLoop at h
    by_cases hpf : d.cur.pendingField ≠ num
    · rw [if_pos hpf] at h
      cases h
      exact ⟨fun _ => ⟨rfl, rfl⟩, fun he => absurd he.symm hpf⟩
    · rw [if_neg hpf] at h
      have hpf' : num = d.cur.pendingField := (Decidable.of_not_not hpf).symm
      refine ⟨fun hne => absurd hpf' hne, fun _ => ?_⟩
      cases ho : one d with
      | panic w => rw [ho] at h; cases h
      | outOfFuel => rw [ho] at h; cases h
      | ok p =>
        obtain ⟨d1, a⟩ := p
        rw [ho] at h
        simp only [Res.bind_ok] at h
        obtain ⟨c, rfl, hfired⟩ := hone b d xs d1 _ hta hpf' ho
        simp only at h
        have hM1 := hone_m d d1 _ ho
        have hM4 := castLoop_mono one ptr zeroC hone_m fuel num d1 _ d' v h
        refine hfired.trans hM4.err ?_
        intro b1 hta1 he1 _
        have := ih b1 d1 _ d' v ⟨he1, hM1.init hta.init, hta1⟩ h
        by_cases hp4 : num = d1.cur.pendingField
        · exact Or.inr (this.2 hp4)
        · obtain ⟨e1, e2⟩ := this.1 hp4
          exact Or.inl ⟨e1, by rw [e2]; rfl⟩

end

end Pico.Gen2
