import PicoModel.EncProg
import PicoProofs.AnyBytes
/-
Any program over the low-level encoder appends exactly the abstract encoder's bytes, whatever the
buffer it was started on (stale contents, capacity, re-allocation pattern).
-/
namespace Pico.EncLow
open Pico Pico.Wire

mutual
theorem runOp_appends (oracle : Nat → Bytes) : ∀ (op : LOp), sizeOk op → ∀ b : Buf,
    ∃ t, runOp oracle op b = .ok ⟨b.data ++ absOp op, t⟩
  | .raw bs, _, b => by
    refine ⟨(b.append oracle bs).tail, ?_⟩
    simp only [runOp, absOp]
    have := append_data oracle b bs
    cases hb : b.append oracle bs with
    | mk d t => rw [hb] at this; simp at this; simp [this]
  | .any tag ok ops, h, b => by
    obtain ⟨hsz, hs⟩ := h
    have ih := runOps_appends oracle ops hs
    have hao : AppendOnly (fun b => do let b' ← runOps oracle ops b; pure (b', ok)) (absOps ops) ok := by
      intro b
      obtain ⟨t, ht⟩ := ih b
      exact ⟨t, by simp [ht]⟩
    have hr := anyBytesLow_refines oracle tag (absOps ops) ok _ hao hsz b
    obtain ⟨t, ht⟩ := dataOf_some hr
    refine ⟨t, ?_⟩
    simp only [runOp, absOp, ht]
    cases ok <;> simp
  | .present tag ops, h, b => by
    obtain ⟨hsz, hs⟩ := h
    have ih := runOps_appends oracle ops hs
    have hao : AppendOnly (fun b => do
        let lengthStart := b.len
        let b' ← runOps oracle ops b
        pure (b', decide (b'.len > lengthStart))) (absOps ops) (!(absOps ops).isEmpty) := by
      intro b
      obtain ⟨t, ht⟩ := ih b
      refine ⟨t, ?_⟩
      simp only [ht, Res.bind_ok, Res.pure_eq, Buf.len, List.length_append]
      congr 2
      cases hp : absOps ops with
      | nil => simp
      | cons a l => simp
    have hr := anyBytesLow_refines oracle tag (absOps ops) _ _ hao hsz b
    obtain ⟨t, ht⟩ := dataOf_some hr
    refine ⟨t, ?_⟩
    simp only [runOp, absOp, ht]
    cases hp : (absOps ops).isEmpty <;> simp
  | .always tag ops, h, b => by
    obtain ⟨hsz, hs⟩ := h
    have ih := runOps_appends oracle ops hs
    have hr := alwaysAnyBytesLow_refines oracle tag (absOps ops) _ ih hsz b
    obtain ⟨t, ht⟩ := dataOf1_some hr
    exact ⟨t, by simp only [runOp, absOp, ht]; simp⟩

theorem runOps_appends (oracle : Nat → Bytes) : ∀ (ops : List LOp), sizesOk ops → ∀ b : Buf,
    ∃ t, runOps oracle ops b = .ok ⟨b.data ++ absOps ops, t⟩
  | [], _, b => ⟨b.tail, by simp [runOps, absOps]⟩
  | op :: ops, h, b => by
    obtain ⟨h1, h2⟩ := h
    obtain ⟨t1, ht1⟩ := runOp_appends oracle op h1 b
    obtain ⟨t2, ht2⟩ := runOps_appends oracle ops h2 ⟨b.data ++ absOp op, t1⟩
    exact ⟨t2, by simp [runOps, absOps, ht1, ht2, List.append_assoc]⟩
end

/-- C17: the bytes produced do not depend on the supplied buffer (its length, capacity, old
contents) nor on how `append` re-allocates; no run panics -/
theorem marshalBuffer_eq_marshal (oracle oracle' : Nat → Bytes) (prog : List LOp) (h : sizesOk prog) (buffer : Bytes) :
    dataOf1 (marshalBufferLow oracle prog buffer) = some (absOps prog) ∧
    dataOf1 (marshalLow oracle' prog) = some (absOps prog) := by
  obtain ⟨t, ht⟩ := runOps_appends oracle prog h ⟨[], buffer⟩
  obtain ⟨t', ht'⟩ := runOps_appends oracle' prog h ⟨[], []⟩
  simp [marshalBufferLow, marshalLow, ht, ht', dataOf1]

end Pico.EncLow
#print axioms Pico.EncLow.marshalBuffer_eq_marshal
