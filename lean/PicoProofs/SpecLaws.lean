import PicoModel.WellTyped
import PicoModel.WellFormed
import PicoProofs.WireLemmas
/-!
Compositional laws of the specification decoder `Pico.Spec.specDec` (properties C05, C09, C10 at
spec level).

Method: `specDec`/`applyRec` are rewritten once as `seq1`/`apply1` bodies parametrised by the
recursive calls (`specDec_succ`, `applyRec_succ`); fuel monotonicity and fuel sufficiency are
congruence facts about these bodies; from them the fuel-free unfolding of
`specUnmarshal S id b m = specDec S (2*|b|+2) id b m` (`specUnmarshal_nil/_cons/_none`), and every
other law is a fuel-free induction over the records of the input.
-/
namespace Pico.Spec
open Pico.Wire

theorem parse1_eq_some {b : Bytes} {r : Record} {rest : Bytes} (h : parse1 b = some (r, rest)) :
    0 ≤ (consumeTag b).2.2 ∧ numberIsValid (consumeTag b).1 = true ∧
    0 ≤ consumeFieldValue (consumeTag b).1 (consumeTag b).2.1 (b.drop (consumeTag b).2.2.toNat) ∧
    r = ⟨(consumeTag b).1.toNat, (consumeTag b).2.1,
          (b.drop (consumeTag b).2.2.toNat).take
            (consumeFieldValue (consumeTag b).1 (consumeTag b).2.1 (b.drop (consumeTag b).2.2.toNat)).toNat⟩ ∧
    rest = (b.drop (consumeTag b).2.2.toNat).drop
            (consumeFieldValue (consumeTag b).1 (consumeTag b).2.1 (b.drop (consumeTag b).2.2.toNat)).toNat := by
  unfold parse1 at h
  simp only at h
  split at h
  · cases h
  · rename_i h1
    split at h
    · cases h
    · rename_i h2
      simp only [Option.some.injEq, Prod.mk.injEq] at h
      refine ⟨by omega, ?_, by omega, h.1.symm, h.2.symm⟩
      cases hv : numberIsValid (consumeTag b).1
      · simp [hv] at h1
      · rfl

theorem parse1_nil : parse1 [] = none := by
  decide

theorem parse1_append {a : Bytes} {r : Record} {rest : Bytes} (b : Bytes)
    (h : parse1 a = some (r, rest)) : parse1 (a ++ b) = some (r, rest ++ b) := by
  obtain ⟨h1, h2, h3, hr, hrest⟩ := parse1_eq_some h
  have ht := consumeTag_progress a h1
  have hd : (a ++ b).drop (consumeTag a).2.2.toNat = a.drop (consumeTag a).2.2.toNat ++ b :=
    drop_append_of_le a b _ (by omega)
  have hv := consumeFieldValue_progress _ _ _ h3
  have hfv := consumeFieldValue_append (consumeTag a).1 (consumeTag a).2.1
    (a.drop (consumeTag a).2.2.toNat) b h3
  unfold parse1
  simp only [consumeTag_append a b h1, hd, hfv]
  rw [if_neg (by simp [h2]; omega), if_neg (by omega)]
  rw [List.take_append_of_le_length (by omega), drop_append_of_le _ _ _ (by omega), ← hr, ← hrest]

theorem consumeBytes_fst_length (x : Bytes) :
    (consumeBytes x).1 = [] ∨ (consumeBytes x).1.length + 1 ≤ x.length := by
  by_cases h : 0 ≤ (consumeBytes x).2
  · have := consumeBytes_progress x h; right; omega
  · left
    unfold consumeBytes at h ⊢
    simp only at h ⊢
    split
    · rfl
    · rename_i h1
      rw [if_neg h1] at h
      split
      · rfl
      · rename_i h2
        rw [if_neg h2] at h
        simp only at h
        have := consumeVarint_progress x (by omega)
        omega

theorem parse1_progress {b : Bytes} {r : Record} {rest : Bytes} (h : parse1 b = some (r, rest)) :
    rest.length < b.length ∧ r.payload.length + 2 ≤ b.length ∧ r.raw.length + rest.length < b.length := by
  obtain ⟨h1, h2, h3, hr, hrest⟩ := parse1_eq_some h
  have ht := consumeTag_progress b h1
  have hv := consumeFieldValue_progress _ _ _ h3
  simp only [List.length_drop] at hv
  have hraw : r.raw.length = (consumeFieldValue (consumeTag b).1 (consumeTag b).2.1 (b.drop (consumeTag b).2.2.toNat)).toNat := by
    rw [hr]; simp only [List.length_take, List.length_drop]; omega
  have hrl : rest.length = b.length - (consumeTag b).2.2.toNat - (consumeFieldValue (consumeTag b).1 (consumeTag b).2.1 (b.drop (consumeTag b).2.2.toNat)).toNat := by
    rw [hrest]; simp only [List.length_drop]
  refine ⟨by omega, ?_, by omega⟩
  unfold Record.payload
  rcases consumeBytes_fst_length r.raw with h0 | h0
  · rw [h0]; simp only [List.length_nil]; omega
  · omega

/-- the input is the consumed part followed by the rest -/
theorem parse1_split {b : Bytes} {r : Record} {rest : Bytes} (h : parse1 b = some (r, rest)) :
    ∃ t : Bytes, t ≠ [] ∧ b = t ++ r.raw ++ rest := by
  obtain ⟨h1, h2, h3, hr, hrest⟩ := parse1_eq_some h
  have ht := consumeTag_progress b h1
  refine ⟨b.take (consumeTag b).2.2.toNat, ?_, ?_⟩
  · intro h0
    have := congrArg List.length h0
    simp only [List.length_take, List.length_nil] at this
    omega
  · rw [hr, hrest]; simp only [List.append_assoc, List.take_append_drop]

/-! ## one-step characterisation -/

/-- body of `applyRec`, parametrised by the decoder used for nested messages -/
def apply1 (S : Schema) (dec : Nat → Bytes → Val → Option Val) (f : Field) (r : Record) (cur : Val) :
    Option Val :=
  match f.kind with
  | .scalar k =>
    if f.repeated then
      if r.wire = 2 ∧ !k.isBytes then
        (unpack k (r.payload.length + 1) r.payload).map fun xs => .list (cur.list! ++ xs.map Val.ofSVal)
      else (r.scalar k).map fun x => .list (cur.list! ++ [Val.ofSVal x])
    else (r.scalar k).map fun x => if f.pointer S then .some (Val.ofSVal x) else Val.ofSVal x
  | .enum =>
    if f.repeated then
      if r.wire = 2 then
        (unpack .int32 (r.payload.length + 1) r.payload).map fun xs => .list (cur.list! ++ xs.map Val.ofSVal)
      else (r.scalar .int32).map fun x => .list (cur.list! ++ [Val.ofSVal x])
    else (r.scalar .int32).map Val.ofSVal
  | .map k v =>
    if r.wire ≠ 2 then none
    else (mapEntry k v (r.payload.length + 1) r.payload (k.zero, v.zero)).map fun kv =>
      .map (Gen2.mapInsert (match cur with | .map es => es | _ => []) kv.1 kv.2 Gen2.keyEq)
  | .message id =>
    if r.wire ≠ 2 then none
    else if f.cat == 1 ∨ f.cat == 2 then
      (secNanos (r.payload.length + 1) r.payload (0, 0)).map fun s =>
        let c : Val := .num (if f.cat == 1 then tsOf s else durOf s)
        if f.repeated then .list (cur.list! ++ [if f.pointer S then .some c else c])
        else if f.pointer S then .some c else c
    else if f.repeated then
      (dec id r.payload (Gen2.zeroMsg S id)).map fun x => .list (cur.list! ++ [x])
    else if f.pointer S then
      (dec id r.payload (match cur with | .some x => x | _ => Gen2.zeroMsg S id)).map .some
    else dec id r.payload cur

theorem applyRec_succ (S : Schema) (n : Nat) (f : Field) (r : Record) (cur : Val) :
    applyRec S (n + 1) f r cur = apply1 S (specDec S n) f r cur := by
  rw [applyRec.eq_def]; rfl

/-- what an unknown record does to the message value -/
def captureRec (capture : Bool) (r : Record) (cur : Val) : Val :=
  if capture then
    (match cur with
     | .msg slots u => Val.msg slots (u ++ tag r.num r.wire ++ r.raw)
     | x => x)
  else cur

/-- the effect of one record on a message value of type `id`, given the field-level function -/
def step (S : Schema) (ap : Field → Record → Val → Option Val) (id : Nat) (r : Record) (cur : Val) :
    Option Val :=
  match findField (S.msg id).fields r.num with
  | none => some (captureRec (S.msg id).capture r cur)
  | some (i, f) =>
    if f.inOneof then
      (ap { f with oneof := 0 } r
        (match Gen2.getSlot cur i with | .some x => x | _ => Gen2.zeroField S { f with oneof := 0 })).map
        fun inner => Gen2.setSlot
          (match Gen2.getSlot cur i with | .some _ => cur | _ => Gen2.clearGroup (S.msg id).fields f.oneof i cur)
          i (.some inner)
    else (ap f r (Gen2.getSlot cur i)).map fun v => Gen2.setSlot cur i v

/-- sequencing body of `specDec` -/
def seq1 (S : Schema) (ap : Field → Record → Val → Option Val) (k : Bytes → Val → Option Val)
    (id : Nat) (b : Bytes) (cur : Val) : Option Val :=
  if b.isEmpty then some cur
  else match parse1 b with
    | none => none
    | some (r, rest) => (step S ap id r cur).bind (k rest)

theorem specDec_succ (S : Schema) (n id : Nat) (b : Bytes) (cur : Val) :
    specDec S (n + 1) id b cur = seq1 S (applyRec S n) (specDec S n id) id b cur := by
  rw [specDec.eq_def]; unfold seq1 step captureRec
  simp only
  split
  · rfl
  · cases parse1 b with
    | none => rfl
    | some p =>
      obtain ⟨r, rest⟩ := p
      simp only
      cases findField (S.msg id).fields r.num with
      | none => rfl
      | some q =>
        obtain ⟨i, f⟩ := q
        simp only
        split
        · cases applyRec S n { f with oneof := 0 } r _ <;> rfl
        · cases applyRec S n f r _ <;> rfl

/-! ## monotonicity / congruence of the bodies -/

theorem opt_map_mono {α β : Type} (g : α → β) {o o' : Option α} (h : ∀ a, o = some a → o' = some a)
    {v : β} (hv : o.map g = some v) : o'.map g = some v := by
  cases o with
  | none => cases hv
  | some a => rw [h a rfl]; exact hv

theorem apply1_mono (S : Schema) {dec dec' : Nat → Bytes → Val → Option Val} (f : Field) (r : Record)
    (cur : Val) (hd : ∀ id m v, dec id r.payload m = some v → dec' id r.payload m = some v) {v : Val}
    (h : apply1 S dec f r cur = some v) : apply1 S dec' f r cur = some v := by
  revert h
  unfold apply1
  cases f.kind with
  | scalar k => exact id
  | enum => exact id
  | map k v => exact id
  | message id =>
    simp only
    intro h
    by_cases h1 : r.wire ≠ 2
    · rw [if_pos h1] at h; cases h
    · rw [if_neg h1] at h ⊢
      by_cases h2 : (f.cat == 1) = true ∨ (f.cat == 2) = true
      · rw [if_pos h2] at h ⊢; exact h
      · rw [if_neg h2] at h ⊢
        by_cases h3 : f.repeated = true
        · rw [if_pos h3] at h ⊢
          exact opt_map_mono _ (hd _ _) h
        · rw [if_neg h3] at h ⊢
          by_cases h4 : f.pointer S = true
          · rw [if_pos h4] at h ⊢
            exact opt_map_mono _ (hd _ _) h
          · rw [if_neg h4] at h ⊢
            exact hd _ _ _ h

theorem apply1_congr (S : Schema) {dec dec' : Nat → Bytes → Val → Option Val} (f : Field) (r : Record)
    (cur : Val) (hd : ∀ id m, dec id r.payload m = dec' id r.payload m) :
    apply1 S dec f r cur = apply1 S dec' f r cur := by
  unfold apply1
  split
  · rfl
  · rfl
  · rfl
  · simp only [hd]

theorem step_mono (S : Schema) {ap ap' : Field → Record → Val → Option Val} (id : Nat) (r : Record)
    (cur : Val) (ha : ∀ f c v, ap f r c = some v → ap' f r c = some v) {v : Val}
    (h : step S ap id r cur = some v) : step S ap' id r cur = some v := by
  unfold step at h ⊢
  split
  · rename_i hf; simp only [hf] at h; exact h
  · rename_i i f hf
    simp only [hf] at h
    split
    · rename_i ho
      rw [if_pos ho] at h
      exact opt_map_mono _ (ha _ _) h
    · rename_i ho
      rw [if_neg ho] at h
      exact opt_map_mono _ (ha _ _) h

theorem step_congr (S : Schema) {ap ap' : Field → Record → Val → Option Val} (id : Nat) (r : Record)
    (cur : Val) (ha : ∀ f c, ap f r c = ap' f r c) : step S ap id r cur = step S ap' id r cur := by
  unfold step
  simp only [ha]

theorem seq1_mono (S : Schema) {ap ap' : Field → Record → Val → Option Val}
    {k k' : Bytes → Val → Option Val} (id : Nat) (b : Bytes) (cur : Val)
    (ha : ∀ r rest, parse1 b = some (r, rest) → ∀ f c v, ap f r c = some v → ap' f r c = some v)
    (hk : ∀ r rest, parse1 b = some (r, rest) → ∀ c v, k rest c = some v → k' rest c = some v) {v : Val}
    (h : seq1 S ap k id b cur = some v) : seq1 S ap' k' id b cur = some v := by
  unfold seq1 at h ⊢
  split
  · rename_i hb; rw [if_pos hb] at h; exact h
  · rename_i hb
    rw [if_neg hb] at h
    cases hp : parse1 b with
    | none => rw [hp] at h; cases h
    | some p =>
      obtain ⟨r, rest⟩ := p
      rw [hp] at h
      simp only at h ⊢
      cases hs : step S ap id r cur with
      | none => rw [hs] at h; cases h
      | some c =>
        rw [hs] at h
        rw [step_mono S id r cur (ha r rest hp) hs]
        exact hk r rest hp _ _ h

theorem seq1_congr (S : Schema) {ap ap' : Field → Record → Val → Option Val}
    {k k' : Bytes → Val → Option Val} (id : Nat) (b : Bytes) (cur : Val)
    (ha : ∀ r rest, parse1 b = some (r, rest) → ∀ f c, ap f r c = ap' f r c)
    (hk : ∀ r rest, parse1 b = some (r, rest) → ∀ c, k rest c = k' rest c) :
    seq1 S ap k id b cur = seq1 S ap' k' id b cur := by
  unfold seq1
  split
  · rfl
  · cases hp : parse1 b with
    | none => rfl
    | some p =>
      obtain ⟨r, rest⟩ := p
      simp only
      rw [step_congr S id r cur (ha r rest hp)]
      cases step S ap' id r cur with
      | none => rfl
      | some c => exact hk r rest hp c

/-! ## 1. fuel -/

theorem specDec_applyRec_mono (S : Schema) : ∀ n : Nat,
    (∀ id b m v, specDec S n id b m = some v → specDec S (n + 1) id b m = some v) ∧
    (∀ f r c v, applyRec S n f r c = some v → applyRec S (n + 1) f r c = some v) := by
  intro n
  induction n with
  | zero =>
    constructor
    · intro id b m v h; rw [specDec.eq_def] at h; cases h
    · intro f r c v h; rw [applyRec.eq_def] at h; cases h
  | succ n ih =>
    constructor
    · intro id b m v h
      rw [specDec_succ] at h ⊢
      exact seq1_mono S id b m (fun r _ _ f c v => ih.2 f r c v) (fun _ rest _ c v => ih.1 id rest c v) h
    · intro f r c v h
      rw [applyRec_succ] at h ⊢
      exact apply1_mono S f r c (fun id m v => ih.1 id _ m v) h

/-- a successful `specDec` is unchanged by more fuel -/
theorem specDec_mono (S : Schema) {n n' id : Nat} {b : Bytes} {m v : Val} (hle : n ≤ n')
    (h : specDec S n id b m = some v) : specDec S n' id b m = some v := by
  induction hle with
  | refl => exact h
  | step _ ih => exact (specDec_applyRec_mono S _).1 _ _ _ _ ih

theorem applyRec_mono (S : Schema) {n n' : Nat} {f : Field} {r : Record} {c v : Val} (hle : n ≤ n')
    (h : applyRec S n f r c = some v) : applyRec S n' f r c = some v := by
  induction hle with
  | refl => exact h
  | step _ ih => exact (specDec_applyRec_mono S _).2 _ _ _ _ ih

/-- with enough fuel the result does not depend on the fuel (so `none` means rejected) -/
theorem specDec_applyRec_stable (S : Schema) : ∀ n : Nat,
    (∀ id b m, 2 * b.length + 2 ≤ n → specDec S (n + 1) id b m = specDec S n id b m) ∧
    (∀ f r c, 2 * r.payload.length + 3 ≤ n → applyRec S (n + 1) f r c = applyRec S n f r c) := by
  intro n
  induction n with
  | zero => exact ⟨fun _ _ _ h => by omega, fun _ _ _ h => by omega⟩
  | succ n ih =>
    constructor
    · intro id b m hn
      rw [specDec_succ, specDec_succ]
      apply seq1_congr
      · intro r rest hp f c
        have := parse1_progress hp
        exact ih.2 f r c (by omega)
      · intro r rest hp c
        have := parse1_progress hp
        exact ih.1 id rest c (by omega)
    · intro f r c hn
      rw [applyRec_succ, applyRec_succ]
      apply apply1_congr
      intro id m
      exact ih.1 id _ m (by omega)

theorem specDec_stable (S : Schema) {n id : Nat} {b : Bytes} {m : Val} (hn : 2 * b.length + 2 ≤ n)
    (k : Nat) : specDec S (n + k) id b m = specDec S n id b m := by
  induction k with
  | zero => rfl
  | succ k ih => rw [← Nat.add_assoc, (specDec_applyRec_stable S (n + k)).1 id b m (by omega), ih]

theorem applyRec_stable (S : Schema) {n : Nat} {f : Field} {r : Record} {c : Val}
    (hn : 2 * r.payload.length + 3 ≤ n) (k : Nat) : applyRec S (n + k) f r c = applyRec S n f r c := by
  induction k with
  | zero => rfl
  | succ k ih => rw [← Nat.add_assoc, (specDec_applyRec_stable S (n + k)).2 f r c (by omega), ih]

/-- the statement asked for -/
theorem specDec_fuel_enough (S : Schema) (id : Nat) (b : Bytes) (m : Val) (k : Nat) :
    specDec S (2 * b.length + 2) id b m = specDec S (2 * b.length + 2 + k) id b m :=
  (specDec_stable S (Nat.le_refl _) k).symm

theorem specDec_of_ge (S : Schema) {n id : Nat} {b : Bytes} {m : Val} (hn : 2 * b.length + 2 ≤ n) :
    specDec S n id b m = specUnmarshal S id b m := by
  obtain ⟨k, rfl⟩ := Nat.exists_eq_add_of_le hn
  exact specDec_stable S (Nat.le_refl _) k

/-- any successful run agrees with the sufficient-fuel run -/
theorem specDec_some_unmarshal (S : Schema) {n id : Nat} {b : Bytes} {m v : Val}
    (h : specDec S n id b m = some v) : specUnmarshal S id b m = some v := by
  have h' := specDec_mono S (Nat.le_max_left n (2 * b.length + 2)) h
  rw [specDec_of_ge S (Nat.le_max_right _ _)] at h'
  exact h'

/-! ## fuel-free unfolding of `specUnmarshal` -/

/-- the field-level effect of one record at sufficient fuel -/
def applyU (S : Schema) (f : Field) (r : Record) (cur : Val) : Option Val :=
  apply1 S (specUnmarshal S) f r cur

theorem applyRec_of_ge (S : Schema) {n : Nat} {f : Field} {r : Record} {c : Val}
    (hn : 2 * r.payload.length + 3 ≤ n) : applyRec S n f r c = applyU S f r c := by
  obtain ⟨k, rfl⟩ := Nat.exists_eq_add_of_le hn
  rw [applyRec_stable S (Nat.le_refl _) k]
  show applyRec S (2 * r.payload.length + 2 + 1) f r c = _
  rw [applyRec_succ]
  rfl

/-- the message-level effect of one record at sufficient fuel -/
def stepU (S : Schema) (id : Nat) (r : Record) (cur : Val) : Option Val := step S (applyU S) id r cur

theorem specUnmarshal_nil (S : Schema) (id : Nat) (m : Val) : specUnmarshal S id [] m = some m := by
  unfold specUnmarshal; rw [specDec_succ]; rfl

theorem specUnmarshal_cons (S : Schema) (id : Nat) {b : Bytes} {r : Record} {rest : Bytes} (m : Val)
    (hp : parse1 b = some (r, rest)) :
    specUnmarshal S id b m = (stepU S id r m).bind (specUnmarshal S id rest) := by
  have hpr := parse1_progress hp
  have hb : b.isEmpty = false := by
    cases b with
    | nil => rw [parse1_nil] at hp; cases hp
    | cons _ _ => rfl
  unfold specUnmarshal
  show specDec S (2 * b.length + 1 + 1) id b m = _
  rw [specDec_succ]
  unfold seq1
  simp only [hb, hp, Bool.false_eq_true, ↓reduceIte]
  unfold stepU
  rw [step_congr S id r m (ap' := applyU S) (fun f c => applyRec_of_ge S (by omega))]
  cases step S (applyU S) id r m with
  | none => rfl
  | some c => exact specDec_of_ge S (by omega)

theorem specUnmarshal_none (S : Schema) (id : Nat) {b : Bytes} (m : Val) (hb : b ≠ [])
    (hp : parse1 b = none) : specUnmarshal S id b m = none := by
  have hb : b.isEmpty = false := by
    cases b with
    | nil => exact absurd rfl hb
    | cons _ _ => rfl
  unfold specUnmarshal
  rw [specDec_succ]
  unfold seq1
  simp only [hb, hp, Bool.false_eq_true, ↓reduceIte]

/-! ## 3. C09 — concatenation -/

theorem specUnmarshal_append_aux (S : Schema) (id : Nat) (b : Bytes) : ∀ (n : Nat) (a : Bytes) (m m1 : Val),
    a.length ≤ n → specUnmarshal S id a m = some m1 →
    specUnmarshal S id (a ++ b) m = specUnmarshal S id b m1 := by
  intro n
  induction n with
  | zero =>
    intro a m m1 hn h
    have : a = [] := List.eq_nil_of_length_eq_zero (by omega)
    subst this
    rw [specUnmarshal_nil] at h; cases h; rfl
  | succ n ih =>
    intro a m m1 hn h
    by_cases ha : a = []
    · subst ha; rw [specUnmarshal_nil] at h; cases h; rfl
    · cases hp : parse1 a with
      | none => rw [specUnmarshal_none S id m ha hp] at h; cases h
      | some p =>
        obtain ⟨r, rest⟩ := p
        rw [specUnmarshal_cons S id m hp] at h
        rw [specUnmarshal_cons S id m (parse1_append b hp)]
        cases hs : stepU S id r m with
        | none => rw [hs] at h; cases h
        | some c =>
          rw [hs] at h
          have := parse1_progress hp
          exact ih rest c m1 (by omega) h

/-- C09: if `a` decodes from `m` to `m1`, decoding `a ++ b` from `m` is decoding `b` from `m1`
(success and rejection alike) -/
theorem specUnmarshal_append (S : Schema) (id : Nat) {a : Bytes} (b : Bytes) {m m1 : Val}
    (h : specUnmarshal S id a m = some m1) :
    specUnmarshal S id (a ++ b) m = specUnmarshal S id b m1 :=
  specUnmarshal_append_aux S id b a.length a m m1 (Nat.le_refl _) h

/-- (i) success composes, at any fuels; the concatenation decodes at every sufficient fuel -/
theorem specDec_append (S : Schema) {f1 f2 id : Nat} {a b : Bytes} {m m1 m2 : Val}
    (h1 : specDec S f1 id a m = some m1) (h2 : specDec S f2 id b m1 = some m2) :
    ∀ f, 2 * (a ++ b).length + 2 ≤ f → specDec S f id (a ++ b) m = some m2 := by
  intro f hf
  rw [specDec_of_ge S hf, specUnmarshal_append S id b (specDec_some_unmarshal S h1)]
  exact specDec_some_unmarshal S h2

theorem specDec_append_exists (S : Schema) {f1 f2 id : Nat} {a b : Bytes} {m m1 m2 : Val}
    (h1 : specDec S f1 id a m = some m1) (h2 : specDec S f2 id b m1 = some m2) :
    ∃ f, specDec S f id (a ++ b) m = some m2 :=
  ⟨_, specDec_append S h1 h2 _ (Nat.le_refl _)⟩

/-- (ii) rejection composes: `a` decodes to `m1`, `b` is rejected from `m1` at sufficient fuel ⇒
`a ++ b` is rejected at every fuel -/
theorem specDec_append_reject (S : Schema) {f1 f2 id : Nat} {a b : Bytes} {m m1 : Val}
    (h1 : specDec S f1 id a m = some m1) (hf2 : 2 * b.length + 2 ≤ f2)
    (h2 : specDec S f2 id b m1 = none) : ∀ f, specDec S f id (a ++ b) m = none := by
  intro f
  cases h : specDec S f id (a ++ b) m with
  | none => rfl
  | some v =>
    have := specDec_some_unmarshal S h
    rw [specUnmarshal_append S id b (specDec_some_unmarshal S h1), ← specDec_of_ge S hf2, h2] at this
    cases this

theorem specDec_nil (S : Schema) (f id : Nat) (m : Val) : specDec S (f + 1) id [] m = some m := by
  rw [specDec_succ]; rfl

/-- for a complete sequence of records `a` the law holds without assuming that `a` decodes -/
theorem specUnmarshal_append_records (S : Schema) (id : Nat) (b : Bytes) : ∀ (n : Nat) (a : Bytes)
    (rs : List Record) (m : Val), records n a = some rs →
    specUnmarshal S id (a ++ b) m = (specUnmarshal S id a m).bind (specUnmarshal S id b) := by
  intro n
  induction n with
  | zero => intro a rs m h; rw [records] at h; cases h
  | succ n ih =>
    intro a rs m h
    rw [records] at h
    by_cases ha : a = []
    · subst ha; rw [specUnmarshal_nil]; rfl
    · have hb : a.isEmpty = false := by
        cases a with
        | nil => exact absurd rfl ha
        | cons _ _ => rfl
      simp only [hb, Bool.false_eq_true, ↓reduceIte] at h
      cases hp : parse1 a with
      | none => rw [hp] at h; cases h
      | some p =>
        obtain ⟨r, rest⟩ := p
        rw [hp] at h
        simp only at h
        cases hr : records n rest with
        | none => rw [hr] at h; cases h
        | some rs' =>
          rw [specUnmarshal_cons S id m hp, specUnmarshal_cons S id m (parse1_append b hp)]
          cases stepU S id r m with
          | none => rfl
          | some c => exact ih rest rs' c hr

/-- decoding a list of encodings one after the other, threading the value -/
def specDecAll (S : Schema) (id : Nat) : List Bytes → Val → Option Val
  | [], m => some m
  | b :: bs, m => (specUnmarshal S id b m).bind (specDecAll S id bs)

theorem specDecAll_flatten (S : Schema) (id : Nat) : ∀ (bs : List Bytes) (m v : Val),
    specDecAll S id bs m = some v → specUnmarshal S id bs.flatten m = some v := by
  intro bs
  induction bs with
  | nil => intro m v h; simp only [specDecAll] at h; cases h; exact specUnmarshal_nil S id m
  | cons b bs ih =>
    intro m v h
    simp only [specDecAll] at h
    cases h1 : specUnmarshal S id b m with
    | none => rw [h1] at h; cases h
    | some m1 =>
      rw [h1] at h
      simp only [List.flatten_cons]
      rw [specUnmarshal_append S id _ h1]
      exact ih m1 v h

/-- when every piece is a complete sequence of records, the fold *equals* decoding the concatenation -/
theorem specDecAll_eq_flatten (S : Schema) (id : Nat) : ∀ (bs : List Bytes) (m : Val),
    (∀ b ∈ bs, (records (b.length + 1) b).isSome) →
    specUnmarshal S id bs.flatten m = specDecAll S id bs m := by
  intro bs
  induction bs with
  | nil => intro m _; exact specUnmarshal_nil S id m
  | cons b bs ih =>
    intro m hall
    simp only [List.flatten_cons, specDecAll]
    have hb := hall b (List.mem_cons_self)
    cases hr : records (b.length + 1) b with
    | none => rw [hr] at hb; cases hb
    | some rs =>
      rw [specUnmarshal_append_records S id _ _ b rs m hr]
      cases specUnmarshal S id b m with
      | none => rfl
      | some m1 => exact ih m1 (fun x hx => hall x (List.mem_cons_of_mem _ hx))

/-! ## fuel for `unpack`, `secNanos`, `mapEntry` -/

/-- one packed element -/
def unpackElem (k : Scalar) (b : Bytes) : Nat × Int :=
  match k.wire with
  | 0 => consumeVarint b
  | 5 => consumeFixed32 b
  | _ => consumeFixed64 b

theorem unpack_succ (k : Scalar) (n : Nat) (b : Bytes) :
    unpack k (n + 1) b =
      if b.isEmpty then some []
      else if (unpackElem k b).2 < 0 then none
      else (unpack k n (b.drop (unpackElem k b).2.toNat)).map (.num (scalarOfBits k (unpackElem k b).1) :: ·) := by
  rw [unpack]; rfl

theorem unpackElem_progress (k : Scalar) (b : Bytes) (h : 0 ≤ (unpackElem k b).2) :
    1 ≤ (unpackElem k b).2 ∧ (unpackElem k b).2 ≤ b.length := by
  unfold unpackElem at h ⊢
  split at h
  · exact consumeVarint_progress b h
  · have := consumeFixed32_progress b h; omega
  · have := consumeFixed64_progress b h; omega

theorem unpack_mono1 (k : Scalar) : ∀ (n : Nat) (b : Bytes) (xs : List Enc.SVal),
    unpack k n b = some xs → unpack k (n + 1) b = some xs := by
  intro n
  induction n with
  | zero => intro b xs h; rw [unpack] at h; cases h
  | succ n ih =>
    intro b xs h
    rw [unpack_succ] at h ⊢
    split
    · rename_i hb; rw [if_pos hb] at h; exact h
    · rename_i hb
      rw [if_neg hb] at h
      split
      · rename_i hn; rw [if_pos hn] at h; exact h
      · rename_i hn
        rw [if_neg hn] at h
        exact opt_map_mono _ (ih _) h

theorem unpack_mono (k : Scalar) {n n' : Nat} {b : Bytes} {xs : List Enc.SVal} (hle : n ≤ n')
    (h : unpack k n b = some xs) : unpack k n' b = some xs := by
  induction hle with
  | refl => exact h
  | step _ ih => exact unpack_mono1 k _ _ _ ih

theorem unpack_stable1 (k : Scalar) : ∀ (n : Nat) (b : Bytes), b.length + 1 ≤ n →
    unpack k (n + 1) b = unpack k n b := by
  intro n
  induction n with
  | zero => intro b h; omega
  | succ n ih =>
    intro b hn
    rw [unpack_succ k (n + 1) b, unpack_succ k n b]
    split
    · rfl
    · split
      · rfl
      · rename_i hneg
        have := unpackElem_progress k b (by omega)
        rw [ih _ (by simp only [List.length_drop]; omega)]

theorem unpack_fuel_enough (k : Scalar) (b : Bytes) (j : Nat) :
    unpack k (b.length + 1) b = unpack k (b.length + 1 + j) b := by
  induction j with
  | zero => rfl
  | succ j ih => rw [← Nat.add_assoc, unpack_stable1 k (b.length + 1 + j) b (by omega), ih]

theorem secNanos_succ (n : Nat) (b : Bytes) (s : Nat × Nat) :
    secNanos (n + 1) b s =
      if b.isEmpty then some s
      else match parse1 b with
        | none => none
        | some (r, rest) =>
          if r.num = 1 then
            (match r.scalar .int64 with | some v => secNanos n rest (v.num!, s.2) | none => none)
          else if r.num = 2 then
            (match r.scalar .int32 with | some v => secNanos n rest (s.1, v.num!) | none => none)
          else secNanos n rest s := by
  rw [secNanos]; rfl

theorem secNanos_mono1 : ∀ (n : Nat) (b : Bytes) (s v : Nat × Nat),
    secNanos n b s = some v → secNanos (n + 1) b s = some v := by
  intro n
  induction n with
  | zero => intro b s v h; rw [secNanos] at h; cases h
  | succ n ih =>
    intro b s v h
    rw [secNanos_succ] at h ⊢
    split
    · rename_i hb; rw [if_pos hb] at h; exact h
    · rename_i hb
      rw [if_neg hb] at h
      cases hp : parse1 b with
      | none => rw [hp] at h; cases h
      | some p =>
        obtain ⟨r, rest⟩ := p
        rw [hp] at h
        simp only at h ⊢
        split
        · rename_i h1
          rw [if_pos h1] at h
          cases hsc : r.scalar .int64 with
          | none => rw [hsc] at h; cases h
          | some x => rw [hsc] at h; exact ih _ _ _ h
        · rename_i h1
          rw [if_neg h1] at h
          split
          · rename_i h2
            rw [if_pos h2] at h
            cases hsc : r.scalar .int32 with
            | none => rw [hsc] at h; cases h
            | some x => rw [hsc] at h; exact ih _ _ _ h
          · rename_i h2
            rw [if_neg h2] at h
            exact ih _ _ _ h

theorem secNanos_mono {n n' : Nat} {b : Bytes} {s v : Nat × Nat} (hle : n ≤ n')
    (h : secNanos n b s = some v) : secNanos n' b s = some v := by
  induction hle with
  | refl => exact h
  | step _ ih => exact secNanos_mono1 _ _ _ _ ih

theorem secNanos_stable1 : ∀ (n : Nat) (b : Bytes) (s : Nat × Nat), b.length + 1 ≤ n →
    secNanos (n + 1) b s = secNanos n b s := by
  intro n
  induction n with
  | zero => intro b s h; omega
  | succ n ih =>
    intro b s hn
    rw [secNanos_succ (n + 1) b s, secNanos_succ n b s]
    split
    · rfl
    · cases hp : parse1 b with
      | none => rfl
      | some p =>
        obtain ⟨r, rest⟩ := p
        have hpr := parse1_progress hp
        have e : ∀ s', secNanos (n + 1) rest s' = secNanos n rest s' := fun s' => ih rest s' (by omega)
        simp only [e]

theorem secNanos_fuel_enough (b : Bytes) (s : Nat × Nat) (j : Nat) :
    secNanos (b.length + 1) b s = secNanos (b.length + 1 + j) b s := by
  induction j with
  | zero => rfl
  | succ j ih => rw [← Nat.add_assoc, secNanos_stable1 (b.length + 1 + j) b s (by omega), ih]

theorem mapEntry_succ (k v : Scalar) (n : Nat) (b : Bytes) (kv : Val × Val) :
    mapEntry k v (n + 1) b kv =
      if b.isEmpty then some kv
      else match parse1 b with
        | none => none
        | some (r, rest) =>
          if r.num = 1 then
            (match r.scalar k with | some x => mapEntry k v n rest (Val.ofSVal x, kv.2) | none => none)
          else if r.num = 2 then
            (match r.scalar v with | some x => mapEntry k v n rest (kv.1, Val.ofSVal x) | none => none)
          else mapEntry k v n rest kv := by
  rw [mapEntry]; rfl

theorem mapEntry_mono1 (k v : Scalar) : ∀ (n : Nat) (b : Bytes) (kv w : Val × Val),
    mapEntry k v n b kv = some w → mapEntry k v (n + 1) b kv = some w := by
  intro n
  induction n with
  | zero => intro b s w h; rw [mapEntry] at h; cases h
  | succ n ih =>
    intro b s w h
    rw [mapEntry_succ] at h ⊢
    split
    · rename_i hb; rw [if_pos hb] at h; exact h
    · rename_i hb
      rw [if_neg hb] at h
      cases hp : parse1 b with
      | none => rw [hp] at h; cases h
      | some p =>
        obtain ⟨r, rest⟩ := p
        rw [hp] at h
        simp only at h ⊢
        split
        · rename_i h1
          rw [if_pos h1] at h
          cases hsc : r.scalar k with
          | none => rw [hsc] at h; cases h
          | some x => rw [hsc] at h; exact ih _ _ _ h
        · rename_i h1
          rw [if_neg h1] at h
          split
          · rename_i h2
            rw [if_pos h2] at h
            cases hsc : r.scalar v with
            | none => rw [hsc] at h; cases h
            | some x => rw [hsc] at h; exact ih _ _ _ h
          · rename_i h2
            rw [if_neg h2] at h
            exact ih _ _ _ h

theorem mapEntry_mono (k v : Scalar) {n n' : Nat} {b : Bytes} {kv w : Val × Val} (hle : n ≤ n')
    (h : mapEntry k v n b kv = some w) : mapEntry k v n' b kv = some w := by
  induction hle with
  | refl => exact h
  | step _ ih => exact mapEntry_mono1 k v _ _ _ _ ih

theorem mapEntry_stable1 (k v : Scalar) : ∀ (n : Nat) (b : Bytes) (kv : Val × Val), b.length + 1 ≤ n →
    mapEntry k v (n + 1) b kv = mapEntry k v n b kv := by
  intro n
  induction n with
  | zero => intro b s h; omega
  | succ n ih =>
    intro b s hn
    rw [mapEntry_succ k v (n + 1) b s, mapEntry_succ k v n b s]
    split
    · rfl
    · cases hp : parse1 b with
      | none => rfl
      | some p =>
        obtain ⟨r, rest⟩ := p
        have hpr := parse1_progress hp
        have e : ∀ s', mapEntry k v (n + 1) rest s' = mapEntry k v n rest s' :=
          fun s' => ih rest s' (by omega)
        simp only [e]

theorem mapEntry_fuel_enough (k v : Scalar) (b : Bytes) (kv : Val × Val) (j : Nat) :
    mapEntry k v (b.length + 1) b kv = mapEntry k v (b.length + 1 + j) b kv := by
  induction j with
  | zero => rfl
  | succ j ih => rw [← Nat.add_assoc, mapEntry_stable1 k v (b.length + 1 + j) b kv (by omega), ih]

/-! ## 5. C05 — acceptance is well-formedness -/

theorem scalar_isSome (r : Record) (k : Scalar) : (r.scalar k).isSome = decide (r.wire = k.wire) := by
  unfold Record.scalar
  by_cases h : r.wire = k.wire
  · simp only [h, ne_eq, not_true_eq_false, ↓reduceIte, decide_true]
    split <;> rfl
  · simp only [ne_eq, h, not_false_eq_true, ↓reduceIte, Option.isSome_none, decide_false]

theorem scalar_cases (r : Record) (k : Scalar) :
    (r.wire = k.wire ∧ ∃ x, r.scalar k = some x) ∨ (r.wire ≠ k.wire ∧ r.scalar k = none) := by
  have := scalar_isSome r k
  by_cases h : r.wire = k.wire
  · left
    rw [decide_eq_true h] at this
    cases hs : r.scalar k with
    | none => rw [hs] at this; cases this
    | some x => exact ⟨h, x, rfl⟩
  · right
    rw [decide_eq_false h] at this
    cases hs : r.scalar k with
    | none => exact ⟨h, rfl⟩
    | some x => rw [hs] at this; cases this

theorem records_succ (n : Nat) (b : Bytes) :
    records (n + 1) b =
      if b.isEmpty then some []
      else match parse1 b with
        | none => none
        | some (r, rest) => (records n rest).map (r :: ·) := by
  rw [records]; rfl

/-- acceptance by the two-field entry readers, as a predicate on the record sequence -/
def entryAll (w1 w2 : Nat) (n : Nat) (b : Bytes) : Bool :=
  match records n b with
  | none => false
  | some rs => rs.all (entryRecOk w1 w2)

theorem entryAll_zero (w1 w2 : Nat) (b : Bytes) : entryAll w1 w2 0 b = false := by
  unfold entryAll; rw [records]

theorem entryAll_succ (w1 w2 : Nat) (n : Nat) (b : Bytes) :
    entryAll w1 w2 (n + 1) b =
      if b.isEmpty then true
      else match parse1 b with
        | none => false
        | some (r, rest) => entryRecOk w1 w2 r && entryAll w1 w2 n rest := by
  unfold entryAll
  rw [records_succ]
  by_cases hb : b.isEmpty = true
  · simp only [hb, ↓reduceIte, List.all_nil]
  · simp only [hb, Bool.false_eq_true, ↓reduceIte]
    cases parse1 b with
    | none => rfl
    | some p =>
      obtain ⟨r, rest⟩ := p
      simp only
      cases records n rest with
      | none => simp
      | some rs => simp

theorem mapEntry_isSome (k v : Scalar) : ∀ (n : Nat) (b : Bytes) (kv : Val × Val),
    (mapEntry k v n b kv).isSome = entryAll k.wire v.wire n b := by
  intro n
  induction n with
  | zero => intro b kv; rw [entryAll_zero, mapEntry]; rfl
  | succ n ih =>
    intro b kv
    rw [mapEntry_succ, entryAll_succ]
    split
    · rfl
    · cases parse1 b with
      | none => rfl
      | some p =>
        obtain ⟨r, rest⟩ := p
        simp only
        unfold entryRecOk
        split
        · rcases scalar_cases r k with ⟨hw, x, hx⟩ | ⟨hw, hx⟩
          · rw [hx]; simp only [hw, beq_self_eq_true, Bool.true_and]; exact ih _ _
          · rw [hx]; simp only [beq_eq_false_iff_ne.mpr hw, Bool.false_and]; rfl
        · split
          · rcases scalar_cases r v with ⟨hw, x, hx⟩ | ⟨hw, hx⟩
            · rw [hx]; simp only [hw, beq_self_eq_true, Bool.true_and]; exact ih _ _
            · rw [hx]; simp only [beq_eq_false_iff_ne.mpr hw, Bool.false_and]; rfl
          · simp only [Bool.true_and]; exact ih _ _

theorem secNanos_isSome : ∀ (n : Nat) (b : Bytes) (s : Nat × Nat),
    (secNanos n b s).isSome = entryAll 0 0 n b := by
  intro n
  induction n with
  | zero => intro b kv; rw [entryAll_zero, secNanos]; rfl
  | succ n ih =>
    intro b kv
    rw [secNanos_succ, entryAll_succ]
    split
    · rfl
    · cases parse1 b with
      | none => rfl
      | some p =>
        obtain ⟨r, rest⟩ := p
        simp only
        unfold entryRecOk
        split
        · rcases scalar_cases r .int64 with ⟨hw, x, hx⟩ | ⟨hw, hx⟩
          · replace hw : r.wire = 0 := hw
            rw [hx]; simp only [hw, beq_self_eq_true, Bool.true_and]; exact ih _ _
          · replace hw : r.wire ≠ 0 := hw
            rw [hx]; simp only [beq_eq_false_iff_ne.mpr hw, Bool.false_and]; rfl
        · split
          · rcases scalar_cases r .int32 with ⟨hw, x, hx⟩ | ⟨hw, hx⟩
            · replace hw : r.wire = 0 := hw
              rw [hx]; simp only [hw, beq_self_eq_true, Bool.true_and]; exact ih _ _
            · replace hw : r.wire ≠ 0 := hw
              rw [hx]; simp only [beq_eq_false_iff_ne.mpr hw, Bool.false_and]; rfl
          · simp only [Bool.true_and]; exact ih _ _

theorem recOk_succ (S : Schema) (n : Nat) (f : Field) (r : Record) :
    recOk S (n + 1) f r =
      match f.kind with
      | .scalar k =>
        if f.repeated then
          if r.wire = 2 ∧ !k.isBytes then unpackOk k r.payload else decide (r.wire = k.wire)
        else decide (r.wire = k.wire)
      | .enum =>
        if f.repeated then
          if r.wire = 2 then unpackOk .int32 r.payload else decide (r.wire = 0)
        else decide (r.wire = 0)
      | .map k v => decide (r.wire = 2) && entryOk k.wire v.wire r.payload
      | .message id =>
        decide (r.wire = 2) &&
          (if f.cat == 1 ∨ f.cat == 2 then entryOk 0 0 r.payload else wellFormed S n id r.payload) := by
  rw [recOk.eq_def]; rfl

theorem wellFormed_succ (S : Schema) (n id : Nat) (b : Bytes) :
    wellFormed S (n + 1) id b =
      if b.isEmpty then true
      else match parse1 b with
        | none => false
        | some (r, rest) =>
          (match findField (S.msg id).fields r.num with
           | none => true
           | some (_, f) => recOk S n f r) && wellFormed S n id rest := by
  rw [wellFormed.eq_def]; rfl

theorem recOk_oneof (S : Schema) (n : Nat) (f : Field) (r : Record) :
    recOk S n { f with oneof := 0 } r = recOk S n f r := by
  cases n with
  | zero => rw [recOk.eq_def, recOk.eq_def]
  | succ n => rw [recOk_succ, recOk_succ]; rfl

theorem opt_map_isSome {α β : Type} (g : α → β) (o : Option α) : (o.map g).isSome = o.isSome := by
  cases o <;> rfl

/-- acceptance never depends on the value decoded into: at *every* fuel -/
theorem specDec_applyRec_isSome (S : Schema) : ∀ n : Nat,
    (∀ id b m, (specDec S n id b m).isSome = wellFormed S n id b) ∧
    (∀ f r c, (applyRec S n f r c).isSome = recOk S n f r) := by
  intro n
  induction n with
  | zero =>
    constructor
    · intro id b m; rw [specDec.eq_def, wellFormed.eq_def]; rfl
    · intro f r c; rw [applyRec.eq_def, recOk.eq_def]; rfl
  | succ n ih =>
    constructor
    · intro id b m
      rw [specDec_succ, wellFormed_succ]
      unfold seq1
      split
      · rfl
      · cases parse1 b with
        | none => rfl
        | some p =>
          obtain ⟨r, rest⟩ := p
          simp only
          unfold step
          cases findField (S.msg id).fields r.num with
          | none => simp only [Option.bind_some, Bool.true_and]; exact ih.1 _ _ _
          | some q =>
            obtain ⟨i, f⟩ := q
            simp only
            split
            · rw [← recOk_oneof, ← ih.2 _ r
                (match Gen2.getSlot m i with | .some x => x | _ => Gen2.zeroField S { f with oneof := 0 })]
              cases applyRec S n { f with oneof := 0 } r _ with
              | none => rfl
              | some x => simp only [Option.map_some, Option.bind_some, Option.isSome_some, Bool.true_and]; exact ih.1 _ _ _
            · rw [← ih.2 f r (Gen2.getSlot m i)]
              cases applyRec S n f r _ with
              | none => rfl
              | some x => simp only [Option.map_some, Option.bind_some, Option.isSome_some, Bool.true_and]; exact ih.1 _ _ _
    · intro f r c
      rw [applyRec_succ, recOk_succ]
      unfold apply1
      cases f.kind with
      | scalar k =>
        simp only
        split
        · split
          · rw [opt_map_isSome]; rfl
          · rw [opt_map_isSome, scalar_isSome]
        · rw [opt_map_isSome, scalar_isSome]
      | enum =>
        simp only
        split
        · split
          · rw [opt_map_isSome]; rfl
          · rw [opt_map_isSome, scalar_isSome]; rfl
        · rw [opt_map_isSome, scalar_isSome]; rfl
      | map k v =>
        simp only
        by_cases hw : r.wire = 2
        · simp only [hw, ne_eq, not_true_eq_false, ↓reduceIte, decide_true, Bool.true_and]
          rw [opt_map_isSome, mapEntry_isSome]; rfl
        · simp only [ne_eq, hw, not_false_eq_true, ↓reduceIte, decide_false, Bool.false_and]; rfl
      | message id =>
        simp only
        by_cases hw : r.wire = 2
        · simp only [hw, ne_eq, not_true_eq_false, ↓reduceIte, decide_true, Bool.true_and]
          split
          · rw [opt_map_isSome, secNanos_isSome]; rfl
          · split
            · rw [opt_map_isSome]; exact ih.1 _ _ _
            · split
              · rw [opt_map_isSome]; exact ih.1 _ _ _
              · exact ih.1 _ _ _
        · simp only [ne_eq, hw, not_false_eq_true, ↓reduceIte, decide_false, Bool.false_and]; rfl

/-- C05: acceptance by the specification decoder is exactly well-formedness of the bytes — at every
fuel and for every value decoded into (no shape condition on `m` is needed: `getSlot`, `setSlot`,
`list!` are total) -/
theorem specDec_isSome_eq_wellFormed (S : Schema) (n id : Nat) (b : Bytes) (m : Val) :
    (specDec S n id b m).isSome = wellFormed S n id b :=
  (specDec_applyRec_isSome S n).1 id b m

theorem applyRec_isSome_eq_recOk (S : Schema) (n : Nat) (f : Field) (r : Record) (c : Val) :
    (applyRec S n f r c).isSome = recOk S n f r :=
  (specDec_applyRec_isSome S n).2 f r c

theorem specDec_ok_iff_wellFormed (S : Schema) (id : Nat) (b : Bytes) (m : Val) :
    (specDec S (2 * b.length + 2) id b m).isSome = wellFormed S (2 * b.length + 2) id b :=
  specDec_isSome_eq_wellFormed S _ id b m

/-- acceptance does not depend on the value decoded into -/
theorem specDec_isSome_indep (S : Schema) (n id : Nat) (b : Bytes) (m m' : Val) :
    (specDec S n id b m).isSome = (specDec S n id b m').isSome := by
  rw [specDec_isSome_eq_wellFormed, specDec_isSome_eq_wellFormed]

/-- `wellFormed` at sufficient fuel does not depend on the fuel -/
theorem wellFormed_fuel_enough (S : Schema) (id : Nat) (b : Bytes) (k : Nat) :
    wellFormed S (2 * b.length + 2) id b = wellFormed S (2 * b.length + 2 + k) id b := by
  rw [← specDec_isSome_eq_wellFormed S _ id b .none, ← specDec_isSome_eq_wellFormed S _ id b .none,
    ← specDec_fuel_enough]

theorem wellFormed_mono (S : Schema) {n n' id : Nat} {b : Bytes} (hle : n ≤ n')
    (h : wellFormed S n id b = true) : wellFormed S n' id b = true := by
  rw [← specDec_isSome_eq_wellFormed S _ id b .none] at h ⊢
  cases hs : specDec S n id b .none with
  | none => rw [hs] at h; cases h
  | some v => rw [specDec_mono S hle hs]; rfl

/-! ### truncation -/

/-- no proper prefix of a single record tokenizes -/
theorem parse1_prefix_none {p q : Bytes} {r : Record} (h : parse1 (p ++ q) = some (r, []))
    (hq : q ≠ []) : parse1 p = none := by
  cases hp : parse1 p with
  | none => rfl
  | some x =>
    obtain ⟨r', rest'⟩ := x
    have := parse1_append q hp
    rw [h] at this
    simp only [Option.some.injEq, Prod.mk.injEq] at this
    have h2 := this.2
    have : q = [] := (List.append_eq_nil_iff.mp h2.symm).2
    exact absurd this hq

/-- the same when the record is followed by more input: a cut strictly inside the first record -/
theorem parse1_take_none {b : Bytes} {r : Record} {rest : Bytes} (h : parse1 b = some (r, rest))
    {k : Nat} (hk : k < b.length - rest.length) : parse1 (b.take k) = none := by
  cases hp : parse1 (b.take k) with
  | none => rfl
  | some x =>
    obtain ⟨r', rest'⟩ := x
    have := parse1_append (b.drop k) hp
    rw [List.take_append_drop, h] at this
    simp only [Option.some.injEq, Prod.mk.injEq] at this
    have h2 := congrArg List.length this.2
    simp only [List.length_append, List.length_drop] at h2
    omega

/-- a complete record sequence followed by a truncated record is rejected, at every fuel, whatever
is decoded into -/
theorem truncation_rejected_specDec (S : Schema) (id : Nat) {n : Nat} {a p q : Bytes} {rs : List Record}
    {r : Record} (ha : records n a = some rs) (h : parse1 (p ++ q) = some (r, [])) (hp : p ≠ [])
    (hq : q ≠ []) (f : Nat) (m : Val) : specDec S f id (a ++ p) m = none := by
  cases hs : specDec S f id (a ++ p) m with
  | none => rfl
  | some v =>
    have := specDec_some_unmarshal S hs
    rw [specUnmarshal_append_records S id p n a rs m ha] at this
    cases hu : specUnmarshal S id a m with
    | none => rw [hu] at this; cases this
    | some c =>
      rw [hu, Option.bind_some, specUnmarshal_none S id c hp (parse1_prefix_none h hq)] at this
      cases this

theorem truncation_rejected (S : Schema) (id : Nat) {n : Nat} {a p q : Bytes} {rs : List Record}
    {r : Record} (ha : records n a = some rs) (h : parse1 (p ++ q) = some (r, [])) (hp : p ≠ [])
    (hq : q ≠ []) (f : Nat) : wellFormed S f id (a ++ p) = false := by
  rw [← specDec_isSome_eq_wellFormed S f id (a ++ p) .none,
    truncation_rejected_specDec S id ha h hp hq f .none]
  rfl

/-! ## 4. C10 — unknown fields -/

theorem findField_none_iff (fs : List Field) (num : Nat) :
    findField fs num = none ↔ ∀ f ∈ fs, f.num ≠ num := by
  unfold findField
  simp only [Option.map_eq_none_iff, List.find?_eq_none, beq_iff_eq]
  constructor
  · intro h f hf
    obtain ⟨i, hi, rfl⟩ := List.getElem_of_mem hf
    exact h (fs[i], i) (by
      rw [List.mem_zipIdx_iff_getElem?]; simp [hi])
  · intro h x hx
    exact h x.1 (by
      have := List.mem_zipIdx_iff_getElem?.mp hx
      exact List.mem_of_getElem? this)

theorem stepU_unknown (S : Schema) (id : Nat) (r : Record) (m : Val)
    (hf : findField (S.msg id).fields r.num = none) :
    stepU S id r m = some (captureRec (S.msg id).capture r m) := by
  unfold stepU step; rw [hf]

/-- one unknown record decoded alone: skipped, or captured -/
theorem specUnmarshal_unknown (S : Schema) (id : Nat) {u : Bytes} {r : Record} (m : Val)
    (hu : parse1 u = some (r, [])) (hf : findField (S.msg id).fields r.num = none) :
    specUnmarshal S id u m = some (captureRec (S.msg id).capture r m) := by
  rw [specUnmarshal_cons S id m hu, stepU_unknown S id r m hf, Option.bind_some, specUnmarshal_nil]

/-- C10 (a): without capture an unknown field anywhere between decodable `a` and any `b` has no
effect (any wire type, groups included) -/
theorem unknown_skipped (S : Schema) (id : Nat) {a u : Bytes} (b : Bytes) {r : Record} {m m1 : Val}
    (hu : parse1 u = some (r, [])) (hf : findField (S.msg id).fields r.num = none)
    (hc : (S.msg id).capture = false) (ha : specUnmarshal S id a m = some m1) :
    specUnmarshal S id (a ++ u ++ b) m = specUnmarshal S id (a ++ b) m := by
  have h1 : specUnmarshal S id (a ++ u) m = some m1 := by
    rw [specUnmarshal_append S id u ha, specUnmarshal_unknown S id m1 hu hf, hc]; rfl
  rw [specUnmarshal_append S id b h1, specUnmarshal_append S id b ha]

/-- the same at explicit fuels -/
theorem unknown_skipped_specDec (S : Schema) (id : Nat) {a u : Bytes} (b : Bytes) {r : Record}
    {m m1 : Val} {fa : Nat} (hu : parse1 u = some (r, []))
    (hf : findField (S.msg id).fields r.num = none) (hc : (S.msg id).capture = false)
    (ha : specDec S fa id a m = some m1) :
    specDec S (2 * (a ++ u ++ b).length + 2) id (a ++ u ++ b) m =
      specDec S (2 * (a ++ b).length + 2) id (a ++ b) m :=
  unknown_skipped S id b hu hf hc (specDec_some_unmarshal S ha)

/-- the same when `a` is only known to be a complete record sequence (both sides may reject) -/
theorem unknown_skipped_records (S : Schema) (id : Nat) {a u : Bytes} (b : Bytes) {r : Record} {m : Val}
    {n : Nat} {rs : List Record} (hu : parse1 u = some (r, []))
    (hf : findField (S.msg id).fields r.num = none) (hc : (S.msg id).capture = false)
    (ha : records n a = some rs) :
    specUnmarshal S id (a ++ u ++ b) m = specUnmarshal S id (a ++ b) m := by
  rw [List.append_assoc, specUnmarshal_append_records S id (u ++ b) n a rs m ha,
    specUnmarshal_append_records S id b n a rs m ha]
  cases specUnmarshal S id a m with
  | none => rfl
  | some m1 =>
    simp only [Option.bind_some]
    have h1 : specUnmarshal S id u m1 = some m1 := by
      rw [specUnmarshal_unknown S id m1 hu hf, hc]; rfl
    exact specUnmarshal_append S id b h1

/-- C10 (b): with capture, an unknown record is appended to the captured bytes as minimal tag ++ raw
value, slots untouched -/
theorem unknown_captured (S : Schema) (id : Nat) {u : Bytes} {r : Record} (slots : List Val) (unrec : Bytes)
    (hu : parse1 u = some (r, [])) (hf : findField (S.msg id).fields r.num = none)
    (hc : (S.msg id).capture = true) :
    specUnmarshal S id u (.msg slots unrec) = some (.msg slots (unrec ++ tag r.num r.wire ++ r.raw)) := by
  rw [specUnmarshal_unknown S id _ hu hf, hc]; rfl

/-- in context: after decodable `a`, the captured record, then `b` -/
theorem unknown_captured_ctx (S : Schema) (id : Nat) {a u : Bytes} (b : Bytes) {r : Record} {m : Val}
    {slots : List Val} {unrec : Bytes}
    (hu : parse1 u = some (r, [])) (hf : findField (S.msg id).fields r.num = none)
    (hc : (S.msg id).capture = true) (ha : specUnmarshal S id a m = some (.msg slots unrec)) :
    specUnmarshal S id (a ++ u ++ b) m =
      specUnmarshal S id b (.msg slots (unrec ++ tag r.num r.wire ++ r.raw)) := by
  have h1 : specUnmarshal S id (a ++ u) m = some (.msg slots (unrec ++ tag r.num r.wire ++ r.raw)) := by
    rw [specUnmarshal_append S id u ha]; exact unknown_captured S id slots unrec hu hf hc
  exact specUnmarshal_append S id b h1

/-- all records unknown: captured bytes are the re-tagged records in input order -/
theorem capture_exact (S : Schema) (id : Nat) (hc : (S.msg id).capture = true) : ∀ (n : Nat) (b : Bytes)
    (rs : List Record) (slots : List Val) (u0 : Bytes), records n b = some rs →
    (∀ r ∈ rs, findField (S.msg id).fields r.num = none) →
    specUnmarshal S id b (.msg slots u0) =
      some (.msg slots (u0 ++ (rs.map fun r => tag r.num r.wire ++ r.raw).flatten)) := by
  intro n
  induction n with
  | zero => intro b rs slots u0 h; rw [records] at h; cases h
  | succ n ih =>
    intro b rs slots u0 h hall
    rw [records_succ] at h
    by_cases hb : b.isEmpty = true
    · rw [if_pos hb] at h
      cases h
      have : b = [] := List.isEmpty_iff.mp hb
      subst this
      rw [specUnmarshal_nil]; simp
    · rw [if_neg hb] at h
      cases hp : parse1 b with
      | none => rw [hp] at h; cases h
      | some x =>
        obtain ⟨r, rest⟩ := x
        rw [hp] at h
        simp only at h
        cases hr : records n rest with
        | none => rw [hr] at h; cases h
        | some rs' =>
          rw [hr] at h
          simp only [Option.map_some, Option.some.injEq] at h
          subst h
          rw [specUnmarshal_cons S id _ hp,
            stepU_unknown S id r _ (hall r (List.mem_cons_self)), Option.bind_some]
          unfold captureRec
          simp only [hc, ↓reduceIte]
          rw [ih rest rs' slots _ hr (fun x hx => hall x (List.mem_cons_of_mem _ hx))]
          simp only [List.map_cons, List.flatten_cons, List.append_assoc]

/-- a well-formed byte string is in particular a complete sequence of records -/
theorem wellFormed_records (S : Schema) : ∀ (n id : Nat) (b : Bytes),
    wellFormed S n id b = true → (records n b).isSome = true := by
  intro n
  induction n with
  | zero => intro id b h; rw [wellFormed.eq_def] at h; cases h
  | succ n ih =>
    intro id b h
    rw [wellFormed_succ] at h
    rw [records_succ]
    split
    · rfl
    · rename_i hb
      rw [if_neg hb] at h
      cases hp : parse1 b with
      | none => rw [hp] at h; cases h
      | some x =>
        obtain ⟨r, rest⟩ := x
        rw [hp] at h
        simp only [Bool.and_eq_true] at h ⊢
        have := ih id rest h.2
        rw [opt_map_isSome]; exact this

/-- fuel-free unfolding of well-formedness (at sufficient fuel), one record at a time -/
theorem wellFormed_cons (S : Schema) (id : Nat) {b : Bytes} {r : Record} {rest : Bytes}
    (hp : parse1 b = some (r, rest)) :
    wellFormed S (2 * b.length + 2) id b =
      ((match findField (S.msg id).fields r.num with
        | none => true
        | some (_, f) => recOk S (2 * r.payload.length + 3) f r) &&
       wellFormed S (2 * rest.length + 2) id rest) := by
  have hpr := parse1_progress hp
  have hb : b.isEmpty = false := by
    cases b with
    | nil => rw [parse1_nil] at hp; cases hp
    | cons _ _ => rfl
  show wellFormed S (2 * b.length + 1 + 1) id b = _
  rw [wellFormed_succ]
  simp only [hb, hp, Bool.false_eq_true, ↓reduceIte]
  congr 1
  · cases findField (S.msg id).fields r.num with
    | none => rfl
    | some q =>
      obtain ⟨i, f⟩ := q
      simp only
      rw [← applyRec_isSome_eq_recOk S _ f r .none, ← applyRec_isSome_eq_recOk S _ f r .none,
        applyRec_of_ge S (by omega), applyRec_of_ge S (by omega)]
  · rw [← specDec_isSome_eq_wellFormed S _ id rest .none, ← specDec_isSome_eq_wellFormed S _ id rest .none,
      specDec_of_ge S (by omega), specDec_of_ge S (by omega)]

end Pico.Spec

#print axioms Pico.Spec.parse1_append
#print axioms Pico.Spec.parse1_progress
#print axioms Pico.Spec.specDec_mono
#print axioms Pico.Spec.applyRec_mono
#print axioms Pico.Spec.specDec_fuel_enough
#print axioms Pico.Spec.unpack_fuel_enough
#print axioms Pico.Spec.secNanos_fuel_enough
#print axioms Pico.Spec.mapEntry_fuel_enough
#print axioms Pico.Spec.specUnmarshal_cons
#print axioms Pico.Spec.specUnmarshal_append
#print axioms Pico.Spec.specDec_append
#print axioms Pico.Spec.specDec_append_reject
#print axioms Pico.Spec.specUnmarshal_append_records
#print axioms Pico.Spec.specDecAll_flatten
#print axioms Pico.Spec.specDecAll_eq_flatten
#print axioms Pico.Spec.specDec_ok_iff_wellFormed
#print axioms Pico.Spec.specDec_isSome_eq_wellFormed
#print axioms Pico.Spec.wellFormed_cons
#print axioms Pico.Spec.parse1_prefix_none
#print axioms Pico.Spec.truncation_rejected
#print axioms Pico.Spec.unknown_skipped
#print axioms Pico.Spec.unknown_skipped_records
#print axioms Pico.Spec.unknown_captured
#print axioms Pico.Spec.capture_exact
