import PicoModel.Small
/-
C19 — `FieldNumber.String` (hand-rolled itoa) never panics on an `int32` and agrees with Lean's
decimal rendering `toString : Int → String`. Kernel-only.
-/
namespace Pico.FieldNum

theorem digitChar_eq : ∀ d, d < 10 → digitChar d = Nat.digitChar d := by decide

theorem digitLoop_zero (fuel : Nat) (i : Int) (acc : List Char) :
    digitLoop fuel i 0 acc = (i, 0, acc) := by
  cases fuel <;> simp [digitLoop]

/-- loop invariant: with enough fuel and enough room (`k` free cells, Go index `k-1`) the loop
writes exactly the decimal digits of `mag` in front of `acc` and stops with `field = 0`. -/
theorem digitLoop_spec (fuel : Nat) : ∀ (k mag : Nat) (acc : List Char),
    0 < mag → mag < 10 ^ fuel → mag < 10 ^ k →
    digitLoop fuel ((k : Int) - 1) mag acc
      = ((k : Int) - 1 - ((Nat.toDigits 10 mag).length : Int), 0, Nat.toDigits 10 mag ++ acc) := by
  induction fuel with
  | zero => intro k mag acc h0 hf _; simp at hf; omega
  | succ f ih =>
    intro k mag acc h0 hf hk
    have hk1 : 1 ≤ k := by
      rcases k with _ | k
      · simp at hk; omega
      · omega
    have hcond : ((k : Int) - 1 ≥ 0 ∧ mag > 0) := by constructor <;> omega
    rw [digitLoop, if_pos hcond]
    by_cases hlt : mag < 10
    · have hd : mag / 10 = 0 := by omega
      have hm : mag % 10 = mag := by omega
      rw [hd, hm, digitLoop_zero, Nat.toDigits_of_lt_base hlt, digitChar_eq mag hlt]
      simp
    · have hge : 10 ≤ mag := by omega
      have hf' : mag / 10 < 10 ^ f := by
        rw [Nat.pow_succ] at hf; omega
      obtain ⟨k', rfl⟩ : ∃ k', k = k' + 1 := ⟨k - 1, by omega⟩
      have hk' : mag / 10 < 10 ^ k' := by
        rw [Nat.pow_succ] at hk; omega
      have e : ((k' + 1 : Nat) : Int) - 1 - 1 = (k' : Int) - 1 := by omega
      rw [e, ih k' (mag / 10) _ (by omega) hf' hk',
        Nat.toDigits_of_base_le (by omega) hge, digitChar_eq _ (Nat.mod_lt _ (by omega))]
      simp only [List.length_append, List.length_singleton, List.append_assoc,
        List.singleton_append, Prod.mk.injEq, and_true]
      omega

theorem length_toDigits_le_ten (mag : Nat) (h : mag < 10 ^ 10) :
    (Nat.toDigits 10 mag).length ≤ 10 :=
  (Nat.length_toDigits_le_iff (by omega) (by omega)).2 h

/-- the loop as called by `fieldString` (`fuel = 12`, `i = 10`) -/
theorem digitLoop_call (mag : Nat) (h0 : 0 < mag) (h : mag < 2147483648) :
    digitLoop 12 10 mag []
      = (10 - ((Nat.toDigits 10 mag).length : Int), 0, Nat.toDigits 10 mag) := by
  have := digitLoop_spec 12 11 mag [] h0 (by omega) (by omega)
  simpa using this

theorem minus_append (l : List Char) : "-" ++ String.ofList l = String.ofList ('-' :: l) := by
  rw [show "-" = String.ofList ['-'] from rfl, ← String.ofList_append]; rfl

/-- C19: `FieldNumber.String` never panics on an `int32` and is the decimal rendering. -/
theorem fieldString_decimal (n : Int) (h : -2147483648 ≤ n ∧ n ≤ 2147483647) :
    fieldString n = .ok (toString n) := by
  by_cases h0 : n = 0
  · subst h0; exact congrArg Res.ok (by decide : "0" = toString (0 : Int))
  by_cases hmin : n = -2147483648
  · subst hmin
    exact congrArg Res.ok (by decide : "-2147483648" = toString (-2147483648 : Int))
  unfold fieldString
  have e0 : (n == 0) = false := by simpa using h0
  have emin : (n == -2147483648) = false := by simpa using hmin
  simp only [e0, emin, Bool.false_eq_true, ↓reduceIte]
  rw [Int.toString_eq_repr, Int.repr_eq_if]
  by_cases hneg : n < 0
  · have hmag : 0 < (-n).toNat ∧ (-n).toNat < 2147483648 := by omega
    have hlen := length_toDigits_le_ten (-n).toNat (by omega)
    have hnn : ¬ (0 ≤ n) := by omega
    simp only [hneg, hnn, ↓reduceIte, digitLoop_call _ hmag.1 hmag.2]
    have : ¬ ((10 : Int) - ((Nat.toDigits 10 (-n).toNat).length : Int) < 0) := by omega
    rw [if_neg this, Nat.repr_eq_ofList_toDigits, minus_append]
  · have hmag : 0 < n.toNat ∧ n.toNat < 2147483648 := by omega
    have hnn : 0 ≤ n := by omega
    simp only [hneg, hnn, ↓reduceIte,
      digitLoop_call _ hmag.1 hmag.2]
    rw [Nat.repr_eq_ofList_toDigits]

/-- `parseError.Error()` names the field in decimal. -/
theorem errorText_names_field (n : Int) (h : -2147483648 ≤ n ∧ n ≤ 2147483647) (msg : String) :
    errorText n msg = .ok ("failed while parsing " ++ toString n ++ ": " ++ msg) := by
  unfold errorText
  rw [fieldString_decimal n h]
  rfl

end Pico.FieldNum

#print axioms Pico.FieldNum.fieldString_decimal
#print axioms Pico.FieldNum.errorText_names_field
