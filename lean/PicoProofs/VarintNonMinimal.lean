import PicoProofs.Varint
/-
C02: non-minimal varints (tags, values, length prefixes padded with continuation bytes) are read as
the same numbers.
-/
open Pico Pico.Wire

namespace Pico.Wire

/-- `j` continuation bytes `0x80` closed by `0x00`: the padding of a non-minimal varint -/
def zerosPad : Nat → Bytes
  | 0 => [0x00]
  | j + 1 => 0x80 :: zerosPad j

theorem zerosPad_length (j : Nat) : (zerosPad j).length = j + 1 := by
  induction j with
  | zero => rfl
  | succ j ih => simp [zerosPad, ih]

theorem consumeVarintAux_zeros : ∀ (j idx : Nat) (rest : Bytes), idx + j ≤ 9 →
    consumeVarintAux idx (zerosPad j ++ rest) = (0, ((j + 1 : Nat) : Int)) := by
  intro j
  induction j with
  | zero =>
    intro idx rest h
    simp only [zerosPad, List.singleton_append, consumeVarintAux]
    by_cases h9 : idx = 9 <;> simp [h9]
  | succ j ih =>
    intro idx rest h
    have h9 : idx ≠ 9 := by omega
    simp only [zerosPad, List.cons_append, consumeVarintAux, h9, if_false]
    have hb : (0x80 : Byte).toNat = 128 := by decide
    rw [ih (idx + 1) rest (by omega)]
    simp [hb]
    omega

/-- a non-minimal encoding of `v`: every byte of the minimal varint with its continuation bit set,
then `k ≥ 1` padding bytes -/
def nonMinimal (v : Nat) (k : Nat) : Bytes :=
  if v < 128 then byteOfNat (v + 128) :: zerosPad (k - 1)
  else byteOfNat (v % 128 + 128) :: nonMinimal (v / 128) k
termination_by v
decreasing_by omega

theorem nonMinimal_length (k : Nat) (hk : 1 ≤ k) : ∀ v : Nat, (nonMinimal v k).length = (varint v).length + k := by
  intro v
  induction v using Nat.strongRecOn with
  | _ v ih =>
    rw [nonMinimal]
    by_cases h : v < 128
    · simp [h, varint_lt v h, zerosPad_length]; omega
    · simp only [h, if_false, List.length_cons]
      rw [ih (v / 128) (by omega), varint_ge v h]
      simp; omega

theorem consumeVarintAux_nonMinimal (k : Nat) (hk : 1 ≤ k) (fuel : Nat) : ∀ (idx v : Nat) (rest : Bytes),
    idx + fuel = 10 → idx + (varint v).length + k ≤ 10 → v < 2 ^ (64 - 7 * idx) →
    consumeVarintAux idx (nonMinimal v k ++ rest) = (v <<< (7 * idx), (((varint v).length + k : Nat) : Int)) := by
  induction fuel with
  | zero =>
    intro idx v rest hi hl _
    have := varint_length_pos v
    omega
  | succ f ih =>
    intro idx v rest hi hl hv
    have hpos := varint_length_pos v
    have hidx : idx ≠ 9 := by omega
    rw [nonMinimal]
    by_cases hlt : v < 128
    · rw [varint_lt v hlt] at hl ⊢
      simp only [hlt, if_true, List.cons_append, consumeVarintAux, hidx, if_false, List.length_singleton]
      rw [byteOfNat_toNat _ (by omega)]
      have h2 : ¬ (v + 128 < 128) := by omega
      obtain ⟨k', rfl⟩ : ∃ k', k = k' + 1 := ⟨k - 1, by omega⟩
      simp only [Nat.add_sub_cancel, h2, if_false]
      rw [consumeVarintAux_zeros k' (idx + 1) rest (by simp at hl; omega)]
      have hp : ¬ (((k' + 1 : Nat) : Int) < 0) := by omega
      simp only [hp, if_false]
      congr 1
      · simp
        omega
    · rw [varint_ge v hlt] at hl ⊢
      have hv' : v / 128 < 2 ^ (64 - 7 * (idx + 1)) := by
        have e : 64 - 7 * idx = (64 - 7 * (idx + 1)) + 7 := by simp at hl; omega
        rw [e, Nat.pow_add] at hv
        exact Nat.div_lt_of_lt_mul (by omega)
      have ih' := ih (idx + 1) (v / 128) rest (by omega) (by simp at hl; omega) hv'
      simp only [hlt, if_false, List.cons_append, consumeVarintAux, hidx]
      rw [byteOfNat_toNat _ (by omega)]
      have h2 : ¬ (v % 128 + 128 < 128) := by omega
      simp only [h2, if_false, ih']
      have hp : ¬ ((((varint (v / 128)).length + k : Nat) : Int) < 0) := by omega
      simp only [hp, if_false, List.length_cons]
      congr 1
      · simp only [Nat.shiftLeft_eq]
        have e7 : 7 * (idx + 1) = 7 * idx + 7 := by omega
        rw [e7, Nat.pow_add]
        generalize 2 ^ (7 * idx) = P
        have hdm := Nat.div_add_mod v 128
        have e1 : v % 128 + 128 - 128 = v % 128 := by omega
        rw [e1]
        calc v % 128 * P + v / 128 * (P * 2 ^ 7) = (128 * (v / 128) + v % 128) * P := by
              rw [Nat.add_mul]
              have : (2:Nat) ^ 7 = 128 := by decide
              rw [this]
              rw [Nat.mul_comm (v/128) (P * 128), Nat.mul_assoc, Nat.mul_comm 128 (v/128), Nat.mul_comm P]
              omega
          _ = v * P := by rw [hdm]
      · omega

/-- C02 "non-minimal varints": a varint padded with continuation bytes is read as the same number,
as long as it stays within ten bytes -/
theorem consumeVarint_nonMinimal (v k : Nat) (hv : v < 2 ^ 64) (hk : 1 ≤ k) (hl : (varint v).length + k ≤ 10)
    (rest : Bytes) :
    consumeVarint (nonMinimal v k ++ rest) = (v, (((varint v).length + k : Nat) : Int)) := by
  have := consumeVarintAux_nonMinimal k hk 10 0 v rest (by omega) (by omega) (by simpa using hv)
  simpa [consumeVarint] using this

end Pico.Wire
