import PicoModel.Conv
import PicoModel.Gen.CoderTable
import PicoModel.Gen.MapTable
import PicoModel.Gen.Imports
import PicoModel.Gen.Globals
import PicoModel.Small
/-
The tie between the hand-written model and the regenerated fact tables.

`Gen/CoderTable.lean`, `Gen/MapTable.lean`, `Gen/Globals.lean` are rewritten from the Go sources
on every run. The theorems here state that what the extractor found is exactly the shape the
hand-written model (`Encoder.lean`, `Decoder.lean`, `GenCode.lean`) transcribes. A source change
that alters the shape of a typed reader/writer or map codec, adds a store through an argument,
a package-level variable, a `go` statement … makes one of them fail to check.
-/
namespace Pico.Tie

/-! ### typed writers: 15 kinds × {plain, Repeated, Always, AlwaysRepeated} -/

structure KindInfo where
  name : String
  repName : String
  alwName : String
  alwRepName : String
  wire : String
  wireMsg : String
  prim : String
  parseMsg : String
  guard : String
  encV : String      -- encode expression applied to `*v`
  encX : String      -- encode expression applied to the loop variable `x`
  dec : String       -- decode expression applied to `x`
  deriving Repr

/-- the 15 scalar kinds as the model transcribes them (names and texts are literals so that the
comparison below is plain data equality) -/
def kinds : List KindInfo := [
  { name := "Bool", repName := "RepeatedBool", alwName := "AlwaysBool", alwRepName := "AlwaysRepeatedBool", wire := "VarintType", wireMsg := "expected wire type Varint", prim := "Varint", parseMsg := "unable to parse Varint", guard := "!*v", encV := "encodeBool64(*v)", encX := "encodeBool64(x)", dec := "x != 0" },
  { name := "Int32", repName := "RepeatedInt32", alwName := "AlwaysInt32", alwRepName := "AlwaysRepeatedInt32", wire := "VarintType", wireMsg := "expected wire type Varint", prim := "Varint", parseMsg := "unable to parse Varint", guard := "*v == 0", encV := "uint64(*v)", encX := "uint64(x)", dec := "int32(x)" },
  { name := "Int64", repName := "RepeatedInt64", alwName := "AlwaysInt64", alwRepName := "AlwaysRepeatedInt64", wire := "VarintType", wireMsg := "expected wire type Varint", prim := "Varint", parseMsg := "unable to parse Varint", guard := "*v == 0", encV := "uint64(*v)", encX := "uint64(x)", dec := "int64(x)" },
  { name := "Uint32", repName := "RepeatedUint32", alwName := "AlwaysUint32", alwRepName := "AlwaysRepeatedUint32", wire := "VarintType", wireMsg := "expected wire type Varint", prim := "Varint", parseMsg := "unable to parse Varint", guard := "*v == 0", encV := "uint64(*v)", encX := "uint64(x)", dec := "uint32(x)" },
  { name := "Uint64", repName := "RepeatedUint64", alwName := "AlwaysUint64", alwRepName := "AlwaysRepeatedUint64", wire := "VarintType", wireMsg := "expected wire type Varint", prim := "Varint", parseMsg := "unable to parse Varint", guard := "*v == 0", encV := "*v", encX := "x", dec := "x" },
  { name := "Sint32", repName := "RepeatedSint32", alwName := "AlwaysSint32", alwRepName := "AlwaysRepeatedSint32", wire := "VarintType", wireMsg := "expected wire type Varint", prim := "Varint", parseMsg := "unable to parse Varint", guard := "*v == 0", encV := "uint64(encodeZigZag32(*v))", encX := "uint64(encodeZigZag32(x))", dec := "decodeZigZag32(uint32(x))" },
  { name := "Sint64", repName := "RepeatedSint64", alwName := "AlwaysSint64", alwRepName := "AlwaysRepeatedSint64", wire := "VarintType", wireMsg := "expected wire type Varint", prim := "Varint", parseMsg := "unable to parse Varint", guard := "*v == 0", encV := "protowire.EncodeZigZag(*v)", encX := "protowire.EncodeZigZag(x)", dec := "protowire.DecodeZigZag(x)" },
  { name := "Fixed32", repName := "RepeatedFixed32", alwName := "AlwaysFixed32", alwRepName := "AlwaysRepeatedFixed32", wire := "Fixed32Type", wireMsg := "expected wire type Fixed32", prim := "Fixed32", parseMsg := "unable to parse Fixed32", guard := "*v == 0", encV := "*v", encX := "x", dec := "x" },
  { name := "Fixed64", repName := "RepeatedFixed64", alwName := "AlwaysFixed64", alwRepName := "AlwaysRepeatedFixed64", wire := "Fixed64Type", wireMsg := "expected wire type Fixed64", prim := "Fixed64", parseMsg := "unable to parse Fixed64", guard := "*v == 0", encV := "*v", encX := "x", dec := "x" },
  { name := "Sfixed32", repName := "RepeatedSfixed32", alwName := "AlwaysSfixed32", alwRepName := "AlwaysRepeatedSfixed32", wire := "Fixed32Type", wireMsg := "expected wire type Fixed32", prim := "Fixed32", parseMsg := "unable to parse Fixed32", guard := "*v == 0", encV := "uint32(*v)", encX := "uint32(x)", dec := "int32(x)" },
  { name := "Sfixed64", repName := "RepeatedSfixed64", alwName := "AlwaysSfixed64", alwRepName := "AlwaysRepeatedSfixed64", wire := "Fixed64Type", wireMsg := "expected wire type Fixed64", prim := "Fixed64", parseMsg := "unable to parse Fixed64", guard := "*v == 0", encV := "uint64(*v)", encX := "uint64(x)", dec := "int64(x)" },
  { name := "Float", repName := "RepeatedFloat", alwName := "AlwaysFloat", alwRepName := "AlwaysRepeatedFloat", wire := "Fixed32Type", wireMsg := "expected wire type Fixed32", prim := "Fixed32", parseMsg := "unable to parse Fixed32", guard := "math.Float32bits(*v) == 0", encV := "math.Float32bits(*v)", encX := "math.Float32bits(x)", dec := "math.Float32frombits(x)" },
  { name := "Double", repName := "RepeatedDouble", alwName := "AlwaysDouble", alwRepName := "AlwaysRepeatedDouble", wire := "Fixed64Type", wireMsg := "expected wire type Fixed64", prim := "Fixed64", parseMsg := "unable to parse Fixed64", guard := "math.Float64bits(*v) == 0", encV := "math.Float64bits(*v)", encX := "math.Float64bits(x)", dec := "math.Float64frombits(x)" },
  { name := "String", repName := "RepeatedString", alwName := "AlwaysString", alwRepName := "AlwaysRepeatedString", wire := "BytesType", wireMsg := "expected wire type Bytes", prim := "String", parseMsg := "unable to parse String", guard := "len(*v) == 0", encV := "*v", encX := "x", dec := "x" },
  { name := "Bytes", repName := "RepeatedBytes", alwName := "AlwaysBytes", alwRepName := "AlwaysRepeatedBytes", wire := "BytesType", wireMsg := "expected wire type Bytes", prim := "Bytes", parseMsg := "unable to parse Bytes", guard := "len(*v) == 0", encV := "*v", encX := "x", dec := "x" }
]

/-- the row the model expects for writer `(always, repeated)` of kind `k` -/
def expectedEnc (k : KindInfo) (always repeated : Bool) : EncRow :=
  if !repeated then
    { name := if always then k.alwName else k.name, kind := k.name, always, repeated, shape := .single,
      guard := if always then "" else k.guard, wire := k.wire, prim := k.prim, expr := k.encV, lenMul := 0 }
  else
    let name := if always then k.alwRepName else k.repName
    let guard := if always then "" else "len(*v) == 0"
    if k.name == "Bool" then
      { name, kind := k.name, always, repeated, shape := .repBool, guard, wire := "BytesType", prim := "",
        expr := "encodeBool8(x)", lenMul := 0 }
    else if k.wire == "VarintType" then
      { name, kind := k.name, always, repeated, shape := .repAnyBytes, guard, wire := "", prim := k.prim,
        expr := k.encX, lenMul := 0 }
    else if k.wire == "Fixed32Type" then
      { name, kind := k.name, always, repeated, shape := .repLen, guard, wire := "BytesType", prim := k.prim,
        expr := k.encX, lenMul := 4 }
    else if k.wire == "Fixed64Type" then
      { name, kind := k.name, always, repeated, shape := .repLen, guard, wire := "BytesType", prim := k.prim,
        expr := k.encX, lenMul := 8 }
    else
      { name, kind := k.name, always, repeated, shape := .repUnpacked, guard, wire := k.wire, prim := k.prim,
        expr := k.encX, lenMul := 0 }

def expectedEncRows : List EncRow :=
  kinds.flatMap fun k => [expectedEnc k false false, expectedEnc k false true, expectedEnc k true false, expectedEnc k true true]

def expectedDec (k : KindInfo) (repeated : Bool) : DecRow :=
  let packed := k.wire != "BytesType"
  { name := if repeated then k.repName else k.name, kind := k.name, repeated,
    shape := if !repeated then .single else if packed then .repPacked else .repUnpacked,
    wire := k.wire, prim := k.prim, expr := k.dec,
    wireMsg := k.wireMsg, parseMsg := k.parseMsg,
    bytesMsg := if repeated && packed then "unable to parse Bytes" else "" }

def expectedDecRows : List DecRow :=
  kinds.flatMap fun k => [expectedDec k false, expectedDec k true]

/-- membership both ways + equal length = same table up to order (the generated file lists the
methods alphabetically) -/
def sameRows {α} [DecidableEq α] (a b : List α) : Bool :=
  a.length == b.length && a.all (b.contains ·) && b.all (a.contains ·)

/-- TIE: encoder_types.go has exactly the 60 writers the model transcribes, each of the expected shape -/
theorem encoder_table_expected : sameRows Gen.encRows expectedEncRows = true := by decide +kernel

/-- TIE: decoder_types.go has exactly the 30 readers the model transcribes -/
theorem decoder_table_expected : sameRows Gen.decRows expectedDecRows = true := by decide +kernel

/-! ### map codecs: 12 key kinds × 15 value kinds -/

def goType : String → String
  | "Bool" => "bool" | "Int32" => "int32" | "Int64" => "int64" | "Uint32" => "uint32" | "Uint64" => "uint64"
  | "Sint32" => "int32" | "Sint64" => "int64" | "Fixed32" => "uint32" | "Fixed64" => "uint64"
  | "Sfixed32" => "int32" | "Sfixed64" => "int64" | "Float" => "float32" | "Double" => "float64"
  | "String" => "string" | _ => "[]byte"

def keyKinds : List String := ["Bool", "Int32", "Int64", "Uint32", "Uint64", "Sint32", "Sint64", "Fixed32", "Fixed64", "Sfixed32", "Sfixed64", "String"]
def valKinds : List String := kinds.map (·.name)

def expectedMap (k v : String) : MapRow :=
  { name := "Map" ++ k ++ v, goType := "map[" ++ goType k ++ "]" ++ goType v, ok := true,
    encKey := k, encVal := v, decKey := k, decVal := v, keyType := goType k, valType := goType v }

def expectedMapRows : List MapRow := keyKinds.flatMap fun k => valKinds.map fun v => expectedMap k v

/-- TIE: picowire/map.go has exactly the 180 codecs, each: encode = per entry
`AlwaysAnyBytes(field){K(1,&key); V(2,&val)}`, decode = `RepeatedMessage(field){ fresh key, val;
allocate on first entry; Loop{K(1,&key); V(2,&val)}; m[key] = val }` -/
theorem map_table_expected : sameRows Gen.mapRows expectedMapRows = true ∧ Gen.mapExtraFuncs = [] := by
  decide +kernel

/-! ### package-level state and stores (C04, C16, C17) -/

def expectedGlobalVars : List SrcFact := [
  ⟨"internal/protowire/wire.go", "errEndGroup", "errors.New"⟩,
  ⟨"internal/protowire/wire.go", "errFieldNumber", "errors.New"⟩,
  ⟨"internal/protowire/wire.go", "errOverflow", "errors.New"⟩,
  ⟨"internal/protowire/wire.go", "errParse", "errors.New"⟩,
  ⟨"internal/protowire/wire.go", "errReserved", "errors.New"⟩ ]

/-- TIE (C16): the only package-level variables of the runtime packages are five immutable error
values; nothing writes them or takes their address; no `go` statement; no sync/atomic/unsafe/
reflect/fmt/os/runtime/math-rand import -/
theorem no_shared_mutable_state :
    Gen.globalVars = expectedGlobalVars ∧ Gen.globalWrites = [] ∧ Gen.goStmts = [] ∧ Gen.suspectImports = [] := by
  decide +kernel

def expectedParamStores : List SrcFact := [
  ⟨"decoder.go", "Decoder.Loop", "dec.init"⟩,
  ⟨"decoder.go", "Decoder.UnrecognizedFields", "out*"⟩,
  ⟨"decoder.go", "Decoder.fail", "dec.err"⟩,
  ⟨"decoder.go", "Decoder.fail", "dec.pendingField"⟩,
  ⟨"decoder.go", "Decoder.nextField", "dec.buffer"⟩,
  ⟨"decoder.go", "Decoder.nextField", "dec.pendingField"⟩,
  ⟨"decoder.go", "Decoder.nextField", "dec.pendingWire"⟩,
  ⟨"decoder.go", "Decoder.popState", "dec.messageDecodeState"⟩,
  ⟨"decoder.go", "Decoder.popState", "dec.stack"⟩,
  ⟨"decoder.go", "Decoder.pushState", "dec.messageDecodeState"⟩,
  ⟨"decoder.go", "Decoder.pushState", "dec.stack"⟩,
  ⟨"decoder_types.go", "*", "v*"⟩,
  ⟨"encoder.go", "Encoder.RepeatedEnum", "enc.buffer"⟩,
  ⟨"encoder.go", "Encoder.UnrecognizedFields", "enc.buffer"⟩,
  ⟨"encoder.go", "Encoder.alwaysAnyBytes", "enc.buffer"⟩,
  ⟨"encoder.go", "Encoder.anyBytes", "enc.buffer"⟩,
  ⟨"encoder_types.go", "*", "enc.buffer"⟩,
  ⟨"internal/protowire/stdlib.go", "PutUvarint", "buf[]"⟩,
  ⟨"picoconv/duration.go", "Duration.PicoDecode", "d*"⟩,
  ⟨"picoconv/timestamp.go", "Timestamp.PicoDecode", "t*"⟩,
  ⟨"picowire/map.go", "*", "m*"⟩,
  ⟨"picowire/map.go", "*", "m*[]"⟩ ]

def expectedCopyCalls : List SrcFact := [
  ⟨"encoder.go", "Encoder.alwaysAnyBytes", "copy(enc.buffer[lengthStart + bytesForSize:], enc.buffer[messageStart:])"⟩,
  ⟨"encoder.go", "Encoder.anyBytes", "copy(enc.buffer[lengthStart + bytesForSize:], enc.buffer[messageStart:])"⟩ ]

/-- the store policy the properties need, as a check on one extracted store: encoders store only into
their own `buffer` field (never through the value pointer `v`, the message or an element of a
caller's slice); decoders store only into their own cursor fields and through the output pointers
(whatever their names; never into an element of the input slice); the error field is only written by `fail`;
`PutUvarint` writes the window it is handed; the picoconv and map decoders store through their
receiver only in `PicoDecode` (aggregated rows `*` of the generated files). -/
def isSuf (suf s : String) : Bool := suf.toList.isSuffixOf s.toList
def isPre (pre s : String) : Bool := pre.toList.isPrefixOf s.toList
def hasSubL (sub : List Char) : List Char → Bool
  | [] => sub.isEmpty
  | c :: cs => sub.isPrefixOf (c :: cs) || hasSubL sub cs
def hasSub (sub s : String) : Bool := hasSubL sub.toList s.toList

def storeAllowed (f : SrcFact) : Bool :=
  let elem := hasSub "[]" f.what
  if f.file == "encoder.go" || f.file == "encoder_types.go" then
    isSuf ".buffer" f.what && !elem
  else if f.file == "decoder.go" || f.file == "decoder_types.go" then
    !elem && ((isSuf "*" f.what && !hasSub "." f.what) ||
      (isSuf ".err" f.what && (f.fn == "Decoder.fail")) ||
      [".init", ".pendingField", ".pendingWire", ".buffer", ".messageDecodeState", ".stack"].any (isSuf · f.what))
  else if f.file == "internal/protowire/stdlib.go" then f.fn == "PutUvarint" && f.what == "buf[]"
  else if f.file == "picoconv/duration.go" then f.fn == "Duration.PicoDecode" && isSuf "*" f.what && !hasSub "." f.what
  else if f.file == "picoconv/timestamp.go" then f.fn == "Timestamp.PicoDecode" && isSuf "*" f.what && !hasSub "." f.what
  else if f.file == "picowire/map.go" then f.fn == "*" && (isSuf "*" f.what || isSuf "*[]" f.what) && !hasSub "." f.what
  else false

/-- a `copy` call is allowed when it moves bytes inside the encoder's own buffer -/
def copyAllowed (f : SrcFact) : Bool :=
  f.file == "encoder.go" && isPre "copy(enc.buffer[" f.what && hasSub ", enc.buffer[" f.what

def storesOK (ps cs : List SrcFact) : Bool := ps.all storeAllowed && cs.all copyAllowed

/-- the table as it stands in the pinned tree satisfies the policy, and the policy rejects a store
through a writer's value pointer, an element store into the decoder's input, a cleared error -/
example : storesOK expectedParamStores expectedCopyCalls = true := by decide +kernel
example : storeAllowed ⟨"encoder_types.go", "*", "v*"⟩ = false := by decide
example : storeAllowed ⟨"decoder.go", "Decoder.nextField", "dec.buffer[]"⟩ = false := by decide
example : storeAllowed ⟨"decoder.go", "Decoder.nextField", "dec.err"⟩ = false := by decide
example : storeAllowed ⟨"picoconv/duration.go", "Duration.PicoEncode", "d*"⟩ = false := by decide

/-- TIE (C04, C16, C17): every store through a parameter or receiver in the runtime packages, and
every `copy` call, as extracted from the working tree on this run, satisfies the store policy
(`storeAllowed`, `copyAllowed`). The exact table of the pinned tree is `expectedParamStores`; a
refactoring that moves a store into a helper changes the table but not the policy. -/
theorem stores_are_the_modelled_ones : storesOK Gen.paramStores Gen.copyCalls = true := by
  decide +kernel

/-! ### import graph (C07) -/

def forbidden (n : ImportNode) : Bool := n.path == "reflect" || n.path == "fmt"

/-- ids of the nodes of a graph -/
def allIds (nodes : List ImportNode) : List Nat := List.range nodes.length

/-- TIE + PROPERTY instance: the node set of `go list -deps` is closed under the import edges,
contains the roots, every node is standard library or inside the module, none is reflect/fmt -/
def graphClean (nodes : List ImportNode) (edges : List (Nat × Nat)) (roots : List Nat) (listOk : Bool) : Bool :=
  listOk && Graph.closed edges (allIds nodes) && roots.all (· < nodes.length) &&
  nodes.all (fun n => (n.std || n.inModule) && !forbidden n) && !roots.isEmpty

theorem import_graph_clean_plain : graphClean Gen.plainNodes Gen.plainEdges Gen.plainRoots Gen.plainListOk = true := by
  decide +kernel

theorem import_graph_clean_overlay : graphClean Gen.overlayNodes Gen.overlayEdges Gen.overlayRoots Gen.overlayListOk = true := by
  decide +kernel

end Pico.Tie
