import PicoModel.Gen.GoEncTypes
import PicoProofs.GoTieEncoder
import PicoProofs.GoTieDecTypes
import PicoProofs.AnyBytes
import PicoProofs.GoTieWire
/-
Tie between the statement-level translation of encoder_types.go (`PicoModel/Gen/GoEncTypes.lean`,
regenerated from the Go source on every run: the 60 typed writers) and the hand-written model
`Enc.writeSingle` / `Enc.writeRepeated` (the bytes a writer appends), about which the encoder
theorems are proved.

For every kind, every variant (plain / Always) and every Go value of the field's type, the
translated writer does not panic, returns its argument unchanged, and leaves a buffer whose logical
bytes are the old ones followed by exactly the model's bytes — whatever capacity the buffer had and
whatever a re-allocation leaves behind (`oracle`).
-/
namespace Pico.GoTie.ET
open Pico Pico.EncLow Pico.Wire Pico.GoTie.DT Pico.GoTie.E

/-- the bit pattern (the model's `SVal`) of a Go value -/
def toS : (k : Scalar) → GoVal k → Enc.SVal
  | .bool, v => .num (if v then 1 else 0)
  | .int32, v => .num (Go.toU 32 v)
  | .sint32, v => .num (Go.toU 32 v)
  | .sfixed32, v => .num (Go.toU 32 v)
  | .int64, v => .num (Go.toU 64 v)
  | .sint64, v => .num (Go.toU 64 v)
  | .sfixed64, v => .num (Go.toU 64 v)
  | .uint32, v => .num v
  | .uint64, v => .num v
  | .fixed32, v => .num v
  | .fixed64, v => .num v
  | .float, v => .num v
  | .double, v => .num v
  | .string, v => .bytes v
  | .bytes, v => .bytes v

/-- a value of the Go type: signed ones within the type's range, unsigned ones below `2^w`, byte
strings shorter than 2^63 -/
def InRange : (k : Scalar) → GoVal k → Prop
  | .bool, _ => True
  | .int32, v => -2147483648 ≤ v ∧ v < 2147483648
  | .sint32, v => -2147483648 ≤ v ∧ v < 2147483648
  | .sfixed32, v => -2147483648 ≤ v ∧ v < 2147483648
  | .int64, v => -9223372036854775808 ≤ v ∧ v < 9223372036854775808
  | .sint64, v => -9223372036854775808 ≤ v ∧ v < 9223372036854775808
  | .sfixed64, v => -9223372036854775808 ≤ v ∧ v < 9223372036854775808
  | .uint32, v => v < 4294967296
  | .fixed32, v => v < 4294967296
  | .float, v => v < 4294967296
  | .uint64, v => v < 18446744073709551616
  | .fixed64, v => v < 18446744073709551616
  | .double, v => v < 18446744073709551616
  | .string, v => v.length < 9223372036854775808
  | .bytes, v => v.length < 9223372036854775808

/-- what the translated writer of kind `k` hands to the append primitive -/
def encConv : (k : Scalar) → GoVal k → Nat
  | .bool, v => Go.encodeBool64 v
  | .int32, v => Go.toU 64 v
  | .int64, v => Go.toU 64 v
  | .uint32, v => v
  | .uint64, v => v
  | .sint32, v => Go.encodeZigZag32 v
  | .sint64, v => Go.encodeZigZag v
  | .fixed32, v => v
  | .fixed64, v => v
  | .sfixed32, v => Go.toU 32 v
  | .sfixed64, v => Go.toU 64 v
  | .float, v => Go.float32bits v
  | .double, v => Go.float64bits v
  | .string, _ => 0
  | .bytes, _ => 0

theorem toS_lt (k : Scalar) (hk : k.isBytes = false) (v : GoVal k) (h : InRange k v) : (toS k v).num! < 2 ^ k.width := by
  cases k <;> simp only [toS, Enc.SVal.num!, Scalar.width, InRange] at * <;>
    first
    | (cases v <;> decide)
    | (unfold Go.toU; simp only [show (2:Int)^32 = 4294967296 from by decide, show (2:Int)^64 = 18446744073709551616 from by decide]; omega)
    | omega
    | cases hk

theorem ofInt32_toNat (v : Int) : (BitVec.ofInt 32 v).toNat = Go.toU 32 v := by
  simp [BitVec.toNat_ofInt, Go.toU]

theorem ofInt64_toNat (v : Int) : (BitVec.ofInt 64 v).toNat = Go.toU 64 v := by
  simp [BitVec.toNat_ofInt, Go.toU]

theorem ofInt32_eq (v : Int) : BitVec.ofInt 32 v = BitVec.ofNat 32 (Go.toU 32 v) := by
  apply BitVec.eq_of_toNat_eq
  rw [ofInt32_toNat, BitVec.toNat_ofNat]
  unfold Go.toU
  simp only [show (2:Int)^32 = 4294967296 from by decide]
  omega

theorem ofInt64_eq (v : Int) : BitVec.ofInt 64 v = BitVec.ofNat 64 (Go.toU 64 v) := by
  apply BitVec.eq_of_toNat_eq
  rw [ofInt64_toNat, BitVec.toNat_ofNat]
  unfold Go.toU
  simp only [show (2:Int)^64 = 18446744073709551616 from by decide]
  omega

theorem toU64_int32 (w : Int) (hv : (-2147483648 : Int) ≤ w ∧ w < 2147483648) :
    Go.toU 64 w = Spec.scalarBits .int32 (Go.toU 32 w) := by
  unfold Spec.scalarBits Go.toU
  simp only [show (2:Int)^32 = 4294967296 from by decide, show (2:Int)^64 = 18446744073709551616 from by decide,
    Spec.two31, Spec.two32, Spec.two64]
  split <;> omega

/-- the translated conversion is the model's `encBits`, for every variant -/
theorem encConv_eq (var : Variant) (k : Scalar) (hk : k.isBytes = false) (v : GoVal k) (h : InRange k v) :
    encConv k v = encBits var k (toS k v).num! := by
  rw [enc_closed_form var k _ (toS_lt k hk v h)]
  cases k
  case bool => cases v <;> rfl
  case int32 => exact toU64_int32 v h
  case int64 => rfl
  case uint32 => rfl
  case uint64 => rfl
  case sint32 =>
    simp only [InRange] at h
    show (Gen.encodeZigZag32 (BitVec.ofInt 32 v)).toNat = Spec.scalarBits .sint32 (Go.toU 32 v)
    rw [toNat_encodeZigZag32, ofInt32_toNat]
    rfl
  case sint64 =>
    show (Gen.wireEncodeZigZag (BitVec.ofInt 64 v)).toNat = Spec.scalarBits .sint64 (Go.toU 64 v)
    rw [toNat_wireEncodeZigZag, ofInt64_toNat]
    rfl
  case fixed32 => rfl
  case fixed64 => rfl
  case sfixed32 => rfl
  case sfixed64 => rfl
  case float => rfl
  case double => rfl
  case string => cases hk
  case bytes => cases hk

/-! ### singular writers -/

/-- shape of `Encoder.<Kind>`: nothing for the default value, else tag and payload -/
def gwSingle {β : Type} (oracle : Nat → Bytes) (guard : Prop) [Decidable guard] (wire : Nat) (payload : Bytes)
    (field : Int) (enc : Buf) (v : β) : Res (Buf × β) := do
  if guard then do
    pure (enc, v)
  else do
    let enc := (Pico.GoBuf.appendTag oracle enc field wire)
    let enc := enc.append oracle payload
    pure (enc, v)

/-- shape of `Encoder.Always<Kind>` -/
def gwAlways {β : Type} (oracle : Nat → Bytes) (wire : Nat) (payload : Bytes)
    (field : Int) (enc : Buf) (v : β) : Res (Buf × β) := do
  let enc := (Pico.GoBuf.appendTag oracle enc field wire)
  let enc := enc.append oracle payload
  pure (enc, v)

section instances
open GoSrc.EncTypes

theorem wBool_shape (oracle : Nat → Bytes) (field : Int) (enc : Buf) (v : GoVal .bool) :
    wBool oracle field enc v = gwSingle oracle (¬ (v = true)) 0 (varint (Go.encodeBool64 v)) field enc v := by
  first
  | rfl
  | (unfold wBool gwSingle; simp only [GoBuf.appendTag, GoBuf.appendVarint, GoBuf.appendFixed32, GoBuf.appendFixed64, GoBuf.appendBytes, bind, Res.bind, pure]; grind)
theorem wAlwaysBool_shape (oracle : Nat → Bytes) (field : Int) (enc : Buf) (v : GoVal .bool) :
    wAlwaysBool oracle field enc v = gwAlways oracle 0 (varint (Go.encodeBool64 v)) field enc v := by
  first
  | rfl
  | (unfold wAlwaysBool gwAlways; simp only [GoBuf.appendTag, GoBuf.appendVarint, GoBuf.appendFixed32, GoBuf.appendFixed64, GoBuf.appendBytes, bind, Res.bind, pure]; grind)

theorem wInt32_shape (oracle : Nat → Bytes) (field : Int) (enc : Buf) (v : GoVal .int32) :
    wInt32 oracle field enc v = gwSingle oracle (v = (0 : Int)) 0 (varint (Go.toU 64 v)) field enc v := by
  first
  | rfl
  | (unfold wInt32 gwSingle; simp only [GoBuf.appendTag, GoBuf.appendVarint, GoBuf.appendFixed32, GoBuf.appendFixed64, GoBuf.appendBytes, bind, Res.bind, pure]; grind)
theorem wAlwaysInt32_shape (oracle : Nat → Bytes) (field : Int) (enc : Buf) (v : GoVal .int32) :
    wAlwaysInt32 oracle field enc v = gwAlways oracle 0 (varint (Go.toU 64 v)) field enc v := by
  first
  | rfl
  | (unfold wAlwaysInt32 gwAlways; simp only [GoBuf.appendTag, GoBuf.appendVarint, GoBuf.appendFixed32, GoBuf.appendFixed64, GoBuf.appendBytes, bind, Res.bind, pure]; grind)

theorem wInt64_shape (oracle : Nat → Bytes) (field : Int) (enc : Buf) (v : GoVal .int64) :
    wInt64 oracle field enc v = gwSingle oracle (v = (0 : Int)) 0 (varint (Go.toU 64 v)) field enc v := by
  first
  | rfl
  | (unfold wInt64 gwSingle; simp only [GoBuf.appendTag, GoBuf.appendVarint, GoBuf.appendFixed32, GoBuf.appendFixed64, GoBuf.appendBytes, bind, Res.bind, pure]; grind)
theorem wAlwaysInt64_shape (oracle : Nat → Bytes) (field : Int) (enc : Buf) (v : GoVal .int64) :
    wAlwaysInt64 oracle field enc v = gwAlways oracle 0 (varint (Go.toU 64 v)) field enc v := by
  first
  | rfl
  | (unfold wAlwaysInt64 gwAlways; simp only [GoBuf.appendTag, GoBuf.appendVarint, GoBuf.appendFixed32, GoBuf.appendFixed64, GoBuf.appendBytes, bind, Res.bind, pure]; grind)

theorem wUint32_shape (oracle : Nat → Bytes) (field : Int) (enc : Buf) (v : GoVal .uint32) :
    wUint32 oracle field enc v = gwSingle oracle (v = 0) 0 (varint v) field enc v := by
  first
  | rfl
  | (unfold wUint32 gwSingle; simp only [GoBuf.appendTag, GoBuf.appendVarint, GoBuf.appendFixed32, GoBuf.appendFixed64, GoBuf.appendBytes, bind, Res.bind, pure]; grind)
theorem wAlwaysUint32_shape (oracle : Nat → Bytes) (field : Int) (enc : Buf) (v : GoVal .uint32) :
    wAlwaysUint32 oracle field enc v = gwAlways oracle 0 (varint v) field enc v := by
  first
  | rfl
  | (unfold wAlwaysUint32 gwAlways; simp only [GoBuf.appendTag, GoBuf.appendVarint, GoBuf.appendFixed32, GoBuf.appendFixed64, GoBuf.appendBytes, bind, Res.bind, pure]; grind)

theorem wUint64_shape (oracle : Nat → Bytes) (field : Int) (enc : Buf) (v : GoVal .uint64) :
    wUint64 oracle field enc v = gwSingle oracle (v = 0) 0 (varint v) field enc v := by
  first
  | rfl
  | (unfold wUint64 gwSingle; simp only [GoBuf.appendTag, GoBuf.appendVarint, GoBuf.appendFixed32, GoBuf.appendFixed64, GoBuf.appendBytes, bind, Res.bind, pure]; grind)
theorem wAlwaysUint64_shape (oracle : Nat → Bytes) (field : Int) (enc : Buf) (v : GoVal .uint64) :
    wAlwaysUint64 oracle field enc v = gwAlways oracle 0 (varint v) field enc v := by
  first
  | rfl
  | (unfold wAlwaysUint64 gwAlways; simp only [GoBuf.appendTag, GoBuf.appendVarint, GoBuf.appendFixed32, GoBuf.appendFixed64, GoBuf.appendBytes, bind, Res.bind, pure]; grind)

theorem wSint32_shape (oracle : Nat → Bytes) (field : Int) (enc : Buf) (v : GoVal .sint32) :
    wSint32 oracle field enc v = gwSingle oracle (v = (0 : Int)) 0 (varint (Go.encodeZigZag32 v)) field enc v := by
  first
  | rfl
  | (unfold wSint32 gwSingle; simp only [GoBuf.appendTag, GoBuf.appendVarint, GoBuf.appendFixed32, GoBuf.appendFixed64, GoBuf.appendBytes, bind, Res.bind, pure]; grind)
theorem wAlwaysSint32_shape (oracle : Nat → Bytes) (field : Int) (enc : Buf) (v : GoVal .sint32) :
    wAlwaysSint32 oracle field enc v = gwAlways oracle 0 (varint (Go.encodeZigZag32 v)) field enc v := by
  first
  | rfl
  | (unfold wAlwaysSint32 gwAlways; simp only [GoBuf.appendTag, GoBuf.appendVarint, GoBuf.appendFixed32, GoBuf.appendFixed64, GoBuf.appendBytes, bind, Res.bind, pure]; grind)

theorem wSint64_shape (oracle : Nat → Bytes) (field : Int) (enc : Buf) (v : GoVal .sint64) :
    wSint64 oracle field enc v = gwSingle oracle (v = (0 : Int)) 0 (varint (Go.encodeZigZag v)) field enc v := by
  first
  | rfl
  | (unfold wSint64 gwSingle; simp only [GoBuf.appendTag, GoBuf.appendVarint, GoBuf.appendFixed32, GoBuf.appendFixed64, GoBuf.appendBytes, bind, Res.bind, pure]; grind)
theorem wAlwaysSint64_shape (oracle : Nat → Bytes) (field : Int) (enc : Buf) (v : GoVal .sint64) :
    wAlwaysSint64 oracle field enc v = gwAlways oracle 0 (varint (Go.encodeZigZag v)) field enc v := by
  first
  | rfl
  | (unfold wAlwaysSint64 gwAlways; simp only [GoBuf.appendTag, GoBuf.appendVarint, GoBuf.appendFixed32, GoBuf.appendFixed64, GoBuf.appendBytes, bind, Res.bind, pure]; grind)

theorem wFixed32_shape (oracle : Nat → Bytes) (field : Int) (enc : Buf) (v : GoVal .fixed32) :
    wFixed32 oracle field enc v = gwSingle oracle (v = 0) 5 (fixed32 v) field enc v := by
  first
  | rfl
  | (unfold wFixed32 gwSingle; simp only [GoBuf.appendTag, GoBuf.appendVarint, GoBuf.appendFixed32, GoBuf.appendFixed64, GoBuf.appendBytes, bind, Res.bind, pure]; grind)
theorem wAlwaysFixed32_shape (oracle : Nat → Bytes) (field : Int) (enc : Buf) (v : GoVal .fixed32) :
    wAlwaysFixed32 oracle field enc v = gwAlways oracle 5 (fixed32 v) field enc v := by
  first
  | rfl
  | (unfold wAlwaysFixed32 gwAlways; simp only [GoBuf.appendTag, GoBuf.appendVarint, GoBuf.appendFixed32, GoBuf.appendFixed64, GoBuf.appendBytes, bind, Res.bind, pure]; grind)

theorem wSfixed32_shape (oracle : Nat → Bytes) (field : Int) (enc : Buf) (v : GoVal .sfixed32) :
    wSfixed32 oracle field enc v = gwSingle oracle (v = (0 : Int)) 5 (fixed32 (Go.toU 32 v)) field enc v := by
  first
  | rfl
  | (unfold wSfixed32 gwSingle; simp only [GoBuf.appendTag, GoBuf.appendVarint, GoBuf.appendFixed32, GoBuf.appendFixed64, GoBuf.appendBytes, bind, Res.bind, pure]; grind)
theorem wAlwaysSfixed32_shape (oracle : Nat → Bytes) (field : Int) (enc : Buf) (v : GoVal .sfixed32) :
    wAlwaysSfixed32 oracle field enc v = gwAlways oracle 5 (fixed32 (Go.toU 32 v)) field enc v := by
  first
  | rfl
  | (unfold wAlwaysSfixed32 gwAlways; simp only [GoBuf.appendTag, GoBuf.appendVarint, GoBuf.appendFixed32, GoBuf.appendFixed64, GoBuf.appendBytes, bind, Res.bind, pure]; grind)

theorem wFloat_shape (oracle : Nat → Bytes) (field : Int) (enc : Buf) (v : GoVal .float) :
    wFloat oracle field enc v = gwSingle oracle ((Go.float32bits v) = 0) 5 (fixed32 (Go.float32bits v)) field enc v := by
  first
  | rfl
  | (unfold wFloat gwSingle; simp only [GoBuf.appendTag, GoBuf.appendVarint, GoBuf.appendFixed32, GoBuf.appendFixed64, GoBuf.appendBytes, bind, Res.bind, pure]; grind)
theorem wAlwaysFloat_shape (oracle : Nat → Bytes) (field : Int) (enc : Buf) (v : GoVal .float) :
    wAlwaysFloat oracle field enc v = gwAlways oracle 5 (fixed32 (Go.float32bits v)) field enc v := by
  first
  | rfl
  | (unfold wAlwaysFloat gwAlways; simp only [GoBuf.appendTag, GoBuf.appendVarint, GoBuf.appendFixed32, GoBuf.appendFixed64, GoBuf.appendBytes, bind, Res.bind, pure]; grind)

theorem wFixed64_shape (oracle : Nat → Bytes) (field : Int) (enc : Buf) (v : GoVal .fixed64) :
    wFixed64 oracle field enc v = gwSingle oracle (v = 0) 1 (fixed64 v) field enc v := by
  first
  | rfl
  | (unfold wFixed64 gwSingle; simp only [GoBuf.appendTag, GoBuf.appendVarint, GoBuf.appendFixed32, GoBuf.appendFixed64, GoBuf.appendBytes, bind, Res.bind, pure]; grind)
theorem wAlwaysFixed64_shape (oracle : Nat → Bytes) (field : Int) (enc : Buf) (v : GoVal .fixed64) :
    wAlwaysFixed64 oracle field enc v = gwAlways oracle 1 (fixed64 v) field enc v := by
  first
  | rfl
  | (unfold wAlwaysFixed64 gwAlways; simp only [GoBuf.appendTag, GoBuf.appendVarint, GoBuf.appendFixed32, GoBuf.appendFixed64, GoBuf.appendBytes, bind, Res.bind, pure]; grind)

theorem wSfixed64_shape (oracle : Nat → Bytes) (field : Int) (enc : Buf) (v : GoVal .sfixed64) :
    wSfixed64 oracle field enc v = gwSingle oracle (v = (0 : Int)) 1 (fixed64 (Go.toU 64 v)) field enc v := by
  first
  | rfl
  | (unfold wSfixed64 gwSingle; simp only [GoBuf.appendTag, GoBuf.appendVarint, GoBuf.appendFixed32, GoBuf.appendFixed64, GoBuf.appendBytes, bind, Res.bind, pure]; grind)
theorem wAlwaysSfixed64_shape (oracle : Nat → Bytes) (field : Int) (enc : Buf) (v : GoVal .sfixed64) :
    wAlwaysSfixed64 oracle field enc v = gwAlways oracle 1 (fixed64 (Go.toU 64 v)) field enc v := by
  first
  | rfl
  | (unfold wAlwaysSfixed64 gwAlways; simp only [GoBuf.appendTag, GoBuf.appendVarint, GoBuf.appendFixed32, GoBuf.appendFixed64, GoBuf.appendBytes, bind, Res.bind, pure]; grind)

theorem wDouble_shape (oracle : Nat → Bytes) (field : Int) (enc : Buf) (v : GoVal .double) :
    wDouble oracle field enc v = gwSingle oracle ((Go.float64bits v) = 0) 1 (fixed64 (Go.float64bits v)) field enc v := by
  first
  | rfl
  | (unfold wDouble gwSingle; simp only [GoBuf.appendTag, GoBuf.appendVarint, GoBuf.appendFixed32, GoBuf.appendFixed64, GoBuf.appendBytes, bind, Res.bind, pure]; grind)
theorem wAlwaysDouble_shape (oracle : Nat → Bytes) (field : Int) (enc : Buf) (v : GoVal .double) :
    wAlwaysDouble oracle field enc v = gwAlways oracle 1 (fixed64 (Go.float64bits v)) field enc v := by
  first
  | rfl
  | (unfold wAlwaysDouble gwAlways; simp only [GoBuf.appendTag, GoBuf.appendVarint, GoBuf.appendFixed32, GoBuf.appendFixed64, GoBuf.appendBytes, bind, Res.bind, pure]; grind)

theorem wString_shape (oracle : Nat → Bytes) (field : Int) (enc : Buf) (v : GoVal .string) :
    wString oracle field enc v = gwSingle oracle ((Go.len v) = (0 : Int)) 2 (lenPrefixed v) field enc v := by
  first
  | rfl
  | (unfold wString gwSingle; simp only [GoBuf.appendTag, GoBuf.appendVarint, GoBuf.appendFixed32, GoBuf.appendFixed64, GoBuf.appendBytes, bind, Res.bind, pure]; grind)
theorem wAlwaysString_shape (oracle : Nat → Bytes) (field : Int) (enc : Buf) (v : GoVal .string) :
    wAlwaysString oracle field enc v = gwAlways oracle 2 (lenPrefixed v) field enc v := by
  first
  | rfl
  | (unfold wAlwaysString gwAlways; simp only [GoBuf.appendTag, GoBuf.appendVarint, GoBuf.appendFixed32, GoBuf.appendFixed64, GoBuf.appendBytes, bind, Res.bind, pure]; grind)

theorem wBytes_shape (oracle : Nat → Bytes) (field : Int) (enc : Buf) (v : GoVal .bytes) :
    wBytes oracle field enc v = gwSingle oracle ((Go.len v) = (0 : Int)) 2 (lenPrefixed v) field enc v := by
  first
  | rfl
  | (unfold wBytes gwSingle; simp only [GoBuf.appendTag, GoBuf.appendVarint, GoBuf.appendFixed32, GoBuf.appendFixed64, GoBuf.appendBytes, bind, Res.bind, pure]; grind)
theorem wAlwaysBytes_shape (oracle : Nat → Bytes) (field : Int) (enc : Buf) (v : GoVal .bytes) :
    wAlwaysBytes oracle field enc v = gwAlways oracle 2 (lenPrefixed v) field enc v := by
  first
  | rfl
  | (unfold wAlwaysBytes gwAlways; simp only [GoBuf.appendTag, GoBuf.appendVarint, GoBuf.appendFixed32, GoBuf.appendFixed64, GoBuf.appendBytes, bind, Res.bind, pure]; grind)

end instances

/-- the guard of the translated plain writer of kind `k` -/
@[reducible] def guardP : (k : Scalar) → GoVal k → Prop
  | .bool, v => ¬ (v = true)
  | .int32, v => v = (0 : Int)
  | .int64, v => v = (0 : Int)
  | .sint32, v => v = (0 : Int)
  | .sint64, v => v = (0 : Int)
  | .sfixed32, v => v = (0 : Int)
  | .sfixed64, v => v = (0 : Int)
  | .uint32, v => v = 0
  | .uint64, v => v = 0
  | .fixed32, v => v = 0
  | .fixed64, v => v = 0
  | .float, v => (Go.float32bits v) = 0
  | .double, v => (Go.float64bits v) = 0
  | .string, v => (Go.len v) = (0 : Int)
  | .bytes, v => (Go.len v) = (0 : Int)

theorem toU32_zero (w : Int) (h : (-2147483648 : Int) ≤ w ∧ w < 2147483648) : Go.toU 32 w = 0 ↔ w = 0 := by
  unfold Go.toU
  simp only [show (2:Int)^32 = 4294967296 from by decide]
  omega

theorem toU64_zero (w : Int) (h : (-9223372036854775808 : Int) ≤ w ∧ w < 9223372036854775808) : Go.toU 64 w = 0 ↔ w = 0 := by
  unfold Go.toU
  simp only [show (2:Int)^64 = 18446744073709551616 from by decide]
  omega

/-- the translated guard is the model's `isDefault` -/
theorem guard_iff (k : Scalar) (v : GoVal k) (h : InRange k v) : guardP k v ↔ Enc.isDefault k (toS k v) = true := by
  by_cases hk : k.isBytes = true
  · cases k
    case string => simp [guardP, Enc.isDefault, Scalar.isBytes, toS, Enc.SVal.bytes!, Go.len]
    case bytes => simp [guardP, Enc.isDefault, Scalar.isBytes, toS, Enc.SVal.bytes!, Go.len]
    all_goals cases hk
  · have hk' : k.isBytes = false := by simpa using hk
    have hd := default_iff_zero k hk' _ (toS_lt k hk' v h)
    unfold Enc.isDefault
    simp only [hk', Bool.false_eq_true, if_false, hd]
    cases k
    case bool => cases v <;> simp [guardP, toS, Enc.SVal.num!]
    case int32 => exact (toU32_zero v h).symm
    case sint32 => exact (toU32_zero v h).symm
    case sfixed32 => exact (toU32_zero v h).symm
    case int64 => exact (toU64_zero v h).symm
    case sint64 => exact (toU64_zero v h).symm
    case sfixed64 => exact (toU64_zero v h).symm
    case uint32 => exact Iff.rfl
    case uint64 => exact Iff.rfl
    case fixed32 => exact Iff.rfl
    case fixed64 => exact Iff.rfl
    case float => exact Iff.rfl
    case double => exact Iff.rfl
    case string => cases hk'
    case bytes => cases hk'

/-- what the translated writer appends after the tag -/
def payOf : (k : Scalar) → GoVal k → Bytes
  | .bool, v => varint (Go.encodeBool64 v)
  | .int32, v => varint (Go.toU 64 v)
  | .int64, v => varint (Go.toU 64 v)
  | .uint32, v => varint v
  | .uint64, v => varint v
  | .sint32, v => varint (Go.encodeZigZag32 v)
  | .sint64, v => varint (Go.encodeZigZag v)
  | .fixed32, v => fixed32 v
  | .sfixed32, v => fixed32 (Go.toU 32 v)
  | .float, v => fixed32 (Go.float32bits v)
  | .fixed64, v => fixed64 v
  | .sfixed64, v => fixed64 (Go.toU 64 v)
  | .double, v => fixed64 (Go.float64bits v)
  | .string, v => lenPrefixed v
  | .bytes, v => lenPrefixed v

theorem payOf_eq (var : Variant) (k : Scalar) (v : GoVal k) (h : InRange k v) :
    payOf k v = Enc.scalarPayload var k (toS k v) := by
  by_cases hk : k.isBytes = true
  · cases k
    case string => rfl
    case bytes => rfl
    all_goals cases hk
  · have hk' : k.isBytes = false := by simpa using hk
    have hc := encConv_eq var k hk' v h
    unfold Enc.scalarPayload
    rw [← hc]
    cases k <;> first | rfl | cases hk'

/-- the buffer the model says a singular writer leaves -/
def writeSingleBuf (oracle : Nat → Bytes) (always : Bool) (k : Scalar) (field : Int) (sv : Enc.SVal) (enc : Buf) : Buf :=
  if (!always && Enc.isDefault k sv) then enc
  else (enc.append oracle (Enc.appendTag field k.wire)).append oracle
    (Enc.scalarPayload (if always then .always else .plain) k sv)

theorem writeSingleBuf_data (oracle : Nat → Bytes) (always : Bool) (k : Scalar) (field : Int) (sv : Enc.SVal) (enc : Buf) :
    (writeSingleBuf oracle always k field sv enc).data = enc.data ++ Enc.writeSingle always k field sv := by
  unfold writeSingleBuf Enc.writeSingle
  split <;> simp [append_data, List.append_assoc]

theorem gwSingle_eq (oracle : Nat → Bytes) (k : Scalar) (v : GoVal k) (h : InRange k v) (field : Int) (enc : Buf)
    (guard : Prop) [Decidable guard] (hgd : guard ↔ guardP k v) :
    gwSingle oracle guard k.wire (payOf k v) field enc v
      = Res.ok (writeSingleBuf oracle false k field (toS k v) enc, v) := by
  unfold gwSingle writeSingleBuf GoBuf.appendTag
  rw [payOf_eq .plain k v h]
  by_cases hg : guard
  · have := (guard_iff k v h).mp (hgd.mp hg)
    simp [hg, this]
  · have : ¬ Enc.isDefault k (toS k v) = true := fun hd => hg (hgd.mpr ((guard_iff k v h).mpr hd))
    simp [hg, this]

theorem gwAlways_eq (oracle : Nat → Bytes) (k : Scalar) (v : GoVal k) (h : InRange k v) (field : Int) (enc : Buf) :
    gwAlways oracle k.wire (payOf k v) field enc v
      = Res.ok (writeSingleBuf oracle true k field (toS k v) enc, v) := by
  unfold gwAlways writeSingleBuf GoBuf.appendTag
  rw [payOf_eq .always k v h]
  simp

open GoSrc.EncTypes in
/-- the translated singular writer of kind `k` (encoder_types.go `Encoder.<Kind>` / `Encoder.Always<Kind>`) -/
def srcWriteSingle (oracle : Nat → Bytes) : (always : Bool) → (k : Scalar) → Int → Buf → GoVal k → Res (Buf × GoVal k)
  | false, .bool => wBool oracle | false, .int32 => wInt32 oracle | false, .int64 => wInt64 oracle
  | false, .uint32 => wUint32 oracle | false, .uint64 => wUint64 oracle | false, .sint32 => wSint32 oracle
  | false, .sint64 => wSint64 oracle | false, .fixed32 => wFixed32 oracle | false, .fixed64 => wFixed64 oracle
  | false, .sfixed32 => wSfixed32 oracle | false, .sfixed64 => wSfixed64 oracle | false, .float => wFloat oracle
  | false, .double => wDouble oracle | false, .string => wString oracle | false, .bytes => wBytes oracle
  | true, .bool => wAlwaysBool oracle | true, .int32 => wAlwaysInt32 oracle | true, .int64 => wAlwaysInt64 oracle
  | true, .uint32 => wAlwaysUint32 oracle | true, .uint64 => wAlwaysUint64 oracle | true, .sint32 => wAlwaysSint32 oracle
  | true, .sint64 => wAlwaysSint64 oracle | true, .fixed32 => wAlwaysFixed32 oracle | true, .fixed64 => wAlwaysFixed64 oracle
  | true, .sfixed32 => wAlwaysSfixed32 oracle | true, .sfixed64 => wAlwaysSfixed64 oracle | true, .float => wAlwaysFloat oracle
  | true, .double => wAlwaysDouble oracle | true, .string => wAlwaysString oracle | true, .bytes => wAlwaysBytes oracle

/-- TIE (encoder_types.go, singular writers): for every kind, both variants and every value of the
Go type, the translated writer returns normally, leaves its argument as it was, and leaves the
buffer the model describes: unchanged for an omitted default, else tag and payload appended. -/
theorem writeSingle_tie (oracle : Nat → Bytes) (always : Bool) (k : Scalar) (field : Int) (enc : Buf)
    (v : GoVal k) (h : InRange k v) :
    srcWriteSingle oracle always k field enc v = .ok (writeSingleBuf oracle always k field (toS k v) enc, v) := by
  cases always
  · cases k
    case bool => show GoSrc.EncTypes.wBool oracle field enc v = _; rw [wBool_shape]; exact gwSingle_eq oracle .bool v h field enc _ Iff.rfl
    case int32 => show GoSrc.EncTypes.wInt32 oracle field enc v = _; rw [wInt32_shape]; exact gwSingle_eq oracle .int32 v h field enc _ Iff.rfl
    case int64 => show GoSrc.EncTypes.wInt64 oracle field enc v = _; rw [wInt64_shape]; exact gwSingle_eq oracle .int64 v h field enc _ Iff.rfl
    case uint32 => show GoSrc.EncTypes.wUint32 oracle field enc v = _; rw [wUint32_shape]; exact gwSingle_eq oracle .uint32 v h field enc _ Iff.rfl
    case uint64 => show GoSrc.EncTypes.wUint64 oracle field enc v = _; rw [wUint64_shape]; exact gwSingle_eq oracle .uint64 v h field enc _ Iff.rfl
    case sint32 => show GoSrc.EncTypes.wSint32 oracle field enc v = _; rw [wSint32_shape]; exact gwSingle_eq oracle .sint32 v h field enc _ Iff.rfl
    case sint64 => show GoSrc.EncTypes.wSint64 oracle field enc v = _; rw [wSint64_shape]; exact gwSingle_eq oracle .sint64 v h field enc _ Iff.rfl
    case fixed32 => show GoSrc.EncTypes.wFixed32 oracle field enc v = _; rw [wFixed32_shape]; exact gwSingle_eq oracle .fixed32 v h field enc _ Iff.rfl
    case fixed64 => show GoSrc.EncTypes.wFixed64 oracle field enc v = _; rw [wFixed64_shape]; exact gwSingle_eq oracle .fixed64 v h field enc _ Iff.rfl
    case sfixed32 => show GoSrc.EncTypes.wSfixed32 oracle field enc v = _; rw [wSfixed32_shape]; exact gwSingle_eq oracle .sfixed32 v h field enc _ Iff.rfl
    case sfixed64 => show GoSrc.EncTypes.wSfixed64 oracle field enc v = _; rw [wSfixed64_shape]; exact gwSingle_eq oracle .sfixed64 v h field enc _ Iff.rfl
    case float => show GoSrc.EncTypes.wFloat oracle field enc v = _; rw [wFloat_shape]; exact gwSingle_eq oracle .float v h field enc _ Iff.rfl
    case double => show GoSrc.EncTypes.wDouble oracle field enc v = _; rw [wDouble_shape]; exact gwSingle_eq oracle .double v h field enc _ Iff.rfl
    case string => show GoSrc.EncTypes.wString oracle field enc v = _; rw [wString_shape]; exact gwSingle_eq oracle .string v h field enc _ Iff.rfl
    case bytes => show GoSrc.EncTypes.wBytes oracle field enc v = _; rw [wBytes_shape]; exact gwSingle_eq oracle .bytes v h field enc _ Iff.rfl
  · cases k
    case bool => show GoSrc.EncTypes.wAlwaysBool oracle field enc v = _; rw [wAlwaysBool_shape]; exact gwAlways_eq oracle .bool v h field enc
    case int32 => show GoSrc.EncTypes.wAlwaysInt32 oracle field enc v = _; rw [wAlwaysInt32_shape]; exact gwAlways_eq oracle .int32 v h field enc
    case int64 => show GoSrc.EncTypes.wAlwaysInt64 oracle field enc v = _; rw [wAlwaysInt64_shape]; exact gwAlways_eq oracle .int64 v h field enc
    case uint32 => show GoSrc.EncTypes.wAlwaysUint32 oracle field enc v = _; rw [wAlwaysUint32_shape]; exact gwAlways_eq oracle .uint32 v h field enc
    case uint64 => show GoSrc.EncTypes.wAlwaysUint64 oracle field enc v = _; rw [wAlwaysUint64_shape]; exact gwAlways_eq oracle .uint64 v h field enc
    case sint32 => show GoSrc.EncTypes.wAlwaysSint32 oracle field enc v = _; rw [wAlwaysSint32_shape]; exact gwAlways_eq oracle .sint32 v h field enc
    case sint64 => show GoSrc.EncTypes.wAlwaysSint64 oracle field enc v = _; rw [wAlwaysSint64_shape]; exact gwAlways_eq oracle .sint64 v h field enc
    case fixed32 => show GoSrc.EncTypes.wAlwaysFixed32 oracle field enc v = _; rw [wAlwaysFixed32_shape]; exact gwAlways_eq oracle .fixed32 v h field enc
    case fixed64 => show GoSrc.EncTypes.wAlwaysFixed64 oracle field enc v = _; rw [wAlwaysFixed64_shape]; exact gwAlways_eq oracle .fixed64 v h field enc
    case sfixed32 => show GoSrc.EncTypes.wAlwaysSfixed32 oracle field enc v = _; rw [wAlwaysSfixed32_shape]; exact gwAlways_eq oracle .sfixed32 v h field enc
    case sfixed64 => show GoSrc.EncTypes.wAlwaysSfixed64 oracle field enc v = _; rw [wAlwaysSfixed64_shape]; exact gwAlways_eq oracle .sfixed64 v h field enc
    case float => show GoSrc.EncTypes.wAlwaysFloat oracle field enc v = _; rw [wAlwaysFloat_shape]; exact gwAlways_eq oracle .float v h field enc
    case double => show GoSrc.EncTypes.wAlwaysDouble oracle field enc v = _; rw [wAlwaysDouble_shape]; exact gwAlways_eq oracle .double v h field enc
    case string => show GoSrc.EncTypes.wAlwaysString oracle field enc v = _; rw [wAlwaysString_shape]; exact gwAlways_eq oracle .string v h field enc
    case bytes => show GoSrc.EncTypes.wAlwaysBytes oracle field enc v = _; rw [wAlwaysBytes_shape]; exact gwAlways_eq oracle .bytes v h field enc

/-- … whose logical bytes are the old ones followed by exactly `Enc.writeSingle` -/
theorem writeSingle_data (oracle : Nat → Bytes) (always : Bool) (k : Scalar) (field : Int) (enc : Buf)
    (v : GoVal k) (h : InRange k v) :
    ∃ t, srcWriteSingle oracle always k field enc v
      = .ok (⟨enc.data ++ Enc.writeSingle always k field (toS k v), t⟩, v) := by
  refine ⟨(writeSingleBuf oracle always k field (toS k v) enc).tail, ?_⟩
  rw [writeSingle_tie oracle always k field enc v h, ← writeSingleBuf_data]

/-! ### repeated writers -/

/-- the element loop of a packed writer: one append per element -/
def gwLoop1 {α : Type} (oracle : Nat → Bytes) (pay : α → Bytes) : List α → Buf → Res Buf
  | [], enc => pure enc
  | x :: rest1, enc => do
    let enc := enc.append oracle (pay x)
    gwLoop1 oracle pay rest1 enc

/-- the element loop of `RepeatedString` / `RepeatedBytes`: tag and length-prefixed element -/
def gwLoop2 (oracle : Nat → Bytes) (field : Int) : List Bytes → Buf → Res Buf
  | [], enc => pure enc
  | x :: rest1, enc => do
    let enc := (Pico.GoBuf.appendTag oracle enc field 2)
    let enc := enc.append oracle (lenPrefixed x)
    gwLoop2 oracle field rest1 enc

/-- `RepeatedBool`: tag, element count, one byte per element -/
def gwRepB {α : Type} (oracle : Nat → Bytes) (always : Bool) (pay : α → Bytes) (field : Int) (enc : Buf) (v : List α) :
    Res (Buf × List α) := do
  if always = false ∧ ((Go.len v) = (0 : Int)) then do
    pure (enc, v)
  else do
    let enc := (Pico.GoBuf.appendTag oracle enc field 2)
    let enc := (Pico.GoBuf.appendVarint oracle enc (Go.toU 64 (Go.len v)))
    let enc ← gwLoop1 oracle pay v enc
    pure (enc, v)

/-- `RepeatedFixed32` …: tag, byte count `len * mult`, the elements -/
def gwRepD {α : Type} (oracle : Nat → Bytes) (always : Bool) (mult : Int) (pay : α → Bytes) (field : Int) (enc : Buf) (v : List α) :
    Res (Buf × List α) := do
  if always = false ∧ ((Go.len v) = (0 : Int)) then do
    pure (enc, v)
  else do
    let enc := (Pico.GoBuf.appendTag oracle enc field 2)
    let enc := (Pico.GoBuf.appendVarint oracle enc (Go.toU 64 ((Go.len v) * mult)))
    let enc ← gwLoop1 oracle pay v enc
    pure (enc, v)

/-- `RepeatedInt32` …: the elements inside `alwaysAnyBytes` (length patched in afterwards) -/
def gwRepC {α : Type} (oracle : Nat → Bytes) (always : Bool) (pay : α → Bytes) (field : Int) (enc : Buf) (v : List α) :
    Res (Buf × List α) := do
  if always = false ∧ ((Go.len v) = (0 : Int)) then do
    pure (enc, v)
  else do
    let (enc, _r2) ← Pico.GoSrc.Encoder.alwaysAnyBytes oracle field (fun enc => do
        let enc ← gwLoop1 oracle pay v enc
        pure enc
      ) enc
    pure (enc, v)

/-- `RepeatedString` / `RepeatedBytes`: every element as its own field -/
def gwRepE (oracle : Nat → Bytes) (always : Bool) (field : Int) (enc : Buf) (v : List Bytes) :
    Res (Buf × List Bytes) := do
  if always = false ∧ ((Go.len v) = (0 : Int)) then do
    pure (enc, v)
  else do
    let enc ← gwLoop2 oracle field v enc
    pure (enc, v)

section instancesRep
open GoSrc.EncTypes

theorem wRepeatedBool_loop (oracle : Nat → Bytes) : ∀ xs enc, wRepeatedBool.loop1 oracle xs enc = gwLoop1 oracle (fun x : GoVal .bool => [(Go.encodeBool8 x)]) xs enc := by
  intro xs; induction xs with
  | nil => intro enc; rfl
  | cons x xs ih => intro enc; unfold wRepeatedBool.loop1 gwLoop1; simp only [ih] <;> rfl
theorem wRepeatedBool_shape (oracle : Nat → Bytes) (field : Int) (enc : Buf) (v : List (GoVal .bool)) :
    wRepeatedBool oracle field enc v = gwRepB oracle false (fun x => [(Go.encodeBool8 x)]) field enc v := by
  unfold wRepeatedBool gwRepB; simp [wRepeatedBool_loop]

theorem wAlwaysRepeatedBool_loop (oracle : Nat → Bytes) : ∀ xs enc, wAlwaysRepeatedBool.loop1 oracle xs enc = gwLoop1 oracle (fun x : GoVal .bool => [(Go.encodeBool8 x)]) xs enc := by
  intro xs; induction xs with
  | nil => intro enc; rfl
  | cons x xs ih => intro enc; unfold wAlwaysRepeatedBool.loop1 gwLoop1; simp only [ih] <;> rfl
theorem wAlwaysRepeatedBool_shape (oracle : Nat → Bytes) (field : Int) (enc : Buf) (v : List (GoVal .bool)) :
    wAlwaysRepeatedBool oracle field enc v = gwRepB oracle true (fun x => [(Go.encodeBool8 x)]) field enc v := by
  unfold wAlwaysRepeatedBool gwRepB; simp [wAlwaysRepeatedBool_loop]

theorem wRepeatedInt32_loop (oracle : Nat → Bytes) : ∀ xs enc, wRepeatedInt32.loop1 oracle xs enc = gwLoop1 oracle (fun x : GoVal .int32 => varint (Go.toU 64 x)) xs enc := by
  intro xs; induction xs with
  | nil => intro enc; rfl
  | cons x xs ih => intro enc; unfold wRepeatedInt32.loop1 gwLoop1; simp only [ih] <;> rfl
theorem wRepeatedInt32_shape (oracle : Nat → Bytes) (field : Int) (enc : Buf) (v : List (GoVal .int32)) :
    wRepeatedInt32 oracle field enc v = gwRepC oracle false (fun x => varint (Go.toU 64 x)) field enc v := by
  unfold wRepeatedInt32 gwRepC; simp [wRepeatedInt32_loop]

theorem wAlwaysRepeatedInt32_loop (oracle : Nat → Bytes) : ∀ xs enc, wAlwaysRepeatedInt32.loop1 oracle xs enc = gwLoop1 oracle (fun x : GoVal .int32 => varint (Go.toU 64 x)) xs enc := by
  intro xs; induction xs with
  | nil => intro enc; rfl
  | cons x xs ih => intro enc; unfold wAlwaysRepeatedInt32.loop1 gwLoop1; simp only [ih] <;> rfl
theorem wAlwaysRepeatedInt32_shape (oracle : Nat → Bytes) (field : Int) (enc : Buf) (v : List (GoVal .int32)) :
    wAlwaysRepeatedInt32 oracle field enc v = gwRepC oracle true (fun x => varint (Go.toU 64 x)) field enc v := by
  unfold wAlwaysRepeatedInt32 gwRepC; simp [wAlwaysRepeatedInt32_loop]

theorem wRepeatedInt64_loop (oracle : Nat → Bytes) : ∀ xs enc, wRepeatedInt64.loop1 oracle xs enc = gwLoop1 oracle (fun x : GoVal .int64 => varint (Go.toU 64 x)) xs enc := by
  intro xs; induction xs with
  | nil => intro enc; rfl
  | cons x xs ih => intro enc; unfold wRepeatedInt64.loop1 gwLoop1; simp only [ih] <;> rfl
theorem wRepeatedInt64_shape (oracle : Nat → Bytes) (field : Int) (enc : Buf) (v : List (GoVal .int64)) :
    wRepeatedInt64 oracle field enc v = gwRepC oracle false (fun x => varint (Go.toU 64 x)) field enc v := by
  unfold wRepeatedInt64 gwRepC; simp [wRepeatedInt64_loop]

theorem wAlwaysRepeatedInt64_loop (oracle : Nat → Bytes) : ∀ xs enc, wAlwaysRepeatedInt64.loop1 oracle xs enc = gwLoop1 oracle (fun x : GoVal .int64 => varint (Go.toU 64 x)) xs enc := by
  intro xs; induction xs with
  | nil => intro enc; rfl
  | cons x xs ih => intro enc; unfold wAlwaysRepeatedInt64.loop1 gwLoop1; simp only [ih] <;> rfl
theorem wAlwaysRepeatedInt64_shape (oracle : Nat → Bytes) (field : Int) (enc : Buf) (v : List (GoVal .int64)) :
    wAlwaysRepeatedInt64 oracle field enc v = gwRepC oracle true (fun x => varint (Go.toU 64 x)) field enc v := by
  unfold wAlwaysRepeatedInt64 gwRepC; simp [wAlwaysRepeatedInt64_loop]

theorem wRepeatedUint32_loop (oracle : Nat → Bytes) : ∀ xs enc, wRepeatedUint32.loop1 oracle xs enc = gwLoop1 oracle (fun x : GoVal .uint32 => varint x) xs enc := by
  intro xs; induction xs with
  | nil => intro enc; rfl
  | cons x xs ih => intro enc; unfold wRepeatedUint32.loop1 gwLoop1; simp only [ih] <;> rfl
theorem wRepeatedUint32_shape (oracle : Nat → Bytes) (field : Int) (enc : Buf) (v : List (GoVal .uint32)) :
    wRepeatedUint32 oracle field enc v = gwRepC oracle false (fun x => varint x) field enc v := by
  unfold wRepeatedUint32 gwRepC; simp [wRepeatedUint32_loop]

theorem wAlwaysRepeatedUint32_loop (oracle : Nat → Bytes) : ∀ xs enc, wAlwaysRepeatedUint32.loop1 oracle xs enc = gwLoop1 oracle (fun x : GoVal .uint32 => varint x) xs enc := by
  intro xs; induction xs with
  | nil => intro enc; rfl
  | cons x xs ih => intro enc; unfold wAlwaysRepeatedUint32.loop1 gwLoop1; simp only [ih] <;> rfl
theorem wAlwaysRepeatedUint32_shape (oracle : Nat → Bytes) (field : Int) (enc : Buf) (v : List (GoVal .uint32)) :
    wAlwaysRepeatedUint32 oracle field enc v = gwRepC oracle true (fun x => varint x) field enc v := by
  unfold wAlwaysRepeatedUint32 gwRepC; simp [wAlwaysRepeatedUint32_loop]

theorem wRepeatedUint64_loop (oracle : Nat → Bytes) : ∀ xs enc, wRepeatedUint64.loop1 oracle xs enc = gwLoop1 oracle (fun x : GoVal .uint64 => varint x) xs enc := by
  intro xs; induction xs with
  | nil => intro enc; rfl
  | cons x xs ih => intro enc; unfold wRepeatedUint64.loop1 gwLoop1; simp only [ih] <;> rfl
theorem wRepeatedUint64_shape (oracle : Nat → Bytes) (field : Int) (enc : Buf) (v : List (GoVal .uint64)) :
    wRepeatedUint64 oracle field enc v = gwRepC oracle false (fun x => varint x) field enc v := by
  unfold wRepeatedUint64 gwRepC; simp [wRepeatedUint64_loop]

theorem wAlwaysRepeatedUint64_loop (oracle : Nat → Bytes) : ∀ xs enc, wAlwaysRepeatedUint64.loop1 oracle xs enc = gwLoop1 oracle (fun x : GoVal .uint64 => varint x) xs enc := by
  intro xs; induction xs with
  | nil => intro enc; rfl
  | cons x xs ih => intro enc; unfold wAlwaysRepeatedUint64.loop1 gwLoop1; simp only [ih] <;> rfl
theorem wAlwaysRepeatedUint64_shape (oracle : Nat → Bytes) (field : Int) (enc : Buf) (v : List (GoVal .uint64)) :
    wAlwaysRepeatedUint64 oracle field enc v = gwRepC oracle true (fun x => varint x) field enc v := by
  unfold wAlwaysRepeatedUint64 gwRepC; simp [wAlwaysRepeatedUint64_loop]

theorem wRepeatedSint32_loop (oracle : Nat → Bytes) : ∀ xs enc, wRepeatedSint32.loop1 oracle xs enc = gwLoop1 oracle (fun x : GoVal .sint32 => varint (Go.encodeZigZag32 x)) xs enc := by
  intro xs; induction xs with
  | nil => intro enc; rfl
  | cons x xs ih => intro enc; unfold wRepeatedSint32.loop1 gwLoop1; simp only [ih] <;> rfl
theorem wRepeatedSint32_shape (oracle : Nat → Bytes) (field : Int) (enc : Buf) (v : List (GoVal .sint32)) :
    wRepeatedSint32 oracle field enc v = gwRepC oracle false (fun x => varint (Go.encodeZigZag32 x)) field enc v := by
  unfold wRepeatedSint32 gwRepC; simp [wRepeatedSint32_loop]

theorem wAlwaysRepeatedSint32_loop (oracle : Nat → Bytes) : ∀ xs enc, wAlwaysRepeatedSint32.loop1 oracle xs enc = gwLoop1 oracle (fun x : GoVal .sint32 => varint (Go.encodeZigZag32 x)) xs enc := by
  intro xs; induction xs with
  | nil => intro enc; rfl
  | cons x xs ih => intro enc; unfold wAlwaysRepeatedSint32.loop1 gwLoop1; simp only [ih] <;> rfl
theorem wAlwaysRepeatedSint32_shape (oracle : Nat → Bytes) (field : Int) (enc : Buf) (v : List (GoVal .sint32)) :
    wAlwaysRepeatedSint32 oracle field enc v = gwRepC oracle true (fun x => varint (Go.encodeZigZag32 x)) field enc v := by
  unfold wAlwaysRepeatedSint32 gwRepC; simp [wAlwaysRepeatedSint32_loop]

theorem wRepeatedSint64_loop (oracle : Nat → Bytes) : ∀ xs enc, wRepeatedSint64.loop1 oracle xs enc = gwLoop1 oracle (fun x : GoVal .sint64 => varint (Go.encodeZigZag x)) xs enc := by
  intro xs; induction xs with
  | nil => intro enc; rfl
  | cons x xs ih => intro enc; unfold wRepeatedSint64.loop1 gwLoop1; simp only [ih] <;> rfl
theorem wRepeatedSint64_shape (oracle : Nat → Bytes) (field : Int) (enc : Buf) (v : List (GoVal .sint64)) :
    wRepeatedSint64 oracle field enc v = gwRepC oracle false (fun x => varint (Go.encodeZigZag x)) field enc v := by
  unfold wRepeatedSint64 gwRepC; simp [wRepeatedSint64_loop]

theorem wAlwaysRepeatedSint64_loop (oracle : Nat → Bytes) : ∀ xs enc, wAlwaysRepeatedSint64.loop1 oracle xs enc = gwLoop1 oracle (fun x : GoVal .sint64 => varint (Go.encodeZigZag x)) xs enc := by
  intro xs; induction xs with
  | nil => intro enc; rfl
  | cons x xs ih => intro enc; unfold wAlwaysRepeatedSint64.loop1 gwLoop1; simp only [ih] <;> rfl
theorem wAlwaysRepeatedSint64_shape (oracle : Nat → Bytes) (field : Int) (enc : Buf) (v : List (GoVal .sint64)) :
    wAlwaysRepeatedSint64 oracle field enc v = gwRepC oracle true (fun x => varint (Go.encodeZigZag x)) field enc v := by
  unfold wAlwaysRepeatedSint64 gwRepC; simp [wAlwaysRepeatedSint64_loop]

theorem wRepeatedFixed32_loop (oracle : Nat → Bytes) : ∀ xs enc, wRepeatedFixed32.loop1 oracle xs enc = gwLoop1 oracle (fun x : GoVal .fixed32 => fixed32 x) xs enc := by
  intro xs; induction xs with
  | nil => intro enc; rfl
  | cons x xs ih => intro enc; unfold wRepeatedFixed32.loop1 gwLoop1; simp only [ih] <;> rfl
theorem wRepeatedFixed32_shape (oracle : Nat → Bytes) (field : Int) (enc : Buf) (v : List (GoVal .fixed32)) :
    wRepeatedFixed32 oracle field enc v = gwRepD oracle false 4 (fun x => fixed32 x) field enc v := by
  unfold wRepeatedFixed32 gwRepD; simp [wRepeatedFixed32_loop]

theorem wAlwaysRepeatedFixed32_loop (oracle : Nat → Bytes) : ∀ xs enc, wAlwaysRepeatedFixed32.loop1 oracle xs enc = gwLoop1 oracle (fun x : GoVal .fixed32 => fixed32 x) xs enc := by
  intro xs; induction xs with
  | nil => intro enc; rfl
  | cons x xs ih => intro enc; unfold wAlwaysRepeatedFixed32.loop1 gwLoop1; simp only [ih] <;> rfl
theorem wAlwaysRepeatedFixed32_shape (oracle : Nat → Bytes) (field : Int) (enc : Buf) (v : List (GoVal .fixed32)) :
    wAlwaysRepeatedFixed32 oracle field enc v = gwRepD oracle true 4 (fun x => fixed32 x) field enc v := by
  unfold wAlwaysRepeatedFixed32 gwRepD; simp [wAlwaysRepeatedFixed32_loop]

theorem wRepeatedSfixed32_loop (oracle : Nat → Bytes) : ∀ xs enc, wRepeatedSfixed32.loop1 oracle xs enc = gwLoop1 oracle (fun x : GoVal .sfixed32 => fixed32 (Go.toU 32 x)) xs enc := by
  intro xs; induction xs with
  | nil => intro enc; rfl
  | cons x xs ih => intro enc; unfold wRepeatedSfixed32.loop1 gwLoop1; simp only [ih] <;> rfl
theorem wRepeatedSfixed32_shape (oracle : Nat → Bytes) (field : Int) (enc : Buf) (v : List (GoVal .sfixed32)) :
    wRepeatedSfixed32 oracle field enc v = gwRepD oracle false 4 (fun x => fixed32 (Go.toU 32 x)) field enc v := by
  unfold wRepeatedSfixed32 gwRepD; simp [wRepeatedSfixed32_loop]

theorem wAlwaysRepeatedSfixed32_loop (oracle : Nat → Bytes) : ∀ xs enc, wAlwaysRepeatedSfixed32.loop1 oracle xs enc = gwLoop1 oracle (fun x : GoVal .sfixed32 => fixed32 (Go.toU 32 x)) xs enc := by
  intro xs; induction xs with
  | nil => intro enc; rfl
  | cons x xs ih => intro enc; unfold wAlwaysRepeatedSfixed32.loop1 gwLoop1; simp only [ih] <;> rfl
theorem wAlwaysRepeatedSfixed32_shape (oracle : Nat → Bytes) (field : Int) (enc : Buf) (v : List (GoVal .sfixed32)) :
    wAlwaysRepeatedSfixed32 oracle field enc v = gwRepD oracle true 4 (fun x => fixed32 (Go.toU 32 x)) field enc v := by
  unfold wAlwaysRepeatedSfixed32 gwRepD; simp [wAlwaysRepeatedSfixed32_loop]

theorem wRepeatedFloat_loop (oracle : Nat → Bytes) : ∀ xs enc, wRepeatedFloat.loop1 oracle xs enc = gwLoop1 oracle (fun x : GoVal .float => fixed32 (Go.float32bits x)) xs enc := by
  intro xs; induction xs with
  | nil => intro enc; rfl
  | cons x xs ih => intro enc; unfold wRepeatedFloat.loop1 gwLoop1; simp only [ih] <;> rfl
theorem wRepeatedFloat_shape (oracle : Nat → Bytes) (field : Int) (enc : Buf) (v : List (GoVal .float)) :
    wRepeatedFloat oracle field enc v = gwRepD oracle false 4 (fun x => fixed32 (Go.float32bits x)) field enc v := by
  unfold wRepeatedFloat gwRepD; simp [wRepeatedFloat_loop]

theorem wAlwaysRepeatedFloat_loop (oracle : Nat → Bytes) : ∀ xs enc, wAlwaysRepeatedFloat.loop1 oracle xs enc = gwLoop1 oracle (fun x : GoVal .float => fixed32 (Go.float32bits x)) xs enc := by
  intro xs; induction xs with
  | nil => intro enc; rfl
  | cons x xs ih => intro enc; unfold wAlwaysRepeatedFloat.loop1 gwLoop1; simp only [ih] <;> rfl
theorem wAlwaysRepeatedFloat_shape (oracle : Nat → Bytes) (field : Int) (enc : Buf) (v : List (GoVal .float)) :
    wAlwaysRepeatedFloat oracle field enc v = gwRepD oracle true 4 (fun x => fixed32 (Go.float32bits x)) field enc v := by
  unfold wAlwaysRepeatedFloat gwRepD; simp [wAlwaysRepeatedFloat_loop]

theorem wRepeatedFixed64_loop (oracle : Nat → Bytes) : ∀ xs enc, wRepeatedFixed64.loop1 oracle xs enc = gwLoop1 oracle (fun x : GoVal .fixed64 => fixed64 x) xs enc := by
  intro xs; induction xs with
  | nil => intro enc; rfl
  | cons x xs ih => intro enc; unfold wRepeatedFixed64.loop1 gwLoop1; simp only [ih] <;> rfl
theorem wRepeatedFixed64_shape (oracle : Nat → Bytes) (field : Int) (enc : Buf) (v : List (GoVal .fixed64)) :
    wRepeatedFixed64 oracle field enc v = gwRepD oracle false 8 (fun x => fixed64 x) field enc v := by
  unfold wRepeatedFixed64 gwRepD; simp [wRepeatedFixed64_loop]

theorem wAlwaysRepeatedFixed64_loop (oracle : Nat → Bytes) : ∀ xs enc, wAlwaysRepeatedFixed64.loop1 oracle xs enc = gwLoop1 oracle (fun x : GoVal .fixed64 => fixed64 x) xs enc := by
  intro xs; induction xs with
  | nil => intro enc; rfl
  | cons x xs ih => intro enc; unfold wAlwaysRepeatedFixed64.loop1 gwLoop1; simp only [ih] <;> rfl
theorem wAlwaysRepeatedFixed64_shape (oracle : Nat → Bytes) (field : Int) (enc : Buf) (v : List (GoVal .fixed64)) :
    wAlwaysRepeatedFixed64 oracle field enc v = gwRepD oracle true 8 (fun x => fixed64 x) field enc v := by
  unfold wAlwaysRepeatedFixed64 gwRepD; simp [wAlwaysRepeatedFixed64_loop]

theorem wRepeatedSfixed64_loop (oracle : Nat → Bytes) : ∀ xs enc, wRepeatedSfixed64.loop1 oracle xs enc = gwLoop1 oracle (fun x : GoVal .sfixed64 => fixed64 (Go.toU 64 x)) xs enc := by
  intro xs; induction xs with
  | nil => intro enc; rfl
  | cons x xs ih => intro enc; unfold wRepeatedSfixed64.loop1 gwLoop1; simp only [ih] <;> rfl
theorem wRepeatedSfixed64_shape (oracle : Nat → Bytes) (field : Int) (enc : Buf) (v : List (GoVal .sfixed64)) :
    wRepeatedSfixed64 oracle field enc v = gwRepD oracle false 8 (fun x => fixed64 (Go.toU 64 x)) field enc v := by
  unfold wRepeatedSfixed64 gwRepD; simp [wRepeatedSfixed64_loop]

theorem wAlwaysRepeatedSfixed64_loop (oracle : Nat → Bytes) : ∀ xs enc, wAlwaysRepeatedSfixed64.loop1 oracle xs enc = gwLoop1 oracle (fun x : GoVal .sfixed64 => fixed64 (Go.toU 64 x)) xs enc := by
  intro xs; induction xs with
  | nil => intro enc; rfl
  | cons x xs ih => intro enc; unfold wAlwaysRepeatedSfixed64.loop1 gwLoop1; simp only [ih] <;> rfl
theorem wAlwaysRepeatedSfixed64_shape (oracle : Nat → Bytes) (field : Int) (enc : Buf) (v : List (GoVal .sfixed64)) :
    wAlwaysRepeatedSfixed64 oracle field enc v = gwRepD oracle true 8 (fun x => fixed64 (Go.toU 64 x)) field enc v := by
  unfold wAlwaysRepeatedSfixed64 gwRepD; simp [wAlwaysRepeatedSfixed64_loop]

theorem wRepeatedDouble_loop (oracle : Nat → Bytes) : ∀ xs enc, wRepeatedDouble.loop1 oracle xs enc = gwLoop1 oracle (fun x : GoVal .double => fixed64 (Go.float64bits x)) xs enc := by
  intro xs; induction xs with
  | nil => intro enc; rfl
  | cons x xs ih => intro enc; unfold wRepeatedDouble.loop1 gwLoop1; simp only [ih] <;> rfl
theorem wRepeatedDouble_shape (oracle : Nat → Bytes) (field : Int) (enc : Buf) (v : List (GoVal .double)) :
    wRepeatedDouble oracle field enc v = gwRepD oracle false 8 (fun x => fixed64 (Go.float64bits x)) field enc v := by
  unfold wRepeatedDouble gwRepD; simp [wRepeatedDouble_loop]

theorem wAlwaysRepeatedDouble_loop (oracle : Nat → Bytes) : ∀ xs enc, wAlwaysRepeatedDouble.loop1 oracle xs enc = gwLoop1 oracle (fun x : GoVal .double => fixed64 (Go.float64bits x)) xs enc := by
  intro xs; induction xs with
  | nil => intro enc; rfl
  | cons x xs ih => intro enc; unfold wAlwaysRepeatedDouble.loop1 gwLoop1; simp only [ih] <;> rfl
theorem wAlwaysRepeatedDouble_shape (oracle : Nat → Bytes) (field : Int) (enc : Buf) (v : List (GoVal .double)) :
    wAlwaysRepeatedDouble oracle field enc v = gwRepD oracle true 8 (fun x => fixed64 (Go.float64bits x)) field enc v := by
  unfold wAlwaysRepeatedDouble gwRepD; simp [wAlwaysRepeatedDouble_loop]

theorem wRepeatedString_loop (oracle : Nat → Bytes) (field : Int) : ∀ xs enc, wRepeatedString.loop1 oracle field xs enc = gwLoop2 oracle field xs enc := by
  intro xs; induction xs with
  | nil => intro enc; rfl
  | cons x xs ih => intro enc; unfold wRepeatedString.loop1 gwLoop2; simp only [ih] <;> rfl
theorem wRepeatedString_shape (oracle : Nat → Bytes) (field : Int) (enc : Buf) (v : List (GoVal .string)) :
    wRepeatedString oracle field enc v = gwRepE oracle false field enc v := by
  unfold wRepeatedString gwRepE; simp [wRepeatedString_loop]

theorem wAlwaysRepeatedString_loop (oracle : Nat → Bytes) (field : Int) : ∀ xs enc, wAlwaysRepeatedString.loop1 oracle field xs enc = gwLoop2 oracle field xs enc := by
  intro xs; induction xs with
  | nil => intro enc; rfl
  | cons x xs ih => intro enc; unfold wAlwaysRepeatedString.loop1 gwLoop2; simp only [ih] <;> rfl
theorem wAlwaysRepeatedString_shape (oracle : Nat → Bytes) (field : Int) (enc : Buf) (v : List (GoVal .string)) :
    wAlwaysRepeatedString oracle field enc v = gwRepE oracle true field enc v := by
  unfold wAlwaysRepeatedString gwRepE; simp [wAlwaysRepeatedString_loop]

theorem wRepeatedBytes_loop (oracle : Nat → Bytes) (field : Int) : ∀ xs enc, wRepeatedBytes.loop1 oracle field xs enc = gwLoop2 oracle field xs enc := by
  intro xs; induction xs with
  | nil => intro enc; rfl
  | cons x xs ih => intro enc; unfold wRepeatedBytes.loop1 gwLoop2; simp only [ih] <;> rfl
theorem wRepeatedBytes_shape (oracle : Nat → Bytes) (field : Int) (enc : Buf) (v : List (GoVal .bytes)) :
    wRepeatedBytes oracle field enc v = gwRepE oracle false field enc v := by
  unfold wRepeatedBytes gwRepE; simp [wRepeatedBytes_loop]

theorem wAlwaysRepeatedBytes_loop (oracle : Nat → Bytes) (field : Int) : ∀ xs enc, wAlwaysRepeatedBytes.loop1 oracle field xs enc = gwLoop2 oracle field xs enc := by
  intro xs; induction xs with
  | nil => intro enc; rfl
  | cons x xs ih => intro enc; unfold wAlwaysRepeatedBytes.loop1 gwLoop2; simp only [ih] <;> rfl
theorem wAlwaysRepeatedBytes_shape (oracle : Nat → Bytes) (field : Int) (enc : Buf) (v : List (GoVal .bytes)) :
    wAlwaysRepeatedBytes oracle field enc v = gwRepE oracle true field enc v := by
  unfold wAlwaysRepeatedBytes gwRepE; simp [wAlwaysRepeatedBytes_loop]

end instancesRep

theorem gwLoop1_app {α : Type} (oracle : Nat → Bytes) (pay : α → Bytes) : ∀ (xs : List α) (b : Buf),
    ∃ t, gwLoop1 oracle pay xs b = .ok ⟨b.data ++ (xs.map pay).flatten, t⟩ := by
  intro xs
  induction xs with
  | nil => intro b; exact ⟨b.tail, by simp [gwLoop1, pure]⟩
  | cons x xs ih =>
    intro b
    obtain ⟨t, ht⟩ := ih (b.append oracle (pay x))
    refine ⟨t, ?_⟩
    unfold gwLoop1
    simp only [ht, append_data, List.map_cons, List.flatten_cons, List.append_assoc]

theorem gwLoop2_app (oracle : Nat → Bytes) (field : Int) : ∀ (xs : List Bytes) (b : Buf),
    ∃ t, gwLoop2 oracle field xs b
      = .ok ⟨b.data ++ (xs.map fun x => Enc.appendTag field 2 ++ lenPrefixed x).flatten, t⟩ := by
  intro xs
  induction xs with
  | nil => intro b; exact ⟨b.tail, by simp [gwLoop2, pure]⟩
  | cons x xs ih =>
    intro b
    obtain ⟨t, ht⟩ := ih ((b.append oracle (Enc.appendTag field 2)).append oracle (lenPrefixed x))
    refine ⟨t, ?_⟩
    unfold gwLoop2 GoBuf.appendTag
    simp only [ht, append_data, List.map_cons, List.flatten_cons, List.append_assoc]

theorem toU64_len {α} (v : List α) (h : v.length < 18446744073709551616) : Go.toU 64 (Go.len v) = v.length := by
  unfold Go.toU Go.len
  simp only [show (2:Int)^64 = 18446744073709551616 from by decide]
  omega

theorem toU64_len_mul {α} (v : List α) (m : Nat) (h : v.length * m < 18446744073709551616) :
    Go.toU 64 ((Go.len v) * (m : Int)) = v.length * m := by
  unfold Go.toU Go.len
  simp only [show (2:Int)^64 = 18446744073709551616 from by decide]
  have : ((v.length : Int) * (m : Int)) = ((v.length * m : Nat) : Int) := by simp
  rw [this]
  omega

theorem len_zero_iff {α} (v : List α) : (Go.len v = (0 : Int)) ↔ v = [] := by
  unfold Go.len
  constructor
  · intro h; exact List.length_eq_zero_iff.mp (by omega)
  · intro h; subst h; rfl

theorem gwRepB_data {α : Type} (oracle : Nat → Bytes) (always : Bool) (pay : α → Bytes) (field : Int) (enc : Buf)
    (v : List α) (hl : v.length < 18446744073709551616) :
    ∃ t, gwRepB oracle always pay field enc v
      = .ok (⟨enc.data ++ (if always = false ∧ v = [] then [] else
          Enc.appendTag field 2 ++ varint v.length ++ (v.map pay).flatten), t⟩, v) := by
  unfold gwRepB GoBuf.appendTag GoBuf.appendVarint
  by_cases hg : always = false ∧ v = []
  · have hg' : always = false ∧ Go.len v = (0 : Int) := ⟨hg.1, (len_zero_iff v).mpr hg.2⟩
    refine ⟨enc.tail, ?_⟩
    rw [if_pos hg', if_pos hg]; simp [pure]
  · have hg' : ¬ (always = false ∧ Go.len v = (0 : Int)) := fun h => hg ⟨h.1, (len_zero_iff v).mp h.2⟩
    obtain ⟨t, ht⟩ := gwLoop1_app oracle pay v ((enc.append oracle (Enc.appendTag field 2)).append oracle (varint (Go.toU 64 (Go.len v))))
    refine ⟨t, ?_⟩
    rw [if_neg hg', if_neg hg]
    simp only [toU64_len v hl] at ht ⊢
    simp only [ht, append_data, bind, Res.bind, pure, List.append_assoc]

theorem gwRepD_data {α : Type} (oracle : Nat → Bytes) (always : Bool) (mult : Nat) (pay : α → Bytes) (field : Int) (enc : Buf)
    (v : List α) (hl : v.length * mult < 18446744073709551616) :
    ∃ t, gwRepD oracle always (mult : Int) pay field enc v
      = .ok (⟨enc.data ++ (if always = false ∧ v = [] then [] else
          Enc.appendTag field 2 ++ varint (v.length * mult) ++ (v.map pay).flatten), t⟩, v) := by
  unfold gwRepD GoBuf.appendTag GoBuf.appendVarint
  by_cases hg : always = false ∧ v = []
  · have hg' : always = false ∧ Go.len v = (0 : Int) := ⟨hg.1, (len_zero_iff v).mpr hg.2⟩
    refine ⟨enc.tail, ?_⟩
    rw [if_pos hg', if_pos hg]; simp [pure]
  · have hg' : ¬ (always = false ∧ Go.len v = (0 : Int)) := fun h => hg ⟨h.1, (len_zero_iff v).mp h.2⟩
    obtain ⟨t, ht⟩ := gwLoop1_app oracle pay v ((enc.append oracle (Enc.appendTag field 2)).append oracle (varint (Go.toU 64 ((Go.len v) * (mult : Int)))))
    refine ⟨t, ?_⟩
    rw [if_neg hg', if_neg hg]
    simp only [toU64_len_mul v mult hl] at ht ⊢
    simp only [ht, append_data, bind, Res.bind, pure, List.append_assoc]

theorem gwRepE_data (oracle : Nat → Bytes) (always : Bool) (field : Int) (enc : Buf) (v : List Bytes) :
    ∃ t, gwRepE oracle always field enc v
      = .ok (⟨enc.data ++ (v.map fun x => Enc.appendTag field 2 ++ lenPrefixed x).flatten, t⟩, v) := by
  unfold gwRepE
  by_cases hg : always = false ∧ v = []
  · have hg' : always = false ∧ Go.len v = (0 : Int) := ⟨hg.1, (len_zero_iff v).mpr hg.2⟩
    refine ⟨enc.tail, ?_⟩
    rw [if_pos hg']; simp [pure, hg.2]
  · have hg' : ¬ (always = false ∧ Go.len v = (0 : Int)) := fun h => hg ⟨h.1, (len_zero_iff v).mp h.2⟩
    obtain ⟨t, ht⟩ := gwLoop2_app oracle field v enc
    refine ⟨t, ?_⟩
    rw [if_neg hg']
    simp only [ht, bind, Res.bind, pure]

theorem appendTag_length_le (field : Int) (typ : Nat) : (Enc.appendTag field typ).length ≤ 10 := by
  unfold Enc.appendTag
  exact varint_length_le_ten _ (Pico.GoTie.W.encodeTag_lt64 field typ)

theorem gwRepC_data {α : Type} (oracle : Nat → Bytes) (always : Bool) (pay : α → Bytes) (field : Int) (enc : Buf)
    (v : List α) (hsz : enc.len + 12 + ((v.map pay).flatten).length < 9223372036854775808) :
    ∃ t, gwRepC oracle always pay field enc v
      = .ok (⟨enc.data ++ (if always = false ∧ v = [] then [] else
          Enc.alwaysAnyBytes field (v.map pay).flatten), t⟩, v) := by
  unfold gwRepC
  by_cases hg : always = false ∧ v = []
  · have hg' : always = false ∧ Go.len v = (0 : Int) := ⟨hg.1, (len_zero_iff v).mpr hg.2⟩
    refine ⟨enc.tail, ?_⟩
    rw [if_pos hg', if_pos hg]; simp [pure]
  · have hg' : ¬ (always = false ∧ Go.len v = (0 : Int)) := fun h => hg ⟨h.1, (len_zero_iff v).mp h.2⟩
    rw [if_neg hg', if_neg hg]
    have hfn : (fun enc : Buf => do
        let enc ← gwLoop1 oracle pay v enc
        pure enc) = gwLoop1 oracle pay v := by
      funext b; cases gwLoop1 oracle pay v b <;> rfl
    rw [hfn]
    have hao : AppendOnly1 (gwLoop1 oracle pay v) (v.map pay).flatten := gwLoop1_app oracle pay v
    have htl := appendTag_length_le field 2
    have hgr : Grows1 (gwLoop1 oracle pay v) (start oracle field enc) := by
      intro b' hb
      obtain ⟨t, ht⟩ := hao (start oracle field enc)
      rw [ht] at hb
      cases hb
      have hs : (start oracle field enc).len = enc.len + (Enc.appendTag field 2).length + 2 := by
        unfold start; rw [append_len, append_len]; simp
      simp only [Buf.len, List.length_append] at hs hsz ⊢
      omega
    rw [alwaysAnyBytes_eq oracle field _ enc hgr]
    have hd := alwaysAnyBytesLow_eq_abstract oracle field (v.map pay).flatten (gwLoop1 oracle pay v) hao
      (by
        have : (2:Nat)^64 = 18446744073709551616 := by decide
        omega) enc
    obtain ⟨t, ht⟩ := dataOf1_some hd
    exact ⟨t, by simp [ht, bind, Res.bind, pure]⟩

/-! ### the repeated writers against `Enc.writeRepeated` -/

theorem flatten_length_le (l : List Bytes) (n : Nat) (h : ∀ b ∈ l, b.length ≤ n) : l.flatten.length ≤ n * l.length := by
  induction l with
  | nil => simp
  | cons x xs ih =>
    have h1 := h x (by simp)
    have h2 := ih (fun b hb => h b (by simp [hb]))
    simp only [List.flatten_cons, List.length_append, List.length_cons, Nat.mul_add, Nat.mul_one]
    omega

theorem guard_align (always : Bool) {α β} (vs : List α) (f : α → β) :
    (always = false ∧ vs = []) ↔ ((!always && (vs.map f).isEmpty) = true) := by
  cases always <;> cases vs <;> simp

/-- the model's variant of a repeated writer -/
def repVar (always : Bool) : Variant := if always then .alwaysRep else .rep

theorem map_pay {k : Scalar} (var : Variant) (hk : k.isBytes = false) (vs : List (GoVal k)) (hr : ∀ x ∈ vs, InRange k x)
    (pay : GoVal k → Bytes) (enc1 : Nat → Bytes) (hp : ∀ x, pay x = enc1 (encConv k x)) :
    vs.map pay = (vs.map (toS k)).map (fun sv => enc1 (encBits var k sv.num!)) := by
  rw [List.map_map]
  apply List.map_congr_left
  intro x hx
  simp only [Function.comp, hp, encConv_eq var k hk x (hr x hx)]

theorem famC (oracle : Nat → Bytes) (always : Bool) (k : Scalar) (hk0 : k.wire = 0) (hkb : k ≠ .bool)
    (pay : GoVal k → Bytes) (hp : ∀ x, pay x = varint (encConv k x)) (field : Int) (enc : Buf)
    (vs : List (GoVal k)) (hr : ∀ x ∈ vs, InRange k x) (hsz : enc.len + 10 * vs.length + 12 < 9223372036854775808) :
    ∃ t, gwRepC oracle always pay field enc vs
      = .ok (⟨enc.data ++ Enc.writeRepeated always k field (vs.map (toS k)), t⟩, vs) := by
  have hk : k.isBytes = false := by cases k <;> simp_all [Scalar.isBytes, Scalar.wire]
  have hm := map_pay (repVar always) hk vs hr pay varint hp
  have hlen : ((vs.map pay).flatten).length ≤ 10 * vs.length := by
    have := flatten_length_le (vs.map pay) 10 (by
      intro b hb
      rw [hm] at hb
      obtain ⟨sv, _, rfl⟩ := List.mem_map.mp hb
      exact varint_length_le_ten _ (enc_lt_two64 _ k hk _))
    simpa using this
  obtain ⟨t, ht⟩ := gwRepC_data oracle always pay field enc vs (by omega)
  refine ⟨t, ?_⟩
  rw [ht, hm]
  have hmodel : Enc.writeRepeated always k field (vs.map (toS k))
      = if (!always && (vs.map (toS k)).isEmpty) then []
        else Enc.alwaysAnyBytes field ((vs.map (toS k)).map fun v => varint (encBits (repVar always) k v.num!)).flatten := by
    unfold Enc.writeRepeated repVar
    cases k <;> simp_all [Scalar.wire]
  rw [hmodel]
  by_cases hg : always = false ∧ vs = []
  · rw [if_pos hg, if_pos ((guard_align always vs (toS k)).mp hg)]
  · rw [if_neg hg, if_neg (fun h => hg ((guard_align always vs (toS k)).mpr h))]

theorem famD (oracle : Nat → Bytes) (always : Bool) (k : Scalar) (mult : Nat) (enc1 : Nat → Bytes)
    (hw : (k.wire = 5 ∧ mult = 4 ∧ enc1 = fixed32) ∨ (k.wire = 1 ∧ mult = 8 ∧ enc1 = fixed64))
    (pay : GoVal k → Bytes) (hp : ∀ x, pay x = enc1 (encConv k x)) (field : Int) (enc : Buf)
    (vs : List (GoVal k)) (hr : ∀ x ∈ vs, InRange k x) (hsz : enc.len + 10 * vs.length + 12 < 9223372036854775808) :
    ∃ t, gwRepD oracle always (mult : Int) pay field enc vs
      = .ok (⟨enc.data ++ Enc.writeRepeated always k field (vs.map (toS k)), t⟩, vs) := by
  have hk : k.isBytes = false := by cases k <;> simp_all [Scalar.isBytes, Scalar.wire]
  have hm := map_pay (repVar always) hk vs hr pay enc1 hp
  have hmu : mult ≤ 8 := by rcases hw with h | h <;> omega
  obtain ⟨t, ht⟩ := gwRepD_data oracle always mult pay field enc vs (by
    have : vs.length * mult ≤ vs.length * 8 := Nat.mul_le_mul_left _ hmu
    omega)
  refine ⟨t, ?_⟩
  rw [ht, hm]
  have hmodel : Enc.writeRepeated always k field (vs.map (toS k))
      = if (!always && (vs.map (toS k)).isEmpty) then []
        else Enc.appendTag field 2 ++ varint ((vs.map (toS k)).length * mult)
          ++ ((vs.map (toS k)).map fun v => enc1 (encBits (repVar always) k v.num!)).flatten := by
    unfold Enc.writeRepeated repVar
    rcases hw with ⟨h1, h2, h3⟩ | ⟨h1, h2, h3⟩ <;> subst h2 h3 <;> cases k <;> simp_all [Scalar.wire]
  rw [hmodel, List.length_map]
  by_cases hg : always = false ∧ vs = []
  · rw [if_pos hg, if_pos ((guard_align always vs (toS k)).mp hg)]
  · rw [if_neg hg, if_neg (fun h => hg ((guard_align always vs (toS k)).mpr h))]

theorem bool_bytes (always : Bool) (vs : List Bool) :
    (vs.map (fun x : Bool => [(Go.encodeBool8 x)])).flatten
      = (vs.map (toS .bool)).map (fun v => byteOfNat (encBits (repVar always) .bool v.num!)) := by
  induction vs with
  | nil => rfl
  | cons x xs ih =>
    simp only [List.map_cons, List.flatten_cons, ih, List.singleton_append]
    congr 1
    cases always <;> cases x <;> rfl

theorem famB (oracle : Nat → Bytes) (always : Bool) (field : Int) (enc : Buf)
    (vs : List (GoVal .bool)) (hsz : enc.len + 10 * vs.length + 12 < 9223372036854775808) :
    ∃ t, gwRepB oracle always (fun x : GoVal .bool => [(Go.encodeBool8 x)]) field enc vs
      = .ok (⟨enc.data ++ Enc.writeRepeated always .bool field (vs.map (toS .bool)), t⟩, vs) := by
  obtain ⟨t, ht⟩ := gwRepB_data oracle always (fun x : GoVal .bool => [(Go.encodeBool8 x)]) field enc vs (by omega)
  refine ⟨t, ?_⟩
  rw [ht]
  have hfl := bool_bytes always vs
  rw [hfl]
  have hmodel : Enc.writeRepeated always .bool field (vs.map (toS .bool))
      = if (!always && (vs.map (toS .bool)).isEmpty) then []
        else Enc.appendTag field 2 ++ varint (vs.map (toS .bool)).length
          ++ (vs.map (toS .bool)).map (fun v => byteOfNat (encBits (repVar always) .bool v.num!)) := by
    unfold Enc.writeRepeated repVar; rfl
  rw [hmodel, List.length_map]
  by_cases hg : always = false ∧ vs = []
  · rw [if_pos hg, if_pos ((guard_align always vs (toS .bool)).mp hg)]
  · rw [if_neg hg, if_neg (fun h => hg ((guard_align always vs (toS .bool)).mpr h))]

theorem famE (oracle : Nat → Bytes) (always : Bool) (k : Scalar) (hk : k.isBytes = true) (field : Int) (enc : Buf)
    (vs : List Bytes) (toS' : Bytes → Enc.SVal) (hts : ∀ x, (toS' x).bytes! = x) :
    ∃ t, gwRepE oracle always field enc vs
      = .ok (⟨enc.data ++ Enc.writeRepeated always k field (vs.map toS'), t⟩, vs) := by
  obtain ⟨t, ht⟩ := gwRepE_data oracle always field enc vs
  refine ⟨t, ?_⟩
  rw [ht]
  have hmodel : Enc.writeRepeated always k field (vs.map toS')
      = if (!always && (vs.map toS').isEmpty) then []
        else ((vs.map toS').map fun v => Enc.appendTag field 2 ++ lenPrefixed v.bytes!).flatten := by
    unfold Enc.writeRepeated
    cases k
    case string => rfl
    case bytes => rfl
    all_goals cases hk
  rw [hmodel, List.map_map]
  have hmap : (vs.map ((fun v => Enc.appendTag field 2 ++ lenPrefixed v.bytes!) ∘ toS'))
      = vs.map (fun x => Enc.appendTag field 2 ++ lenPrefixed x) := by
    apply List.map_congr_left; intro x _; simp [Function.comp, hts]
  rw [hmap]
  by_cases hg : always = false ∧ vs = []
  · rw [if_pos ((guard_align always vs toS').mp hg)]; simp [hg.2]
  · rw [if_neg (fun h => hg ((guard_align always vs toS').mpr h))]

open GoSrc.EncTypes in
/-- the translated repeated writer of kind `k` (`Encoder.Repeated<Kind>` / `Encoder.AlwaysRepeated<Kind>`) -/
def srcWriteRepeated (oracle : Nat → Bytes) : (always : Bool) → (k : Scalar) → Int → Buf → List (GoVal k) → Res (Buf × List (GoVal k))
  | false, .bool => wRepeatedBool oracle
  | false, .int32 => wRepeatedInt32 oracle
  | false, .int64 => wRepeatedInt64 oracle
  | false, .uint32 => wRepeatedUint32 oracle
  | false, .uint64 => wRepeatedUint64 oracle
  | false, .sint32 => wRepeatedSint32 oracle
  | false, .sint64 => wRepeatedSint64 oracle
  | false, .fixed32 => wRepeatedFixed32 oracle
  | false, .fixed64 => wRepeatedFixed64 oracle
  | false, .sfixed32 => wRepeatedSfixed32 oracle
  | false, .sfixed64 => wRepeatedSfixed64 oracle
  | false, .float => wRepeatedFloat oracle
  | false, .double => wRepeatedDouble oracle
  | false, .string => wRepeatedString oracle
  | false, .bytes => wRepeatedBytes oracle
  | true, .bool => wAlwaysRepeatedBool oracle
  | true, .int32 => wAlwaysRepeatedInt32 oracle
  | true, .int64 => wAlwaysRepeatedInt64 oracle
  | true, .uint32 => wAlwaysRepeatedUint32 oracle
  | true, .uint64 => wAlwaysRepeatedUint64 oracle
  | true, .sint32 => wAlwaysRepeatedSint32 oracle
  | true, .sint64 => wAlwaysRepeatedSint64 oracle
  | true, .fixed32 => wAlwaysRepeatedFixed32 oracle
  | true, .fixed64 => wAlwaysRepeatedFixed64 oracle
  | true, .sfixed32 => wAlwaysRepeatedSfixed32 oracle
  | true, .sfixed64 => wAlwaysRepeatedSfixed64 oracle
  | true, .float => wAlwaysRepeatedFloat oracle
  | true, .double => wAlwaysRepeatedDouble oracle
  | true, .string => wAlwaysRepeatedString oracle
  | true, .bytes => wAlwaysRepeatedBytes oracle

/-- TIE (encoder_types.go, repeated writers): for every kind, both variants and every list of
values of the Go type (buffer below 2^63 bytes), the translated writer returns normally, leaves
its argument as it was, and appends exactly the model's bytes `Enc.writeRepeated` — packed with a
patched-in length for the varint kinds, packed with a computed length for bool and the fixed-width
kinds, one field per element for string and bytes. -/
theorem writeRepeated_tie (oracle : Nat → Bytes) (always : Bool) (k : Scalar) (field : Int) (enc : Buf)
    (vs : List (GoVal k)) (hr : ∀ x ∈ vs, InRange k x) (hsz : enc.len + 10 * vs.length + 12 < 9223372036854775808) :
    ∃ t, srcWriteRepeated oracle always k field enc vs
      = .ok (⟨enc.data ++ Enc.writeRepeated always k field (vs.map (toS k)), t⟩, vs) := by
  cases always
  · cases k
    case bool => show ∃ t, GoSrc.EncTypes.wRepeatedBool oracle field enc vs = _; rw [wRepeatedBool_shape]; exact famB oracle false field enc vs hsz
    case int32 => show ∃ t, GoSrc.EncTypes.wRepeatedInt32 oracle field enc vs = _; rw [wRepeatedInt32_shape]; exact famC oracle false .int32 rfl (by decide) _ (fun _ => rfl) field enc vs hr hsz
    case int64 => show ∃ t, GoSrc.EncTypes.wRepeatedInt64 oracle field enc vs = _; rw [wRepeatedInt64_shape]; exact famC oracle false .int64 rfl (by decide) _ (fun _ => rfl) field enc vs hr hsz
    case uint32 => show ∃ t, GoSrc.EncTypes.wRepeatedUint32 oracle field enc vs = _; rw [wRepeatedUint32_shape]; exact famC oracle false .uint32 rfl (by decide) _ (fun _ => rfl) field enc vs hr hsz
    case uint64 => show ∃ t, GoSrc.EncTypes.wRepeatedUint64 oracle field enc vs = _; rw [wRepeatedUint64_shape]; exact famC oracle false .uint64 rfl (by decide) _ (fun _ => rfl) field enc vs hr hsz
    case sint32 => show ∃ t, GoSrc.EncTypes.wRepeatedSint32 oracle field enc vs = _; rw [wRepeatedSint32_shape]; exact famC oracle false .sint32 rfl (by decide) _ (fun _ => rfl) field enc vs hr hsz
    case sint64 => show ∃ t, GoSrc.EncTypes.wRepeatedSint64 oracle field enc vs = _; rw [wRepeatedSint64_shape]; exact famC oracle false .sint64 rfl (by decide) _ (fun _ => rfl) field enc vs hr hsz
    case fixed32 => show ∃ t, GoSrc.EncTypes.wRepeatedFixed32 oracle field enc vs = _; rw [wRepeatedFixed32_shape]; exact famD oracle false .fixed32 4 fixed32 (Or.inl ⟨rfl, rfl, rfl⟩) _ (fun _ => rfl) field enc vs hr hsz
    case fixed64 => show ∃ t, GoSrc.EncTypes.wRepeatedFixed64 oracle field enc vs = _; rw [wRepeatedFixed64_shape]; exact famD oracle false .fixed64 8 fixed64 (Or.inr ⟨rfl, rfl, rfl⟩) _ (fun _ => rfl) field enc vs hr hsz
    case sfixed32 => show ∃ t, GoSrc.EncTypes.wRepeatedSfixed32 oracle field enc vs = _; rw [wRepeatedSfixed32_shape]; exact famD oracle false .sfixed32 4 fixed32 (Or.inl ⟨rfl, rfl, rfl⟩) _ (fun _ => rfl) field enc vs hr hsz
    case sfixed64 => show ∃ t, GoSrc.EncTypes.wRepeatedSfixed64 oracle field enc vs = _; rw [wRepeatedSfixed64_shape]; exact famD oracle false .sfixed64 8 fixed64 (Or.inr ⟨rfl, rfl, rfl⟩) _ (fun _ => rfl) field enc vs hr hsz
    case float => show ∃ t, GoSrc.EncTypes.wRepeatedFloat oracle field enc vs = _; rw [wRepeatedFloat_shape]; exact famD oracle false .float 4 fixed32 (Or.inl ⟨rfl, rfl, rfl⟩) _ (fun _ => rfl) field enc vs hr hsz
    case double => show ∃ t, GoSrc.EncTypes.wRepeatedDouble oracle field enc vs = _; rw [wRepeatedDouble_shape]; exact famD oracle false .double 8 fixed64 (Or.inr ⟨rfl, rfl, rfl⟩) _ (fun _ => rfl) field enc vs hr hsz
    case string => show ∃ t, GoSrc.EncTypes.wRepeatedString oracle field enc vs = _; rw [wRepeatedString_shape]; exact famE oracle false .string rfl field enc vs (toS .string) (fun _ => rfl)
    case bytes => show ∃ t, GoSrc.EncTypes.wRepeatedBytes oracle field enc vs = _; rw [wRepeatedBytes_shape]; exact famE oracle false .bytes rfl field enc vs (toS .bytes) (fun _ => rfl)
  · cases k
    case bool => show ∃ t, GoSrc.EncTypes.wAlwaysRepeatedBool oracle field enc vs = _; rw [wAlwaysRepeatedBool_shape]; exact famB oracle true field enc vs hsz
    case int32 => show ∃ t, GoSrc.EncTypes.wAlwaysRepeatedInt32 oracle field enc vs = _; rw [wAlwaysRepeatedInt32_shape]; exact famC oracle true .int32 rfl (by decide) _ (fun _ => rfl) field enc vs hr hsz
    case int64 => show ∃ t, GoSrc.EncTypes.wAlwaysRepeatedInt64 oracle field enc vs = _; rw [wAlwaysRepeatedInt64_shape]; exact famC oracle true .int64 rfl (by decide) _ (fun _ => rfl) field enc vs hr hsz
    case uint32 => show ∃ t, GoSrc.EncTypes.wAlwaysRepeatedUint32 oracle field enc vs = _; rw [wAlwaysRepeatedUint32_shape]; exact famC oracle true .uint32 rfl (by decide) _ (fun _ => rfl) field enc vs hr hsz
    case uint64 => show ∃ t, GoSrc.EncTypes.wAlwaysRepeatedUint64 oracle field enc vs = _; rw [wAlwaysRepeatedUint64_shape]; exact famC oracle true .uint64 rfl (by decide) _ (fun _ => rfl) field enc vs hr hsz
    case sint32 => show ∃ t, GoSrc.EncTypes.wAlwaysRepeatedSint32 oracle field enc vs = _; rw [wAlwaysRepeatedSint32_shape]; exact famC oracle true .sint32 rfl (by decide) _ (fun _ => rfl) field enc vs hr hsz
    case sint64 => show ∃ t, GoSrc.EncTypes.wAlwaysRepeatedSint64 oracle field enc vs = _; rw [wAlwaysRepeatedSint64_shape]; exact famC oracle true .sint64 rfl (by decide) _ (fun _ => rfl) field enc vs hr hsz
    case fixed32 => show ∃ t, GoSrc.EncTypes.wAlwaysRepeatedFixed32 oracle field enc vs = _; rw [wAlwaysRepeatedFixed32_shape]; exact famD oracle true .fixed32 4 fixed32 (Or.inl ⟨rfl, rfl, rfl⟩) _ (fun _ => rfl) field enc vs hr hsz
    case fixed64 => show ∃ t, GoSrc.EncTypes.wAlwaysRepeatedFixed64 oracle field enc vs = _; rw [wAlwaysRepeatedFixed64_shape]; exact famD oracle true .fixed64 8 fixed64 (Or.inr ⟨rfl, rfl, rfl⟩) _ (fun _ => rfl) field enc vs hr hsz
    case sfixed32 => show ∃ t, GoSrc.EncTypes.wAlwaysRepeatedSfixed32 oracle field enc vs = _; rw [wAlwaysRepeatedSfixed32_shape]; exact famD oracle true .sfixed32 4 fixed32 (Or.inl ⟨rfl, rfl, rfl⟩) _ (fun _ => rfl) field enc vs hr hsz
    case sfixed64 => show ∃ t, GoSrc.EncTypes.wAlwaysRepeatedSfixed64 oracle field enc vs = _; rw [wAlwaysRepeatedSfixed64_shape]; exact famD oracle true .sfixed64 8 fixed64 (Or.inr ⟨rfl, rfl, rfl⟩) _ (fun _ => rfl) field enc vs hr hsz
    case float => show ∃ t, GoSrc.EncTypes.wAlwaysRepeatedFloat oracle field enc vs = _; rw [wAlwaysRepeatedFloat_shape]; exact famD oracle true .float 4 fixed32 (Or.inl ⟨rfl, rfl, rfl⟩) _ (fun _ => rfl) field enc vs hr hsz
    case double => show ∃ t, GoSrc.EncTypes.wAlwaysRepeatedDouble oracle field enc vs = _; rw [wAlwaysRepeatedDouble_shape]; exact famD oracle true .double 8 fixed64 (Or.inr ⟨rfl, rfl, rfl⟩) _ (fun _ => rfl) field enc vs hr hsz
    case string => show ∃ t, GoSrc.EncTypes.wAlwaysRepeatedString oracle field enc vs = _; rw [wAlwaysRepeatedString_shape]; exact famE oracle true .string rfl field enc vs (toS .string) (fun _ => rfl)
    case bytes => show ∃ t, GoSrc.EncTypes.wAlwaysRepeatedBytes oracle field enc vs = _; rw [wAlwaysRepeatedBytes_shape]; exact famE oracle true .bytes rfl field enc vs (toS .bytes) (fun _ => rfl)

/-- the translated writers cover encoder_types.go exactly: 15 kinds × 4 variants -/
theorem names_expected : GoSrc.EncTypes.names.length = 60 ∧
    ((["", "Repeated", "Always", "AlwaysRepeated"].flatMap fun v =>
      ["Bool", "Int32", "Int64", "Uint32", "Uint64", "Sint32", "Sint64", "Fixed32", "Fixed64", "Sfixed32", "Sfixed64",
       "Float", "Double", "String", "Bytes"].map fun k => "w" ++ v ++ k).all GoSrc.EncTypes.names.contains) = true := by
  decide

end Pico.GoTie.ET
