import PicoProofs.DecRefineWire
import PicoProofs.DecRefineMono
/-!
Core of the decoder refinement: the "tag-ahead" relation between a decoder frame and the byte
string it still has to decode, the generic record-at-a-time specification interface (`Laws`),
the simulation vocabulary (`Fired`, `PassC`, `RunFin`) and the generic `Loop` theorem
(`loopN_refines`, `loop_refines`): a `Loop` over a pass that is a chain of specification steps
computes the specification.

Everything is partial correctness (`… = .ok (d', s') → …`); totality is `PicoProofs/DecSafe.lean`.
-/
namespace Pico.Dec
open Pico.Wire

/-! ## 1. tag-ahead -/

/-- the first tag of `b` parses and bears a valid number — or `b` is empty -/
def tagOk (b : Bytes) : Prop :=
  b = [] ∨ (0 ≤ (consumeTag b).2.2 ∧ numberIsValid (consumeTag b).1 = true)

/-- frame `c` is positioned on the byte string `b`: either both are exhausted, or `c` holds the
decoded first tag of `b` and the bytes after it -/
def TAF (b : Bytes) (c : Frame) : Prop :=
  (b = [] ∧ c.pendingField = fieldDecodingDone ∧ c.buffer = []) ∨
  (b ≠ [] ∧ 0 ≤ (consumeTag b).2.2 ∧ numberIsValid (consumeTag b).1 = true ∧
     c = ⟨(consumeTag b).1, (consumeTag b).2.1, b.drop (consumeTag b).2.2.toNat⟩)

structure TA (b : Bytes) (d : Dec) : Prop where
  err : d.err = none
  init : d.init = true
  frame : TAF b d.cur

/-- length of the pending value, as `Loop`'s skip and `UnrecognizedFields` compute it -/
def pendLen (c : Frame) : Int := consumeFieldValue c.pendingField c.pendingWire c.buffer

/-- the pending record -/
def pendRec (c : Frame) : Spec.Record :=
  ⟨c.pendingField.toNat, c.pendingWire, c.buffer.take (pendLen c).toNat⟩

theorem TAF.valid {b : Bytes} {c : Frame} (h : TAF b c) (hb : b ≠ []) :
    1 ≤ c.pendingField ∧ c.pendingField ≤ 536870911 := by
  rcases h with ⟨h0, _⟩ | ⟨_, _, hv, hc⟩
  · exact absurd h0 hb
  · subst hc
    simp only [numberIsValid, Bool.and_eq_true, decide_eq_true_eq] at hv
    exact hv

theorem TAF.ne_nil {b : Bytes} {c : Frame} (h : TAF b c) (hp : 0 ≤ c.pendingField) : b ≠ [] := by
  rcases h with ⟨_, h1, _⟩ | ⟨h0, _⟩
  · rw [h1] at hp; simp [fieldDecodingDone] at hp
  · exact h0

theorem TAF.nil_of_not_valid {b : Bytes} {c : Frame} (h : TAF b c)
    (hp : numberIsValid c.pendingField = false) : b = [] := by
  rcases h with ⟨h0, _⟩ | ⟨_, _, hv, hc⟩
  · exact h0
  · subst hc; rw [hv] at hp; cases hp

theorem TAF.len_le {b : Bytes} {c : Frame} (h : TAF b c) : c.buffer.length ≤ b.length := by
  rcases h with ⟨_, _, h2⟩ | ⟨_, _, _, hc⟩
  · rw [h2]; exact Nat.zero_le _
  · subst hc; simp only [List.length_drop]; omega

theorem TAF.parse1_some {b : Bytes} {c : Frame} (h : TAF b c) (hb : b ≠ []) (hn : 0 ≤ pendLen c) :
    Spec.parse1 b = some (pendRec c, c.buffer.drop (pendLen c).toNat) := by
  rcases h with ⟨h0, _⟩ | ⟨_, ht, hv, hc⟩
  · exact absurd h0 hb
  · subst hc
    unfold pendLen at hn
    simp only at hn
    unfold Spec.parse1 pendRec pendLen
    simp only
    rw [if_neg (by simp [hv]; omega), if_neg (by omega)]

theorem TAF.parse1_none {b : Bytes} {c : Frame} (h : TAF b c) (hb : b ≠ []) (hn : pendLen c < 0) :
    Spec.parse1 b = none := by
  rcases h with ⟨h0, _⟩ | ⟨_, ht, hv, hc⟩
  · exact absurd h0 hb
  · subst hc
    unfold pendLen at hn
    simp only at hn
    unfold Spec.parse1
    simp only
    rw [if_neg (by simp [hv]; omega), if_pos hn]

theorem parse1_of_not_tagOk {b : Bytes} (h : ¬ tagOk b) : b ≠ [] ∧ Spec.parse1 b = none := by
  unfold tagOk at h
  refine ⟨fun h0 => h (Or.inl h0), ?_⟩
  have h2 : ¬ (0 ≤ (consumeTag b).2.2 ∧ numberIsValid (consumeTag b).1 = true) := fun hh => h (Or.inr hh)
  unfold Spec.parse1
  simp only
  rw [if_pos]
  by_cases h3 : (consumeTag b).2.2 < 0
  · exact Or.inl h3
  · right
    cases hv : numberIsValid (consumeTag b).1
    · rfl
    · exact absurd ⟨by omega, hv⟩ h2

theorem pendLen_progress (c : Frame) (hn : 0 ≤ pendLen c) : 1 ≤ pendLen c ∧ pendLen c ≤ c.buffer.length :=
  consumeFieldValue_progress _ _ _ hn

/-- what `nextField` does, for an advance inside the buffer -/
theorem nextFieldD_cases (d : Dec) (adv : Int) (h0 : 0 ≤ adv) (h1 : adv ≤ d.cur.buffer.length) :
    (tagOk (d.cur.buffer.drop adv.toNat) ∧ (nextFieldD d adv).err = d.err ∧
        TAF (d.cur.buffer.drop adv.toNat) (nextFieldD d adv).cur) ∨
    (¬ tagOk (d.cur.buffer.drop adv.toNat) ∧ (nextFieldD d adv).err ≠ none) := by
  unfold nextFieldD
  rw [if_neg (by omega)]
  unfold nextFieldState
  simp only
  by_cases hl : (List.drop adv.toNat d.cur.buffer).length = 0
  · rw [if_pos hl]
    have hnil : List.drop adv.toNat d.cur.buffer = [] := List.eq_nil_of_length_eq_zero hl
    left
    exact ⟨Or.inl hnil, rfl, Or.inl ⟨hnil, rfl, hnil⟩⟩
  · rw [if_neg hl]
    have hne : List.drop adv.toNat d.cur.buffer ≠ [] := fun h => hl (by rw [h]; rfl)
    by_cases ht : (consumeTag (List.drop adv.toNat d.cur.buffer)).2.2 < 0 ∨
        (!numberIsValid (consumeTag (List.drop adv.toNat d.cur.buffer)).1) = true
    · rw [if_pos ht]
      right
      refine ⟨?_, by simp [fail]⟩
      rintro (h | ⟨h2, h3⟩)
      · exact hne h
      · rcases ht with ht | ht
        · omega
        · rw [h3] at ht; cases ht
    · rw [if_neg ht]
      left
      have h2 : 0 ≤ (consumeTag (List.drop adv.toNat d.cur.buffer)).2.2 := by omega
      have h3 : numberIsValid (consumeTag (List.drop adv.toNat d.cur.buffer)).1 = true := by
        cases hv : numberIsValid (consumeTag (List.drop adv.toNat d.cur.buffer)).1
        · exact absurd (Or.inr (by rw [hv]; rfl)) ht
        · rfl
      exact ⟨Or.inr ⟨h2, h3⟩, rfl, Or.inr ⟨hne, h2, h3, rfl⟩⟩

/-- outside the buffer `nextField` latches an error -/
theorem nextFieldD_out (d : Dec) (adv : Int) (h : adv < 0 ∨ adv > d.cur.buffer.length) :
    (nextFieldD d adv).err ≠ none := by
  unfold nextFieldD
  rw [if_pos h]
  simp [fail]

/-! ## 2. the specification interface and the simulation vocabulary -/

/-- a record-at-a-time specification: `spec b s` folds `step` over the records of `b` -/
structure Laws {σ : Type} (spec : Bytes → σ → Option σ) (step : Spec.Record → σ → Option σ) : Prop where
  nil : ∀ s, spec [] s = some s
  cons : ∀ {b : Bytes} {r : Spec.Record} {rest : Bytes} (s : σ),
    Spec.parse1 b = some (r, rest) → spec b s = (step r s).bind (spec rest)
  none : ∀ {b : Bytes} (s : σ), b ≠ [] → Spec.parse1 b = none → spec b s = none

/-- starting from frame `d` positioned on `b` with state `s`, the machine consumed at least one
record and is now in `(d', s')`: either positioned on a strictly shorter `b'` from which the
specification continues with the same result, or it latched an error and the specification
rejects -/
def Fired {σ : Type} (spec : Bytes → σ → Option σ) (Inv : σ → Prop) (b : Bytes) (d : Dec) (s : σ)
    (d' : Dec) (s' : σ) : Prop :=
  (d'.err = none ∧ Inv s' ∧ ∃ b', TAF b' d'.cur ∧ spec b s = spec b' s' ∧ b'.length < d.cur.buffer.length) ∨
  (d'.err ≠ none ∧ spec b s = none)

/-- final outcome of a decoding run against an expected result `o` -/
def FinO {τ : Type} (o : Option τ) (d' : Dec) (t' : τ) : Prop :=
  (d'.err = none ∧ o = some t') ∨ (d'.err ≠ none ∧ o = none)

section
variable {σ : Type} {spec : Bytes → σ → Option σ} {step : Spec.Record → σ → Option σ} {Inv : σ → Prop}

theorem spec_none_of_parse1_none (hL : Laws spec step) {b : Bytes} {c : Frame} (s : σ) (h : TAF b c)
    (hb : b ≠ []) (hn : pendLen c < 0) : spec b s = none :=
  hL.none s hb (h.parse1_none hb hn)

theorem spec_none_of_step_none (hL : Laws spec step) {b : Bytes} {c : Frame} (s : σ) (h : TAF b c)
    (hb : b ≠ []) (hs : step (pendRec c) s = none) : spec b s = none := by
  by_cases hn : pendLen c < 0
  · exact spec_none_of_parse1_none hL s h hb hn
  · rw [hL.cons s (h.parse1_some hb (by omega)), hs]; rfl

/-- the pending record is accepted by the specification (`step … = some s1`) and the machine
advances over it with `nextField` from a state `dx` that has the entry frame and no error -/
theorem fired_ok (hL : Laws spec step) {b : Bytes} {d : Dec} {s s1 : σ} (hf : TAF b d.cur) (hb : b ≠ [])
    (dx : Dec) (hcur : dx.cur = d.cur) (hex : dx.err = none) (hn : 0 ≤ pendLen d.cur)
    (hs : step (pendRec d.cur) s = some s1) (hI : Inv s1) :
    Fired spec Inv b d s (nextFieldD dx (pendLen d.cur)) s1 := by
  have hp := pendLen_progress d.cur hn
  have hspec : spec b s = spec (d.cur.buffer.drop (pendLen d.cur).toNat) s1 := by
    rw [hL.cons s (hf.parse1_some hb hn), hs]; rfl
  rcases nextFieldD_cases dx (pendLen d.cur) hn (by rw [hcur]; exact hp.2) with ⟨_, he, hta⟩ | ⟨hbad, he⟩
  · left
    rw [hcur] at hta
    refine ⟨he.trans hex, hI, _, hta, hspec, ?_⟩
    rw [List.length_drop]; omega
  · right
    rw [hcur] at hbad
    obtain ⟨h1, h2⟩ := parse1_of_not_tagOk hbad
    exact ⟨he, by rw [hspec]; exact hL.none s1 h1 h2⟩

/-- chaining: after a fired step, a further step that either does nothing or fires -/
theorem Fired.trans {b : Bytes} {d d1 d2 : Dec} {s s1 s2 : σ} (hf : Fired spec Inv b d s d1 s1)
    (hm : d1.err ≠ none → d2.err ≠ none)
    (h2 : ∀ b1, TAF b1 d1.cur → d1.err = none → Inv s1 →
      (d2 = d1 ∧ s2 = s1) ∨ Fired spec Inv b1 d1 s1 d2 s2) :
    Fired spec Inv b d s d2 s2 := by
  rcases hf with ⟨he, hI, b1, hta, hsp, hlen⟩ | ⟨he, hsp⟩
  · rcases h2 b1 hta he hI with ⟨rfl, rfl⟩ | ⟨he2, hI2, b2, hta2, hsp2, hlen2⟩ | ⟨he2, hsp2⟩
    · exact Or.inl ⟨he, hI, b1, hta, hsp, hlen⟩
    · have := hta.len_le
      exact Or.inl ⟨he2, hI2, b2, hta2, hsp.trans hsp2, by omega⟩
    · exact Or.inr ⟨he2, hsp.trans hsp2⟩
  · exact Or.inr ⟨hm he, hsp⟩

/-- a fired step never returns the entry state -/
theorem Fired.ne_self {b : Bytes} {d : Dec} {s s' : σ} (hta : TA b d) (hf : Fired spec Inv b d s d s') :
    False := by
  rcases hf with ⟨_, _, b1, hta1, _, hlen⟩ | ⟨he, _⟩
  · have := hta1.len_le; omega
  · exact he hta.err

/-! ## 3. `Loop` -/

/-- contract of a `Loop` callback against the specification: one run is a (possibly empty) chain of
specification steps, and it is empty only if the pending record is a no-op of the specification -/
def PassC (spec : Bytes → σ → Option σ) (step : Spec.Record → σ → Option σ) (Inv : σ → Prop)
    (fn : DecM σ) : Prop :=
  ∀ b d s d1 s1, TA b d → Inv s → fn d s = .ok (d1, s1) →
    ((d1 = d ∧ s1 = s) ∨ Fired spec Inv b d s d1 s1) ∧
    (b ≠ [] → step (pendRec d.cur) s = some s ∨ Fired spec Inv b d s d1 s1)

/-- outcome of a whole run -/
def RunFin (spec : Bytes → σ → Option σ) (Inv : σ → Prop) (b : Bytes) (s : σ) (d' : Dec) (s' : σ) : Prop :=
  FinO (spec b s) d' s' ∧ (d'.err = none → Inv s')

theorem loopN_ok_inv {τ} (fn : DecM τ) (f : Nat) (d : Dec) (s : τ) (R : Dec × τ)
    (h : loopN fn (f + 1) d s = .ok R) : ∃ d1 s1, fn d s = .ok (d1, s1) := by
  unfold loopN at h
  cases hfn : fn d s with
  | ok p => exact ⟨p.1, p.2, rfl⟩
  | panic w => rw [hfn] at h; cases h
  | outOfFuel => rw [hfn] at h; cases h

theorem loopN_refines (hL : Laws spec step) {fn : DecM σ} (hfn : PassC spec step Inv fn) (hm : MonoFn fn) :
    ∀ (f : Nat) (b : Bytes) (d : Dec) (s : σ) (d' : Dec) (s' : σ), TA b d → Inv s →
      loopN fn f d s = .ok (d', s') → RunFin spec Inv b s d' s' := by
  intro f
  induction f with
  | zero => intro b d s d' s' _ _ h; unfold loopN at h; cases h
  | succ f ih =>
    intro b d s d' s' hta hI h
    obtain ⟨d1, s1, hfn1⟩ := loopN_ok_inv fn f d s _ h
    have hM := hm d s d1 s1 hfn1
    obtain ⟨hP1, hP2⟩ := hfn b d s d1 s1 hta hI hfn1
    -- continuing from a fired state
    have cont : ∀ (d2 : Dec) (s2 : σ), Fired spec Inv b d s d2 s2 → d2.init = true →
        loopN fn f d2 s2 = .ok (d', s') → RunFin spec Inv b s d' s' := by
      intro d2 s2 hf hi2 h2
      rcases hf with ⟨he, hI2, b2, hta2, hsp, _⟩ | ⟨he, hsp⟩
      · have := ih b2 d2 s2 d' s' ⟨he, hi2, hta2⟩ hI2 h2
        unfold RunFin at this ⊢
        rw [hsp]; exact this
      · have hM2 := loopN_mono fn hm f d2 s2 d' s' h2
        exact ⟨Or.inr ⟨hM2.err he, hsp⟩, fun h0 => absurd h0 (hM2.err he)⟩
    cases hv : pendingValid d1 with
    | false =>
      rw [loopN_stop fn f d d1 s s1 hfn1 hv] at h
      cases h
      rcases hP1 with ⟨rfl, rfl⟩ | ⟨he, hI1, b1, hta1, hsp, _⟩ | ⟨he, hsp⟩
      · have hb : b = [] := hta.frame.nil_of_not_valid hv
        subst hb
        exact ⟨Or.inl ⟨hta.err, hL.nil _⟩, fun _ => hI⟩
      · have hb : b1 = [] := hta1.nil_of_not_valid hv
        subst hb
        exact ⟨Or.inl ⟨he, by rw [hsp]; exact hL.nil _⟩, fun _ => hI1⟩
      · exact ⟨Or.inr ⟨he, hsp⟩, fun h0 => absurd h0 he⟩
    | true =>
      rw [loopN_continue fn f d d1 s s1 hfn1 hv] at h
      rcases hP1 with ⟨rfl, rfl⟩ | hfired
      · -- the pass did nothing: `Loop` skips the pending value
        have hvalid : 0 ≤ d1.cur.pendingField := by
          simp only [pendingValid, numberIsValid, Bool.and_eq_true, decide_eq_true_eq] at hv; omega
        have hb : b ≠ [] := hta.frame.ne_nil hvalid
        unfold loopNext at h
        rw [if_pos rfl] at h
        by_cases hn : pendLen d1.cur < 0
        · have he : (nextFieldD d1 (pendLen d1.cur)).err ≠ none := nextFieldD_out d1 _ (Or.inl hn)
          have hM2 := loopN_mono fn hm f _ _ d' s' h
          exact ⟨Or.inr ⟨hM2.err he, spec_none_of_parse1_none hL s1 hta.frame hb hn⟩,
            fun h0 => absurd h0 (hM2.err he)⟩
        · rcases hP2 hb with hs | hf
          · have := fired_ok (Inv := Inv) hL hta.frame hb d1 rfl hta.err (by omega) hs hI
            exact cont _ _ this ((nextFieldD_mono d1 _).init hta.init) h
          · exact (hf.ne_self hta).elim
      · rcases hfired with ⟨he, hI1, b1, hta1, hsp, hlen⟩ | ⟨he, hsp⟩
        · have hne : ¬ d1.cur.buffer.length = d.cur.buffer.length := by
            have := hta1.len_le; omega
          unfold loopNext at h
          rw [if_neg hne] at h
          exact cont d1 s1 (Or.inl ⟨he, hI1, b1, hta1, hsp, hlen⟩) (hM.init hta.init) h
        · have he2 : (loopNext d d1).err ≠ none := by
            unfold loopNext
            split
            · exact (nextFieldD_mono d1 _).err he
            · exact he
          have hM2 := loopN_mono fn hm f _ _ d' s' h
          exact ⟨Or.inr ⟨hM2.err he2, hsp⟩, fun h0 => absurd h0 (hM2.err he2)⟩

/-- `dec.Loop(fn)` on an initialised decoder computes the specification -/
theorem loop_refines (hL : Laws spec step) {fn : DecM σ} (hfn : PassC spec step Inv fn) (hm : MonoFn fn)
    {b : Bytes} {d : Dec} {s : σ} {d' : Dec} {s' : σ} (hta : TA b d) (hI : Inv s)
    (h : loop fn d s = .ok (d', s')) : RunFin spec Inv b s d' s' := by
  unfold loop at h
  simp only [hta.init, Bool.not_true, Bool.false_eq_true, ↓reduceIte, Res.pure_eq, Res.bind_ok] at h
  exact loopN_refines hL hfn hm _ b d s d' s' hta hI h

end

end Pico.Dec
