import PicoModel.WellTyped
import PicoProofs.ScalarLemmas
import PicoProofs.WireLemmas
import PicoProofs.TimeLemmas
/-
TASK E — the encoder refinement T_enc (properties C01, C06, C13, C15):
the statement-by-statement model of the generated `Encode` methods (`Gen2.encMsg`, on top of the
abstract encoder `Enc.*` that uses the regenerated Go expressions) produces exactly the bytes of
the independent canonical encoder `Spec.specEnc`, for every well-typed message value.

Kernel-only: no `bv_decide`, no `native_decide`.
-/
namespace Pico
open Pico.Wire Pico.Enc

/-! ### small general facts -/

theorem appendTag_eq_tag (f : Int) (w : Nat) : Enc.appendTag f w = Wire.tag f w := rfl

theorem bool_eq_of_iff {a b : Bool} (h : a = true ↔ b = true) : a = b := by
  cases a <;> cases b <;> simp_all

/-- the numeric component of a well-typed scalar is in range (for string/bytes it is `0 < 2^0`) -/
theorem scalarOk_num_lt {k : Scalar} {v : Val} (h : scalarOk k v = true) :
    v.toSVal.num! < 2 ^ k.width := by
  cases v <;> simp [scalarOk] at h
  case num n => exact h.2
  case bytes b => exact Nat.two_pow_pos _

theorem scalarOk_isBytes_false {k : Scalar} {n : Nat} (h : scalarOk k (.num n) = true) :
    k.isBytes = false := by
  simp [scalarOk] at h; exact h.1

theorem scalarOk_isBytes_true {k : Scalar} {b : Bytes} (h : scalarOk k (.bytes b) = true) :
    k.isBytes = true := by
  simpa [scalarOk] using h

/-! ### 1. singular writers -/

theorem scalarPayload_eq (var : Variant) (k : Scalar) (v : Val) (h : scalarOk k v = true) :
    Enc.scalarPayload var k v.toSVal = Spec.scalarWire k v.toSVal := by
  unfold Enc.scalarPayload Spec.scalarWire
  rw [enc_closed_form var k _ (scalarOk_num_lt h)]
  rfl

theorem isDefault_eq (k : Scalar) (v : Val) (h : scalarOk k v = true) :
    Enc.isDefault k v.toSVal = Spec.isZeroVal k v.toSVal := by
  unfold Enc.isDefault Spec.isZeroVal
  cases hk : k.isBytes
  · simp only [Bool.false_eq_true, if_false]
    apply bool_eq_of_iff
    rw [default_iff_zero k hk _ (scalarOk_num_lt h)]
    simp
  · simp

/-- `enc.X(f, &v)` / `enc.AlwaysX(f, &v)` for every kind and every value in range -/
theorem writeSingle_eq (always : Bool) (k : Scalar) (f : Nat) (v : Val) (h : scalarOk k v = true) :
    Enc.writeSingle always k (f : Int) v.toSVal
      = if !always && Spec.isZeroVal k v.toSVal then [] else Spec.field1 f k v.toSVal := by
  unfold Enc.writeSingle Spec.field1
  rw [isDefault_eq k v h, scalarPayload_eq _ k v h, appendTag_eq_tag]

/-! ### 2. repeated writers -/

theorem map_encBits (var : Variant) (k : Scalar) {β} (X : Nat → β) (ws : List SVal)
    (h : ∀ w ∈ ws, w.num! < 2 ^ k.width) :
    ws.map (fun v => X (encBits var k v.num!)) = ws.map (fun v => X (Spec.scalarBits k v.num!)) :=
  List.map_congr_left fun w hw => by rw [enc_closed_form var k _ (h w hw)]

theorem flatten_map_length_const {α} (g : α → Bytes) (c : Nat) (hg : ∀ a, (g a).length = c) (ws : List α) :
    (ws.map g).flatten.length = ws.length * c := by
  induction ws with
  | nil => simp
  | cons a as ih => simp only [List.map_cons, List.flatten_cons, List.length_append, ih, hg, List.length_cons]; rw [Nat.add_mul]; omega

theorem flatten_map_singleton {α β} (g : α → β) (ws : List α) :
    (ws.map fun a => [g a]).flatten = ws.map g := by
  induction ws with
  | nil => rfl
  | cons a as ih => simp only [List.map_cons, List.flatten_cons, ih]; rfl

theorem scalarBits_bool_le (n : Nat) : Spec.scalarBits .bool n ≤ 1 := by
  show (if n = 0 then 0 else 1) ≤ 1
  split <;> omega

theorem rep_varint (var : Variant) (k : Scalar) (f : Nat) (ws : List SVal)
    (h : ∀ w ∈ ws, w.num! < 2 ^ k.width) :
    Enc.alwaysAnyBytes (f : Int) (ws.map fun v => varint (encBits var k v.num!)).flatten
      = Spec.lenField f (ws.map fun v => varint (Spec.scalarBits k v.num!)).flatten := by
  rw [map_encBits var k varint ws h]
  unfold Enc.alwaysAnyBytes Spec.lenField Wire.lenPrefixed
  rw [appendTag_eq_tag, List.append_assoc]

theorem rep_fixed32 (var : Variant) (k : Scalar) (f : Nat) (ws : List SVal)
    (h : ∀ w ∈ ws, w.num! < 2 ^ k.width) :
    Enc.appendTag (f : Int) 2 ++ varint (ws.length * 4) ++ (ws.map fun v => fixed32 (encBits var k v.num!)).flatten
      = Spec.lenField f (ws.map fun v => fixed32 (Spec.scalarBits k v.num!)).flatten := by
  rw [map_encBits var k fixed32 ws h]
  unfold Spec.lenField Wire.lenPrefixed
  rw [appendTag_eq_tag, List.append_assoc, flatten_map_length_const _ 4 (fun _ => rfl)]

theorem rep_fixed64 (var : Variant) (k : Scalar) (f : Nat) (ws : List SVal)
    (h : ∀ w ∈ ws, w.num! < 2 ^ k.width) :
    Enc.appendTag (f : Int) 2 ++ varint (ws.length * 8) ++ (ws.map fun v => fixed64 (encBits var k v.num!)).flatten
      = Spec.lenField f (ws.map fun v => fixed64 (Spec.scalarBits k v.num!)).flatten := by
  rw [map_encBits var k fixed64 ws h]
  unfold Spec.lenField Wire.lenPrefixed
  rw [appendTag_eq_tag, List.append_assoc, flatten_map_length_const _ 8 (fun _ => rfl)]

theorem rep_bool (var : Variant) (f : Nat) (ws : List SVal)
    (h : ∀ w ∈ ws, w.num! < 2 ^ Scalar.bool.width) :
    Enc.appendTag (f : Int) 2 ++ varint ws.length ++ ws.map (fun v => byteOfNat (encBits var .bool v.num!))
      = Spec.lenField f (ws.map fun v => varint (Spec.scalarBits .bool v.num!)).flatten := by
  rw [map_encBits var .bool byteOfNat ws h]
  have e : (ws.map fun v => varint (Spec.scalarBits .bool v.num!))
      = ws.map fun v => [byteOfNat (Spec.scalarBits .bool v.num!)] :=
    List.map_congr_left fun w _ => varint_lt _ (Nat.lt_of_le_of_lt (scalarBits_bool_le _) (by decide))
  rw [e, flatten_map_singleton]
  unfold Spec.lenField Wire.lenPrefixed
  rw [appendTag_eq_tag, List.append_assoc, List.length_map]

theorem writeRepeated_sval_eq (always : Bool) (k : Scalar) (f : Nat) (ws : List SVal)
    (h : ∀ w ∈ ws, w.num! < 2 ^ k.width) :
    Enc.writeRepeated always k (f : Int) ws
      = if !always && ws.isEmpty then [] else Spec.packed k f ws := by
  unfold Enc.writeRepeated
  simp only []
  split
  · rfl
  · cases k
    case string => rfl
    case bytes => rfl
    case bool => exact rep_bool _ f ws h
    case fixed32 => exact rep_fixed32 _ .fixed32 f ws h
    case sfixed32 => exact rep_fixed32 _ .sfixed32 f ws h
    case float => exact rep_fixed32 _ .float f ws h
    case fixed64 => exact rep_fixed64 _ .fixed64 f ws h
    case sfixed64 => exact rep_fixed64 _ .sfixed64 f ws h
    case double => exact rep_fixed64 _ .double f ws h
    case int32 => exact rep_varint _ .int32 f ws h
    case int64 => exact rep_varint _ .int64 f ws h
    case uint32 => exact rep_varint _ .uint32 f ws h
    case uint64 => exact rep_varint _ .uint64 f ws h
    case sint32 => exact rep_varint _ .sint32 f ws h
    case sint64 => exact rep_varint _ .sint64 f ws h


theorem all_scalarOk_num_lt {k : Scalar} {vs : List Val} (h : vs.all (scalarOk k) = true) :
    ∀ w ∈ vs.map Val.toSVal, w.num! < 2 ^ k.width := by
  intro w hw
  rw [List.mem_map] at hw
  obtain ⟨v, hv, rfl⟩ := hw
  exact scalarOk_num_lt (List.all_eq_true.mp h v hv)

/-- `enc.RepeatedX(f, &vs)` — the form used by generated code -/
theorem writeRepeated_eq (k : Scalar) (f : Nat) (vs : List Val) (h : vs.all (scalarOk k) = true) :
    Enc.writeRepeated false k (f : Int) (vs.map Val.toSVal)
      = if vs.isEmpty then [] else Spec.packed k f (vs.map Val.toSVal) := by
  rw [writeRepeated_sval_eq false k f _ (all_scalarOk_num_lt h)]
  cases vs <;> rfl

/-- `enc.AlwaysRepeatedX(f, &vs)` (C13; not used by generated code): always the packed field —
for the numeric kinds also when empty (tag + length 0); for string/bytes `packed` of the empty
list is `[]` -/
theorem writeRepeated_always_eq (k : Scalar) (f : Nat) (vs : List Val) (h : vs.all (scalarOk k) = true) :
    Enc.writeRepeated true k (f : Int) (vs.map Val.toSVal) = Spec.packed k f (vs.map Val.toSVal) := by
  rw [writeRepeated_sval_eq true k f _ (all_scalarOk_num_lt h)]
  rfl

theorem writeRepeated_always_empty_numeric (k : Scalar) (f : Nat) (hk : k.isBytes = false) :
    Enc.writeRepeated true k (f : Int) [] = Wire.tag f 2 ++ varint 0 := by
  rw [writeRepeated_sval_eq true k f [] (by simp)]
  simp [Spec.packed, hk, Spec.lenField, Wire.lenPrefixed]

theorem writeRepeated_always_empty_bytes (k : Scalar) (f : Nat) (hk : k.isBytes = true) :
    Enc.writeRepeated true k (f : Int) [] = [] := by
  rw [writeRepeated_sval_eq true k f [] (by simp)]
  simp [Spec.packed, hk]

/-! ### 3. repeated enum -/

theorem repeatedEnum_eq (f : Nat) (xs : List Nat) (h : ∀ x ∈ xs, x < 2 ^ 32) :
    Enc.repeatedEnum (f : Int) xs
      = if xs.isEmpty then [] else Spec.packed .int32 f (xs.map .num) := by
  unfold Enc.repeatedEnum
  split
  · rfl
  · have e := rep_varint .plain .int32 f (xs.map SVal.num) (by
      intro w hw
      rw [List.mem_map] at hw
      obtain ⟨x, hx, rfl⟩ := hw
      exact h x hx)
    rw [List.map_map] at e
    exact e

/-! ### 4. messages -/

theorem alwaysAnyBytes_eq (f : Nat) (p : Bytes) : Enc.alwaysAnyBytes (f : Int) p = Spec.lenField f p := by
  unfold Enc.alwaysAnyBytes Spec.lenField Wire.lenPrefixed
  rw [appendTag_eq_tag, List.append_assoc]

theorem message_eq (f : Nat) (p : Bytes) : Enc.message (f : Int) p true = Spec.lenField f p :=
  alwaysAnyBytes_eq f p

theorem alwaysMessage_eq (f : Nat) (p : Bytes) : Enc.alwaysMessage (f : Int) p = Spec.lenField f p :=
  alwaysAnyBytes_eq f p

theorem presentMessage_eq (f : Nat) (p : Bytes) :
    Enc.presentMessage (f : Int) p = if p.isEmpty then [] else Spec.lenField f p := by
  unfold Enc.presentMessage Enc.anyBytes
  cases hp : p.isEmpty
  · exact alwaysAnyBytes_eq f p
  · rfl

/-- `enc.Message(f, fn)` when the callback reports absence -/
theorem message_absent (f : Nat) (p : Bytes) : Enc.message (f : Int) p false = [] := rfl

/-! ### 5. map codec -/

theorem mapEncode_eq (k v : Scalar) (f : Nat) (es : List (Val × Val))
    (h : es.all (fun e => scalarOk k e.1 && scalarOk v e.2) = true) :
    Gen2.mapEncode k v (f : Int) es = Spec.mapEntries k v f es := by
  unfold Gen2.mapEncode Spec.mapEntries
  congr 1
  apply List.map_congr_left
  intro e he
  have h2 := List.all_eq_true.mp h e he
  rw [Bool.and_eq_true] at h2
  have e1 := writeSingle_eq false k 1 e.1 h2.1
  have e2 := writeSingle_eq false v 2 e.2 h2.2
  rw [alwaysAnyBytes_eq]
  congr 1
  exact congr (congrArg _ e1) e2


/-! ### 6. picoconv casts -/

/-- singular numeric writer on a raw pattern -/
theorem writeSingle_num_eq (always : Bool) (k : Scalar) (f : Nat) (n : Nat)
    (hk : k.isBytes = false) (h : n < 2 ^ k.width) :
    Enc.writeSingle always k (f : Int) (.num n)
      = if !always && n == 0 then [] else Spec.field1 f k (.num n) := by
  have e := writeSingle_eq always k f (.num n) (by simp [scalarOk, hk, h])
  simp only [Val.toSVal, Spec.isZeroVal, hk, Bool.false_eq_true, if_false, SVal.num!] at e
  exact e

theorem pat64_lt (x : Int) : Time.pat64 x < 2 ^ 64 := by
  unfold Time.pat64 Time.two64; omega

theorem pat32_lt (x : Int) : Time.pat32 x < 2 ^ 32 := by
  unfold Time.pat32 Time.two32; omega

theorem pat64_eq_zero (x : Int) (h : Time.I64 x) : (Time.pat64 x == 0) = decide (x = 0) := by
  unfold Time.I64 at h
  unfold Time.pat64 Time.two64
  apply bool_eq_of_iff
  simp only [beq_iff_eq, decide_eq_true_eq]
  omega

theorem pat32_eq_zero (x : Int) (h : Time.I32 x) : (Time.pat32 x == 0) = decide (x = 0) := by
  unfold Time.I32 at h
  unfold Time.pat32 Time.two32
  apply bool_eq_of_iff
  simp only [beq_iff_eq, decide_eq_true_eq]
  omega

theorem wrap32_I32 (x : Int) : Time.I32 (Time.wrap32 x) := by
  unfold Time.I32 Time.wrap32 Time.two32; simp only []; split <;> omega

theorem pat32_wrap32_codeNs (c : Nat) : Time.pat32 (Time.wrap32 (Time.codeNs c)) = (Time.codeNs c).toNat := by
  unfold Time.pat32 Time.wrap32 Time.codeNs Time.two32
  simp only [Int.ofNat_eq_natCast]
  split <;> omega

theorem wrap32_codeNs_eq_zero (c : Nat) : (Time.wrap32 (Time.codeNs c) = 0) ↔ Time.codeNs c = 0 := by
  unfold Time.wrap32 Time.codeNs Time.two32
  simp only [Int.ofNat_eq_natCast]
  split <;> omega

/-- the two-field body `c.Int64(1,&seconds); c.Int32(2,&nanos)` wrapped by `c.Message` -/
theorem secNanos_eq (f : Nat) (s ns : Int) (hs : Time.I64 s) (hn : Time.I32 ns) :
    Enc.message (f : Int)
        (writeSingle false .int64 1 (.num (Time.pat64 s)) ++ writeSingle false .int32 2 (.num (Time.pat32 ns))) true
      = Spec.lenField f
        ((if s = 0 then [] else Spec.field1 1 .int64 (.num (Time.pat64 s))) ++
         (if ns = 0 then [] else Spec.field1 2 .int32 (.num (Time.pat32 ns)))) := by
  have e1 := writeSingle_num_eq false .int64 1 (Time.pat64 s) rfl (pat64_lt _)
  have e2 := writeSingle_num_eq false .int32 2 (Time.pat32 ns) rfl (pat32_lt _)
  rw [pat64_eq_zero _ hs] at e1
  rw [pat32_eq_zero _ hn] at e2
  rw [message_eq]
  refine congrArg _ (congr (congrArg _ ?_) ?_)
  · refine e1.trans ?_; by_cases hz : s = 0 <;> simp [hz]
  · refine e2.trans ?_; by_cases hz : ns = 0 <;> simp [hz]

/-- `(*picoconv.Timestamp).PicoEncode`. Holds for every code; `timeOk` is not needed by the
encoder (`int32(t.Nanosecond())` is written back as the same 32-bit pattern). -/
theorem tsEncode_eq' (f : Nat) (c : Nat) : Gen2.tsEncode (f : Int) c = Spec.tsField f c := by
  unfold Gen2.tsEncode Spec.tsField Spec.tsPayload
  simp only []
  split
  · rfl
  · rw [secNanos_eq f (Time.codeSec c) _ (Time.wrap64_I64 _) (wrap32_I32 _), pat32_wrap32_codeNs]
    by_cases hz : Time.codeNs c = 0
    · rw [if_pos ((wrap32_codeNs_eq_zero c).mpr hz), if_pos hz]
    · rw [if_neg (mt (wrap32_codeNs_eq_zero c).mp hz), if_neg hz]

theorem tsEncode_eq (f : Nat) (c : Nat) (_h : timeOk c = true) :
    Gen2.tsEncode (f : Int) c = Spec.tsField f c := tsEncode_eq' f c

theorem tdiv_I64 (n : Int) (h : Time.I64 n) : Time.I64 (n.tdiv 1000000000) := by
  have := Time.tdiv_tmod_facts n
  unfold Time.I64 at *; omega

theorem tmod_I32 (n : Int) : Time.I32 (n.tmod 1000000000) := by
  have := Time.tdiv_tmod_facts n
  unfold Time.I32; omega

/-- `(*picoconv.Duration).PicoEncode`. Holds for every pattern (`wrap64` is always an int64). -/
theorem durEncode_eq' (f : Nat) (c : Nat) : Gen2.durEncode (f : Int) c = Spec.durField f c := by
  unfold Gen2.durEncode Spec.durField
  simp only []
  rw [Time.durSplit_eq _ (Time.wrap64_I64 _)]
  exact secNanos_eq f _ _ (tdiv_I64 _ (Time.wrap64_I64 _)) (tmod_I32 _)

theorem durEncode_eq (f : Nat) (c : Nat) (_h : c < 2 ^ 64) :
    Gen2.durEncode (f : Int) c = Spec.durField f c := durEncode_eq' f c

/-! ### 7. the chunk sorter is literally the same function -/

theorem sortChunks_eq : Gen2.sortChunks = Spec.sortChunks := rfl


/-! ### the generated `Encode`, field by field -/

theorem encField_num (S : Schema) (a : Bool) (f : Field) (n : Nat)
    (h : wtField S false a f (.num n) = true) :
    Gen2.encField S a f (.num n) = Spec.encField S a f (.num n) := by
  rw [wtField] at h
  rw [Gen2.encField, Spec.encField]
  cases hk : f.kind with
  | scalar k =>
    simp only [hk, Bool.and_eq_true] at h
    exact writeSingle_eq a k f.num (.num n) h.2
  | enum =>
    simp only [hk, Bool.and_eq_true, decide_eq_true_eq] at h
    exact writeSingle_num_eq a .int32 f.num n rfl h.2
  | message id =>
    dsimp only
    split <;> split <;> first
      | exact tsEncode_eq' _ _
      | exact durEncode_eq' _ _
      | rfl
      | omega
      | contradiction
  | map k v => rfl

theorem encField_bytes (S : Schema) (a : Bool) (f : Field) (b : Bytes)
    (h : wtField S false a f (.bytes b) = true) :
    Gen2.encField S a f (.bytes b) = Spec.encField S a f (.bytes b) := by
  rw [wtField] at h
  rw [Gen2.encField, Spec.encField]
  cases hk : f.kind with
  | scalar k =>
    simp only [hk, Bool.and_eq_true] at h
    have := writeSingle_eq a k f.num (.bytes b) h.2
    simp only [Val.toSVal, Spec.isZeroVal, scalarOk_isBytes_true h.2, if_true, SVal.bytes!] at this
    exact this
  | enum => rfl
  | message id => rfl
  | map k v => rfl

theorem enum_list_facts (vs : List Val)
    (h : vs.all (fun v => match v with | .num n => decide (n < 2 ^ 32) | _ => false) = true) :
    (∀ x ∈ vs.map Val.num!, x < 2 ^ 32) ∧ (vs.map Val.num!).map SVal.num = vs.map Val.toSVal := by
  induction vs with
  | nil => simp
  | cons v vs ih =>
    rw [List.all_cons, Bool.and_eq_true] at h
    have ⟨i1, i2⟩ := ih h.2
    cases v <;> simp at h
    case num n =>
      constructor
      · intro x hx
        rw [List.map_cons, List.mem_cons] at hx
        rcases hx with rfl | hx
        · exact h.1
        · exact i1 x hx
      · simp only [List.map_cons, i2]; rfl

mutual
theorem encSlots_eq (S : Schema) : ∀ (fs : List Field) (vs : List Val),
    wtSlots S false fs vs = true → Gen2.encSlots S fs vs = Spec.encSlots S fs vs
  | [], [], _ => by simp [Gen2.encSlots, Spec.encSlots]
  | f :: fs, v :: vs, h => by
    rw [wtSlots, Bool.and_eq_true] at h
    rw [Gen2.encSlots, Spec.encSlots, encField_eq S false f v h.1, encSlots_eq S fs vs h.2]
  | [], _ :: _, h => by simp [wtSlots] at h
  | _ :: _, [], h => by simp [wtSlots] at h

theorem encField_eq (S : Schema) (a : Bool) (f : Field) : ∀ (v : Val),
    wtField S false a f v = true → Gen2.encField S a f v = Spec.encField S a f v
  | .none, _ => by rw [Gen2.encField, Spec.encField]
  | .some v, h => by
    unfold wtField at h
    rw [Gen2.encField, Spec.encField]
    by_cases ho : (f.inOneof && !a) = true
    · simp only [if_pos ho] at h ⊢
      exact encField_eq S true f v h
    · simp only [if_neg ho] at h ⊢
      simp only [Bool.and_eq_true] at h
      cases hk : f.kind with
      | scalar k =>
        simp only [hk] at h
        exact writeSingle_eq true k f.num v h.2
      | enum => simp [hk] at h
      | map k v => rfl
      | message id =>
        simp only [hk] at h
        dsimp only
        split <;> split <;> first
          | exact tsEncode_eq' _ _
          | exact durEncode_eq' _ _
          | omega
          | contradiction
          | skip
        rename_i h1 h2 _ _ _
        have c1 : (f.cat == 1) = false := by simpa using h1
        have c2 : (f.cat == 2) = false := by simpa using h2
        simp only [c1, c2, Bool.false_eq_true, if_false] at h
        match v, h with
        | .msg slots unrec, h =>
          obtain ⟨_, hw⟩ := h
          unfold wtMsg at hw
          simp only [Bool.and_eq_true] at hw
          rw [message_eq, Gen2.encMsg, encSlots_eq S _ slots hw.1.1]
          rfl
        | .none, h | .some _, h | .num _, h | .bytes _, h | .list _, h | .map _, h =>
          simp [wtMsg] at h
  | .num n, h => encField_num S a f n h
  | .bytes b, h => encField_bytes S a f b h
  | .msg slots unrec, h => by
    unfold wtField at h
    rw [Gen2.encField, Spec.encField]
    cases hk : f.kind with
    | message id =>
      simp only [hk, Bool.and_eq_true] at h
      dsimp only
      rw [presentMessage_eq, encSlots_eq S _ slots h.2.1.1.1]
      rfl
    | scalar k => rfl
    | enum => rfl
    | map k v => rfl
  | .list vs, h => by
    unfold wtField at h
    rw [Gen2.encField, Spec.encField]
    cases hk : f.kind with
    | scalar k =>
      simp only [hk, Bool.and_eq_true] at h
      exact writeRepeated_eq k f.num vs h.2
    | enum =>
      simp only [hk, Bool.and_eq_true] at h
      have ⟨e1, e2⟩ := enum_list_facts vs h.2
      have := repeatedEnum_eq f.num (vs.map Val.num!) e1
      rw [e2] at this
      rw [this]
      cases vs <;> rfl
    | map k v => rfl
    | message id =>
      simp only [hk, Bool.and_eq_true] at h
      dsimp only
      split <;> split <;> first
        | omega
        | contradiction
        | skip
      · congr 1
        apply List.map_congr_left
        intro v _
        cases v <;> first | rfl | exact tsEncode_eq' _ _
      · congr 1
        apply List.map_congr_left
        intro v _
        cases v <;> first | rfl | exact durEncode_eq' _ _
      · rename_i h1 h2 _ _ _
        have c1 : (f.cat == 1) = false := by simpa using h1
        have c2 : (f.cat == 2) = false := by simpa using h2
        simp only [c1, c2, Bool.false_eq_true, if_false] at h
        exact encElems_eq S f.num id vs h.2
  | .map es, h => by
    unfold wtField at h
    rw [Gen2.encField, Spec.encField]
    cases hk : f.kind with
    | map k v =>
      simp only [hk, Bool.and_eq_true] at h
      exact mapEncode_eq k v f.num es h.2.1
    | scalar k => rfl
    | enum => rfl
    | message id => rfl

theorem encElems_eq (S : Schema) (num id : Nat) : ∀ (vs : List Val),
    wtElems S false id vs = true → Gen2.encElems S num id vs = Spec.encElems S num id vs
  | [], _ => by rw [Gen2.encElems, Spec.encElems]
  | .msg slots unrec :: vs, h => by
    rw [wtElems, Bool.and_eq_true] at h
    obtain ⟨hw, hr⟩ := h
    unfold wtMsg at hw
    simp only [Bool.and_eq_true] at hw
    rw [Gen2.encElems, Spec.encElems, alwaysMessage_eq, Gen2.encMsg, encSlots_eq S _ slots hw.1.1,
      encElems_eq S num id vs hr]
    rfl
  | .none :: _, h | .some _ :: _, h | .num _ :: _, h | .bytes _ :: _, h | .list _ :: _, h | .map _ :: _, h => by
    simp [wtElems, wtMsg] at h
end


/-! ### T_enc -/

/-- **T_enc**: for every well-typed message value the generated `Encode` (model of the emitted Go
code over the abstract encoder, with the regenerated Go expressions) produces the canonical bytes -/
theorem encMsg_eq_specEnc (S : Schema) (id : Nat) (v : Val) (h : wtMsg S false id v = true) :
    Gen2.encMsg S id v = Spec.specEnc S id v := by
  cases v with
  | msg slots unrec =>
    unfold wtMsg at h
    simp only [Bool.and_eq_true] at h
    rw [Gen2.encMsg, Spec.specEnc, encSlots_eq S _ slots h.1.1]
    rfl
  | _ => simp [wtMsg] at h

/-- `picobuf.Marshal` -/
theorem marshal_eq_spec (S : Schema) (id : Nat) (v : Val) (h : wtMsg S false id v = true) :
    Gen2.marshal S id v = Spec.specEnc S id v :=
  encMsg_eq_specEnc S id v h

/-! ### shape of the canonical encoding (C06) -/

/-- captured unknown fields come last, verbatim -/
theorem specEnc_unrec_last (S : Schema) (id : Nat) (slots : List Val) (unrec : Bytes)
    (hc : (S.msg id).capture = true) :
    Spec.specEnc S id (.msg slots unrec)
      = Spec.sortChunks (Spec.encSlots S (S.msg id).fields slots) ++ unrec := by
  rw [Spec.specEnc, if_pos hc]

theorem specEnc_no_capture (S : Schema) (id : Nat) (slots : List Val) (unrec : Bytes)
    (hc : (S.msg id).capture = false) :
    Spec.specEnc S id (.msg slots unrec)
      = Spec.sortChunks (Spec.encSlots S (S.msg id).fields slots) := by
  rw [Spec.specEnc, hc]; simp

/-- same for the generated code -/
theorem encMsg_unrec_last (S : Schema) (id : Nat) (slots : List Val) (unrec : Bytes)
    (hc : (S.msg id).capture = true) :
    Gen2.encMsg S id (.msg slots unrec)
      = Gen2.sortChunks (Gen2.encSlots S (S.msg id).fields slots) ++ unrec := by
  rw [Gen2.encMsg, if_pos hc]

/-- the chunk order used by `sortChunks` -/
def sortedChunks (cs : List (Nat × Bytes)) : List (Nat × Bytes) := cs.mergeSort fun a b => a.1 ≤ b.1

theorem sortChunks_def (cs : List (Nat × Bytes)) :
    Spec.sortChunks cs = ((sortedChunks cs).map (·.2)).flatten := rfl

/-- `sortChunks` emits exactly the given chunks … -/
theorem sortedChunks_perm (cs : List (Nat × Bytes)) : (sortedChunks cs).Perm cs :=
  List.mergeSort_perm _ _

/-- … in ascending order of field number -/
theorem sortedChunks_sorted (cs : List (Nat × Bytes)) :
    ((sortedChunks cs).map (·.1)).Pairwise (· ≤ ·) := by
  rw [List.pairwise_map]
  have := List.pairwise_mergeSort (le := fun (a b : Nat × Bytes) => decide (a.1 ≤ b.1))
    (fun a b c hab hbc => by simp only [decide_eq_true_eq] at *; omega)
    (fun a b => by simp only [Bool.or_eq_true, decide_eq_true_eq]; omega) cs
  exact this.imp (fun h => by simpa using h)

/-- one chunk per field, labelled with the field's number -/
theorem encSlots_nums (S : Schema) : ∀ (fs : List Field) (vs : List Val), fs.length = vs.length →
    (Spec.encSlots S fs vs).map (·.1) = fs.map (·.num)
  | [], [], _ => by simp [Spec.encSlots]
  | f :: fs, v :: vs, h => by
    rw [Spec.encSlots, List.map_cons, List.map_cons, encSlots_nums S fs vs (by simpa using h)]
  | [], _ :: _, h => by simp at h
  | _ :: _, [], h => by simp at h

theorem wtSlots_length (S : Schema) (strict : Bool) : ∀ (fs : List Field) (vs : List Val),
    wtSlots S strict fs vs = true → fs.length = vs.length
  | [], [], _ => rfl
  | f :: fs, v :: vs, h => by
    rw [wtSlots, Bool.and_eq_true] at h
    simp [wtSlots_length S strict fs vs h.2]
  | [], _ :: _, h => by simp [wtSlots] at h
  | _ :: _, [], h => by simp [wtSlots] at h

/-- with distinct field numbers (`Msg.supported`) the emitted chunks are in strictly ascending
field-number order -/
theorem specEnc_strictly_sorted (S : Schema) (id : Nat) (slots : List Val)
    (hw : wtSlots S false (S.msg id).fields slots = true)
    (hn : ((S.msg id).fields.map (·.num)).Nodup) :
    ((sortedChunks (Spec.encSlots S (S.msg id).fields slots)).map (·.1)).Pairwise (· < ·) := by
  have hp := (sortedChunks_perm (Spec.encSlots S (S.msg id).fields slots)).map (·.1)
  rw [encSlots_nums S _ _ (wtSlots_length S false _ _ hw)] at hp
  have hnd := hp.nodup_iff.mpr hn
  rw [List.nodup_iff_pairwise_ne] at hnd
  exact ((sortedChunks_sorted _).and hnd).imp (fun ⟨h1, h2⟩ => by omega)

/-! ### non-vacuity -/

/-- message 0: a scalar, an optional, a repeated, a two-member oneof and a nested message;
message 1: one scalar -/
def S0 : Schema :=
  [ ⟨[ ⟨1, .scalar .int32, 0, 0, false, 0⟩,
       ⟨2, .scalar .string, 1, 0, false, 0⟩,
       ⟨3, .scalar .sint64, 2, 0, false, 0⟩,
       ⟨4, .scalar .bool, 0, 1, false, 0⟩,
       ⟨5, .enum, 0, 1, false, 0⟩,
       ⟨6, .message 1, 0, 0, false, 0⟩ ], false, false⟩,
    ⟨[ ⟨1, .scalar .fixed32, 0, 0, false, 0⟩ ], true, false⟩ ]

def v0 : Val :=
  .msg [ .num 4294967295, .some (.bytes [0x61#8]), .list [.num 1, .num 18446744073709551615],
         .none, .some (.num 0), .some (.msg [.num 7] [0x10#8, 0x01#8]) ] []

example : S0.supported = true := by decide
example : wtMsg S0 false 0 v0 = true := by decide


/-! ### the strict predicate implies the lax one -/

theorem all_imp {α} {p q : α → Bool} (l : List α) (hpq : ∀ a, p a = true → q a = true)
    (h : l.all p = true) : l.all q = true := by
  rw [List.all_eq_true] at *
  exact fun a ha => hpq a (h a ha)

mutual
theorem wtSlots_mono (S : Schema) : ∀ (fs : List Field) (vs : List Val),
    wtSlots S true fs vs = true → wtSlots S false fs vs = true
  | [], [], _ => by simp [wtSlots]
  | f :: fs, v :: vs, h => by
    rw [wtSlots, Bool.and_eq_true] at h ⊢
    exact ⟨wtField_mono S false f v h.1, wtSlots_mono S fs vs h.2⟩
  | [], _ :: _, h => by simp [wtSlots] at h
  | _ :: _, [], h => by simp [wtSlots] at h

theorem wtField_mono (S : Schema) (a : Bool) (f : Field) : ∀ (v : Val),
    wtField S true a f v = true → wtField S false a f v = true
  | .none, h => by unfold wtField at h ⊢; exact h
  | .some v, h => by
    unfold wtField at h ⊢
    by_cases ho : (f.inOneof && !a) = true
    · simp only [if_pos ho] at h ⊢
      exact wtField_mono S true f v h
    · simp only [if_neg ho] at h ⊢
      simp only [Bool.and_eq_true] at h ⊢
      refine ⟨h.1, ?_⟩
      have h2 := h.2
      cases hk : f.kind with
      | scalar k => simpa [hk] using h2
      | enum => simp [hk] at h2
      | map k v => simp [hk] at h2
      | message id =>
        simp only [hk] at h2 ⊢
        by_cases c1 : (f.cat == 1) = true
        · simp only [if_pos c1] at h2 ⊢
          cases v <;> simp_all
        · simp only [if_neg c1] at h2 ⊢
          by_cases c2 : (f.cat == 2) = true
          · simp only [if_pos c2] at h2 ⊢; exact h2
          · simp only [if_neg c2] at h2 ⊢
            match v, h2 with
            | .msg slots unrec, h2 =>
              unfold wtMsg at h2 ⊢
              simp only [Bool.and_eq_true] at h2 ⊢
              refine ⟨⟨wtSlots_mono S _ slots h2.1.1, h2.1.2⟩, ?_⟩
              have h3 := h2.2
              split at h3 <;> simp_all
            | .none, h | .some _, h | .num _, h | .bytes _, h | .list _, h | .map _, h =>
              simp [wtMsg] at h
  | .num n, h => by unfold wtField at h ⊢; exact h
  | .bytes b, h => by unfold wtField at h ⊢; exact h
  | .msg slots unrec, h => by
    unfold wtField at h ⊢
    cases hk : f.kind with
    | message id =>
      simp only [hk, Bool.and_eq_true] at h ⊢
      refine ⟨h.1, ⟨⟨wtSlots_mono S _ slots h.2.1.1.1, h.2.1.1.2⟩, ?_⟩, by simp⟩
      have h3 := h.2.1.2
      split at h3 <;> simp_all
    | scalar k => simp [hk] at h
    | enum => simp [hk] at h
    | map k v => simp [hk] at h
  | .list vs, h => by
    unfold wtField at h ⊢
    simp only [Bool.and_eq_true] at h ⊢
    refine ⟨h.1, ?_⟩
    have h2 := h.2
    cases hk : f.kind with
    | scalar k => simpa [hk] using h2
    | enum => simpa [hk] using h2
    | map k v => simp [hk] at h2
    | message id =>
      simp only [hk] at h2 ⊢
      by_cases c1 : (f.cat == 1) = true
      · simp only [if_pos c1] at h2 ⊢
        refine all_imp vs ?_ h2
        intro v hv
        split at hv <;> rename_i hp <;> simp only [hp, if_true, if_false, Bool.false_eq_true] <;>
          split at hv <;> simp_all
      · simp only [if_neg c1] at h2 ⊢
        by_cases c2 : (f.cat == 2) = true
        · simp only [if_pos c2] at h2 ⊢; exact h2
        · simp only [if_neg c2] at h2 ⊢
          exact wtElems_mono S id vs h2
  | .map es, h => by
    unfold wtField at h ⊢
    simp only [Bool.and_eq_true] at h ⊢
    refine ⟨h.1, ?_⟩
    have h2 := h.2
    cases hk : f.kind with
    | map k v => simp only [hk, Bool.and_eq_true] at h2 ⊢; exact ⟨h2.1, by simp⟩
    | scalar k => simp [hk] at h2
    | enum => simp [hk] at h2
    | message id => simp [hk] at h2

theorem wtElems_mono (S : Schema) (id : Nat) : ∀ (vs : List Val),
    wtElems S true id vs = true → wtElems S false id vs = true
  | [], _ => by simp [wtElems]
  | .msg slots unrec :: vs, h => by
    rw [wtElems, Bool.and_eq_true] at h ⊢
    obtain ⟨hw, hr⟩ := h
    refine ⟨?_, wtElems_mono S id vs hr⟩
    unfold wtMsg at hw ⊢
    simp only [Bool.and_eq_true] at hw ⊢
    refine ⟨⟨wtSlots_mono S _ slots hw.1.1, hw.1.2⟩, ?_⟩
    have h3 := hw.2
    split at h3 <;> simp_all
  | .none :: _, h | .some _ :: _, h | .num _ :: _, h | .bytes _ :: _, h | .list _ :: _, h | .map _ :: _, h => by
    simp [wtElems, wtMsg] at h
end


theorem wtMsg_mono (S : Schema) (id : Nat) (v : Val) (h : wtMsg S true id v = true) :
    wtMsg S false id v = true := by
  cases v with
  | msg slots unrec =>
    unfold wtMsg at h ⊢
    simp only [Bool.and_eq_true] at h ⊢
    refine ⟨⟨wtSlots_mono S _ slots h.1.1, h.1.2⟩, ?_⟩
    have h3 := h.2
    split at h3 <;> simp_all
  | _ => simp [wtMsg] at h

/-- T_enc under the strict predicate used by the round-trip theorems -/
theorem encMsg_eq_specEnc_strict (S : Schema) (id : Nat) (v : Val) (h : wtMsg S true id v = true) :
    Gen2.encMsg S id v = Spec.specEnc S id v :=
  encMsg_eq_specEnc S id v (wtMsg_mono S id v h)

/-- the interpreter's value of the example (evaluation, not a kernel proof: `varint` and `encMsg`
are defined by well-founded recursion, which blocks `decide`) -/
def exampleBytes : List Nat := (Gen2.encMsg S0 0 v0).map (·.toNat)

/--
info: [8, 255, 255, 255, 255, 255, 255, 255, 255, 255, 1, 18, 1, 97, 26, 2, 2, 1, 40, 0, 50, 7, 13, 7, 0, 0, 0, 16, 1]
-/
#guard_msgs in
#eval exampleBytes

end Pico

#print axioms Pico.encMsg_eq_specEnc
#print axioms Pico.marshal_eq_spec
#print axioms Pico.encMsg_eq_specEnc_strict
#print axioms Pico.writeSingle_eq
#print axioms Pico.writeRepeated_eq
#print axioms Pico.writeRepeated_always_eq
#print axioms Pico.writeRepeated_sval_eq
#print axioms Pico.repeatedEnum_eq
#print axioms Pico.message_eq
#print axioms Pico.presentMessage_eq
#print axioms Pico.alwaysMessage_eq
#print axioms Pico.mapEncode_eq
#print axioms Pico.tsEncode_eq
#print axioms Pico.durEncode_eq
#print axioms Pico.sortChunks_eq
#print axioms Pico.specEnc_unrec_last
#print axioms Pico.sortedChunks_sorted
#print axioms Pico.specEnc_strictly_sorted
#print axioms Pico.wtMsg_mono
