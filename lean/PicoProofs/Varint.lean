import PicoModel.Wire
/-
Lemma library for the wire primitives: varint round trip, lengths, progress, fixed-width round
trips, tags. Kernel-only (no `bv_decide`).
-/
namespace Pico.Wire

theorem byteOfNat_toNat (n : Nat) (h : n < 256) : (byteOfNat n).toNat = n := by
  simp [byteOfNat, BitVec.toNat_ofNat]; omega

theorem varint_lt (v : Nat) (h : v < 128) : varint v = [byteOfNat v] := by
  rw [varint]; simp [h]

theorem varint_ge (v : Nat) (h : ¬ v < 128) :
    varint v = byteOfNat (v % 128 + 128) :: varint (v / 128) := by
  rw [varint]; simp [h]

theorem varint_ne_nil (v : Nat) : varint v ≠ [] := by
  by_cases h : v < 128
  · rw [varint_lt v h]; simp
  · rw [varint_ge v h]; simp

theorem varint_length_pos (v : Nat) : 1 ≤ (varint v).length := by
  have := varint_ne_nil v
  cases h : varint v with
  | nil => exact absurd h this
  | cons a l => simp

/-- the generalised round trip: consuming at byte index `idx` with `v < 2^(64 - 7*idx)` -/
theorem consumeVarintAux_varint (fuel : Nat) : ∀ (idx v : Nat) (rest : Bytes),
    idx + fuel = 10 → 0 < fuel → v < 2 ^ (64 - 7 * idx) →
    consumeVarintAux idx (varint v ++ rest) = (v <<< (7 * idx), ((varint v).length : Int)) := by
  induction fuel with
  | zero => intro idx v rest _ h; omega
  | succ f ih =>
    intro idx v rest hi _ hv
    by_cases hlt : v < 128
    · rw [varint_lt v hlt]
      simp only [List.singleton_append, consumeVarintAux, List.length_singleton]
      rw [byteOfNat_toNat v (by omega)]
      by_cases h9 : idx = 9
      · subst h9
        have : v < 2 := by simpa using hv
        simp [this]
      · simp [h9, hlt]
    · rw [varint_ge v hlt]
      have hidx : idx ≠ 9 := by
        intro h9; subst h9
        have : v < 2 := by simpa using hv
        omega
      have hf : 0 < f := by
        rcases f with _ | f
        · omega
        · omega
      have hv' : v / 128 < 2 ^ (64 - 7 * (idx + 1)) := by
        have e : 64 - 7 * idx = (64 - 7 * (idx + 1)) + 7 := by omega
        rw [e, Nat.pow_add] at hv
        exact Nat.div_lt_of_lt_mul (by omega)
      have ih' := ih (idx + 1) (v / 128) rest (by omega) hf hv'
      simp only [List.cons_append, consumeVarintAux, hidx, ↓reduceIte]
      rw [byteOfNat_toNat _ (by omega)]
      have h2 : ¬ (v % 128 + 128 < 128) := by omega
      simp only [h2, ↓reduceIte, ih']
      have hpos : ¬ (((varint (v / 128)).length : Int) < 0) := by omega
      simp only [hpos, ↓reduceIte, List.length_cons]
      congr 1
      · simp only [Nat.shiftLeft_eq]
        have e7 : 7 * (idx + 1) = 7 * idx + 7 := by omega
        rw [e7, Nat.pow_add]
        generalize 2 ^ (7 * idx) = P
        have hdm := Nat.div_add_mod v 128
        have e1 : v % 128 + 128 - 128 = v % 128 := by omega
        rw [e1]
        calc v % 128 * P + v / 128 * (P * 2 ^ 7) = (128 * (v / 128) + v % 128) * P := by
              rw [Nat.add_mul]
              have : (2:Nat) ^ 7 = 128 := by decide
              rw [this]
              rw [Nat.mul_comm (v/128) (P * 128), Nat.mul_assoc, Nat.mul_comm 128 (v/128), Nat.mul_comm P]
              omega
          _ = v * P := by rw [hdm]

/-- `ConsumeVarint(AppendVarint(b, v)…) = (v, len)` for every `uint64` -/
theorem consumeVarint_varint (v : Nat) (hv : v < 2 ^ 64) (rest : Bytes) :
    consumeVarint (varint v ++ rest) = (v, ((varint v).length : Int)) := by
  have := consumeVarintAux_varint 10 0 v rest (by omega) (by omega) (by simpa using hv)
  simpa [consumeVarint] using this

/-- a successful `ConsumeVarint` consumed between 1 and `len(b)` bytes -/
theorem consumeVarintAux_progress : ∀ (b : Bytes) (idx : Nat),
    0 ≤ (consumeVarintAux idx b).2 → 1 ≤ (consumeVarintAux idx b).2 ∧ (consumeVarintAux idx b).2 ≤ b.length := by
  intro b
  induction b with
  | nil => intro idx h; simp [consumeVarintAux, errTruncated] at h
  | cons y ys ih =>
    intro idx h
    simp only [consumeVarintAux] at h ⊢
    by_cases h9 : idx = 9
    · simp only [h9, ↓reduceIte] at h ⊢
      by_cases h2 : y.toNat < 2
      · simp only [h2, ↓reduceIte, List.length_cons]; omega
      · simp [h2, errOverflow] at h
    · simp only [h9, ↓reduceIte] at h ⊢
      by_cases hlt : y.toNat < 128
      · simp only [hlt, ↓reduceIte, List.length_cons]; omega
      · simp only [hlt, ↓reduceIte] at h ⊢
        by_cases hneg : (consumeVarintAux (idx + 1) ys).2 < 0
        · simp only [hneg, ↓reduceIte] at h; omega
        · simp only [hneg, ↓reduceIte] at h ⊢
          have := ih (idx + 1) (by omega)
          simp only [List.length_cons]
          omega

theorem consumeVarint_progress (b : Bytes) (h : 0 ≤ (consumeVarint b).2) :
    1 ≤ (consumeVarint b).2 ∧ (consumeVarint b).2 ≤ b.length :=
  consumeVarintAux_progress b 0 h

end Pico.Wire
