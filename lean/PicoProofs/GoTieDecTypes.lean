import PicoModel.Gen.GoDecTypes
import PicoProofs.GoTieDecoder
import PicoProofs.ScalarLemmas
import PicoProofs.DecRefineWire
/-
Tie between the statement-level translation of decoder_types.go (`PicoModel/Gen/GoDecTypes.lean`,
regenerated from the Go source on every run: the 30 typed readers) and the hand-written model
`Dec.readSingle` / `Dec.readRepeated` about which the decoder theorems are proved.

Each translated reader is (definitionally) an instance of one of three generic shapes below; each
shape is proved equal to the model once, for any primitive `consume` and conversion `conv` that
agree with the model's `consumeScalar`. The value representations are related by `unS`: the model
keeps every scalar as its bit pattern (`SVal.num`), the translation uses the statement
translator's representation of the Go type (`GoVal`).
-/
namespace Pico.GoTie.DT
open Pico Pico.Dec Pico.Wire Pico.GoTie.D

/-- the statement translator's representation of the Go type of a scalar kind -/
@[reducible] def GoVal : Scalar → Type
  | .bool => Bool
  | .int32 | .int64 | .sint32 | .sint64 | .sfixed32 | .sfixed64 => Int
  | .string | .bytes => Bytes
  | .uint32 | .uint64 | .fixed32 | .fixed64 | .float | .double => Nat

/-- from the model's bit pattern to the Go value -/
def unS : (k : Scalar) → Enc.SVal → GoVal k
  | .bool, v => decide (v.num! ≠ 0)
  | .int32, v => Go.wrapS 32 (v.num! : Int)
  | .sint32, v => Go.wrapS 32 (v.num! : Int)
  | .sfixed32, v => Go.wrapS 32 (v.num! : Int)
  | .int64, v => Go.wrapS 64 (v.num! : Int)
  | .sint64, v => Go.wrapS 64 (v.num! : Int)
  | .sfixed64, v => Go.wrapS 64 (v.num! : Int)
  | .uint32, v => v.num!
  | .uint64, v => v.num!
  | .fixed32, v => v.num!
  | .fixed64, v => v.num!
  | .float, v => v.num!
  | .double, v => v.num!
  | .string, v => v.bytes!
  | .bytes, v => v.bytes!

/-! ### shape 1: singular reader -/

def gSingle {α β : Type} (wire : Nat) (wmsg pmsg : String) (consume : Bytes → α × Int) (conv : α → β)
    (field : Int) (dec : Dec) (v : β) : Res (Dec × β) := do
  if (field ≠ dec.cur.pendingField) then do
    pure (dec, v)
  else do
    if (dec.cur.pendingWire ≠ wire) then do
      let dec ← Pico.GoSrc.Decoder.fail field wmsg dec
      pure (dec, v)
    else do
      let r1 := consume dec.cur.buffer
      let x := r1.1
      let n := r1.2
      if (n < (0 : Int)) then do
        let dec ← Pico.GoSrc.Decoder.fail field pmsg dec
        pure (dec, v)
      else do
        let v := conv x
        let dec ← Pico.GoSrc.Decoder.nextField n dec
        pure (dec, v)

/-- what the model says a singular reader leaves in `*v` -/
def stored {β} (un : Enc.SVal → β) (v : β) (p : Dec × Option Enc.SVal) : Dec × β :=
  (p.1, match p.2 with | some sv => un sv | none => v)

theorem gSingle_eq (k : Scalar) {α β : Type} (consume : Bytes → α × Int) (conv : α → β) (un : Enc.SVal → β)
    (hc : ∀ b, (consumeScalar false k b).2 = (consume b).2 ∧ un (consumeScalar false k b).1 = conv (consume b).1)
    (field : Int) (dec : Dec) (v : β) :
    gSingle k.wire ("expected wire type " ++ wireName k.wire) ("unable to parse " ++ primName k) consume conv field dec v
      = Res.mapr (stored un v) (readSingle k field dec) := by
  unfold gSingle readSingle
  obtain ⟨h2, h1⟩ := hc dec.cur.buffer
  by_cases hf : field ≠ dec.cur.pendingField
  · simp [hf, stored]
  · by_cases hw : dec.cur.pendingWire ≠ k.wire
    · simp [hf, hw, D.fail_eq, stored]
    · by_cases hn : (consume dec.cur.buffer).2 < 0
      · simp [hf, hw, D.fail_eq, stored, h2, hn]
      · simp only [hf, hw, h2, hn, if_false, D.nextField_eq]
        cases nextField dec (consume dec.cur.buffer).2 <;> simp [stored, h1]


/-! ### shape 2: repeated reader of a packable kind -/

def gPacked {α β : Type} (pmsg : String) (consume : Bytes → α × Int) (conv : α → β) (field : Int) :
    Nat → Dec → (List β) → Bytes → Res (Option (Unit) × (Dec × List β × Bytes))
  | 0, _, _, _ => .outOfFuel
  | fuel + 1, dec, v, packed => do
    if ((Go.len packed) > (0 : Int)) then do
      let r2 := consume packed
      let x := r2.1
      let xn := r2.2
      if (xn < (0 : Int)) then do
        let dec ← Pico.GoSrc.Decoder.fail field pmsg dec
        pure (some (), (dec, v, packed))
      else do
        let v := (v ++ [conv x])
        let t3 ← Go.sliceFrom packed xn
        let packed := t3
        gPacked pmsg consume conv field fuel dec v packed
    else
      pure (none, (dec, v, packed))

def gRepLoop {α β : Type} (wire : Nat) (wmsg pmsg : String) (consume : Bytes → α × Int) (conv : α → β) (field : Int) :
    Nat → Dec → (List β) → Res (Option (Unit) × (Dec × List β))
  | 0, _, _ => .outOfFuel
  | fuel + 1, dec, v => do
    if (field = dec.cur.pendingField) then do
      if (dec.cur.pendingWire = 2) then do
        let r1 := Pico.Wire.consumeBytes dec.cur.buffer
        let packed := r1.1
        let n := r1.2
        if (n < (0 : Int)) then do
          let dec ← Pico.GoSrc.Decoder.fail field ("unable to parse Bytes") dec
          pure (some (), (dec, v))
        else do
          let (ret4, (dec, v, _packed)) ← gPacked pmsg consume conv field ((packed.length + 1)) dec v packed
          match ret4 with
          | some _ =>
            pure (some (), (dec, v))
          | none => do
            let dec ← Pico.GoSrc.Decoder.nextField n dec
            gRepLoop wire wmsg pmsg consume conv field fuel dec v
      else do
        if (dec.cur.pendingWire = wire) then do
          let r5 := consume dec.cur.buffer
          let x_1 := r5.1
          let n_1 := r5.2
          if (n_1 < (0 : Int)) then do
            let dec ← Pico.GoSrc.Decoder.fail field pmsg dec
            pure (some (), (dec, v))
          else do
            let v := (v ++ [conv x_1])
            let dec ← Pico.GoSrc.Decoder.nextField n_1 dec
            gRepLoop wire wmsg pmsg consume conv field fuel dec v
        else do
          let dec ← Pico.GoSrc.Decoder.fail field wmsg dec
          pure (some (), (dec, v))
    else
      pure (none, (dec, v))

def gRepeated {α β : Type} (wire : Nat) (wmsg pmsg : String) (consume : Bytes → α × Int) (conv : α → β)
    (field : Int) (dec : Dec) (v : List β) : Res (Dec × List β) := do
  let (ret6, (dec, v)) ← gRepLoop wire wmsg pmsg consume conv field ((dec.cur.buffer.length + 2)) dec v
  match ret6 with
  | some _ =>
    pure (dec, v)
  | none => do
    pure (dec, v)

theorem readPacked_shift (k : Scalar) (fuel : Nat) (p : Bytes) (a acc : List Enc.SVal) :
    readPacked k fuel p (a ++ acc) = Res.mapr (fun r => (a ++ r.1, r.2)) (readPacked k fuel p acc) := by
  induction fuel generalizing p acc with
  | zero => rfl
  | succ n ih =>
    unfold readPacked
    simp only []
    split
    · rfl
    · split
      · rfl
      · cases h : Dec.sliceFrom p (consumeScalar true k p).2 with
        | ok rest => simp [← ih, List.append_assoc]
        | panic w => rfl
        | outOfFuel => rfl

theorem gPacked_eq (k : Scalar) {α β : Type} (consume : Bytes → α × Int) (conv : α → β) (un : Enc.SVal → β)
    (hc : ∀ b, (consumeScalar true k b).2 = (consume b).2 ∧ un (consumeScalar true k b).1 = conv (consume b).1)
    (field : Int) (fuel : Nat) (d : Dec) (packed : Bytes) (acc : List Enc.SVal) :
    Res.mapr (fun r => (r.1, r.2.1, r.2.2.1)) (gPacked ("unable to parse " ++ primName k) consume conv field fuel d (acc.map un) packed)
      = Res.mapr (fun r => (if r.2 then some () else none,
                            if r.2 then Dec.fail d field ("unable to parse " ++ primName k) else d, r.1.map un))
          (readPacked k fuel packed acc) := by
  induction fuel generalizing packed acc with
  | zero => rfl
  | succ n ih =>
    unfold gPacked readPacked
    obtain ⟨h2, h1⟩ := hc packed
    simp only [D.fail_eq, D.sliceFrom_eq, Go.len]
    by_cases hp : packed = []
    · simp [hp]
    · have hpos : 0 < packed.length := List.length_pos_iff.mpr hp
      have hne : ¬ packed.length = 0 := by omega
      have hgt : ((packed.length : Int) > 0) := by omega
      simp only [hgt, hne, if_true, if_false, h2]
      by_cases hn : (consume packed).2 < 0
      · simp [hn]
      · simp only [hn, if_false]
        cases hs : Dec.sliceFrom packed (consume packed).2 with
        | ok rest =>
          have := ih rest (acc ++ [(consumeScalar true k packed).1])
          simp only [List.map_append, List.map_cons, List.map_nil, h1] at this
          simpa [hs] using this
        | panic w => simp [hs]
        | outOfFuel => simp [hs]

theorem gRepLoop_eq (k : Scalar) (hk : k.isBytes = false) (hw2 : k.wire ≠ 2) {α β : Type}
    (consume : Bytes → α × Int) (conv : α → β) (un : Enc.SVal → β)
    (hc : ∀ b, (consumeScalar true k b).2 = (consume b).2 ∧ un (consumeScalar true k b).1 = conv (consume b).1)
    (field : Int) (fuel : Nat) (d : Dec) (acc : List Enc.SVal) :
    Res.mapr Prod.snd (gRepLoop k.wire ("expected wire type " ++ wireName k.wire) ("unable to parse " ++ primName k)
        consume conv field fuel d (acc.map un))
      = Res.mapr (fun p => (p.1, p.2.map un)) (readRepeatedN k field fuel d acc) := by
  induction fuel generalizing d acc with
  | zero => rfl
  | succ n ih =>
    unfold gRepLoop readRepeatedN
    obtain ⟨h2, h1⟩ := hc d.cur.buffer
    simp only [D.fail_eq, D.nextField_eq, hk]
    by_cases hf : field = d.cur.pendingField
    · subst hf
      simp only [if_true, ne_eq, not_true_eq_false, if_false]
      by_cases hw : d.cur.pendingWire = 2
      · simp only [hw, if_true, Bool.not_false, and_self]
        by_cases hb : (consumeBytes d.cur.buffer).2 < 0
        · simp [hb]
        · simp only [hb, if_false]
          have key := gPacked_eq k consume conv un hc d.cur.pendingField ((consumeBytes d.cur.buffer).1.length + 1) d (consumeBytes d.cur.buffer).1 acc
          have sh := readPacked_shift k ((consumeBytes d.cur.buffer).1.length + 1) (consumeBytes d.cur.buffer).1 acc []
          rw [List.append_nil] at sh
          rw [sh] at key
          cases hl : gPacked ("unable to parse " ++ primName k) consume conv d.cur.pendingField ((consumeBytes d.cur.buffer).1.length + 1) d (List.map un acc) (consumeBytes d.cur.buffer).1 with
          | ok x =>
            rw [hl] at key
            cases hp : readPacked k ((consumeBytes d.cur.buffer).1.length + 1) (consumeBytes d.cur.buffer).1 [] with
            | ok y =>
              rw [hp] at key
              simp only [Res.mapr_ok, Res.ok.injEq, Prod.mk.injEq] at key
              obtain ⟨k1, k2, k3⟩ := key
              obtain ⟨xs, bad⟩ := y
              obtain ⟨o, d', v', p'⟩ := x
              cases bad
              · simp at k1 k2 k3
                simp only [k1, k2, k3, bind, Res.bind, Bool.false_eq_true, if_false]
                cases hnf : nextField d (consumeBytes d.cur.buffer).2 with
                | ok d2 =>
                  have := ih d2 (acc ++ xs)
                  simp only [List.map_append] at this
                  simpa using this
                | panic w => rfl
                | outOfFuel => rfl
              · simp at k1 k2 k3
                simp [k1, k2, k3, bind, Res.bind, pure]
            | panic w => rw [hp] at key; simp at key
            | outOfFuel => rw [hp] at key; simp at key
          | panic w =>
            rw [hl] at key
            cases hp : readPacked k ((consumeBytes d.cur.buffer).1.length + 1) (consumeBytes d.cur.buffer).1 [] with
            | ok y => rw [hp] at key; simp at key
            | panic w' => rw [hp] at key; simp at key; simp [key, bind, Res.bind]
            | outOfFuel => rw [hp] at key; simp at key
          | outOfFuel =>
            rw [hl] at key
            cases hp : readPacked k ((consumeBytes d.cur.buffer).1.length + 1) (consumeBytes d.cur.buffer).1 [] with
            | ok y => rw [hp] at key; simp at key
            | panic w' => rw [hp] at key; simp at key
            | outOfFuel => simp [bind, Res.bind]
      · have hw' : ¬ (d.cur.pendingWire = 2 ∧ (!false) = true) := by simp [hw]
        simp only [hw, if_false, hw']
        by_cases hkw : d.cur.pendingWire = k.wire
        · simp only [hkw, if_true, h2]
          by_cases hn : (consume d.cur.buffer).2 < 0
          · simp [hn]
          · simp only [hn, if_false, bind, Res.bind]
            cases hnf : nextField d (consume d.cur.buffer).2 with
            | ok d2 =>
              have := ih d2 (acc ++ [(consumeScalar true k d.cur.buffer).1])
              simp only [List.map_append, List.map_cons, List.map_nil, h1] at this
              simpa using this
            | panic w => rfl
            | outOfFuel => rfl
        · simp [hkw]
    · simp [hf]

theorem gRepeated_eq (k : Scalar) (hk : k.isBytes = false) (hw2 : k.wire ≠ 2) {α β : Type}
    (consume : Bytes → α × Int) (conv : α → β) (un : Enc.SVal → β)
    (hc : ∀ b, (consumeScalar true k b).2 = (consume b).2 ∧ un (consumeScalar true k b).1 = conv (consume b).1)
    (field : Int) (d : Dec) (acc : List Enc.SVal) :
    gRepeated k.wire ("expected wire type " ++ wireName k.wire) ("unable to parse " ++ primName k) consume conv field d (acc.map un)
      = Res.mapr (fun p => (p.1, p.2.map un)) (readRepeated k field d acc) := by
  unfold gRepeated readRepeated
  rw [← gRepLoop_eq k hk hw2 consume conv un hc]
  cases h : gRepLoop k.wire ("expected wire type " ++ wireName k.wire) ("unable to parse " ++ primName k) consume conv field (d.cur.buffer.length + 2) d (acc.map un) with
  | ok r => obtain ⟨o, d', s'⟩ := r; cases o <;> rfl
  | panic w => rfl
  | outOfFuel => rfl

/-! ### shape 3: repeated string / bytes -/

def gRepULoop (pmsg : String) (field : Int) :
    Nat → Dec → (List Bytes) → Res (Option (Unit) × (Dec × List Bytes))
  | 0, _, _ => .outOfFuel
  | fuel + 1, dec, v => do
    if (field = dec.cur.pendingField) then do
      if (dec.cur.pendingWire = 2) then do
        let r1 := Pico.Wire.consumeBytes dec.cur.buffer
        let x := r1.1
        let n := r1.2
        if (n < (0 : Int)) then do
          let dec ← Pico.GoSrc.Decoder.fail field pmsg dec
          pure (some (), (dec, v))
        else do
          let v := (v ++ [x])
          let dec ← Pico.GoSrc.Decoder.nextField n dec
          gRepULoop pmsg field fuel dec v
      else do
        let dec ← Pico.GoSrc.Decoder.fail field ("expected wire type Bytes") dec
        pure (some (), (dec, v))
    else
      pure (none, (dec, v))

def gRepU (pmsg : String) (field : Int) (dec : Dec) (v : List Bytes) : Res (Dec × List Bytes) := do
  let (ret2, (dec, v)) ← gRepULoop pmsg field ((dec.cur.buffer.length + 2)) dec v
  match ret2 with
  | some _ =>
    pure (dec, v)
  | none => do
    pure (dec, v)

theorem gRepULoop_eq (k : Scalar) (hk : k.isBytes = true) (field : Int) (fuel : Nat) (d : Dec) (acc : List Enc.SVal) :
    Res.mapr Prod.snd (gRepULoop ("unable to parse " ++ primName k) field fuel d (acc.map Enc.SVal.bytes!))
      = Res.mapr (fun p => (p.1, p.2.map Enc.SVal.bytes!)) (readRepeatedN k field fuel d acc) := by
  have hw : k.wire = 2 := by cases k <;> simp_all [Scalar.isBytes, Scalar.wire]
  have hcs : ∀ b, consumeScalar true k b = (.bytes (consumeBytes b).1, (consumeBytes b).2) := by
    intro b; unfold consumeScalar; rw [hw]; rfl
  induction fuel generalizing d acc with
  | zero => rfl
  | succ n ih =>
    unfold gRepULoop readRepeatedN
    simp only [D.fail_eq, D.nextField_eq, hk, hw, hcs]
    by_cases hf : field = d.cur.pendingField
    · subst hf
      simp only [if_true, ne_eq, not_true_eq_false, if_false, Bool.not_true, Bool.false_eq_true, and_false]
      by_cases hw2 : d.cur.pendingWire = 2
      · simp only [hw2, if_true]
        by_cases hn : (consumeBytes d.cur.buffer).2 < 0
        · simp [hn, wireName]
        · simp only [hn, if_false, bind, Res.bind]
          cases hnf : nextField d (consumeBytes d.cur.buffer).2 with
          | ok d2 =>
            have := ih d2 (acc ++ [.bytes (consumeBytes d.cur.buffer).1])
            simp only [List.map_append, List.map_cons, List.map_nil, Enc.SVal.bytes!] at this
            simpa using this
          | panic w => rfl
          | outOfFuel => rfl
      · simp [hw2, wireName]
    · simp [hf]

theorem gRepU_eq (k : Scalar) (hk : k.isBytes = true) (field : Int) (d : Dec) (acc : List Enc.SVal) :
    gRepU ("unable to parse " ++ primName k) field d (acc.map Enc.SVal.bytes!)
      = Res.mapr (fun p => (p.1, p.2.map Enc.SVal.bytes!)) (readRepeated k field d acc) := by
  unfold gRepU readRepeated
  rw [← gRepULoop_eq k hk]
  cases h : gRepULoop ("unable to parse " ++ primName k) field (d.cur.buffer.length + 2) d (acc.map Enc.SVal.bytes!) with
  | ok r => obtain ⟨o, d', s'⟩ := r; cases o <;> rfl
  | panic w => rfl
  | outOfFuel => rfl

/-! ### the conversions agree with the model's `decBits` -/

theorem wrapS_mod32 (x : Nat) : Go.wrapS 32 ((x % 4294967296 : Nat) : Int) = Go.wrapS 32 (x : Int) := by
  unfold Go.wrapS
  simp only [show (2:Int)^32 = 4294967296 from by decide, show (2:Int)^(32-1) = 2147483648 from by decide]
  have : (((x % 4294967296 : Nat) : Int)) % 4294967296 = (x : Int) % 4294967296 := by omega
  rw [this]

theorem wrapS_mod64 (x : Nat) : Go.wrapS 64 ((x % 18446744073709551616 : Nat) : Int) = Go.wrapS 64 (x : Int) := by
  unfold Go.wrapS
  simp only [show (2:Int)^64 = 18446744073709551616 from by decide, show (2:Int)^(64-1) = 9223372036854775808 from by decide]
  have : (((x % 18446744073709551616 : Nat) : Int)) % 18446744073709551616 = (x : Int) % 18446744073709551616 := by omega
  rw [this]

theorem toInt32_eq (v : BitVec 32) : v.toInt = Go.wrapS 32 (v.toNat : Int) := by
  have h := v.isLt
  rw [BitVec.toInt_eq_toNat_cond]
  unfold Go.wrapS
  simp only [show (2:Int)^32 = 4294967296 from by decide, show (2:Int)^(32-1) = 2147483648 from by decide]
  split <;> split <;> omega

theorem toInt64_eq (v : BitVec 64) : v.toInt = Go.wrapS 64 (v.toNat : Int) := by
  have h := v.isLt
  rw [BitVec.toInt_eq_toNat_cond]
  unfold Go.wrapS
  simp only [show (2:Int)^64 = 18446744073709551616 from by decide, show (2:Int)^(64-1) = 9223372036854775808 from by decide]
  split <;> split <;> omega

/-! ### every translated reader is an instance of its shape

The equations below are definitional (`rfl`) for the singular readers and a structural induction on
the fuel for the loops: the translated text and the shape differ only in the names of the
primitive, the conversion and the two error texts. -/

section instances
open GoSrc.DecTypes

theorem rBool_shape : rBool = gSingle 0 "expected wire type Varint" "unable to parse Varint" consumeVarint (fun x => decide ((x ≠ 0))) := rfl

theorem rRepeatedBool_loop2 : ∀ fuel field dec v packed, rRepeatedBool.loop2 field fuel dec v packed
    = gPacked "unable to parse Varint" consumeVarint (fun x => decide ((x ≠ 0))) field fuel dec v packed := by
  intro fuel
  induction fuel with
  | zero => intros; rfl
  | succ n ih => intros; unfold rRepeatedBool.loop2 gPacked; simp only [ih]

theorem rRepeatedBool_loop1 : ∀ fuel field dec v, rRepeatedBool.loop1 field fuel dec v
    = gRepLoop 0 "expected wire type Varint" "unable to parse Varint" consumeVarint (fun x => decide ((x ≠ 0))) field fuel dec v := by
  intro fuel
  induction fuel with
  | zero => intros; rfl
  | succ n ih => intros; unfold rRepeatedBool.loop1 gRepLoop; simp only [ih, rRepeatedBool_loop2]; first | rfl | (simp only [bind, Res.bind, pure]; grind)

theorem rRepeatedBool_shape : rRepeatedBool = gRepeated 0 "expected wire type Varint" "unable to parse Varint" consumeVarint (fun x => decide ((x ≠ 0))) := by
  funext field dec v
  unfold rRepeatedBool gRepeated
  simp only [rRepeatedBool_loop1]
  rfl

theorem rInt32_shape : rInt32 = gSingle 0 "expected wire type Varint" "unable to parse Varint" consumeVarint (fun x => Go.wrapS 32 (Int.ofNat x)) := rfl

theorem rRepeatedInt32_loop2 : ∀ fuel field dec v packed, rRepeatedInt32.loop2 field fuel dec v packed
    = gPacked "unable to parse Varint" consumeVarint (fun x => Go.wrapS 32 (Int.ofNat x)) field fuel dec v packed := by
  intro fuel
  induction fuel with
  | zero => intros; rfl
  | succ n ih => intros; unfold rRepeatedInt32.loop2 gPacked; simp only [ih]

theorem rRepeatedInt32_loop1 : ∀ fuel field dec v, rRepeatedInt32.loop1 field fuel dec v
    = gRepLoop 0 "expected wire type Varint" "unable to parse Varint" consumeVarint (fun x => Go.wrapS 32 (Int.ofNat x)) field fuel dec v := by
  intro fuel
  induction fuel with
  | zero => intros; rfl
  | succ n ih => intros; unfold rRepeatedInt32.loop1 gRepLoop; simp only [ih, rRepeatedInt32_loop2]; first | rfl | (simp only [bind, Res.bind, pure]; grind)

theorem rRepeatedInt32_shape : rRepeatedInt32 = gRepeated 0 "expected wire type Varint" "unable to parse Varint" consumeVarint (fun x => Go.wrapS 32 (Int.ofNat x)) := by
  funext field dec v
  unfold rRepeatedInt32 gRepeated
  simp only [rRepeatedInt32_loop1]
  rfl

theorem rInt64_shape : rInt64 = gSingle 0 "expected wire type Varint" "unable to parse Varint" consumeVarint (fun x => Go.wrapS 64 (Int.ofNat x)) := rfl

theorem rRepeatedInt64_loop2 : ∀ fuel field dec v packed, rRepeatedInt64.loop2 field fuel dec v packed
    = gPacked "unable to parse Varint" consumeVarint (fun x => Go.wrapS 64 (Int.ofNat x)) field fuel dec v packed := by
  intro fuel
  induction fuel with
  | zero => intros; rfl
  | succ n ih => intros; unfold rRepeatedInt64.loop2 gPacked; simp only [ih]

theorem rRepeatedInt64_loop1 : ∀ fuel field dec v, rRepeatedInt64.loop1 field fuel dec v
    = gRepLoop 0 "expected wire type Varint" "unable to parse Varint" consumeVarint (fun x => Go.wrapS 64 (Int.ofNat x)) field fuel dec v := by
  intro fuel
  induction fuel with
  | zero => intros; rfl
  | succ n ih => intros; unfold rRepeatedInt64.loop1 gRepLoop; simp only [ih, rRepeatedInt64_loop2]; first | rfl | (simp only [bind, Res.bind, pure]; grind)

theorem rRepeatedInt64_shape : rRepeatedInt64 = gRepeated 0 "expected wire type Varint" "unable to parse Varint" consumeVarint (fun x => Go.wrapS 64 (Int.ofNat x)) := by
  funext field dec v
  unfold rRepeatedInt64 gRepeated
  simp only [rRepeatedInt64_loop1]
  rfl

theorem rUint32_shape : rUint32 = gSingle 0 "expected wire type Varint" "unable to parse Varint" consumeVarint (fun x => (x % 4294967296)) := rfl

theorem rRepeatedUint32_loop2 : ∀ fuel field dec v packed, rRepeatedUint32.loop2 field fuel dec v packed
    = gPacked "unable to parse Varint" consumeVarint (fun x => (x % 4294967296)) field fuel dec v packed := by
  intro fuel
  induction fuel with
  | zero => intros; rfl
  | succ n ih => intros; unfold rRepeatedUint32.loop2 gPacked; simp only [ih]

theorem rRepeatedUint32_loop1 : ∀ fuel field dec v, rRepeatedUint32.loop1 field fuel dec v
    = gRepLoop 0 "expected wire type Varint" "unable to parse Varint" consumeVarint (fun x => (x % 4294967296)) field fuel dec v := by
  intro fuel
  induction fuel with
  | zero => intros; rfl
  | succ n ih => intros; unfold rRepeatedUint32.loop1 gRepLoop; simp only [ih, rRepeatedUint32_loop2]; first | rfl | (simp only [bind, Res.bind, pure]; grind)

theorem rRepeatedUint32_shape : rRepeatedUint32 = gRepeated 0 "expected wire type Varint" "unable to parse Varint" consumeVarint (fun x => (x % 4294967296)) := by
  funext field dec v
  unfold rRepeatedUint32 gRepeated
  simp only [rRepeatedUint32_loop1]
  rfl

theorem rUint64_shape : rUint64 = gSingle 0 "expected wire type Varint" "unable to parse Varint" consumeVarint (fun x => x) := rfl

theorem rRepeatedUint64_loop2 : ∀ fuel field dec v packed, rRepeatedUint64.loop2 field fuel dec v packed
    = gPacked "unable to parse Varint" consumeVarint (fun x => x) field fuel dec v packed := by
  intro fuel
  induction fuel with
  | zero => intros; rfl
  | succ n ih => intros; unfold rRepeatedUint64.loop2 gPacked; simp only [ih]

theorem rRepeatedUint64_loop1 : ∀ fuel field dec v, rRepeatedUint64.loop1 field fuel dec v
    = gRepLoop 0 "expected wire type Varint" "unable to parse Varint" consumeVarint (fun x => x) field fuel dec v := by
  intro fuel
  induction fuel with
  | zero => intros; rfl
  | succ n ih => intros; unfold rRepeatedUint64.loop1 gRepLoop; simp only [ih, rRepeatedUint64_loop2]; first | rfl | (simp only [bind, Res.bind, pure]; grind)

theorem rRepeatedUint64_shape : rRepeatedUint64 = gRepeated 0 "expected wire type Varint" "unable to parse Varint" consumeVarint (fun x => x) := by
  funext field dec v
  unfold rRepeatedUint64 gRepeated
  simp only [rRepeatedUint64_loop1]
  rfl

theorem rSint32_shape : rSint32 = gSingle 0 "expected wire type Varint" "unable to parse Varint" consumeVarint (fun x => Go.decodeZigZag32 (x % 4294967296)) := rfl

theorem rRepeatedSint32_loop2 : ∀ fuel field dec v packed, rRepeatedSint32.loop2 field fuel dec v packed
    = gPacked "unable to parse Varint" consumeVarint (fun x => Go.decodeZigZag32 (x % 4294967296)) field fuel dec v packed := by
  intro fuel
  induction fuel with
  | zero => intros; rfl
  | succ n ih => intros; unfold rRepeatedSint32.loop2 gPacked; simp only [ih]

theorem rRepeatedSint32_loop1 : ∀ fuel field dec v, rRepeatedSint32.loop1 field fuel dec v
    = gRepLoop 0 "expected wire type Varint" "unable to parse Varint" consumeVarint (fun x => Go.decodeZigZag32 (x % 4294967296)) field fuel dec v := by
  intro fuel
  induction fuel with
  | zero => intros; rfl
  | succ n ih => intros; unfold rRepeatedSint32.loop1 gRepLoop; simp only [ih, rRepeatedSint32_loop2]; first | rfl | (simp only [bind, Res.bind, pure]; grind)

theorem rRepeatedSint32_shape : rRepeatedSint32 = gRepeated 0 "expected wire type Varint" "unable to parse Varint" consumeVarint (fun x => Go.decodeZigZag32 (x % 4294967296)) := by
  funext field dec v
  unfold rRepeatedSint32 gRepeated
  simp only [rRepeatedSint32_loop1]
  rfl

theorem rSint64_shape : rSint64 = gSingle 0 "expected wire type Varint" "unable to parse Varint" consumeVarint (fun x => Go.decodeZigZag x) := rfl

theorem rRepeatedSint64_loop2 : ∀ fuel field dec v packed, rRepeatedSint64.loop2 field fuel dec v packed
    = gPacked "unable to parse Varint" consumeVarint (fun x => Go.decodeZigZag x) field fuel dec v packed := by
  intro fuel
  induction fuel with
  | zero => intros; rfl
  | succ n ih => intros; unfold rRepeatedSint64.loop2 gPacked; simp only [ih]

theorem rRepeatedSint64_loop1 : ∀ fuel field dec v, rRepeatedSint64.loop1 field fuel dec v
    = gRepLoop 0 "expected wire type Varint" "unable to parse Varint" consumeVarint (fun x => Go.decodeZigZag x) field fuel dec v := by
  intro fuel
  induction fuel with
  | zero => intros; rfl
  | succ n ih => intros; unfold rRepeatedSint64.loop1 gRepLoop; simp only [ih, rRepeatedSint64_loop2]; first | rfl | (simp only [bind, Res.bind, pure]; grind)

theorem rRepeatedSint64_shape : rRepeatedSint64 = gRepeated 0 "expected wire type Varint" "unable to parse Varint" consumeVarint (fun x => Go.decodeZigZag x) := by
  funext field dec v
  unfold rRepeatedSint64 gRepeated
  simp only [rRepeatedSint64_loop1]
  rfl

theorem rFixed32_shape : rFixed32 = gSingle 5 "expected wire type Fixed32" "unable to parse Fixed32" consumeFixed32 (fun x => x) := rfl

theorem rRepeatedFixed32_loop2 : ∀ fuel field dec v packed, rRepeatedFixed32.loop2 field fuel dec v packed
    = gPacked "unable to parse Fixed32" consumeFixed32 (fun x => x) field fuel dec v packed := by
  intro fuel
  induction fuel with
  | zero => intros; rfl
  | succ n ih => intros; unfold rRepeatedFixed32.loop2 gPacked; simp only [ih]

theorem rRepeatedFixed32_loop1 : ∀ fuel field dec v, rRepeatedFixed32.loop1 field fuel dec v
    = gRepLoop 5 "expected wire type Fixed32" "unable to parse Fixed32" consumeFixed32 (fun x => x) field fuel dec v := by
  intro fuel
  induction fuel with
  | zero => intros; rfl
  | succ n ih => intros; unfold rRepeatedFixed32.loop1 gRepLoop; simp only [ih, rRepeatedFixed32_loop2]; first | rfl | (simp only [bind, Res.bind, pure]; grind)

theorem rRepeatedFixed32_shape : rRepeatedFixed32 = gRepeated 5 "expected wire type Fixed32" "unable to parse Fixed32" consumeFixed32 (fun x => x) := by
  funext field dec v
  unfold rRepeatedFixed32 gRepeated
  simp only [rRepeatedFixed32_loop1]
  rfl

theorem rSfixed32_shape : rSfixed32 = gSingle 5 "expected wire type Fixed32" "unable to parse Fixed32" consumeFixed32 (fun x => Go.wrapS 32 (Int.ofNat x)) := rfl

theorem rRepeatedSfixed32_loop2 : ∀ fuel field dec v packed, rRepeatedSfixed32.loop2 field fuel dec v packed
    = gPacked "unable to parse Fixed32" consumeFixed32 (fun x => Go.wrapS 32 (Int.ofNat x)) field fuel dec v packed := by
  intro fuel
  induction fuel with
  | zero => intros; rfl
  | succ n ih => intros; unfold rRepeatedSfixed32.loop2 gPacked; simp only [ih]

theorem rRepeatedSfixed32_loop1 : ∀ fuel field dec v, rRepeatedSfixed32.loop1 field fuel dec v
    = gRepLoop 5 "expected wire type Fixed32" "unable to parse Fixed32" consumeFixed32 (fun x => Go.wrapS 32 (Int.ofNat x)) field fuel dec v := by
  intro fuel
  induction fuel with
  | zero => intros; rfl
  | succ n ih => intros; unfold rRepeatedSfixed32.loop1 gRepLoop; simp only [ih, rRepeatedSfixed32_loop2]; first | rfl | (simp only [bind, Res.bind, pure]; grind)

theorem rRepeatedSfixed32_shape : rRepeatedSfixed32 = gRepeated 5 "expected wire type Fixed32" "unable to parse Fixed32" consumeFixed32 (fun x => Go.wrapS 32 (Int.ofNat x)) := by
  funext field dec v
  unfold rRepeatedSfixed32 gRepeated
  simp only [rRepeatedSfixed32_loop1]
  rfl

theorem rFloat_shape : rFloat = gSingle 5 "expected wire type Fixed32" "unable to parse Fixed32" consumeFixed32 (fun x => Go.float32frombits x) := rfl

theorem rRepeatedFloat_loop2 : ∀ fuel field dec v packed, rRepeatedFloat.loop2 field fuel dec v packed
    = gPacked "unable to parse Fixed32" consumeFixed32 (fun x => Go.float32frombits x) field fuel dec v packed := by
  intro fuel
  induction fuel with
  | zero => intros; rfl
  | succ n ih => intros; unfold rRepeatedFloat.loop2 gPacked; simp only [ih]

theorem rRepeatedFloat_loop1 : ∀ fuel field dec v, rRepeatedFloat.loop1 field fuel dec v
    = gRepLoop 5 "expected wire type Fixed32" "unable to parse Fixed32" consumeFixed32 (fun x => Go.float32frombits x) field fuel dec v := by
  intro fuel
  induction fuel with
  | zero => intros; rfl
  | succ n ih => intros; unfold rRepeatedFloat.loop1 gRepLoop; simp only [ih, rRepeatedFloat_loop2]; first | rfl | (simp only [bind, Res.bind, pure]; grind)

theorem rRepeatedFloat_shape : rRepeatedFloat = gRepeated 5 "expected wire type Fixed32" "unable to parse Fixed32" consumeFixed32 (fun x => Go.float32frombits x) := by
  funext field dec v
  unfold rRepeatedFloat gRepeated
  simp only [rRepeatedFloat_loop1]
  rfl

theorem rFixed64_shape : rFixed64 = gSingle 1 "expected wire type Fixed64" "unable to parse Fixed64" consumeFixed64 (fun x => x) := rfl

theorem rRepeatedFixed64_loop2 : ∀ fuel field dec v packed, rRepeatedFixed64.loop2 field fuel dec v packed
    = gPacked "unable to parse Fixed64" consumeFixed64 (fun x => x) field fuel dec v packed := by
  intro fuel
  induction fuel with
  | zero => intros; rfl
  | succ n ih => intros; unfold rRepeatedFixed64.loop2 gPacked; simp only [ih]

theorem rRepeatedFixed64_loop1 : ∀ fuel field dec v, rRepeatedFixed64.loop1 field fuel dec v
    = gRepLoop 1 "expected wire type Fixed64" "unable to parse Fixed64" consumeFixed64 (fun x => x) field fuel dec v := by
  intro fuel
  induction fuel with
  | zero => intros; rfl
  | succ n ih => intros; unfold rRepeatedFixed64.loop1 gRepLoop; simp only [ih, rRepeatedFixed64_loop2]; first | rfl | (simp only [bind, Res.bind, pure]; grind)

theorem rRepeatedFixed64_shape : rRepeatedFixed64 = gRepeated 1 "expected wire type Fixed64" "unable to parse Fixed64" consumeFixed64 (fun x => x) := by
  funext field dec v
  unfold rRepeatedFixed64 gRepeated
  simp only [rRepeatedFixed64_loop1]
  rfl

theorem rSfixed64_shape : rSfixed64 = gSingle 1 "expected wire type Fixed64" "unable to parse Fixed64" consumeFixed64 (fun x => Go.wrapS 64 (Int.ofNat x)) := rfl

theorem rRepeatedSfixed64_loop2 : ∀ fuel field dec v packed, rRepeatedSfixed64.loop2 field fuel dec v packed
    = gPacked "unable to parse Fixed64" consumeFixed64 (fun x => Go.wrapS 64 (Int.ofNat x)) field fuel dec v packed := by
  intro fuel
  induction fuel with
  | zero => intros; rfl
  | succ n ih => intros; unfold rRepeatedSfixed64.loop2 gPacked; simp only [ih]

theorem rRepeatedSfixed64_loop1 : ∀ fuel field dec v, rRepeatedSfixed64.loop1 field fuel dec v
    = gRepLoop 1 "expected wire type Fixed64" "unable to parse Fixed64" consumeFixed64 (fun x => Go.wrapS 64 (Int.ofNat x)) field fuel dec v := by
  intro fuel
  induction fuel with
  | zero => intros; rfl
  | succ n ih => intros; unfold rRepeatedSfixed64.loop1 gRepLoop; simp only [ih, rRepeatedSfixed64_loop2]; first | rfl | (simp only [bind, Res.bind, pure]; grind)

theorem rRepeatedSfixed64_shape : rRepeatedSfixed64 = gRepeated 1 "expected wire type Fixed64" "unable to parse Fixed64" consumeFixed64 (fun x => Go.wrapS 64 (Int.ofNat x)) := by
  funext field dec v
  unfold rRepeatedSfixed64 gRepeated
  simp only [rRepeatedSfixed64_loop1]
  rfl

theorem rDouble_shape : rDouble = gSingle 1 "expected wire type Fixed64" "unable to parse Fixed64" consumeFixed64 (fun x => Go.float64frombits x) := rfl

theorem rRepeatedDouble_loop2 : ∀ fuel field dec v packed, rRepeatedDouble.loop2 field fuel dec v packed
    = gPacked "unable to parse Fixed64" consumeFixed64 (fun x => Go.float64frombits x) field fuel dec v packed := by
  intro fuel
  induction fuel with
  | zero => intros; rfl
  | succ n ih => intros; unfold rRepeatedDouble.loop2 gPacked; simp only [ih]

theorem rRepeatedDouble_loop1 : ∀ fuel field dec v, rRepeatedDouble.loop1 field fuel dec v
    = gRepLoop 1 "expected wire type Fixed64" "unable to parse Fixed64" consumeFixed64 (fun x => Go.float64frombits x) field fuel dec v := by
  intro fuel
  induction fuel with
  | zero => intros; rfl
  | succ n ih => intros; unfold rRepeatedDouble.loop1 gRepLoop; simp only [ih, rRepeatedDouble_loop2]; first | rfl | (simp only [bind, Res.bind, pure]; grind)

theorem rRepeatedDouble_shape : rRepeatedDouble = gRepeated 1 "expected wire type Fixed64" "unable to parse Fixed64" consumeFixed64 (fun x => Go.float64frombits x) := by
  funext field dec v
  unfold rRepeatedDouble gRepeated
  simp only [rRepeatedDouble_loop1]
  rfl

theorem rString_shape : rString = gSingle 2 "expected wire type Bytes" "unable to parse String" consumeBytes (fun x => x) := rfl

theorem rRepeatedString_loop1 : ∀ fuel field dec v, rRepeatedString.loop1 field fuel dec v
    = gRepULoop "unable to parse String" field fuel dec v := by
  intro fuel
  induction fuel with
  | zero => intros; rfl
  | succ n ih => intros; unfold rRepeatedString.loop1 gRepULoop; simp only [ih] <;> first | rfl | (simp only [bind, Res.bind, pure]; grind)

theorem rRepeatedString_shape : rRepeatedString = gRepU "unable to parse String" := by
  funext field dec v
  unfold rRepeatedString gRepU
  simp only [rRepeatedString_loop1]
  rfl

theorem rBytes_shape : rBytes = gSingle 2 "expected wire type Bytes" "unable to parse Bytes" consumeBytes (fun x => x) := rfl

theorem rRepeatedBytes_loop1 : ∀ fuel field dec v, rRepeatedBytes.loop1 field fuel dec v
    = gRepULoop "unable to parse Bytes" field fuel dec v := by
  intro fuel
  induction fuel with
  | zero => intros; rfl
  | succ n ih => intros; unfold rRepeatedBytes.loop1 gRepULoop; simp only [ih] <;> first | rfl | (simp only [bind, Res.bind, pure]; grind)

theorem rRepeatedBytes_shape : rRepeatedBytes = gRepU "unable to parse Bytes" := by
  funext field dec v
  unfold rRepeatedBytes gRepU
  simp only [rRepeatedBytes_loop1]
  rfl

end instances

/-! ### the translated readers, indexed by kind -/

open GoSrc.DecTypes in
/-- the translated singular reader of kind `k` (decoder_types.go `Decoder.<Kind>`) -/
def srcReadSingle : (k : Scalar) → Int → Dec → GoVal k → Res (Dec × GoVal k)
  | .bool => rBool | .int32 => rInt32 | .int64 => rInt64 | .uint32 => rUint32 | .uint64 => rUint64
  | .sint32 => rSint32 | .sint64 => rSint64 | .fixed32 => rFixed32 | .fixed64 => rFixed64
  | .sfixed32 => rSfixed32 | .sfixed64 => rSfixed64 | .float => rFloat | .double => rDouble
  | .string => rString | .bytes => rBytes

open GoSrc.DecTypes in
/-- the translated repeated reader of kind `k` (decoder_types.go `Decoder.Repeated<Kind>`) -/
def srcReadRepeated : (k : Scalar) → Int → Dec → List (GoVal k) → Res (Dec × List (GoVal k))
  | .bool => rRepeatedBool | .int32 => rRepeatedInt32 | .int64 => rRepeatedInt64 | .uint32 => rRepeatedUint32
  | .uint64 => rRepeatedUint64 | .sint32 => rRepeatedSint32 | .sint64 => rRepeatedSint64
  | .fixed32 => rRepeatedFixed32 | .fixed64 => rRepeatedFixed64 | .sfixed32 => rRepeatedSfixed32
  | .sfixed64 => rRepeatedSfixed64 | .float => rRepeatedFloat | .double => rRepeatedDouble
  | .string => rRepeatedString | .bytes => rRepeatedBytes

/-- the conversion the translated reader of kind `k` applies to what the primitive returned -/
def convV : (k : Scalar) → Nat → GoVal k
  | .bool => fun x => decide ((x ≠ 0))
  | .int32 => fun x => Go.wrapS 32 (Int.ofNat x)
  | .int64 => fun x => Go.wrapS 64 (Int.ofNat x)
  | .uint32 => fun x => (x % 4294967296)
  | .uint64 => fun x => x
  | .sint32 => fun x => Go.decodeZigZag32 (x % 4294967296)
  | .sint64 => fun x => Go.decodeZigZag x
  | .fixed32 => fun x => x
  | .fixed64 => fun x => x
  | .sfixed32 => fun x => Go.wrapS 32 (Int.ofNat x)
  | .sfixed64 => fun x => Go.wrapS 64 (Int.ofNat x)
  | .float => fun x => Go.float32frombits x
  | .double => fun x => Go.float64frombits x
  | .string => fun _ => []
  | .bytes => fun _ => []

theorem ofNat32_mod (x : Nat) : BitVec.ofNat 32 (x % 4294967296) = BitVec.setWidth 32 (BitVec.ofNat 64 x) := by
  apply BitVec.eq_of_toNat_eq
  simp only [BitVec.toNat_ofNat, BitVec.toNat_setWidth]
  omega

/-- `unS` of the model's decoded bit pattern is the translated conversion (numeric kinds) -/
theorem unS_decBits (rep : Bool) (k : Scalar) (hk : k.isBytes = false) (x : Nat) (hx : x < 2 ^ 64)
    (hx5 : k.wire = 5 → x < 2 ^ 32) :
    unS k (.num (decBits rep k x)) = convV k x := by
  have hx' : x < 18446744073709551616 := hx
  cases k
  case bool =>
    show decide (decBits rep .bool x ≠ 0) = decide (x ≠ 0)
    rw [dec_closed_form_bool rep x hx]
    by_cases h : x = 0 <;> simp [Spec.scalarOfBits, h]
  case int32 =>
    show Go.wrapS 32 ((decBits rep .int32 x : Nat) : Int) = Go.wrapS 32 (Int.ofNat x)
    rw [dec_closed_form_int32 rep x hx]
    exact wrapS_mod32 x
  case int64 =>
    show Go.wrapS 64 ((decBits rep .int64 x : Nat) : Int) = Go.wrapS 64 (Int.ofNat x)
    rw [dec_closed_form_int64 rep x hx]; rfl
  case uint32 =>
    show decBits rep .uint32 x = x % 4294967296
    rw [dec_closed_form_uint32 rep x hx]; rfl
  case uint64 =>
    show decBits rep .uint64 x = x
    rw [dec_closed_form_uint64 rep x hx]; rfl
  case sint32 =>
    show Go.wrapS 32 ((decBits rep .sint32 x : Nat) : Int) = (Gen.decodeZigZag32 (BitVec.ofNat 32 (x % 4294967296))).toInt
    rw [decBits_rep, toInt32_eq, ofNat32_mod]; rfl
  case sint64 =>
    show Go.wrapS 64 ((decBits rep .sint64 x : Nat) : Int) = (Gen.wireDecodeZigZag (BitVec.ofNat 64 x)).toInt
    rw [decBits_rep, toInt64_eq]; rfl
  case fixed32 =>
    show decBits rep .fixed32 x = x
    rw [dec_closed_form_fixed32 rep x (hx5 rfl)]; rfl
  case fixed64 =>
    show decBits rep .fixed64 x = x
    rw [dec_closed_form_fixed64 rep x hx]; rfl
  case sfixed32 =>
    show Go.wrapS 32 ((decBits rep .sfixed32 x : Nat) : Int) = Go.wrapS 32 (Int.ofNat x)
    rw [dec_closed_form_sfixed32 rep x (hx5 rfl)]; rfl
  case sfixed64 =>
    show Go.wrapS 64 ((decBits rep .sfixed64 x : Nat) : Int) = Go.wrapS 64 (Int.ofNat x)
    rw [dec_closed_form_sfixed64 rep x hx]; rfl
  case float =>
    show decBits rep .float x = x
    rw [dec_closed_form_float rep x (hx5 rfl)]; rfl
  case double =>
    show decBits rep .double x = x
    rw [dec_closed_form_double rep x hx]; rfl
  case string => cases hk
  case bytes => cases hk

theorem hcVarint (rep : Bool) (k : Scalar) (hw : k.wire = 0) (b : Bytes) :
    (consumeScalar rep k b).2 = (consumeVarint b).2 ∧ unS k (consumeScalar rep k b).1 = convV k (consumeVarint b).1 := by
  have hk : k.isBytes = false := by cases k <;> simp_all [Scalar.isBytes, Scalar.wire]
  have e : consumeScalar rep k b = (.num (decBits rep k (consumeVarint b).1), (consumeVarint b).2) := by
    unfold consumeScalar; rw [hw]; rfl
  rw [e]
  exact ⟨rfl, unS_decBits rep k hk _ (consumeVarint_lt b) (by intro h; rw [hw] at h; cases h)⟩

theorem hcFixed32 (rep : Bool) (k : Scalar) (hw : k.wire = 5) (b : Bytes) :
    (consumeScalar rep k b).2 = (consumeFixed32 b).2 ∧ unS k (consumeScalar rep k b).1 = convV k (consumeFixed32 b).1 := by
  have hk : k.isBytes = false := by cases k <;> simp_all [Scalar.isBytes, Scalar.wire]
  have e : consumeScalar rep k b = (.num (decBits rep k (consumeFixed32 b).1), (consumeFixed32 b).2) := by
    unfold consumeScalar; rw [hw]; rfl
  rw [e]
  have h32 := consumeFixed32_lt b
  exact ⟨rfl, unS_decBits rep k hk _ (by omega) (fun _ => h32)⟩

theorem hcFixed64 (rep : Bool) (k : Scalar) (hw : k.wire = 1) (b : Bytes) :
    (consumeScalar rep k b).2 = (consumeFixed64 b).2 ∧ unS k (consumeScalar rep k b).1 = convV k (consumeFixed64 b).1 := by
  have hk : k.isBytes = false := by cases k <;> simp_all [Scalar.isBytes, Scalar.wire]
  have e : consumeScalar rep k b = (.num (decBits rep k (consumeFixed64 b).1), (consumeFixed64 b).2) := by
    unfold consumeScalar; rw [hw]; rfl
  rw [e]
  exact ⟨rfl, unS_decBits rep k hk _ (consumeFixed64_lt b) (by intro h; rw [hw] at h; cases h)⟩

theorem hcBytes (rep : Bool) (k : Scalar) (hk : k.isBytes = true) (b : Bytes) :
    (consumeScalar rep k b).2 = (consumeBytes b).2 ∧ Enc.SVal.bytes! (consumeScalar rep k b).1 = (fun x => x) (consumeBytes b).1 := by
  have hw : k.wire = 2 := by cases k <;> simp_all [Scalar.isBytes, Scalar.wire]
  have e : consumeScalar rep k b = (.bytes (consumeBytes b).1, (consumeBytes b).2) := by
    unfold consumeScalar; rw [hw]; rfl
  rw [e]
  exact ⟨rfl, rfl⟩

/-- TIE (decoder_types.go, singular readers): the translated `Decoder.<Kind>(field, &v)` is the
model's `readSingle k`: same decoder state, same panics, and `*v` holds the decoded value when the
model stored one and is left alone otherwise. -/
theorem readSingle_tie (k : Scalar) (field : Int) (dec : Dec) (v : GoVal k) :
    srcReadSingle k field dec v = Res.mapr (stored (unS k) v) (readSingle k field dec) := by
  cases k
  case bool => exact gSingle_eq .bool consumeVarint (convV .bool) (unS .bool) (hcVarint false .bool rfl) field dec v
  case int32 => exact gSingle_eq .int32 consumeVarint (convV .int32) (unS .int32) (hcVarint false .int32 rfl) field dec v
  case int64 => exact gSingle_eq .int64 consumeVarint (convV .int64) (unS .int64) (hcVarint false .int64 rfl) field dec v
  case uint32 => exact gSingle_eq .uint32 consumeVarint (convV .uint32) (unS .uint32) (hcVarint false .uint32 rfl) field dec v
  case uint64 => exact gSingle_eq .uint64 consumeVarint (convV .uint64) (unS .uint64) (hcVarint false .uint64 rfl) field dec v
  case sint32 => exact gSingle_eq .sint32 consumeVarint (convV .sint32) (unS .sint32) (hcVarint false .sint32 rfl) field dec v
  case sint64 => exact gSingle_eq .sint64 consumeVarint (convV .sint64) (unS .sint64) (hcVarint false .sint64 rfl) field dec v
  case fixed32 => exact gSingle_eq .fixed32 consumeFixed32 (convV .fixed32) (unS .fixed32) (hcFixed32 false .fixed32 rfl) field dec v
  case sfixed32 => exact gSingle_eq .sfixed32 consumeFixed32 (convV .sfixed32) (unS .sfixed32) (hcFixed32 false .sfixed32 rfl) field dec v
  case float => exact gSingle_eq .float consumeFixed32 (convV .float) (unS .float) (hcFixed32 false .float rfl) field dec v
  case fixed64 => exact gSingle_eq .fixed64 consumeFixed64 (convV .fixed64) (unS .fixed64) (hcFixed64 false .fixed64 rfl) field dec v
  case sfixed64 => exact gSingle_eq .sfixed64 consumeFixed64 (convV .sfixed64) (unS .sfixed64) (hcFixed64 false .sfixed64 rfl) field dec v
  case double => exact gSingle_eq .double consumeFixed64 (convV .double) (unS .double) (hcFixed64 false .double rfl) field dec v
  case string => exact gSingle_eq .string consumeBytes (fun x => x) (unS .string) (hcBytes false .string rfl) field dec v
  case bytes => exact gSingle_eq .bytes consumeBytes (fun x => x) (unS .bytes) (hcBytes false .bytes rfl) field dec v

/-- TIE (decoder_types.go, repeated readers): the translated `Decoder.Repeated<Kind>(field, &vs)`
is the model's `readRepeated k`, packed and unpacked occurrences alike: same decoder state, same
panics, the same elements appended to `*vs` (also when an element fails to parse). -/
theorem readRepeated_tie (k : Scalar) (field : Int) (dec : Dec) (acc : List Enc.SVal) :
    srcReadRepeated k field dec (acc.map (unS k))
      = Res.mapr (fun p => (p.1, p.2.map (unS k))) (readRepeated k field dec acc) := by
  cases k
  case bool => show GoSrc.DecTypes.rRepeatedBool _ _ _ = _; rw [rRepeatedBool_shape]; exact gRepeated_eq .bool rfl (by decide) consumeVarint (convV .bool) (unS .bool) (hcVarint true .bool rfl) field dec acc
  case int32 => show GoSrc.DecTypes.rRepeatedInt32 _ _ _ = _; rw [rRepeatedInt32_shape]; exact gRepeated_eq .int32 rfl (by decide) consumeVarint (convV .int32) (unS .int32) (hcVarint true .int32 rfl) field dec acc
  case int64 => show GoSrc.DecTypes.rRepeatedInt64 _ _ _ = _; rw [rRepeatedInt64_shape]; exact gRepeated_eq .int64 rfl (by decide) consumeVarint (convV .int64) (unS .int64) (hcVarint true .int64 rfl) field dec acc
  case uint32 => show GoSrc.DecTypes.rRepeatedUint32 _ _ _ = _; rw [rRepeatedUint32_shape]; exact gRepeated_eq .uint32 rfl (by decide) consumeVarint (convV .uint32) (unS .uint32) (hcVarint true .uint32 rfl) field dec acc
  case uint64 => show GoSrc.DecTypes.rRepeatedUint64 _ _ _ = _; rw [rRepeatedUint64_shape]; exact gRepeated_eq .uint64 rfl (by decide) consumeVarint (convV .uint64) (unS .uint64) (hcVarint true .uint64 rfl) field dec acc
  case sint32 => show GoSrc.DecTypes.rRepeatedSint32 _ _ _ = _; rw [rRepeatedSint32_shape]; exact gRepeated_eq .sint32 rfl (by decide) consumeVarint (convV .sint32) (unS .sint32) (hcVarint true .sint32 rfl) field dec acc
  case sint64 => show GoSrc.DecTypes.rRepeatedSint64 _ _ _ = _; rw [rRepeatedSint64_shape]; exact gRepeated_eq .sint64 rfl (by decide) consumeVarint (convV .sint64) (unS .sint64) (hcVarint true .sint64 rfl) field dec acc
  case fixed32 => show GoSrc.DecTypes.rRepeatedFixed32 _ _ _ = _; rw [rRepeatedFixed32_shape]; exact gRepeated_eq .fixed32 rfl (by decide) consumeFixed32 (convV .fixed32) (unS .fixed32) (hcFixed32 true .fixed32 rfl) field dec acc
  case sfixed32 => show GoSrc.DecTypes.rRepeatedSfixed32 _ _ _ = _; rw [rRepeatedSfixed32_shape]; exact gRepeated_eq .sfixed32 rfl (by decide) consumeFixed32 (convV .sfixed32) (unS .sfixed32) (hcFixed32 true .sfixed32 rfl) field dec acc
  case float => show GoSrc.DecTypes.rRepeatedFloat _ _ _ = _; rw [rRepeatedFloat_shape]; exact gRepeated_eq .float rfl (by decide) consumeFixed32 (convV .float) (unS .float) (hcFixed32 true .float rfl) field dec acc
  case fixed64 => show GoSrc.DecTypes.rRepeatedFixed64 _ _ _ = _; rw [rRepeatedFixed64_shape]; exact gRepeated_eq .fixed64 rfl (by decide) consumeFixed64 (convV .fixed64) (unS .fixed64) (hcFixed64 true .fixed64 rfl) field dec acc
  case sfixed64 => show GoSrc.DecTypes.rRepeatedSfixed64 _ _ _ = _; rw [rRepeatedSfixed64_shape]; exact gRepeated_eq .sfixed64 rfl (by decide) consumeFixed64 (convV .sfixed64) (unS .sfixed64) (hcFixed64 true .sfixed64 rfl) field dec acc
  case double => show GoSrc.DecTypes.rRepeatedDouble _ _ _ = _; rw [rRepeatedDouble_shape]; exact gRepeated_eq .double rfl (by decide) consumeFixed64 (convV .double) (unS .double) (hcFixed64 true .double rfl) field dec acc
  case string => show GoSrc.DecTypes.rRepeatedString _ _ _ = _; rw [rRepeatedString_shape]; exact gRepU_eq .string rfl field dec acc
  case bytes => show GoSrc.DecTypes.rRepeatedBytes _ _ _ = _; rw [rRepeatedBytes_shape]; exact gRepU_eq .bytes rfl field dec acc

/-- the translated readers cover decoder_types.go exactly: 15 kinds × {singular, repeated} -/
theorem names_expected : GoSrc.DecTypes.names =
    ["rBool", "rBytes", "rDouble", "rFixed32", "rFixed64", "rFloat", "rInt32", "rInt64",
     "rRepeatedBool", "rRepeatedBytes", "rRepeatedDouble", "rRepeatedFixed32", "rRepeatedFixed64", "rRepeatedFloat",
     "rRepeatedInt32", "rRepeatedInt64", "rRepeatedSfixed32", "rRepeatedSfixed64", "rRepeatedSint32", "rRepeatedSint64",
     "rRepeatedString", "rRepeatedUint32", "rRepeatedUint64", "rSfixed32", "rSfixed64", "rSint32", "rSint64",
     "rString", "rUint32", "rUint64"] := by decide

end Pico.GoTie.DT
