import PicoModel.GenCode
import PicoProofs.WireLemmas
/-
Task G — totality and memory safety of the decoder (property C04). Kernel-only.

Contract vocabulary
* `OkP r P`          : the computation `r` is `.ok (d', a)` (no panic, fuel sufficed) and `P d'`.
* `Post d d'`        : same frame afterwards — buffer not longer, stack identical.
* `PostS d d'`       : `Post` and an errored/done frame (`pendingField < 0`) stays so.
* `PostF field d d'` : `Post` and the reader for `field` leaves the decoder untouched unless
                       `field` is pending.
* `PassBelow n fn`   : the `Loop` callback contract, for every entry state with `len < n`.
* `CbBelow n fn`     : the weaker contract of callbacks that run right after `pushState`.
-/
namespace Pico.Dec
open Pico.Wire

/-! ## 0. vocabulary -/


def OkP {α : Type} (r : Res (Dec × α)) (P : Dec → Prop) : Prop :=
  ∃ d' a, r = .ok (d', a) ∧ P d'

theorem OkP.intro {α} {P : Dec → Prop} (d' : Dec) (a : α) (h : P d') : OkP (.ok (d', a)) P :=
  ⟨d', a, rfl, h⟩

theorem OkP.mono {α} {r : Res (Dec × α)} {P Q : Dec → Prop} (h : OkP r P) (hPQ : ∀ d, P d → Q d) :
    OkP r Q := by
  obtain ⟨d', a, e, hp⟩ := h
  exact ⟨d', a, e, hPQ _ hp⟩

theorem OkP.bind {α β} {r : Res (Dec × α)} {f : Dec × α → Res (Dec × β)} {P Q : Dec → Prop}
    (h : OkP r P) (hf : ∀ d' a, P d' → OkP (f (d', a)) Q) : OkP (r >>= f) Q := by
  obtain ⟨d', a, e, hp⟩ := h
  subst e
  exact hf d' a hp

/-- post-processing the user state only -/
theorem OkP.map {α β} {r : Res (Dec × α)} {g : Dec × α → β} {P : Dec → Prop}
    (h : OkP r P) : OkP (r >>= fun x => pure (x.1, g x)) P := by
  obtain ⟨d', a, e, hp⟩ := h
  subst e
  exact ⟨d', g (d', a), rfl, hp⟩

structure Post (d d' : Dec) : Prop where
  len_le : d'.cur.buffer.length ≤ d.cur.buffer.length
  stack_eq : d'.stack = d.stack

structure PostS (d d' : Dec) : Prop extends Post d d' where
  neg : d.cur.pendingField < 0 → d'.cur.pendingField < 0

structure PostF (field : Int) (d d' : Dec) : Prop extends Post d d' where
  skip : field ≠ d.cur.pendingField → d' = d

theorem Post.refl (d : Dec) : Post d d := ⟨Nat.le_refl _, rfl⟩
theorem PostS.refl (d : Dec) : PostS d d := ⟨Post.refl d, id⟩
theorem PostF.refl (field : Int) (d : Dec) : PostF field d d := ⟨Post.refl d, fun _ => rfl⟩

theorem Post.trans {a b c : Dec} (h1 : Post a b) (h2 : Post b c) : Post a c :=
  ⟨Nat.le_trans h2.len_le h1.len_le, h2.stack_eq.trans h1.stack_eq⟩

theorem PostS.trans {a b c : Dec} (h1 : PostS a b) (h2 : PostS b c) : PostS a c :=
  ⟨h1.toPost.trans h2.toPost, fun h => h2.neg (h1.neg h)⟩

theorem PostF.toPostS {field : Int} {d d' : Dec} (hf : 0 ≤ field) (h : PostF field d d') :
    PostS d d' :=
  ⟨h.toPost, fun hneg => by
    have : d' = d := h.skip (by intro e; omega)
    rw [this]; exact hneg⟩

def PassBelow {σ} (n : Nat) (fn : DecM σ) : Prop :=
  ∀ d s, d.cur.buffer.length < n → OkP (fn d s) (PostS d)

def CbBelow {σ} (n : Nat) (fn : DecM σ) : Prop :=
  ∀ d s, d.cur.buffer.length < n → OkP (fn d s) (Post d)

theorem PassBelow.mono {σ} {n m : Nat} {fn : DecM σ} (h : PassBelow n fn) (hm : m ≤ n) :
    PassBelow m fn := fun d s hd => h d s (Nat.lt_of_lt_of_le hd hm)

theorem PassBelow.toCb {σ} {n : Nat} {fn : DecM σ} (h : PassBelow n fn) : CbBelow n fn :=
  fun d s hd => (h d s hd).mono fun _ hp => hp.toPost

/-! ## 1. slices, `fail`, `nextField` -/

theorem sliceFrom_ok (b : Bytes) (n : Int) (h0 : 0 ≤ n) (h1 : n ≤ b.length) :
    sliceFrom b n = .ok (b.drop n.toNat) := by
  simp [sliceFrom, h0, h1]

theorem sliceTo_ok (b : Bytes) (n : Int) (h0 : 0 ≤ n) (h1 : n ≤ b.length) :
    sliceTo b n = .ok (b.take n.toNat) := by
  simp [sliceTo, h0, h1]

@[simp] theorem fail_len (d : Dec) (f : Int) (m : String) : (fail d f m).cur.buffer.length = d.cur.buffer.length := rfl
@[simp] theorem fail_stack (d : Dec) (f : Int) (m : String) : (fail d f m).stack = d.stack := rfl
@[simp] theorem fail_pf (d : Dec) (f : Int) (m : String) : (fail d f m).cur.pendingField = -1 := rfl

theorem fail_postS (d : Dec) (f : Int) (m : String) : PostS d (fail d f m) :=
  ⟨⟨Nat.le_refl _, rfl⟩, fun _ => by simp⟩

/-- the state `nextField` produces when `advance` is in range -/
def nextFieldState (d : Dec) (advance : Int) : Dec :=
  let b := d.cur.buffer.drop advance.toNat
  let d1 : Dec := { d with cur := { d.cur with buffer := b } }
  if b.length = 0 then { d1 with cur := { d1.cur with pendingField := fieldDecodingDone } }
  else
    let t := consumeTag b
    if t.2.2 < 0 ∨ !numberIsValid t.1 then fail d1 0 "failed to parse"
    else { d1 with cur := ⟨t.1, t.2.1, b.drop t.2.2.toNat⟩ }

/-- exact description of `nextField` -/
theorem nextField_eq (d : Dec) (advance : Int) :
    nextField d advance =
      .ok (if advance < 0 ∨ advance > d.cur.buffer.length then fail d 0 "advance outside buffer"
           else nextFieldState d advance) := by
  unfold nextField
  by_cases h : advance < 0 ∨ advance > d.cur.buffer.length
  · simp only [h, ↓reduceIte]
  · simp only [h, ↓reduceIte]
    have h0 : 0 ≤ advance := by omega
    have h1 : advance ≤ d.cur.buffer.length := by omega
    rw [sliceFrom_ok _ _ h0 h1]
    simp only [Res.bind_ok, nextFieldState]
    by_cases hl : (List.drop advance.toNat d.cur.buffer).length = 0
    · simp only [hl, ↓reduceIte]; rfl
    · simp only [hl, ↓reduceIte]
      by_cases ht : (consumeTag (List.drop advance.toNat d.cur.buffer)).2.2 < 0 ∨
          (!numberIsValid (consumeTag (List.drop advance.toNat d.cur.buffer)).1) = true
      · simp only [ht, ↓reduceIte]; rfl
      · simp only [ht, ↓reduceIte]
        have hp := consumeTag_progress (List.drop advance.toNat d.cur.buffer) (by omega)
        rw [sliceFrom_ok _ _ (by omega) hp.2.1]
        rfl

theorem nextField_inrange (d : Dec) (advance : Int) (h0 : 0 ≤ advance) (h1 : advance ≤ d.cur.buffer.length) :
    nextField d advance = .ok (nextFieldState d advance) := by
  rw [nextField_eq]
  have : ¬ (advance < 0 ∨ advance > d.cur.buffer.length) := by omega
  simp only [this, ↓reduceIte]

theorem nextFieldState_stack (d : Dec) (adv : Int) : (nextFieldState d adv).stack = d.stack := by
  unfold nextFieldState
  simp only
  split
  · rfl
  · split <;> rfl

theorem nextFieldState_len (d : Dec) (adv : Int) (h0 : 0 ≤ adv) (h1 : adv ≤ d.cur.buffer.length) :
    (nextFieldState d adv).cur.buffer.length + adv ≤ d.cur.buffer.length ∧
      (pendingValid (nextFieldState d adv) = true → (nextFieldState d adv).cur.buffer.length + adv + 1 ≤ d.cur.buffer.length) := by
  have hdrop : ((d.cur.buffer.drop adv.toNat).length : Int) + adv = d.cur.buffer.length := by
    rw [List.length_drop]; omega
  unfold nextFieldState
  simp only
  split
  · refine ⟨?_, ?_⟩
    · show ((d.cur.buffer.drop adv.toNat).length : Int) + adv ≤ _; omega
    · intro hv; simp [pendingValid, numberIsValid, fieldDecodingDone] at hv
  · split
    · refine ⟨?_, ?_⟩
      · show ((d.cur.buffer.drop adv.toNat).length : Int) + adv ≤ _; omega
      · intro hv; simp [pendingValid, numberIsValid, fail, fieldDecodingErrored] at hv
    · rename_i ht
      have hp := consumeTag_progress (d.cur.buffer.drop adv.toNat) (by omega)
      have : (((d.cur.buffer.drop adv.toNat).drop (consumeTag (d.cur.buffer.drop adv.toNat)).2.2.toNat).length : Int)
          + (consumeTag (d.cur.buffer.drop adv.toNat)).2.2 = (d.cur.buffer.drop adv.toNat).length := by
        rw [List.length_drop]; omega
      refine ⟨?_, fun _ => ?_⟩
      · show (((d.cur.buffer.drop adv.toNat).drop (consumeTag (d.cur.buffer.drop adv.toNat)).2.2.toNat).length : Int) + adv ≤ _
        omega
      · show (((d.cur.buffer.drop adv.toNat).drop (consumeTag (d.cur.buffer.drop adv.toNat)).2.2.toNat).length : Int) + adv + 1 ≤ _
        omega

/-- `nextField` never panics; frame facts -/
theorem nextField_ok (d : Dec) (adv : Int) :
    ∃ d', nextField d adv = .ok d' ∧ d'.stack = d.stack ∧ d'.cur.buffer.length ≤ d.cur.buffer.length ∧
      (0 ≤ adv → adv ≤ d.cur.buffer.length →
        (d'.cur.buffer.length : Int) + adv ≤ d.cur.buffer.length ∧ (pendingValid d' = true → (d'.cur.buffer.length : Int) + adv + 1 ≤ d.cur.buffer.length)) ∧
      (¬ (0 ≤ adv ∧ adv ≤ d.cur.buffer.length) → d' = fail d 0 "advance outside buffer") := by
  by_cases h : 0 ≤ adv ∧ adv ≤ d.cur.buffer.length
  · refine ⟨_, nextField_inrange d adv h.1 h.2, nextFieldState_stack d adv, ?_, fun _ _ => nextFieldState_len d adv h.1 h.2, fun hn => absurd h hn⟩
    have := (nextFieldState_len d adv h.1 h.2).1
    omega
  · refine ⟨fail d 0 "advance outside buffer", ?_, rfl, Nat.le_refl _, fun h0 h1 => absurd ⟨h0, h1⟩ h, fun _ => rfl⟩
    rw [nextField_eq]
    have : adv < 0 ∨ adv > d.cur.buffer.length := by omega
    simp only [this, ↓reduceIte]

/-- the form used by every reader: after a non-negative advance the frame is errored or shorter -/
theorem nextField_step (d : Dec) (adv : Int) (h1 : 1 ≤ adv) :
    ∃ d', nextField d adv = .ok d' ∧ d'.stack = d.stack ∧ d'.cur.buffer.length ≤ d.cur.buffer.length ∧
      (d'.cur.pendingField < 0 ∨ d'.cur.buffer.length < d.cur.buffer.length) := by
  obtain ⟨d', e, hs, hl, hin, hout⟩ := nextField_ok d adv
  refine ⟨d', e, hs, hl, ?_⟩
  by_cases h : 0 ≤ adv ∧ adv ≤ d.cur.buffer.length
  · right; have := (hin h.1 h.2).1; omega
  · left; rw [hout h]; simp

/-! ## 2. typed readers -/

theorem PostF.of_post {field : Int} {d d' : Dec} (h : Post d d') (hm : field = d.cur.pendingField) :
    PostF field d d' := ⟨h, fun hne => absurd hm hne⟩

theorem fail_postF (d : Dec) (field f : Int) (m : String) (hm : field = d.cur.pendingField) :
    PostF field d (fail d f m) := PostF.of_post (fail_postS d f m).toPost hm

theorem consumeScalar_progress (rep : Bool) (k : Scalar) (b : Bytes)
    (h : 0 ≤ (consumeScalar rep k b).2) :
    1 ≤ (consumeScalar rep k b).2 ∧ (consumeScalar rep k b).2 ≤ b.length := by
  unfold consumeScalar at h ⊢
  split at h
  · exact consumeVarint_progress b h
  · have := consumeFixed32_progress b h; simp only; omega
  · have := consumeFixed64_progress b h; simp only; omega
  · have := consumeBytes_progress b h; simp only; omega

/-- `dec.X(field, &v)` never panics -/
theorem readSingle_ok (k : Scalar) (field : Int) (d : Dec) :
    OkP (readSingle k field d) (PostF field d) := by
  unfold readSingle
  split
  · exact OkP.intro _ _ (PostF.refl _ _)
  · rename_i hm
    have hm' : field = d.cur.pendingField := Decidable.of_not_not hm
    split
    · exact OkP.intro _ _ (fail_postF _ _ _ _ hm')
    · simp only
      split
      · exact OkP.intro _ _ (fail_postF _ _ _ _ hm')
      · obtain ⟨d', e, hs, hl, _⟩ := nextField_ok d (consumeScalar false k d.cur.buffer).2
        rw [e]
        exact ⟨d', _, rfl, PostF.of_post ⟨hl, hs⟩ hm'⟩

/-- a successful singular read of the pending field makes progress (or errors) -/
theorem readSingle_progress (k : Scalar) (field : Int) (d : Dec)
    (hm : field = d.cur.pendingField) :
    OkP (readSingle k field d)
      (fun d' => d'.cur.pendingField < 0 ∨ d'.cur.buffer.length < d.cur.buffer.length) := by
  unfold readSingle
  simp only [hm, ne_eq, not_true_eq_false, ↓reduceIte]
  split
  · exact OkP.intro _ _ (Or.inl (by simp))
  · split
    · exact OkP.intro _ _ (Or.inl (by simp))
    · rename_i hr
      have hp := consumeScalar_progress false k d.cur.buffer (by omega)
      obtain ⟨d', e, _, _, hstep⟩ := nextField_step d _ hp.1
      rw [e]
      exact ⟨d', _, rfl, hstep⟩

theorem readPacked_ok (k : Scalar) : ∀ (fuel : Nat) (packed : Bytes) (acc : List Enc.SVal),
    packed.length + 1 ≤ fuel → ∃ r, readPacked k fuel packed acc = .ok r := by
  intro fuel
  induction fuel with
  | zero => intro packed acc h; omega
  | succ f ih =>
    intro packed acc h
    unfold readPacked
    split
    · exact ⟨_, rfl⟩
    · simp only
      split
      · exact ⟨_, rfl⟩
      · rename_i hl hr
        have hp := consumeScalar_progress true k packed (by omega)
        rw [sliceFrom_ok _ _ (by omega) hp.2]
        simp only [Res.bind_ok]
        apply ih
        rw [List.length_drop]; omega

theorem packedEnum_ok : ∀ (fuel : Nat) (packed : Bytes) (acc : List Nat),
    packed.length + 1 ≤ fuel → ∃ r, readRepeatedEnumN.packedEnum fuel packed acc = .ok r := by
  intro fuel
  induction fuel with
  | zero => intro packed acc h; omega
  | succ f ih =>
    intro packed acc h
    unfold readRepeatedEnumN.packedEnum
    split
    · exact ⟨_, rfl⟩
    · simp only
      split
      · exact ⟨_, rfl⟩
      · rename_i hl hr
        have hp := consumeVarint_progress packed (by omega)
        rw [sliceFrom_ok _ _ (by omega) hp.2]
        simp only [Res.bind_ok]
        apply ih
        rw [List.length_drop]; omega

/-- `dec.RepeatedX(field, &vs)`: fuel `len+2` suffices (every iteration on the pending field
consumes at least one byte or errors). Needs `0 ≤ field`: the error marker `-1` must not be a
field number. -/
theorem readRepeatedN_ok (k : Scalar) (field : Int) (hf : 0 ≤ field) :
    ∀ (fuel : Nat) (d : Dec) (acc : List Enc.SVal), 1 ≤ fuel →
      (field = d.cur.pendingField → d.cur.buffer.length + 2 ≤ fuel) →
      OkP (readRepeatedN k field fuel d acc) (PostF field d) := by
  intro fuel
  induction fuel with
  | zero => intro d acc h; omega
  | succ f ih =>
    intro d acc _ h2
    unfold readRepeatedN
    split
    · exact OkP.intro _ _ (PostF.refl _ _)
    · rename_i hm
      have hm' : field = d.cur.pendingField := Decidable.of_not_not hm
      have hL := h2 hm'
      split
      · simp only
        split
        · exact OkP.intro _ _ (fail_postF _ _ _ _ hm')
        · rename_i hr
          have hp := consumeBytes_progress d.cur.buffer (by omega)
          obtain ⟨⟨xs, bad⟩, er⟩ := readPacked_ok k _ (consumeBytes d.cur.buffer).1 [] (Nat.le_refl _)
          rw [er]
          simp only [Res.bind_ok]
          split
          · exact OkP.intro _ _ (fail_postF _ _ _ _ hm')
          · obtain ⟨d1, e, hs, hl, hstep⟩ := nextField_step d _ hp.1
            rw [e]
            simp only [Res.bind_ok]
            have := ih d1 (acc ++ xs) (by omega) (by intro e1; omega)
            exact this.mono fun d' hp' => PostF.of_post (Post.trans ⟨hl, hs⟩ hp'.toPost) hm'
      · split
        · simp only
          split
          · exact OkP.intro _ _ (fail_postF _ _ _ _ hm')
          · rename_i hr
            have hp := consumeScalar_progress true k d.cur.buffer (by omega)
            obtain ⟨d1, e, hs, hl, hstep⟩ := nextField_step d _ hp.1
            rw [e]
            simp only [Res.bind_ok]
            have := ih d1 (acc ++ [(consumeScalar true k d.cur.buffer).1]) (by omega) (by intro e1; omega)
            exact this.mono fun d' hp' => PostF.of_post (Post.trans ⟨hl, hs⟩ hp'.toPost) hm'
        · exact OkP.intro _ _ (fail_postF _ _ _ _ hm')

theorem readRepeated_ok (k : Scalar) (field : Int) (hf : 0 ≤ field) (d : Dec) (acc : List Enc.SVal) :
    OkP (readRepeated k field d acc) (PostF field d) :=
  readRepeatedN_ok k field hf _ d acc (by omega) (fun _ => Nat.le_refl _)

theorem readRepeatedEnumN_ok (field : Int) (hf : 0 ≤ field) :
    ∀ (fuel : Nat) (d : Dec) (acc : List Nat), 1 ≤ fuel →
      (field = d.cur.pendingField → d.cur.buffer.length + 2 ≤ fuel) →
      OkP (readRepeatedEnumN field fuel d acc) (PostF field d) := by
  intro fuel
  induction fuel with
  | zero => intro d acc h; omega
  | succ f ih =>
    intro d acc _ h2
    unfold readRepeatedEnumN
    split
    · exact OkP.intro _ _ (PostF.refl _ _)
    · rename_i hm
      have hm' : field = d.cur.pendingField := Decidable.of_not_not hm
      have hL := h2 hm'
      split
      · simp only
        split
        · exact OkP.intro _ _ (fail_postF _ _ _ _ hm')
        · rename_i hr
          have hp := consumeBytes_progress d.cur.buffer (by omega)
          obtain ⟨⟨xs, bad⟩, er⟩ := packedEnum_ok _ (consumeBytes d.cur.buffer).1 [] (Nat.le_refl _)
          rw [er]
          simp only [Res.bind_ok]
          split
          · exact OkP.intro _ _ (fail_postF _ _ _ _ hm')
          · obtain ⟨d1, e, hs, hl, hstep⟩ := nextField_step d _ hp.1
            rw [e]
            simp only [Res.bind_ok]
            have := ih d1 (acc ++ xs) (by omega) (by intro e1; omega)
            exact this.mono fun d' hp' => PostF.of_post (Post.trans ⟨hl, hs⟩ hp'.toPost) hm'
      · split
        · simp only
          split
          · exact OkP.intro _ _ (fail_postF _ _ _ _ hm')
          · rename_i hr
            have hp := consumeVarint_progress d.cur.buffer (by omega)
            obtain ⟨d1, e, hs, hl, hstep⟩ := nextField_step d _ hp.1
            rw [e]
            simp only [Res.bind_ok]
            have := ih d1 (acc ++ [(consumeVarint d.cur.buffer).1 % 4294967296]) (by omega) (by intro e1; omega)
            exact this.mono fun d' hp' => PostF.of_post (Post.trans ⟨hl, hs⟩ hp'.toPost) hm'
        · exact OkP.intro _ _ (fail_postF _ _ _ _ hm')

theorem readRepeatedEnum_ok (field : Int) (hf : 0 ≤ field) (d : Dec) (acc : List Nat) :
    OkP (readRepeatedEnum field d acc) (PostF field d) :=
  readRepeatedEnumN_ok field hf _ d acc (by omega) (fun _ => Nat.le_refl _)

/-! ## 3. `UnrecognizedFields`, `Loop` -/

theorem PostS.of_post {d d' : Dec} (h : Post d d') (hnn : 0 ≤ d.cur.pendingField) : PostS d d' :=
  ⟨h, fun hneg => by omega⟩

/-- `nextField` as a total function -/
def nextFieldD (d : Dec) (advance : Int) : Dec :=
  if advance < 0 ∨ advance > d.cur.buffer.length then fail d 0 "advance outside buffer"
  else nextFieldState d advance

theorem nextField_eqD (d : Dec) (advance : Int) : nextField d advance = .ok (nextFieldD d advance) :=
  nextField_eq d advance

/-- after any non-zero advance (negative = error code) the frame is errored or strictly shorter -/
theorem nextFieldD_step (d : Dec) (adv : Int) (h : adv ≠ 0) :
    (nextFieldD d adv).stack = d.stack ∧ (nextFieldD d adv).cur.buffer.length ≤ d.cur.buffer.length ∧
      ((nextFieldD d adv).cur.pendingField < 0 ∨
        (nextFieldD d adv).cur.buffer.length < d.cur.buffer.length) := by
  obtain ⟨d', e, hs, hl, hin, hout⟩ := nextField_ok d adv
  rw [nextField_eqD] at e
  cases e
  refine ⟨hs, hl, ?_⟩
  by_cases hr : 0 ≤ adv ∧ adv ≤ d.cur.buffer.length
  · right; have := (hin hr.1 hr.2).1; omega
  · left; rw [hout hr]; simp

theorem unrecognizedFieldsN_ok (exclude : Nat) : ∀ (fuel : Nat) (d : Dec) (out : Bytes), 1 ≤ fuel →
    (0 ≤ d.cur.pendingField → d.cur.buffer.length + 2 ≤ fuel) →
    OkP (unrecognizedFieldsN exclude fuel d out) (PostS d) := by
  intro fuel
  induction fuel with
  | zero => intro d out h; omega
  | succ f ih =>
    intro d out _ h2
    unfold unrecognizedFieldsN
    simp only
    split
    · rename_i hc
      have hnn : 0 ≤ d.cur.pendingField := hc.1
      have hL := h2 hnn
      split
      · exact OkP.intro _ _ (fail_postS _ _ _)
      · rename_i hr
        have hp := consumeFieldValue_progress d.cur.pendingField d.cur.pendingWire d.cur.buffer (by omega)
        rw [sliceTo_ok _ _ (by omega) hp.2]
        simp only [Res.bind_ok]
        obtain ⟨d1, e, hs, hl, hstep⟩ := nextField_step d _ hp.1
        rw [e]
        simp only [Res.bind_ok]
        have := ih d1 (out ++ tag d.cur.pendingField d.cur.pendingWire ++
          List.take (consumeFieldValue d.cur.pendingField d.cur.pendingWire d.cur.buffer).toNat d.cur.buffer)
          (by omega) (by intro e1; omega)
        exact this.mono fun d' hp' => PostS.of_post (Post.trans ⟨hl, hs⟩ hp'.toPost) hnn
    · exact OkP.intro _ _ (PostS.refl _)

theorem unrecognizedFields_ok (exclude : Nat) (d : Dec) (out : Bytes) :
    OkP (unrecognizedFields exclude d out) (PostS d) :=
  unrecognizedFieldsN_ok exclude _ d out (by omega) (fun _ => Nat.le_refl _)

/-- the state with which `Loop` starts its next pass, given the entry state `d` of this pass and the
state `d1` the callback returned (with a valid pending field) -/
def loopNext (d d1 : Dec) : Dec :=
  if d1.cur.buffer.length = d.cur.buffer.length then
    nextFieldD d1 (consumeFieldValue d1.cur.pendingField d1.cur.pendingWire d1.cur.buffer)
  else d1

theorem loopN_stop {σ} (fn : DecM σ) (f : Nat) (d d1 : Dec) (s s1 : σ)
    (h : fn d s = .ok (d1, s1)) (hv : pendingValid d1 = false) :
    loopN fn (f + 1) d s = .ok (d1, s1) := by
  unfold loopN
  simp only [h, Res.bind_ok, hv, Bool.not_false, ↓reduceIte, Res.pure_eq]

theorem loopN_continue {σ} (fn : DecM σ) (f : Nat) (d d1 : Dec) (s s1 : σ)
    (h : fn d s = .ok (d1, s1)) (hv : pendingValid d1 = true) :
    loopN fn (f + 1) d s = loopN fn f (loopNext d d1) s1 := by
  conv => lhs; unfold loopN
  simp only [h, Res.bind_ok, hv, Bool.not_true, Bool.false_eq_true, ↓reduceIte, loopNext]
  split
  · rw [nextField_eqD]; rfl
  · rfl

/-- a continuing pass of `Loop` ends errored or strictly shorter (and in the same frame) -/
theorem loopN_progress (d d1 : Dec) (hl : d1.cur.buffer.length ≤ d.cur.buffer.length) :
    (loopNext d d1).stack = d1.stack ∧
      (loopNext d d1).cur.buffer.length ≤ d1.cur.buffer.length ∧
      ((loopNext d d1).cur.pendingField < 0 ∨
        (loopNext d d1).cur.buffer.length < d.cur.buffer.length) := by
  unfold loopNext
  split
  · rename_i he
    have hn : consumeFieldValue d1.cur.pendingField d1.cur.pendingWire d1.cur.buffer ≠ 0 := by
      intro h0
      have := consumeFieldValue_progress d1.cur.pendingField d1.cur.pendingWire d1.cur.buffer (by omega)
      omega
    have := nextFieldD_step d1 _ hn
    refine ⟨this.1, this.2.1, ?_⟩
    rw [← he]; exact this.2.2
  · exact ⟨rfl, Nat.le_refl _, Or.inr (by omega)⟩

theorem not_pendingValid_of_neg (d : Dec) (h : d.cur.pendingField < 0) : pendingValid d = false := by
  simp only [pendingValid, numberIsValid, Bool.and_eq_false_imp, decide_eq_true_eq, decide_eq_false_iff_not]
  intro; omega

/-- `Loop` body: with a callback meeting the pass contract, fuel `len+2` suffices -/
theorem loopN_ok {σ} (fn : DecM σ) (n : Nat) (hfn : PassBelow n fn) :
    ∀ (fuel : Nat) (d : Dec) (s : σ), d.cur.buffer.length < n → 1 ≤ fuel →
      (0 ≤ d.cur.pendingField → d.cur.buffer.length + 2 ≤ fuel) →
      OkP (loopN fn fuel d s) (Post d) := by
  intro fuel
  induction fuel with
  | zero => intro d s _ h; omega
  | succ f ih =>
    intro d s hlt _ h2
    obtain ⟨d1, s1, e1, hp1⟩ := hfn d s hlt
    cases hv : pendingValid d1 with
    | false => rw [loopN_stop fn f d d1 s s1 e1 hv]; exact OkP.intro _ _ hp1.toPost
    | true =>
      rw [loopN_continue fn f d d1 s s1 e1 hv]
      have hnn : 0 ≤ d.cur.pendingField := by
        apply Decidable.byContradiction
        intro hneg
        have := not_pendingValid_of_neg d1 (hp1.neg (by omega))
        rw [this] at hv; cases hv
      have hL := h2 hnn
      have hpr := loopN_progress d d1 hp1.len_le
      have hle := hp1.len_le
      have := ih (loopNext d d1) s1 (by omega) (by omega) (by intro e; omega)
      exact this.mono fun d' hp' =>
        Post.trans hp1.toPost (Post.trans ⟨hpr.2.1, hpr.1⟩ hp')

/-- `dec.Loop(fn)` -/
theorem loop_ok {σ} (fn : DecM σ) (n : Nat) (hfn : PassBelow n fn) : CbBelow n (loop fn) := by
  intro d s hlt
  unfold loop
  split
  · obtain ⟨d1, e, hs, hl, _⟩ := nextField_ok d 0
    rw [e]
    simp only [Res.bind_ok, Res.pure_eq]
    have := loopN_ok fn n hfn ({ d1 with init := true }.cur.buffer.length + 2) { d1 with init := true } s
      (by show d1.cur.buffer.length < n; omega) (by omega) (fun _ => Nat.le_refl _)
    exact this.mono fun d' hp' => Post.trans (b := { d1 with init := true }) ⟨hl, hs⟩ hp'
  · simp only [Res.pure_eq, Res.bind_ok]
    exact loopN_ok fn n hfn _ d s hlt (by omega) (fun _ => Nat.le_refl _)

/-! ## 4. `Message`, `RepeatedMessage` -/

theorem pushState_ok (d : Dec) (msg : Bytes) :
    ∃ d', pushState d msg = .ok d' ∧ d'.stack = d.stack ++ [d.cur] ∧ d'.cur.buffer.length ≤ msg.length := by
  obtain ⟨d', e, hs, hl, _⟩ := nextField_ok { d with stack := d.stack ++ [d.cur], cur := ⟨0, 0, msg⟩ } 0
  exact ⟨d', e, hs, hl⟩

theorem popState_eq (d : Dec) (st : List Frame) (f : Frame) (h : d.stack = st ++ [f]) :
    popState d = { d with cur := f, stack := st } := by
  unfold popState
  rw [h]
  simp

/-- the frame part shared by `Message` and `RepeatedMessage`: push, callback, pop, advance, then a
continuation `K` -/
theorem nested_ok {σ β} (fn : DecM σ) (n : Nat) (hfn : CbBelow n fn) (d : Dec) (s : σ)
    (hlt : d.cur.buffer.length < n + 1) (hr : ¬ (consumeBytes d.cur.buffer).2 < 0)
    (K : Dec → σ → Res (Dec × β)) (Q : Dec → Prop)
    (hK : ∀ d4 s4, Post d d4 →
      (d4.cur.pendingField < 0 ∨ d4.cur.buffer.length < d.cur.buffer.length) → OkP (K d4 s4) Q) :
    OkP (do
        let d1 ← pushState d (consumeBytes d.cur.buffer).1
        let (d2, s) ← fn d1 s
        let d3 := popState d2
        let d4 ← nextField d3 (consumeBytes d.cur.buffer).2
        K d4 s : Res (Dec × β)) Q := by
  have hp := consumeBytes_progress d.cur.buffer (by omega)
  obtain ⟨d1, e1, hs1, hl1⟩ := pushState_ok d (consumeBytes d.cur.buffer).1
  rw [e1]
  simp only [Res.bind_ok]
  refine OkP.bind (hfn d1 s (by omega)) ?_
  intro d2 s2 h2
  simp only
  rw [popState_eq d2 d.stack d.cur (by rw [h2.stack_eq, hs1])]
  obtain ⟨d4, e4, hs4, hl4, hstep⟩ := nextField_step { d2 with cur := d.cur, stack := d.stack } _ hp.1
  rw [e4]
  exact hK d4 s2 ⟨hl4, hs4⟩ hstep

/-- `dec.Message(field, fn)` / `dec.PresentMessage(field, fn)` -/
theorem message_ok {σ} (field : Int) (fn : DecM σ) (n : Nat) (hfn : PassBelow n fn) (d : Dec) (s : σ)
    (hlt : d.cur.buffer.length < n + 1) :
    OkP (message field fn d s) (fun d' => PostF field d d' ∧
      (field = d.cur.pendingField →
        d'.cur.pendingField < 0 ∨ d'.cur.buffer.length < d.cur.buffer.length)) := by
  unfold message
  split
  · rename_i hne
    exact OkP.intro _ _ ⟨PostF.refl _ _, fun h => absurd h hne⟩
  · rename_i hm
    have hm' : field = d.cur.pendingField := Decidable.of_not_not hm
    split
    · exact OkP.intro _ _ ⟨fail_postF _ _ _ _ hm', fun _ => Or.inl (by simp)⟩
    · simp only
      split
      · exact OkP.intro _ _ ⟨fail_postF _ _ _ _ hm', fun _ => Or.inl (by simp)⟩
      · rename_i hr
        exact nested_ok (loop fn) n (loop_ok fn n hfn) d s hlt hr (fun d s => pure (d, s)) _
          fun d4 s4 hp4 hstep => OkP.intro _ _ ⟨PostF.of_post hp4 hm', fun _ => hstep⟩

/-- `dec.RepeatedMessage(field, fn)` -/
theorem repeatedMessageN_ok {σ} (field : Int) (hf : 0 ≤ field) (fn : DecM σ) (n : Nat)
    (hfn : CbBelow n fn) :
    ∀ (fuel : Nat) (d : Dec) (s : σ), d.cur.buffer.length < n + 1 → 1 ≤ fuel →
      (field = d.cur.pendingField → d.cur.buffer.length + 2 ≤ fuel) →
      OkP (repeatedMessageN field fn fuel d s) (PostF field d) := by
  intro fuel
  induction fuel with
  | zero => intro d s _ h; omega
  | succ f ih =>
    intro d s hlt _ h2
    unfold repeatedMessageN
    split
    · exact OkP.intro _ _ (PostF.refl _ _)
    · rename_i hm
      have hm' : field = d.cur.pendingField := Decidable.of_not_not hm
      have hL := h2 hm'
      split
      · exact OkP.intro _ _ (fail_postF _ _ _ _ hm')
      · simp only
        split
        · exact OkP.intro _ _ (fail_postF _ _ _ _ hm')
        · rename_i hr
          refine nested_ok fn n hfn d s hlt hr (repeatedMessageN field fn f) _ ?_
          intro d4 s4 hp4 hstep
          have hl4 := hp4.len_le
          have := ih d4 s4 (by omega) (by omega) (by intro e; omega)
          exact this.mono fun d' hp' => PostF.of_post (Post.trans hp4 hp'.toPost) hm'

theorem repeatedMessage_ok {σ} (field : Int) (hf : 0 ≤ field) (fn : DecM σ) (n : Nat)
    (hfn : CbBelow n fn) (d : Dec) (s : σ) (hlt : d.cur.buffer.length < n + 1) :
    OkP (repeatedMessage field fn d s) (PostF field d) :=
  repeatedMessageN_ok field hf fn n hfn _ d s hlt (by omega) (fun _ => Nat.le_refl _)

end Pico.Dec

/-! ## 5. generated code -/
namespace Pico.Gen2
open Pico.Wire Pico.Enc Pico.Dec

/-- post-condition of the "one occurrence" readers: frame facts, untouched unless pending, and
progress when pending -/
def PostOne (num : Int) (d d' : Dec) : Prop :=
  PostF num d d' ∧ (num = d.cur.pendingField →
    d'.cur.pendingField < 0 ∨ d'.cur.buffer.length < d.cur.buffer.length)

theorem secNanosPass_ok (d : Dec) (s : Nat × Nat) : OkP (secNanosPass d s) (PostS d) := by
  unfold secNanosPass
  refine OkP.bind ((readSingle_ok .int64 1 d).mono fun _ h => h.toPostS (by omega)) ?_
  intro d1 a h1
  simp only
  refine OkP.bind ((readSingle_ok .int32 2 d1).mono fun _ h => h.toPostS (by omega)) ?_
  intro d2 b h2
  exact OkP.intro _ _ (h1.trans h2)

theorem secNanos_message_ok (field : Int) (d : Dec) (s : Nat × Nat) :
    OkP (Dec.message field secNanosPass d s) (PostOne field d) :=
  message_ok field secNanosPass d.cur.buffer.length (fun d s _ => secNanosPass_ok d s) d s
    (Nat.lt_succ_self _)

theorem tsDecode_ok (field : Int) (d : Dec) : OkP (tsDecode field d) (PostOne field d) := by
  unfold tsDecode
  split
  · rename_i hne
    exact OkP.intro _ _ ⟨PostF.refl _ _, fun h => absurd h.symm hne⟩
  · refine OkP.bind (secNanos_message_ok field d (0, 0)) ?_
    intro d1 s1 h1
    exact OkP.intro _ _ h1

theorem durDecode_ok (field : Int) (d : Dec) : OkP (durDecode field d) (PostOne field d) := by
  unfold durDecode
  split
  · rename_i hne
    exact OkP.intro _ _ ⟨PostF.refl _ _, fun h => absurd h.symm hne⟩
  · refine OkP.bind (secNanos_message_ok field d (0, 0)) ?_
    intro d1 s1 h1
    exact OkP.intro _ _ h1

theorem castLoop_ok (one : Dec → Res (Dec × Option Nat)) (ptr : Bool) (zeroC : Nat) (num : Int)
    (hf : 0 ≤ num) (hone : ∀ d, OkP (one d) (PostOne num d)) :
    ∀ (fuel : Nat) (d : Dec) (xs : List Val), 1 ≤ fuel →
      (num = d.cur.pendingField → d.cur.buffer.length + 2 ≤ fuel) →
      OkP (castLoop one ptr zeroC fuel num d xs) (PostF num d) := by
  intro fuel
  induction fuel with
  | zero => intro d xs h; omega
  | succ f ih =>
    intro d xs _ h2
    unfold castLoop
    split
    · exact OkP.intro _ _ (PostF.refl _ _)
    · rename_i hm
      have hm' : num = d.cur.pendingField := (Decidable.of_not_not hm).symm
      have hL := h2 hm'
      refine OkP.bind (hone d) ?_
      intro d1 a h1
      simp only
      have hl1 := h1.1.len_le
      have hstep := h1.2 hm'
      have := ih d1 (xs ++ [if ptr = true then Val.some (Val.num (match a with | some c => c | none => zeroC))
        else Val.num (match a with | some c => c | none => zeroC)]) (by omega) (by intro e; omega)
      exact this.mono fun d' hp' => PostF.of_post (Post.trans h1.1.toPost hp'.toPost) hm'

theorem mapEntry_ok (k v : Scalar) (d : Dec) (m : Option (List (Val × Val))) :
    OkP (mapEntry k v d m) (Post d) := by
  unfold mapEntry
  simp only
  refine OkP.bind (loop_ok _ (d.cur.buffer.length + 1) ?_ d _ (Nat.lt_succ_self _)) ?_
  · intro d kv _
    refine OkP.bind ((readSingle_ok k 1 d).mono fun _ h => h.toPostS (by omega)) ?_
    intro d1 a h1
    simp only
    refine OkP.bind ((readSingle_ok v 2 d1).mono fun _ h => h.toPostS (by omega)) ?_
    intro d2 b h2
    exact OkP.intro _ _ (h1.trans h2)
  · intro d1 kv h1
    exact OkP.intro _ _ h1

theorem mapDecode_ok (k v : Scalar) (field : Int) (hf : 0 ≤ field) (d : Dec)
    (m : Option (List (Val × Val))) : OkP (mapDecode k v field d m) (PostF field d) :=
  repeatedMessage_ok field hf (mapEntry k v) d.cur.buffer.length
    (fun d s _ => mapEntry_ok k v d s) d m (Nat.lt_succ_self _)

/-- `do let (d, a) ← r; return (d, g a)` -/
theorem OkP.bind_ret {α β} {r : Res (Dec × α)} {f : Dec × α → Res (Dec × β)} {P : Dec → Prop}
    (h : OkP r P) (hf : ∀ d a, ∃ b, f (d, a) = .ok (d, b)) : OkP (r >>= f) P := by
  obtain ⟨d', a, e, hp⟩ := h
  subst e
  obtain ⟨b, eb⟩ := hf d' a
  exact ⟨d', b, eb, hp⟩

theorem decInner_ok (S : Schema) (f : Nat) (ih : ∀ id, PassBelow f (decPass S f id)) (fld : Field)
    (d : Dec) (cur : Val) (hlt : d.cur.buffer.length < f + 1) :
    OkP (decInner S f fld d cur) (PostS d) := by
  have hnum : (0 : Int) ≤ (fld.num : Int) := by omega
  unfold decInner
  simp only
  split
  · -- scalar
    split
    · exact OkP.bind_ret ((readRepeated_ok _ _ hnum d _).mono fun _ h => h.toPostS hnum)
        fun _ _ => ⟨_, rfl⟩
    · split
      · split
        · exact OkP.intro _ _ (PostS.refl _)
        · exact OkP.bind_ret ((readSingle_ok _ _ d).mono fun _ h => h.toPostS hnum)
            fun _ _ => ⟨_, rfl⟩
      · exact OkP.bind_ret ((readSingle_ok _ _ d).mono fun _ h => h.toPostS hnum)
          fun _ _ => ⟨_, rfl⟩
  · -- enum
    split
    · exact OkP.bind_ret ((readRepeatedEnum_ok _ hnum d _).mono fun _ h => h.toPostS hnum)
        fun _ _ => ⟨_, rfl⟩
    · exact OkP.bind_ret ((readSingle_ok _ _ d).mono fun _ h => h.toPostS hnum)
        fun _ _ => ⟨_, rfl⟩
  · -- map
    exact OkP.bind_ret ((mapDecode_ok _ _ _ hnum d _).mono fun _ h => h.toPostS hnum)
      fun _ _ => ⟨_, rfl⟩
  · -- message
    rename_i id _
    have hone : ∀ d : Dec, OkP (if (fld.cat == 1) = true then tsDecode (fld.num : Int) d
        else durDecode (fld.num : Int) d) (PostOne (fld.num : Int) d) := by
      intro d
      split
      · exact tsDecode_ok _ d
      · exact durDecode_ok _ d
    split
    · -- casts
      split
      · exact (castLoop_ok _ _ _ _ hnum hone _ d _ (by omega) (fun _ => Nat.le_refl _)).mono
          fun _ h => h.toPostS hnum
      · split
        · split
          · exact OkP.intro _ _ (PostS.refl _)
          · exact OkP.bind_ret ((hone d).mono fun _ h => h.1.toPostS hnum) fun _ _ => ⟨_, rfl⟩
        · exact OkP.bind_ret ((hone d).mono fun _ h => h.1.toPostS hnum) fun _ _ => ⟨_, rfl⟩
    · split
      · -- repeated message
        refine OkP.bind_ret ((repeatedMessage_ok _ hnum _ f ?_ d _ hlt).mono
          fun _ h => h.toPostS hnum) fun _ _ => ⟨_, rfl⟩
        intro d1 xs h1
        exact OkP.bind_ret (loop_ok _ f (ih id) d1 _ h1) fun _ _ => ⟨_, rfl⟩
      · split
        · -- pointer message
          refine (message_ok _ _ f ?_ d cur hlt).mono fun _ h => h.1.toPostS hnum
          intro d1 c1 h1
          exact OkP.bind_ret (ih id d1 _ h1) fun _ _ => ⟨_, rfl⟩
        · exact (message_ok _ _ f (ih id) d cur hlt).mono fun _ h => h.1.toPostS hnum

theorem decField_ok (S : Schema) (f : Nat) (ih : ∀ id, PassBelow f (decPass S f id))
    (fs : List Field) (i : Nat) (fld : Field)
    (d : Dec) (m : Val) (hlt : d.cur.buffer.length < f + 1) :
    OkP (decField S f fs i fld d m) (PostS d) := by
  unfold decField
  simp only
  split
  · split
    · exact OkP.intro _ _ (PostS.refl _)
    · exact OkP.bind_ret (decInner_ok S f ih _ d _ hlt) fun _ _ => ⟨_, rfl⟩
  · exact OkP.bind_ret (decInner_ok S f ih fld d _ hlt) fun _ _ => ⟨_, rfl⟩

theorem decFields_ok (S : Schema) (f : Nat) (ih : ∀ id, PassBelow f (decPass S f id))
    (fs : List Field) : ∀ (rest : List (Nat × Field)) (d : Dec) (m : Val),
    d.cur.buffer.length < f + 1 → OkP (decFields S f fs rest d m) (PostS d) := by
  intro rest
  induction rest with
  | nil => intro d m _; unfold decFields; exact OkP.intro _ _ (PostS.refl _)
  | cons p rest ihr =>
    intro d m hlt
    obtain ⟨i, fld⟩ := p
    unfold decFields
    refine OkP.bind (decField_ok S f ih fs i fld d m hlt) ?_
    intro d1 m1 h1
    have := h1.len_le
    exact (ihr d1 m1 (by omega)).mono fun _ h => h1.trans h

/-- the generated `Decode` with nesting fuel `fuel` meets the pass contract on every frame whose
buffer is shorter than `fuel` -/
theorem decPass_ok (S : Schema) : ∀ (fuel id : Nat), PassBelow fuel (decPass S fuel id) := by
  intro fuel
  induction fuel with
  | zero => intro id d m h; omega
  | succ f ih =>
    intro id d m hlt
    unfold decPass
    refine OkP.bind (decFields_ok S f ih _ _ d m hlt) ?_
    intro d1 m1 h1
    simp only
    split
    · split
      · refine OkP.bind_ret ((unrecognizedFields_ok _ d1 _).mono fun _ h => h1.trans h)
          fun _ _ => ⟨_, rfl⟩
      · exact OkP.intro _ _ h1
    · exact OkP.intro _ _ h1

/-- **C04**: `picobuf.Unmarshal` never panics, never slices outside its input, and every loop
terminates within its fuel — for every schema, message id, input and starting value. -/
theorem unmarshal_total (S : Schema) (id : Nat) (data : Bytes) (m0 : Val) :
    ∃ d m, unmarshal S id data m0 = .ok (d, m) := by
  obtain ⟨d, m, e, _⟩ := loop_ok _ _ (decPass_ok S (data.length + 1) id) (Dec.new data) m0
    (Nat.lt_succ_self _)
  exact ⟨d, m, e⟩

/-- the frame facts that come with it: the final state has an empty stack and a buffer that is a
part of the input no longer than it -/
theorem unmarshal_frame (S : Schema) (id : Nat) (data : Bytes) (m0 : Val) :
    ∃ d m, unmarshal S id data m0 = .ok (d, m) ∧ d.stack = [] ∧ d.cur.buffer.length ≤ data.length := by
  obtain ⟨d, m, e, hp⟩ := loop_ok _ _ (decPass_ok S (data.length + 1) id) (Dec.new data) m0
    (Nat.lt_succ_self _)
  exact ⟨d, m, e, hp.stack_eq, hp.len_le⟩

end Pico.Gen2

#print axioms Pico.Gen2.unmarshal_total
#print axioms Pico.Gen2.unmarshal_frame
#print axioms Pico.Gen2.decPass_ok
#print axioms Pico.Dec.nextField_eq
#print axioms Pico.Dec.nextField_ok
#print axioms Pico.Dec.readSingle_ok
#print axioms Pico.Dec.readPacked_ok
#print axioms Pico.Dec.readRepeatedN_ok
#print axioms Pico.Dec.readRepeatedEnumN_ok
#print axioms Pico.Dec.unrecognizedFieldsN_ok
#print axioms Pico.Dec.loopN_continue
#print axioms Pico.Dec.loopN_progress
#print axioms Pico.Dec.loopN_ok
#print axioms Pico.Dec.loop_ok
#print axioms Pico.Dec.message_ok
#print axioms Pico.Dec.repeatedMessageN_ok
