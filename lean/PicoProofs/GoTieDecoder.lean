import PicoModel.Gen.GoDecoder
/-
Tie between the statement-level translation of decoder.go (`PicoModel/Gen/GoDecoder.lean`,
regenerated from the Go source on every run) and the hand-written model `PicoModel/Decoder.lean`
about which the decoder theorems (totality, refinement of the specification, …) are proved.
Every theorem is an equation "translated Go function = model function", for all arguments.
-/
namespace Pico

/-- forget part of a result -/
def Res.mapr {α β} (f : α → β) : Res α → Res β
  | .ok a => .ok (f a)
  | .panic w => .panic w
  | .outOfFuel => .outOfFuel

@[simp] theorem Res.mapr_ok {α β} (f : α → β) (a : α) : Res.mapr f (.ok a) = .ok (f a) := rfl
@[simp] theorem Res.mapr_panic {α β} (f : α → β) (w) : Res.mapr f (.panic w : Res α) = .panic w := rfl
@[simp] theorem Res.mapr_oof {α β} (f : α → β) : Res.mapr f (.outOfFuel : Res α) = .outOfFuel := rfl

namespace GoTie
open Pico Pico.Dec Pico.Wire
namespace D

theorem sliceFrom_eq (b : Bytes) (n : Int) : Go.sliceFrom b n = Dec.sliceFrom b n := rfl
theorem sliceTo_eq (b : Bytes) (n : Int) : Go.sliceTo b n = Dec.sliceTo b n := rfl

theorem fieldNumberIsValid_eq (f : Int) : GoSrc.Decoder.fieldNumberIsValid f = numberIsValid f := rfl

theorem pendingField_eq (d : Dec) : GoSrc.Decoder.pendingField d = d.cur.pendingField := rfl

theorem fail_eq (field : Int) (msg : String) (d : Dec) :
    GoSrc.Decoder.fail field msg d = .ok (Dec.fail d field msg) := rfl

theorem Fail_eq (field : Int) (msg : String) (d : Dec) :
    GoSrc.Decoder.Fail field msg d = .ok (Dec.fail d field msg) := rfl

theorem nextField_eq (advance : Int) (d : Dec) :
    GoSrc.Decoder.nextField advance d = Dec.nextField d advance := by
  simp [GoSrc.Decoder.nextField, Dec.nextField, fail_eq, Go.len, sliceFrom_eq, fieldDecodingDone]

theorem pushState_eq (message : Bytes) (d : Dec) :
    GoSrc.Decoder.pushState message d = Dec.pushState d message := by
  simp [GoSrc.Decoder.pushState, Dec.pushState, nextField_eq]

theorem popState_eq (d : Dec) : GoSrc.Decoder.popState d = .ok (Dec.popState d) := by
  unfold GoSrc.Decoder.popState Dec.popState
  rcases List.eq_nil_or_concat d.stack with h | ⟨l, f, h⟩
  · simp [h, fail_eq, Go.len]
  · have hlen : ((l.length : Int) + 1 - 1) = l.length := by omega
    have h0 : ¬ ((l.length : Int) + 1 = 0) := by omega
    have h1 : (l.length : Int) ≤ (l.length : Int) + 1 := by omega
    simp [h, Go.len, Go.index, Go.sliceTo, hlen, h0, h1]

end D
end GoTie
end Pico
