import PicoModel.Gen.GoDecoder
/-
Tie between the statement-level translation of decoder.go (`PicoModel/Gen/GoDecoder.lean`,
regenerated from the Go source on every run) and the hand-written model `PicoModel/Decoder.lean`
about which the decoder theorems (totality, refinement of the specification, …) are proved.
Every theorem is an equation "translated Go function = model function", for all arguments.
-/
namespace Pico

/-- forget part of a result -/
def Res.mapr {α β} (f : α → β) : Res α → Res β
  | .ok a => .ok (f a)
  | .panic w => .panic w
  | .outOfFuel => .outOfFuel

@[simp] theorem Res.mapr_ok {α β} (f : α → β) (a : α) : Res.mapr f (.ok a) = .ok (f a) := rfl
@[simp] theorem Res.mapr_panic {α β} (f : α → β) (w) : Res.mapr f (.panic w : Res α) = .panic w := rfl
@[simp] theorem Res.mapr_oof {α β} (f : α → β) : Res.mapr f (.outOfFuel : Res α) = .outOfFuel := rfl

@[simp] theorem Res.bind_pair_eta {α β} (r : Res (α × β)) :
    (r >>= fun x => Res.ok (x.1, x.2)) = r := by cases r <;> rfl

@[simp] theorem Res.match_pair_eta {α β} (r : Res (α × β)) :
    (match r with
      | Res.ok a => Res.ok (a.fst, a.snd)
      | Res.panic w => Res.panic w
      | Res.outOfFuel => Res.outOfFuel) = r := by cases r <;> rfl

theorem Res.mapr_bind {α β γ} (f : β → γ) (r : Res α) (g : α → Res β) :
    Res.mapr f (r >>= g) = r >>= fun x => Res.mapr f (g x) := by cases r <;> rfl

namespace GoTie
open Pico Pico.Dec Pico.Wire
namespace D

theorem sliceFrom_eq (b : Bytes) (n : Int) : Go.sliceFrom b n = Dec.sliceFrom b n := rfl
theorem sliceTo_eq (b : Bytes) (n : Int) : Go.sliceTo b n = Dec.sliceTo b n := rfl

theorem fieldNumberIsValid_eq (f : Int) : GoSrc.Decoder.fieldNumberIsValid f = numberIsValid f := rfl

theorem pendingField_eq (d : Dec) : GoSrc.Decoder.pendingField d = d.cur.pendingField := rfl

theorem fail_eq (field : Int) (msg : String) (d : Dec) :
    GoSrc.Decoder.fail field msg d = .ok (Dec.fail d field msg) := rfl

theorem Fail_eq (field : Int) (msg : String) (d : Dec) :
    GoSrc.Decoder.Fail field msg d = .ok (Dec.fail d field msg) := rfl

theorem nextField_eq (advance : Int) (d : Dec) :
    GoSrc.Decoder.nextField advance d = Dec.nextField d advance := by
  first
  | (simp [GoSrc.Decoder.nextField, Dec.nextField, fail_eq, Go.len, sliceFrom_eq, fieldDecodingDone]; done)
  | (simp only [GoSrc.Decoder.nextField, Dec.nextField, fail_eq, Go.len, sliceFrom_eq, fieldDecodingDone, bind, Res.bind, pure]
     grind)

theorem pushState_eq (message : Bytes) (d : Dec) :
    GoSrc.Decoder.pushState message d = Dec.pushState d message := by
  simp [GoSrc.Decoder.pushState, Dec.pushState, nextField_eq]

theorem popState_eq (d : Dec) : GoSrc.Decoder.popState d = .ok (Dec.popState d) := by
  unfold GoSrc.Decoder.popState Dec.popState
  rcases List.eq_nil_or_concat d.stack with h | ⟨l, f, h⟩
  · simp [h, fail_eq, Go.len]
  · have hlen : ((l.length : Int) + 1 - 1) = l.length := by omega
    have h0 : ¬ ((l.length : Int) + 1 = 0) := by omega
    have h1 : (l.length : Int) ≤ (l.length : Int) + 1 := by omega
    simp [h, Go.len, Go.index, Go.sliceTo, hlen, h0, h1]

/-! ### Loop -/

theorem loop1_eq {σ} (fn : DecM σ) (fuel : Nat) (d : Dec) (s : σ) :
    GoSrc.Decoder.Loop.loop1 fn fuel d s = Dec.loopN fn fuel d s := by
  induction fuel generalizing d s with
  | zero => rfl
  | succ n ih =>
    unfold GoSrc.Decoder.Loop.loop1 Dec.loopN
    simp only [bind, Res.bind]
    cases h : fn d s with
    | ok r =>
      obtain ⟨d', s'⟩ := r
      simp [fieldNumberIsValid_eq, pendingValid, Go.len, nextField_eq, ih, Int.natCast_inj]
    | panic w => rfl
    | outOfFuel => rfl


theorem Loop_eq {σ} (fn : DecM σ) (d : Dec) (s : σ) :
    GoSrc.Decoder.Loop fn d s = Dec.loop fn d s := by
  unfold GoSrc.Decoder.Loop Dec.loop
  simp only [nextField_eq, loop1_eq]
  cases hi : d.init <;> simp

theorem Message_eq {σ} (field : Int) (fn : DecM σ) (d : Dec) (s : σ) :
    GoSrc.Decoder.Message field fn d s = Dec.message field fn d s := by
  first
  | (unfold GoSrc.Decoder.Message Dec.message
     simp only [fail_eq, pushState_eq, Loop_eq, popState_eq, nextField_eq]
     simp; done)
  | (unfold GoSrc.Decoder.Message Dec.message
     simp only [fail_eq, pushState_eq, Loop_eq, popState_eq, nextField_eq, bind, Res.bind, pure]
     grind)

theorem PresentMessage_eq {σ} (field : Int) (fn : DecM σ) (d : Dec) (s : σ) :
    GoSrc.Decoder.PresentMessage field fn d s = Dec.message field fn d s := by
  first
  | (unfold GoSrc.Decoder.PresentMessage Dec.message
     simp only [fail_eq, pushState_eq, Loop_eq, popState_eq, nextField_eq]
     simp; done)
  | (unfold GoSrc.Decoder.PresentMessage
     simp only [Message_eq, fail_eq, pushState_eq, Loop_eq, popState_eq, nextField_eq, bind, Res.bind, pure]
     unfold Dec.message
     simp only [bind, Res.bind, pure]
     grind)

theorem RepeatedMessage_loop1_eq {σ} (field : Int) (fn : DecM σ) (fuel : Nat) (d : Dec) (s : σ) :
    Res.mapr Prod.snd (GoSrc.Decoder.RepeatedMessage.loop1 field fn fuel d s) = Dec.repeatedMessageN field fn fuel d s := by
  induction fuel generalizing d s with
  | zero => rfl
  | succ n ih =>
    unfold GoSrc.Decoder.RepeatedMessage.loop1 Dec.repeatedMessageN
    simp only [fail_eq, pushState_eq, popState_eq, nextField_eq]
    first
    | (simp [apply_ite (Res.mapr Prod.snd), Res.mapr_bind, ih]; done)
    | (simp only [bind, Res.bind, pure] at *; grind [Res.mapr])

theorem RepeatedMessage_eq {σ} (field : Int) (fn : DecM σ) (d : Dec) (s : σ) :
    GoSrc.Decoder.RepeatedMessage field fn d s = Dec.repeatedMessage field fn d s := by
  unfold GoSrc.Decoder.RepeatedMessage Dec.repeatedMessage
  rw [← RepeatedMessage_loop1_eq]
  cases h : GoSrc.Decoder.RepeatedMessage.loop1 field fn (d.cur.buffer.length + 2) d s with
  | ok r => obtain ⟨o, d', s'⟩ := r; cases o <;> rfl
  | panic w => rfl
  | outOfFuel => rfl

/-! RepeatedEnum -/
def addPat : Int → List Nat → List Nat := fun v acc => acc ++ [Go.toU 32 v]

theorem toU_wrapS_32 (x : Nat) : Go.toU 32 (Go.wrapS 32 (x : Int)) = x % 4294967296 := by
  unfold Go.toU Go.wrapS
  simp only [show (2:Int)^32 = 4294967296 from by decide, show (2:Int)^(32-1) = 2147483648 from by decide]
  split <;> omega

theorem packedEnum_shift (fuel : Nat) (p : Bytes) (a acc : List Nat) :
    readRepeatedEnumN.packedEnum fuel p (a ++ acc)
      = Res.mapr (fun r => (a ++ r.1, r.2)) (readRepeatedEnumN.packedEnum fuel p acc) := by
  induction fuel generalizing p acc with
  | zero => rfl
  | succ n ih =>
    unfold readRepeatedEnumN.packedEnum
    simp only []
    split
    · rfl
    · split
      · rfl
      · cases h : sliceFrom p (consumeVarint p).2 with
        | ok rest => simp [← ih, List.append_assoc]
        | panic w => rfl
        | outOfFuel => rfl

theorem RepeatedEnum_loop2_eq (field : Int) (fuel : Nat) (d : Dec) (packed : Bytes) (s : List Nat) :
    Res.mapr (fun r => (r.1, r.2.1, r.2.2.2)) (GoSrc.Decoder.RepeatedEnum.loop2 field addPat fuel d packed s)
      = Res.mapr (fun r => (if r.2 then some () else none,
                            if r.2 then Dec.fail d field "unable to parse Varint" else d, r.1))
          (readRepeatedEnumN.packedEnum fuel packed s) := by
  induction fuel generalizing packed s with
  | zero => rfl
  | succ n ih =>
    unfold GoSrc.Decoder.RepeatedEnum.loop2 readRepeatedEnumN.packedEnum
    simp only [fail_eq, sliceFrom_eq, Go.len]
    simp [apply_ite (Res.mapr _), Res.mapr_bind, ih, addPat, toU_wrapS_32]
    by_cases hp : packed = []
    · simp [hp]
    · have : 0 < packed.length := List.length_pos_iff.mpr hp
      simp [hp, this]

theorem RepeatedEnum_loop1_eq (field : Int) (fuel : Nat) (d : Dec) (s : List Nat) :
    Res.mapr Prod.snd (GoSrc.Decoder.RepeatedEnum.loop1 field addPat fuel d s)
      = Dec.readRepeatedEnumN field fuel d s := by
  induction fuel generalizing d s with
  | zero => rfl
  | succ n ih =>
    unfold GoSrc.Decoder.RepeatedEnum.loop1 Dec.readRepeatedEnumN
    simp only [fail_eq, nextField_eq]
    have key := RepeatedEnum_loop2_eq field ((consumeBytes d.cur.buffer).1.length + 1) d (consumeBytes d.cur.buffer).1 s
    have sh := packedEnum_shift ((consumeBytes d.cur.buffer).1.length + 1) (consumeBytes d.cur.buffer).1 s []
    rw [List.append_nil] at sh
    rw [sh] at key
    simp only [bind, Res.bind, pure] at *
    grind [Res.mapr, addPat, toU_wrapS_32]

theorem RepeatedEnum_eq (field : Int) (d : Dec) (s : List Nat) :
    GoSrc.Decoder.RepeatedEnum field addPat d s = Dec.readRepeatedEnum field d s := by
  unfold GoSrc.Decoder.RepeatedEnum Dec.readRepeatedEnum
  rw [← RepeatedEnum_loop1_eq]
  cases h : GoSrc.Decoder.RepeatedEnum.loop1 field addPat (d.cur.buffer.length + 2) d s with
  | ok r => obtain ⟨o, d', s'⟩ := r; cases o <;> rfl
  | panic w => rfl
  | outOfFuel => rfl

/-! UnrecognizedFields -/

theorem mask_test (exclude : Nat) (pf : Int) (h0 : 0 ≤ pf) (h1 : pf < 64) :
    ((exclude &&& ((1 <<< (Go.toU 64 pf)) % 18446744073709551616)) = 0) ↔ (exclude.testBit pf.toNat = false) := by
  have hu : Go.toU 64 pf = pf.toNat := by
    unfold Go.toU
    simp only [show (2:Int)^64 = 18446744073709551616 from by decide]
    omega
  rw [hu, Nat.one_shiftLeft]
  have hlt : 2 ^ pf.toNat < 18446744073709551616 := by
    have : pf.toNat < 64 := by omega
    calc 2 ^ pf.toNat < 2 ^ 64 := Nat.pow_lt_pow_right (by decide) this
      _ = 18446744073709551616 := by decide
  rw [Nat.mod_eq_of_lt hlt]
  constructor
  · intro h
    have := congrArg (fun x => Nat.testBit x pf.toNat) h
    simpa [Nat.testBit_and, Nat.testBit_two_pow_self] using this
  · intro h
    apply Nat.eq_of_testBit_eq
    intro j
    rw [Nat.testBit_and, Nat.testBit_two_pow]
    by_cases hj : pf.toNat = j
    · subst hj; simp [h]
    · simp [hj]

theorem UnrecognizedFields_loop1_eq (exclude : Nat) (fuel : Nat) (d : Dec) (out : Bytes) :
    Res.mapr Prod.snd (GoSrc.Decoder.UnrecognizedFields.loop1 exclude fuel d out)
      = Dec.unrecognizedFieldsN exclude fuel d out := by
  induction fuel generalizing d out with
  | zero => rfl
  | succ n ih =>
    unfold GoSrc.Decoder.UnrecognizedFields.loop1 Dec.unrecognizedFieldsN
    simp only [fail_eq, nextField_eq, sliceTo_eq, Go.appendTag]
    by_cases h0 : 0 ≤ d.cur.pendingField
    · by_cases h1 : d.cur.pendingField < 64
      · have hm := mask_test exclude d.cur.pendingField h0 h1
        have h64 : ¬ d.cur.pendingField ≥ 64 := by omega
        first
        | (simp [h0, h64, hm, apply_ite (Res.mapr _), Res.mapr_bind, ih]; done)
        | (simp only [bind, Res.bind, pure] at *; grind [Res.mapr])
      · have h64 : d.cur.pendingField ≥ 64 := by omega
        first
        | (simp [h0, h64, apply_ite (Res.mapr _), Res.mapr_bind, ih]; done)
        | (simp only [bind, Res.bind, pure] at *; grind [Res.mapr])
    · first
      | (simp [h0]; done)
      | (simp only [bind, Res.bind, pure] at *; grind [Res.mapr])

theorem UnrecognizedFields_eq (exclude : Nat) (d : Dec) (out : Bytes) :
    GoSrc.Decoder.UnrecognizedFields exclude d out = Dec.unrecognizedFields exclude d out := by
  unfold GoSrc.Decoder.UnrecognizedFields Dec.unrecognizedFields
  rw [← UnrecognizedFields_loop1_eq]
  cases h : GoSrc.Decoder.UnrecognizedFields.loop1 exclude (d.cur.buffer.length + 2) d out with
  | ok r => obtain ⟨o, d', s'⟩ := r; cases o <;> rfl
  | panic w => rfl
  | outOfFuel => rfl

end D
end GoTie
end Pico

namespace Pico.GoTie.D
open Pico Pico.Dec

/-- message.go `Unmarshal(data, msg)` as translated: a fresh decoder on `data`, `Loop(msg.Decode)`,
the latched error is the result -/
theorem Unmarshal_eq {σ} (data : Bytes) (decode : DecM σ) (s : σ) :
    GoSrc.Decoder.Unmarshal data decode s
      = (do let r ← Dec.loop decode (Dec.new data) s; pure (r.2, r.1.err)) := by
  unfold GoSrc.Decoder.Unmarshal
  simp only [Loop_eq]
  have : ({ Dec.new [] with cur := { (Dec.new []).cur with buffer := data } } : Dec) = Dec.new data := rfl
  rw [this]

end Pico.GoTie.D

namespace Pico.GoTie.D
open Pico Pico.Dec

theorem NewDecoder_eq (data : Bytes) : GoSrc.Decoder.NewDecoder data = .ok (Dec.new data) := rfl
theorem Err_eq (d : Dec) : GoSrc.Decoder.Err d = d.err := rfl

end Pico.GoTie.D
